/-
  G2: arg-reductions (`argmax`, `argmin`, `nanargmax`, `nanargmin`) through `_grouped_combine` (property C06).

  Part A (this file, pure lists): the PAIR LAW.  The chunk stage stores per block and label the pair
  (extreme value, global index of its first occurrence); `_grouped_combine` runs (max, argmax) / (min, argmin) over
  these pairs in block order.  We show that this yields (extreme over all members, smallest global index attaining
  it):

    pick1_flatten            the "leftmost best" operation is associative (strict weak order, NaN top / bottom)
    pairLaw_arg              `argmax` / `argmin`: for ALL inputs (NaN included: NaN is the greatest element)
    pairLaw_nanarg           `nanargmax` / `nanargmin`: blocks whose members are all NaN contribute the junk pair
                             (∓inf, first index of the block); correct when the overall extreme is not ∓inf
    counterexamples          the model (and the real library) returns a wrong index when a block is all-NaN for a
                             label and the genuine extreme of that label is ∓inf
-/
import FloxProofs.Grouped

namespace Flox.Grp

/-! ### the order used by the arg kernels -/

/-- `better y b`: does a new element `y` replace the current best `b`?  (exactly the lambdas in `kEval`) -/
def argBetter : Kernel → Val → Val → Bool
  | .argmax, y, b => Val.lt b y || (y.isNaN && !b.isNaN)
  | .argmin, y, b => Val.lt y b || (y.isNaN && !b.isNaN)
  | .nanargmax, y, b => Val.lt b y || (b.isNaN && !y.isNaN)
  | .nanargmin, y, b => Val.lt y b || (b.isNaN && !y.isNaN)
  | _, _, _ => false

theorem kEval_arg (k : Kernel) (hk : isArgKernel k = true) (xs : List Val) :
    kEval k xs = Val.ofNat (argBest (argBetter k) xs) := by
  cases k <;> simp [isArgKernel] at hk <;> rfl

theorem _root_.Flox.Val.lt_trans' {a b c : Val} (h1 : Val.lt a b = true) (h2 : Val.lt b c = true) : Val.lt a c = true := by
  cases a <;> cases b <;> cases c <;> simp_all [Val.lt] <;> grind

theorem _root_.Flox.Val.lt_negtrans {a b c : Val} (ha : a.isNaN = false) (hb : b.isNaN = false) (hc : c.isNaN = false)
    (h1 : Val.lt a b = false) (h2 : Val.lt b c = false) : Val.lt a c = false := by
  cases a <;> cases b <;> cases c <;> simp_all [Val.lt, Val.isNaN] <;> grind

theorem _root_.Flox.Val.lt_nan_left (a : Val) : Val.lt Val.nan a = false := by cases a <;> rfl
theorem _root_.Flox.Val.lt_nan_right (a : Val) : Val.lt a Val.nan = false := by cases a <;> rfl

theorem argBetter_trans (k : Kernel) {a b c : Val} (h1 : argBetter k c b = true) (h2 : argBetter k b a = true) :
    argBetter k c a = true := by
  cases k <;> simp only [argBetter, Bool.false_eq_true] at h1 h2 ⊢ <;>
    cases a <;> cases b <;> cases c <;> simp_all [Val.lt, Val.isNaN] <;> grind

theorem argBetter_negtrans (k : Kernel) {a b c : Val} (h1 : argBetter k c b = false) (h2 : argBetter k b a = false) :
    argBetter k c a = false := by
  cases k <;> simp only [argBetter] at h1 h2 ⊢ <;>
    cases a <;> cases b <;> cases c <;> simp_all [Val.lt, Val.isNaN] <;> grind

/-! ### leftmost best element of a list of (value, index) pairs -/

abbrev VI := Val × Val

/-- keep the current best unless the new element is strictly better -/
def pickOp (k : Kernel) (a b : VI) : VI := if argBetter k b.1 a.1 then b else a

/-- leftmost best pair -/
def pick1 (k : Kernel) : List VI → VI
  | [] => (Val.nan, Val.nan)
  | p :: ps => ps.foldl (pickOp k) p

theorem pickOp_assoc (k : Kernel) (a b c : VI) : pickOp k (pickOp k a b) c = pickOp k a (pickOp k b c) := by
  unfold pickOp
  by_cases hba : argBetter k b.1 a.1 = true
  · by_cases hcb : argBetter k c.1 b.1 = true
    · have hca := argBetter_trans k hcb hba
      simp [hba, hcb, hca]
    · simp [hba, hcb]
  · by_cases hcb : argBetter k c.1 b.1 = true
    · simp [hba, hcb]
    · have hca := argBetter_negtrans k (by simpa using hcb) (by simpa using hba)
      simp [hba, hcb, hca]

theorem foldl_pickOp_init (k : Kernel) (a b : VI) (ps : List VI) :
    ps.foldl (pickOp k) (pickOp k a b) = pickOp k a (ps.foldl (pickOp k) b) := by
  induction ps generalizing b with
  | nil => rfl
  | cons p ps ih => simp only [List.foldl_cons]; rw [pickOp_assoc, ih]

theorem pick1_append (k : Kernel) (xs ys : List VI) (hx : xs ≠ []) (hy : ys ≠ []) :
    pick1 k (xs ++ ys) = pickOp k (pick1 k xs) (pick1 k ys) := by
  cases xs with
  | nil => exact absurd rfl hx
  | cons x xs =>
    cases ys with
    | nil => exact absurd rfl hy
    | cons y ys =>
      simp only [pick1, List.cons_append, List.foldl_append, List.foldl_cons]
      exact foldl_pickOp_init k _ y ys

/-- **associativity of "leftmost best"**: picking per block and then among the blocks' winners = picking once -/
theorem pick1_flatten (k : Kernel) (pss : List (List VI)) (hne : pss ≠ []) (hall : ∀ ps ∈ pss, ps ≠ []) :
    pick1 k (pss.map (pick1 k)) = pick1 k pss.flatten := by
  induction pss with
  | nil => exact absurd rfl hne
  | cons ps pss ih =>
    by_cases hp : pss = []
    · subst hp
      have : ps ≠ [] := hall ps (by simp)
      cases ps with
      | nil => exact absurd rfl this
      | cons p ps => simp [pick1]
    · have hps : ps ≠ [] := hall ps (by simp)
      have hfl : pss.flatten ≠ [] := by
        cases pss with
        | nil => exact absurd rfl hp
        | cons q qs =>
          have : q ≠ [] := hall q (by simp)
          simp [this]
      have h1 : pick1 k ((ps :: pss).map (pick1 k)) = pickOp k (pick1 k ps) (pick1 k (pss.map (pick1 k))) := by
        have := pick1_append k [pick1 k ps] (pss.map (pick1 k)) (by simp) (by simpa using hp)
        simpa [pick1] using this
      rw [h1, ih hp (fun q hq => hall q (by simp [hq])), List.flatten_cons, pick1_append k ps _ hps hfl]

/-! ### `argBest` (index based, as in `kEval`) is `pick1` -/

theorem argBest_go_eq (k : Kernel) (full : List VI) (d : VI) (rest : List VI) (i bi : Nat) (best : Val)
    (hdrop : full.drop i = rest) (hbest : best = (full.getD bi d).1) :
    full.getD (argBest.go (argBetter k) best bi i (rest.map (·.1))) d
      = rest.foldl (pickOp k) (full.getD bi d) := by
  induction rest generalizing i bi best with
  | nil => simp [argBest.go]
  | cons y ys ih =>
    have hi : i < full.length := by
      apply Classical.byContradiction
      intro h
      have : full.drop i = [] := List.drop_eq_nil_of_le (by omega)
      rw [this] at hdrop; cases hdrop
    have hy : full.getD i d = y := by
      have := List.getElem_drop (xs := full) (i := i) (j := 0) (h := by simp; omega)
      simp only [hdrop, List.getElem_cons_zero, Nat.add_zero] at this
      simp [List.getD_eq_getElem?_getD, hi, this]
    have hdrop' : full.drop (i + 1) = ys := by
      have := congrArg (List.drop 1) hdrop
      simpa [List.drop_drop, Nat.add_comm] using this
    simp only [List.map_cons, argBest.go, List.foldl_cons]
    by_cases hb : argBetter k y.1 best = true
    · simp only [hb, if_true]
      rw [ih (i + 1) i y.1 hdrop' (by rw [hy])]
      have : pickOp k (full.getD bi d) y = full.getD i d := by
        unfold pickOp
        rw [← hbest, if_pos hb, hy]
      rw [this]
    · simp only [hb, Bool.false_eq_true, if_false]
      rw [ih (i + 1) bi best hdrop' hbest]
      have : pickOp k (full.getD bi d) y = full.getD bi d := by
        unfold pickOp
        rw [← hbest, if_neg hb]
      rw [this]

theorem getD_argBest (k : Kernel) (ps : List VI) (d : VI) (hne : ps ≠ []) :
    ps.getD (argBest (argBetter k) (ps.map (·.1))) d = pick1 k ps := by
  cases ps with
  | nil => exact absurd rfl hne
  | cons p ps =>
    simp only [List.map_cons, argBest, pick1]
    have := argBest_go_eq k (p :: ps) d ps 1 0 p.1 (by simp) (by simp)
    simpa using this

/-- index extraction as done by `argGrouped` / `chunk_argreduce` -/
def natOf : Val → Nat
  | .fin q => q.num.toNat
  | _ => 0

theorem natOf_ofNat (n : Nat) : natOf (Val.ofNat n) = n := by
  simp [natOf, Val.ofNat]

/-- what the arg kernel `k` selects from the member pairs `ps` of one label: the global index of the first extreme
    (NaN members dropped first for `nanarg*`); `junk` when nothing is left -/
def argPick (k : Kernel) (junk : Val) (ps : List VI) : Val :=
  let ps' := if k.skipsNaN then ps.filter (fun p => !p.1.isNaN) else ps
  if ps'.isEmpty then junk else (ps'.getD (natOf (kEval k (ps'.map (·.1)))) (Val.nan, Val.nan)).2

theorem argPick_noskip (k : Kernel) (hk : isArgKernel k = true) (hs : k.skipsNaN = false) (junk : Val) (ps : List VI)
    (hne : ps ≠ []) : argPick k junk ps = (pick1 k ps).2 := by
  have : ps.isEmpty = false := by simpa using hne
  simp only [argPick, hs, Bool.false_eq_true, if_false, this, kEval_arg k hk, natOf_ofNat]
  rw [getD_argBest k ps _ hne]

theorem argPick_skip (k : Kernel) (hk : isArgKernel k = true) (hs : k.skipsNaN = true) (junk : Val) (ps : List VI) :
    argPick k junk ps
      = if ps.filter (fun p => !p.1.isNaN) = [] then junk else (pick1 k (ps.filter (fun p => !p.1.isNaN))).2 := by
  by_cases hne : ps.filter (fun p => !p.1.isNaN) = []
  · simp [argPick, hs, hne]
  · have : (ps.filter (fun p => !p.1.isNaN)).isEmpty = false := by simpa using hne
    simp only [argPick, hs, if_true, this, Bool.false_eq_true, if_false, hne, kEval_arg k hk, natOf_ofNat]
    rw [getD_argBest k _ _ hne]

/-! ### the blueprint of an arg-reduction -/

/-- chunk kernel of the value column -/
def argChunkVal : Kernel → Kernel
  | .argmax => .max | .argmin => .min | .nanargmax => .nanmax | .nanargmin => .nanmin | k => k

/-- combine kernels (value column, index column): `nanarg*` are combined with the plain kernels -/
def argCmbVal : Kernel → Kernel
  | .argmax | .nanargmax => .max
  | _ => .min

def argCmbArg : Kernel → Kernel
  | .argmax | .nanargmax => .argmax
  | _ => .argmin

/-- intermediate fill of the value column -/
def argFill : Kernel → Val
  | .argmax | .nanargmax => Val.ninf
  | _ => Val.pinf

def argExt : Kernel → Val → Val → Val
  | .argmax | .nanargmax => Val.max
  | _ => Val.min

theorem pickOp_fst (k : Kernel) (hk : k = .argmax ∨ k = .argmin) (a b : VI) :
    (pickOp k a b).1 = argExt k a.1 b.1 := by
  obtain ⟨a1, a2⟩ := a
  obtain ⟨b1, b2⟩ := b
  rcases hk with rfl | rfl <;>
    cases a1 <;> cases b1 <;> simp [pickOp, argBetter, argExt, Val.lt, Val.isNaN, Val.max, Val.min] <;> grind

theorem foldl_pickOp_fst (k : Kernel) (hk : k = .argmax ∨ k = .argmin) (a : VI) (ps : List VI) :
    (ps.foldl (pickOp k) a).1 = (ps.map (·.1)).foldl (argExt k) a.1 := by
  induction ps generalizing a with
  | nil => rfl
  | cons p ps ih => simp only [List.foldl_cons, List.map_cons, ih, pickOp_fst k hk]

/-- the value of the leftmost best pair is the NumPy `max` / `min` of the values (NaN-propagating) -/
theorem pick1_fst (k : Kernel) (hk : k = .argmax ∨ k = .argmin) (ps : List VI) (hne : ps ≠ []) :
    (pick1 k ps).1 = kEval (argCmbVal k) (ps.map (·.1)) := by
  cases ps with
  | nil => exact absurd rfl hne
  | cons p ps =>
    simp only [pick1, foldl_pickOp_fst k hk, List.map_cons]
    rcases hk with rfl | rfl <;> rfl

/-- what the chunk stage stores for a label with member pairs `ps` (value column, index column) -/
def blockPair (k : Kernel) (junk : Val) (ps : List VI) : VI :=
  (blockVal (argChunkVal k) (argFill k) (ps.map (·.1)), argPick k junk ps)

/-- what `_grouped_combine` computes from the stacked per-block pairs `qs` of a label -/
def combinePair (k : Kernel) (junk : Val) (qs : List VI) : VI :=
  (blockVal (argCmbVal k) (argFill k) (qs.map (·.1)), argPick (argCmbArg k) junk qs)

theorem blockPair_noskip (k : Kernel) (hk : k = .argmax ∨ k = .argmin) (junk : Val) (ps : List VI) (hne : ps ≠ []) :
    blockPair k junk ps = pick1 k ps := by
  have hne' : ps.map (·.1) ≠ [] := by simpa using hne
  have h1 : isArgKernel k = true := by rcases hk with rfl | rfl <;> rfl
  have h2 : k.skipsNaN = false := by rcases hk with rfl | rfl <;> rfl
  have h3 : (argChunkVal k).skipsNaN = false := by rcases hk with rfl | rfl <;> rfl
  have h4 : argChunkVal k = argCmbVal k := by rcases hk with rfl | rfl <;> rfl
  unfold blockPair
  rw [EngineFlox.blockVal_noskip _ _ _ h3 hne', argPick_noskip k h1 h2 junk ps hne, h4, ← pick1_fst k hk ps hne]

theorem combinePair_noskip (k : Kernel) (hk : k = .argmax ∨ k = .argmin) (junk : Val) (qs : List VI) (hne : qs ≠ []) :
    combinePair k junk qs = pick1 k qs := by
  have : argCmbArg k = k := by rcases hk with rfl | rfl <;> rfl
  have h4 : argChunkVal k = argCmbVal k := by rcases hk with rfl | rfl <;> rfl
  have := blockPair_noskip k hk junk qs hne
  unfold blockPair at this
  unfold combinePair
  rw [‹argCmbArg k = k›, ← h4]
  exact this

/-- **PAIR LAW, `argmax` / `argmin`** (no hypothesis on the data; NaN members included): combining the per-block
    (extreme, global index of its first occurrence) pairs in block order with (max, argmax) gives the pair of the
    concatenated members, i.e. (extreme over all, smallest global index attaining it). -/
theorem pairLaw_arg (k : Kernel) (hk : k = .argmax ∨ k = .argmin) (junkB : List VI → Val) (junkC junk : Val)
    (pss : List (List VI)) (hne : pss ≠ []) (hall : ∀ ps ∈ pss, ps ≠ []) :
    combinePair k junkC (pss.map fun ps => blockPair k (junkB ps) ps) = blockPair k junk pss.flatten := by
  have hfl : pss.flatten ≠ [] := by
    cases pss with
    | nil => exact absurd rfl hne
    | cons q qs =>
      have : q ≠ [] := hall q (by simp)
      simp [this]
  have hmap : (pss.map fun ps => blockPair k (junkB ps) ps) = pss.map (pick1 k) := by
    apply List.map_congr_left
    intro ps hps
    exact blockPair_noskip k hk _ ps (hall ps hps)
  rw [hmap, combinePair_noskip k hk _ _ (by simpa using hne), blockPair_noskip k hk _ _ hfl,
    pick1_flatten k pss hne hall]

/-! ### `nanargmax` / `nanargmin` -/

theorem argBetter_nan_eq (k : Kernel) (hk : k = .nanargmax ∨ k = .nanargmin) {y b : Val}
    (hy : y.isNaN = false) (hb : b.isNaN = false) : argBetter k y b = argBetter (argCmbArg k) y b := by
  rcases hk with rfl | rfl <;> simp [argBetter, argCmbArg, hy, hb]

theorem pickOp_nan_eq (k : Kernel) (hk : k = .nanargmax ∨ k = .nanargmin) (a b : VI)
    (ha : a.1.isNaN = false) (hb : b.1.isNaN = false) : pickOp k a b = pickOp (argCmbArg k) a b := by
  unfold pickOp
  rw [argBetter_nan_eq k hk hb ha]

theorem pickOp_mem (k : Kernel) (a b : VI) : pickOp k a b = a ∨ pickOp k a b = b := by
  unfold pickOp; split <;> simp

theorem foldl_pickOp_nan_eq (k : Kernel) (hk : k = .nanargmax ∨ k = .nanargmin) (a : VI) (ps : List VI)
    (ha : a.1.isNaN = false) (hps : ∀ p ∈ ps, p.1.isNaN = false) :
    ps.foldl (pickOp k) a = ps.foldl (pickOp (argCmbArg k)) a := by
  induction ps generalizing a with
  | nil => rfl
  | cons p ps ih =>
    have hp := hps p (by simp)
    simp only [List.foldl_cons]
    rw [pickOp_nan_eq k hk a p ha hp]
    apply ih
    · rcases pickOp_mem (argCmbArg k) a p with h | h <;> rw [h] <;> assumption
    · intro q hq; exact hps q (by simp [hq])

theorem pick1_nan_eq (k : Kernel) (hk : k = .nanargmax ∨ k = .nanargmin) (ps : List VI)
    (hps : ∀ p ∈ ps, p.1.isNaN = false) : pick1 k ps = pick1 (argCmbArg k) ps := by
  cases ps with
  | nil => rfl
  | cons p ps =>
    exact foldl_pickOp_nan_eq k hk p ps (hps p (by simp)) (fun q hq => hps q (by simp [hq]))

/-- the non-NaN member pairs -/
abbrev validP (ps : List VI) : List VI := ps.filter (fun p => !p.1.isNaN)

theorem validP_nonNaN (ps : List VI) : ∀ p ∈ validP ps, p.1.isNaN = false := by
  intro p hp
  simpa using (List.mem_filter.mp hp).2

theorem dropNaN_map_fst (ps : List VI) : dropNaN (ps.map (·.1)) = (validP ps).map (·.1) := by
  simp [dropNaN, validP, List.filter_map, Function.comp_def]

theorem argCmb_cases (k : Kernel) (hk : k = .nanargmax ∨ k = .nanargmin) :
    argCmbArg k = .argmax ∨ argCmbArg k = .argmin := by
  rcases hk with rfl | rfl
  · left; rfl
  · right; rfl

/-- chunk stage of `nanarg*`: the leftmost extreme among the valid members; the junk pair (∓inf, `junk`) when the
    label has no valid member in the block -/
theorem blockPair_skip (k : Kernel) (hk : k = .nanargmax ∨ k = .nanargmin) (junk : Val) (ps : List VI) :
    blockPair k junk ps = if validP ps = [] then (argFill k, junk) else pick1 (argCmbArg k) (validP ps) := by
  have h1 : isArgKernel k = true := by rcases hk with rfl | rfl <;> rfl
  have h2 : k.skipsNaN = true := by rcases hk with rfl | rfl <;> rfl
  have hval : blockVal (argChunkVal k) (argFill k) (ps.map (·.1))
      = fold1 (argExt k) (argFill k) ((validP ps).map (·.1)) := by
    rcases hk with rfl | rfl
    · simp only [argChunkVal, argFill, blockVal_nanmax, dropNaN_map_fst]; rfl
    · simp only [argChunkVal, argFill, blockVal_nanmin, dropNaN_map_fst]; rfl
  unfold blockPair
  rw [hval, argPick_skip k h1 h2]
  by_cases hv : validP ps = []
  · simp only [validP] at hv
    simp [hv, fold1]
  · have hv' : ps.filter (fun p => !p.1.isNaN) ≠ [] := hv
    simp only [hv', if_false]
    rw [pick1_nan_eq k hk _ (validP_nonNaN ps)]
    have := pick1_fst (argCmbArg k) (argCmb_cases k hk) (validP ps) hv
    apply Prod.ext
    · simp only
      rw [this]
      rcases hk with rfl | rfl
      · cases hvp : (validP ps).map (·.1) with
        | nil => exact absurd (List.map_eq_nil_iff.mp hvp) hv
        | cons x xs => rfl
      · cases hvp : (validP ps).map (·.1) with
        | nil => exact absurd (List.map_eq_nil_iff.mp hvp) hv
        | cons x xs => rfl
    · rfl

theorem combinePair_skip (k : Kernel) (hk : k = .nanargmax ∨ k = .nanargmin) (junk : Val) (qs : List VI)
    (hne : qs ≠ []) : combinePair k junk qs = pick1 (argCmbArg k) qs := by
  have : combinePair k junk qs = combinePair (argCmbArg k) junk qs := by
    rcases hk with rfl | rfl <;> rfl
  rw [this, combinePair_noskip _ (argCmb_cases k hk) junk qs hne]

/-! ### junk pairs never win against a valid extreme different from the fill -/

theorem argBetter_asymm (k : Kernel) {a b : Val} (h : argBetter k a b = true) : argBetter k b a = false := by
  cases k <;> simp only [argBetter, Bool.false_eq_true] at h ⊢ <;>
    cases a <;> cases b <;> simp_all [Val.lt, Val.isNaN] <;> grind

/-- nothing in the list beats the leftmost best -/
theorem foldl_pickOp_best (k : Kernel) (a : VI) (ps : List VI) :
    ∀ p ∈ a :: ps, argBetter k p.1 (ps.foldl (pickOp k) a).1 = false := by
  induction ps generalizing a with
  | nil =>
    intro p hp
    simp only [List.mem_singleton] at hp
    subst hp
    simp only [List.foldl_nil]
    cases h : argBetter k p.1 p.1 with
    | false => rfl
    | true => have := argBetter_asymm k h; rw [h] at this; cases this
  | cons q qs ih =>
    intro p hp
    simp only [List.foldl_cons]
    have hq := ih (pickOp k a q)
    rcases List.mem_cons.mp hp with rfl | hp'
    · -- `p = a`
      have h1 : argBetter k p.1 (pickOp k p q).1 = false := by
        unfold pickOp
        by_cases hb : argBetter k q.1 p.1 = true
        · simp only [hb, if_true]; exact argBetter_asymm k hb
        · simp only [hb, Bool.false_eq_true, if_false]
          cases h : argBetter k p.1 p.1 with
          | false => rfl
          | true => have := argBetter_asymm k h; rw [h] at this; cases this
      have h2 := hq (pickOp k p q) (by simp)
      exact argBetter_negtrans k h1 h2
    · rcases List.mem_cons.mp hp' with rfl | hp''
      · have h1 : argBetter k p.1 (pickOp k a p).1 = false := by
          unfold pickOp
          by_cases hb : argBetter k p.1 a.1 = true
          · simp only [hb, if_true]
            cases h : argBetter k p.1 p.1 with
            | false => rfl
            | true => have := argBetter_asymm k h; rw [h] at this; cases this
          · simp only [hb, Bool.false_eq_true, if_false]
        have h2 := hq (pickOp k a p) (by simp)
        exact argBetter_negtrans k h1 h2
      · exact hq p (by simp [hp''])

theorem pick1_best (k : Kernel) (ps : List VI) : ∀ p ∈ ps, argBetter k p.1 (pick1 k ps).1 = false := by
  cases ps with
  | nil => intro p hp; simp at hp
  | cons a ps => exact foldl_pickOp_best k a ps

theorem foldl_pickOp_mem (k : Kernel) (a : VI) (ps : List VI) : ps.foldl (pickOp k) a ∈ a :: ps := by
  induction ps generalizing a with
  | nil => simp
  | cons q qs ih =>
    simp only [List.foldl_cons]
    have := ih (pickOp k a q)
    rcases pickOp_mem k a q with h | h
    · rw [h] at this ⊢
      rcases List.mem_cons.mp this with e | e
      · simp [e]
      · simp [e]
    · rw [h] at this ⊢
      rcases List.mem_cons.mp this with e | e
      · simp [e]
      · simp [e]

theorem pick1_mem (k : Kernel) (ps : List VI) (hne : ps ≠ []) : pick1 k ps ∈ ps := by
  cases ps with
  | nil => exact absurd rfl hne
  | cons a ps => exact foldl_pickOp_mem k a ps

theorem pickOp_of_not_better (k : Kernel) (a b : VI) (h : argBetter k b.1 a.1 = false) : pickOp k a b = a := by
  simp [pickOp, h]

theorem pickOp_of_better (k : Kernel) (a b : VI) (h : argBetter k b.1 a.1 = true) : pickOp k a b = b := by
  simp [pickOp, h]

theorem pick1_singleton (k : Kernel) (a : VI) : pick1 k [a] = a := rfl

theorem pick1_cons (k : Kernel) (q : VI) (qs : List VI) (hne : qs ≠ []) :
    pick1 k (q :: qs) = pickOp k q (pick1 k qs) := by
  have := pick1_append k [q] qs (by simp) hne
  simpa [pick1] using this

/-- the combine kernel never prefers the fill value over a non-NaN value … -/
theorem argBetter_fill (k : Kernel) (hk : k = .argmax ∨ k = .argmin) (f : Val)
    (hf : (k = .argmax ∧ f = Val.ninf) ∨ (k = .argmin ∧ f = Val.pinf)) {a : Val} (ha : a.isNaN = false) :
    argBetter k f a = false := by
  rcases hf with ⟨rfl, rfl⟩ | ⟨rfl, rfl⟩ <;> cases a <;> simp_all [argBetter, Val.lt, Val.isNaN]

/-- … and prefers every other non-NaN value over the fill value -/
theorem argBetter_over_fill (k : Kernel) (f : Val)
    (hf : (k = .argmax ∧ f = Val.ninf) ∨ (k = .argmin ∧ f = Val.pinf)) {a : Val} (ha : a.isNaN = false)
    (hne : a ≠ f) : argBetter k a f = true := by
  rcases hf with ⟨rfl, rfl⟩ | ⟨rfl, rfl⟩ <;> cases a <;> simp_all [argBetter, Val.lt, Val.isNaN]

/-- two winners are interchangeable: equal, or both at the fill level -/
def RelV (f : Val) (m g : VI) : Prop := m = g ∨ (m.1 = f ∧ g.1 = f)

/-- dropping the junk pairs (value = fill) of a list of non-NaN pairs changes the winner at most at the fill level -/
theorem pick1_drop_junk {β} (k : Kernel) (f : Val)
    (hf : (k = .argmax ∧ f = Val.ninf) ∨ (k = .argmin ∧ f = Val.pinf))
    (F : β → VI) (good : β → Bool) (bs : List β)
    (hnn : ∀ b ∈ bs, (F b).1.isNaN = false) (hjunk : ∀ b ∈ bs, good b = false → (F b).1 = f) (hne : bs ≠ []) :
    (bs.filter good = [] → (pick1 k (bs.map F)).1 = f) ∧
    (bs.filter good ≠ [] → RelV f (pick1 k (bs.map F)) (pick1 k ((bs.filter good).map F))) := by
  have hk : k = .argmax ∨ k = .argmin := by rcases hf with ⟨h, _⟩ | ⟨h, _⟩ <;> simp [h]
  induction bs with
  | nil => exact absurd rfl hne
  | cons b bs ih =>
    have hnb := hnn b (by simp)
    by_cases hbs : bs = []
    · subst hbs
      by_cases hg : good b = true
      · simp [hg, pick1_singleton, RelV]
      · have hg' : good b = false := by simpa using hg
        simp [hg', pick1_singleton, hjunk b (by simp) hg']
    · have ih' := ih (fun x hx => hnn x (by simp [hx])) (fun x hx => hjunk x (by simp [hx])) hbs
      have hmapne : bs.map F ≠ [] := by simpa using hbs
      have hmnn : (pick1 k (bs.map F)).1.isNaN = false := by
        have := pick1_mem k (bs.map F) hmapne
        obtain ⟨x, hx, e⟩ := List.mem_map.mp this
        rw [← e]; exact hnn x (by simp [hx])
      rw [List.map_cons, pick1_cons k _ _ hmapne]
      by_cases hg : good b = true
      · -- a good head
        simp only [List.filter_cons, hg, if_true, List.map_cons]
        refine ⟨fun h => by simp at h, fun _ => ?_⟩
        by_cases hfl : bs.filter good = []
        · have hm := ih'.1 hfl
          rw [hfl, List.map_nil, pick1_singleton]
          left
          apply pickOp_of_not_better
          rw [hm]
          exact argBetter_fill k hk f hf hnb
        · have hfne : (bs.filter good).map F ≠ [] := by simpa using hfl
          rw [pick1_cons k _ _ hfne]
          rcases ih'.2 hfl with h | ⟨h1, h2⟩
          · left; rw [h]
          · left
            rw [pickOp_of_not_better k _ _ (by rw [h1]; exact argBetter_fill k hk f hf hnb),
              pickOp_of_not_better k _ _ (by rw [h2]; exact argBetter_fill k hk f hf hnb)]
      · -- a junk head
        have hg' : good b = false := by simpa using hg
        have hbf := hjunk b (by simp) hg'
        simp only [List.filter_cons, hg', Bool.false_eq_true, if_false]
        constructor
        · intro hfl
          have hm := ih'.1 hfl
          rcases pickOp_mem k (F b) (pick1 k (bs.map F)) with h | h <;> rw [h]
          · exact hbf
          · exact hm
        · intro hfl
          rcases ih'.2 hfl with h | ⟨h1, h2⟩
          · rw [h]
            have hgn : (pick1 k ((bs.filter good).map F)).1.isNaN = false := by rw [← h]; exact hmnn
            by_cases hv : (pick1 k ((bs.filter good).map F)).1 = f
            · right
              refine ⟨?_, hv⟩
              rcases pickOp_mem k (F b) (pick1 k ((bs.filter good).map F)) with h' | h' <;> rw [h']
              · exact hbf
              · exact hv
            · left
              apply pickOp_of_better
              rw [hbf]
              exact argBetter_over_fill k f hf hgn hv
          · right
            refine ⟨?_, h2⟩
            rcases pickOp_mem k (F b) (pick1 k (bs.map F)) with h' | h' <;> rw [h']
            · exact hbf
            · exact h1

theorem validP_flatten (pss : List (List VI)) : validP pss.flatten = (pss.map validP).flatten := by
  induction pss with
  | nil => rfl
  | cons ps pss ih => simp [validP, List.filter_append] at ih ⊢

theorem argFill_cases (k : Kernel) (hk : k = .nanargmax ∨ k = .nanargmin) :
    (argCmbArg k = .argmax ∧ argFill k = Val.ninf) ∨ (argCmbArg k = .argmin ∧ argFill k = Val.pinf) := by
  rcases hk with rfl | rfl
  · left; exact ⟨rfl, rfl⟩
  · right; exact ⟨rfl, rfl⟩

/-- (H_argfill) the label has a valid (non-NaN) member different from the intermediate fill ∓inf of the value
    column, i.e. its `nanmax` is not `-inf` (`nanmin` not `+inf`) -/
def HArgFill (k : Kernel) (vs : List Val) : Prop := ∃ v ∈ vs, v.isNaN = false ∧ v ≠ argFill k

instance (k : Kernel) (vs : List Val) : Decidable (HArgFill k vs) := by unfold HArgFill; infer_instance

/-- **PAIR LAW, `nanargmax` / `nanargmin`.**  Blocks in which all members of the label are NaN contribute the junk pair
    (∓inf, `junkB`) (in flox: the global index of the block's first element, whatever its label).  When the label has
    a valid member different from ∓inf, combining the per-block pairs in block order with (max, argmax) still gives
    (extreme over the valid members, smallest global index attaining it). -/
theorem pairLaw_nanarg (k : Kernel) (hk : k = .nanargmax ∨ k = .nanargmin) (junkB : List VI → Val)
    (junkC junk : Val) (pss : List (List VI)) (hne : pss ≠ [])
    (H_argfill : HArgFill k (pss.flatten.map (·.1))) :
    combinePair k junkC (pss.map fun ps => blockPair k (junkB ps) ps) = blockPair k junk pss.flatten := by
  have hf := argFill_cases k hk
  have hck := argCmb_cases k hk
  obtain ⟨v, hv, hvn, hvf⟩ := H_argfill
  obtain ⟨p, hp, rfl⟩ := List.mem_map.mp hv
  have hpW : p ∈ validP pss.flatten := List.mem_filter.mpr ⟨hp, by simpa using hvn⟩
  have hW : validP pss.flatten ≠ [] := fun h => by rw [h] at hpW; simp at hpW
  let F : List VI → VI := fun ps => blockPair k (junkB ps) ps
  let good : List VI → Bool := fun ps => !(validP ps).isEmpty
  have hF : ∀ ps, F ps = if validP ps = [] then (argFill k, junkB ps) else pick1 (argCmbArg k) (validP ps) :=
    fun ps => blockPair_skip k hk _ ps
  have hfnn : (argFill k).isNaN = false := by rcases hk with rfl | rfl <;> rfl
  have hnn : ∀ ps ∈ pss, (F ps).1.isNaN = false := by
    intro ps _
    rw [hF]
    split
    · exact hfnn
    · rename_i h
      exact validP_nonNaN ps _ (pick1_mem _ _ h)
  have hjunk : ∀ ps ∈ pss, good ps = false → (F ps).1 = argFill k := by
    intro ps _ hg
    have : validP ps = [] := by simpa [good] using hg
    rw [hF, if_pos this]
  have hgoodne : pss.filter good ≠ [] := by
    obtain ⟨ps, hps, hpps⟩ := List.mem_flatten.mp hp
    have : ps ∈ pss.filter good := by
      refine List.mem_filter.mpr ⟨hps, ?_⟩
      have : p ∈ validP ps := List.mem_filter.mpr ⟨hpps, by simpa using hvn⟩
      simp only [good, Bool.not_eq_true', List.isEmpty_eq_false_iff]
      intro h; rw [h] at this; simp at this
    intro h; rw [h] at this; simp at this
  have hrel := (pick1_drop_junk (argCmbArg k) (argFill k) hf F good pss hnn hjunk hne).2 hgoodne
  have hgmap : (pss.filter good).map F = ((pss.filter good).map validP).map (pick1 (argCmbArg k)) := by
    rw [List.map_map]
    apply List.map_congr_left
    intro ps hps
    have : validP ps ≠ [] := by
      have := (List.mem_filter.mp hps).2
      simpa [good] using this
    simp only [Function.comp, hF, this, if_false]
  have hflat : ((pss.filter good).map validP).flatten = validP pss.flatten := by
    rw [validP_flatten, flatten_map_filter]
    intro ps _ hg
    simpa [good] using hg
  have hRHS : blockPair k junk pss.flatten = pick1 (argCmbArg k) (validP pss.flatten) := by
    rw [blockPair_skip k hk, if_neg hW]
  have hLHS : combinePair k junkC (pss.map F) = pick1 (argCmbArg k) (pss.map F) :=
    combinePair_skip k hk _ _ (by simpa using hne)
  show combinePair k junkC (pss.map F) = _
  rw [hLHS, hRHS]
  rw [hgmap, pick1_flatten _ _ (by simpa using hgoodne) (by
      intro q hq
      obtain ⟨ps, hps, rfl⟩ := List.mem_map.mp hq
      have := (List.mem_filter.mp hps).2
      simpa [good] using this), hflat] at hrel
  rcases hrel with h | ⟨_, h2⟩
  · exact h
  · exfalso
    have hbest := pick1_best (argCmbArg k) (validP pss.flatten) p hpW
    rw [h2, argBetter_over_fill (argCmbArg k) (argFill k) hf hvn hvf] at hbest
    cases hbest

end Flox.Grp
