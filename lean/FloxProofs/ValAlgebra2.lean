/-
  More algebraic laws of `Val`: commutativity / associativity of the IEEE product, the boolean
  monoids behind `all` / `any`, and NaN-freeness facts used by the decomposition proofs.
-/
import FloxProofs.ValAlgebra

namespace Flox
namespace Val

/-! ### sign of a product of rationals -/

theorem rat_mul_neg_iff (a b : Rat) : a * b < 0 ↔ (a < 0 ∧ 0 < b) ∨ (0 < a ∧ b < 0) := by
  have htri : a < 0 ∨ a = 0 ∨ 0 < a := by grind
  rcases htri with ha | ha | ha
  · -- a < 0
    have hna : 0 < -a := by grind
    have h := Rat.mul_neg_iff_of_pos_left (a := -a) (b := b) hna
    have h' := Rat.mul_pos_iff_of_pos_left (a := -a) (b := b) hna
    rw [Rat.neg_mul] at h h'
    constructor
    · intro hab
      left
      refine ⟨ha, ?_⟩
      apply h'.mp
      grind
    · intro hh
      rcases hh with ⟨_, hb⟩ | ⟨ha', _⟩
      · have := h'.mpr hb
        grind
      · grind
  · subst ha
    simp
  · have h := Rat.mul_neg_iff_of_pos_left (a := a) (b := b) ha
    constructor
    · intro hab
      right
      exact ⟨ha, h.mp hab⟩
    · intro hh
      rcases hh with ⟨ha', _⟩ | ⟨_, hb⟩
      · grind
      · exact h.mpr hb

theorem rat_mul_eq_zero_iff (a b : Rat) : a * b = 0 ↔ a = 0 ∨ b = 0 := Rat.mul_eq_zero

/-! ### multiplication -/

@[simp] theorem mul_nan_left (a : Val) : mul nan a = nan := by cases a <;> rfl
@[simp] theorem mul_nan_right (a : Val) : mul a nan = nan := by cases a <;> rfl

theorem mul_comm (a b : Val) : mul a b = mul b a := by
  cases a <;> cases b <;> simp [mul, Rat.mul_comm]

theorem mul_assoc (a b c : Val) : mul (mul a b) c = mul a (mul b c) := by
  cases a <;> cases b <;> cases c <;>
    simp only [mul, Rat.mul_assoc] <;>
    grind [rat_mul_neg_iff, rat_mul_eq_zero_iff]

/-! ### NaN-freeness -/

theorem isNaN_iff (a : Val) : a.isNaN = true ↔ a = nan := by cases a <;> simp [isNaN]

theorem isNaN_false_iff (a : Val) : a.isNaN = false ↔ a ≠ nan := by cases a <;> simp [isNaN]

@[simp] theorem isNaN_nan : nan.isNaN = true := rfl
@[simp] theorem isNaN_ninf : ninf.isNaN = false := rfl
@[simp] theorem isNaN_pinf : pinf.isNaN = false := rfl
@[simp] theorem isNaN_fin (q : Rat) : (fin q).isNaN = false := rfl
@[simp] theorem isNaN_ofNat (n : Nat) : (ofNat n).isNaN = false := rfl
@[simp] theorem isNaN_ofBool (b : Bool) : (ofBool b).isNaN = false := by cases b <;> rfl

@[simp] theorem max_nan_left (a : Val) : max nan a = nan := by cases a <;> rfl
@[simp] theorem max_nan_right (a : Val) : max a nan = nan := by cases a <;> rfl
@[simp] theorem min_nan_left (a : Val) : min nan a = nan := by cases a <;> rfl
@[simp] theorem min_nan_right (a : Val) : min a nan = nan := by cases a <;> rfl

/-- `np.maximum` of two non-NaN values is non-NaN -/
theorem isNaN_max (a b : Val) : (max a b).isNaN = (a.isNaN || b.isNaN) := by
  cases a <;> cases b <;> simp [max, isNaN] <;> grind [isNaN]

theorem isNaN_min (a b : Val) : (min a b).isNaN = (a.isNaN || b.isNaN) := by
  cases a <;> cases b <;> simp [min, isNaN] <;> grind [isNaN]

theorem max_isNaN_false {a b : Val} (ha : a.isNaN = false) (hb : b.isNaN = false) :
    (max a b).isNaN = false := by simp [isNaN_max, ha, hb]

theorem min_isNaN_false {a b : Val} (ha : a.isNaN = false) (hb : b.isNaN = false) :
    (min a b).isNaN = false := by simp [isNaN_min, ha, hb]

/-! ### the boolean monoids of `all` / `any` -/

@[simp] theorem truthy_ofBool (b : Bool) : (ofBool b).truthy = b := by
  cases b <;> simp [ofBool, truthy] <;> decide +kernel

@[simp] theorem truthy_one : one.truthy = true := truthy_ofBool true
@[simp] theorem truthy_zero : zero.truthy = false := truthy_ofBool false

theorem ofBool_true : ofBool true = one := rfl
theorem ofBool_false : ofBool false = zero := rfl

theorem land_comm (a b : Val) : land a b = land b a := by simp [land, Bool.and_comm]
theorem lor_comm (a b : Val) : lor a b = lor b a := by simp [lor, Bool.or_comm]

theorem land_assoc (a b c : Val) : land (land a b) c = land a (land b c) := by
  simp [land, Bool.and_assoc]

theorem lor_assoc (a b c : Val) : lor (lor a b) c = lor a (lor b c) := by
  simp [lor, Bool.or_assoc]

theorem land_one_left (a : Val) : land one a = ofBool a.truthy := by simp [land]
theorem land_one_right (a : Val) : land a one = ofBool a.truthy := by simp [land]
theorem lor_zero_left (a : Val) : lor zero a = ofBool a.truthy := by simp [lor]
theorem lor_zero_right (a : Val) : lor a zero = ofBool a.truthy := by simp [lor]

/-! ### counting -/

theorem ofNat_zero : ofNat 0 = zero := by simp [ofNat, zero]

theorem ofNat_add (m n : Nat) : add (ofNat m) (ofNat n) = ofNat (m + n) := by
  simp [ofNat, add, Rat.natCast_add]

end Val
end Flox

