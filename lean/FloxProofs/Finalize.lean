/-
  Finalizers of the chunked (map-reduce) path agree with the eager two-pass NumPy kernels, in exact arithmetic.

    mean :  sum / count                                   = np.mean
    var  :  (sumsq - sum*sum/count) / (count - ddof)      = np.var(ddof)     (NaN where count ≤ ddof)

  The left-hand sides are built from the per-group intermediates `blockVal k 0 ms` that the block stage stores
  (`Blueprint.lean`); the right-hand sides are the specification kernels `kEval` (`Kernels.lean`).
  All theorems hold for EVERY member list (also the empty one, also with NaN / ±inf members): whenever a
  non-finite member is present both sides are NaN.
-/
import FloxModel.Pipeline
import FloxModel.Blueprint
import FloxProofs.ValAlgebra

namespace Flox

/-! ### the per-slot body of `finalizeVals` for "var" -/

def onepass (ddof : Nat) (sq s c : Val) : Val :=
  let r := Val.div (Val.sub sq (Val.div (Val.mul s s) c)) (Val.sub c (Val.ofNat ddof))
  match c with | .fin q => if q ≤ (ddof : Rat) then Val.nan else r | _ => r

theorem finalizeVals_var (R : Resolved) (cols : List (List Val)) (h : R.finalize = "var") :
    finalizeVals R cols =
      ((cols.getD 0 []).zip ((cols.getD 1 []).zip (cols.getD 2 []))).map
        fun (sq, s, c) => onepass R.ddof sq s c := by
  unfold finalizeVals
  rw [h]
  rfl

theorem finalizeVals_std (R : Resolved) (cols : List (List Val)) (h : R.finalize = "std") :
    finalizeVals R cols =
      ((cols.getD 0 []).zip ((cols.getD 1 []).zip (cols.getD 2 []))).map
        fun (sq, s, c) => onepass R.ddof sq s c := by
  unfold finalizeVals
  rw [h]
  rfl

theorem finalizeVals_mean (R : Resolved) (cols : List (List Val)) (h : R.finalize = "mean") :
    finalizeVals R cols = List.zipWith Val.div (cols.getD 0 []) (cols.getD 1 []) := by
  unfold finalizeVals
  rw [h]
  rfl

/-! ### `vsum` as a right fold -/

theorem foldl_add (a : Val) (xs : List Val) : xs.foldl Val.add a = Val.add a (vsum xs) := by
  induction xs generalizing a with
  | nil => simp [vsum, Val.add_zero_right]
  | cons x xs ih =>
    simp only [vsum, List.foldl_cons]
    rw [ih (Val.add a x), ih (Val.add Val.zero x), Val.add_zero_left, Val.add_assoc]

@[simp] theorem vsum_nil : vsum [] = Val.zero := rfl

theorem vsum_cons_fz (x : Val) (xs : List Val) : vsum (x :: xs) = Val.add x (vsum xs) := by
  simp only [vsum, List.foldl_cons]
  rw [foldl_add, Val.add_zero_left]
  rfl

/-! ### finite lists -/

def rsum : List Rat → Rat
  | [] => 0
  | x :: xs => x + rsum xs

theorem vsum_fin (l : List Rat) : vsum (l.map Val.fin) = Val.fin (rsum l) := by
  induction l with
  | nil => rfl
  | cons x xs ih => simp [vsum_cons_fz, ih, Val.add, rsum]

theorem vsum_map_fin (f : Rat → Rat) (l : List Rat) :
    vsum (l.map fun x => Val.fin (f x)) = Val.fin (rsum (l.map f)) := by
  rw [← vsum_fin, List.map_map]; rfl

/-- Σ(x-m)² = Σx² - 2·m·Σx + n·m² -/
theorem rsum_dev (m : Rat) (l : List Rat) :
    rsum (l.map fun x => (x - m) * (x - m)) =
      rsum (l.map fun x => x * x) - 2 * m * rsum l + (l.length : Rat) * (m * m) := by
  induction l with
  | nil => simp [rsum]; grind
  | cons x xs ih =>
    simp only [List.map_cons, rsum, ih, List.length_cons, Rat.natCast_add]
    grind

/-- the textbook identity Σ(x-μ)² = Σx² - (Σx)²/n with μ = Σx/n -/
theorem rsum_dev_mean (l : List Rat) (hn : (l.length : Rat) ≠ 0) :
    rsum (l.map fun x => (x - rsum l / (l.length : Rat)) * (x - rsum l / (l.length : Rat))) =
      rsum (l.map fun x => x * x) - rsum l * rsum l / (l.length : Rat) := by
  rw [rsum_dev]
  generalize (l.length : Rat) = n at hn
  grind

/-- every list without non-finite members is the image of a rational list -/
theorem exists_rat_list (xs : List Val) (h : ∀ x ∈ xs, ∃ q, x = Val.fin q) :
    ∃ l : List Rat, xs = l.map Val.fin := by
  induction xs with
  | nil => exact ⟨[], rfl⟩
  | cons x xs ih =>
    obtain ⟨q, rfl⟩ := h x (by simp)
    obtain ⟨l, rfl⟩ := ih (fun y hy => h y (by simp [hy]))
    exact ⟨q :: l, rfl⟩

theorem onepass_fin (ddof : Nat) (l : List Rat) :
    onepass ddof (vsum ((l.map Val.fin).map fun x => Val.mul x x)) (vsum (l.map Val.fin))
        (vcount (l.map Val.fin)) = vvar ddof (l.map Val.fin) := by
  have hsq : vsum ((l.map Val.fin).map fun x => Val.mul x x) = Val.fin (rsum (l.map fun x => x * x)) := by
    rw [← vsum_map_fin, List.map_map]; rfl
  rw [hsq, vsum_fin]
  simp only [onepass, vvar, vcount, Val.ofNat, List.length_map, Rat.natCast_le_natCast]
  by_cases hle : l.length ≤ ddof
  · simp [hle]
  · simp only [hle, if_false]
    have hlt : ddof < l.length := by omega
    have hn0 : (l.length : Rat) ≠ 0 := by
      have : (0 : Rat) < (l.length : Rat) := Rat.natCast_pos.mpr (by omega)
      grind
    have hnd : (l.length : Rat) + -(ddof : Rat) ≠ 0 := by
      have : (ddof : Rat) < (l.length : Rat) := Rat.natCast_lt_natCast.mpr hlt
      grind
    have hcast : (((l.length : Int) - (ddof : Int) : Int) : Rat) = (l.length : Rat) - (ddof : Rat) := by
      rw [Rat.intCast_sub, Rat.intCast_natCast, Rat.intCast_natCast]
    have hmean : vmean (l.map Val.fin) = Val.fin (rsum l / (l.length : Rat)) := by
      simp [vmean, vsum_fin, vcount, Val.ofNat, Val.div, hn0]
    have hdevs : (l.map Val.fin).map (fun x =>
          Val.mul (Val.sub x (Val.fin (rsum l / (l.length : Rat)))) (Val.sub x (Val.fin (rsum l / (l.length : Rat)))))
        = l.map fun x => Val.fin ((x - rsum l / (l.length : Rat)) * (x - rsum l / (l.length : Rat))) := by
      rw [List.map_map]
      apply List.map_congr_left
      intro x _
      simp [Val.sub, Val.neg, Val.add, Val.mul, Rat.sub_eq_add_neg]
    rw [hmean, hdevs, vsum_map_fin, rsum_dev_mean l hn0]
    simp only [Val.ofInt, hcast]
    simp [Val.div, Val.sub, Val.neg, Val.add, Val.mul, hn0, hnd, Rat.sub_eq_add_neg]

/-! ### non-finite members: both sides are NaN -/

def Val.isFinite : Val → Bool
  | .fin _ => true
  | _ => false

theorem vsum_nan_mem (xs : List Val) (h : Val.nan ∈ xs) : vsum xs = Val.nan := by
  induction xs with
  | nil => simp at h
  | cons x xs ih =>
    rw [vsum_cons_fz]
    rcases List.mem_cons.mp h with h | h
    · rw [← h]; simp
    · rw [ih h]; simp

theorem vsum_nonfin (xs : List Val) (h : ∃ x ∈ xs, x.isFinite = false) : (vsum xs).isFinite = false := by
  induction xs with
  | nil => simp at h
  | cons x xs ih =>
    rw [vsum_cons_fz]
    obtain ⟨y, hy, hyf⟩ := h
    rcases List.mem_cons.mp hy with rfl | hy
    · cases y <;> cases vsum xs <;> simp_all [Val.add, Val.isFinite]
    · have := ih ⟨y, hy, hyf⟩
      cases x <;> cases hv : vsum xs <;> simp_all [Val.add, Val.isFinite]

theorem vsum_eq_pinf (xs : List Val) (h : vsum xs = Val.pinf) : Val.pinf ∈ xs := by
  induction xs with
  | nil => simp [Val.zero] at h
  | cons x xs ih =>
    rw [vsum_cons_fz] at h
    cases x <;> cases hv : vsum xs <;> simp_all [Val.add]

theorem vsum_eq_ninf (xs : List Val) (h : vsum xs = Val.ninf) : Val.ninf ∈ xs := by
  induction xs with
  | nil => simp [Val.zero] at h
  | cons x xs ih =>
    rw [vsum_cons_fz] at h
    cases x <;> cases hv : vsum xs <;> simp_all [Val.add]

theorem vsumsq_ne_ninf (xs : List Val) : vsum (xs.map fun x => Val.mul x x) ≠ Val.ninf := by
  induction xs with
  | nil => simp [Val.zero]
  | cons x xs ih =>
    rw [List.map_cons, vsum_cons_fz]
    cases x <;> cases hv : vsum (xs.map fun x => Val.mul x x) <;> simp_all [Val.add, Val.mul]

theorem vsumsq_nonfin (xs : List Val) (h : ∃ x ∈ xs, x.isFinite = false) :
    vsum (xs.map fun x => Val.mul x x) = Val.nan ∨ vsum (xs.map fun x => Val.mul x x) = Val.pinf := by
  induction xs with
  | nil => simp at h
  | cons x xs ih =>
    rw [List.map_cons, vsum_cons_fz]
    have hne := vsumsq_ne_ninf xs
    obtain ⟨y, hy, hyf⟩ := h
    rcases List.mem_cons.mp hy with rfl | hy
    · cases y <;> cases hv : vsum (xs.map fun x => Val.mul x x) <;> simp_all [Val.add, Val.mul, Val.isFinite]
    · have := ih ⟨y, hy, hyf⟩
      cases x <;> cases hv : vsum (xs.map fun x => Val.mul x x) <;> simp_all [Val.add, Val.mul]

theorem onepass_nan_sum (ddof : Nat) (sq c : Val) : onepass ddof sq Val.nan c = Val.nan := by
  cases sq <;> cases c <;> simp [onepass, Val.mul, Val.div, Val.sub, Val.neg, Val.add]

theorem onepass_nonfin (ddof : Nat) (xs : List Val) (h : ∃ x ∈ xs, x.isFinite = false) :
    onepass ddof (vsum (xs.map fun x => Val.mul x x)) (vsum xs) (vcount xs) = Val.nan := by
  have hs := vsum_nonfin xs h
  have hq := vsumsq_nonfin xs h
  have hn : ¬ ((xs.length : Rat) < 0) := by
    have : (0 : Rat) ≤ (xs.length : Rat) := Rat.natCast_nonneg
    grind
  cases hv : vsum xs <;> rcases hq with hq | hq <;>
    simp_all [onepass, vcount, Val.ofNat, Val.mul, Val.div, Val.sub, Val.neg, Val.add, Val.isFinite]

theorem vvar_nonfin (ddof : Nat) (xs : List Val) (h : ∃ x ∈ xs, x.isFinite = false) :
    vvar ddof xs = Val.nan := by
  unfold vvar
  split
  · rfl
  · rename_i hlen
    have hn : ¬ ((xs.length : Rat) < 0) := by
      have : (0 : Rat) ≤ (xs.length : Rat) := Rat.natCast_nonneg
      grind
    have hs := vsum_nonfin xs h
    -- it suffices to find one NaN squared deviation
    suffices hdev : ∃ x ∈ xs, Val.mul (Val.sub x (vmean xs)) (Val.sub x (vmean xs)) = Val.nan by
      obtain ⟨x, hx, hd⟩ := hdev
      have : vsum (xs.map fun x => Val.mul (Val.sub x (vmean xs)) (Val.sub x (vmean xs))) = Val.nan :=
        vsum_nan_mem _ (List.mem_map.mpr ⟨x, hx, hd⟩)
      simp only [this]
      rfl
    cases hv : vsum xs with
    | fin q => simp [hv, Val.isFinite] at hs
    | nan =>
      obtain ⟨y, hy, _⟩ := h
      refine ⟨y, hy, ?_⟩
      simp [vmean, hv, Val.div, Val.sub, Val.neg, Val.mul]
    | pinf =>
      refine ⟨Val.pinf, vsum_eq_pinf xs hv, ?_⟩
      simp [vmean, hv, vcount, Val.ofNat, Val.div, hn, Val.sub, Val.neg, Val.add, Val.mul]
    | ninf =>
      refine ⟨Val.ninf, vsum_eq_ninf xs hv, ?_⟩
      simp [vmean, hv, vcount, Val.ofNat, Val.div, hn, Val.sub, Val.neg, Val.add, Val.mul]

/-- one-pass = two-pass for EVERY list (finite members: algebra; a non-finite member: both NaN) -/
theorem onepass_eq_vvar (ddof : Nat) (xs : List Val) :
    onepass ddof (vsum (xs.map fun x => Val.mul x x)) (vsum xs) (vcount xs) = vvar ddof xs := by
  by_cases hfin : ∀ x ∈ xs, ∃ q, x = Val.fin q
  · obtain ⟨l, rfl⟩ := exists_rat_list xs hfin
    exact onepass_fin ddof l
  · have h : ∃ x ∈ xs, x.isFinite = false := by
      apply Classical.byContradiction
      intro hno
      apply hfin
      intro x hx
      cases x with
      | fin q => exact ⟨q, rfl⟩
      | _ => exact absurd ⟨_, hx, rfl⟩ hno
    rw [onepass_nonfin ddof xs h, vvar_nonfin ddof xs h]

/-! ### the stored intermediates (`blockVal` with intermediate fill 0) -/

theorem blockVal_sum_fz (ms : List Val) : blockVal .sum Val.zero ms = vsum ms := by
  cases ms <;> simp [blockVal, Kernel.skipsNaN, kEval]

theorem blockVal_sumsq_fz (ms : List Val) :
    blockVal .sumsq Val.zero ms = vsum (ms.map fun x => Val.mul x x) := by
  cases ms <;> simp [blockVal, Kernel.skipsNaN, kEval]

theorem vcount_nil : vcount [] = Val.zero := by
  simp [vcount, Val.ofNat, Val.zero]

theorem blockVal_nanlen_fz (ms : List Val) : blockVal .nanlen Val.zero ms = vcount (dropNaN ms) := by
  unfold blockVal
  split
  · rename_i h; rw [List.isEmpty_iff.mp h]; simp [dropNaN, vcount_nil]
  · split
    · rename_i h
      have : dropNaN ms = [] := by simpa [Kernel.skipsNaN] using h
      simp [this, vcount_nil, allNaNVal]
    · rfl

theorem blockVal_nansum_fz (ms : List Val) : blockVal .nansum Val.zero ms = vsum (dropNaN ms) := by
  unfold blockVal
  split
  · rename_i h; rw [List.isEmpty_iff.mp h]; simp [dropNaN]
  · split
    · rename_i h
      have : dropNaN ms = [] := by simpa [Kernel.skipsNaN] using h
      simp [this, allNaNVal]
    · rfl

theorem blockVal_nansumsq_fz (ms : List Val) :
    blockVal .nansumsq Val.zero ms = vsum ((dropNaN ms).map fun x => Val.mul x x) := by
  unfold blockVal
  split
  · rename_i h; rw [List.isEmpty_iff.mp h]; simp [dropNaN]
  · split
    · rename_i h
      have : dropNaN ms = [] := by simpa [Kernel.skipsNaN] using h
      simp [this, allNaNVal]
    · rfl

theorem dropNaN_eq_self_fz (ms : List Val) (h : Val.nan ∉ ms) : dropNaN ms = ms := by
  unfold dropNaN
  apply List.filter_eq_self.mpr
  intro x hx
  cases x with
  | nan => exact absurd hx h
  | _ => rfl

theorem dropNaN_no_nan (ms : List Val) : Val.nan ∉ dropNaN ms := by
  simp [dropNaN, Val.isNaN]

/-! ### 1. mean -/

/-- `sum / count = np.mean` for every member list (NaN members: both sides NaN; ±inf members: both sides equal,
    since the same `sum` is divided by the same positive count). -/
theorem mean_finalize (ms : List Val) :
    Val.div (blockVal .sum Val.zero ms) (blockVal .nanlen Val.zero ms) = kEval .mean ms := by
  rw [blockVal_sum_fz, blockVal_nanlen_fz]
  show Val.div (vsum ms) (vcount (dropNaN ms)) = Val.div (vsum ms) (vcount ms)
  by_cases h : Val.nan ∈ ms
  · simp [vsum_nan_mem ms h, Val.div]
  · rw [dropNaN_eq_self_fz ms h]

theorem nanmean_finalize (ms : List Val) :
    Val.div (blockVal .nansum Val.zero ms) (blockVal .nanlen Val.zero ms) = kEval .nanmean ms := by
  rw [blockVal_nansum_fz, blockVal_nanlen_fz]
  rfl

/-! ### 2. var -/

/-- one-pass variance from the stored (sumsq, sum, count) = two-pass `np.var(ddof)`, for EVERY member list -/
theorem var_finalize (ddof : Nat) (ms : List Val) :
    onepass ddof (blockVal .sumsq Val.zero ms) (blockVal .sum Val.zero ms) (blockVal .nanlen Val.zero ms)
      = kEval (.var ddof) ms := by
  rw [blockVal_sumsq_fz, blockVal_sum_fz, blockVal_nanlen_fz]
  show _ = vvar ddof ms
  by_cases h : Val.nan ∈ ms
  · rw [vsum_nan_mem ms h, onepass_nan_sum, vvar_nonfin ddof ms ⟨_, h, rfl⟩]
  · rw [dropNaN_eq_self_fz ms h]
    exact onepass_eq_vvar ddof ms

theorem nanvar_finalize (ddof : Nat) (ms : List Val) :
    onepass ddof (blockVal .nansumsq Val.zero ms) (blockVal .nansum Val.zero ms) (blockVal .nanlen Val.zero ms)
      = kEval (.nanvar ddof) ms := by
  rw [blockVal_nansumsq_fz, blockVal_nansum_fz, blockVal_nanlen_fz]
  exact onepass_eq_vvar ddof (dropNaN ms)

/-! #### the requested special cases -/

/-- (a) all members finite -/
theorem var_finalize_finite (ddof : Nat) (ms : List Val) (_hne : ms ≠ [])
    (_hfin : ∀ x ∈ ms, ∃ q, x = Val.fin q) :
    onepass ddof (blockVal .sumsq Val.zero ms) (blockVal .sum Val.zero ms) (blockVal .nanlen Val.zero ms)
      = kEval (.var ddof) ms := var_finalize ddof ms

/-- (b) NaN-skipping variant, all non-NaN members finite -/
theorem nanvar_finalize_finite (ddof : Nat) (ms : List Val) (_hne : ms ≠ [])
    (_hfin : ∀ x ∈ ms, x = Val.nan ∨ ∃ q, x = Val.fin q) :
    onepass ddof (blockVal .nansumsq Val.zero ms) (blockVal .nansum Val.zero ms) (blockVal .nanlen Val.zero ms)
      = kEval (.nanvar ddof) ms := nanvar_finalize ddof ms

/-- (c) a NaN or ±inf member makes both `var` sides NaN -/
theorem var_nonfinite (ddof : Nat) (ms : List Val) (h : ∃ x ∈ ms, x.isFinite = false) :
    onepass ddof (blockVal .sumsq Val.zero ms) (blockVal .sum Val.zero ms) (blockVal .nanlen Val.zero ms) = Val.nan
    ∧ kEval (.var ddof) ms = Val.nan := by
  have h2 : kEval (.var ddof) ms = Val.nan := vvar_nonfin ddof ms h
  exact ⟨(var_finalize ddof ms).trans h2, h2⟩

/-- (c) a ±inf member makes both `nanvar` sides NaN -/
theorem nanvar_nonfinite (ddof : Nat) (ms : List Val) (h : Val.pinf ∈ ms ∨ Val.ninf ∈ ms) :
    onepass ddof (blockVal .nansumsq Val.zero ms) (blockVal .nansum Val.zero ms) (blockVal .nanlen Val.zero ms)
      = Val.nan
    ∧ kEval (.nanvar ddof) ms = Val.nan := by
  have h' : ∃ x ∈ dropNaN ms, x.isFinite = false := by
    rcases h with h | h
    · exact ⟨Val.pinf, by simp [dropNaN, h, Val.isNaN], rfl⟩
    · exact ⟨Val.ninf, by simp [dropNaN, h, Val.isNaN], rfl⟩
  have h2 : kEval (.nanvar ddof) ms = Val.nan := vvar_nonfin ddof (dropNaN ms) h'
  exact ⟨(nanvar_finalize ddof ms).trans h2, h2⟩

/-- the whole "var"/"std" finalizer column, slot by slot -/
theorem finalizeVals_var_blocks (R : Resolved) (h : R.finalize = "var") (groups : List (List Val)) :
    finalizeVals R [groups.map (blockVal .sumsq Val.zero), groups.map (blockVal .sum Val.zero),
        groups.map (blockVal .nanlen Val.zero)] = groups.map (kEval (.var R.ddof)) := by
  rw [finalizeVals_var R _ h]
  simp only [List.getD_cons_zero, List.getD_cons_succ]
  induction groups with
  | nil => rfl
  | cons g gs ih => simp only [List.map_cons, List.zip_cons_cons, ih, var_finalize]

theorem finalizeVals_nanvar_blocks (R : Resolved) (h : R.finalize = "var") (groups : List (List Val)) :
    finalizeVals R [groups.map (blockVal .nansumsq Val.zero), groups.map (blockVal .nansum Val.zero),
        groups.map (blockVal .nanlen Val.zero)] = groups.map (kEval (.nanvar R.ddof)) := by
  rw [finalizeVals_var R _ h]
  simp only [List.getD_cons_zero, List.getD_cons_succ]
  induction groups with
  | nil => rfl
  | cons g gs ih => simp only [List.map_cons, List.zip_cons_cons, ih, nanvar_finalize]

/-! ### 3. non-vacuity -/

example : Val.div (blockVal .sum Val.zero [.fin 1, .fin (-2), .fin 4]) (blockVal .nanlen Val.zero [.fin 1, .fin (-2), .fin 4])
    = Val.fin 1 ∧ kEval .mean [.fin 1, .fin (-2), .fin 4] = Val.fin 1 := by decide +kernel

example : Val.div (blockVal .nansum Val.zero [.fin 1, .nan, .fin (-2), .fin 4])
      (blockVal .nanlen Val.zero [.fin 1, .nan, .fin (-2), .fin 4]) = Val.fin 1
    ∧ kEval .nanmean [.fin 1, .nan, .fin (-2), .fin 4] = Val.fin 1 := by decide +kernel

-- var of [1,-2,4]: mean 1, squared deviations 0,9,9; ddof 0 → 6, ddof 1 → 9
example : onepass 0 (blockVal .sumsq Val.zero [.fin 1, .fin (-2), .fin 4]) (blockVal .sum Val.zero [.fin 1, .fin (-2), .fin 4])
      (blockVal .nanlen Val.zero [.fin 1, .fin (-2), .fin 4]) = Val.fin 6
    ∧ kEval (.var 0) [.fin 1, .fin (-2), .fin 4] = Val.fin 6 := by decide +kernel

example : onepass 1 (blockVal .sumsq Val.zero [.fin 1, .fin (-2), .fin 4]) (blockVal .sum Val.zero [.fin 1, .fin (-2), .fin 4])
      (blockVal .nanlen Val.zero [.fin 1, .fin (-2), .fin 4]) = Val.fin 9
    ∧ kEval (.var 1) [.fin 1, .fin (-2), .fin 4] = Val.fin 9 := by decide +kernel

example : onepass 1 (blockVal .nansumsq Val.zero [.nan, .fin 1, .fin (-2), .nan, .fin 4])
      (blockVal .nansum Val.zero [.nan, .fin 1, .fin (-2), .nan, .fin 4])
      (blockVal .nanlen Val.zero [.nan, .fin 1, .fin (-2), .nan, .fin 4]) = Val.fin 9
    ∧ kEval (.nanvar 1) [.nan, .fin 1, .fin (-2), .nan, .fin 4] = Val.fin 9 := by decide +kernel

-- the `count ≤ ddof → NaN` convention, and a non-integer result
example : kEval (.var 3) [.fin 1, .fin (-2), .fin 4] = Val.nan
    ∧ kEval (.var 1) [.fin 1, .fin (-2)] = Val.fin (9/2) := by decide +kernel

-- (c): ±inf members, both sides NaN
example : onepass 0 (blockVal .sumsq Val.zero [.pinf, .fin (-1)]) (blockVal .sum Val.zero [.pinf, .fin (-1)])
      (blockVal .nanlen Val.zero [.pinf, .fin (-1)]) = Val.nan
    ∧ kEval (.var 0) [.pinf, .fin (-1)] = Val.nan := by decide +kernel

example : (∃ x ∈ [Val.pinf, Val.fin (-1)], x.isFinite = false) := ⟨Val.pinf, by simp, rfl⟩

example : onepass 1 (blockVal .nansumsq Val.zero [.pinf, .ninf, .nan, .fin (-1)])
      (blockVal .nansum Val.zero [.pinf, .ninf, .nan, .fin (-1)])
      (blockVal .nanlen Val.zero [.pinf, .ninf, .nan, .fin (-1)]) = Val.nan
    ∧ kEval (.nanvar 1) [.pinf, .ninf, .nan, .fin (-1)] = Val.nan := by decide +kernel

-- the finalizer on two groups
example : finalizeVals { (default : Resolved) with finalize := "var", ddof := 1 }
      [[.fin 21, .fin 5], [.fin 3, .fin (-1)], [.fin 3, .fin 2]] = [.fin 9, .fin (9/2)] := by decide +kernel

end Flox
