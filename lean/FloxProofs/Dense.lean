/-
  Dense block stage: with `reindex=True` (`expected = some n`) and the numpy_groupies engine, `chunk_reduce`
  stores in every intermediate column and every slot `g < n` the value `blockVal k f (members g codes vals)`.
-/
import FloxModel.Pipeline
import FloxModel.Blueprint
import FloxProofs.Members
import FloxProofs.ValAlgebra

namespace Flox

/-- the dense (reindexed) intermediate columns of one block: slot `g` of column `(k, f)` is `blockVal k f` of the
    members of group `g` -/
def denseCols (ks : List Kernel) (fills : List Val) (n : Nat) (codes : List Int) (vals : List Val) :
    List (List Val) :=
  (ks.zip fills).map fun p =>
    (List.range n).map fun (g : Nat) => blockVal p.1 p.2 (members (Int.ofNat g) codes vals)

def denseInter (ks : List Kernel) (fills : List Val) (n : Nat) (codes : List Int) (vals : List Val) : Inter :=
  { groups := rangeKeys n, cols := denseCols ks fills n codes vals }

/-! ### `factorizeKeys` on integer codes with a `RangeIndex` -/

theorem factorize_code (c : Int) (n : Nat) (h : -1 ≤ c ∧ c < (n : Int)) :
    (if (c : Rat) ≤ ((n : Rat) - 1) ∧ 0 ≤ (c : Rat) ∧ (c : Rat).den = 1 then (c : Rat).num else -1) = c := by
  simp only [Rat.den_intCast, Rat.num_intCast, and_true]
  by_cases h0 : 0 ≤ c
  · have h1 : (0 : Rat) ≤ (c : Rat) := Rat.intCast_nonneg.mpr h0
    have h2 : (c : Rat) ≤ ((n : Rat) - 1) := by
      have : (c : Rat) ≤ (((n : Int) - 1 : Int) : Rat) := Rat.intCast_le_intCast.mpr (by omega)
      simpa [Rat.intCast_natCast] using this
    simp [h1, h2]
  · have h1 : ¬ (0 : Rat) ≤ (c : Rat) := fun h' => h0 (Rat.intCast_nonneg.mp h')
    simp only [h1, and_false, if_false]
    omega

theorem factorizeKeys_codes (codes : List Int) (n : Nat) (sort : Bool)
    (hcodes : ∀ c ∈ codes, -1 ≤ c ∧ c < (n : Int)) :
    factorizeKeys (codes.map fun (c : Int) => (some (c : Rat) : Key)) (some n) sort
      = ((List.range n).map fun (i : Nat) => (i : Rat), codes) := by
  unfold factorizeKeys
  simp only [List.map_map, Prod.mk.injEq, true_and]
  conv => rhs; rw [← List.map_id codes]
  apply List.map_congr_left
  intro c hc
  exact factorize_code c n (hcodes c hc)

/-! ### members under the NaN-sentinel bump and under value maps -/

theorem members_map_vals (g : Int) (f : Val → Val) (codes : List Int) (vals : List Val) :
    members g codes (vals.map f) = (members g codes vals).map f := by
  induction codes generalizing vals with
  | nil => simp
  | cons c cs ih =>
    cases vals with
    | nil => simp
    | cons v vs =>
      simp only [List.map_cons, members_cons]
      split <;> simp [ih]

/-- replacing codes that are not `g` by other codes that are not `g` leaves the members of `g` unchanged -/
theorem members_map_codes (g : Int) (f : Int → Int) (codes : List Int) (vals : List Val)
    (h : ∀ c ∈ codes, (f c = g ↔ c = g)) :
    members g (codes.map f) vals = members g codes vals := by
  induction codes generalizing vals with
  | nil => simp
  | cons c cs ih =>
    cases vals with
    | nil => simp
    | cons v vs =>
      have hc := h c (by simp)
      have ih' := ih vs (fun c' hc' => h c' (by simp [hc']))
      simp only [List.map_cons, members_cons, ih']
      by_cases e : c = g
      · have e' : f c = g := hc.mpr e
        rw [if_pos e', if_pos e]
      · have : ¬ f c = g := fun e' => e (hc.mp e')
        rw [if_neg this, if_neg e]

theorem members_eq_nil_of_ne (g : Int) (codes : List Int) (vals : List Val) (h : ∀ c ∈ codes, c ≠ g) :
    members g codes vals = [] := by
  induction codes generalizing vals with
  | nil => simp
  | cons c cs ih =>
    cases vals with
    | nil => simp
    | cons v vs =>
      have hc := h c (by simp)
      simp [hc, ih vs (fun c' hc' => h c' (by simp [hc']))]

theorem members_bump (g n : Nat) (hg : g < n) (codes : List Int) (vals : List Val) :
    members (Int.ofNat g) (codes.map fun c => if c == -1 then (n : Int) else c) vals
      = members (Int.ofNat g) codes vals := by
  apply members_map_codes
  intro c _
  by_cases e : c = -1
  · subst e
    simp only [BEq.rfl, if_true, Int.ofNat_eq_natCast]
    omega
  · simp [e]

/-! ### kernel facts: NaN-skipping kernels are insensitive to dropping NaN again -/

theorem dropNaN_idem_dn (xs : List Val) : dropNaN (dropNaN xs) = dropNaN xs := by
  simp [dropNaN]

theorem firstNonNaN_dropNaN (xs : List Val) : firstNonNaN (dropNaN xs) = firstNonNaN xs := by
  induction xs with
  | nil => rfl
  | cons x xs ih =>
    by_cases h : x.isNaN = true
    · simp [dropNaN, firstNonNaN, h] at ih ⊢
      exact ih
    · simp [dropNaN, firstNonNaN, h] at ih ⊢

theorem dropNaN_reverse_dn (xs : List Val) : dropNaN xs.reverse = (dropNaN xs).reverse := by
  simp [dropNaN, List.filter_reverse]

theorem lastNonNaN_dropNaN (xs : List Val) : lastNonNaN (dropNaN xs) = lastNonNaN xs := by
  simp [lastNonNaN, ← dropNaN_reverse_dn, firstNonNaN_dropNaN]

/-- for a NaN-skipping kernel the value only depends on the non-NaN members -/
theorem kEval_dropNaN (k : Kernel) (hk : k.skipsNaN = true) (hna : isArgKernel k = false) (xs : List Val) :
    kEval k (dropNaN xs) = kEval k xs := by
  cases k <;> simp_all [Kernel.skipsNaN, isArgKernel, kEval, dropNaN_idem_dn, firstNonNaN_dropNaN,
    lastNonNaN_dropNaN]

theorem foldl_add_nan0 (xs : List Val) (a : Val) :
    (xs.map fun v => if v.isNaN then Val.zero else v).foldl Val.add a = (dropNaN xs).foldl Val.add a := by
  induction xs generalizing a with
  | nil => rfl
  | cons x xs ih =>
    by_cases h : x.isNaN = true
    · simp [dropNaN, h, Val.add_zero_right] at ih ⊢
      exact ih a
    · simp [dropNaN, h] at ih ⊢
      exact ih _

theorem foldl_mul_nan1 (xs : List Val) (a : Val) :
    (xs.map fun v => if v.isNaN then Val.one else v).foldl Val.mul a = (dropNaN xs).foldl Val.mul a := by
  induction xs generalizing a with
  | nil => rfl
  | cons x xs ih =>
    by_cases h : x.isNaN = true
    · simp [dropNaN, h, Val.mul_one_right] at ih ⊢
      exact ih a
    · simp [dropNaN, h] at ih ⊢
      exact ih _

theorem vcount_eq_zero (xs : List Val) : vcount xs = Val.zero ↔ xs = [] := by
  simp [vcount, Val.ofNat, Val.zero, List.length_eq_zero_iff]

/-! ### one slot of the numpy_groupies contract is `blockVal` -/

/-- the generic numpy_groupies slot (NaN dropped before grouping) agrees with `blockVal` as soon as the all-NaN
    value of the kernel is the fill -/
theorem aggSlot_eq_blockVal (k : Kernel) (f : Val) (hna : isArgKernel k = false)
    (hf : k.skipsNaN = true → allNaNVal k f = f) (ms : List Val) :
    (if (if k.skipsNaN then dropNaN ms else ms).isEmpty then f
      else kEval k (if k.skipsNaN then dropNaN ms else ms)) = blockVal k f ms := by
  unfold blockVal
  by_cases hs : k.skipsNaN = true
  · simp only [hs, if_true, Bool.true_and]
    by_cases hm : ms.isEmpty = true
    · have : ms = [] := List.isEmpty_iff.mp hm
      subst this
      simp [dropNaN]
    · by_cases hd : (dropNaN ms).isEmpty = true
      · simp [hm, hd, hf hs]
      · simp [hm, hd, kEval_dropNaN k hs hna]
  · simp [hs]

theorem nansum_slot (f : Val) (ms : List Val) :
    (if (ms.map fun v => if v.isNaN then Val.zero else v).isEmpty then f
      else kEval .sum (ms.map fun v => if v.isNaN then Val.zero else v)) = blockVal .nansum f ms := by
  simp only [blockVal, kEval, vsum, foldl_add_nan0, List.isEmpty_map, Kernel.skipsNaN, Bool.true_and, allNaNVal]
  by_cases hm : ms = []
  · simp [hm]
  · by_cases hd : dropNaN ms = []
    · simp [hm, hd]
    · simp [hm, hd]

theorem nanprod_slot (f : Val) (ms : List Val) :
    (if (ms.map fun v => if v.isNaN then Val.one else v).isEmpty then f
      else kEval .prod (ms.map fun v => if v.isNaN then Val.one else v)) = blockVal .nanprod f ms := by
  simp only [blockVal, kEval, vprod, foldl_mul_nan1, List.isEmpty_map, Kernel.skipsNaN, Bool.true_and, allNaNVal]
  by_cases hm : ms = []
  · simp [hm]
  · by_cases hd : dropNaN ms = []
    · simp [hm, hd]
    · simp [hm, hd]

theorem nanlen_slot (ms : List Val) :
    (if (if (dropNaN ms).isEmpty then Val.zero else kEval .nanlen (dropNaN ms)) = Val.zero then Val.zero
      else (if (dropNaN ms).isEmpty then Val.zero else kEval .nanlen (dropNaN ms)))
      = blockVal .nanlen Val.zero ms := by
  simp only [blockVal, kEval, Kernel.skipsNaN, Bool.true_and, allNaNVal, dropNaN_idem_dn]
  by_cases hm : ms = []
  · simp [hm, dropNaN]
  · by_cases hd : dropNaN ms = []
    · simp [hm, hd]
    · simp [hm, hd, vcount_eq_zero]

theorem len_slot (f : Val) (ms : List Val) :
    (if (if ms.isEmpty then Val.zero else kEval .len ms) = Val.zero then f
      else (if ms.isEmpty then Val.zero else kEval .len ms)) = blockVal .len f ms := by
  simp only [blockVal, kEval, Kernel.skipsNaN, Bool.false_and]
  by_cases hm : ms = []
  · simp [hm]
  · simp [hm, vcount_eq_zero]

theorem npgGrouped_eq_blockVal_dn (k : Kernel) (f : Val) (codes : List Int) (vals : List Val) (size : Nat)
    (hna : isArgKernel k = false) (hz : (k = .nanlen ∨ k = .nansumsq) → f = Val.zero) :
    npgGrouped k codes vals size f
      = (List.range size).map fun (g : Nat) => blockVal k f (members (Int.ofNat g) codes vals) := by
  have generic : ∀ k' : Kernel, isArgKernel k' = false → (k'.skipsNaN = true → allNaNVal k' f = f) →
      npgAggregate k' codes vals size f
        = (List.range size).map fun (g : Nat) => blockVal k' f (members (Int.ofNat g) codes vals) := by
    intro k' h1 h2
    unfold npgAggregate
    apply List.map_congr_left
    intro g _
    exact aggSlot_eq_blockVal k' f h1 h2 _
  cases k with
  | nansum =>
    simp only [npgGrouped, npgAggregate]
    apply List.map_congr_left
    intro g _
    simp only [Kernel.skipsNaN, Bool.false_eq_true, if_false, members_map_vals]
    exact nansum_slot f _
  | nanprod =>
    simp only [npgGrouped, npgAggregate]
    apply List.map_congr_left
    intro g _
    simp only [Kernel.skipsNaN, Bool.false_eq_true, if_false, members_map_vals]
    exact nanprod_slot f _
  | nanlen =>
    have hf : f = Val.zero := hz (Or.inl rfl)
    subst hf
    simp only [npgGrouped, npgAggregate, List.map_map]
    apply List.map_congr_left
    intro g _
    simp only [Function.comp, Kernel.skipsNaN, if_true]
    exact nanlen_slot _
  | len =>
    simp only [npgGrouped, npgAggregate, List.map_map]
    apply List.map_congr_left
    intro g _
    simp only [Function.comp, Kernel.skipsNaN, Bool.false_eq_true, if_false]
    exact len_slot f _
  | nansumsq =>
    have hf : f = Val.zero := hz (Or.inr rfl)
    subst hf
    exact generic _ rfl (fun _ => rfl)
  | argmax => simp [isArgKernel] at hna
  | argmin => simp [isArgKernel] at hna
  | nanargmax => simp [isArgKernel] at hna
  | nanargmin => simp [isArgKernel] at hna
  | _ => exact generic _ rfl (fun _ => rfl)

/-! ### the block stage -/

theorem chunkReduce_dense' (ks : List Kernel) (fills : List Val) (codes : List Int) (vals : List Val) (n : Nat)
    (sort : Bool)
    (hcodes : ∀ c ∈ codes, -1 ≤ c ∧ c < (n : Int))
    (hnoarg : ∀ k ∈ ks, isArgKernel k = false)
    (hz : ∀ p ∈ ks.zip fills, (p.1 = .nanlen ∨ p.1 = .nansumsq) → p.2 = Val.zero) :
    chunkReduce .npg ks fills (codes.map fun (c : Int) => (some (c : Rat) : Key)) vals (some n) sort
      = denseInter ks fills n codes vals := by
  simp only [chunkReduce, factorizeKeys_codes codes n sort hcodes, denseInter, denseCols]
  congr 1
  · simp [rangeKeys]
  · apply List.map_congr_left
    intro p hp
    obtain ⟨k, fv⟩ := p
    have hka : isArgKernel k = false := hnoarg k (List.of_mem_zip hp).1
    simp only [List.length_map, List.length_range]
    by_cases hempty : (codes.all (· == -1)) = true
    · simp only [hempty, if_true]
      apply List.ext_getElem
      · simp
      · intro g h1 h2
        have hne : ∀ c ∈ codes, c ≠ Int.ofNat g := by
          intro c hc
          have := List.all_eq_true.mp hempty c hc
          simp only [beq_iff_eq] at this
          simp only [Int.ofNat_eq_natCast]
          omega
        simp only [List.getElem_replicate, List.getElem_map, List.getElem_range]
        rw [members_eq_nil_of_ne _ codes vals hne]
        simp [blockVal]
    · simp only [hempty, Bool.false_eq_true, if_false, engineCall, hka, engGrouped]
      rw [npgGrouped_eq_blockVal_dn k fv _ vals _ hka (hz (k, fv) hp), ← List.map_take]
      have htake : (List.range (if (codes.any (· == -1)) = true then n + 1 else n)).take n = List.range n := by
        split <;> simp [List.take_range]
      rw [htake]
      apply List.map_congr_left
      intro g hg
      rw [members_bump g n (List.mem_range.mp hg)]

/-- Block stage is dense (numpy_groupies engine contract), in the requested form.
    (`hlen`, `hk` and the `.len` part of `hz` are not needed: see `chunkReduce_dense'`.) -/
theorem chunkReduce_dense (ks : List Kernel) (fills : List Val) (codes : List Int) (vals : List Val) (n : Nat)
    (sort : Bool)
    (_hlen : codes.length = vals.length) (_hk : ks.length = fills.length)
    (hcodes : ∀ c ∈ codes, -1 ≤ c ∧ c < (n : Int))
    (hnoarg : ∀ k ∈ ks, isArgKernel k = false)
    (hz : ∀ p ∈ ks.zip fills, (p.1 = .nanlen ∨ p.1 = .nansumsq ∨ p.1 = .len) → p.2 = Val.zero) :
    chunkReduce .npg ks fills (codes.map fun (c : Int) => (some (c : Rat) : Key)) vals (some n) sort
      = denseInter ks fills n codes vals :=
  chunkReduce_dense' ks fills codes vals n sort hcodes hnoarg
    (fun p hp h => hz p hp (h.elim Or.inl (fun h' => Or.inr (Or.inl h'))))

end Flox
