/-
  C19: properties of the validation chain `Decisions.core`, proved by exhaustive evaluation of the finite abstract
  cell in the kernel.  (Kept apart from `FloxProofs/Decisions.lean` so that a regenerated table does not re-run the
  ~70 000-cell evaluations.)
-/
import FloxModel.Decisions

namespace Flox.Decisions

/-! ### exhaustive enumeration of the finite argument types

  A statement `∀ x y …, p x y … = true` over these types is proved by evaluating the Boolean
  `X.all.all fun x => Y.all.all fun y => … p x y …` in the kernel (`decide +kernel`) and unfolding it with the
  `forall_*` lemmas below. -/

def allBool : List Bool := [false, true]
def allMethod : List Method := [.mapReduce, .blockwise, .cohorts]
def allOptMethod : List (Option Method) := [none, some .mapReduce, some .blockwise, some .cohorts]
def allOptBool : List (Option Bool) := [none, some true, some false]
def allAxisRel : List AxisRel := [.oneOfOne, .allMany, .oneOfMany, .someOfMany, .tooMany, .zero]
def allFuncClass : List FuncClass := [.arg, .first, .nanfirst, .blockwiseOnly, .plain]
def allFuncKind : List FuncKind :=
  [.arg, .nanarg, .first, .nanfirst, .median, .nanmedian, .quantile, .nanquantile, .mode, .nanmode, .anyall, .nanskip, .plain]

theorem forall_bool {p : Bool → Bool} (h : allBool.all p = true) (x : Bool) : p x = true :=
  List.all_eq_true.mp h x (by cases x <;> simp [allBool])
theorem forall_method {p : Method → Bool} (h : allMethod.all p = true) (x : Method) : p x = true :=
  List.all_eq_true.mp h x (by cases x <;> simp [allMethod])
theorem forall_optMethod {p : Option Method → Bool} (h : allOptMethod.all p = true) (x : Option Method) : p x = true :=
  List.all_eq_true.mp h x (by
    cases x with
    | none => simp [allOptMethod]
    | some m => cases m <;> simp [allOptMethod])
theorem forall_optBool {p : Option Bool → Bool} (h : allOptBool.all p = true) (x : Option Bool) : p x = true :=
  List.all_eq_true.mp h x (by
    cases x with
    | none => simp [allOptBool]
    | some m => cases m <;> simp [allOptBool])
theorem forall_axisRel {p : AxisRel → Bool} (h : allAxisRel.all p = true) (x : AxisRel) : p x = true :=
  List.all_eq_true.mp h x (by cases x <;> simp [allAxisRel])
theorem forall_funcClass {p : FuncClass → Bool} (h : allFuncClass.all p = true) (x : FuncClass) : p x = true :=
  List.all_eq_true.mp h x (by cases x <;> simp [allFuncClass])
theorem forall_funcKind {p : FuncKind → Bool} (h : allFuncKind.all p = true) (x : FuncKind) : p x = true :=
  List.all_eq_true.mp h x (by cases x <;> simp [allFuncKind])

/-! ### the whole chain (`core`), on aligned input (the documented contract) -/

def mkCore (kind : FuncClass) (method : Option Method) (reindex : Option Bool) (byDask arrDask : Bool) (ax : AxisRel)
    (expected isFloat : Bool) (preferred : Method) (cohortsEmpty singleBlock : Bool) : CoreCell :=
  { kind, method, reindex, byDask, arrDask, ax, expected, isFloat, preferred, cohortsEmpty, singleBlock, aligned := true }

/-- all aligned cells with a given method -/
def coreCheckM (m : Option Method) (q : CoreCell → Bool) : Bool :=
  allFuncClass.all fun k => allOptBool.all fun r => allBool.all fun bd => allBool.all fun ad =>
  allAxisRel.all fun ax => allBool.all fun e => allBool.all fun f => allMethod.all fun p => allBool.all fun ce =>
  allBool.all fun sb => q (mkCore k m r bd ad ax e f p ce sb)

theorem coreCheckM_forall {m q} (h : coreCheckM m q = true) (c : CoreCell) (hm : c.method = m)
    (hal : c.aligned = true) : q c = true := by
  have := forall_bool (forall_bool (forall_method (forall_bool (forall_bool (forall_axisRel (forall_bool
    (forall_bool (forall_optBool (forall_funcClass h c.kind) c.reindex) c.byDask) c.arrDask) c.ax) c.expected) c.isFloat)
    c.preferred) c.cohortsEmpty) c.singleBlock
  have hc : mkCore c.kind m c.reindex c.byDask c.arrDask c.ax c.expected c.isFloat c.preferred c.cohortsEmpty c.singleBlock = c := by
    cases c; simp_all [mkCore]
  rw [hc] at this
  exact this

def coreCheck (q : CoreCell → Bool) : Bool := allOptMethod.all fun m => coreCheckM m q

theorem coreCheck_forall {q} (h : coreCheck q = true) (c : CoreCell) (hal : c.aligned = true) : q c = true :=
  coreCheckM_forall (forall_optMethod h c.method) c rfl hal

/-- what `core` hands to graph construction satisfies every strategy-specific precondition -/
def planSound (c : CoreCell) (m : Option Method) (b : Option Bool) : Bool :=
  -- cohorts never with blockwise reindexing; blockwise reindexing only with known labels
  !(m = some .cohorts && b = some true) &&
  !(b = some true && c.byDask && !c.expected && m ≠ none) &&
  -- arg-reductions: never reindexed blockwise on dask input (except under an explicit blockwise plan with dask labels,
  -- which reindexes every block and is accepted on a single block only), blockwise plan only on a single block
  !(c.kind.isArg && m ≠ none && b = some true && !(m = some .blockwise && c.byDask)) &&
  !(c.kind.isArg && m = some .blockwise && !c.singleBlock) &&
  -- reductions without a chunk function only blockwise; subsets of the label axes only under map-reduce
  !(c.kind.chunkNone && m ≠ none && m ≠ some .blockwise) &&
  !(!c.ax.naxEqNdim && (m = some .blockwise || m = some .cohorts)) &&
  -- a blockwise plan reindexes every block to the expected groups only on a single block along the reduced axes, and
  -- with dask labels it always does so (the groups of a block cannot be found from lazy labels)
  !(m = some .blockwise && b = some true && !c.singleBlock) &&
  !(m = some .blockwise && c.byDask && b ≠ some true) &&
  -- a dask plan always has a definite reindex flag
  !(m ≠ none && b = none) &&
  -- an explicit method is honoured, except cohorts falling back to map-reduce when there is nothing to split
  (match c.method, m with
   | some um, some rm => um = rm || (um = .cohorts && rm = .mapReduce && c.cohortsEmpty)
   | _, _ => true)

def qNoInternal (c : CoreCell) : Bool :=
  decide (core c ≠ .err .assertion) && decide (core c ≠ .err .other)
def qPlanSound (c : CoreCell) : Bool :=
  match core c with
  | .ok (m, b) => planSound c m b
  | .err _ => true
def qRefines (c : CoreCell) : Bool :=
  !(core { c with method := some .mapReduce }).isOk || (core c).isOk
def qConverse (c : CoreCell) : Bool :=
  c.kind.chunkNone || !(core c).isOk || (core { c with method := some .mapReduce }).isOk

theorem check_noInternal : coreCheck qNoInternal = true := by decide +kernel
theorem check_planSound : coreCheck qPlanSound = true := by decide +kernel
theorem check_refines : coreCheckM none qRefines = true := by decide +kernel
theorem check_converse : coreCheckM none qConverse = true := by decide +kernel

/-- no assertion can fail anywhere in the chain -/
theorem core_no_internal (c : CoreCell) (hal : c.aligned = true) :
    core c ≠ .err .assertion ∧ core c ≠ .err .other := by
  have h := coreCheck_forall check_noInternal c hal
  simp only [qNoInternal, Bool.and_eq_true, decide_eq_true_eq] at h
  exact h

/-- more reduced axes than label dimensions: a clean refusal (formerly `assert nax <= by_.ndim`, finding C19-F6) -/
theorem core_too_many_axes_refused :
    core (mkCore .plain none none false false .tooMany false true .mapReduce true true) = .err .valueError := by
  decide +kernel

theorem core_plan_sound (c : CoreCell) (hal : c.aligned = true) (m : Option Method) (b : Option Bool)
    (h : core c = .ok (m, b)) : planSound c m b = true := by
  have h' := coreCheck_forall check_planSound c hal
  simp only [qPlanSound, h] at h'
  exact h'

/-- leaving the method to flox succeeds wherever the explicit map-reduce plan does -/
theorem core_auto_refines (c : CoreCell) (hal : c.aligned = true)
    (h : (core { c with method := some .mapReduce }).isOk = true) : (core { c with method := none }).isOk = true := by
  have h' := coreCheckM_forall check_refines { c with method := none } rfl hal
  simp only [qRefines, Bool.or_eq_true, Bool.not_eq_true'] at h'
  rcases h' with h' | h'
  · rw [h] at h'; exact absurd h' (by decide)
  · exact h'

/-- the converse fails only for the reductions without a chunk function (which the auto plan runs blockwise) -/
theorem core_auto_ok_mapreduce_ok (c : CoreCell) (hal : c.aligned = true) (hk : c.kind.chunkNone = false)
    (h : (core { c with method := none }).isOk = true) : (core { c with method := some .mapReduce }).isOk = true := by
  have h' := coreCheckM_forall check_converse { c with method := none } rfl hal
  simp only [qConverse, Bool.or_eq_true, Bool.not_eq_true'] at h'
  rcases h' with (h' | h') | h'
  · rw [hk] at h'; exact absurd h' (by decide)
  · rw [h] at h'; exact absurd h' (by decide)
  · exact h'

end Flox.Decisions
