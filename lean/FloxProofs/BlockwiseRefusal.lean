/-
  C19: the refusal of method="blockwise" on inputs whose groups span several blocks (core.py, after the blockwise plan):
  whenever a (non-missing) label code occurs in two different blocks the model `blockwiseRefused` answers `true`
  (ValueError) — for any number of blocks of any size — so a wrong answer is never returned for such input.
-/
import FloxModel.DecisionsEntry

namespace Flox.Decisions

theorem mem_dedup (c : Int) : ∀ l : List Int, c ∈ dedup l ↔ c ∈ l
  | [] => by simp [dedup]
  | x :: xs => by
    have ih := mem_dedup c xs
    by_cases h : c = x
    · simp [dedup, h]
    · simp [dedup, List.mem_filter, ih, h]

theorem nodupB_append_of_mem_both (c : Int) : ∀ (xs ys : List Int), c ∈ xs → c ∈ ys → nodupB (xs ++ ys) = false
  | [], _, h, _ => by simp at h
  | x :: xs, ys, hx, hy => by
    by_cases h : c = x
    · subst h
      simp [nodupB, hy]
    · have hx' : c ∈ xs := by
        rcases List.mem_cons.mp hx with h' | h'
        · exact absurd h' h
        · exact h'
      simp [nodupB, nodupB_append_of_mem_both c xs ys hx' hy]

theorem blockwiseGroups_split (pre mid post : List (List Int)) (b1 b2 : List Int) :
    blockwiseGroups (pre ++ b1 :: mid ++ b2 :: post)
      = (blockwiseGroups pre ++ dedup b1) ++ (blockwiseGroups mid ++ dedup b2 ++ blockwiseGroups post) := by
  simp [blockwiseGroups, List.flatten_append, List.append_assoc]

theorem nodupB_filter_append (c : Int) (p : Int → Bool) (X Y : List Int) (hl : c ∈ X) (hr : c ∈ Y) (hp : p c = true) :
    nodupB ((X ++ Y).filter p) = false := by
  rw [List.filter_append]
  exact nodupB_append_of_mem_both c _ _ (List.mem_filter.mpr ⟨hl, hp⟩) (List.mem_filter.mpr ⟨hr, hp⟩)

/-- **Spanning groups are refused.**  If a label code other than the missing-label code `-1` occurs in two different
    blocks, the blockwise plan is refused (ValueError), whatever the other blocks contain. -/
theorem blockwise_spanning_refused (pre mid post : List (List Int)) (b1 b2 : List Int) (c : Int) (hc : c ≠ -1)
    (h1 : c ∈ b1) (h2 : c ∈ b2) :
    blockwiseRefused (pre ++ b1 :: mid ++ b2 :: post) = true := by
  have hl : c ∈ blockwiseGroups pre ++ dedup b1 := List.mem_append.mpr (Or.inr ((mem_dedup c b1).mpr h1))
  have hr : c ∈ blockwiseGroups mid ++ dedup b2 ++ blockwiseGroups post :=
    List.mem_append.mpr (Or.inl (List.mem_append.mpr (Or.inr ((mem_dedup c b2).mpr h2))))
  unfold blockwiseRefused
  rw [blockwiseGroups_split]
  by_cases hcount : (((blockwiseGroups pre ++ dedup b1) ++ (blockwiseGroups mid ++ dedup b2 ++ blockwiseGroups post)).filter
      (· = -1)).length > 1
  · simp only [hcount, if_true]
    rw [nodupB_filter_append c _ _ _ hl hr (by simpa using hc)]
    rfl
  · simp only [hcount, if_false]
    rw [nodupB_append_of_mem_both c _ _ hl hr]
    rfl

example : blockwiseRefused [[0, 0, 1], [1, 2]] = true ∧ blockwiseRefused [[0, 0, -1], [-1, 2], [-1]] = false ∧
    blockwiseRefused [[0, 1], [2, 2], [3]] = false := by decide +kernel

end Flox.Decisions
