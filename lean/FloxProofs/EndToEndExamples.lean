/-
  Non-vacuity examples and necessity counterexamples for the end-to-end theorems (all by `decide +kernel`).
-/
import FloxProofs.TableShape

namespace Flox
namespace E2E

/-! ### concrete blueprints (as `_initialize_aggregation` resolves them for float64 data) -/

def mkCall (R : Resolved) (eng : Eng) (n se : Nat) : Call :=
  { R := R, eng := eng, sort := true, ngroups := n, knownLabels := true, fillArg := R.userFill, splitEvery := se }

/-- `nanmean`, `min_count=1`, `fill_value=-1` -/
def Rnanmean : Resolved :=
  { name := "nanmean", numpy := [.nanmean, .nanlen], chunk := [.nansum, .nanlen, .nanlen],
    combine := [.sum, .sum, .sum], interFills := [Val.zero, Val.zero, Val.zero], numpyFills := [Val.nan, Val.zero],
    finalFill := some Val.nan, userFill := some (Val.fin (-1)), minCount := 1, finalize := "mean", ddof := 0,
    isArg := false }

/-- `nanvar(ddof=1)`, no `min_count` -/
def Rnanvar : Resolved :=
  { name := "nanvar", numpy := [.nanvar 1], chunk := [.nansumsq, .nansum, .nanlen],
    combine := [.sum, .sum, .sum], interFills := [Val.zero, Val.zero, Val.zero], numpyFills := [Val.nan],
    finalFill := some Val.nan, userFill := none, minCount := 0, finalize := "var", ddof := 1, isArg := false }

/-- `nanmax` as the registry resolves it (`min_count` forced to 1, default fill NaN) -/
def Rnanmax : Resolved :=
  { name := "nanmax", numpy := [.nanmax, .nanlen], chunk := [.nanmax, .nanlen], combine := [.nanmax, .sum],
    interFills := [Val.ninf, Val.zero], numpyFills := [Val.nan, Val.zero], finalFill := some Val.nan,
    userFill := some Val.nan, minCount := 1, finalize := "none", ddof := 0, isArg := false }

/-- `sum`, no `min_count`, no fill -/
def Rsum : Resolved :=
  { name := "sum", numpy := [.sum], chunk := [.sum], combine := [.sum], interFills := [Val.zero],
    numpyFills := [Val.nan], finalFill := some Val.nan, userFill := none, minCount := 0,
    finalize := "none", ddof := 0, isArg := false }

def codes8 : List Int := [0, -1, 2, 0, 2, 2, 0, 3]
def vals8 : List Val := [.fin 1, .fin 9, .fin 3, .nan, .fin 5, .nan, .fin 2, .nan]
-- group 0: [1, nan, 2]; group 1: absent; group 2: [3, 5, nan]; group 3: [nan] (all-NaN); one dropped element

example : Rnanmean.shape? = some (.mean true) := by decide +kernel
example : Rnanvar.shape? = some (.var true 1) := by decide +kernel
example : Rnanmax.shape? = some (.simple .nanmax .nanmax Val.ninf) := by decide +kernel
example : Rsum.shape? = some (.simple .sum .sum Val.zero) := by decide +kernel

/-! ### non-vacuity: all hypotheses hold for concrete calls, and the common value is a real result -/

theorem codes8_ok : CodesOK codes8 4 := by decide +kernel

/-- `eager_eq_spec` applies to `nanmean` (absent group 1 and all-NaN group 3 are masked to the fill -1) -/
example : runKnown (mkCall Rnanmean .npg 4 2) .eager true [8] (codeKeys codes8) vals8
    = specResult .nanmean Rnanmean codes8 vals8 4 :=
  eager_eq_spec Rnanmean (.mean true) (mkCall Rnanmean .npg 4 2) 4 true [8] codes8 vals8 rfl rfl rfl rfl
    (by decide +kernel) codes8_ok rfl (fun _ _ => Or.inl (by decide)) (by decide +kernel)

example : specResult .nanmean Rnanmean codes8 vals8 4
    = .ok [Val.fin (3/2), Val.fin (-1), Val.fin 4, Val.fin (-1)] := by decide +kernel

example : runKnown (mkCall Rnanmean .npg 4 2) .eager true [8] (codeKeys codes8) vals8
    = .ok [Val.fin (3/2), Val.fin (-1), Val.fin 4, Val.fin (-1)] := by decide +kernel

/-- `mapreduce_dense_eq_eager` applies to `nanmean` with 4 blocks and a binary tree -/
example : runKnown (mkCall Rnanmean .npg 4 2) (.mapreduce true) true [2, 1, 3, 2] (codeKeys codes8) vals8
    = runKnown (mkCall Rnanmean .npg 4 2) .eager true [8] (codeKeys codes8) vals8 :=
  mapreduce_dense_eq_eager Rnanmean (.mean true) (mkCall Rnanmean .npg 4 2) 4 true [2, 1, 3, 2] [8] codes8 vals8
    rfl rfl rfl rfl (by decide +kernel) codes8_ok rfl (fun _ _ => Or.inl (by decide)) (by decide +kernel)
    (by decide +kernel) (by decide) rfl (by decide +kernel)

example : runKnown (mkCall Rnanmean .npg 4 2) (.mapreduce true) true [2, 1, 3, 2] (codeKeys codes8) vals8
    = .ok [Val.fin (3/2), Val.fin (-1), Val.fin 4, Val.fin (-1)] := by decide +kernel

/-- `nanvar(ddof=1)` without `min_count`: every requested label present (H_absent through `ms ≠ []`);
    the all-NaN group gets NaN because the NumPy fill is NaN (H_allnan) -/
def codes6 : List Int := [0, 1, 0, 2, 0, 1]
def vals6 : List Val := [.fin 1, .fin 4, .fin (-2), .nan, .fin 4, .nan]

example : runKnown (mkCall Rnanvar .npg 3 3) (.mapreduce true) true [1, 2, 3] (codeKeys codes6) vals6
    = runKnown (mkCall Rnanvar .npg 3 3) .eager true [6] (codeKeys codes6) vals6 :=
  mapreduce_dense_eq_eager Rnanvar (.var true 1) (mkCall Rnanvar .npg 3 3) 3 true [1, 2, 3] [6] codes6 vals6
    rfl rfl rfl rfl (by decide +kernel) (by decide +kernel) rfl
    (by intro g hg
        have : g = 0 ∨ g = 1 ∨ g = 2 := by omega
        rcases this with rfl | rfl | rfl <;> exact Or.inr (by decide +kernel))
    (by decide +kernel) (by decide +kernel) (by decide) rfl (by decide +kernel)

example : runKnown (mkCall Rnanvar .npg 3 3) .eager true [6] (codeKeys codes6) vals6
    = .ok [Val.fin 9, Val.nan, Val.nan] := by decide +kernel
example : specResult (.nanvar 1) Rnanvar codes6 vals6 3 = .ok [Val.fin 9, Val.nan, Val.nan] := by decide +kernel

/-- the `ValueError` branch is reachable and agrees: `nanmean` with `min_count=1` but no fill -/
example : runKnown (mkCall { Rnanmean with userFill := none } .npg 4 2) .eager true [8] (codeKeys codes8) vals8
      = .error "ValueError"
    ∧ runKnown (mkCall { Rnanmean with userFill := none } .npg 4 2) (.mapreduce true) true [3, 5] (codeKeys codes8)
        vals8 = .error "ValueError"
    ∧ specResult .nanmean { Rnanmean with userFill := none } codes8 vals8 4 = .error "ValueError" := by
  decide +kernel

/-- flox's own engine: `nanmax` through `eager_eq_spec_flox` and `mapreduce_dense_eq_spec_flox` -/
example : runKnown (mkCall Rnanmax .flox 4 2) .eager true [8] (codeKeys codes8) vals8
    = specResult .nanmax Rnanmax codes8 vals8 4 :=
  eager_eq_spec_flox Rnanmax (.simple .nanmax .nanmax Val.ninf) (mkCall Rnanmax .flox 4 2) 4 true [8] codes8 vals8
    rfl rfl rfl rfl (by decide +kernel) (by decide +kernel) codes8_ok rfl
    (fun _ _ => Or.inl (by decide)) (by decide +kernel)

example : runKnown (mkCall Rnanmax .flox 4 2) (.mapreduce true) true [5, 3] (codeKeys codes8) vals8
    = specResult .nanmax Rnanmax codes8 vals8 4 :=
  mapreduce_dense_eq_spec_flox Rnanmax (.simple .nanmax .nanmax Val.ninf) (mkCall Rnanmax .flox 4 2) 4 true [5, 3]
    codes8 vals8 rfl rfl rfl rfl (by decide +kernel) codes8_ok rfl (fun _ _ => Or.inl (by decide))
    (by decide +kernel) (by decide) rfl (by decide +kernel)

example : specResult .nanmax Rnanmax codes8 vals8 4 = .ok [Val.fin 2, Val.nan, Val.fin 5, Val.nan] := by
  decide +kernel

/-! ### necessity of the hypotheses -/

/-- **H_absent is necessary for `eager_eq_spec`**: `sum` without `min_count` and without fill, label 1 requested but
    absent: the eager path returns the NumPy fill (NaN) while the specification demands a fill (`ValueError`). -/
theorem H_absent_counterexample :
    Rsum.shape? = some (.simple .sum .sum Val.zero) ∧ HAllNaN Rsum (.simple .sum .sum Val.zero)
    ∧ HMinMax Rsum (.simple .sum .sum Val.zero) ∧ ¬ HAbsent Rsum (members 1 [0] [Val.fin 1])
    ∧ runKnown (mkCall Rsum .npg 2 2) .eager true [1] (codeKeys [0]) [Val.fin 1] = .ok [Val.fin 1, Val.nan]
    ∧ specResult .sum Rsum [0] [Val.fin 1] 2 = .error "ValueError" := by decide +kernel

/-- even with a user fill the eager result for the absent label is the NumPy fill, not the user's -/
theorem H_absent_counterexample_fill :
    runKnown (mkCall { Rsum with userFill := some (Val.fin 7) } .npg 2 2) .eager true [1] (codeKeys [0]) [Val.fin 1]
      = .ok [Val.fin 1, Val.nan]
    ∧ specResult .sum { Rsum with userFill := some (Val.fin 7) } [0] [Val.fin 1] 2 = .ok [Val.fin 1, Val.fin 7] := by
  decide +kernel

/-- **H_absent is necessary for `mapreduce_dense_eq_eager`**: the absent label gets the intermediate fill 0 from
    the map-reduce path and the NumPy fill NaN from the eager path. -/
theorem H_absent_counterexample_mapreduce :
    runKnown (mkCall Rsum .npg 2 2) (.mapreduce true) true [1] (codeKeys [0]) [Val.fin 1] = .ok [Val.fin 1, Val.fin 0]
    ∧ runKnown (mkCall Rsum .npg 2 2) .eager true [1] (codeKeys [0]) [Val.fin 1] = .ok [Val.fin 1, Val.nan] := by
  decide +kernel

/-- `nanfirst` without `min_count`, NumPy fill 0 instead of NaN -/
def Rnanfirst0 : Resolved :=
  { name := "nanfirst", numpy := [.nanfirst], chunk := [.nanfirst], combine := [.nanfirst], interFills := [Val.nan],
    numpyFills := [Val.fin 0], finalFill := some Val.nan, userFill := none, minCount := 0, finalize := "none",
    ddof := 0, isArg := false }

/-- **H_allnan is necessary** (`eager_eq_spec`, `mapreduce_dense_eq_eager`): an all-NaN group gets the NumPy fill
    from numpy_groupies (NaNs are dropped before grouping), NumPy's `nanfirst` gives NaN. -/
theorem H_allnan_counterexample :
    Rnanfirst0.shape? = some (.simple .nanfirst .nanfirst Val.nan)
    ∧ HAbsent Rnanfirst0 (members 0 [0] [Val.nan]) ∧ HMinMax Rnanfirst0 (.simple .nanfirst .nanfirst Val.nan)
    ∧ ¬ HAllNaN Rnanfirst0 (.simple .nanfirst .nanfirst Val.nan)
    ∧ runKnown (mkCall Rnanfirst0 .npg 1 2) .eager true [1] (codeKeys [0]) [Val.nan] = .ok [Val.fin 0]
    ∧ specResult .nanfirst Rnanfirst0 [0] [Val.nan] 1 = .ok [Val.nan]
    ∧ runKnown (mkCall Rnanfirst0 .npg 1 2) (.mapreduce true) true [1] (codeKeys [0]) [Val.nan] = .ok [Val.nan] := by
  decide +kernel

/-- `nanmax` with the count mask switched off (not what the registry produces) -/
def Rnanmax0 : Resolved :=
  { name := "nanmax", numpy := [.nanmax], chunk := [.nanmax], combine := [.nanmax], interFills := [Val.ninf],
    numpyFills := [Val.nan], finalFill := some Val.nan, userFill := none, minCount := 0, finalize := "none",
    ddof := 0, isArg := false }

/-- **H_minmax is necessary** (`mapreduce_dense_eq_spec`, `mapreduce_dense_eq_eager`): without the count mask an
    all-NaN group keeps the intermediate fill `-inf` in the map-reduce path. -/
theorem H_minmax_counterexample :
    Rnanmax0.shape? = some (.simple .nanmax .nanmax Val.ninf)
    ∧ HAbsent Rnanmax0 (members 0 [0] [Val.nan]) ∧ HAllNaN Rnanmax0 (.simple .nanmax .nanmax Val.ninf)
    ∧ ¬ HMinMax Rnanmax0 (.simple .nanmax .nanmax Val.ninf)
    ∧ runKnown (mkCall Rnanmax0 .npg 1 2) (.mapreduce true) true [1] (codeKeys [0]) [Val.nan] = .ok [Val.ninf]
    ∧ runKnown (mkCall Rnanmax0 .npg 1 2) .eager true [1] (codeKeys [0]) [Val.nan] = .ok [Val.nan]
    ∧ specResult .nanmax Rnanmax0 [0] [Val.nan] 1 = .ok [Val.nan] := by decide +kernel

/-- `count` with a non-zero NumPy fill (not what the registry produces) -/
def Rcount7 : Resolved :=
  { name := "count", numpy := [.nanlen], chunk := [.nanlen], combine := [.sum], interFills := [Val.zero],
    numpyFills := [Val.fin 7], finalFill := some Val.zero, userFill := none, minCount := 0, finalize := "none",
    ddof := 0, isArg := false }

/-- **the `nanlen` fill check inside `Shape.fits` is necessary**: numpy_groupies' `_len` wrapper replaces a zero count
    by the fill, so an all-NaN group would count 7. -/
theorem lenfill_counterexample :
    Rcount7.shape? = none ∧ { Rcount7 with numpyFills := [Val.zero] }.shape? = some (.simple .nanlen .sum Val.zero)
    ∧ runKnown (mkCall Rcount7 .npg 1 2) .eager true [1] (codeKeys [0]) [Val.nan] = .ok [Val.fin 7]
    ∧ specResult .nanlen Rcount7 [0] [Val.nan] 1 = .ok [Val.fin 0] := by decide +kernel

/-- **`chunks ≠ []` is necessary**: with no block at all (and no data) the combine of nothing has no groups and the
    final reindex raises, while the eager path returns the masked slots. -/
theorem chunks_ne_nil_counterexample :
    runKnown (mkCall Rnanmean .npg 1 2) (.mapreduce true) true [] (codeKeys []) [] = .ok [Val.fin (-1)]
    ∧ runKnown (mkCall { Rnanmean with userFill := none } .npg 1 2) (.mapreduce true) true [] (codeKeys []) []
        ≠ runKnown (mkCall { Rnanmean with userFill := none } .npg 1 2) .eager true [] (codeKeys []) [] := by
  decide +kernel

/-- **`chunks.sum = codes.length` is necessary**: blocks that do not cover the array drop elements. -/
theorem chunks_sum_counterexample :
    runKnown (mkCall Rnanmean .npg 4 2) (.mapreduce true) true [2, 1] (codeKeys codes8) vals8
      ≠ runKnown (mkCall Rnanmean .npg 4 2) .eager true [8] (codeKeys codes8) vals8 := by decide +kernel

/-- `mean` with a NumPy fill that is not NaN (not what the registry produces), no `min_count` -/
def Rmean3 : Resolved :=
  { name := "mean", numpy := [.mean], chunk := [.sum, .nanlen], combine := [.sum, .sum],
    interFills := [Val.zero, Val.zero], numpyFills := [Val.fin 3], finalFill := some Val.nan, userFill := none,
    minCount := 0, finalize := "mean", ddof := 0, isArg := false }

/-- **H_floxmean is necessary for the engine-independence statement** `eager_engine_irrelevant`: flox's own `mean`
    puts `fill / 0` into an absent slot, numpy_groupies puts `fill`.  (For `eager_eq_spec_flox` itself the absent slot
    is excluded by H_absent, so there H_floxmean is only needed by the proof, which goes through engine equality.) -/
theorem H_floxmean_counterexample :
    Rmean3.shape? = some (.mean false) ∧ ¬ HFloxMean Rmean3 (.mean false)
    ∧ runKnown (mkCall Rmean3 .flox 2 2) .eager true [1] (codeKeys [0]) [Val.fin 1] = .ok [Val.fin 1, Val.pinf]
    ∧ runKnown (mkCall Rmean3 .npg 2 2) .eager true [1] (codeKeys [0]) [Val.fin 1] = .ok [Val.fin 1, Val.fin 3] := by
  decide +kernel

/-- flox engine, `nanmean` (NumPy fill NaN): `eager_eq_spec_flox` applies -/
example : runKnown (mkCall Rnanmean .flox 4 2) .eager true [8] (codeKeys codes8) vals8
    = specResult .nanmean Rnanmean codes8 vals8 4 :=
  eager_eq_spec_flox Rnanmean (.mean true) (mkCall Rnanmean .flox 4 2) 4 true [8] codes8 vals8
    rfl rfl rfl rfl (by decide +kernel) (by decide +kernel) codes8_ok rfl
    (fun _ _ => Or.inl (by decide)) (by decide +kernel)

end E2E
end Flox
