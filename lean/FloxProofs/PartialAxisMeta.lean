/-
  Metadata of partial-axis reductions (property C08): which axis of the user's array every output axis is,
  eager vs chunked.
-/
import FloxModel.PartialAxis

namespace Flox
namespace PartialAxis

/-! ### sign of an axis is irrelevant -/

theorem normAxis1_nonneg (ndim a : Nat) (h : a < ndim) : normAxis1 ndim (a : Int) = some a := by
  have h1 : (0 : Int) ≤ (a : Int) ∧ (a : Int) < (ndim : Int) := by omega
  simp [normAxis1, h1]

theorem normAxis1_neg (ndim a : Nat) (h : a < ndim) : normAxis1 ndim ((a : Int) - (ndim : Int)) = some a := by
  have h1 : ¬ ((0 : Int) ≤ (a : Int) - (ndim : Int) ∧ (a : Int) - (ndim : Int) < (ndim : Int)) := by omega
  have h2 : -(ndim : Int) ≤ (a : Int) - (ndim : Int) ∧ (a : Int) - (ndim : Int) < 0 := by omega
  simp only [normAxis1, h1, if_false, h2, and_self, if_true]
  congr 1
  omega

/-! ### counting kept dims -/

theorem mem_keptDims {ndim : Nat} {axes : List Nat} {d : Nat} :
    d ∈ keptDims ndim axes ↔ d < ndim ∧ d ∉ axes := by
  simp [keptDims]

theorem keptDims_succ (n : Nat) (l : List Nat) :
    keptDims (n + 1) l = keptDims n l ++ (if l.contains n then [] else [n]) := by
  simp only [keptDims, List.range_succ, List.filter_append, List.filter_cons, List.filter_nil]
  by_cases h : l.contains n = true <;> simp [h]

theorem keptDims_erase (n a : Nat) (l : List Nat) (ha : n ≤ a) : keptDims n (l.erase a) = keptDims n l := by
  simp only [keptDims]
  apply List.filter_congr
  intro d hd
  have hd' : d < n := List.mem_range.mp hd
  have hne : d ≠ a := by omega
  have : d ∈ l.erase a ↔ d ∈ l := List.mem_erase_of_ne hne
  by_cases h : d ∈ l
  · simp [h, this.mpr h]
  · have h2 : d ∉ l.erase a := fun h' => h (this.mp h')
    simp [h, h2]

/-- kept dims and reduced dims partition `range n` -/
theorem kept_count (n : Nat) : ∀ l : List Nat, l.Nodup → (∀ a ∈ l, a < n) →
    (keptDims n l).length + l.length = n := by
  induction n with
  | zero =>
    intro l _ h
    cases l with
    | nil => simp [keptDims]
    | cons a t => exact absurd (h a (by simp)) (by omega)
  | succ n ih =>
    intro l hnd hlt
    rw [keptDims_succ]
    by_cases hn : n ∈ l
    · have hc : l.contains n = true := by simpa using hn
      simp only [hc, if_true, List.append_nil]
      have hnd' : (l.erase n).Nodup := hnd.erase n
      have hlt' : ∀ a ∈ l.erase n, a < n := by
        intro a ha
        have h1 : a ∈ l := List.mem_of_mem_erase ha
        have h2 : a ≠ n := by
          intro e
          subst e
          exact (List.Nodup.mem_erase_iff hnd).mp ha |>.1 rfl
        have := hlt a h1
        omega
      have := ih (l.erase n) hnd' hlt'
      rw [keptDims_erase n n l (Nat.le_refl n), List.length_erase_of_mem hn] at this
      have hpos : 0 < l.length := List.length_pos_of_mem hn
      omega
    · have hc : l.contains n = false := by simpa using hn
      simp only [hc, Bool.false_eq_true, if_false, List.length_append, List.length_singleton]
      have hlt' : ∀ a ∈ l, a < n := by
        intro a ha
        have := hlt a ha
        have : a ≠ n := fun e => hn (e ▸ ha)
        omega
      have := ih l hnd hlt'
      omega

/-! ### positions of the kept dims -/

/-- **moved case**: the transposition puts the kept dims first, in ascending order, so output axis `i` is the
    `i`-th kept dim of the user's array -/
theorem moveOrder_take (ndim : Nat) (axes : List Nat) (hnd : axes.Nodup) (hlt : ∀ a ∈ axes, a < ndim) :
    (moveOrder ndim axes).take (ndim - axes.length) = keptDims ndim axes := by
  have := kept_count ndim axes hnd hlt
  unfold moveOrder
  apply List.take_left'
  omega

theorem keptDims_lower (ndim b : Nat) (axes : List Nat) (hb : b ≤ ndim) (hge : ∀ a ∈ axes, ndim - b ≤ a) :
    keptDims ndim axes = List.range (ndim - b) ++ ((List.range b).map (ndim - b + ·)).filter fun d => !axes.contains d := by
  have : ndim = (ndim - b) + b := by omega
  conv => lhs; rw [this]
  simp only [keptDims, List.range_add, List.filter_append]
  congr 1
  apply List.filter_eq_self.mpr
  intro d hd
  have hd' : d < ndim - b := List.mem_range.mp hd
  have : d ∉ axes := fun h => by have := hge d h; omega
  simpa using this

/-- **all label dims reduced** (nothing is moved; the code takes `array.shape[:-nax]`): the first `ndim - nax`
    dims are exactly the kept dims -/
theorem keptDims_all (ndim : Nat) (axes : List Nat) (hnd : axes.Nodup) (hlt : ∀ a ∈ axes, a < ndim)
    (hge : ∀ a ∈ axes, ndim - axes.length ≤ a) (hb : axes.length ≤ ndim) :
    keptDims ndim axes = List.range (ndim - axes.length) := by
  have hc := kept_count ndim axes hnd hlt
  have hk := keptDims_lower ndim axes.length axes hb hge
  rw [hk] at hc ⊢
  simp only [List.length_append, List.length_range] at hc
  have : (((List.range axes.length).map (ndim - axes.length + ·)).filter fun d => !axes.contains d).length = 0 := by omega
  rw [List.length_eq_zero_iff.mp this]
  simp

/-- which axis of the user's array each output axis (but the last, the group axis) is: the kept dims in ascending
    order — for every subset of the label dims, in any order -/
theorem outDims_eq_kept (ndim byNdim : Nat) (axes : List Nat) (hby : byNdim ≤ ndim) (hnd : axes.Nodup)
    (hlt : ∀ a ∈ axes, a < ndim) (hge : ∀ a ∈ axes, ndim - byNdim ≤ a) (hlen : axes.length ≤ byNdim) :
    outDims ndim (entryOf ndim byNdim axes) = keptDims ndim axes := by
  unfold outDims entryOf
  by_cases h : axes.length < byNdim
  · simp only [h, if_true]
    exact moveOrder_take ndim axes hnd hlt
  · simp only [h, if_false]
    have hl : axes.length = byNdim := by omega
    rw [keptDims_all ndim axes hnd hlt (by rw [hl]; exact hge) (by omega), List.take_range]
    congr 1
    omega

theorem permuteShape_take (shape order : List Nat) (n : Nat) :
    (permuteShape shape order).take n = (order.take n).map fun d => shape.getD d 1 := by
  simp [permuteShape, List.map_take]

/-- **shape and axis positions, eager = chunked**: both results have the sizes of the kept dims (ascending) followed
    by the group axis (last) -/
theorem shapes_agree (shape : List Nat) (byNdim G : Nat) (axes : List Nat) (hby : byNdim ≤ shape.length)
    (hnd : axes.Nodup) (hlt : ∀ a ∈ axes, a < shape.length) (hge : ∀ a ∈ axes, shape.length - byNdim ≤ a)
    (hlen : axes.length ≤ byNdim) :
    eagerOutShape shape (entryOf shape.length byNdim axes) G
        = (keptDims shape.length axes).map (fun d => shape.getD d 1) ++ [G]
    ∧ chunkedOutShape shape (entryOf shape.length byNdim axes) G
        = eagerOutShape shape (entryOf shape.length byNdim axes) G := by
  have hout := outDims_eq_kept shape.length byNdim axes hby hnd hlt hge hlen
  constructor
  · unfold eagerOutShape
    rw [permuteShape_take]
    unfold outDims at hout
    rw [hout]
  · unfold chunkedOutShape eagerOutShape
    have : (entryOf shape.length byNdim axes).axes.length = (entryOf shape.length byNdim axes).nax := by
      unfold entryOf
      by_cases h : axes.length < byNdim <;> simp [h]
    rw [this]

/-! ### the order-dependent step of the graph -/

theorem dropLast_range_shift (nax off : Nat) :
    ((List.range nax).map (· + off)).dropLast = (List.range (nax - 1)).map (· + off) := by
  cases nax with
  | zero => simp
  | succ n =>
    rw [List.range_succ, List.map_append]
    simp

/-- a subset of the label dims (`nax < by.ndim`): `axis_` is renumbered to the last `nax` dims in ascending
    order, so the combine never sees a repeated axis -/
theorem chunked_ok_moved (ndim byNdim : Nat) (axes : List Nat) (h : axes.length < byNdim) (hle : axes.length ≤ ndim)
    (m : Method) :
    chunkedError ndim (entryOf ndim byNdim axes) m = none := by
  have hcont : (((List.range axes.length).map (· + (ndim - axes.length))).dropLast.contains (ndim - 1)) = false := by
    rw [dropLast_range_shift]
    apply Bool.eq_false_iff.mpr
    intro hc
    simp only [List.contains_eq_mem, List.mem_map, List.mem_range, decide_eq_true_eq] at hc
    obtain ⟨i, hi, he⟩ := hc
    omega
  unfold chunkedError entryOf
  simp only [h, if_true]
  cases m with
  | blockwise => rfl
  | mapreduce => simp only [hcont]; simp
  | cohorts => simp only [hcont]; simp

/-! ### `sorted(...)`: insertion sort keeps the elements, removes the order -/

theorem mem_insertNat {x y : Nat} {l : List Nat} : y ∈ insertNat x l ↔ y = x ∨ y ∈ l := by
  induction l with
  | nil => simp [insertNat]
  | cons a t ih =>
    simp only [insertNat]
    split
    · simp
    · simp only [List.mem_cons, ih]
      constructor
      · rintro (h | h | h)
        · exact Or.inr (Or.inl h)
        · exact Or.inl h
        · exact Or.inr (Or.inr h)
      · rintro (h | h | h)
        · exact Or.inr (Or.inl h)
        · exact Or.inl h
        · exact Or.inr (Or.inr h)

theorem mem_sortNat {y : Nat} {l : List Nat} : y ∈ sortNat l ↔ y ∈ l := by
  induction l with
  | nil => simp [sortNat]
  | cons a t ih =>
    have : sortNat (a :: t) = insertNat a (sortNat t) := rfl
    rw [this, mem_insertNat, ih]
    simp

theorem length_insertNat (x : Nat) (l : List Nat) : (insertNat x l).length = l.length + 1 := by
  induction l with
  | nil => simp [insertNat]
  | cons a t ih =>
    simp only [insertNat]
    split <;> simp [ih]

theorem length_sortNat (l : List Nat) : (sortNat l).length = l.length := by
  induction l with
  | nil => simp [sortNat]
  | cons a t ih =>
    have : sortNat (a :: t) = insertNat a (sortNat t) := rfl
    rw [this, length_insertNat, ih]
    simp

theorem pairwise_insertNat (x : Nat) (l : List Nat) (h : l.Pairwise (· ≤ ·)) : (insertNat x l).Pairwise (· ≤ ·) := by
  induction l with
  | nil => simp [insertNat]
  | cons a t ih =>
    have ht := (List.pairwise_cons.mp h)
    simp only [insertNat]
    split
    · rename_i hxa
      apply List.pairwise_cons.mpr
      refine ⟨?_, h⟩
      intro b hb
      rcases List.mem_cons.mp hb with rfl | hb
      · exact hxa
      · exact Nat.le_trans hxa (ht.1 b hb)
    · rename_i hxa
      apply List.pairwise_cons.mpr
      refine ⟨?_, ih ht.2⟩
      intro b hb
      rcases mem_insertNat.mp hb with rfl | hb
      · omega
      · exact ht.1 b hb

theorem pairwise_sortNat (l : List Nat) : (sortNat l).Pairwise (· ≤ ·) := by
  induction l with
  | nil => simp [sortNat]
  | cons a t ih => exact pairwise_insertNat a _ ih

theorem nodup_insertNat (x : Nat) (l : List Nat) (hx : x ∉ l) (h : l.Nodup) : (insertNat x l).Nodup := by
  induction l with
  | nil => simp [insertNat]
  | cons a t ih =>
    have ht := List.nodup_cons.mp h
    simp only [insertNat]
    split
    · exact List.nodup_cons.mpr ⟨hx, h⟩
    · apply List.nodup_cons.mpr
      refine ⟨?_, ih (fun hm => hx (by simp [hm])) ht.2⟩
      intro hm
      rcases mem_insertNat.mp hm with rfl | hm
      · exact hx (by simp)
      · exact ht.1 hm

theorem nodup_sortNat (l : List Nat) (h : l.Nodup) : (sortNat l).Nodup := by
  induction l with
  | nil => simp [sortNat]
  | cons a t ih =>
    have ht := List.nodup_cons.mp h
    exact nodup_insertNat a _ (fun hm => ht.1 (mem_sortNat.mp hm)) (ih ht.2)

theorem keptDims_sortNat (ndim : Nat) (axes : List Nat) : keptDims ndim (sortNat axes) = keptDims ndim axes := by
  simp only [keptDims]
  apply List.filter_congr
  intro d _
  have : d ∈ sortNat axes ↔ d ∈ axes := mem_sortNat
  by_cases h : d ∈ axes
  · simp [h, this.mpr h]
  · have h2 : d ∉ sortNat axes := fun h' => h (this.mp h')
    simp [h, h2]

/-- in an ascending duplicate-free list of dims `< ndim`, the last array dim can only be the last entry -/
theorem sorted_dropLast_not_last (ndim : Nat) (l : List Nat) (hs : l.Pairwise (· ≤ ·)) (hnd : l.Nodup)
    (hlt : ∀ a ∈ l, a < ndim) : l.dropLast.contains (ndim - 1) = false := by
  apply Bool.eq_false_iff.mpr
  intro hc
  simp only [List.contains_eq_mem, decide_eq_true_eq] at hc
  have hne : l ≠ [] := by intro e; simp [e] at hc
  have hsplit := List.dropLast_concat_getLast hne
  have hlast : l.getLast hne < ndim := hlt _ (List.getLast_mem hne)
  rw [← hsplit] at hs hnd
  have hle := (List.pairwise_append.mp hs).2.2 (ndim - 1) hc (l.getLast hne) (by simp)
  have heq : l.getLast hne = ndim - 1 := by omega
  have := (List.nodup_append.mp hnd).2.2 (ndim - 1) hc (l.getLast hne) (by simp)
  exact this heq.symm

/-- **the graph is order-independent**: whatever the order (and sign) in which the reduced axes were named, after
    `sorted(...)` no plan has an order-dependent failure — for proper subsets and for all label dims alike -/
theorem chunked_ok_sorted (ndim byNdim : Nat) (axes : List Nat) (hnd : axes.Nodup) (hlt : ∀ a ∈ axes, a < ndim)
    (m : Method) :
    chunkedError ndim (entryOf ndim byNdim (sortNat axes)) m = none := by
  have hlt' : ∀ a ∈ sortNat axes, a < ndim := fun a ha => hlt a (mem_sortNat.mp ha)
  have hcount := kept_count ndim (sortNat axes) (nodup_sortNat axes hnd) hlt'
  by_cases h : (sortNat axes).length < byNdim
  · exact chunked_ok_moved ndim byNdim (sortNat axes) h (by omega) m
  · have hcont := sorted_dropLast_not_last ndim (sortNat axes) (pairwise_sortNat axes) (nodup_sortNat axes hnd)
      (fun a ha => hlt a (mem_sortNat.mp ha))
    unfold chunkedError entryOf
    simp only [h, if_false]
    cases m with
    | blockwise => rfl
    | mapreduce => simp only [hcont]; simp
    | cohorts => simp only [hcont]; simp

end PartialAxis
end Flox
