/-
  Proofs about the rechunking model (`FloxModel/Rechunk.lean`): helper lemmas for property C17.
-/
import FloxModel.Rechunk
import FloxProofs.Members

namespace Flox.Rechunk

/-! ## cumsum / diff / starts -/

theorem cumsumFrom_bounds (a : Nat) (cs : List Nat) : ∀ b ∈ cumsumFrom a cs, a ≤ b ∧ b ≤ a + cs.sum := by
  induction cs generalizing a with
  | nil => simp [cumsumFrom]
  | cons c cs ih =>
    intro b hb
    simp only [cumsumFrom, List.mem_cons] at hb
    simp only [List.sum_cons]
    rcases hb with rfl | hb
    · omega
    · have := ih (a + c) b hb
      omega

theorem cumsumFrom_pos (a : Nat) (cs : List Nat) (hpos : ∀ c ∈ cs, 0 < c) : ∀ b ∈ cumsumFrom a cs, a < b := by
  induction cs generalizing a with
  | nil => simp [cumsumFrom]
  | cons c cs ih =>
    intro b hb
    simp only [cumsumFrom, List.mem_cons] at hb
    have hc : 0 < c := hpos c (by simp)
    rcases hb with rfl | hb
    · omega
    · have := ih (a + c) (fun x hx => hpos x (by simp [hx])) b hb
      omega

theorem cumsumFrom_shift (a : Nat) (cs : List Nat) : cumsumFrom a cs = (cumsumFrom 0 cs).map (a + ·) := by
  induction cs generalizing a with
  | nil => simp [cumsumFrom]
  | cons c cs ih =>
    simp only [cumsumFrom, List.map_cons, Nat.zero_add]
    rw [ih (a + c), ih c]
    simp [List.map_map, Nat.add_assoc]

theorem diff_pos (a : Nat) (xs : List Nat) (h : (a :: xs).Pairwise (· < ·)) : ∀ c ∈ diff (a :: xs), 0 < c := by
  induction xs generalizing a with
  | nil => simp [diff]
  | cons b ys ih =>
    intro c hc
    simp only [diff, List.mem_cons] at hc
    rw [List.pairwise_cons] at h
    have hab : a < b := h.1 b (by simp)
    rcases hc with rfl | hc
    · omega
    · exact ih b h.2 c hc

theorem cumsumFrom_diff (a : Nat) (xs : List Nat) (h : (a :: xs).Pairwise (· < ·)) :
    cumsumFrom a (diff (a :: xs)) = xs := by
  induction xs generalizing a with
  | nil => simp [diff, cumsumFrom]
  | cons b ys ih =>
    rw [List.pairwise_cons] at h
    have hab : a < b := h.1 b (by simp)
    simp only [diff, cumsumFrom]
    have e : a + (b - a) = b := by omega
    rw [e, ih b h.2]

theorem startsFrom_diff (a : Nat) (xs : List Nat) (h : (a :: xs).Pairwise (· < ·)) :
    startsFrom a (diff (a :: xs)) = (a :: xs).dropLast := by
  induction xs generalizing a with
  | nil => simp [diff, startsFrom]
  | cons b ys ih =>
    rw [List.pairwise_cons] at h
    have hab : a < b := h.1 b (by simp)
    simp only [diff, startsFrom, List.dropLast_cons_cons]
    have e : a + (b - a) = b := by omega
    rw [e, ih b h.2]

theorem sum_diff (a : Nat) (xs : List Nat) (h : (a :: xs).Pairwise (· < ·)) (n : Nat)
    (hn : (a :: xs).getLast? = some n) : (diff (a :: xs)).sum + a = n := by
  induction xs generalizing a with
  | nil => simp at hn; simp [diff, hn]
  | cons b ys ih =>
    rw [List.pairwise_cons] at h
    have hab : a < b := h.1 b (by simp)
    have hn' : (b :: ys).getLast? = some n := by simpa [List.getLast?_cons_cons] using hn
    have := ih b h.2 hn'
    simp only [diff, List.sum_cons]
    omega

/-! ## the final conditional append -/

theorem closeIdx_props (n a : Nat) (tl : List Nat) (P : Nat → Prop) (hP : P n)
    (hinc : (a :: tl).Pairwise (· < ·)) (hle : ∀ x ∈ a :: tl, x ≤ n) (hPx : ∀ x ∈ tl, P x) :
    ∃ tl', closeIdx n (a :: tl) = a :: tl' ∧ (a :: tl').Pairwise (· < ·) ∧ (a :: tl').getLast? = some n
      ∧ ∀ x ∈ tl', P x := by
  induction tl generalizing a with
  | nil =>
    by_cases h : a = n
    · exact ⟨[], by simp [closeIdx, h], by simp, by simp [h], by simp⟩
    · have : a ≤ n := hle a (by simp)
      refine ⟨[n], by simp [closeIdx, h], ?_, by simp, by simpa using hP⟩
      simp; omega
  | cons b ys ih =>
    rw [List.pairwise_cons] at hinc
    obtain ⟨tl', h1, h2, h3, h4⟩ := ih b hinc.2 (fun x hx => hle x (by simp [hx])) (fun x hx => hPx x (by simp [hx]))
    have hab : a < b := hinc.1 b (by simp)
    refine ⟨b :: tl', ?_, ?_, ?_, ?_⟩
    · unfold closeIdx at h1 ⊢
      simp only [List.getLastD_cons] at h1 ⊢
      split
      · rename_i hc; rw [if_pos hc] at h1; simp only [List.cons_append] at h1 ⊢; rw [h1]
      · rename_i hc; rw [if_neg hc] at h1; rw [h1]
    · rw [List.pairwise_cons]
      refine ⟨?_, h2⟩
      intro x hx
      rw [List.pairwise_cons] at h2
      rcases List.mem_cons.1 hx with rfl | hx
      · exact hab
      · exact Nat.lt_trans hab (h2.1 x hx)
    · simpa [List.getLast?_cons_cons] using h3
    · intro x hx
      rcases List.mem_cons.1 hx with rfl | hx
      · exact hPx _ (by simp)
      · exact h4 x hx

/-! ## the boundary-moving loop -/

theorem optLoop_props (n : Nat) (P : Nat → Prop) (ts : List (Nat × Nat × Nat))
    (hts : ∀ t ∈ ts, t.2.1 ≤ n ∧ t.2.2 + 1 ≤ n ∧ P t.2.1 ∧ P (t.2.2 + 1)) (last : Nat) :
    (last :: optLoop last ts).Pairwise (· < ·) ∧ ∀ x ∈ optLoop last ts, x ≤ n ∧ P x := by
  induction ts generalizing last with
  | nil => simp [optLoop]
  | cons t rest ih =>
    obtain ⟨c, f, l⟩ := t
    have ht := hts (c, f, l) (by simp)
    simp only at ht
    have hrest : ∀ t ∈ rest, t.2.1 ≤ n ∧ t.2.2 + 1 ≤ n ∧ P t.2.1 ∧ P (t.2.2 + 1) := fun t h => hts t (by simp [h])
    unfold optLoop
    split
    · exact ih hrest last
    · rename_i hskip
      have hll : last ≤ l := by omega
      split
      · rename_i hf
        have := ih hrest f
        refine ⟨?_, ?_⟩
        · rw [List.pairwise_cons]
          refine ⟨?_, this.1⟩
          intro x hx
          have h2 := this.1
          rw [List.pairwise_cons] at h2
          rcases List.mem_cons.1 hx with rfl | hx
          · exact hf.2
          · exact Nat.lt_trans hf.2 (h2.1 x hx)
        · intro x hx
          rcases List.mem_cons.1 hx with rfl | hx
          · exact ⟨ht.1, ht.2.2.1⟩
          · exact this.2 x hx
      · have := ih hrest (l + 1)
        refine ⟨?_, ?_⟩
        · rw [List.pairwise_cons]
          refine ⟨?_, this.1⟩
          intro x hx
          have h2 := this.1
          rw [List.pairwise_cons] at h2
          rcases List.mem_cons.1 hx with rfl | hx
          · omega
          · have := h2.1 x hx; omega
        · intro x hx
          rcases List.mem_cons.1 hx with rfl | hx
          · exact ⟨ht.2.1, ht.2.2.2⟩
          · exact this.2 x hx

/-! ## first / last index of a label -/

theorem firstIdx_spec (labels : List Nat) (v : Nat) (hv : v ∈ labels) :
    ∃ h : firstIdx labels v < labels.length, labels[firstIdx labels v] = v ∧
      ∀ i (hi : i < firstIdx labels v), labels[i]'(Nat.lt_trans hi h) ≠ v := by
  have hlt : labels.idxOf v < labels.length := List.idxOf_lt_length_iff.2 hv
  have e : firstIdx labels v = labels.idxOf v := by simp [firstIdx, hv]
  rw [e]
  refine ⟨hlt, List.getElem_idxOf hlt, ?_⟩
  intro i hi
  have := List.not_of_lt_findIdx (p := (· == v)) (xs := labels) (by simpa [List.idxOf] using hi)
  simpa using this

theorem lastIdx_spec (labels : List Nat) (v : Nat) (hv : v ∈ labels) :
    ∃ h : lastIdx labels v < labels.length, labels[lastIdx labels v] = v ∧
      ∀ j (_ : lastIdx labels v < j) (hj : j < labels.length), labels[j] ≠ v := by
  have hv' : v ∈ labels.reverse := by simpa using hv
  have hlt : labels.reverse.idxOf v < labels.reverse.length := List.idxOf_lt_length_iff.2 hv'
  have hlt' : labels.reverse.idxOf v < labels.length := by simpa using hlt
  have e : lastIdx labels v = labels.length - 1 - labels.reverse.idxOf v := by simp [lastIdx, hv]
  have hpos : 0 < labels.length := List.length_pos_of_mem hv
  have h : lastIdx labels v < labels.length := by omega
  refine ⟨h, ?_, ?_⟩
  · have h1 := List.getElem_idxOf hlt
    rw [List.getElem_reverse] at h1
    simpa [e] using h1
  · intro j hj1 hj2
    have hk : labels.length - 1 - j < labels.reverse.idxOf v := by omega
    have h2 := List.not_of_lt_findIdx (p := (· == v)) (xs := labels.reverse) (by simpa [List.idxOf] using hk)
    rw [List.getElem_reverse] at h2
    have e2 : labels.length - 1 - (labels.length - 1 - j) = j := by omega
    simp only [e2] at h2
    simpa using h2

/-! ## a run start is a boundary no label straddles -/

theorem good_first (labels : List Nat) (hc : Contiguous labels) (v : Nat) (hv : v ∈ labels) :
    ∀ w ∈ labels.take (firstIdx labels v), w ∉ labels.drop (firstIdx labels v) := by
  obtain ⟨hlt, hat, hmin⟩ := firstIdx_spec labels v hv
  intro w hw1 hw2
  obtain ⟨i, hi, rfl⟩ := List.mem_take_iff_getElem.1 hw1
  obtain ⟨j, hj, hij⟩ := List.mem_drop_iff_getElem.1 hw2
  have hi' : i < firstIdx labels v := by omega
  by_cases hj0 : j = 0
  · subst hj0
    simp only [Nat.add_zero] at hij
    exact hmin i hi' (by rw [← hij]; exact hat)
  · have := hc i (firstIdx labels v) (firstIdx labels v + j) hi' (by omega) (by omega) hij.symm
    exact hmin i hi' (by rw [← this]; exact hat)

theorem good_last (labels : List Nat) (hc : Contiguous labels) (v : Nat) (hv : v ∈ labels) :
    ∀ w ∈ labels.take (lastIdx labels v + 1), w ∉ labels.drop (lastIdx labels v + 1) := by
  obtain ⟨hlt, hat, hmax⟩ := lastIdx_spec labels v hv
  intro w hw1 hw2
  obtain ⟨i, hi, rfl⟩ := List.mem_take_iff_getElem.1 hw1
  obtain ⟨j, hj, hij⟩ := List.mem_drop_iff_getElem.1 hw2
  have hi' : i ≤ lastIdx labels v := by omega
  by_cases hil : i = lastIdx labels v
  · subst hil
    exact hmax (lastIdx labels v + 1 + j) (by omega) (by omega) (by rw [hij]; exact hat)
  · have := hc i (lastIdx labels v) (lastIdx labels v + 1 + j) (by omega) (by omega) (by omega) hij.symm
    exact hmax (lastIdx labels v + 1 + j) (by omega) (by omega) (by rw [hij, ← this]; exact hat)

/-! ## `_get_optimal_chunks_for_groups` -/

theorem mem_insertSorted (v x : Nat) (ys : List Nat) : v ∈ insertSorted x ys ↔ v = x ∨ v ∈ ys := by
  induction ys with
  | nil => simp [insertSorted]
  | cons y ys ih =>
    unfold insertSorted
    split
    · simp
    · split
      · rename_i h; subst h; simp
      · simp only [List.mem_cons, ih]
        constructor
        · rintro (h | h | h) <;> simp [h]
        · rintro (h | h | h) <;> simp [h]

theorem mem_sortedUnique (v : Nat) (xs : List Nat) : v ∈ sortedUnique xs ↔ v ∈ xs := by
  induction xs with
  | nil => simp [sortedUnique]
  | cons x xs ih =>
    have : sortedUnique (x :: xs) = insertSorted x (sortedUnique xs) := rfl
    rw [this, mem_insertSorted, ih]
    simp

theorem cidx_last (a d : Nat) (cs : List Nat) (hne : cs ≠ []) (hpos : ∀ c ∈ cs, 0 < c) :
    ((cumsumFrom a cs).map (· - 1)).getLastD d + 1 = a + cs.sum := by
  induction cs generalizing a d with
  | nil => exact absurd rfl hne
  | cons c cs ih =>
    have hc : 0 < c := hpos c (by simp)
    cases cs with
    | nil => simp [cumsumFrom, List.getLastD]; omega
    | cons c' cs' =>
      have := ih (a + c) (a + c - 1) (by simp) (fun x hx => hpos x (by simp [hx]))
      simp only [cumsumFrom, List.map_cons, List.getLastD_cons, List.sum_cons] at this ⊢
      omega

/-- a boundary that is the end of the axis, the first position of a label, or one past the last position of a label -/
def GoodBoundary (labels : List Nat) (b : Nat) : Prop :=
  b = labels.length ∨ ∃ v ∈ labels, b = firstIdx labels v ∨ b = lastIdx labels v + 1

theorem optimal_struct (chunks labels : List Nat) (hv : ValidChunks labels.length chunks) :
    ValidChunks labels.length (optimal chunks labels) ∧
      ∀ b ∈ ends (optimal chunks labels), GoodBoundary labels b := by
  have hblmem : ∀ v ∈ sortedUnique (((cumsum chunks).map (· - 1)).filterMap (labels[·]?)), v ∈ labels := by
    intro v hv'
    rw [mem_sortedUnique, List.mem_filterMap] at hv'
    obtain ⟨i, _, hi⟩ := hv'
    exact List.mem_of_getElem? hi
  unfold optimal
  simp only
  split
  · rename_i heq
    refine ⟨hv, ?_⟩
    intro b hb
    have hbpos : 0 < b := cumsumFrom_pos 0 chunks hv.1 b hb
    have hmem : b - 1 ∈ (cumsum chunks).map (· - 1) := List.mem_map.2 ⟨b, hb, rfl⟩
    rw [heq, List.mem_map] at hmem
    obtain ⟨v, hvbl, hvl⟩ := hmem
    exact Or.inr ⟨v, hblmem v hvbl, Or.inr (by omega)⟩
  · rename_i hneq
    have hne : chunks ≠ [] := by
      intro h
      apply hneq
      subst h
      simp [cumsum, cumsumFrom, sortedUnique]
    have htotal : ((cumsum chunks).map (· - 1)).getLastD 0 + 1 = labels.length := by
      have := cidx_last 0 0 chunks hne hv.1
      rw [hv.2] at this
      simpa [cumsum] using this
    unfold optIdx
    simp only
    rw [htotal]
    generalize hts : ((cumsum chunks).map (· - 1)).zip
        (((sortedUnique (((cumsum chunks).map (· - 1)).filterMap (labels[·]?))).map (firstIdx labels)).zip
          ((sortedUnique (((cumsum chunks).map (· - 1)).filterMap (labels[·]?))).map (lastIdx labels))) = ts
    have htsP : ∀ t ∈ ts, t.2.1 ≤ labels.length ∧ t.2.2 + 1 ≤ labels.length ∧
        GoodBoundary labels t.2.1 ∧ GoodBoundary labels (t.2.2 + 1) := by
      intro t ht
      rw [← hts] at ht
      obtain ⟨c, f, l⟩ := t
      have h2 := (List.of_mem_zip ht).2
      have hf := (List.of_mem_zip h2).1
      have hl := (List.of_mem_zip h2).2
      rw [List.mem_map] at hf hl
      obtain ⟨v, hvbl, rfl⟩ := hf
      obtain ⟨w, hwbl, rfl⟩ := hl
      obtain ⟨h1, _, _⟩ := firstIdx_spec labels v (hblmem v hvbl)
      obtain ⟨h2, _, _⟩ := lastIdx_spec labels w (hblmem w hwbl)
      exact ⟨Nat.le_of_lt h1, h2, Or.inr ⟨v, hblmem v hvbl, Or.inl rfl⟩, Or.inr ⟨w, hblmem w hwbl, Or.inr rfl⟩⟩
    obtain ⟨hinc, hle⟩ := optLoop_props labels.length (GoodBoundary labels) ts htsP 0
    obtain ⟨tl', e, hinc', hlast, hP⟩ := closeIdx_props labels.length 0 (optLoop 0 ts) (GoodBoundary labels) (Or.inl rfl) hinc
      (by intro x hx; rcases List.mem_cons.1 hx with rfl | hx
          · exact Nat.zero_le _
          · exact (hle x hx).1)
      (fun x hx => (hle x hx).2)
    rw [e]
    refine ⟨⟨diff_pos 0 tl' hinc', ?_⟩, ?_⟩
    · have := sum_diff 0 tl' hinc' labels.length hlast
      simpa using this
    · intro b hb
      unfold ends cumsum at hb
      rw [cumsumFrom_diff 0 tl' hinc'] at hb
      exact hP b hb

theorem goodBoundary_noStraddle (labels : List Nat) (hc : Contiguous labels) (b : Nat) (hb : GoodBoundary labels b) :
    ∀ w ∈ labels.take b, w ∉ labels.drop b := by
  rcases hb with rfl | ⟨v, hv, rfl | rfl⟩
  · simp
  · exact good_first labels hc v hv
  · exact good_last labels hc v hv

/-! ## no straddling ⇒ every label lives in one block -/

theorem splitBy_subset {α} (cs : List Nat) (xs : List α) : ∀ blk ∈ splitBy cs xs, ∀ v ∈ blk, v ∈ xs := by
  induction cs generalizing xs with
  | nil => simp [splitBy]
  | cons c cs ih =>
    intro blk hblk v hv
    simp only [splitBy, List.mem_cons] at hblk
    rcases hblk with rfl | hblk
    · exact List.mem_of_mem_take hv
    · exact List.mem_of_mem_drop (ih (xs.drop c) blk hblk v hv)

theorem noStraddle_oneBlock {α} (labels : List α) (chunks : List Nat) (h : NoStraddle labels chunks) :
    OneBlockPerLabel labels chunks := by
  induction chunks generalizing labels with
  | nil => simp [OneBlockPerLabel, splitBy]
  | cons c cs ih =>
    unfold OneBlockPerLabel
    simp only [splitBy]
    rw [List.pairwise_cons]
    constructor
    · intro blk hblk v hv hvb
      have hc : c ∈ ends (c :: cs) := by simp [ends, cumsum, cumsumFrom]
      exact h c hc v hv (splitBy_subset cs _ blk hblk v hvb)
    · apply ih
      intro b hb v hv hvd
      have hcb : c + b ∈ ends (c :: cs) := by
        simp only [ends, cumsum, cumsumFrom, Nat.zero_add, List.mem_cons]
        right
        rw [cumsumFrom_shift]
        exact List.mem_map.2 ⟨b, hb, rfl⟩
      refine h (c + b) hcb v ?_ ?_
      · rw [List.take_add]
        exact List.mem_append_right _ hv
      · rw [List.drop_drop] at hvd
        exact hvd

/-! ## `rechunk_for_cohorts` -/

theorem cohLoop_props (forced : List Int) (oldbreaks : List Nat) (cs : Nat) (ign : Bool) (rest : List Int) :
    ∀ (idx counter : Nat),
      (∀ x ∈ cohLoop forced oldbreaks cs ign idx rest counter, idx ≤ x ∧ x < idx + rest.length) ∧
      (cohLoop forced oldbreaks cs ign idx rest counter).Pairwise (· < ·) ∧
      (∀ k (hk : k < rest.length), (rest[k] ∈ forced ∨ idx + k = 0) →
          idx + k ∈ cohLoop forced oldbreaks cs ign idx rest counter) ∧
      (ign = false → ∀ k, k < rest.length → idx + k ∈ oldbreaks →
          idx + k ∈ cohLoop forced oldbreaks cs ign idx rest counter) := by
  induction rest with
  | nil => intro idx counter; simp [cohLoop]
  | cons lab tl ih =>
    intro idx counter
    -- the two ways the loop continues
    have keep : ∀ c', (∀ x ∈ idx :: cohLoop forced oldbreaks cs ign (idx + 1) tl c', idx ≤ x ∧ x < idx + (lab :: tl).length) ∧
        (idx :: cohLoop forced oldbreaks cs ign (idx + 1) tl c').Pairwise (· < ·) ∧
        (∀ k (hk : k < (lab :: tl).length), ((lab :: tl)[k] ∈ forced ∨ idx + k = 0) →
          idx + k ∈ idx :: cohLoop forced oldbreaks cs ign (idx + 1) tl c') ∧
        (ign = false → ∀ k, k < (lab :: tl).length → idx + k ∈ oldbreaks →
          idx + k ∈ idx :: cohLoop forced oldbreaks cs ign (idx + 1) tl c') := by
      intro c'
      obtain ⟨h1, h2, h3, h4⟩ := ih (idx + 1) c'
      refine ⟨?_, ?_, ?_, ?_⟩
      · intro x hx
        simp only [List.length_cons]
        rcases List.mem_cons.1 hx with rfl | hx
        · omega
        · have := h1 x hx; omega
      · rw [List.pairwise_cons]
        exact ⟨fun x hx => by have := h1 x hx; omega, h2⟩
      · intro k hk hcond
        cases k with
        | zero => simp
        | succ k =>
          simp only [List.length_cons] at hk
          have := h3 k (by omega) (by
            rcases hcond with h | h
            · left; simpa using h
            · omega)
          have e : idx + (k + 1) = idx + 1 + k := by omega
          rw [e]
          exact List.mem_cons_of_mem _ this
      · intro hign k hk hold
        cases k with
        | zero => simp
        | succ k =>
          simp only [List.length_cons] at hk
          have e : idx + (k + 1) = idx + 1 + k := by omega
          rw [e] at hold ⊢
          exact List.mem_cons_of_mem _ (h4 hign k (by omega) hold)
    unfold cohLoop
    split
    · exact keep 1
    · rename_i hnf
      split
      · exact keep 1
      · rename_i hno
        obtain ⟨h1, h2, h3, h4⟩ := ih (idx + 1) (counter + 1)
        refine ⟨?_, h2, ?_, ?_⟩
        · intro x hx
          simp only [List.length_cons]
          have := h1 x hx; omega
        · intro k hk hcond
          cases k with
          | zero =>
            exfalso
            apply hnf
            rcases hcond with h | h
            · left; simpa using h
            · right; omega
          | succ k =>
            simp only [List.length_cons] at hk
            have := h3 k (by omega) (by
              rcases hcond with h | h
              · left; simpa using h
              · omega)
            have e : idx + (k + 1) = idx + 1 + k := by omega
            rw [e]; exact this
        · intro hign k hk hold
          cases k with
          | zero =>
            exfalso
            apply hno
            simp only [Nat.add_zero] at hold
            simp [hign, hold]
          | succ k =>
            simp only [List.length_cons] at hk
            have e : idx + (k + 1) = idx + 1 + k := by omega
            rw [e] at hold ⊢
            exact h4 hign k (by omega) hold

theorem cohorts_ok (old : List Nat) (labels forced : List Int) (cs : Option Nat) (ign : Bool) (new : List Nat)
    (h : cohorts old labels forced cs ign = .ok new) :
    ValidChunks labels.length new ∧ ForcedStart labels forced new ∧ (ign = false → KeepsOld old new) := by
  unfold cohorts at h
  simp only at h
  split at h
  · cases h
  · rename_i hlen
    split at h
    · cases h
    · rename_i hany
      have hlen' : labels.length = old.sum := by simpa using hlen
      cases labels with
      | nil => simp at hany
      | cons lab tl =>
        generalize hL : cohLoop forced (0 :: cumsum old) (cs.getD (medianInt old)) ign 0 (lab :: tl) 1 = loop at h
        obtain ⟨p1, p2, p3, p4⟩ := cohLoop_props forced (0 :: cumsum old) (cs.getD (medianInt old)) ign (lab :: tl) 0 1
        rw [hL] at p1 p2 p3 p4
        have hhead : ∃ tail, loop = 0 :: tail := by
          rw [← hL]; unfold cohLoop; simp
        obtain ⟨tail, rfl⟩ := hhead
        have hinc : (0 :: (tail ++ [(lab :: tl).length])).Pairwise (· < ·) := by
          have : ((0 :: tail) ++ [(lab :: tl).length]).Pairwise (· < ·) := by
            rw [List.pairwise_append]
            refine ⟨p2, by simp, ?_⟩
            intro a ha b hb
            have := p1 a ha
            simp only [List.mem_singleton] at hb
            omega
          simpa using this
        have hnew : new = diff (0 :: (tail ++ [(lab :: tl).length])) := by
          have := Except.ok.inj h
          rw [← this]; simp
        have hlast : (0 :: (tail ++ [(lab :: tl).length])).getLast? = some (lab :: tl).length := by
          have : (0 :: (tail ++ [(lab :: tl).length])) = (0 :: tail) ++ [(lab :: tl).length] := by simp
          rw [this, List.getLast?_append]; simp
        refine ⟨⟨?_, ?_⟩, ?_, ?_⟩
        · rw [hnew]; exact diff_pos 0 _ hinc
        · rw [hnew]; simpa using sum_diff 0 _ hinc _ hlast
        · intro i hi hcond
          rw [hnew]
          unfold starts
          rw [startsFrom_diff 0 _ hinc]
          have : (0 :: (tail ++ [(lab :: tl).length])) = (0 :: tail) ++ [(lab :: tl).length] := by simp
          rw [this, List.dropLast_concat]
          have := p3 i hi (by rcases hcond with h | h
                              · right; omega
                              · left; exact h)
          simpa using this
        · intro hign b hb
          have hbnew : bounds new = 0 :: (tail ++ [(lab :: tl).length]) := by
            rw [hnew]; unfold bounds ends cumsum
            rw [cumsumFrom_diff 0 _ hinc]
          rw [hbnew]
          have hble : b ≤ (lab :: tl).length := by
            unfold bounds ends cumsum at hb
            rcases List.mem_cons.1 hb with rfl | hb
            · exact Nat.zero_le _
            · have := (cumsumFrom_bounds 0 old b hb).2
              omega
          by_cases hbn : b = (lab :: tl).length
          · rw [hbn]; simp
          · have := p4 hign b (by omega) (by simpa [bounds, ends] using hb)
            simp only [Nat.zero_add] at this
            rcases List.mem_cons.1 this with h0 | ht
            · rw [h0]; simp
            · exact List.mem_cons_of_mem _ (List.mem_append_left _ ht)

theorem cohorts_refusal (old : List Nat) (labels forced : List Int) (cs : Option Nat) (ign : Bool) :
    (∃ new, cohorts old labels forced cs ign = .ok new) ↔
      (labels.length = old.sum ∧ ∃ l ∈ labels, l ∈ forced) := by
  unfold cohorts
  simp only
  constructor
  · rintro ⟨new, h⟩
    split at h
    · cases h
    · rename_i hlen
      split at h
      · cases h
      · rename_i hany
        refine ⟨by simpa using hlen, ?_⟩
        simpa using hany
  · rintro ⟨hlen, l, hl, hf⟩
    rw [if_neg (by simpa using hlen), if_neg (by simp; exact ⟨l, hl, hf⟩)]
    exact ⟨_, rfl⟩

/-! ## factorisation in front of `rechunk_for_blockwise` -/

theorem mem_insertSortedInt (v x : Int) (ys : List Int) : v ∈ insertSortedInt x ys ↔ v = x ∨ v ∈ ys := by
  induction ys with
  | nil => simp [insertSortedInt]
  | cons y ys ih =>
    unfold insertSortedInt
    split
    · simp
    · split
      · rename_i h; subst h; simp
      · simp only [List.mem_cons, ih]
        constructor
        · rintro (h | h | h) <;> simp [h]
        · rintro (h | h | h) <;> simp [h]

theorem mem_foldr_insertSortedInt (v : Int) (xs : List Int) : v ∈ xs.foldr insertSortedInt [] ↔ v ∈ xs := by
  induction xs with
  | nil => simp
  | cons x xs ih => simp [List.foldr_cons, mem_insertSortedInt, ih]

theorem mem_foundGroups (x : Int) (raw : List (Option Int)) : x ∈ foundGroups raw ↔ some x ∈ raw := by
  unfold foundGroups
  rw [mem_foldr_insertSortedInt, List.mem_filterMap]
  constructor
  · rintro ⟨a, ha, h⟩
    simp only [id] at h
    rw [← h]; exact ha
  · intro h
    exact ⟨some x, h, rfl⟩

theorem codeOf_inj (raw : List (Option Int)) (a b : Option Int) (ha : a ∈ raw) (hb : b ∈ raw)
    (h : codeOf (foundGroups raw) a = codeOf (foundGroups raw) b) : a = b := by
  cases a with
  | none =>
    cases b with
    | none => rfl
    | some y =>
      have hy : (foundGroups raw).idxOf y < (foundGroups raw).length :=
        List.idxOf_lt_length_iff.2 ((mem_foundGroups y raw).2 hb)
      simp only [codeOf] at h
      omega
  | some x =>
    have hx : (foundGroups raw).idxOf x < (foundGroups raw).length :=
      List.idxOf_lt_length_iff.2 ((mem_foundGroups x raw).2 ha)
    cases b with
    | none =>
      simp only [codeOf] at h
      omega
    | some y =>
      have hy : (foundGroups raw).idxOf y < (foundGroups raw).length :=
        List.idxOf_lt_length_iff.2 ((mem_foundGroups y raw).2 hb)
      simp only [codeOf] at h
      have e1 := List.getElem_idxOf hx
      have e2 := List.getElem_idxOf hy
      have : (foundGroups raw)[(foundGroups raw).idxOf x] = (foundGroups raw)[(foundGroups raw).idxOf y] := by
        simp only [h]
      rw [e1, e2] at this
      rw [this]

theorem contiguous_map {α β} (f : α → β) (l : List α) (hinj : ∀ a ∈ l, ∀ b ∈ l, f a = f b → a = b)
    (hc : Contiguous l) : Contiguous (l.map f) := by
  intro i j k hij hjk hk heq
  have hk' : k < l.length := by simpa using hk
  simp only [List.getElem_map] at heq ⊢
  have := hinj l[i] (List.getElem_mem _) l[k] (List.getElem_mem _) heq
  rw [hc i j k hij hjk hk' this]

theorem noStraddle_of_map {α β} (f : α → β) (l : List α) (chunks : List Nat) (h : NoStraddle (l.map f) chunks) :
    NoStraddle l chunks := by
  intro b hb v hv hvd
  refine h b hb (f v) ?_ ?_
  · rw [← List.map_take]; exact List.mem_map_of_mem hv
  · rw [← List.map_drop]; exact List.mem_map_of_mem hvd

theorem optimal_contiguous (chunks labels : List Nat) (hv : ValidChunks labels.length chunks) (hc : Contiguous labels) :
    ValidChunks labels.length (optimal chunks labels) ∧ NoStraddle labels (optimal chunks labels) := by
  obtain ⟨h1, h2⟩ := optimal_struct chunks labels hv
  exact ⟨h1, fun b hb => goodBoundary_noStraddle labels hc b (h2 b hb)⟩

theorem blockwise_contiguous (chunks : List Nat) (raw : List (Option Int)) (hv : ValidChunks raw.length chunks)
    (hc : Contiguous raw) :
    ValidChunks raw.length (blockwise chunks raw) ∧ NoStraddle raw (blockwise chunks raw) := by
  have hlen : (factorize raw).length = raw.length := by simp [factorize]
  have hc' : Contiguous (factorize raw) :=
    contiguous_map _ raw (fun a ha b hb h => codeOf_inj raw a b ha hb h) hc
  obtain ⟨h1, h2⟩ := optimal_contiguous chunks (factorize raw) (by rw [hlen]; exact hv) hc'
  rw [hlen] at h1
  exact ⟨h1, noStraddle_of_map _ raw _ h2⟩

/-! ## what `method="blockwise"` gets out of it: whole groups per block -/

theorem members_ne_nil_mem (g : Int) (cs : List Int) (vs : List Val) (h : members g cs vs ≠ []) : g ∈ cs := by
  induction cs generalizing vs with
  | nil => simp at h
  | cons c cs ih =>
    cases vs with
    | nil => simp at h
    | cons v vs =>
      simp only [members_cons] at h
      by_cases hc : c = g
      · simp [hc]
      · rw [if_neg hc] at h
        exact List.mem_cons_of_mem _ (ih vs h)

/-- per-block member lists, in block order -/
def blockMembers (g : Int) (chunks : List Nat) (codes : List Int) (vals : List Val) : List (List Val) :=
  List.zipWith (members g) (splitBy chunks codes) (splitBy chunks vals)

theorem members_eq_flatten_blocks (g : Int) (chunks : List Nat) (codes : List Int) (vals : List Val)
    (hlen : codes.length = vals.length) (hsum : chunks.sum = codes.length) :
    members g codes vals = (blockMembers g chunks codes vals).flatten := by
  induction chunks generalizing codes vals with
  | nil =>
    have : codes = [] := by simpa using hsum.symm
    subst this
    simp [blockMembers, splitBy]
  | cons c cs ih =>
    simp only [List.sum_cons] at hsum
    have h1 : members g codes vals = members g (codes.take c ++ codes.drop c) (vals.take c ++ vals.drop c) := by
      simp
    rw [h1, members_append g _ _ _ _ (by simp [hlen])]
    simp only [blockMembers, splitBy, List.zipWith_cons_cons, List.flatten_cons]
    congr 1
    exact ih (codes.drop c) (vals.drop c) (by simp [hlen]) (by simp; omega)

theorem blockMembers_at_most_one (g : Int) (chunks : List Nat) (codes : List Int) (vals : List Val)
    (h : OneBlockPerLabel codes chunks) :
    (blockMembers g chunks codes vals).Pairwise fun a b => a ≠ [] → b = [] := by
  induction chunks generalizing codes vals with
  | nil => simp [blockMembers, splitBy]
  | cons c cs ih =>
    unfold OneBlockPerLabel at h
    simp only [splitBy, List.pairwise_cons] at h
    simp only [blockMembers, splitBy, List.zipWith_cons_cons, List.pairwise_cons]
    refine ⟨?_, ih (codes.drop c) (vals.drop c) h.2⟩
    intro b hb hne
    have hg : g ∈ codes.take c := members_ne_nil_mem g _ _ hne
    -- b is the member list of a later block
    obtain ⟨i, hi, rfl⟩ := List.mem_iff_getElem.1 hb
    simp only [List.getElem_zipWith]
    apply Classical.byContradiction
    intro hb'
    have := members_ne_nil_mem g _ _ hb'
    exact h.1 _ (List.getElem_mem _) g hg this

theorem oneBlock_after_blockwise (chunks : List Nat) (codes : List Int) (hv : ValidChunks codes.length chunks)
    (hseq : Contiguous codes) : OneBlockPerLabel codes (blockwise chunks (codes.map some)) := by
  have hc : Contiguous (codes.map some) :=
    contiguous_map some codes (fun a _ b _ h => Option.some.inj h) hseq
  have h := (blockwise_contiguous chunks (codes.map some) (by simpa using hv) hc).2
  exact noStraddle_oneBlock codes _ (noStraddle_of_map some codes _ h)

/-! ## the executable versions used by the driver decide the specification predicates -/

theorem contiguous_cons_iff {α} (x : α) (xs : List α) :
    Contiguous (x :: xs) ↔ Contiguous xs ∧ (match xs with
      | [] => True
      | y :: _ => x = y ∨ x ∉ xs) := by
  constructor
  · intro h
    constructor
    · intro i j k hij hjk hk heq
      have := h (i + 1) (j + 1) (k + 1) (by omega) (by omega) (by simp; omega) (by simpa using heq)
      simpa using this
    · cases xs with
      | nil => trivial
      | cons y ys =>
        simp only
        by_cases hx : x ∈ y :: ys
        · left
          obtain ⟨m, hm, hxm⟩ := List.mem_iff_getElem.1 hx
          cases m with
          | zero => simpa using hxm.symm
          | succ m =>
            have := h 0 1 (m + 2) (by omega) (by omega) (by simp at hm ⊢; omega) (by simpa using hxm.symm)
            simpa using this.symm
        · right; exact hx
  · rintro ⟨hc, hcond⟩ i j k hij hjk hk heq
    cases i with
    | succ i =>
      obtain ⟨j, rfl⟩ : ∃ j', j = j' + 1 := ⟨j - 1, by omega⟩
      obtain ⟨k, rfl⟩ : ∃ k', k = k' + 1 := ⟨k - 1, by omega⟩
      have := hc i j k (by omega) (by omega) (by simpa using hk) (by simpa using heq)
      simpa using this
    | zero =>
      obtain ⟨j, rfl⟩ : ∃ j', j = j' + 1 := ⟨j - 1, by omega⟩
      obtain ⟨k, rfl⟩ : ∃ k', k = k' + 1 := ⟨k - 1, by omega⟩
      simp only [List.getElem_cons_zero, List.getElem_cons_succ] at heq ⊢
      have hk' : k < xs.length := by simpa using hk
      cases xs with
      | nil => simp at hk'
      | cons y ys =>
        simp only at hcond
        have hxy : x = y := by
          rcases hcond with h | h
          · exact h
          · exact absurd (by rw [heq]; exact List.getElem_mem _) h
        cases j with
        | zero => simpa using hxy.symm
        | succ j =>
          have := hc 0 (j + 1) k (by omega) (by omega) hk' (by simpa [← hxy] using heq)
          rw [this]; simpa using hxy.symm

theorem contiguousB_cons {α} [DecidableEq α] (x : α) (xs : List α) :
    contiguousB (x :: xs) = (contiguousB xs && (match xs with
        | [] => true
        | y :: _ => decide (x = y) || !(xs.contains x))) := by
  cases xs <;> rfl

theorem contiguousB_iff {α} [DecidableEq α] (l : List α) : contiguousB l = true ↔ Contiguous l := by
  induction l with
  | nil =>
    simp only [contiguousB, true_iff]
    intro i j k _ _ hk
    simp at hk
  | cons x xs ih =>
    rw [contiguous_cons_iff, ← ih, contiguousB_cons]
    cases xs with
    | nil => simp
    | cons y ys => simp

theorem oneBlockB_go_iff {α} [DecidableEq α] (bs : List (List α)) :
    oneBlockB.go bs = true ↔ bs.Pairwise fun a b => ∀ v ∈ a, v ∉ b := by
  induction bs with
  | nil => simp [oneBlockB.go]
  | cons a rest ih =>
    have e : oneBlockB.go (a :: rest) = (rest.all (fun b => a.all fun v => !b.contains v) && oneBlockB.go rest) := rfl
    rw [List.pairwise_cons, ← ih, e]
    simp [List.all_eq_true]

theorem oneBlockB_iff {α} [DecidableEq α] (labels : List α) (chunks : List Nat) :
    oneBlockB labels chunks = true ↔ OneBlockPerLabel labels chunks := by
  unfold oneBlockB OneBlockPerLabel
  exact oneBlockB_go_iff _

instance {α} [DecidableEq α] (l : List α) : Decidable (Contiguous l) :=
  decidable_of_iff _ (contiguousB_iff l)

instance {α} [DecidableEq α] (labels : List α) (chunks : List Nat) : Decidable (OneBlockPerLabel labels chunks) :=
  decidable_of_iff _ (oneBlockB_iff labels chunks)

end Flox.Rechunk
