/-
  Tie to the generated table `Generated.initRows` (regenerated from `flox.aggregations._initialize_aggregation` on
  every run): every row of a simple-combine reduction on floating data resolves to a `Resolved` with a `Shape`,
  with the expected NumPy kernel, and satisfies the fill hypotheses (H_allnan, H_minmax) of the end-to-end theorems.

  `InitRow.resolve` parses fill values / `min_count` from text with `Val.parse?` (→ `String.splitOn`, `String.toInt?`)
  and `String.toNat!`.  These core functions do NOT reduce in the kernel, so the table is evaluated (`decide +kernel`)
  through a kernel-reducible copy `InitRow.base` that uses literal parsers; `InitRow.resolve_of_base` proves that
  `resolve` agrees with it, using the four literal facts of `ParseLits.lean` (`ParseFacts`).
-/
import FloxModel.Generated.Initialized
import FloxProofs.EndToEndFlox
import FloxProofs.ParseLits

namespace Flox

/-! ### `ddof` substitution -/

def Kernel.setDdof (d : Nat) : Kernel → Kernel
  | .var _ => .var d
  | .nanvar _ => .nanvar d
  | k => k

def Shape.setDdof (d : Nat) : Shape → Shape
  | .var b _ => .var b d
  | s => s

theorem kernelWithDdof_setDdof (d : Nat) (s : String) (k : Kernel) (h : kernelWithDdof 0 s = some k) :
    kernelWithDdof d s = some (k.setDdof d) := by
  unfold kernelWithDdof at h ⊢
  split at h
  · cases h; rfl
  · cases h; rfl
  · cases h; rfl
  · cases h; rfl
  · cases h; rfl
  · rename_i h1 h2 h3 h4 h5
    rw [h]
    congr 1
    unfold Kernel.ofString? at h
    split at h <;> first | (cases h; rfl) | (exact absurd rfl ‹_›) | cases h

/-! ### `List.mapM` in `Option` -/

theorem mapM_option_cons {α β} (f : α → Option β) (a : α) (l : List α) :
    (a :: l).mapM f = (match f a with
      | none => none
      | some b => match l.mapM f with
        | none => none
        | some bs => some (b :: bs)) := by
  rw [List.mapM_cons]
  cases f a <;> simp
  cases l.mapM f <;> rfl

theorem mapM_option_transfer {α β γ} (f : α → Option β) (g : α → Option γ) (φ : β → γ)
    (h : ∀ a b, f a = some b → g a = some (φ b)) (l : List α) (bs : List β) (hl : l.mapM f = some bs) :
    l.mapM g = some (bs.map φ) := by
  induction l generalizing bs with
  | nil => simp at hl; subst hl; rfl
  | cons a l ih =>
    rw [mapM_option_cons] at hl ⊢
    cases hfa : f a with
    | none => simp [hfa] at hl
    | some b =>
      cases hla : l.mapM f with
      | none => simp [hfa, hla] at hl
      | some bs' =>
        simp only [hfa, hla, Option.some.injEq] at hl
        subst hl
        simp [h a b hfa, ih bs' hla]

/-! ### the text literals of the table -/

/-- The four parsing facts about core `String` functions that the kernel cannot evaluate (proved: `parseFacts`). -/
structure ParseFacts : Prop where
  fill0 : Val.parse? "0" = some (Val.fin 0)
  fill1 : Val.parse? "1" = some (Val.fin 1)
  nat0 : "0".toNat! = 0
  nat1 : "1".toNat! = 1

theorem parseFacts : ParseFacts := ⟨parse?_lit0, parse?_lit1, toNat!_lit0, toNat!_lit1⟩

/-- kernel-reducible parser for the fill literals that occur in the float rows -/
def fillLit : String → Option Val
  | "0" => some (Val.fin 0)
  | "1" => some (Val.fin 1)
  | "nan" => some Val.nan
  | "inf" => some Val.pinf
  | "-inf" => some Val.ninf
  | _ => none

/-- kernel-reducible parser for the literal `min_count` values of the table -/
def natLit : String → Option Nat
  | "0" => some 0
  | "1" => some 1
  | _ => none

theorem fillLit_sound (pf : ParseFacts) (s : String) (v : Val) (h : fillLit s = some v) :
    fillOfString s = some v := by
  unfold fillLit at h
  split at h <;> cases h
  · simp only [fillOfString, pf.fill0]; decide
  · simp only [fillOfString, pf.fill1]; decide
  · decide +kernel
  · decide +kernel
  · decide +kernel

theorem natLit_sound (pf : ParseFacts) (s : String) (n : Nat) (h : natLit s = some n) : s.toNat! = n := by
  unfold natLit at h
  split at h <;> cases h
  · exact pf.nat0
  · exact pf.nat1

/-! ### a kernel-reducible version of `InitRow.resolve` -/

/-- the literal part of the user fill: `none` = "taken from the call" -/
def userFillLit (s : String) : Option (Option Val) :=
  if s = "user" ∨ s = "none" then some none else (fillLit s).map some

def minCountLit (s : String) : Option Nat := if s = "mc" then some 0 else natLit s

def kernelsLit (l : List String) : Option (List Kernel) :=
  if l = ["None"] then some [] else l.mapM (kernelWithDdof 0)

/-- `InitRow.resolve` at `user = none`, `mc = 0`, `ddof = 0`, with the literal parsers -/
def InitRow.base (r : InitRow) : Option Resolved :=
  if r.ok = false then none else
  match r.numpy.mapM (kernelWithDdof 0), kernelsLit r.chunk, kernelsLit r.combine, r.interFills.mapM fillLit,
      r.numpyFills.mapM fillLit, userFillLit r.userFill, minCountLit r.minCount with
  | some numpy, some chunk, some combine, some interFills, some numpyFills, some userFill, some minCount =>
    some { name := r.func, numpy := numpy, chunk := chunk, combine := combine, interFills := interFills,
           numpyFills := numpyFills, finalFill := fillOfString r.finalFill, userFill := userFill,
           minCount := minCount, finalize := finalizeTag r.finalize, ddof := 0, isArg := r.isArg }
  | _, _, _, _, _, _, _ => none

/-- substitute the actual user fill / `min_count` / `ddof` of a call -/
def InitRow.inst (r : InitRow) (R0 : Resolved) (user : Option Val) (mc ddof : Nat) : Resolved :=
  { R0 with
    numpy := R0.numpy.map (Kernel.setDdof ddof), chunk := R0.chunk.map (Kernel.setDdof ddof),
    combine := R0.combine.map (Kernel.setDdof ddof),
    userFill := if r.userFill = "user" then user else R0.userFill,
    minCount := if r.minCount = "mc" then mc else R0.minCount,
    ddof := ddof }

theorem kernelsLit_sound (d : Nat) (l : List String) (ks : List Kernel) (h : kernelsLit l = some ks) :
    (if l = ["None"] then some [] else l.mapM (kernelWithDdof d)) = some (ks.map (Kernel.setDdof d)) := by
  unfold kernelsLit at h
  split at h
  · cases h; simp [*]
  · rename_i hne
    rw [if_neg hne]
    exact mapM_option_transfer _ _ _ (kernelWithDdof_setDdof d) l ks h

theorem numpyFills_sound (pf : ParseFacts) (l : List String) (vs : List Val) (h : l.mapM fillLit = some vs) :
    l.map (fun s => (fillOfString s).getD Val.nan) = vs := by
  induction l generalizing vs with
  | nil => simp at h; subst h; rfl
  | cons a l ih =>
    rw [mapM_option_cons] at h
    cases hfa : fillLit a with
    | none => simp [hfa] at h
    | some b =>
      cases hla : l.mapM fillLit with
      | none => simp [hfa, hla] at h
      | some bs' =>
        simp only [hfa, hla, Option.some.injEq] at h
        subst h
        simp [fillLit_sound pf a b hfa, ih bs' hla]

/-- `InitRow.resolve` is `InitRow.base` with the call's parameters substituted -/
theorem InitRow.resolve_of_base (pf : ParseFacts) (r : InitRow) (R0 : Resolved) (h : r.base = some R0)
    (user : Option Val) (mc ddof : Nat) :
    r.resolve user mc ddof = some (r.inst R0 user mc ddof) := by
  unfold InitRow.base at h
  split at h
  · cases h
  · rename_i hok
    split at h
    · rename_i numpy chunk combine interFills numpyFills userFill minCount h1 h2 h3 h4 h5 h6 h7
      cases h
      have e1 := mapM_option_transfer _ _ _ (kernelWithDdof_setDdof ddof) r.numpy numpy h1
      have e2 := kernelsLit_sound ddof r.chunk chunk h2
      have e3 := kernelsLit_sound ddof r.combine combine h3
      have e4 := mapM_option_transfer fillLit fillOfString id (by simpa using fillLit_sound pf) r.interFills
        interFills h4
      have e5 := numpyFills_sound pf r.numpyFills numpyFills h5
      have hok' : r.ok = true := by simpa using hok
      have e6 : (if r.userFill = "user" then user else if r.userFill = "none" then none
          else fillOfString r.userFill) = (if r.userFill = "user" then user else userFill) := by
        unfold userFillLit at h6
        by_cases hu : r.userFill = "user"
        · simp [hu]
        · by_cases hn : r.userFill = "none"
          · simp [hn] at h6 ⊢; exact h6
          · simp only [hu, hn, or_self, if_false, Option.map_eq_some_iff] at h6 ⊢
            obtain ⟨v, hv, rfl⟩ := h6
            exact fillLit_sound pf _ _ hv
      have e7 : (if r.minCount = "mc" then mc else r.minCount.toNat!)
          = (if r.minCount = "mc" then mc else minCount) := by
        unfold minCountLit at h7
        by_cases hm : r.minCount = "mc"
        · simp [hm]
        · simp only [hm, if_false] at h7 ⊢
          exact natLit_sound pf _ _ h7
      simp only [InitRow.resolve, hok', Bool.not_true, Bool.false_eq_true, if_false, e1, e4, e5, e6, e7,
        List.map_id, InitRow.inst, bind, Option.bind]
      by_cases hc : r.chunk = ["None"] <;> by_cases hco : r.combine = ["None"] <;>
        simp only [hc, hco, if_true, if_false] at e2 e3 ⊢
      · rw [← Option.some.inj e2, ← Option.some.inj e3]
      · rw [← Option.some.inj e2, e3]
      · rw [← Option.some.inj e3, e2]
      · rw [e2]; simp only; rw [e3]
    · cases h

/-! ### shapes are stable under the substitution -/

theorem setDdof_floatColumns {k c : Kernel} {f : Val} (h : (k, c, f) ∈ floatColumns) (d : Nat) :
    k.setDdof d = k ∧ c.setDdof d = c := by
  simp only [floatColumns, List.mem_cons, Prod.mk.injEq, List.mem_nil_iff, or_false] at h
  rcases h with ⟨rfl, rfl, _⟩ | ⟨rfl, rfl, _⟩ | ⟨rfl, rfl, _⟩ | ⟨rfl, rfl, _⟩ | ⟨rfl, rfl, _⟩ | ⟨rfl, rfl, _⟩ |
    ⟨rfl, rfl, _⟩ | ⟨rfl, rfl, _⟩ | ⟨rfl, rfl, _⟩ | ⟨rfl, rfl, _⟩ | ⟨rfl, rfl, _⟩ | ⟨rfl, rfl, _⟩ |
    ⟨rfl, rfl, _⟩ | ⟨rfl, rfl, _⟩ | ⟨rfl, rfl, _⟩ <;> exact ⟨rfl, rfl⟩

theorem Shape.kernel_setDdof {s : Shape} (hwf : s.wf = true) (d : Nat) :
    (s.setDdof d).kernel = s.kernel.setDdof d := by
  cases s with
  | simple k c f =>
    have : (k, c, f) ∈ floatColumns := by simpa [Shape.wf] using hwf
    simp [Shape.setDdof, Shape.kernel, (setDdof_floatColumns this d).1]
  | mean b => cases b <;> rfl
  | var b d' => cases b <;> rfl

theorem Shape.chunk_setDdof {s : Shape} (hwf : s.wf = true) (d : Nat) :
    (s.setDdof d).chunk = s.chunk.map (Kernel.setDdof d) := by
  cases s with
  | simple k c f =>
    have : (k, c, f) ∈ floatColumns := by simpa [Shape.wf] using hwf
    simp [Shape.setDdof, Shape.chunk, (setDdof_floatColumns this d).1]
  | mean b => cases b <;> rfl
  | var b d' => cases b <;> rfl

theorem Shape.combine_setDdof {s : Shape} (hwf : s.wf = true) (d : Nat) :
    (s.setDdof d).combine = s.combine.map (Kernel.setDdof d) := by
  cases s with
  | simple k c f =>
    have : (k, c, f) ∈ floatColumns := by simpa [Shape.wf] using hwf
    simp [Shape.setDdof, Shape.combine, (setDdof_floatColumns this d).2]
  | mean b => cases b <;> rfl
  | var b d' => cases b <;> rfl

theorem Shape.interFills_setDdof (s : Shape) (d : Nat) : (s.setDdof d).interFills = s.interFills := by
  cases s <;> rfl

theorem Shape.needsNaNFill_setDdof (s : Shape) (d : Nat) : (s.setDdof d).needsNaNFill = s.needsNaNFill := by
  cases s with
  | simple k c f => rfl
  | mean b => rfl
  | var b d' => cases b <;> rfl

theorem Shape.isNanMinMax_setDdof (s : Shape) (d : Nat) : (s.setDdof d).isNanMinMax = s.isNanMinMax := by
  cases s <;> rfl

/-- a shape that fits `R0` fits (with the new `ddof`) every `R` obtained by substituting `ddof`, the user fill and
    a `min_count` of the same positivity -/
theorem Shape.Fits.transfer {s0 : Shape} {R0 R : Resolved} (d : Nat) (hs : s0.Fits R0)
    (hmc : R.minCount > 0 ↔ R0.minCount > 0)
    (hnumpy : R.numpy = R0.numpy.map (Kernel.setDdof d)) (hchunk : R.chunk = R0.chunk.map (Kernel.setDdof d))
    (hcombine : R.combine = R0.combine.map (Kernel.setDdof d)) (hif : R.interFills = R0.interFills)
    (hnf : R.numpyFills = R0.numpyFills) (hfin : R.finalize = R0.finalize) (hd0 : R0.ddof = 0) (hd : R.ddof = d)
    (harg : R.isArg = R0.isArg) : (s0.setDdof d).Fits R := by
  have hcnt : ∀ {α} (x : α), cntSuffix R x = cntSuffix R0 x := by
    intro α x
    unfold cntSuffix
    by_cases h : R0.minCount > 0
    · rw [if_pos h, if_pos (hmc.mpr h)]
    · rw [if_neg h, if_neg (fun h' => h (hmc.mp h'))]
  have hnp : R.npFill = R0.npFill := by unfold Resolved.npFill; rw [hnf]
  have hwf := hs.wf
  have hmapcnt : ∀ x : Kernel, x = .nanlen ∨ x = .sum →
      (cntSuffix R0 x).map (Kernel.setDdof d) = cntSuffix R0 x := by
    intro x hx
    unfold cntSuffix
    split
    · rcases hx with rfl | rfl <;> rfl
    · rfl
  refine ⟨?_, ?_, ?_, ?_, ?_, ?_, ?_, ?_, ?_, ?_⟩
  · rw [harg]; exact hs.isArg
  · cases s0 <;> first | exact hwf | rfl
  · rw [hfin]; cases s0 <;> exact hs.fin
  · cases s0 with
    | var b d' => simp [Shape.setDdof, Shape.ddofOK, hd]
    | _ => rfl
  · rw [hnumpy, hs.numpy, hcnt, Shape.kernel_setDdof hwf, List.map_cons, hmapcnt _ (Or.inl rfl)]
  · rw [hchunk, hs.chunk, hcnt, Shape.chunk_setDdof hwf, List.map_append, hmapcnt _ (Or.inl rfl)]
  · rw [hcombine, hs.combine, hcnt, Shape.combine_setDdof hwf, List.map_append, hmapcnt _ (Or.inr rfl)]
  · rw [hif, hs.interFills, hcnt, Shape.interFills_setDdof]
  · rw [hnf, hnp, hcnt]; exact hs.numpyFills
  · rw [hnp, Shape.kernel_setDdof hwf]
    intro hk
    apply hs.lenfill
    have hd0' := hd0
    cases s0 with
    | simple k c f =>
      have : (k, c, f) ∈ floatColumns := by simpa [Shape.wf] using hwf
      simpa [Shape.kernel, (setDdof_floatColumns this d).1] using hk
    | mean b => cases b <;> simp [Shape.kernel, Kernel.setDdof] at hk
    | var b d' => cases b <;> simp [Shape.kernel, Kernel.setDdof] at hk

/-! ### the table check -/

/-- the reductions that use the simple combine -/
def simpleCombineFuncs : List String :=
  ["sum", "nansum", "prod", "nanprod", "max", "nanmax", "min", "nanmin", "count", "mean", "nanmean",
   "var", "nanvar", "std", "nanstd", "nanfirst", "nanlast"]

/-- `InitRow.base` with a representative `min_count` of the right positivity -/
def InitRow.rep (r : InitRow) (R0 : Resolved) : Resolved :=
  { R0 with minCount := if r.minCount = "mc" then (if r.mcPos then 1 else 0) else R0.minCount }

/-- what is checked, by evaluation, on every row of the generated table -/
def rowOK (r : InitRow) : Bool :=
  match r.base with
  | none => false
  | some R0 =>
    match (r.rep R0).shape? with
    | none => false
    | some s0 =>
      decide (kernelWithDdof 0 r.func = some s0.kernel) && decide (HAllNaN (r.rep R0) s0)
        && decide (HMinMax (r.rep R0) s0) && decide (HFloxMean (r.rep R0) s0) && (!r.mcPos || r.minCount == "mc")
        && (r.mcPos || r.minCount == "mc" || decide (R0.minCount ≤ 1))

def rowSelected (r : InitRow) : Bool :=
  r.ok && (r.dkind == "f8" || r.dkind == "f4") && simpleCombineFuncs.contains r.func

theorem generated_rows_ok :
    (Generated.initRows.all fun r => !rowSelected r || rowOK r) = true := by decide +kernel

theorem InitRow.base_fields (r : InitRow) (R0 : Resolved) (h : r.base = some R0) :
    R0.ddof = 0 ∧ R0.name = r.func := by
  unfold InitRow.base at h
  split at h
  · cases h
  · split at h
    · cases h; exact ⟨rfl, rfl⟩
    · cases h

/-- everything the end-to-end theorems need to know about a row of the generated table -/
structure RowFacts (row : InitRow) (user : Option Val) (mc ddof : Nat) (R : Resolved) (s : Shape) : Prop where
  resolve : row.resolve user mc ddof = some R
  shape : R.shape? = some s
  kernel : kernelWithDdof ddof row.func = some s.kernel
  allnan : HAllNaN R s
  minmax : HMinMax R s
  floxmean : HFloxMean R s
  name : R.name = row.func
  ddof : R.ddof = ddof
  minCount : mc > 0 → R.minCount = mc
  minCount0 : mc = 0 → R.minCount ≤ 1
  userFill : row.userFill = "user" → R.userFill = user

theorem rowOK_facts (pf : ParseFacts) (row : InitRow) (hok : rowOK row = true) (user : Option Val) (mc ddof : Nat)
    (hmc : row.mcPos = decide (mc > 0)) : ∃ R s, RowFacts row user mc ddof R s := by
  unfold rowOK at hok
  split at hok
  · cases hok
  · rename_i R0 hbase
    split at hok
    · cases hok
    · rename_i s0 hshape
      simp only [Bool.and_eq_true, decide_eq_true_eq, Bool.or_eq_true, Bool.not_eq_true', beq_iff_eq] at hok
      obtain ⟨⟨⟨⟨⟨hk, han⟩, hmm⟩, hfm⟩, hmcs⟩, hlit⟩ := hok
      have hs0 := ((row.rep R0).shape?_eq_some_iff s0).mp hshape
      obtain ⟨hd0, hname⟩ := row.base_fields R0 hbase
      have hpos : (row.inst R0 user mc ddof).minCount > 0 ↔ (row.rep R0).minCount > 0 := by
        simp only [InitRow.inst, InitRow.rep]
        by_cases hm : row.minCount = "mc"
        · simp only [hm, if_true, hmc]
          by_cases h0 : mc > 0 <;> simp [h0]
        · simp only [hm, if_false]
      have hs : (s0.setDdof ddof).Fits (row.inst R0 user mc ddof) :=
        hs0.transfer ddof hpos rfl rfl rfl rfl rfl rfl hd0 rfl rfl
      have hnp : (row.inst R0 user mc ddof).npFill = (row.rep R0).npFill := rfl
      refine ⟨row.inst R0 user mc ddof, s0.setDdof ddof, ?_, ?_, ?_, ?_, ?_, ?_, ?_, ?_, ?_, ?_, ?_⟩
      · exact row.resolve_of_base pf R0 hbase user mc ddof
      · exact (Resolved.shape?_eq_some_iff _ _).mpr hs
      · rw [kernelWithDdof_setDdof ddof row.func s0.kernel hk, Shape.kernel_setDdof hs0.wf]
      · intro hn
        rw [Shape.needsNaNFill_setDdof] at hn
        rcases han hn with h | h
        · exact Or.inl (hpos.mpr h)
        · exact Or.inr (hnp ▸ h)
      · intro hn
        rw [Shape.isNanMinMax_setDdof] at hn
        exact hpos.mpr (hmm hn)
      · intro hn
        have : s0.isMean = true := by cases s0 <;> first | exact hn | cases hn
        exact hnp ▸ hfm this
      · exact hname
      · rfl
      · intro h0
        have hp : row.mcPos = true := by rw [hmc]; simpa using h0
        have hm : row.minCount = "mc" := by
          rcases hmcs with h | h
          · rw [hp] at h; cases h
          · exact h
        simp [InitRow.inst, hm]
      · intro h0
        have hp : row.mcPos = false := by rw [hmc]; simp [h0]
        simp only [InitRow.inst]
        by_cases hm : row.minCount = "mc"
        · simp [hm, h0]
        · simp only [hm, if_false]
          rcases hlit with (h | h) | h
          · rw [hp] at h; cases h
          · exact absurd h hm
          · exact h
      · intro hu
        simp [InitRow.inst, hu]

/-- **Tie to the generated table.** Every `ok` row of a simple-combine reduction on floating data resolves, for
    every user fill / `min_count` (of the positivity the row was generated for) / `ddof`, to a `Resolved` that has
    a `Shape` whose NumPy kernel is the one named by `func`, and that satisfies H_allnan and H_minmax. -/
theorem generated_rows_have_shape :
    ∀ row ∈ Generated.initRows, row.ok = true → row.dkind ∈ ["f8", "f4"] → row.func ∈ simpleCombineFuncs →
      ∀ (user : Option Val) (mc ddof : Nat), row.mcPos = decide (mc > 0) →
        ∃ R s, RowFacts row user mc ddof R s := by
  intro row hrow hok hdk hfunc user mc ddof hmc
  have hall := List.all_eq_true.mp generated_rows_ok row hrow
  have hsel : rowSelected row = true := by
    simp only [rowSelected, Bool.and_eq_true, Bool.or_eq_true, beq_iff_eq, List.contains_iff_mem]
    refine ⟨⟨hok, ?_⟩, hfunc⟩
    simpa using hdk
  rw [hsel] at hall
  exact rowOK_facts parseFacts row (by simpa using hall) user mc ddof hmc

/-! ### the end-to-end theorems instantiated on the generated table -/

theorem useGroupedCombine_float (c : Call) (hknown : c.knownLabels = true) (harg : c.R.isArg = false) :
    useGroupedCombine c true = false := by
  simp [useGroupedCombine, hknown, harg]

/-- **C01 on the live table**: for every `ok` row of a simple-combine reduction on floating data, the eager path
    with the blueprint resolved from that row equals the specification with the NumPy kernel named by `func`;
    only H_absent remains as a hypothesis. -/
theorem generated_eager_eq_spec (row : InitRow) (hrow : row ∈ Generated.initRows) (hok : row.ok = true)
    (hdk : row.dkind ∈ ["f8", "f4"]) (hfunc : row.func ∈ simpleCombineFuncs)
    (user : Option Val) (mc ddof : Nat) (hmc : row.mcPos = decide (mc > 0))
    (R : Resolved) (hres : row.resolve user mc ddof = some R)
    (k : Kernel) (hk : kernelWithDdof ddof row.func = some k)
    (c : Call) (n : Nat) (floatData : Bool) (chunks : List Nat) (codes : List Int) (vals : List Val)
    (hR : c.R = R) (heng : c.eng = .npg) (hn : c.ngroups = n) (hknown : c.knownLabels = true)
    (hcodes : CodesOK codes n) (hlen : codes.length = vals.length)
    (H_absent : ∀ g : Nat, g < n → HAbsent R (members (Int.ofNat g) codes vals)) :
    runKnown c .eager floatData chunks (codeKeys codes) vals = specResult k R codes vals n := by
  obtain ⟨R', s, hf⟩ := generated_rows_have_shape row hrow hok hdk hfunc user mc ddof hmc
  have : R' = R := Option.some.inj (hf.resolve.symm.trans hres)
  subst this
  have hk' : k = s.kernel := Option.some.inj (hk.symm.trans hf.kernel)
  subst hk'
  exact eager_eq_spec R' s c n floatData chunks codes vals hR heng hn hknown hf.shape hcodes hlen H_absent hf.allnan

/-- **C02 on the live table**: map-reduce with reindexed blocks and the simple combine, floating data, any chunking,
    any `split_every` = specification = eager. -/
theorem generated_mapreduce_dense (row : InitRow) (hrow : row ∈ Generated.initRows) (hok : row.ok = true)
    (hdk : row.dkind ∈ ["f8", "f4"]) (hfunc : row.func ∈ simpleCombineFuncs)
    (user : Option Val) (mc ddof : Nat) (hmc : row.mcPos = decide (mc > 0))
    (R : Resolved) (hres : row.resolve user mc ddof = some R)
    (k : Kernel) (hk : kernelWithDdof ddof row.func = some k)
    (c : Call) (n : Nat) (chunks chunks' : List Nat) (codes : List Int) (vals : List Val)
    (hR : c.R = R) (heng : c.eng = .npg) (hn : c.ngroups = n) (hknown : c.knownLabels = true)
    (hcodes : CodesOK codes n) (hlen : codes.length = vals.length)
    (H_absent : ∀ g : Nat, g < n → HAbsent R (members (Int.ofNat g) codes vals))
    (hchunks : chunks ≠ []) (hsum : chunks.sum = codes.length) :
    runKnown c (.mapreduce true) true chunks (codeKeys codes) vals = specResult k R codes vals n
    ∧ runKnown c (.mapreduce true) true chunks (codeKeys codes) vals
        = runKnown c .eager true chunks' (codeKeys codes) vals := by
  obtain ⟨R', s, hf⟩ := generated_rows_have_shape row hrow hok hdk hfunc user mc ddof hmc
  have : R' = R := Option.some.inj (hf.resolve.symm.trans hres)
  subst this
  have hk' : k = s.kernel := Option.some.inj (hk.symm.trans hf.kernel)
  subst hk'
  have hs := (R'.shape?_eq_some_iff s).mp hf.shape
  have hcomb : useGroupedCombine c true = false := useGroupedCombine_float c hknown (hR ▸ hs.isArg)
  exact ⟨mapreduce_dense_eq_spec R' s c n true chunks codes vals hR heng hn hknown hf.shape hcodes hlen H_absent
      hf.minmax hchunks hsum hcomb,
    mapreduce_dense_eq_eager R' s c n true chunks chunks' codes vals hR heng hn hknown hf.shape hcodes hlen H_absent
      hf.allnan hf.minmax hchunks hsum hcomb⟩

end Flox
