/-
  END-TO-END theorem for the map-reduce plan WITHOUT reindexing at the block stage (`.mapreduce false`,
  `reindex=False`) and the simple combine:

    mapreduce_sparse_eq_spec      runKnown c (.mapreduce false) … = specification, for every chunking and split_every
    mapreduce_sparse_eq_eager     … = the eager path
    mapreduce_sparse_eq_dense     … = the `reindex=True` map-reduce plan
    mapreduce_sparse_chunking_tree_irrelevant
    *_flox                        the same with flox's own engine
-/
import FloxProofs.SparseFinish
import FloxProofs.EndToEndFlox

namespace Flox

/-! ### the block stage -/

theorem blockStage_false_eq (c : Call) (chunks : List Nat) (keys : List Key) (vals : List Val)
    (harg : c.R.isArg = false) :
    blockStage c false chunks keys vals
      = ((splitBy chunks keys).zip (splitBy chunks vals)).map fun p =>
          chunkReduce c.eng c.R.chunk c.R.interFills p.1 p.2 none c.sort := by
  unfold blockStage
  simp only [harg, Bool.false_eq_true, if_false]
  apply map_zip_zip_ignore _ _ _
    (fun ks vs => chunkReduce c.eng c.R.chunk c.R.interFills ks vs none c.sort)
  · intro a b c; rfl
  · simp [splitBy_length, offsets_length]
  · simp [splitBy_length, offsets_length]

/-- the blocks of a chunked array, annotated with the groups `chunk_reduce` finds in them -/
def asegsOf (sort : Bool) (chunks : List Nat) (codes : List Int) (vals : List Val) : List ASeg :=
  (segsOf chunks codes vals).map fun p => (blockGroups sort p.1, p)

theorem asegsOf_segs (sort : Bool) (chunks : List Nat) (codes : List Int) (vals : List Val) :
    (asegsOf sort chunks codes vals).map (·.2) = segsOf chunks codes vals := by
  simp [asegsOf, List.map_map, Function.comp_def]

theorem blockGroups_covers (sort : Bool) (p : List Int × List Val) : Covers (blockGroups sort p.1, p) := by
  intro c hc
  simp only at hc ⊢
  have hne : p.1 ≠ [] := List.ne_nil_of_mem hc
  simp only [blockGroups, hne, if_false, List.mem_map, Option.some.injEq, exists_eq_right, mem_foundOf]
  exact ⟨c, hc, rfl⟩

theorem blockGroups_exact (sort : Bool) (p : List Int × List Val) : Exact (blockGroups sort p.1, p) := by
  intro κ hκ
  simp only at hκ ⊢
  by_cases hne : p.1 = []
  · simp only [blockGroups, hne, if_true, List.mem_singleton] at hκ
    exact Or.inl ⟨hκ, hne⟩
  · simp only [blockGroups, hne, if_false, List.mem_map, mem_foundOf] at hκ
    obtain ⟨r, ⟨c, hc, rfl⟩, rfl⟩ := hκ
    exact Or.inr ⟨c, hc, rfl⟩

theorem asegsOf_good (sort : Bool) (chunks : List Nat) (codes : List Int) (vals : List Val)
    (hchunks : chunks ≠ []) (hsum : chunks.sum = codes.length) (hlen : codes.length = vals.length) :
    GoodSegs (asegsOf sort chunks codes vals) codes vals := by
  refine ⟨?_, ?_, ?_, ?_, ?_, ?_⟩
  · simpa [asegsOf] using segsOf_ne_nil chunks codes vals hchunks
  · rw [asegsOf_segs]; exact segsOf_aligned chunks codes vals hlen
  · intro a ha
    obtain ⟨p, _, rfl⟩ := List.mem_map.mp ha
    exact blockGroups_covers sort p
  · intro a ha
    obtain ⟨p, _, rfl⟩ := List.mem_map.mp ha
    exact blockGroups_exact sort p
  · rw [asegsOf_segs]; exact segsOf_catC chunks codes vals (by omega)
  · rw [asegsOf_segs]; exact segsOf_catV chunks codes vals (by omega)

/-- every block of the `reindex=False` block stage is the sparse node of its segment -/
theorem blockStage_sparse (c : Call) (chunks : List Nat) (codes : List Int) (vals : List Val)
    (heng : c.eng = .npg) (harg : c.R.isArg = false)
    (hnoarg : ∀ k ∈ c.R.chunk, isArgKernel k = false)
    (hz : ∀ p ∈ c.R.chunk.zip c.R.interFills, (p.1 = .nanlen ∨ p.1 = .nansumsq) → p.2 = Val.zero) :
    blockStage c false chunks (codeKeys codes) vals = (asegsOf c.sort chunks codes vals).map (spNode c.R) := by
  rw [blockStage_false_eq c chunks _ vals harg]
  unfold codeKeys asegsOf segsOf
  rw [splitBy_map, List.zip_map_left, List.map_map, List.map_map, heng]
  apply List.map_congr_left
  intro p _
  simp only [Function.comp, Prod.map_fst, Prod.map_snd, id]
  exact chunkReduce_sparse _ _ _ _ _ hnoarg hz

/-! ### the end-to-end theorems (numpy_groupies engine) -/

/-- the combined intermediate of the `reindex=False` map-reduce plan is a sparse intermediate of the whole array,
    for every chunking and every `split_every` -/
theorem mapreduce_sparse (R : Resolved) (s : Shape) (c : Call) (chunks : List Nat) (codes : List Int)
    (vals : List Val) (se : Nat)
    (hR : c.R = R) (heng : c.eng = .npg) (hs : s.Fits R) (hlen : codes.length = vals.length)
    (hchunks : chunks ≠ []) (hsum : chunks.sum = codes.length) :
    ∃ G : List Key, Covers (G, (codes, vals)) ∧ Exact (G, (codes, vals)) ∧ G ≠ [] ∧
      simpleCombine R false (treeReduce (simpleCombine R false) se (blockStage c false chunks (codeKeys codes) vals))
        = spInter R.chunk R.interFills G codes vals := by
  subst hR
  rw [blockStage_sparse c chunks codes vals heng hs.isArg hs.chunk_noarg hs.chunk_zero]
  exact tree_spNodes c.R se hs.len_combine hs.len_interFills
    (fun j hj => fun parts hne => combine_parts _ _ _ (hs.col_mem j hj) parts hne)
    _ codes vals (asegsOf_good c.sort chunks codes vals hchunks hsum hlen)

/-! ### the degenerate case: no block at all -/

theorem foldl_rounds_nil (f : List Inter → Inter) (k : Nat) (l : List Nat) :
    l.foldl (fun cur _ => (partitionAll k cur).map f) [] = [] := by
  induction l with
  | nil => rfl
  | cons _ l ih =>
    simp only [List.foldl_cons]
    rw [partitionAll_stop k [] (Or.inr rfl)]
    simpa using ih

theorem treeReduce_nil (f : List Inter → Inter) (k : Nat) : treeReduce f k [] = [] := by
  unfold treeReduce
  exact foldl_rounds_nil f _ _

theorem simpleCombine_false_nil (R : Resolved) :
    simpleCombine R false [] = { groups := [none], cols := R.combine.mapIdx fun _ k => [kEval k []] } := by
  simp [simpleCombine, uniqueGroups, presentKeys, uniqSorted]

/-- finalizer on the one-slot columns of the empty combine: one value -/
theorem finalize_nil_shape {s : Shape} {R : Resolved} (hs : s.Fits R) :
    ∃ v0 : Val, finalizeVals R (if R.minCount > 0 then (R.combine.mapIdx fun _ k => [kEval k []]).dropLast
        else R.combine.mapIdx fun _ k => [kEval k []]) = [v0] := by
  have hfin := hs.fin
  rw [hs.combine]
  cases s with
  | simple k c f =>
    have hf : R.finalize = "none" := by simpa [Shape.finalizeOK] using hfin
    by_cases hm : R.minCount > 0 <;>
      simp [finalizeVals_none R _ hf, cntSuffix, hm, Shape.combine]
  | mean b =>
    have hf : R.finalize = "mean" := by simpa [Shape.finalizeOK] using hfin
    by_cases hm : R.minCount > 0 <;>
      simp [finalizeVals_mean R _ hf, cntSuffix, hm, Shape.combine]
  | var b d =>
    have hf : R.finalize = "var" ∨ R.finalize = "std" := by simpa [Shape.finalizeOK] using hfin
    have hfv : ∀ cols, finalizeVals R cols = ((cols.getD 0 []).zip ((cols.getD 1 []).zip (cols.getD 2 []))).map
        fun (sq, s, c) => onepass R.ddof sq s c := by
      intro cols
      rcases hf with hf | hf
      · exact finalizeVals_var R cols hf
      · exact finalizeVals_std R cols hf
    by_cases hm : R.minCount > 0 <;>
      simp [hfv, cntSuffix, hm, Shape.combine]

theorem count_nil_shape {s : Shape} {R : Resolved} (hs : s.Fits R) (hm : R.minCount > 0) :
    (R.combine.mapIdx fun _ k => [kEval k []]).getLastD [] = [countVal []] := by
  rw [hs.combine]
  simp [cntSuffix, hm, List.mapIdx_append, kEval, countVal, blockVal]

/-- with no block at all (and hence no element) the plan returns the user fill for every requested label -/
theorem mapreduce_sparse_nochunks {s : Shape} {R : Resolved} (hs : s.Fits R) (c : Call) (hR : c.R = R) (n : Nat)
    (floatData : Bool) (hn : c.ngroups = n) (H_dropped : HDropped R n [] [])
    (hcombine : useGroupedCombine c floatData = false) :
    runKnown c (.mapreduce false) floatData [] (codeKeys []) []
      = (List.range n).mapM fun (g : Nat) => specSlot R s.kernel (members (Int.ofNat g) [] []) := by
  subst hR
  simp only [runKnown, hcombine, Bool.false_eq_true, if_false]
  have hb : blockStage c false [] (codeKeys []) [] = [] := rfl
  rw [hb, treeReduce_nil, simpleCombine_false_nil, hn]
  obtain ⟨v0, hv0⟩ := finalize_nil_shape hs
  rw [finalizeResults_slots c.R _ (fun _ => v0) (fun _ => countVal []) (some (rangeKeys n)) false
    (by simpa using hv0) (fun hm => by simpa using count_nil_shape hs hm)]
  simp only
  rw [reindex_slots [none] (rangeKeys n) (fun _ => maskedSlot c.R (countVal []) v0) c.R.userFill (by simp)
    (fun κ e h => (maskedSlot_error c.R _ _ e h).1)]
  · have hslots : (rangeKeys n).mapM (fun κ => if κ ∈ [(none : Key)] then maskedSlot c.R (countVal []) v0
          else fillOrError c.R.userFill)
        = (List.range n).mapM fun (g : Nat) => specSlot c.R s.kernel (members (Int.ofNat g) [] []) := by
      unfold rangeKeys
      rw [mapM_except_map]
      apply mapM_except_congr
      intro g _
      simp [specSlot_nil]
    rw [hslots]
    cases hm : (List.range n).mapM fun (g : Nat) => specSlot c.R s.kernel (members (Int.ofNat g) [] []) with
    | error e => rfl
    | ok v =>
      simp only
      apply finalReindex_range c n v hn
      have := mapM_except_length _ _ _ hm
      simpa using this
  · intro κ _ _ hs'
    obtain ⟨_, huf, hmc, _⟩ := maskedSlot_error c.R _ _ _ hs'
    have hn0 := (H_dropped hmc huf).1 rfl
    refine ⟨some ((0 : Nat) : Rat), (mem_rangeKeys _ n).mpr ⟨0, hn0, rfl⟩, ?_⟩
    have : (some ((0 : Nat) : Rat) : Key) ∉ [(none : Key)] := by simp
    rw [if_neg this, huf]; rfl

/-- **Plan F1, end to end.** Map-reduce without reindexing at the block stage (blocks carry only the groups they
    contain, the dropped code `-1` included; every `_simple_combine` reindexes to the union of its inputs' groups with
    the intermediate fills; `_finalize_results` reindexes to the requested labels with the user fill)
    = specification, for every chunking and every `split_every`.
    Compared with `mapreduce_dense_eq_spec` the hypothesis `H_absent` is NOT needed (an absent requested label gets the
    user fill, or raises when there is none – exactly the specification); `H_dropped` is needed instead. -/
theorem mapreduce_sparse_eq_spec (R : Resolved) (s : Shape) (c : Call) (n : Nat) (floatData : Bool)
    (chunks : List Nat) (codes : List Int) (vals : List Val)
    (hR : c.R = R) (heng : c.eng = .npg) (hn : c.ngroups = n) (_hknown : c.knownLabels = true)
    (hshape : R.shape? = some s) (hcodes : CodesOK codes n) (hlen : codes.length = vals.length)
    (H_dropped : HDropped R n codes vals)
    (H_minmax : HMinMax R s)
    (hsum : chunks.sum = codes.length)
    (hcombine : useGroupedCombine c floatData = false) :
    runKnown c (.mapreduce false) floatData chunks (codeKeys codes) vals = specResult s.kernel R codes vals n := by
  have hs := (R.shape?_eq_some_iff s).mp hshape
  by_cases hchunks : chunks = []
  · -- no block at all: then there is no element either
    subst hchunks
    have hc0 : codes = [] := List.length_eq_zero_iff.mp (by simpa using hsum.symm)
    subst hc0
    have hv0 : vals = [] := List.length_eq_zero_iff.mp (by simpa using hlen.symm)
    subst hv0
    rw [specResult_slots hs]
    exact mapreduce_sparse_nochunks hs c hR n floatData hn H_dropped hcombine
  · obtain ⟨G, hcov, hex, hG, hx⟩ :=
      mapreduce_sparse R s c chunks codes vals c.splitEvery hR heng hs hlen hchunks hsum
    subst hR
    simp only [runKnown, hcombine, Bool.false_eq_true, if_false]
    rw [hx, hn, specResult_slots hs]
    exact finish_sparse hs c n G codes vals hn hcodes hlen hcov hex hG H_dropped H_minmax

/-- `reindex=False` map-reduce = eager -/
theorem mapreduce_sparse_eq_eager (R : Resolved) (s : Shape) (c : Call) (n : Nat) (floatData : Bool)
    (chunks chunks' : List Nat) (codes : List Int) (vals : List Val)
    (hR : c.R = R) (heng : c.eng = .npg) (hn : c.ngroups = n) (hknown : c.knownLabels = true)
    (hshape : R.shape? = some s) (hcodes : CodesOK codes n) (hlen : codes.length = vals.length)
    (H_absent : ∀ g : Nat, g < n → HAbsent R (members (Int.ofNat g) codes vals))
    (H_allnan : HAllNaN R s) (H_dropped : HDropped R n codes vals) (H_minmax : HMinMax R s)
    (hsum : chunks.sum = codes.length)
    (hcombine : useGroupedCombine c floatData = false) :
    runKnown c (.mapreduce false) floatData chunks (codeKeys codes) vals
      = runKnown c .eager floatData chunks' (codeKeys codes) vals := by
  rw [mapreduce_sparse_eq_spec R s c n floatData chunks codes vals hR heng hn hknown hshape hcodes hlen H_dropped
      H_minmax hsum hcombine,
    eager_eq_spec R s c n floatData chunks' codes vals hR heng hn hknown hshape hcodes hlen H_absent H_allnan]

/-- `reindex=False` map-reduce = `reindex=True` map-reduce (possibly with another chunking / `split_every`) -/
theorem mapreduce_sparse_eq_dense (R : Resolved) (s : Shape) (c c' : Call) (n : Nat) (floatData : Bool)
    (chunks chunks' : List Nat) (codes : List Int) (vals : List Val)
    (hR : c.R = R) (heng : c.eng = .npg) (hn : c.ngroups = n) (hknown : c.knownLabels = true)
    (hR' : c'.R = R) (heng' : c'.eng = .npg) (hn' : c'.ngroups = n) (hknown' : c'.knownLabels = true)
    (hshape : R.shape? = some s) (hcodes : CodesOK codes n) (hlen : codes.length = vals.length)
    (H_absent : ∀ g : Nat, g < n → HAbsent R (members (Int.ofNat g) codes vals))
    (H_dropped : HDropped R n codes vals) (H_minmax : HMinMax R s)
    (hsum : chunks.sum = codes.length)
    (hchunks' : chunks' ≠ []) (hsum' : chunks'.sum = codes.length)
    (hcombine : useGroupedCombine c floatData = false) (hcombine' : useGroupedCombine c' floatData = false) :
    runKnown c (.mapreduce false) floatData chunks (codeKeys codes) vals
      = runKnown c' (.mapreduce true) floatData chunks' (codeKeys codes) vals := by
  rw [mapreduce_sparse_eq_spec R s c n floatData chunks codes vals hR heng hn hknown hshape hcodes hlen H_dropped
      H_minmax hsum hcombine,
    mapreduce_dense_eq_spec R s c' n floatData chunks' codes vals hR' heng' hn' hknown' hshape hcodes hlen H_absent
      H_minmax hchunks' hsum' hcombine']

/-- the result depends neither on the chunking, nor on `split_every`, nor on `sort` -/
theorem mapreduce_sparse_chunking_tree_irrelevant (R : Resolved) (s : Shape) (c₁ c₂ : Call) (n : Nat)
    (floatData : Bool) (chunks₁ chunks₂ : List Nat) (codes : List Int) (vals : List Val)
    (hR₁ : c₁.R = R) (heng₁ : c₁.eng = .npg) (hn₁ : c₁.ngroups = n) (hknown₁ : c₁.knownLabels = true)
    (hR₂ : c₂.R = R) (heng₂ : c₂.eng = .npg) (hn₂ : c₂.ngroups = n) (hknown₂ : c₂.knownLabels = true)
    (hshape : R.shape? = some s) (hcodes : CodesOK codes n) (hlen : codes.length = vals.length)
    (H_dropped : HDropped R n codes vals) (H_minmax : HMinMax R s)
    (hsum₁ : chunks₁.sum = codes.length) (hsum₂ : chunks₂.sum = codes.length)
    (hcombine₁ : useGroupedCombine c₁ floatData = false) (hcombine₂ : useGroupedCombine c₂ floatData = false) :
    runKnown c₁ (.mapreduce false) floatData chunks₁ (codeKeys codes) vals
      = runKnown c₂ (.mapreduce false) floatData chunks₂ (codeKeys codes) vals := by
  rw [mapreduce_sparse_eq_spec R s c₁ n floatData chunks₁ codes vals hR₁ heng₁ hn₁ hknown₁ hshape hcodes hlen
      H_dropped H_minmax hsum₁ hcombine₁,
    mapreduce_sparse_eq_spec R s c₂ n floatData chunks₂ codes vals hR₂ heng₂ hn₂ hknown₂ hshape hcodes hlen
      H_dropped H_minmax hsum₂ hcombine₂]

/-! ### flox's own engine -/

theorem blockStage_false_flox (c : Call) (chunks : List Nat) (keys : List Key) (vals : List Val)
    (heng : c.eng = .flox) (harg : c.R.isArg = false)
    (hks : ∀ p ∈ c.R.chunk.zip c.R.interFills, floxAgreesAt p.1 p.2)
    (hz : ∀ p ∈ c.R.chunk.zip c.R.interFills, (p.1 = .nanlen ∨ p.1 = .nansumsq) → p.2 = Val.zero)
    (hlen : keys.length = vals.length) :
    blockStage c false chunks keys vals = blockStage c.withNpg false chunks keys vals := by
  rw [blockStage_false_eq c chunks keys vals harg, blockStage_false_eq c.withNpg chunks keys vals harg, heng]
  apply List.map_congr_left
  intro p hp
  exact chunkReduce_flox _ _ _ _ _ _ hks hz (splitBy_zip_aligned chunks keys vals hlen p hp)

theorem runKnown_mapreduce_false_flox (c : Call) (floatData : Bool) (chunks : List Nat) (keys : List Key)
    (vals : List Val)
    (heng : c.eng = .flox) (harg : c.R.isArg = false)
    (hks : ∀ p ∈ c.R.chunk.zip c.R.interFills, floxAgreesAt p.1 p.2)
    (hz : ∀ p ∈ c.R.chunk.zip c.R.interFills, (p.1 = .nanlen ∨ p.1 = .nansumsq) → p.2 = Val.zero)
    (hlen : keys.length = vals.length)
    (hcombine : useGroupedCombine c floatData = false) :
    runKnown c (.mapreduce false) floatData chunks keys vals
      = runKnown c.withNpg (.mapreduce false) floatData chunks keys vals := by
  have hcombine' : useGroupedCombine c.withNpg floatData = false := hcombine
  simp only [runKnown, hcombine, hcombine', Bool.false_eq_true, if_false]
  rw [blockStage_false_flox c chunks keys vals heng harg hks hz hlen]
  rfl

/-- **Plan F1 with flox's own engine** -/
theorem mapreduce_sparse_eq_spec_flox (R : Resolved) (s : Shape) (c : Call) (n : Nat) (floatData : Bool)
    (chunks : List Nat) (codes : List Int) (vals : List Val)
    (hR : c.R = R) (heng : c.eng = .flox) (hn : c.ngroups = n) (hknown : c.knownLabels = true)
    (hshape : R.shape? = some s) (hcodes : CodesOK codes n) (hlen : codes.length = vals.length)
    (H_dropped : HDropped R n codes vals)
    (H_minmax : HMinMax R s)
    (hsum : chunks.sum = codes.length)
    (hcombine : useGroupedCombine c floatData = false) :
    runKnown c (.mapreduce false) floatData chunks (codeKeys codes) vals = specResult s.kernel R codes vals n := by
  have hs := (R.shape?_eq_some_iff s).mp hshape
  subst hR
  rw [runKnown_mapreduce_false_flox c floatData chunks (codeKeys codes) vals heng hs.isArg hs.chunk_floxAgrees
    hs.chunk_zero (by simpa [codeKeys] using hlen) hcombine]
  exact mapreduce_sparse_eq_spec c.R s c.withNpg n floatData chunks codes vals rfl rfl hn hknown hshape hcodes hlen
    H_dropped H_minmax hsum hcombine

end Flox
