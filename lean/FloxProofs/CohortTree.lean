/-
  One cohort of the `cohorts` plan: the blocks of the cohort, reindexed to the cohort's labels `T`, are "dense over `T`";
  `_simple_combine` (no reindexing needed any more) over any tree gives the intermediate, over `T`, of the
  concatenation of the selected blocks.  Selecting the blocks that contain all members of a label does not change
  that label's member list.
-/
import FloxProofs.EndToEndSparse

namespace Flox

/-! ### nodes over a fixed group list -/

/-- the intermediate, over the groups `T`, of one segment -/
abbrev tNode (R : Resolved) (T : List Key) (p : List Int × List Val) : Inter :=
  spInter R.chunk R.interFills T p.1 p.2

theorem simpleCombine_common (R : Resolved) (T : List Key) (xs : List Inter) (hne : xs ≠ [])
    (hg : ∀ x ∈ xs, x.groups = T) :
    simpleCombine R true xs =
      { groups := T,
        cols := R.combine.mapIdx fun j c =>
          (List.range T.length).map fun gi => combineVal c (xs.map fun x => (colAt x j).getD gi Val.nan) } := by
  cases xs with
  | nil => exact absurd rfl hne
  | cons x xs =>
    have hx : x.groups = T := hg x (by simp)
    simp [simpleCombine, hx, combineVal]

theorem simpleCombine_tNodes (R : Resolved) (T : List Key) (segs : Segs) (hne : segs ≠ []) (hal : Aligned segs)
    (hc : R.chunk.length = R.combine.length) (hf : R.chunk.length = R.interFills.length)
    (hlaw : ∀ j (hj : j < R.chunk.length),
      Law R.chunk[j] (R.combine[j]'(by omega)) (R.interFills[j]'(by omega))) :
    simpleCombine R true (segs.map (tNode R T)) = tNode R T (catC segs, catV segs) := by
  rw [simpleCombine_common R T _ (by simpa using hne)
    (by intro x hx; obtain ⟨p, _, rfl⟩ := List.mem_map.mp hx; rfl)]
  simp only [tNode, spInter, fcols]
  congr 1
  apply List.ext_getElem
  · simp only [List.length_mapIdx, List.length_map, List.length_zip]; omega
  · intro j h1 h2
    have hj : j < R.chunk.length := by simp only [List.length_mapIdx] at h1; omega
    simp only [List.getElem_mapIdx, List.getElem_map, List.getElem_zip]
    apply List.ext_getElem
    · simp
    · intro gi h3 h4
      have hgi : gi < T.length := by simpa using h3
      simp only [List.getElem_map, List.getElem_range]
      rw [keyMembers_cat _ segs hal, ← hlaw j hj _ (by simpa using hne)]
      congr 1
      simp only [List.map_map]
      apply List.map_congr_left
      intro p _
      simp only [Function.comp]
      exact colAt_spInter R.chunk R.interFills T p.1 p.2 j gi hj hf hgi

theorem round_tNodes (R : Resolved) (T : List Key) (k : Nat) (segs : Segs) (hal : Aligned segs)
    (hc : R.chunk.length = R.combine.length) (hf : R.chunk.length = R.interFills.length)
    (hlaw : ∀ j (hj : j < R.chunk.length),
      Law R.chunk[j] (R.combine[j]'(by omega)) (R.interFills[j]'(by omega))) :
    (partitionAll k (segs.map (tNode R T))).map (simpleCombine R true)
      = ((partitionAll k segs).map fun grp => (catC grp, catV grp)).map (tNode R T) := by
  rw [partitionAll_map, List.map_map, List.map_map]
  apply List.map_congr_left
  intro grp hgrp
  simp only [Function.comp]
  exact simpleCombine_tNodes R T grp (partitionAll_mem_ne_nil k segs grp hgrp)
    (fun p hp => hal p (partitionAll_mem_sub k segs grp hgrp p hp)) hc hf hlaw

theorem rounds_tNodes (R : Resolved) (T : List Key) (k : Nat)
    (hc : R.chunk.length = R.combine.length) (hf : R.chunk.length = R.interFills.length)
    (hlaw : ∀ j (hj : j < R.chunk.length),
      Law R.chunk[j] (R.combine[j]'(by omega)) (R.interFills[j]'(by omega)))
    (l : List Nat) (segs : Segs) (hne : segs ≠ []) (hal : Aligned segs) :
    ∃ segs' : Segs, segs' ≠ [] ∧ Aligned segs' ∧ catC segs' = catC segs ∧ catV segs' = catV segs ∧
      l.foldl (fun cur _ => (partitionAll k cur).map (simpleCombine R true)) (segs.map (tNode R T))
        = segs'.map (tNode R T) := by
  induction l generalizing segs with
  | nil => exact ⟨segs, hne, hal, rfl, rfl, rfl⟩
  | cons _ l ih =>
    simp only [List.foldl_cons]
    rw [round_tNodes R T k segs hal hc hf hlaw]
    obtain ⟨segs', h1, h2, h3, h4, h5⟩ :=
      ih ((partitionAll k segs).map fun grp => (catC grp, catV grp))
        (by simpa using partitionAll_ne_nil k segs hne) (merged_aligned k segs hal)
    exact ⟨segs', h1, h2, h3.trans (merged_catC k segs), h4.trans (merged_catV k segs), h5⟩

/-- tree reduction + final combine of nodes over a common group list -/
theorem tree_tNodes (R : Resolved) (T : List Key) (se : Nat)
    (hc : R.chunk.length = R.combine.length) (hf : R.chunk.length = R.interFills.length)
    (hlaw : ∀ j (hj : j < R.chunk.length),
      Law R.chunk[j] (R.combine[j]'(by omega)) (R.interFills[j]'(by omega)))
    (segs : Segs) (hne : segs ≠ []) (hal : Aligned segs) :
    simpleCombine R true (treeReduce (simpleCombine R true) se (segs.map (tNode R T)))
      = tNode R T (catC segs, catV segs) := by
  unfold treeReduce
  obtain ⟨segs', h1, h2, h3, h4, h5⟩ := rounds_tNodes R T (Nat.max se 2) hc hf hlaw
    (List.range (ceilLog (Nat.max se 2) (segs.map (tNode R T)).length - 1)) segs hne hal
  simp only [h5]
  rw [simpleCombine_tNodes R T segs' h1 h2 hc hf hlaw, h3, h4]

/-! ### selecting blocks -/

/-- a strictly increasing list of indices below `n` is `range n` filtered by membership -/
theorem ascending_eq_filter (blks : List Nat) (n : Nat) (hs : blks.Pairwise (· < ·)) (hlt : ∀ b ∈ blks, b < n) :
    blks = (List.range n).filter (fun b => decide (b ∈ blks)) := by
  have hp2 : ((List.range n).filter (fun b => decide (b ∈ blks))).Pairwise (· < ·) :=
    List.Pairwise.filter _ List.pairwise_lt_range
  have nd1 : blks.Nodup := hs.imp (fun h e => by omega)
  have nd2 : ((List.range n).filter (fun b => decide (b ∈ blks))).Nodup := hp2.imp (fun h e => by omega)
  apply List.Perm.eq_of_pairwise (le := (· < ·)) _ hs hp2
  · rw [List.perm_ext_iff_of_nodup nd1 nd2]
    intro a
    simp only [List.mem_filter, List.mem_range, decide_eq_true_eq]
    exact ⟨fun h => ⟨hlt a h, h⟩, fun h => h.2⟩
  · intro a b _ _ h1 h2; omega

theorem flatten_filter_map {α β} (L : List α) (P : α → Bool) (h : α → List β)
    (hnil : ∀ x ∈ L, P x = false → h x = []) :
    ((L.filter P).map h).flatten = (L.map h).flatten := by
  induction L with
  | nil => rfl
  | cons x L ih =>
    have ih' := ih (fun y hy => hnil y (by simp [hy]))
    by_cases hp : P x = true
    · simp [hp, ih']
    · have hp' : P x = false := by simpa using hp
      simp [hp', ih', hnil x (by simp) hp']

/-- selecting (in ascending order) a set of blocks that contains every block where `h` is non-trivial -/
theorem flatten_select {α β} (L : List α) (d : α) (blks : List Nat) (h : α → List β)
    (hs : blks.Pairwise (· < ·)) (hlt : ∀ b ∈ blks, b < L.length)
    (hnil : ∀ b (hb : b < L.length), b ∉ blks → h L[b] = []) :
    ((blks.map fun b => L.getD b d).map h).flatten = (L.map h).flatten := by
  have hL : L = (List.range L.length).map fun b => L.getD b d := by
    apply List.ext_getElem
    · simp
    · intro i h1 h2
      simp [List.getD_eq_getElem?_getD, List.getElem?_eq_getElem h1]
  conv => rhs; rw [hL]
  conv => lhs; rw [ascending_eq_filter blks L.length hs hlt]
  rw [List.map_map, List.map_map]
  apply flatten_filter_map
  intro b hb hP
  have hb' : b < L.length := List.mem_range.mp hb
  have : b ∉ blks := by simpa using hP
  simp only [Function.comp, List.getD_eq_getElem?_getD, List.getElem?_eq_getElem hb', Option.getD_some]
  exact hnil b hb' this

/-- the segments picked by a cohort's block list -/
def selSegs (segs : Segs) (blks : List Nat) : Segs := blks.map fun b => segs.getD b ([], [])

theorem selSegs_aligned (segs : Segs) (blks : List Nat) (hal : Aligned segs) : Aligned (selSegs segs blks) := by
  intro p hp
  obtain ⟨b, _, rfl⟩ := List.mem_map.mp hp
  by_cases hb : b < segs.length
  · rw [List.getD_eq_getElem?_getD, List.getElem?_eq_getElem hb]
    exact hal _ (List.getElem_mem hb)
  · rw [List.getD_eq_getElem?_getD, List.getElem?_eq_none (by omega)]
    rfl

/-- members of `g` in the selected blocks = members of `g` in the whole array, provided the (ascending) selection
    contains every block in which the code `g` occurs -/
theorem members_selSegs (g : Int) (segs : Segs) (blks : List Nat) (hal : Aligned segs)
    (hs : blks.Pairwise (· < ·)) (hlt : ∀ b ∈ blks, b < segs.length)
    (hcover : ∀ b (hb : b < segs.length), g ∈ segs[b].1 → b ∈ blks) :
    members g (catC (selSegs segs blks)) (catV (selSegs segs blks)) = members g (catC segs) (catV segs) := by
  rw [members_cat g _ (selSegs_aligned segs blks hal), members_cat g segs hal]
  exact flatten_select segs ([], []) blks (fun p => members g p.1 p.2) hs hlt
    (fun b hb hnb => members_eq_nil_of_ne g _ _ (fun c hc e => hnb (hcover b hb (e ▸ hc))))

end Flox
