/-
  C10, part 1: algebra of the sequential scans and of the specification `groupedScan`
  (no flox internals here).
-/
import FloxModel.Scan
import FloxProofs.ValAlgebra
import FloxProofs.ValAlgebra2

namespace Flox
namespace Scan

/-- induction from the right end of a list -/
theorem snoc_induction {α : Type} {P : List α → Prop} (hnil : P []) (hsnoc : ∀ l a, P l → P (l ++ [a])) :
    ∀ l, P l := by
  intro l
  have : ∀ r : List α, P r.reverse := by
    intro r
    induction r with
    | nil => exact hnil
    | cons a r ih => simpa using hsnoc _ a ih
  simpa using this l.reverse

/-! ### members -/

@[simp] theorem mem_nil (g : Int) : mem g [] = [] := rfl

theorem mem_append (g : Int) (a b : AA) : mem g (a ++ b) = mem g a ++ mem g b := by
  simp [mem]

theorem mem_cons (g : Int) (p : Int × Val) (l : AA) :
    mem g (p :: l) = if p.1 = g then p.2 :: mem g l else mem g l := by
  by_cases h : p.1 = g <;> simp [mem, List.filter_cons, h]

theorem mem_singleton (g : Int) (p : Int × Val) : mem g [p] = if p.1 = g then [p.2] else [] := by
  rw [mem_cons]; simp

theorem mem_eq_nil_of_not_mem_keys (g : Int) (l : AA) (h : g ∉ keys l) : mem g l = [] := by
  induction l with
  | nil => rfl
  | cons p l ih =>
    simp only [keys, List.map_cons, List.mem_cons, not_or] at h
    rw [mem_cons, if_neg (fun e => h.1 e.symm)]
    exact ih (by simpa [keys] using h.2)

/-! ### how the carried value combines across a cut -/

/-- combine the carried value of a prefix with the carried value of what follows -/
def comb : Func → Val → Val → Val
  | .nancumsum, a, b => Val.add a b
  | _, a, b => if b.isNaN then a else b

theorem scanLast_nil (f : Func) : scanLast f [] = init f := rfl

theorem scanLast_append (f : Func) (a b : List Val) :
    scanLast f (a ++ b) = b.foldl (step f) (scanLast f a) := by
  simp [scanLast, List.foldl_append]

theorem scanLast_snoc (f : Func) (a : List Val) (v : Val) :
    scanLast f (a ++ [v]) = step f (scanLast f a) v := by
  simp [scanLast_append]

theorem step_fill (f : Func) (hf : f ≠ .nancumsum) (c v : Val) : step f c v = if v.isNaN then c else v := by
  cases f <;> simp_all [step]

theorem comb_fill (f : Func) (hf : f ≠ .nancumsum) (a b : Val) : comb f a b = if b.isNaN then a else b := by
  cases f <;> simp_all [comb]

theorem init_fill (f : Func) (hf : f ≠ .nancumsum) : init f = Val.nan := by
  cases f <;> simp_all [init]

theorem fill_comb_aux (a v x : Val) :
    (if x.isNaN = true then if v.isNaN = true then a else v else x) =
      if (if x.isNaN = true then if v.isNaN = true then Val.nan else v else x).isNaN = true then a
      else if x.isNaN = true then if v.isNaN = true then Val.nan else v else x := by
  cases x <;> cases v <;> simp [Val.isNaN]

theorem foldl_step (f : Func) (a : Val) (ms : List Val) :
    ms.foldl (step f) a = comb f a (scanLast f ms) := by
  induction ms generalizing a with
  | nil =>
    cases f <;> simp [scanLast, comb, init, Val.add_zero_right, Val.isNaN]
  | cons v r ih =>
    have h1 := ih (step f a v)
    have h2 := ih (step f (init f) v)
    simp only [List.foldl_cons, scanLast] at *
    rw [h1, h2]
    cases f
    · simp only [comb, step, init]
      rw [Val.add_zero_left, Val.add_assoc]
    all_goals
      simp only [comb, step, init]
      exact fill_comb_aux _ _ _

theorem scanLast_append' (f : Func) (a b : List Val) :
    scanLast f (a ++ b) = comb f (scanLast f a) (scanLast f b) := by
  rw [scanLast_append, foldl_step]

/-- the closed forms used by flox's per-block reductions -/
theorem scanLast_nancumsum (ms : List Val) : scanLast .nancumsum ms = kEval .nansum ms := by
  show scanLast .nancumsum ms = vsum (dropNaN ms)
  induction ms using snoc_induction with
  | hnil => rfl
  | hsnoc r v ih =>
    rw [scanLast_snoc, ih]
    by_cases hv : v.isNaN
    · simp [step, hv, dropNaN, Val.add_zero_right]
    · simp [step, hv, dropNaN, vsum, List.foldl_append]

theorem firstNonNaN_append (a b : List Val) :
    firstNonNaN (a ++ b) = if (firstNonNaN a).isNaN then firstNonNaN b else firstNonNaN a := by
  induction a with
  | nil => simp [firstNonNaN, Val.isNaN]
  | cons x r ih =>
    by_cases hx : x.isNaN
    · simp [firstNonNaN, hx, ih]
    · simp [firstNonNaN, hx]

theorem scanLast_fill (f : Func) (hf : f ≠ .nancumsum) (ms : List Val) : scanLast f ms = lastNonNaN ms := by
  induction ms using snoc_induction with
  | hnil => simp [scanLast, lastNonNaN, firstNonNaN, init_fill f hf]
  | hsnoc r v ih =>
    rw [scanLast_snoc, ih, step_fill f hf]
    simp only [lastNonNaN, List.reverse_append, List.reverse_cons, List.reverse_nil, List.nil_append,
      List.singleton_append, firstNonNaN]

/-! ### state equivalence: two histories that leave every group in the same state -/

def SEq (f : Func) (a b : AA) : Prop := ∀ g, scanLast f (mem g a) = scanLast f (mem g b)

theorem SEq.refl (f : Func) (a : AA) : SEq f a a := fun _ => rfl

theorem SEq.append {f : Func} {a b c d : AA} (h1 : SEq f a b) (h2 : SEq f c d) : SEq f (a ++ c) (b ++ d) := by
  intro g
  rw [mem_append, mem_append, scanLast_append', scanLast_append', h1 g, h2 g]

/-! ### the specification walks left to right -/

theorem groupedScanFrom_length (f : Func) (pre l : AA) : (groupedScanFrom f pre l).length = l.length := by
  induction l generalizing pre with
  | nil => rfl
  | cons p r ih => simp [groupedScanFrom, ih]

theorem groupedScanFrom_append (f : Func) (pre a b : AA) :
    groupedScanFrom f pre (a ++ b) = groupedScanFrom f pre a ++ groupedScanFrom f (pre ++ a) b := by
  induction a generalizing pre with
  | nil => simp [groupedScanFrom]
  | cons p r ih => simp [groupedScanFrom, ih]

theorem groupedScanFrom_congr (f : Func) (pre pre' l : AA) (h : SEq f pre pre') :
    groupedScanFrom f pre l = groupedScanFrom f pre' l := by
  induction l generalizing pre pre' with
  | nil => rfl
  | cons p r ih =>
    simp only [groupedScanFrom]
    rw [scanLast_snoc, scanLast_snoc, h p.1, ih _ _ (SEq.append h (SEq.refl f [p]))]

theorem groupedScan_append (f : Func) (a b : AA) :
    groupedScan f (a ++ b) = groupedScan f a ++ groupedScanFrom f a b := by
  simp [groupedScan, groupedScanFrom_append]

/-- **no cross-group flow**: the value at a position is the sequential scan of the members of ITS label at positions up to
    and including itself – nothing else enters -/
theorem groupedScan_at (f : Func) (a b : AA) (p : Int × Val) :
    (groupedScan f (a ++ p :: b))[a.length]? = some (scanLast f (mem p.1 (a ++ [p]))) := by
  rw [groupedScan_append]
  have hl : (groupedScan f a).length = a.length := groupedScanFrom_length f [] a
  rw [List.getElem?_append_right (by omega), hl]
  simp [groupedScanFrom, mem_append, mem_singleton]

/-- the property as worded: the positions of every group hold the sequential NumPy scan of that group's members -/
theorem groupedScanFrom_members (f : Func) (pre l : AA) (g : Int) :
    mem g ((keys l).zip (groupedScanFrom f pre l)) = scanFrom f (scanLast f (mem g pre)) (mem g l) := by
  induction l generalizing pre with
  | nil => simp [keys, groupedScanFrom, scanFrom]
  | cons p r ih =>
    simp only [keys, List.map_cons, groupedScanFrom, List.zip_cons_cons]
    have ih' := ih (pre ++ [p])
    simp only [keys] at ih'
    rw [mem_cons, mem_cons]
    by_cases hp : p.1 = g
    · rw [if_pos hp, if_pos hp, ih', mem_append, mem_singleton, if_pos hp, scanLast_snoc]
      subst hp
      simp [scanFrom, scanLast_snoc]
    · rw [if_neg hp, if_neg hp, ih', mem_append, mem_singleton, if_neg hp, List.append_nil]

theorem groupedScan_isGroupedScan (f : Func) (l : AA) : IsGroupedScan f l (groupedScan f l) := by
  refine ⟨groupedScanFrom_length f [] l, fun g => ?_⟩
  simpa [seqScan, scanLast, groupedScan] using groupedScanFrom_members f [] l g

end Scan
end Flox
