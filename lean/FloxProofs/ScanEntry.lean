/-
  C10, part 4: the entry point `groupby_scan` (shortcuts, reverse for bfill, chunk splitting).
-/
import FloxProofs.ScanChunked

namespace Flox
namespace Scan

theorem splitBlocks_length (cs : List Nat) (l : AA) : (splitBlocks cs l).length = cs.length := by
  induction cs generalizing l with
  | nil => rfl
  | cons c r ih => simp [splitBlocks, ih]

theorem splitBlocks_flatten (cs : List Nat) (l : AA) (h : l.length ≤ cs.sum) : (splitBlocks cs l).flatten = l := by
  induction cs generalizing l with
  | nil => simp at h; simp [splitBlocks, h]
  | cons c r ih =>
    simp only [splitBlocks, List.flatten_cons]
    rw [ih (l.drop c) (by simp at h ⊢; omega), List.take_append_drop]

theorem splitBlocks_sub (cs : List Nat) (l : AA) : ∀ b ∈ splitBlocks cs l, ∀ p ∈ b, p ∈ l := by
  induction cs generalizing l with
  | nil => simp [splitBlocks]
  | cons c r ih =>
    intro b hb p hp
    simp only [splitBlocks, List.mem_cons] at hb
    rcases hb with rfl | hb
    · exact List.mem_of_mem_take hp
    · exact List.mem_of_mem_drop (ih _ b hb p hp)

theorem good_sub {f : Func} {l b : AA} (h : Good f l) (hs : ∀ p ∈ b, p ∈ l) : Good f b :=
  fun hf p hp => h hf p (hs p hp)

/-- the shortcut `by_.shape[-1] == 1 or by_.shape == grp_shape` -/
def Shortcut (l : AA) : Prop := l.length = 1 ∨ l.length = ngroups l

/-- what the caller must supply for dask input: chunk sizes covering the array and bracketings of the right shape -/
def ChunksOK (chunks : Option (List Nat)) (trees : List BTree) (n : Nat) : Prop :=
  ∀ cs, chunks = some cs → cs.sum = n ∧ TreesOK trees cs.length

theorem eager_eq (f : Func) (l : AA) (h : Good f l) : vals (chunkScan f l) = groupedScan f l := first_block f l h

theorem chunked_eq (f : Func) (trees : List BTree) (cs : List Nat) (l : AA) (h : Good f l) (hsum : cs.sum = l.length)
    (ht : TreesOK trees cs.length) : scanChunked f trees (splitBlocks cs l) = groupedScan f l := by
  rw [scanChunked_eq f trees _ (fun b hb => good_sub h (splitBlocks_sub cs l b hb))
    (by rw [splitBlocks_length]; exact ht), splitBlocks_flatten cs l (by omega)]

theorem noInf_reverse {l : AA} (h : NoInf l) : NoInf l.reverse := fun p hp => h p (List.mem_reverse.mp hp)

theorem validTrees_ok (trees : List BTree) (nb : Nat) (hv : validTrees trees = true) (hn : nb ≤ trees.length + 1) :
    TreesOK trees nb := by
  intro i h0 hi
  have hlt : i - 1 < trees.length := by omega
  rw [List.getD_eq_getElem?_getD, List.getElem?_eq_getElem hlt]
  simp only [validTrees, List.all_eq_true] at hv
  have := hv (trees[i - 1], i - 1) (by
    rw [List.mem_zipIdx_iff_getElem?]; simp [List.getElem?_eq_getElem hlt])
  simp only [beq_iff_eq] at this
  rw [Option.getD_some, this]
  congr 1; omega

/-- the main path (no shortcut) -/
theorem groupbyScan_eq_spec_main (f : Func) (chunks : Option (List Nat)) (trees : List BTree) (l : AA)
    (hs : ¬ Shortcut l) (hg : Good f l) (hneg : f = .nancumsum → ∀ k ∈ keys l, 0 ≤ k)
    (hc : ChunksOK chunks trees l.length) :
    groupbyScan f true chunks trees l = .ok (spec f l) := by
  unfold groupbyScan
  have h1 : (isFill f && !true) = false := by simp
  rw [if_neg (by simp [h1]), if_neg (show ¬ (l.length = 1 ∨ l.length = ngroups l) from hs)]
  have h3 : ¬ ((!isFill f && (keys l).any (· < 0)) = true) := by
    cases f
    · have := hneg rfl
      simp only [isFill, Bool.not_false, Bool.true_and, List.any_eq_true, decide_eq_true_eq, not_exists, not_and]
      intro k hk; have := this k hk; omega
    all_goals simp [isFill]
  rw [if_neg h3]
  cases f
  · -- nancumsum
    have hne : ¬ (Func.nancumsum = Func.bfill) := by decide
    simp only [hne, if_false, spec]
    cases chunks with
    | none => simp only; rw [eager_eq _ _ hg]
    | some cs =>
      obtain ⟨hsum, ht⟩ := hc cs rfl
      simp only; rw [chunked_eq _ trees cs l hg hsum ht]
  · -- ffill
    have hne : ¬ (Func.ffill = Func.bfill) := by decide
    simp only [hne, if_false, spec]
    cases chunks with
    | none => simp only; rw [eager_eq _ _ hg]
    | some cs =>
      obtain ⟨hsum, ht⟩ := hc cs rfl
      simp only; rw [chunked_eq _ trees cs l hg hsum ht]
  · -- bfill
    simp only [if_true, spec, bfillSpec, revAA]
    have hg' : Good .bfill l.reverse := fun h => absurd h (by decide)
    cases chunks with
    | none =>
      simp only; rw [eager_eq _ _ hg']
      simp [groupedScan, groupedScanFrom_fill .bfill (by decide)]
    | some cs =>
      obtain ⟨hsum, ht⟩ := hc cs rfl
      simp only
      rw [chunked_eq _ trees cs.reverse l.reverse hg' (by simp [List.sum_reverse, hsum]) (by simpa using ht)]
      simp [groupedScan, groupedScanFrom_fill .bfill (by decide)]

/-! ### the branches outside the main path -/

theorem groupedScanFrom_noNaN (f : Func) (hf : f ≠ .nancumsum) (pre l : AA) (h : ∀ p ∈ l, p.2.isNaN = false) :
    groupedScanFrom f pre l = vals l := by
  induction l generalizing pre with
  | nil => rfl
  | cons p r ih =>
    simp only [groupedScanFrom, vals, List.map_cons]
    rw [scanLast_snoc, step_fill f hf, if_neg (by simp [h p List.mem_cons_self])]
    congr 1
    exact ih _ (fun q hq => h q (List.mem_cons_of_mem _ hq))

/-- integer / boolean data cannot hold NaN: returning the array untouched IS the fill -/
theorem groupbyScan_nonfloat_fill (f : Func) (hf : f ≠ .nancumsum) (chunks : Option (List Nat)) (trees : List BTree)
    (l : AA) (h : ∀ p ∈ l, p.2.isNaN = false) :
    groupbyScan f false chunks trees l = .ok (spec f l) := by
  have hi : isFill f = true := by cases f <;> simp_all [isFill]
  unfold groupbyScan
  rw [if_pos (by simp [hi])]
  cases f
  · exact absurd rfl hf
  · simp [spec, groupedScan, groupedScanFrom_noNaN .ffill (by decide) [] l h]
  · simp only [spec, bfillSpec, groupedScan]
    rw [groupedScanFrom_noNaN .ffill (by decide) [] l.reverse (fun p hp => h p (List.mem_reverse.mp hp))]
    simp [vals]

/-- with all labels distinct every element is alone in its group: a fill changes nothing (the shortcut is harmless for fills) -/
theorem groupedScanFrom_distinct (f : Func) (hf : f ≠ .nancumsum) (pre l : AA)
    (h : (keys (pre ++ l)).Nodup) : groupedScanFrom f pre l = vals l := by
  induction l generalizing pre with
  | nil => rfl
  | cons p r ih =>
    simp only [groupedScanFrom, vals, List.map_cons]
    have hp : p.1 ∉ keys pre := by
      rw [keys_append, List.nodup_append] at h
      intro hm
      exact h.2.2 _ hm _ (by simp [keys]) rfl
    rw [mem_eq_nil_of_not_mem_keys _ _ hp, List.nil_append]
    have : scanLast f [p.2] = p.2 := by
      simp only [scanLast, List.foldl_cons, List.foldl_nil, step_fill f hf, init_fill f hf]
      cases p.2 <;> simp [Val.isNaN]
    rw [this]
    congr 1
    exact ih (pre ++ [p]) (by simpa using h)

/-! ### the shortcut `by_.shape[-1] == 1 or by_.shape == grp_shape` -/

def StrictSorted (s : List Int) : Prop := s.Pairwise (· < ·)

theorem insertUniq_length_le (a : Int) (s : List Int) : (insertUniq a s).length ≤ s.length + 1 := by
  induction s with
  | nil => simp [insertUniq]
  | cons k ks ih =>
    simp only [insertUniq]
    split
    · simp
    · split
      · simp
      · simp; omega

theorem insertUniq_length_of_mem (a : Int) (s : List Int) (hs : StrictSorted s) (ha : a ∈ s) :
    (insertUniq a s).length = s.length := by
  induction s with
  | nil => simp at ha
  | cons k ks ih =>
    have hks : StrictSorted ks := (List.pairwise_cons.mp hs).2
    have hk := (List.pairwise_cons.mp hs).1
    simp only [insertUniq]
    by_cases h1 : a < k
    · exfalso
      rcases List.mem_cons.mp ha with rfl | h
      · omega
      · have := hk a h; omega
    · rw [if_neg h1]
      by_cases h2 : a = k
      · rw [if_pos h2]
      · rw [if_neg h2]
        have : a ∈ ks := by
          rcases List.mem_cons.mp ha with h | h
          · exact absurd h h2
          · exact h
        simp [ih hks this]

theorem insertUniq_sorted (a : Int) (s : List Int) (hs : StrictSorted s) : StrictSorted (insertUniq a s) := by
  induction s with
  | nil => simp [insertUniq, StrictSorted]
  | cons k ks ih =>
    have hks : StrictSorted ks := (List.pairwise_cons.mp hs).2
    have hk := (List.pairwise_cons.mp hs).1
    simp only [insertUniq]
    by_cases h1 : a < k
    · rw [if_pos h1]
      refine List.pairwise_cons.mpr ⟨?_, hs⟩
      intro x hx
      rcases List.mem_cons.mp hx with rfl | hx
      · exact h1
      · have := hk x hx; omega
    · rw [if_neg h1]
      by_cases h2 : a = k
      · rw [if_pos h2]; exact hs
      · rw [if_neg h2]
        refine List.pairwise_cons.mpr ⟨?_, ih hks⟩
        intro x hx
        rcases (mem_insertUniq x a ks).mp hx with rfl | hx
        · omega
        · exact hk x hx

theorem uniq_sorted (l : List Int) : StrictSorted (uniq l) := by
  induction l with
  | nil => simp [uniq, StrictSorted]
  | cons a r ih => exact insertUniq_sorted a _ ih

theorem uniq_length_le (l : List Int) : (uniq l).length ≤ l.length := by
  induction l with
  | nil => simp [uniq]
  | cons a r ih =>
    have : uniq (a :: r) = insertUniq a (uniq r) := rfl
    rw [this]
    have := insertUniq_length_le a (uniq r)
    simp; omega

theorem nodup_of_uniq_length (l : List Int) (h : (uniq l).length = l.length) : l.Nodup := by
  induction l with
  | nil => simp
  | cons a r ih =>
    have hu : uniq (a :: r) = insertUniq a (uniq r) := rfl
    rw [hu] at h
    simp only [List.length_cons] at h
    have h1 := insertUniq_length_le a (uniq r)
    have h2 := uniq_length_le r
    have hr : (uniq r).length = r.length := by omega
    have ha : a ∉ r := by
      intro hm
      have := insertUniq_length_of_mem a (uniq r) (uniq_sorted r) ((mem_uniq a r).mpr hm)
      omega
    exact List.nodup_cons.mpr ⟨ha, ih hr⟩

/-- whenever the shortcut is taken, every element is alone in its group -/
theorem shortcut_nodup (l : AA) (h : Shortcut l) : (keys l).Nodup := by
  rcases h with h | h
  · match l, h with
    | [p], _ => simp [keys]
  · unfold ngroups at h
    have h1 := uniq_length_le ((keys l).filter (· ≥ 0))
    have h2 : ((keys l).filter (· ≥ 0)).length ≤ (keys l).length := List.length_filter_le _ _
    have h3 : (keys l).length = l.length := keys_length l
    have hf : (keys l).filter (· ≥ 0) = keys l := by
      apply List.filter_eq_self.mpr
      have : ((keys l).filter (· ≥ 0)).length = (keys l).length := by omega
      exact List.length_filter_eq_length_iff.mp this
    rw [hf] at h h1
    exact nodup_of_uniq_length _ (by omega)

theorem groupedScanFrom_distinct_cumsum (pre l : AA) (h : (keys (pre ++ l)).Nodup) :
    groupedScanFrom .nancumsum pre l = vals (nanToZero l) := by
  induction l generalizing pre with
  | nil => rfl
  | cons p r ih =>
    simp only [groupedScanFrom, vals, nanToZero, List.map_cons]
    have hp : p.1 ∉ keys pre := by
      rw [keys_append, List.nodup_append] at h
      intro hm
      exact h.2.2 _ hm _ (by simp [keys]) rfl
    rw [mem_eq_nil_of_not_mem_keys _ _ hp, List.nil_append]
    have : scanLast .nancumsum [p.2] = if p.2.isNaN then Val.zero else p.2 := by
      simp only [scanLast, List.foldl_cons, List.foldl_nil, step, init]
      exact Val.add_zero_left _
    rw [this]
    congr 1
    have := ih (pre ++ [p]) (by simpa using h)
    simpa [vals, nanToZero] using this

/-- the early return is correct: with every element alone in its group a fill changes nothing and nancumsum only turns
    NaN into 0 -/
theorem shortcut_eq_spec (f : Func) (l : AA) (h : Shortcut l) :
    (if f = .nancumsum ∧ true = true then vals (nanToZero l) else vals l) = spec f l := by
  have hn := shortcut_nodup l h
  cases f
  · simp only [and_self, if_true, spec, groupedScan]
    exact (groupedScanFrom_distinct_cumsum [] l (by simpa using hn)).symm
  · have hne : ¬ (Func.ffill = Func.nancumsum ∧ true = true) := by simp
    rw [if_neg hne]
    exact (groupedScanFrom_distinct .ffill (by decide) [] l (by simpa using hn)).symm
  · have hne : ¬ (Func.bfill = Func.nancumsum ∧ true = true) := by simp
    rw [if_neg hne]
    simp only [spec, bfillSpec, groupedScan]
    rw [groupedScanFrom_distinct .ffill (by decide) [] l.reverse (by
      have : keys (([] : AA) ++ l.reverse) = (keys l).reverse := by simp [keys]
      rw [this]
      exact ((List.reverse_perm (keys l)).nodup_iff).mpr hn)]
    simp [vals]

/-- **groupby_scan = specification** for float data; for nancumsum without `±inf` and without missing labels -/
theorem groupbyScan_eq_spec (f : Func) (chunks : Option (List Nat)) (trees : List BTree) (l : AA)
    (hg : Good f l) (hneg : f = .nancumsum → ∀ k ∈ keys l, 0 ≤ k)
    (hc : ChunksOK chunks trees l.length) :
    groupbyScan f true chunks trees l = .ok (spec f l) := by
  by_cases hs : Shortcut l
  · unfold groupbyScan
    have h1 : (isFill f && !true) = false := by simp
    rw [if_neg (by simp [h1]), if_pos (show l.length = 1 ∨ l.length = ngroups l from hs)]
    congr 1
    exact shortcut_eq_spec f l hs
  · exact groupbyScan_eq_spec_main f chunks trees l hs hg hneg hc

end Scan
end Flox
