/-
  G2 (continued): the PAIR LAW for the REPAIRED arg-reduction blueprints.

  After the repair of the library the blueprints are (float data)

      argmax    : chunk [max, argmax]       combine [max, argmax]       fills [-inf, 0]
      argmin    : chunk [min, argmin]       combine [min, argmin]       fills [+inf, 0]
      nanargmax : chunk [nanmax, nanargmax] combine [nanmax, nanargmax] fills [nan, 0]
      nanargmin : chunk [nanmin, nanargmin] combine [nanmin, nanargmin] fills [nan, 0]

  i.e. the combine runs the SAME kernels as the chunk stage, and a block in which a label is all-NaN contributes the
  value NaN, which the NaN-skipping combine ignores.  `blockPairN` is what both stages compute from the (value, index)
  pairs of one label.  `pairLawN` is the pair law WITHOUT the `HArgFill` hypothesis of `pairLaw_nanarg`.
-/
import FloxProofs.ArgReduce

namespace Flox.Grp

/-- intermediate fill of the value column in the repaired blueprints -/
def argFillN : Kernel → Val
  | .argmax => Val.ninf
  | .argmin => Val.pinf
  | _ => Val.nan

/-- what the chunk stage AND the combine stage of the repaired blueprints compute from the (value, index) pairs `ps`
    of one label: (value column, index column); `junk` is the index stored when nothing can be selected -/
def blockPairN (k : Kernel) (junk : Val) (ps : List VI) : VI :=
  (blockVal (argChunkVal k) (argFillN k) (ps.map (·.1)), argPick k junk ps)

theorem isArgKernel_cases {k : Kernel} (h : isArgKernel k = true) :
    (k = .argmax ∨ k = .argmin) ∨ (k = .nanargmax ∨ k = .nanargmin) := by
  cases k <;> simp [isArgKernel] at h ⊢

theorem blockPairN_noskip (k : Kernel) (hk : k = .argmax ∨ k = .argmin) (junk : Val) (ps : List VI) :
    blockPairN k junk ps = blockPair k junk ps := by
  rcases hk with rfl | rfl <;> rfl

theorem combinePair_eq_blockPair (k : Kernel) (hk : k = .argmax ∨ k = .argmin) (junk : Val) (ps : List VI) :
    combinePair k junk ps = blockPair k junk ps := by
  rcases hk with rfl | rfl <;> rfl

/-- `nanarg*`: the leftmost extreme among the valid members; (NaN, `junk`) when there is no valid member -/
theorem blockPairN_skip (k : Kernel) (hk : k = .nanargmax ∨ k = .nanargmin) (junk : Val) (ps : List VI) :
    blockPairN k junk ps = if validP ps = [] then (Val.nan, junk) else pick1 (argCmbArg k) (validP ps) := by
  have h1 : isArgKernel k = true := by rcases hk with rfl | rfl <;> rfl
  have h2 : k.skipsNaN = true := by rcases hk with rfl | rfl <;> rfl
  by_cases hv : validP ps = []
  · rw [if_pos hv]
    have hd : dropNaN (ps.map (·.1)) = [] := by rw [dropNaN_map_fst, hv]; rfl
    unfold blockPairN
    rw [argPick_skip k h1 h2, if_pos hv]
    congr 1
    rcases hk with rfl | rfl <;>
      simp [blockVal, argChunkVal, argFillN, Kernel.skipsNaN, hd, allNaNVal]
  · rw [if_neg hv]
    have hd : dropNaN (ps.map (·.1)) ≠ [] := by
      rw [dropNaN_map_fst]; simpa using hv
    have : blockPairN k junk ps = blockPair k junk ps := by
      unfold blockPairN blockPair
      rw [EngineFlox.blockVal_valid _ _ _ hd, EngineFlox.blockVal_valid _ _ _ hd]
    rw [this, blockPair_skip k hk, if_neg hv]

/-- for `nanarg*` NaN members never win: the leftmost best of all pairs is the leftmost best of the valid ones -/
theorem pick1_validP (k : Kernel) (hk : k = .nanargmax ∨ k = .nanargmin) (ps : List VI) (hv : validP ps ≠ []) :
    pick1 k (validP ps) = pick1 k ps := by
  induction ps with
  | nil => exact absurd rfl hv
  | cons p ps ih =>
    by_cases hps : ps = []
    · subst hps
      by_cases hp : p.1.isNaN = true
      · exfalso; apply hv; simp [validP, hp]
      · simp [validP, hp]
    · rw [pick1_cons k p ps hps]
      by_cases hp : p.1.isNaN = true
      · have hvp : validP (p :: ps) = validP ps := by simp [validP, hp]
        rw [hvp] at hv ⊢
        rw [ih hv]
        have hmem : pick1 k ps ∈ validP ps := by rw [← ih hv]; exact pick1_mem k _ hv
        have hnn := validP_nonNaN ps _ hmem
        symm
        apply pickOp_of_better
        rcases hk with rfl | rfl <;> simp [argBetter, hp, hnn]
      · have hp' : p.1.isNaN = false := by simpa using hp
        have hvp : validP (p :: ps) = p :: validP ps := by simp [validP, hp']
        rw [hvp]
        by_cases hv' : validP ps = []
        · rw [hv', pick1_singleton]
          symm
          apply pickOp_of_not_better
          have hmem := pick1_mem k ps hps
          have hnan : (pick1 k ps).1.isNaN = true := by
            have hall : ∀ q ∈ ps, q.1.isNaN = true := by
              intro q hq
              have : q ∉ validP ps := by rw [hv']; simp
              simp only [validP, List.mem_filter, hq, true_and, Bool.not_eq_true', Bool.not_eq_false] at this
              exact this
            exact hall _ hmem
          have hx : (pick1 k ps).1 = Val.nan := by
            cases hq : (pick1 k ps).1 <;> simp [hq, Val.isNaN] at hnan ⊢
          rw [hx]
          rcases hk with rfl | rfl <;>
            simp [argBetter, Val.lt_nan_left, Val.lt_nan_right, Val.isNaN]
        · rw [pick1_cons k p _ hv', ih hv']

theorem isArg_skip_cases {k : Kernel} (hk : isArgKernel k = true) :
    (k.skipsNaN = false ∧ (k = .argmax ∨ k = .argmin)) ∨ (k.skipsNaN = true ∧ (k = .nanargmax ∨ k = .nanargmin)) := by
  cases k <;> simp [isArgKernel, Kernel.skipsNaN] at hk ⊢

/-- the pairs of a label from which the arg kernel can select: any member (`arg*`), a valid member (`nanarg*`) -/
def goodP (k : Kernel) (ps : List VI) : Prop := if k.skipsNaN then validP ps ≠ [] else ps ≠ []

instance (k : Kernel) (ps : List VI) : Decidable (goodP k ps) := by unfold goodP; infer_instance

theorem goodP_ne_nil {k : Kernel} {ps : List VI} (h : goodP k ps) : ps ≠ [] := by
  unfold goodP at h
  split at h
  · intro e; subst e; exact h rfl
  · exact h

/-- on a label with a selectable member both columns are those of the leftmost best pair -/
theorem blockPairN_good (k : Kernel) (hk : isArgKernel k = true) (junk : Val) (ps : List VI) (hg : goodP k ps) :
    blockPairN k junk ps = pick1 k ps := by
  rcases isArg_skip_cases hk with ⟨hs, hk'⟩ | ⟨hs, hk'⟩
  · have hne : ps ≠ [] := by simpa [goodP, hs] using hg
    rw [blockPairN_noskip k hk', blockPair_noskip k hk' junk ps hne]
  · have hv : validP ps ≠ [] := by simpa [goodP, hs] using hg
    rw [blockPairN_skip k hk', if_neg hv, ← pick1_nan_eq k hk' _ (validP_nonNaN ps), pick1_validP k hk' ps hv]

/-- the index column on a label with a selectable member: the index paired with the first occurrence of the extreme
    (`argBest` on the values – exactly what NumPy's `arg*` / `nanarg*` return) -/
theorem argPick_good (k : Kernel) (hk : isArgKernel k = true) (junk : Val) (ps : List VI) (hg : goodP k ps) :
    argPick k junk ps = (ps.getD (argBest (argBetter k) (ps.map (·.1))) (Val.nan, Val.nan)).2 := by
  have := congrArg Prod.snd (blockPairN_good k hk junk ps hg)
  rw [getD_argBest k ps _ (goodP_ne_nil hg)]
  exact this

/-- **PAIR LAW for the repaired blueprints** (all four arg-reductions, NO hypothesis on the data), indexed form:
    running the same (value, arg) kernels over the per-block pairs, in block order, gives the pair of the concatenated
    members.  For `nanarg*`, blocks without a valid member contribute (NaN, junk), which the NaN-skipping combine
    drops.  (`bs` = the blocks in which the label occurs, `P b` = the label's (value, index) pairs in block `b`,
    `J b` = the junk index of block `b`.) -/
theorem pairLawN_indexed {β} (k : Kernel) (hk : isArgKernel k = true) (bs : List β) (P : β → List VI) (J : β → Val)
    (junkC : Val) (hne : bs ≠ []) (hall : ∀ b ∈ bs, P b ≠ []) :
    blockPairN k junkC (bs.map fun b => blockPairN k (J b) (P b)) = blockPairN k junkC (bs.map P).flatten := by
  rcases isArg_skip_cases hk with ⟨hs, hk'⟩ | ⟨hs, hk'⟩
  · have hgood : ∀ ps : List VI, ps ≠ [] → goodP k ps := by
      intro ps h; simpa [goodP, hs] using h
    have hm : (bs.map fun b => blockPairN k (J b) (P b)) = (bs.map P).map (pick1 k) := by
      rw [List.map_map]
      apply List.map_congr_left
      intro b hb
      exact blockPairN_good k hk _ _ (hgood _ (hall b hb))
    have hne' : bs.map P ≠ [] := by simpa using hne
    have hall' : ∀ ps ∈ bs.map P, ps ≠ [] := by
      intro ps hps
      obtain ⟨b, hb, rfl⟩ := List.mem_map.mp hps
      exact hall b hb
    have hfl : (bs.map P).flatten ≠ [] := by
      obtain ⟨ps, hps⟩ := List.exists_mem_of_ne_nil _ hne'
      obtain ⟨q, hq⟩ := List.exists_mem_of_ne_nil _ (hall' ps hps)
      intro h
      have : q ∈ (bs.map P).flatten := List.mem_flatten.mpr ⟨ps, hps, hq⟩
      rw [h] at this; simp at this
    rw [hm, blockPairN_good k hk _ _ (hgood _ (by simpa using hne')), blockPairN_good k hk _ _ (hgood _ hfl),
      pick1_flatten k _ hne' hall']
  · let c := argCmbArg k
    let F : β → VI := fun b => blockPairN k (J b) (P b)
    let good : β → Bool := fun b => !(validP (P b)).isEmpty
    have hF : ∀ b, F b = if validP (P b) = [] then (Val.nan, J b) else pick1 c (validP (P b)) :=
      fun b => blockPairN_skip k hk' _ _
    -- the valid block pairs are the winners of the blocks that have a valid member
    have hvalid : validP (bs.map F) = ((bs.filter good).map fun b => validP (P b)).map (pick1 c) := by
      clear hne hall
      induction bs with
      | nil => rfl
      | cons b bs ih =>
        by_cases hv : validP (P b) = []
        · have hg : good b = false := by simp [good, hv]
          have hnan : (F b).1.isNaN = true := by rw [hF, if_pos hv]; rfl
          simp only [List.map_cons, List.filter_cons, hg, Bool.false_eq_true, if_false]
          rw [← ih]
          simp [validP, hnan]
        · have hg : good b = true := by simp [good, hv]
          have hFv : F b = pick1 c (validP (P b)) := by rw [hF, if_neg hv]
          have hnn : (F b).1.isNaN = false := by
            rw [hFv]; exact validP_nonNaN _ _ (pick1_mem _ _ hv)
          simp only [List.map_cons, List.filter_cons, hg, if_true]
          rw [← ih, ← hFv]
          simp [validP, hnn]
    have hflat : ((bs.filter good).map fun b => validP (P b)).flatten = validP (bs.map P).flatten := by
      rw [validP_flatten, List.map_map, flatten_map_filter bs good (fun b => validP (P b))]
      · rfl
      · intro b _ hg
        simpa [good] using hg
    show blockPairN k junkC (bs.map F) = _
    rw [blockPairN_skip k hk', blockPairN_skip k hk', hvalid, ← hflat]
    by_cases hgood : bs.filter good = []
    · simp [hgood]
    · have h1 : ((bs.filter good).map fun b => validP (P b)).map (pick1 c) ≠ [] := by simpa using hgood
      have h2 : ((bs.filter good).map fun b => validP (P b)).flatten ≠ [] := by
        obtain ⟨b, hb⟩ := List.exists_mem_of_ne_nil _ hgood
        have hv : validP (P b) ≠ [] := by
          have := (List.mem_filter.mp hb).2
          simpa [good] using this
        obtain ⟨q, hq⟩ := List.exists_mem_of_ne_nil _ hv
        intro h
        have : q ∈ ((bs.filter good).map fun b => validP (P b)).flatten :=
          List.mem_flatten.mpr ⟨validP (P b), List.mem_map.mpr ⟨b, hb, rfl⟩, hq⟩
        rw [h] at this; simp at this
      rw [if_neg h1, if_neg h2]
      exact pick1_flatten c _ (by simpa using hgood) (by
        intro q hq
        obtain ⟨b, hb, rfl⟩ := List.mem_map.mp hq
        have := (List.mem_filter.mp hb).2
        simpa [good] using this)

/-- the pair law in the form of `pairLaw_arg` / `pairLaw_nanarg` (but WITHOUT `HArgFill`) -/
theorem pairLawN (k : Kernel) (hk : isArgKernel k = true) (junkB : List VI → Val) (junkC : Val)
    (pss : List (List VI)) (hne : pss ≠ []) (hall : ∀ ps ∈ pss, ps ≠ []) :
    blockPairN k junkC (pss.map fun ps => blockPairN k (junkB ps) ps) = blockPairN k junkC pss.flatten := by
  have := pairLawN_indexed k hk pss id junkB junkC hne hall
  simpa using this

/-- `argBest` returns a position of the list -/
theorem argBest_go_lt (better : Val → Val → Bool) (best : Val) (bi i : Nat) (ys : List Val) (h : bi < i) :
    argBest.go better best bi i ys < i + ys.length := by
  induction ys generalizing best bi i with
  | nil => simpa [argBest.go] using h
  | cons y ys ih =>
    simp only [argBest.go, List.length_cons]
    split
    · have := ih y i (i + 1) (by omega); omega
    · have := ih best bi (i + 1) (by omega); omega

theorem argBest_lt (better : Val → Val → Bool) (xs : List Val) (h : xs ≠ []) : argBest better xs < xs.length := by
  cases xs with
  | nil => exact absurd rfl h
  | cons x xs =>
    have := argBest_go_lt better x 0 1 xs (by omega)
    simp only [argBest, List.length_cons]
    omega

end Flox.Grp
