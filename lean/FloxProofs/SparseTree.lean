/-
  `_simple_combine` with `reindex=False` (`simpleCombine R false`): inputs are first reindexed to the sorted union of
  their groups (intermediate fills for absent keys), then reduced pointwise.  On sparse intermediates of aligned
  segments the result is the sparse intermediate of the concatenated segment – for every tree shape.
-/
import FloxProofs.SparseBlock

namespace Flox

/-! ### `lookupKey`, `reindexCol` on functional columns -/

theorem lookupKey_eq_none_iff (g : Key) (G : List Key) : lookupKey g G = none ↔ g ∉ G := by
  induction G with
  | nil => simp [lookupKey]
  | cons h t ih =>
    unfold lookupKey
    by_cases e : h = g
    · simp [e]
    · have e' : ¬ g = h := fun x => e x.symm
      simp [e, e', ih]

theorem lookupKey_eq_some (g : Key) (G : List Key) (i : Nat) (h : lookupKey g G = some i) :
    ∃ hi : i < G.length, G[i] = g := by
  induction G generalizing i with
  | nil => simp [lookupKey] at h
  | cons x t ih =>
    unfold lookupKey at h
    by_cases e : x = g
    · simp only [e, if_true, Option.some.injEq] at h
      subst h
      exact ⟨by simp, by simpa using e⟩
    · simp only [e, if_false] at h
      cases hh : lookupKey g t with
      | none => simp [hh] at h
      | some j =>
        simp only [hh, Option.map_some, Option.some.injEq] at h
        subst h
        obtain ⟨hj, hj'⟩ := ih j hh
        exact ⟨by simpa using hj, by simpa using hj'⟩

theorem mapM_option_some {α β} (f : α → β) (l : List α) : l.mapM (fun a => some (f a)) = some (l.map f) := by
  induction l with
  | nil => rfl
  | cons a l ih => simp [List.mapM_cons, ih]

theorem mapM_option_congr {α β} (f g : α → Option β) (l : List α) (h : ∀ a ∈ l, f a = g a) :
    l.mapM f = l.mapM g := by
  induction l with
  | nil => rfl
  | cons a l ih =>
    simp only [List.mapM_cons]
    rw [h a (by simp), ih (fun b hb => h b (by simp [hb]))]

/-- reindexing a column that is a function of its key, with a fill that is the function's value off the keys -/
theorem reindexCol_fun (G T : List Key) (φ : Key → Val) (f : Val) (hφ : ∀ κ, κ ∉ G → φ κ = f) :
    reindexCol (G.map φ) G T (some f) = some (T.map φ) := by
  unfold reindexCol
  by_cases hG : G.isEmpty = true
  · have : G = [] := List.isEmpty_iff.mp hG
    subst this
    simp only [List.isEmpty_nil, if_true, Option.getD_some, Option.some.injEq]
    apply List.map_congr_left
    intro κ _
    exact (hφ κ (by simp)).symm
  · simp only [hG, Bool.false_eq_true, if_false]
    by_cases hGT : G = T
    · simp [hGT]
    · simp only [hGT, if_false]
      rw [← mapM_option_some]
      apply mapM_option_congr
      intro g _
      cases hl : lookupKey g G with
      | none =>
        simp only
        rw [hφ g ((lookupKey_eq_none_iff g G).mp hl)]
      | some i =>
        obtain ⟨hi, hgi⟩ := lookupKey_eq_some g G i hl
        simp only [Option.some.injEq]
        rw [List.getD_eq_getElem?_getD, List.getElem?_eq_getElem (by simpa using hi)]
        simp [hgi]

/-! ### annotated segments -/

/-- a segment of the data together with the group list of its intermediate -/
abbrev ASeg := List Key × (List Int × List Val)

/-- every code of the segment is a group -/
def Covers (a : ASeg) : Prop := ∀ c ∈ a.2.1, (some ((c : Int) : Rat) : Key) ∈ a.1

/-- every group is the key of a code of the segment (or `none`, only for a segment without elements) -/
def Exact (a : ASeg) : Prop := ∀ κ ∈ a.1, (κ = none ∧ a.2.1 = []) ∨ ∃ c ∈ a.2.1, κ = some ((c : Int) : Rat)

def spNode (R : Resolved) (a : ASeg) : Inter := spInter R.chunk R.interFills a.1 a.2.1 a.2.2

theorem keyMembers_eq_nil_of_not_mem (a : ASeg) (hcov : Covers a) (κ : Key) (hκ : κ ∉ a.1) :
    keyMembers κ a.2.1 a.2.2 = [] := by
  cases κ with
  | none => rfl
  | some r =>
    unfold keyMembers
    by_cases hd : r.den = 1
    · simp only [hd, if_true]
      apply members_eq_nil_of_ne
      intro c hc e
      apply hκ
      have hr : ((r.num : Int) : Rat) = r := Rat.ext rfl hd.symm
      have := hcov c hc
      rwa [e, hr] at this
    · simp [hd]

/-- reindexing a sparse intermediate (with the intermediate fills) to any group list `T` -/
theorem reindexInter_spInter (ks : List Kernel) (fills : List Val) (T : List Key) (a : ASeg) (hcov : Covers a) :
    reindexInter fills T (spInter ks fills a.1 a.2.1 a.2.2) = spInter ks fills T a.2.1 a.2.2 := by
  unfold reindexInter spInter fcols
  simp only
  congr 1
  apply List.ext_getElem
  · simp only [List.length_map, List.length_zip]; omega
  · intro j h1 h2
    have hjk : j < ks.length ∧ j < fills.length := by
      simp only [List.length_map, List.length_zip] at h2; omega
    have hj1 := hjk.1
    have hj2 := hjk.2
    simp only [List.getElem_map, List.getElem_zip]
    rw [reindexCol_fun a.1 T (fun κ => blockVal ks[j] fills[j] (keyMembers κ a.2.1 a.2.2)) fills[j]]
    · rfl
    · intro κ hκ
      show blockVal _ _ (keyMembers κ a.2.1 a.2.2) = _
      rw [keyMembers_eq_nil_of_not_mem a hcov κ hκ]
      rfl

/-! ### merging -/

def mergeGroups (Gs : List (List Key)) : List Key :=
  let pres := uniqSorted (presentKeys Gs.flatten)
  if pres.isEmpty then [none] else pres.map some

def mergeSeg (grp : List ASeg) : ASeg :=
  (mergeGroups (grp.map (·.1)), (catC (grp.map (·.2)), catV (grp.map (·.2))))

theorem uniqueGroups_spNodes (R : Resolved) (grp : List ASeg) :
    uniqueGroups (grp.map (spNode R)) = mergeGroups (grp.map (·.1)) := by
  unfold uniqueGroups mergeGroups
  have : (grp.map (spNode R)).flatMap (·.groups) = (grp.map (·.1)).flatten := by
    rw [List.flatMap_def, List.map_map]
    rfl
  rw [this]

theorem mem_presentKeys (r : Rat) (ks : List Key) : r ∈ presentKeys ks ↔ some r ∈ ks := by
  simp [presentKeys]

theorem mem_mergeGroups_some (r : Rat) (Gs : List (List Key)) :
    some r ∈ mergeGroups Gs ↔ ∃ G ∈ Gs, some r ∈ G := by
  unfold mergeGroups
  simp only
  by_cases hp : (uniqSorted (presentKeys Gs.flatten)).isEmpty = true
  · have hnil : uniqSorted (presentKeys Gs.flatten) = [] := List.isEmpty_iff.mp hp
    simp only [hp, if_true, List.mem_singleton, reduceCtorEq, false_iff]
    rintro ⟨G, hG, hr⟩
    have : r ∈ uniqSorted (presentKeys Gs.flatten) := by
      rw [mem_uniqSorted, mem_presentKeys]
      exact List.mem_flatten.mpr ⟨G, hG, hr⟩
    rw [hnil] at this
    simp at this
  · simp only [hp, Bool.false_eq_true, if_false, List.mem_map, Option.some.injEq, exists_eq_right,
      mem_uniqSorted, mem_presentKeys, List.mem_flatten]

theorem mem_catC (c : Int) (segs : Segs) : c ∈ catC segs ↔ ∃ p ∈ segs, c ∈ p.1 := by
  simp [catC, List.mem_flatten]

theorem mergeSeg_covers (grp : List ASeg) (hcov : ∀ a ∈ grp, Covers a) : Covers (mergeSeg grp) := by
  intro c hc
  simp only [mergeSeg] at hc ⊢
  obtain ⟨p, hp, hcp⟩ := (mem_catC c _).mp hc
  obtain ⟨a, ha, rfl⟩ := List.mem_map.mp hp
  rw [mem_mergeGroups_some]
  exact ⟨a.1, List.mem_map.mpr ⟨a, ha, rfl⟩, hcov a ha c hcp⟩

theorem mergeSeg_exact (grp : List ASeg) (hcov : ∀ a ∈ grp, Covers a) (hex : ∀ a ∈ grp, Exact a) :
    Exact (mergeSeg grp) := by
  intro κ hκ
  simp only [mergeSeg] at hκ ⊢
  cases κ with
  | none =>
    left
    refine ⟨rfl, ?_⟩
    -- `none` is a group only when no key is present at all
    unfold mergeGroups at hκ
    simp only at hκ
    by_cases hp : (uniqSorted (presentKeys ((grp.map (·.1)).flatten))).isEmpty = true
    · have hnil : uniqSorted (presentKeys ((grp.map (·.1)).flatten)) = [] := List.isEmpty_iff.mp hp
      apply List.eq_nil_iff_forall_not_mem.mpr
      intro c hc
      obtain ⟨p, hp', hcp⟩ := (mem_catC c _).mp hc
      obtain ⟨a, ha, rfl⟩ := List.mem_map.mp hp'
      have : ((c : Int) : Rat) ∈ uniqSorted (presentKeys ((grp.map (·.1)).flatten)) := by
        rw [mem_uniqSorted, mem_presentKeys]
        exact List.mem_flatten.mpr ⟨a.1, List.mem_map.mpr ⟨a, ha, rfl⟩, hcov a ha c hcp⟩
      rw [hnil] at this
      simp at this
    · simp [hp] at hκ
  | some r =>
    right
    obtain ⟨G, hG, hr⟩ := (mem_mergeGroups_some r _).mp hκ
    obtain ⟨a, ha, rfl⟩ := List.mem_map.mp hG
    rcases hex a ha (some r) hr with ⟨h, _⟩ | ⟨c, hc, e⟩
    · cases h
    · exact ⟨c, (mem_catC c _).mpr ⟨a.2, List.mem_map.mpr ⟨a, ha, rfl⟩, hc⟩, e⟩

/-! ### one combine -/

theorem colAt_spInter (ks : List Kernel) (fills : List Val) (T : List Key) (codes : List Int) (vals : List Val)
    (j gi : Nat) (hj : j < ks.length) (hk : ks.length = fills.length) (hgi : gi < T.length) :
    (colAt (spInter ks fills T codes vals) j).getD gi Val.nan
      = blockVal ks[j] (fills[j]'(by omega)) (keyMembers T[gi] codes vals) := by
  have hz : j < (ks.zip fills).length := by simp only [List.length_zip]; omega
  simp only [colAt, spInter, fcols, List.getD_eq_getElem?_getD, List.getElem?_map]
  rw [List.getElem?_eq_getElem hz]
  simp [hgi]

theorem simpleCombine_spNodes (R : Resolved) (grp : List ASeg) (hne : grp ≠ [])
    (hal : Aligned (grp.map (·.2))) (hcov : ∀ a ∈ grp, Covers a)
    (hc : R.chunk.length = R.combine.length) (hf : R.chunk.length = R.interFills.length)
    (hlaw : ∀ j (hj : j < R.chunk.length),
      Law R.chunk[j] (R.combine[j]'(by omega)) (R.interFills[j]'(by omega))) :
    simpleCombine R false (grp.map (spNode R)) = spNode R (mergeSeg grp) := by
  unfold simpleCombine
  simp only [Bool.false_eq_true, if_false, uniqueGroups_spNodes]
  have hre : (grp.map (spNode R)).map (reindexInter R.interFills (mergeGroups (grp.map (·.1))))
      = grp.map fun a => spInter R.chunk R.interFills (mergeGroups (grp.map (·.1))) a.2.1 a.2.2 := by
    rw [List.map_map]
    apply List.map_congr_left
    intro a ha
    exact reindexInter_spInter R.chunk R.interFills _ a (hcov a ha)
  rw [hre]
  unfold spNode mergeSeg spInter
  simp only
  congr 1
  unfold fcols
  apply List.ext_getElem
  · simp only [List.length_mapIdx, List.length_map, List.length_zip]; omega
  · intro j h1 h2
    have hj : j < R.chunk.length := by simp only [List.length_mapIdx] at h1; omega
    simp only [List.getElem_mapIdx, List.getElem_map, List.getElem_zip]
    apply List.ext_getElem
    · simp
    · intro gi h3 h4
      have hgi : gi < (mergeGroups (grp.map (·.1))).length := by simpa using h3
      simp only [List.getElem_map, List.getElem_range]
      rw [keyMembers_cat _ _ hal, ← hlaw j hj _ (by simpa using hne)]
      show combineVal _ _ = _
      congr 1
      simp only [List.map_map]
      apply List.map_congr_left
      intro a _
      simp only [Function.comp]
      exact colAt_spInter R.chunk R.interFills _ a.2.1 a.2.2 j gi hj hf hgi

/-! ### the tree -/

theorem round_spNodes (R : Resolved) (k : Nat) (asegs : List ASeg)
    (hal : Aligned (asegs.map (·.2))) (hcov : ∀ a ∈ asegs, Covers a)
    (hc : R.chunk.length = R.combine.length) (hf : R.chunk.length = R.interFills.length)
    (hlaw : ∀ j (hj : j < R.chunk.length),
      Law R.chunk[j] (R.combine[j]'(by omega)) (R.interFills[j]'(by omega))) :
    (partitionAll k (asegs.map (spNode R))).map (simpleCombine R false)
      = ((partitionAll k asegs).map mergeSeg).map (spNode R) := by
  rw [partitionAll_map, List.map_map, List.map_map]
  apply List.map_congr_left
  intro grp hgrp
  simp only [Function.comp]
  exact simpleCombine_spNodes R grp (partitionAll_mem_ne_nil k asegs grp hgrp)
    (fun p hp => by
      obtain ⟨a, ha, rfl⟩ := List.mem_map.mp hp
      exact hal a.2 (List.mem_map.mpr ⟨a, partitionAll_mem_sub k asegs grp hgrp a ha, rfl⟩))
    (fun a ha => hcov a (partitionAll_mem_sub k asegs grp hgrp a ha)) hc hf hlaw

theorem merged_segs (k : Nat) (asegs : List ASeg) :
    ((partitionAll k asegs).map mergeSeg).map (·.2)
      = (partitionAll k (asegs.map (·.2))).map fun grp => (catC grp, catV grp) := by
  rw [partitionAll_map, List.map_map, List.map_map]
  rfl

/-- the invariant carried through the rounds of the tree -/
structure GoodSegs (asegs : List ASeg) (codes : List Int) (vals : List Val) : Prop where
  ne : asegs ≠ []
  aligned : Aligned (asegs.map (·.2))
  covers : ∀ a ∈ asegs, Covers a
  exact : ∀ a ∈ asegs, Exact a
  catC : catC (asegs.map (·.2)) = codes
  catV : catV (asegs.map (·.2)) = vals

theorem GoodSegs.round {asegs : List ASeg} {codes : List Int} {vals : List Val} (h : GoodSegs asegs codes vals)
    (k : Nat) : GoodSegs ((partitionAll k asegs).map mergeSeg) codes vals := by
  refine ⟨by simpa using partitionAll_ne_nil k asegs h.ne, ?_, ?_, ?_, ?_, ?_⟩
  · rw [merged_segs]; exact merged_aligned k _ h.aligned
  · intro a ha
    obtain ⟨grp, hgrp, rfl⟩ := List.mem_map.mp ha
    exact mergeSeg_covers grp (fun b hb => h.covers b (partitionAll_mem_sub k asegs grp hgrp b hb))
  · intro a ha
    obtain ⟨grp, hgrp, rfl⟩ := List.mem_map.mp ha
    exact mergeSeg_exact grp (fun b hb => h.covers b (partitionAll_mem_sub k asegs grp hgrp b hb))
      (fun b hb => h.exact b (partitionAll_mem_sub k asegs grp hgrp b hb))
  · rw [merged_segs, merged_catC, h.catC]
  · rw [merged_segs, merged_catV, h.catV]

theorem rounds_spNodes (R : Resolved) (k : Nat)
    (hc : R.chunk.length = R.combine.length) (hf : R.chunk.length = R.interFills.length)
    (hlaw : ∀ j (hj : j < R.chunk.length),
      Law R.chunk[j] (R.combine[j]'(by omega)) (R.interFills[j]'(by omega)))
    (l : List Nat) (asegs : List ASeg) (codes : List Int) (vals : List Val) (h : GoodSegs asegs codes vals) :
    ∃ asegs' : List ASeg, GoodSegs asegs' codes vals ∧
      l.foldl (fun cur _ => (partitionAll k cur).map (simpleCombine R false)) (asegs.map (spNode R))
        = asegs'.map (spNode R) := by
  induction l generalizing asegs with
  | nil => exact ⟨asegs, h, rfl⟩
  | cons _ l ih =>
    simp only [List.foldl_cons]
    rw [round_spNodes R k asegs h.aligned h.covers hc hf hlaw]
    exact ih _ (h.round k)

/-- tree reduction followed by the final combine, on sparse nodes: a sparse node of the whole data -/
theorem tree_spNodes (R : Resolved) (se : Nat)
    (hc : R.chunk.length = R.combine.length) (hf : R.chunk.length = R.interFills.length)
    (hlaw : ∀ j (hj : j < R.chunk.length),
      Law R.chunk[j] (R.combine[j]'(by omega)) (R.interFills[j]'(by omega)))
    (asegs : List ASeg) (codes : List Int) (vals : List Val) (h : GoodSegs asegs codes vals) :
    ∃ G : List Key, Covers (G, (codes, vals)) ∧ Exact (G, (codes, vals)) ∧ G ≠ [] ∧
      simpleCombine R false (treeReduce (simpleCombine R false) se (asegs.map (spNode R)))
        = spInter R.chunk R.interFills G codes vals := by
  unfold treeReduce
  obtain ⟨asegs', h', h5⟩ := rounds_spNodes R (Nat.max se 2) hc hf hlaw
    (List.range (ceilLog (Nat.max se 2) (asegs.map (spNode R)).length - 1)) asegs codes vals h
  simp only [h5]
  rw [simpleCombine_spNodes R asegs' h'.ne h'.aligned h'.covers hc hf hlaw]
  have hcov := mergeSeg_covers asegs' h'.covers
  have hex := mergeSeg_exact asegs' h'.covers h'.exact
  refine ⟨mergeGroups (asegs'.map (·.1)), ?_, ?_, ?_, ?_⟩
  · simpa [mergeSeg, h'.catC, h'.catV] using hcov
  · simpa [mergeSeg, h'.catC, h'.catV] using hex
  · unfold mergeGroups; simp only; split <;> simp_all
  · simp [spNode, mergeSeg, h'.catC, h'.catV]

end Flox
