/-
  Infrastructure for the sparse (not reindexed) intermediates used by `_grouped_combine`:
  `uniqSorted` / `uniqFirst` (what `factorize_` finds), `indexOf?`, member lists addressed by key (`membersK`),
  key segments, and `factorizeKeys … none sort`.
-/
import FloxProofs.EndToEnd

namespace Flox.Grp

/-! ### `insertSorted` / `uniqSorted` -/

theorem mem_insertSorted (x y : Rat) (l : List Rat) : y ∈ insertSorted x l ↔ y = x ∨ y ∈ l := by
  induction l with
  | nil => simp [insertSorted]
  | cons z zs ih =>
    simp only [insertSorted]
    split
    · simp
    · split
      · rename_i h1 h2; subst h2; simp
      · simp only [List.mem_cons, ih]
        constructor
        · rintro (h | h | h) <;> simp [h]
        · rintro (h | h | h) <;> simp [h]

theorem mem_uniqSorted (y : Rat) (l : List Rat) : y ∈ uniqSorted l ↔ y ∈ l := by
  induction l with
  | nil => simp [uniqSorted]
  | cons x xs ih =>
    have : uniqSorted (x :: xs) = insertSorted x (uniqSorted xs) := rfl
    rw [this, mem_insertSorted, ih]; simp

theorem pairwise_insertSorted (x : Rat) (l : List Rat) (h : l.Pairwise (· < ·)) :
    (insertSorted x l).Pairwise (· < ·) := by
  induction l with
  | nil => simp [insertSorted]
  | cons z zs ih =>
    have hz := List.pairwise_cons.mp h
    simp only [insertSorted]
    split
    · rename_i hxz
      refine List.pairwise_cons.mpr ⟨?_, h⟩
      intro a ha
      rcases List.mem_cons.mp ha with rfl | ha
      · exact hxz
      · have := hz.1 a ha; grind
    · split
      · exact h
      · rename_i h1 h2
        refine List.pairwise_cons.mpr ⟨?_, ih hz.2⟩
        intro a ha
        rcases (mem_insertSorted x a zs).mp ha with rfl | ha
        · grind
        · exact hz.1 a ha

theorem pairwise_uniqSorted (l : List Rat) : (uniqSorted l).Pairwise (· < ·) := by
  induction l with
  | nil => simp [uniqSorted]
  | cons x xs ih => exact pairwise_insertSorted x _ ih

/-- two strictly increasing lists with the same elements are equal -/
theorem sorted_ext (l₁ l₂ : List Rat) (h₁ : l₁.Pairwise (· < ·)) (h₂ : l₂.Pairwise (· < ·))
    (h : ∀ y, y ∈ l₁ ↔ y ∈ l₂) : l₁ = l₂ := by
  induction l₁ generalizing l₂ with
  | nil =>
    cases l₂ with
    | nil => rfl
    | cons b bs => exact absurd ((h b).mpr (by simp)) (by simp)
  | cons a as ih =>
    cases l₂ with
    | nil => exact absurd ((h a).mp (by simp)) (by simp)
    | cons b bs =>
      have ha := List.pairwise_cons.mp h₁
      have hb := List.pairwise_cons.mp h₂
      have hab : a = b := by
        have h1 : a ∈ b :: bs := (h a).mp (by simp)
        have h2 : b ∈ a :: as := (h b).mpr (by simp)
        rcases List.mem_cons.mp h1 with e | h1
        · exact e
        · rcases List.mem_cons.mp h2 with e | h2
          · exact e.symm
          · have := hb.1 a h1; have := ha.1 b h2; grind
      subst hab
      congr 1
      apply ih bs ha.2 hb.2
      intro y
      constructor
      · intro hy
        have := (h y).mp (by simp [hy])
        rcases List.mem_cons.mp this with e | h'
        · subst e; exact absurd (ha.1 y hy) (Rat.lt_irrefl)
        · exact h'
      · intro hy
        have := (h y).mpr (by simp [hy])
        rcases List.mem_cons.mp this with e | h'
        · subst e; exact absurd (hb.1 y hy) (Rat.lt_irrefl)
        · exact h'

theorem nodup_of_pairwise_lt (l : List Rat) (h : l.Pairwise (· < ·)) : l.Nodup := by
  unfold List.Nodup
  exact h.imp (fun hab e => by subst e; exact Rat.lt_irrefl hab)

/-! ### `uniqFirst` -/

/-- the fold step of `uniqFirst` -/
abbrev ufStep (acc : List Rat) (x : Rat) : List Rat := if acc.contains x then acc else acc ++ [x]

abbrev ufGo (acc xs : List Rat) : List Rat := xs.foldl ufStep acc

theorem uniqFirst_eq (xs : List Rat) : uniqFirst xs = ufGo [] xs := rfl

theorem mem_ufGo (y : Rat) (acc xs : List Rat) : y ∈ ufGo acc xs ↔ y ∈ acc ∨ y ∈ xs := by
  induction xs generalizing acc with
  | nil => simp
  | cons x xs ih =>
    simp only [ufGo, List.foldl_cons] at ih ⊢
    rw [ih]
    by_cases hx : acc.contains x = true
    · simp only [ufStep, hx, if_true, List.mem_cons]
      have : x ∈ acc := by simpa using hx
      constructor
      · rintro (h | h) <;> simp [h]
      · rintro (h | h | h) <;> simp_all
    · simp only [ufStep, hx, Bool.false_eq_true, if_false, List.mem_append, List.mem_cons, List.mem_nil_iff,
        or_false]
      constructor
      · rintro ((h | h) | h) <;> simp [h]
      · rintro (h | h | h) <;> simp [h]

theorem nodup_ufGo (acc xs : List Rat) (h : acc.Nodup) : (ufGo acc xs).Nodup := by
  induction xs generalizing acc with
  | nil => exact h
  | cons x xs ih =>
    simp only [ufGo, List.foldl_cons]
    apply ih
    by_cases hx : acc.contains x = true
    · have hx' : x ∈ acc := by simpa using hx
      simpa [ufStep, hx'] using h
    · simp only [ufStep, hx, Bool.false_eq_true, if_false]
      have : x ∉ acc := by simpa using hx
      exact List.nodup_append.mpr ⟨h, by simp, by intro a ha b hb; simp at hb; subst hb; intro e; subst e; exact this ha⟩

theorem ufGo_append (acc xs ys : List Rat) : ufGo acc (xs ++ ys) = ufGo (ufGo acc xs) ys := by
  simp [ufGo, List.foldl_append]

theorem ufGo_snoc (acc xs : List Rat) (x : Rat) : ufGo acc (xs ++ [x]) = ufStep (ufGo acc xs) x := by
  simp [ufGo, List.foldl_append]

theorem ufGo_ufStep (acc acc0 : List Rat) (x : Rat) :
    ufGo acc (ufStep acc0 x) = ufStep (ufGo acc acc0) x := by
  by_cases hx : acc0.contains x = true
  · have hx' : x ∈ acc0 := by simpa using hx
    have hx'' : (ufGo acc acc0).contains x = true := by
      simp only [List.contains_iff_mem]
      exact (mem_ufGo x acc acc0).mpr (Or.inr hx')
    simp only [ufStep, hx, hx'', if_true]
  · simp only [ufStep, hx, Bool.false_eq_true, if_false]
    exact ufGo_snoc acc acc0 x

theorem ufGo_ufGo' (acc acc0 xs : List Rat) : ufGo acc (ufGo acc0 xs) = ufGo (ufGo acc acc0) xs := by
  induction xs generalizing acc0 with
  | nil => rfl
  | cons x xs ih =>
    show ufGo acc (ufGo (ufStep acc0 x) xs) = ufGo (ufStep (ufGo acc acc0) x) xs
    rw [ih, ufGo_ufStep]

/-- re-deduplicating an already deduplicated list changes nothing, whatever has been seen before -/
theorem ufGo_ufGo (acc xs : List Rat) : ufGo acc (ufGo [] xs) = ufGo acc xs := ufGo_ufGo' acc [] xs

theorem ufGo_flatMap (acc : List Rat) (L : List (List Rat)) :
    ufGo acc (L.flatMap (ufGo [])) = ufGo acc L.flatten := by
  induction L generalizing acc with
  | nil => rfl
  | cons l L ih =>
    simp only [List.flatMap_cons, List.flatten_cons, ufGo_append, ufGo_ufGo, ih]

/-! ### the labels found by `factorize_` -/

/-- deduplication as done by `pd.factorize(sort=…)` -/
def uniqOf (sort : Bool) (xs : List Rat) : List Rat := if sort then uniqSorted xs else uniqFirst xs

theorem mem_uniqOf (sort : Bool) (y : Rat) (xs : List Rat) : y ∈ uniqOf sort xs ↔ y ∈ xs := by
  cases sort
  · simp only [uniqOf, Bool.false_eq_true, if_false, uniqFirst_eq]
    simpa using mem_ufGo y [] xs
  · simp only [uniqOf, if_true]
    exact mem_uniqSorted y xs

theorem nodup_uniqOf (sort : Bool) (xs : List Rat) : (uniqOf sort xs).Nodup := by
  cases sort
  · simp only [uniqOf, Bool.false_eq_true, if_false, uniqFirst_eq]
    exact nodup_ufGo [] xs List.nodup_nil
  · simp only [uniqOf, if_true]
    exact nodup_of_pairwise_lt _ (pairwise_uniqSorted xs)

/-- deduplicating the concatenation of deduplicated blocks = deduplicating the concatenation -/
theorem uniqOf_flatMap (sort : Bool) (L : List (List Rat)) :
    uniqOf sort (L.flatMap (uniqOf sort)) = uniqOf sort L.flatten := by
  cases sort
  · simp only [uniqOf, Bool.false_eq_true, if_false]
    exact ufGo_flatMap [] L
  · simp only [uniqOf, if_true]
    apply sorted_ext _ _ (pairwise_uniqSorted _) (pairwise_uniqSorted _)
    intro y
    simp only [mem_uniqSorted, List.mem_flatMap, List.mem_flatten]
    constructor
    · rintro ⟨l, hl, hy⟩; exact ⟨l, hl, (mem_uniqSorted y l).mp hy⟩
    · rintro ⟨l, hl, hy⟩; exact ⟨l, hl, (mem_uniqSorted y l).mpr hy⟩

theorem uniqOf_nil (sort : Bool) : uniqOf sort [] = [] := by cases sort <;> rfl

theorem uniqOf_eq_nil_iff (sort : Bool) (xs : List Rat) : uniqOf sort xs = [] ↔ xs = [] := by
  constructor
  · intro h
    cases xs with
    | nil => rfl
    | cons x xs =>
      have : x ∈ uniqOf sort (x :: xs) := (mem_uniqOf sort x _).mpr (by simp)
      rw [h] at this; simp at this
  · rintro rfl; exact uniqOf_nil sort

/-! ### `indexOf?` -/

theorem indexOf?_some {r : Rat} {l : List Rat} {i : Nat} (h : indexOf? r l = some i) :
    ∃ hi : i < l.length, l[i] = r := by
  induction l generalizing i with
  | nil => simp [indexOf?] at h
  | cons y ys ih =>
    simp only [indexOf?] at h
    split at h
    · rename_i e; cases h; exact ⟨by simp, by simp [e]⟩
    · cases hj : indexOf? r ys with
      | none => simp [hj] at h
      | some j =>
        simp only [hj, Option.map_some, Option.some.injEq] at h
        subst h
        obtain ⟨hj', e⟩ := ih hj
        exact ⟨by simp; omega, by simpa using e⟩

theorem indexOf?_none {r : Rat} {l : List Rat} (h : r ∉ l) : indexOf? r l = none := by
  induction l with
  | nil => rfl
  | cons y ys ih =>
    have h1 : r ≠ y := fun e => h (by simp [e])
    have h2 : r ∉ ys := fun e => h (by simp [e])
    simp [indexOf?, h1, ih h2]

theorem indexOf?_getElem {l : List Rat} (hnd : l.Nodup) (i : Nat) (hi : i < l.length) :
    indexOf? l[i] l = some i := by
  induction l generalizing i with
  | nil => simp at hi
  | cons y ys ih =>
    have hy := List.nodup_cons.mp hnd
    cases i with
    | zero => simp [indexOf?]
    | succ j =>
      have hj : j < ys.length := by simpa using hi
      have hne : ys[j] ≠ y := fun e => hy.1 (e ▸ List.getElem_mem hj)
      simp [indexOf?, hne, ih hy.2 j hj]

theorem indexOf?_isSome {r : Rat} {l : List Rat} (h : r ∈ l) : ∃ i, indexOf? r l = some i := by
  cases hi : indexOf? r l with
  | some i => exact ⟨i, rfl⟩
  | none =>
    exfalso
    induction l with
    | nil => simp at h
    | cons y ys ih =>
      simp only [indexOf?] at hi
      split at hi
      · cases hi
      · rename_i hne
        rcases List.mem_cons.mp h with e | h'
        · exact hne e
        · cases hj : indexOf? r ys with
          | none => exact ih h' hj
          | some j => simp [hj] at hi

/-! ### member lists addressed by key -/

/-- members (original order) of the elements whose key is `κ` -/
def membersK (κ : Key) : List Key → List Val → List Val
  | k :: ks, v :: vs => if k = κ then v :: membersK κ ks vs else membersK κ ks vs
  | _, _ => []

@[simp] theorem membersK_nil_left (κ : Key) (vs : List Val) : membersK κ [] vs = [] := by simp [membersK]
@[simp] theorem membersK_nil_right (κ : Key) (ks : List Key) : membersK κ ks [] = [] := by
  cases ks <;> simp [membersK]
@[simp] theorem membersK_cons (κ k : Key) (ks : List Key) (v : Val) (vs : List Val) :
    membersK κ (k :: ks) (v :: vs) = if k = κ then v :: membersK κ ks vs else membersK κ ks vs := by
  simp [membersK]

theorem membersK_append (κ : Key) (k₁ k₂ : List Key) (v₁ v₂ : List Val) (h : k₁.length = v₁.length) :
    membersK κ (k₁ ++ k₂) (v₁ ++ v₂) = membersK κ k₁ v₁ ++ membersK κ k₂ v₂ := by
  induction k₁ generalizing v₁ with
  | nil =>
    cases v₁ with
    | nil => simp
    | cons _ _ => simp at h
  | cons c cs ih =>
    cases v₁ with
    | nil => simp at h
    | cons v vs =>
      simp only [List.length_cons, Nat.add_right_cancel_iff] at h
      simp only [List.cons_append, membersK_cons]
      split <;> simp [ih vs h]

/-- integer codes computed from keys by `φ` select the same members as the key `κ` when `φ k = g ↔ k = κ` -/
theorem members_map_keys (g : Int) (κ : Key) (φ : Key → Int) (keys : List Key) (vals : List Val)
    (h : ∀ k ∈ keys, (φ k = g ↔ k = κ)) :
    members g (keys.map φ) vals = membersK κ keys vals := by
  induction keys generalizing vals with
  | nil => simp
  | cons k ks ih =>
    cases vals with
    | nil => simp
    | cons v vs =>
      have hk := h k (by simp)
      have ih' := ih vs (fun k' hk' => h k' (by simp [hk']))
      simp only [List.map_cons, members_cons, membersK_cons, ih']
      by_cases e : k = κ
      · rw [if_pos (hk.mpr e), if_pos e]
      · rw [if_neg (fun e' => e (hk.mp e')), if_neg e]

theorem membersK_eq_nil_of_not_mem (κ : Key) (keys : List Key) (vals : List Val) (h : κ ∉ keys) :
    membersK κ keys vals = [] := by
  induction keys generalizing vals with
  | nil => simp
  | cons k ks ih =>
    cases vals with
    | nil => simp
    | cons v vs =>
      have h1 : k ≠ κ := fun e => h (by simp [e])
      have h2 : κ ∉ ks := fun e => h (by simp [e])
      simp [h1, ih vs h2]

theorem membersK_ne_nil_of_mem (κ : Key) (keys : List Key) (vals : List Val) (h : κ ∈ keys)
    (hlen : keys.length ≤ vals.length) : membersK κ keys vals ≠ [] := by
  induction keys generalizing vals with
  | nil => simp at h
  | cons k ks ih =>
    cases vals with
    | nil => simp at hlen
    | cons v vs =>
      simp only [membersK_cons]
      by_cases e : k = κ
      · simp [e]
      · simp only [e, if_false]
        rcases List.mem_cons.mp h with e' | h'
        · exact absurd e'.symm e
        · exact ih vs h' (by simpa using hlen)

theorem mem_of_mem_membersK {κ : Key} {keys : List Key} {vals : List Val} {v : Val}
    (h : v ∈ membersK κ keys vals) : v ∈ vals := by
  induction keys generalizing vals with
  | nil => simp at h
  | cons k ks ih =>
    cases vals with
    | nil => simp at h
    | cons w vs =>
      simp only [membersK_cons] at h
      split at h
      · rcases List.mem_cons.mp h with e | h'
        · simp [e]
        · simp [ih h']
      · simp [ih h]

/-- on integer codes the key-addressed member list is `members` -/
theorem membersK_codeKeys (g : Int) (codes : List Int) (vals : List Val) :
    membersK (some (g : Rat)) (codeKeys codes) vals = members g codes vals := by
  induction codes generalizing vals with
  | nil => simp [codeKeys]
  | cons c cs ih =>
    cases vals with
    | nil => simp [codeKeys]
    | cons v vs =>
      have ih' := ih vs
      simp only [codeKeys] at ih' ⊢
      simp only [List.map_cons, membersK_cons, members_cons, ih', Option.some.injEq, Rat.intCast_inj]

/-! ### `factorizeKeys … none sort` -/

/-- the labels `factorize_` finds in a block -/
def foundOf (sort : Bool) (keys : List Key) : List Rat := uniqOf sort (presentKeys keys)

/-- the code `factorize_` gives to a key -/
def codeOf (found : List Rat) (k : Key) : Int :=
  match k with
  | none => -1
  | some r => match indexOf? r found with
    | some i => (i : Int)
    | none => -1

theorem factorizeKeys_none (keys : List Key) (sort : Bool) :
    factorizeKeys keys none sort = (foundOf sort keys, keys.map (codeOf (foundOf sort keys))) := by
  cases sort <;> rfl

theorem mem_presentKeys (r : Rat) (keys : List Key) : r ∈ presentKeys keys ↔ some r ∈ keys := by
  simp [presentKeys]

theorem mem_foundOf (sort : Bool) (r : Rat) (keys : List Key) : r ∈ foundOf sort keys ↔ some r ∈ keys := by
  rw [foundOf, mem_uniqOf, mem_presentKeys]

theorem nodup_foundOf (sort : Bool) (keys : List Key) : (foundOf sort keys).Nodup := nodup_uniqOf sort _

theorem presentKeys_append (a b : List Key) : presentKeys (a ++ b) = presentKeys a ++ presentKeys b := by
  simp [presentKeys]

theorem presentKeys_map_some (l : List Rat) : presentKeys (l.map some) = l := by
  simp [presentKeys]

theorem presentKeys_eq_nil_iff (keys : List Key) : presentKeys keys = [] ↔ ∀ k ∈ keys, k = none := by
  induction keys with
  | nil => simp [presentKeys]
  | cons k ks ih =>
    cases k with
    | none => simpa [presentKeys] using ih
    | some r => simp [presentKeys]

/-- the code of a key is `i` exactly when the key is the `i`-th found label -/
theorem codeOf_eq_iff (sort : Bool) (keys : List Key) (k : Key) (hk : k ∈ keys) (i : Nat)
    (hi : i < (foundOf sort keys).length) :
    ((if codeOf (foundOf sort keys) k == -1 then ((foundOf sort keys).length : Int)
        else codeOf (foundOf sort keys) k) = Int.ofNat i) ↔ k = some (foundOf sort keys)[i] := by
  cases k with
  | none =>
    simp only [codeOf, BEq.rfl, if_true, Int.ofNat_eq_natCast, reduceCtorEq, iff_false]
    omega
  | some r =>
    have hr : r ∈ foundOf sort keys := (mem_foundOf sort r keys).mpr hk
    obtain ⟨j, hj⟩ := indexOf?_isSome hr
    obtain ⟨hj', e⟩ := indexOf?_some hj
    have hne : ¬ ((j : Int) == -1) = true := by simp only [beq_iff_eq]; omega
    simp only [codeOf, hj, hne, if_false, Int.ofNat_eq_natCast, Option.some.injEq]
    constructor
    · intro h
      have : j = i := by omega
      subst this
      exact e.symm
    · intro h
      subst h
      have := indexOf?_getElem (nodup_foundOf sort keys) i hi
      rw [this] at hj
      cases hj
      rfl

theorem codeOf_eq_neg_one_iff (sort : Bool) (keys : List Key) (k : Key) (hk : k ∈ keys) :
    codeOf (foundOf sort keys) k = -1 ↔ k = none := by
  cases k with
  | none => simp [codeOf]
  | some r =>
    have hr : r ∈ foundOf sort keys := (mem_foundOf sort r keys).mpr hk
    obtain ⟨j, hj⟩ := indexOf?_isSome hr
    simp only [codeOf, hj, reduceCtorEq, iff_false]
    try omega

/-! ### the sparse intermediate of one block -/

/-- intermediate columns over the found labels: slot of label `r` in column `(k, f)` is `blockVal k f` of the
    members carrying label `r` -/
def sparseCols (ks : List Kernel) (fills : List Val) (found : List Rat) (keys : List Key) (vals : List Val) :
    List (List Val) :=
  (ks.zip fills).map fun p => found.map fun r => blockVal p.1 p.2 (membersK (some r) keys vals)

/-- what `chunk_reduce` (no `expected_groups`, `reindex=False`) returns for a block -/
def sparseInter (ks : List Kernel) (fills : List Val) (sort : Bool) (keys : List Key) (vals : List Val) : Inter :=
  if presentKeys keys = [] then { groups := [none], cols := (ks.zip fills).map fun p => [p.2] }
  else { groups := (foundOf sort keys).map some, cols := sparseCols ks fills (foundOf sort keys) keys vals }

theorem all_codes_neg_one_iff (sort : Bool) (keys : List Key) :
    ((keys.map (codeOf (foundOf sort keys))).all (· == -1)) = true ↔ presentKeys keys = [] := by
  rw [presentKeys_eq_nil_iff]
  simp only [List.all_map, List.all_eq_true, Function.comp, beq_iff_eq]
  constructor
  · intro h k hk; exact (codeOf_eq_neg_one_iff sort keys k hk).mp (h k hk)
  · intro h k hk; exact (codeOf_eq_neg_one_iff sort keys k hk).mpr (h k hk)

/-- **Sparse block stage.** `chunk_reduce` without expected groups (numpy_groupies engine) returns the found
    labels (sorted / first-appearance order; `[NaN]` when the block has no valid label) and, per found label,
    `blockVal` of its members. -/
theorem chunkReduce_sparse (ks : List Kernel) (fills : List Val) (keys : List Key) (vals : List Val) (sort : Bool)
    (hnoarg : ∀ k ∈ ks, isArgKernel k = false)
    (hz : ∀ p ∈ ks.zip fills, (p.1 = .nanlen ∨ p.1 = .nansumsq) → p.2 = Val.zero) :
    chunkReduce .npg ks fills keys vals none sort = sparseInter ks fills sort keys vals := by
  simp only [chunkReduce, factorizeKeys_none, sparseInter]
  by_cases hp : presentKeys keys = []
  · have hempty := (all_codes_neg_one_iff sort keys).mpr hp
    simp only [hempty, hp, if_true, List.length_cons, List.length_nil, Nat.zero_add]
    congr 1
  · have hempty : ((keys.map (codeOf (foundOf sort keys))).all (· == -1)) = false := by
      simpa using (not_congr (all_codes_neg_one_iff sort keys)).mpr hp
    simp only [hempty, hp, Bool.false_eq_true, if_false, sparseCols]
    congr 1
    apply List.map_congr_left
    intro p hp'
    obtain ⟨k, fv⟩ := p
    have hka : isArgKernel k = false := hnoarg k (List.of_mem_zip hp').1
    simp only [engineCall, hka, Bool.false_eq_true, if_false, engGrouped]
    rw [npgGrouped_eq_blockVal_dn k fv _ vals _ hka (hz (k, fv) hp'), ← List.map_take]
    have htake : ∀ b : Bool, (List.range (if b = true then (foundOf sort keys).length + 1
        else (foundOf sort keys).length)).take (foundOf sort keys).length
          = List.range (foundOf sort keys).length := by
      intro b; cases b <;> simp [List.take_range]
    rw [htake]
    apply List.ext_getElem
    · simp
    · intro i h1 h2
      have hi : i < (foundOf sort keys).length := by simpa using h1
      simp only [List.getElem_map, List.getElem_range, List.map_map]
      congr 1
      apply members_map_keys
      intro k' hk'
      exact codeOf_eq_iff sort keys k' hk' i hi

theorem sparseInter_groups (ks : List Kernel) (fills : List Val) (sort : Bool) (keys : List Key) (vals : List Val) :
    (sparseInter ks fills sort keys vals).groups
      = if presentKeys keys = [] then [none] else (foundOf sort keys).map some := by
  unfold sparseInter; split <;> rfl

theorem presentKeys_sparseInter (ks : List Kernel) (fills : List Val) (sort : Bool) (keys : List Key)
    (vals : List Val) : presentKeys (sparseInter ks fills sort keys vals).groups = foundOf sort keys := by
  rw [sparseInter_groups]
  split
  · rename_i h; rw [foundOf, h, uniqOf_nil]; rfl
  · exact presentKeys_map_some _

/-! ### key segments -/

/-- a list of (keys, values) segments, e.g. the blocks of a chunked array -/
abbrev SegsK := List (List Key × List Val)

def catKK (segs : SegsK) : List Key := (segs.map (·.1)).flatten
def catKV (segs : SegsK) : List Val := (segs.map (·.2)).flatten

def AlignedK (segs : SegsK) : Prop := ∀ p ∈ segs, p.1.length = p.2.length

@[simp] theorem catKK_nil : catKK [] = [] := rfl
@[simp] theorem catKV_nil : catKV [] = [] := rfl
@[simp] theorem catKK_cons (p : List Key × List Val) (segs : SegsK) : catKK (p :: segs) = p.1 ++ catKK segs := by
  simp [catKK]
@[simp] theorem catKV_cons (p : List Key × List Val) (segs : SegsK) : catKV (p :: segs) = p.2 ++ catKV segs := by
  simp [catKV]

theorem catKK_flatten (L : List SegsK) : catKK L.flatten = (L.map catKK).flatten := by
  induction L with
  | nil => rfl
  | cons s L ih => simp [catKK, List.map_append] at ih ⊢; rw [ih]

theorem catKV_flatten (L : List SegsK) : catKV L.flatten = (L.map catKV).flatten := by
  induction L with
  | nil => rfl
  | cons s L ih => simp [catKV, List.map_append] at ih ⊢; rw [ih]

theorem AlignedK.tail {p : List Key × List Val} {segs : SegsK} (h : AlignedK (p :: segs)) : AlignedK segs :=
  fun q hq => h q (by simp [hq])

theorem AlignedK.cat_length {segs : SegsK} (h : AlignedK segs) : (catKK segs).length = (catKV segs).length := by
  induction segs with
  | nil => rfl
  | cons p segs ih =>
    simp only [catKK_cons, catKV_cons, List.length_append, ih h.tail, h p (by simp)]

theorem membersK_cat (κ : Key) (segs : SegsK) (h : AlignedK segs) :
    membersK κ (catKK segs) (catKV segs) = (segs.map fun p => membersK κ p.1 p.2).flatten := by
  induction segs with
  | nil => simp
  | cons p segs ih =>
    simp only [catKK_cons, catKV_cons, List.map_cons, List.flatten_cons]
    rw [membersK_append κ _ _ _ _ (h p (by simp)), ih h.tail]

theorem mem_catKK {k : Key} {segs : SegsK} : k ∈ catKK segs ↔ ∃ p ∈ segs, k ∈ p.1 := by
  simp only [catKK, List.mem_flatten, List.mem_map]
  constructor
  · rintro ⟨l, ⟨p, hp, rfl⟩, hk⟩; exact ⟨p, hp, hk⟩
  · rintro ⟨p, hp, hk⟩; exact ⟨p.1, ⟨p, hp, rfl⟩, hk⟩

theorem mem_catKV {v : Val} {segs : SegsK} : v ∈ catKV segs ↔ ∃ p ∈ segs, v ∈ p.2 := by
  simp only [catKV, List.mem_flatten, List.mem_map]
  constructor
  · rintro ⟨l, ⟨p, hp, rfl⟩, hk⟩; exact ⟨p, hp, hk⟩
  · rintro ⟨p, hp, hk⟩; exact ⟨p.2, ⟨p, hp, rfl⟩, hk⟩

/-- the (keys, values) blocks of a chunked array -/
def segsOfK (chunks : List Nat) (keys : List Key) (vals : List Val) : SegsK :=
  (splitBy chunks keys).zip (splitBy chunks vals)

theorem segsOfK_aligned (chunks : List Nat) (keys : List Key) (vals : List Val)
    (hlen : keys.length = vals.length) : AlignedK (segsOfK chunks keys vals) := by
  induction chunks generalizing keys vals with
  | nil => intro p hp; simp [segsOfK, splitBy] at hp
  | cons n ns ih =>
    intro p hp
    simp only [segsOfK, splitBy, List.zip_cons_cons, List.mem_cons] at hp
    rcases hp with rfl | hp
    · simp [hlen]
    · exact ih (keys.drop n) (vals.drop n) (by simp [hlen]) p hp

theorem segsOfK_catKK (chunks : List Nat) (keys : List Key) (vals : List Val)
    (h : keys.length ≤ chunks.sum) : catKK (segsOfK chunks keys vals) = keys := by
  unfold catKK segsOfK
  rw [List.map_fst_zip (by simp [splitBy_length]), splitBy_flatten _ _ h]

theorem segsOfK_catKV (chunks : List Nat) (keys : List Key) (vals : List Val)
    (h : vals.length ≤ chunks.sum) : catKV (segsOfK chunks keys vals) = vals := by
  unfold catKV segsOfK
  rw [List.map_snd_zip (by simp [splitBy_length]), splitBy_flatten _ _ h]

theorem segsOfK_ne_nil (chunks : List Nat) (keys : List Key) (vals : List Val) (h : chunks ≠ []) :
    segsOfK chunks keys vals ≠ [] := by
  cases chunks with
  | nil => exact absurd rfl h
  | cons n ns => simp [segsOfK, splitBy]

theorem mergedK_aligned (k : Nat) (segs : SegsK) (hal : AlignedK segs) :
    AlignedK ((partitionAll k segs).map fun grp => (catKK grp, catKV grp)) := by
  intro p hp
  obtain ⟨grp, hgrp, rfl⟩ := List.mem_map.mp hp
  exact AlignedK.cat_length (fun q hq => hal q (partitionAll_mem_sub k segs grp hgrp q hq))

theorem mergedK_catKK (k : Nat) (segs : SegsK) :
    catKK ((partitionAll k segs).map fun grp => (catKK grp, catKV grp)) = catKK segs := by
  have : (((partitionAll k segs).map fun grp => (catKK grp, catKV grp)).map (·.1))
      = (partitionAll k segs).map catKK := by rw [List.map_map]; rfl
  conv => rhs; rw [← partitionAll_flatten k segs, catKK_flatten]
  exact congrArg List.flatten this

theorem mergedK_catKV (k : Nat) (segs : SegsK) :
    catKV ((partitionAll k segs).map fun grp => (catKK grp, catKV grp)) = catKV segs := by
  have : (((partitionAll k segs).map fun grp => (catKK grp, catKV grp)).map (·.2))
      = (partitionAll k segs).map catKV := by rw [List.map_map]; rfl
  conv => rhs; rw [← partitionAll_flatten k segs, catKV_flatten]
  exact congrArg List.flatten this

/-! ### found labels of concatenated nodes -/

theorem presentKeys_flatten (L : List (List Key)) : presentKeys L.flatten = (L.map presentKeys).flatten := by
  induction L with
  | nil => rfl
  | cons l L ih => simp [presentKeys_append, ih]

/-- nodes whose valid group labels are the labels found in their segment: concatenating the group lists of the
    nodes and factorizing again finds the labels of the concatenated segments -/
theorem foundOf_nodes (sort : Bool) (segs : SegsK) (G : List Key)
    (hG : presentKeys G = segs.flatMap fun p => foundOf sort p.1) :
    foundOf sort G = foundOf sort (catKK segs) := by
  have h1 : (segs.flatMap fun p => foundOf sort p.1)
      = (segs.map fun p => presentKeys p.1).flatMap (uniqOf sort) := by
    simp [List.flatMap_map, foundOf, Function.comp_def]
  rw [foundOf, hG, h1, uniqOf_flatMap, foundOf, catKK, presentKeys_flatten, List.map_map]
  rfl

theorem presentKeys_nodes (sort : Bool) (segs : SegsK) (node : List Key × List Val → Inter)
    (hnode : ∀ p ∈ segs, presentKeys (node p).groups = foundOf sort p.1) :
    presentKeys ((segs.map node).flatMap (·.groups)) = segs.flatMap fun p => foundOf sort p.1 := by
  induction segs with
  | nil => rfl
  | cons p segs ih =>
    simp only [List.map_cons, List.flatMap_cons, presentKeys_append, hnode p (by simp)]
    rw [ih (fun q hq => hnode q (by simp [hq]))]

theorem presentKeys_nil_iff_foundOf (sort : Bool) (keys : List Key) :
    presentKeys keys = [] ↔ foundOf sort keys = [] := (uniqOf_eq_nil_iff sort _).symm

/-! ### member lists over concatenated nodes -/

theorem membersK_flatMap (κ : Key) (xs : List Inter) (j : Nat)
    (hal : ∀ x ∈ xs, x.groups.length = (colAt x j).length) :
    membersK κ (xs.flatMap (·.groups)) (xs.flatMap (colAt · j))
      = xs.flatMap fun x => membersK κ x.groups (colAt x j) := by
  induction xs with
  | nil => simp
  | cons x xs ih =>
    simp only [List.flatMap_cons]
    rw [membersK_append κ _ _ _ _ (hal x (by simp)), ih (fun y hy => hal y (by simp [hy]))]

theorem membersK_map_some (r : Rat) (found : List Rat) (h : Rat → Val) (hnd : found.Nodup) :
    membersK (some r) (found.map some) (found.map h) = if r ∈ found then [h r] else [] := by
  induction found with
  | nil => simp
  | cons y ys ih =>
    have hy := List.nodup_cons.mp hnd
    simp only [List.map_cons, membersK_cons, Option.some.injEq, ih hy.2]
    by_cases e : y = r
    · subst e
      simp [hy.1]
    · have : ¬ r = y := fun e' => e e'.symm
      simp [e, this]

theorem flatMap_ite_singleton {α β} (l : List α) (q : α → Prop) [DecidablePred q] (h : α → β) :
    (l.flatMap fun p => if q p then [h p] else []) = (l.filter fun p => decide (q p)).map h := by
  induction l with
  | nil => rfl
  | cons a l ih =>
    by_cases hq : q a <;> simp [List.flatMap_cons, List.filter_cons, hq, ih]

theorem flatten_map_filter {α β} (l : List α) (q : α → Bool) (h : α → List β)
    (hq : ∀ p ∈ l, q p = false → h p = []) :
    ((l.filter q).map h).flatten = (l.map h).flatten := by
  induction l with
  | nil => rfl
  | cons a l ih =>
    have ih' := ih (fun p hp => hq p (by simp [hp]))
    by_cases hqa : q a = true
    · simp [List.filter_cons, hqa, ih']
    · have := hq a (by simp) (by simpa using hqa)
      simp [List.filter_cons, hqa, ih', this]

end Flox.Grp
