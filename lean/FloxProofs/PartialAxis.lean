/-
  Proofs for the partial-axis / batch-dimension model (`FloxModel/PartialAxis.lean`, property C08).
-/
import FloxModel.PartialAxis
import FloxProofs.Members
import FloxProofs.Dense

namespace Flox
namespace PartialAxis

/-! ### offset arithmetic -/

theorem offsetCode_neg_one (G r : Nat) : offsetCode G r (-1) = -1 := by
  simp [offsetCode]

/-- the div/mod lemma behind `offset_labels`: a code `0 ≤ c < G` offset into row `r` is recovered by `/ G`, `% G` -/
theorem offsetCode_div_mod (G r : Nat) (c : Int) (h0 : 0 ≤ c) (hG : c < (G : Int)) :
    offsetCode G r c / (G : Int) = (r : Int) ∧ offsetCode G r c % (G : Int) = c := by
  have hne : c ≠ -1 := by omega
  have hGpos : (0 : Int) < (G : Int) := by omega
  simp only [offsetCode, if_neg hne]
  constructor
  · rw [Int.add_mul_ediv_right _ _ (by omega), Int.ediv_eq_zero_of_lt h0 hG]; simp
  · rw [Int.add_mul_emod_self_right, Int.emod_eq_of_lt h0 hG]

/-- two offset codes coincide only for the same row and the same code -/
theorem offsetCode_eq_iff (G r r' g : Nat) (c : Int) (hg : g < G) (hc : -1 ≤ c ∧ c < (G : Int)) :
    offsetCode G r' c = ((r * G + g : Nat) : Int) ↔ (r' = r ∧ c = (g : Int)) := by
  by_cases hm : c = -1
  · subst hm
    simp only [offsetCode_neg_one]
    constructor
    · intro h; omega
    · intro h; omega
  · have h0 : 0 ≤ c := by omega
    obtain ⟨hd, hmod⟩ := offsetCode_div_mod G r' c h0 hc.2
    constructor
    · intro h
      have hGpos : (0 : Int) < (G : Int) := by omega
      have e1 : ((r * G + g : Nat) : Int) / (G : Int) = (r : Int) := by
        have : ((r * G + g : Nat) : Int) = (g : Int) + (r : Int) * (G : Int) := by push_cast; omega
        rw [this, Int.add_mul_ediv_right _ _ (by omega), Int.ediv_eq_zero_of_lt (by omega) (by omega)]; simp
      have e2 : ((r * G + g : Nat) : Int) % (G : Int) = (g : Int) := by
        have : ((r * G + g : Nat) : Int) = (g : Int) + (r : Int) * (G : Int) := by push_cast; omega
        rw [this, Int.add_mul_emod_self_right, Int.emod_eq_of_lt (by omega) (by omega)]
      rw [h] at hd hmod
      constructor
      · have : (r : Int) = (r' : Int) := by rw [← e1, hd]
        omega
      · rw [← hmod, e2]
    · rintro ⟨rfl, rfl⟩
      simp only [offsetCode, if_neg hm]
      push_cast
      omega

/-! ### members of an offset slot -/

/-- relabelling codes so that exactly the codes `g` become `g'` maps the members of `g` to the members of `g'` -/
theorem members_relabel (g g' : Int) (f : Int → Int) (codes : List Int) (vals : List Val)
    (h : ∀ c ∈ codes, (f c = g' ↔ c = g)) :
    members g' (codes.map f) vals = members g codes vals := by
  induction codes generalizing vals with
  | nil => simp
  | cons c cs ih =>
    cases vals with
    | nil => simp
    | cons v vs =>
      have hc := h c (by simp)
      have ih' := ih vs (fun c' hc' => h c' (by simp [hc']))
      simp only [List.map_cons, members_cons, ih']
      by_cases e : c = g
      · rw [if_pos (hc.mpr e), if_pos e]
      · rw [if_neg (fun e' => e (hc.mp e')), if_neg e]

/-- the value rows are aligned with the code rows (same number of rows, same row lengths) -/
def RowsMatch : List (List Int) → List (List Val) → Prop
  | [], [] => True
  | cs :: rest, vs :: vrest => cs.length = vs.length ∧ RowsMatch rest vrest
  | _, _ => False

theorem members_offset_row (G r r' g : Nat) (hg : g < G) (row : List Int) (vs : List Val)
    (hrow : ∀ c ∈ row, -1 ≤ c ∧ c < (G : Int)) :
    members (Int.ofNat (r * G + g)) (row.map (offsetCode G r')) vs
      = if r' = r then members (Int.ofNat g) row vs else [] := by
  by_cases hr : r' = r
  · subst hr
    simp only [if_true]
    apply members_relabel
    intro c hc
    simp only [Int.ofNat_eq_natCast]
    rw [offsetCode_eq_iff G r' r' g c hg (hrow c hc)]
    simp
  · simp only [if_neg hr]
    apply members_eq_nil_of_ne
    intro c hc
    obtain ⟨c0, hc0, rfl⟩ := List.mem_map.mp hc
    intro h
    simp only [Int.ofNat_eq_natCast] at h
    exact hr ((offsetCode_eq_iff G r r' g c0 hg (hrow c0 hc0)).mp h).1

theorem length_flatten_offsetRowsFrom (G : Nat) (r0 : Nat) (rows : List (List Int)) :
    (offsetRowsFrom G r0 rows).length = rows.length := by
  induction rows generalizing r0 with
  | nil => simp [offsetRowsFrom]
  | cons row rest ih => simp [offsetRowsFrom, ih]

/-- **Slices cannot leak into each other.**  In the flattened offset codes, the members of slot `r·G + g` are
    exactly the members of group `g` in row `r` (rows numbered from `r0`). -/
theorem members_offsetRows (G : Nat) (g : Nat) (hg : g < G) (rows : List (List Int)) (valRows : List (List Val))
    (hlen : RowsMatch rows valRows)
    (hcodes : ∀ row ∈ rows, ∀ c ∈ row, -1 ≤ c ∧ c < (G : Int)) (r0 r : Nat) :
    members (Int.ofNat (r * G + g)) (offsetRowsFrom G r0 rows).flatten valRows.flatten
      = if r0 ≤ r then members (Int.ofNat g) (rows.getD (r - r0) []) (valRows.getD (r - r0) []) else [] := by
  induction rows generalizing valRows r0 with
  | nil => simp [offsetRowsFrom]
  | cons row rest ih =>
    cases valRows with
    | nil => simp [RowsMatch] at hlen
    | cons vr vrest =>
    obtain ⟨hl, hlen'⟩ := hlen
    have hrow : ∀ c ∈ row, -1 ≤ c ∧ c < (G : Int) := hcodes row (by simp)
    have hrest : ∀ row' ∈ rest, ∀ c ∈ row', -1 ≤ c ∧ c < (G : Int) := fun row' h => hcodes row' (by simp [h])
    simp only [offsetRowsFrom, List.flatten_cons]
    rw [members_append _ _ _ _ _ (by simpa using hl), members_offset_row G r r0 g hg row vr hrow, ih vrest hlen' hrest (r0 + 1)]
    by_cases h1 : r0 = r
    · subst h1
      have h3 : ¬ r0 + 1 ≤ r0 := by omega
      simp [h3]
    · by_cases h2 : r0 ≤ r
      · have h3 : r0 + 1 ≤ r := by omega
        have h4 : r - r0 = (r - (r0 + 1)) + 1 := by omega
        simp only [if_neg h1, if_pos h2, if_pos h3, List.nil_append]
        rw [h4]
        simp
      · have h3 : ¬ r0 + 1 ≤ r := by omega
        simp [h1, h2, h3]

/-! ### the grouped kernel on offset codes = the grouped kernel row by row -/

/-- a grouped kernel whose slot `g` is a function `φ` of the members of group `g` only
    (the contract `grouped`, numpy_groupies, the flox engine on its kernels, numbagg on its kernels) -/
def Slotwise (E : List Int → List Val → Nat → List Val) (φ : List Val → Val) : Prop :=
  ∀ codes vals size, E codes vals size = (List.range size).map fun (g : Nat) => φ (members (Int.ofNat g) codes vals)

theorem range_mul (R G : Nat) :
    List.range (R * G) = (List.range R).flatMap fun r => (List.range G).map fun g => r * G + g := by
  induction R with
  | zero => simp
  | succ R ih =>
    rw [Nat.succ_mul, List.range_add, ih, List.range_succ, List.flatMap_append]
    simp

theorem flatMap_replicate_const {α β} (l : List α) (n : Nat) (a : β) :
    (l.flatMap fun _ => List.replicate n a) = List.replicate (l.length * n) a := by
  induction l with
  | nil => simp
  | cons x xs ih =>
    simp only [List.flatMap_cons, ih, List.length_cons, List.replicate_append_replicate]
    congr 1
    rw [Nat.succ_mul, Nat.add_comm]

theorem flatMap_congr' {α β} {l : List α} {f g : α → List β} (h : ∀ x ∈ l, f x = g x) :
    l.flatMap f = l.flatMap g := by
  induction l with
  | nil => rfl
  | cons x xs ih =>
    simp only [List.flatMap_cons]
    rw [h x (by simp), ih (fun y hy => h y (by simp [hy]))]

theorem clamp_rows (G : Nat) (rows : List (List Int)) (hcodes : ∀ row ∈ rows, ∀ c ∈ row, -1 ≤ c ∧ c < (G : Int)) :
    rows.map (·.map (clampCode G)) = rows := by
  conv => rhs; rw [← List.map_id rows]
  apply List.map_congr_left
  intro row hrow
  conv => rhs; rw [id, ← List.map_id row]
  apply List.map_congr_left
  intro c hc
  have := hcodes row hrow c hc
  simp only [clampCode, id]
  rw [if_neg (by omega)]

/-- the two branches of `chunk_reduce` (`empty` ↦ `np.full`, otherwise kernel call + drop of the sentinel slot)
    in one formula: slot `s` holds `φ` of the members of `s` in the (offset) codes -/
theorem coreColWith_unified (E : List Int → List Val → Nat → List Val) (φ : List Val → Val) (hE : Slotwise E φ)
    (fv : Val) (hfv : φ [] = fv) (G : Nat) (offset : Bool) (rows : List (List Int))
    (batches : List (List (List Val))) :
    coreColWith E fv G offset rows batches
      = batches.flatMap fun vrows =>
          (List.range (if offset then (rows.map (·.map (clampCode G))).length * G else G)).map fun (s : Nat) =>
            φ (members (Int.ofNat s)
              (if offset then (offsetRowsFrom G 0 (rows.map (·.map (clampCode G)))).flatten
               else (rows.map (·.map (clampCode G))).flatten) vrows.flatten) := by
  unfold coreColWith
  dsimp only
  generalize (if offset then (offsetRowsFrom G 0 (rows.map (·.map (clampCode G)))).flatten
               else (rows.map (·.map (clampCode G))).flatten) = off
  generalize (if offset then (rows.map (·.map (clampCode G))).length * G else G) = size0
  by_cases hempty : (off.all (· == -1)) = true
  · simp only [hempty, if_true]
    have : ∀ vrows : List (List Val), ((List.range size0).map fun (s : Nat) => φ (members (Int.ofNat s) off vrows.flatten))
        = List.replicate size0 fv := by
      intro vrows
      apply List.ext_getElem
      · simp
      · intro s h1 h2
        have hne : ∀ c ∈ off, c ≠ Int.ofNat s := by
          intro c hc
          have := List.all_eq_true.mp hempty c hc
          simp only [beq_iff_eq] at this
          simp only [Int.ofNat_eq_natCast]
          omega
        simp only [List.getElem_map, List.getElem_range, List.getElem_replicate]
        rw [members_eq_nil_of_ne _ off _ hne, hfv]
    simp only [this]
    rw [flatMap_replicate_const]
  · simp only [hempty, Bool.false_eq_true, if_false]
    congr 1
    funext vrows
    rw [hE, ← List.map_take]
    have htake : (List.range (if (off.any (· == -1)) = true then size0 + 1 else size0)).take size0 = List.range size0 := by
      split <;> simp [List.take_range]
    rw [htake]
    apply List.map_congr_left
    intro s hs
    rw [members_bump s size0 (List.mem_range.mp hs)]

/-- **`offset_labels` is sound**: on 2-D labels reduced along the last axis (and, after `_move_reduce_dims_to_end`
    and `_collapse_axis`, on every partial-axis reduction) the block stage equals, for every batch index and every
    row, the 1-D grouped kernel on that row. -/
theorem coreColWith_rows (E : List Int → List Val → Nat → List Val) (φ : List Val → Val) (hE : Slotwise E φ)
    (fv : Val) (hfv : φ [] = fv) (G : Nat) (rows : List (List Int)) (batches : List (List (List Val)))
    (hcodes : ∀ row ∈ rows, ∀ c ∈ row, -1 ≤ c ∧ c < (G : Int))
    (hb : ∀ vrows ∈ batches, RowsMatch rows vrows) :
    coreColWith E fv G true rows batches
      = batches.flatMap fun vrows =>
          (List.range rows.length).flatMap fun r => E (rows.getD r []) (vrows.getD r []) G := by
  rw [coreColWith_unified E φ hE fv hfv, clamp_rows G rows hcodes]
  simp only [if_true]
  apply flatMap_congr'
  intro vrows hv
  rw [range_mul, List.map_flatMap]
  apply flatMap_congr'
  intro r _
  rw [hE, List.map_map]
  apply List.map_congr_left
  intro g hg
  simp only [Function.comp]
  rw [members_offsetRows G g (List.mem_range.mp hg) rows vrows (hb vrows hv) hcodes 0 r]
  simp

/-- all label dims reduced (no offsetting): one 1-D kernel call per batch index on the flattened labels -/
theorem coreColWith_all (E : List Int → List Val → Nat → List Val) (φ : List Val → Val) (hE : Slotwise E φ)
    (fv : Val) (hfv : φ [] = fv) (G : Nat) (rows : List (List Int)) (batches : List (List (List Val)))
    (hcodes : ∀ row ∈ rows, ∀ c ∈ row, -1 ≤ c ∧ c < (G : Int)) :
    coreColWith E fv G false rows batches = batches.flatMap fun vrows => E rows.flatten vrows.flatten G := by
  rw [coreColWith_unified E φ hE fv hfv, clamp_rows G rows hcodes]
  simp only [Bool.false_eq_true, if_false]
  apply flatMap_congr'
  intro vrows _
  rw [hE]

/-- the statement in its plain form: `grouped f (offset codes) (flat vals) (R·G)`, read as `R × G`, is the row-wise
    1-D result -/
theorem grouped_offsetRows (k : Kernel) (fill : Val) (G : Nat) (rows : List (List Int)) (valRows : List (List Val))
    (hcodes : ∀ row ∈ rows, ∀ c ∈ row, -1 ≤ c ∧ c < (G : Int)) (hm : RowsMatch rows valRows) :
    grouped k (offsetRowsFrom G 0 rows).flatten valRows.flatten (rows.length * G) fill
      = (List.range rows.length).flatMap fun r => grouped k (rows.getD r []) (valRows.getD r []) G fill := by
  unfold grouped
  rw [range_mul, List.map_flatMap]
  apply flatMap_congr'
  intro r _
  rw [List.map_map]
  apply List.map_congr_left
  intro g hg
  simp only [Function.comp]
  rw [members_offsetRows G g (List.mem_range.mp hg) rows valRows hm hcodes 0 r]
  simp

/-! ### batch dimensions -/

/-- **the result for a stack is the stack of the results** (block stage, any engine, any kernel) -/
theorem coreColWith_append (E : List Int → List Val → Nat → List Val) (fv : Val) (G : Nat) (offset : Bool)
    (rows : List (List Int)) (b₁ b₂ : List (List (List Val))) :
    coreColWith E fv G offset rows (b₁ ++ b₂)
      = coreColWith E fv G offset rows b₁ ++ coreColWith E fv G offset rows b₂ := by
  unfold coreColWith
  dsimp only
  generalize (if offset then (offsetRowsFrom G 0 (rows.map (·.map (clampCode G)))).flatten
               else (rows.map (·.map (clampCode G))).flatten) = off
  generalize (if offset then (rows.map (·.map (clampCode G))).length * G else G) = size0
  by_cases hempty : (off.all (· == -1)) = true
  · simp only [hempty, if_true]
    rw [List.length_append, Nat.add_mul, List.replicate_append_replicate]
  · simp only [hempty, Bool.false_eq_true, if_false]
    rw [List.flatMap_append]

/-! ### engines that satisfy the slot-wise contract -/

theorem slotwise_grouped (k : Kernel) (fill : Val) :
    Slotwise (fun c v s => grouped k c v s fill) (fun ms => if ms.isEmpty then fill else kEval k ms) := by
  intro codes vals size
  rfl

theorem slotwise_npg (k : Kernel) (fv : Val) (hna : isArgKernel k = false)
    (hz : (k = .nanlen ∨ k = .nansumsq) → fv = Val.zero) :
    Slotwise (fun c v s => engineCall .npg k c v s fv) (blockVal k fv) := by
  intro codes vals size
  simp only [engineCall, hna, Bool.false_eq_true, if_false, engGrouped]
  exact npgGrouped_eq_blockVal_dn k fv codes vals size hna hz

/-! ### `_finalize_results`: the count mask, slot by slot -/

/-- one finished slot of the eager pipeline: the user's fill when fewer than `mc` valid members, else the kernel -/
def slotFinal (k : Kernel) (fv : Val) (mc : Nat) (f : Val) (ms : List Val) : Val :=
  if countBelow (blockVal .nanlen Val.zero ms) mc then f else blockVal k fv ms

theorem maskCounts_some (mc : Nat) (hmc : mc > 0) (f : Val) (vals counts : List Val)
    (hlen : vals.length = counts.length) :
    maskCounts mc (some f) vals counts
      = some (List.zipWith (fun v c => if countBelow c mc then f else v) vals counts) := by
  have h1 : ∀ (vals counts : List Val), vals.length = counts.length →
      (vals.zip (counts.map (countBelow · mc))).map (fun (p : Val × Bool) => if p.2 then f else p.1)
        = List.zipWith (fun v c => if countBelow c mc then f else v) vals counts := by
    intro vals
    induction vals with
    | nil => intro counts _; simp
    | cons v vs ih =>
      intro counts h
      cases counts with
      | nil => simp at h
      | cons c cs =>
        simp only [List.map_cons, List.zip_cons_cons, List.zipWith_cons_cons]
        rw [ih cs (by simpa using h)]
  have h2 : ∀ (vals counts : List Val), vals.length = counts.length →
      ((counts.map (countBelow · mc)).any id) = false →
      vals = List.zipWith (fun v c => if countBelow c mc then f else v) vals counts := by
    intro vals
    induction vals with
    | nil => intro counts _ _; simp
    | cons v vs ih =>
      intro counts h hany
      cases counts with
      | nil => simp at h
      | cons c cs =>
        simp only [List.map_cons, List.any_cons, id, Bool.or_eq_false_iff] at hany
        simp only [List.zipWith_cons_cons, hany.1, Bool.false_eq_true, if_false]
        rw [← ih cs (by simpa using h) hany.2]
  unfold maskCounts
  simp only [hmc, if_true]
  by_cases hany : ((counts.map (countBelow · mc)).any id) = true
  · simp only [hany, if_true]
    rw [← h1 vals counts hlen]
  · simp only [hany, Bool.false_eq_true, if_false]
    rw [← h2 vals counts hlen (by simpa using hany)]

theorem zipWith_flatMap {α β γ δ} (op : β → γ → δ) (l : List α) (f : α → List β) (g : α → List γ)
    (h : ∀ x ∈ l, (f x).length = (g x).length) :
    List.zipWith op (l.flatMap f) (l.flatMap g) = l.flatMap fun x => List.zipWith op (f x) (g x) := by
  induction l with
  | nil => simp
  | cons x xs ih =>
    simp only [List.flatMap_cons]
    rw [List.zipWith_append (h x (by simp)), ih (fun y hy => h y (by simp [hy]))]

theorem zipWith_map_same {α β γ δ} (op : β → γ → δ) (l : List α) (a : α → β) (b : α → γ) :
    List.zipWith op (l.map a) (l.map b) = l.map fun x => op (a x) (b x) := by
  induction l with
  | nil => simp
  | cons x xs ih => simp [ih]

theorem length_flatMap_const {α β} (l : List α) (f : α → List β) (n : Nat) (h : ∀ x ∈ l, (f x).length = n) :
    (l.flatMap f).length = l.length * n := by
  induction l with
  | nil => simp
  | cons x xs ih =>
    simp only [List.flatMap_cons, List.length_append, List.length_cons]
    rw [h x (by simp), ih (fun y hy => h y (by simp [hy])), Nat.succ_mul, Nat.add_comm]

/-- **The eager partial-axis pipeline, slot by slot** (numpy_groupies engine, a non-arg kernel `k` with its
    `nanlen` counter, `min_count ≥ 1`, a user fill `f`): the result is, for every batch index `b`, every kept
    index `r` and every group `g`, `slotFinal` of the members of `g` *in row `r` of batch `b` only*. -/
theorem eagerCore_rows (R : Resolved) (k : Kernel) (fv f : Val) (G lastDim : Nat)
    (rows : List (List Int)) (batches : List (List (List Val)))
    (hnumpy : R.numpy = [k, .nanlen]) (hfills : R.numpyFills = [fv, Val.zero]) (harg : R.isArg = false)
    (hmc : R.minCount > 0) (hfill : R.userFill = some f)
    (hna : isArgKernel k = false) (hz : (k = .nanlen ∨ k = .nansumsq) → fv = Val.zero)
    (hcodes : ∀ row ∈ rows, ∀ c ∈ row, -1 ≤ c ∧ c < (G : Int))
    (hb : ∀ vrows ∈ batches, RowsMatch rows vrows) :
    eagerCore R .npg G true lastDim rows batches
      = some (batches.flatMap fun vrows => (List.range rows.length).flatMap fun r =>
          (List.range G).map fun (g : Nat) =>
            slotFinal k fv R.minCount f (members (Int.ofNat g) (rows.getD r []) (vrows.getD r []))) := by
  have hK := coreColWith_rows _ _ (slotwise_npg k fv hna hz) fv (by simp [blockVal]) G rows batches hcodes hb
  have hN := coreColWith_rows _ _ (slotwise_npg .nanlen Val.zero rfl (fun _ => rfl)) Val.zero (by simp [blockVal])
    G rows batches hcodes hb
  have eK : ∀ c v s, engineCall .npg k c v s fv
      = (List.range s).map fun (g : Nat) => blockVal k fv (members (Int.ofNat g) c v) :=
    fun c v s => slotwise_npg k fv hna hz c v s
  have eN : ∀ c v s, engineCall .npg .nanlen c v s Val.zero
      = (List.range s).map fun (g : Nat) => blockVal .nanlen Val.zero (members (Int.ofNat g) c v) :=
    fun c v s => slotwise_npg .nanlen Val.zero rfl (fun _ => rfl) c v s
  simp only [eagerCore, hnumpy, hfills, harg, hmc, hfill, List.zip_cons_cons, List.zip_nil_right, List.map_cons,
    List.map_nil, List.headD_cons, List.getLastD_cons, coreCol, Bool.false_eq_true, if_false, if_true]
  simp only [List.getLastD]
  rw [hK, hN]
  rw [maskCounts_some _ hmc]
  · congr 1
    rw [zipWith_flatMap]
    · apply flatMap_congr'
      intro vrows _
      rw [zipWith_flatMap]
      · apply flatMap_congr'
        intro r _
        rw [eK, eN, zipWith_map_same]
        rfl
      · intro r _
        rw [eK, eN]; simp
    · intro vrows _
      rw [length_flatMap_const _ _ G (fun r _ => by rw [eK]; simp),
          length_flatMap_const _ _ G (fun r _ => by rw [eN]; simp)]
  · rw [length_flatMap_const _ _ (rows.length * G), length_flatMap_const _ _ (rows.length * G)]
    · intro vrows _
      rw [length_flatMap_const _ _ G (fun r _ => by rw [eN]; simp)]
      simp
    · intro vrows _
      rw [length_flatMap_const _ _ G (fun r _ => by rw [eK]; simp)]
      simp

/-- **`min_count ↦ 1` fills groups that are absent from a slice**: a slot without members gets the user's fill -/
theorem slotFinal_absent (k : Kernel) (fv : Val) (mc : Nat) (hmc : 1 ≤ mc) (f : Val) :
    slotFinal k fv mc f [] = f := by
  have : countBelow (blockVal .nanlen Val.zero []) mc = true := by
    simp only [blockVal, List.isEmpty_nil, if_true, Val.zero, countBelow, decide_eq_true_eq]
    exact Rat.natCast_pos.mpr (by omega)
  simp [slotFinal, this]

end PartialAxis
end Flox
