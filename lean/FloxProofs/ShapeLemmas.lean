/-
  Basic facts about `Shape.fits` / `Resolved.shape?` (`FloxModel/RowShape.lean`).
-/
import FloxModel.RowShape

namespace Flox

/-- the count-column suffix -/
abbrev cntSuffix {α} (R : Resolved) (x : α) : List α := if R.minCount > 0 then [x] else []

/-- `Shape.fits` unpacked into propositions -/
structure Shape.Fits (s : Shape) (R : Resolved) : Prop where
  isArg : R.isArg = false
  wf : s.wf = true
  fin : s.finalizeOK R.finalize = true
  ddof : s.ddofOK R.ddof = true
  numpy : R.numpy = s.kernel :: cntSuffix R Kernel.nanlen
  chunk : R.chunk = s.chunk ++ cntSuffix R Kernel.nanlen
  combine : R.combine = s.combine ++ cntSuffix R Kernel.sum
  interFills : R.interFills = s.interFills ++ cntSuffix R Val.zero
  numpyFills : R.numpyFills = R.npFill :: cntSuffix R Val.zero
  lenfill : (s.kernel = .nanlen ∨ s.kernel = .nansumsq) → R.npFill = Val.zero

theorem Shape.fits_iff (s : Shape) (R : Resolved) : s.fits R = true ↔ s.Fits R := by
  constructor
  · intro h
    simp only [Shape.fits, Bool.and_eq_true, Bool.not_eq_true', decide_eq_true_eq, Bool.or_eq_true,
      Bool.not_eq_true'] at h
    obtain ⟨⟨⟨⟨⟨⟨⟨⟨⟨h1, h2⟩, h3⟩, h4⟩, h5⟩, h6⟩, h7⟩, h8⟩, h9⟩, h10⟩ := h
    refine ⟨h1, h2, h3, h4, ?_, ?_, ?_, ?_, ?_, ?_⟩
    · by_cases hm : R.minCount > 0 <;> simpa [cntSuffix, hm] using h5
    · by_cases hm : R.minCount > 0 <;> simpa [cntSuffix, hm] using h6
    · by_cases hm : R.minCount > 0 <;> simpa [cntSuffix, hm] using h7
    · by_cases hm : R.minCount > 0 <;> simpa [cntSuffix, hm] using h8
    · by_cases hm : R.minCount > 0 <;> simpa [cntSuffix, hm] using h9
    · intro hk
      rcases h10 with h10 | h10
      · simp only [Bool.or_eq_false_iff, decide_eq_false_iff_not] at h10
        exact absurd hk (by rcases hk with hk | hk <;> simp_all)
      · exact h10
  · intro ⟨h1, h2, h3, h4, h5, h6, h7, h8, h9, h10⟩
    simp only [Shape.fits, Bool.and_eq_true, Bool.not_eq_true', decide_eq_true_eq, Bool.or_eq_true]
    refine ⟨⟨⟨⟨⟨⟨⟨⟨⟨h1, h2⟩, h3⟩, h4⟩, ?_⟩, ?_⟩, ?_⟩, ?_⟩, ?_⟩, ?_⟩
    · by_cases hm : R.minCount > 0 <;> simpa [cntSuffix, hm] using h5
    · by_cases hm : R.minCount > 0 <;> simpa [cntSuffix, hm] using h6
    · by_cases hm : R.minCount > 0 <;> simpa [cntSuffix, hm] using h7
    · by_cases hm : R.minCount > 0 <;> simpa [cntSuffix, hm] using h8
    · by_cases hm : R.minCount > 0 <;> simpa [cntSuffix, hm] using h9
    · by_cases hk : s.kernel = .nanlen ∨ s.kernel = .nansumsq
      · exact Or.inr (h10 hk)
      · left
        simp only [not_or] at hk
        simp [hk.1, hk.2]

/-- kernels of the built-in columns are not arg-kernels and not mean/var -/
theorem floatColumns_kernel {k c : Kernel} {f : Val} (h : (k, c, f) ∈ floatColumns) :
    isArgKernel k = false ∧ k ≠ .mean ∧ k ≠ .nanmean ∧ (∀ d, k ≠ .var d) ∧ (∀ d, k ≠ .nanvar d) := by
  simp only [floatColumns, List.mem_cons, Prod.mk.injEq, List.mem_nil_iff, or_false] at h
  rcases h with ⟨rfl, _, _⟩ | ⟨rfl, _, _⟩ | ⟨rfl, _, _⟩ | ⟨rfl, _, _⟩ | ⟨rfl, _, _⟩ | ⟨rfl, _, _⟩ |
    ⟨rfl, _, _⟩ | ⟨rfl, _, _⟩ | ⟨rfl, _, _⟩ | ⟨rfl, _, _⟩ | ⟨rfl, _, _⟩ | ⟨rfl, _, _⟩ | ⟨rfl, _, _⟩ |
    ⟨rfl, _, _⟩ | ⟨rfl, _, _⟩ <;> simp [isArgKernel]

theorem Shape.Fits.guess {s : Shape} {R : Resolved} (h : s.Fits R) : R.shapeGuess = some s := by
  have hn := h.numpy
  have hc := h.combine
  have hf := h.interFills
  cases s with
  | simple k c f =>
    have hwf : (k, c, f) ∈ floatColumns := by simpa [Shape.wf] using h.wf
    obtain ⟨_, h1, h2, h3, h4⟩ := floatColumns_kernel hwf
    simp only [Shape.kernel, Shape.combine, Shape.interFills] at hn hc hf
    unfold Resolved.shapeGuess
    rw [hn, hc, hf]
    simp only [List.head?_cons, List.cons_append, List.nil_append]
  | mean b => cases b <;> simp [Resolved.shapeGuess, hn, Shape.kernel]
  | var b d => cases b <;> simp [Resolved.shapeGuess, hn, Shape.kernel]

theorem Resolved.shape?_eq_some_iff (R : Resolved) (s : Shape) : R.shape? = some s ↔ s.Fits R := by
  constructor
  · intro h
    unfold Resolved.shape? at h
    split at h
    · split at h
      · cases h
        exact (Shape.fits_iff _ _).mp ‹_›
      · cases h
    · cases h
  · intro h
    unfold Resolved.shape?
    rw [h.guess]
    simp [(Shape.fits_iff s R).mpr h]

end Flox
