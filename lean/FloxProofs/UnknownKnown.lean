/-
  Labels discovered at compute time vs labels factorised in advance (glue for `FloxProps/C12.lean`):
  `runUnknown` returns the found labels together with `Spec.reduce` over the codes `factorizeLabels` assigns.
-/
import FloxProofs.Grouped
import FloxModel.Entry

namespace Flox.Grp

theorem codeOf_eq_natCast_iff (sort : Bool) (keys : List Key) (k : Key) (hk : k ∈ keys) (i : Nat)
    (hi : i < (foundOf sort keys).length) :
    codeOf (foundOf sort keys) k = Int.ofNat i ↔ k = some (foundOf sort keys)[i] := by
  rw [← codeOf_eq_iff sort keys k hk i hi]
  by_cases h1 : codeOf (foundOf sort keys) k = -1
  · simp only [h1, BEq.rfl, if_true, Int.ofNat_eq_natCast]
    constructor
    · intro h; omega
    · intro h; omega
  · have : ¬ ((codeOf (foundOf sort keys) k == -1) = true) := by simpa using h1
    rw [if_neg this]

/-- the members of the `i`-th found label, addressed by code or by key -/
theorem members_codeOf (sort : Bool) (keys : List Key) (i : Nat) (hi : i < (foundOf sort keys).length)
    (ks : List Key) (hks : ∀ k ∈ ks, k ∈ keys) (vals : List Val) :
    members (Int.ofNat i) (ks.map (codeOf (foundOf sort keys))) vals
      = membersK (some (foundOf sort keys)[i]) ks vals := by
  induction ks generalizing vals with
  | nil => simp
  | cons k ks ih =>
    cases vals with
    | nil => simp
    | cons v vs =>
      have hk : k ∈ keys := hks k (by simp)
      have ih' := ih (fun k' hk' => hks k' (by simp [hk'])) vs
      simp only [List.map_cons, members_cons, membersK_cons]
      by_cases hc : codeOf (foundOf sort keys) k = Int.ofNat i
      · have := (codeOf_eq_natCast_iff sort keys k hk i hi).mp hc
        rw [if_pos hc, if_pos this, ih']
      · have : ¬ k = some (foundOf sort keys)[i] := fun e => hc ((codeOf_eq_natCast_iff sort keys k hk i hi).mpr e)
        rw [if_neg hc, if_neg this, ih']

theorem list_eq_map_range (l : List Rat) : (List.range l.length).map (fun i => l.getD i 0) = l := by
  apply List.ext_getElem
  · simp
  · intro i h1 h2
    simp at h1
    simp [List.getD, h1]

theorem factorizeLabels_none (keys : List Key) (sort : Bool) :
    factorizeLabels keys none sort = (foundOf sort keys, keys.map (codeOf (foundOf sort keys))) := by
  simp only [factorizeLabels]
  exact factorizeKeys_none keys sort

/-- **`runUnknown` = the found labels + `Spec.reduce` over the factorised codes** -/
theorem runUnknown_eq_reduce_factorized (R : Resolved) (s : Shape) (c : Call) (chunks : List Nat) (keys : List Key)
    (vals : List Val)
    (hR : c.R = R) (heng : c.eng = .npg) (hshape : R.shape? = some s)
    (hlen : keys.length = vals.length)
    (H_minmax : HMinMax R s) (H_allmissing : HAllMissing R keys)
    (hchunks : chunks ≠ []) (hsum : chunks.sum = keys.length) :
    runUnknown c chunks keys vals
      = (match Spec.reduce s.kernel R.minCount R.userFill (factorizeLabels keys none c.sort).2 vals
            (factorizeLabels keys none c.sort).1.length with
          | some vs => .ok ((factorizeLabels keys none c.sort).1.map some, vs)
          | none => .error "ValueError") := by
  have hs := (R.shape?_eq_some_iff s).mp hshape
  rw [runUnknown_eq_spec R s c chunks keys vals hR heng hshape hlen H_minmax H_allmissing hchunks hsum,
    factorizeLabels_none]
  simp only
  have hm : (foundOf c.sort keys).mapM (fun r => specSlot R s.kernel (membersK (some r) keys vals))
      = specResult s.kernel R (keys.map (codeOf (foundOf c.sort keys))) vals (foundOf c.sort keys).length := by
    rw [specResult_slots hs]
    have h1 : ((List.range (foundOf c.sort keys).length).map (fun i => (foundOf c.sort keys).getD i 0)).mapM
          (fun r => specSlot R s.kernel (membersK (some r) keys vals))
        = (foundOf c.sort keys).mapM (fun r => specSlot R s.kernel (membersK (some r) keys vals)) := by
      rw [list_eq_map_range]
    rw [← h1, mapM_except_map]
    apply mapM_except_congr
    intro i hi
    have hi' : i < (foundOf c.sort keys).length := by simpa using hi
    rw [members_codeOf c.sort keys i hi' keys (fun _ h => h) vals]
    congr 3
    simp [List.getD, hi']
  unfold specUnknown
  rw [hm]
  unfold specResult
  cases Spec.reduce s.kernel R.minCount R.userFill (keys.map (codeOf (foundOf c.sort keys))) vals
      (foundOf c.sort keys).length <;> rfl

end Flox.Grp
