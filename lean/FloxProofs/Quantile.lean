/-
  Proofs for the grouped quantile model (C18).
-/
import FloxModel.Quantile
import FloxProofs.StableSort

namespace Flox
namespace Quantile

/-! ### the complex order is a total order -/

theorem cle_total (a b : Int × Val) : cle a b = true ∨ cle b a = true := by
  obtain ⟨ka, va⟩ := a
  obtain ⟨kb, vb⟩ := b
  cases va <;> cases vb <;> simp [cle, clt, Val.lt, Val.isNaN] <;> grind

theorem cle_trans (a b c : Int × Val) (h1 : cle a b = true) (h2 : cle b c = true) : cle a c = true := by
  obtain ⟨ka, va⟩ := a
  obtain ⟨kb, vb⟩ := b
  obtain ⟨kc, vc⟩ := c
  cases va <;> cases vb <;> cases vc <;> simp [cle, clt, Val.lt, Val.isNaN] at h1 h2 ⊢ <;> grind

theorem cle_antisymm (a b : Int × Val) (h1 : cle a b = true) (h2 : cle b a = true) : a = b := by
  obtain ⟨ka, va⟩ := a
  obtain ⟨kb, vb⟩ := b
  cases va <;> cases vb <;> simp [cle, clt, Val.lt, Val.isNaN] at h1 h2 ⊢ <;> grind

/-! ### `csort` sorts -/

abbrev CSorted (l : List (Int × Val)) : Prop := List.Pairwise (fun a b => cle a b = true) l

theorem cinsert_perm (x : Int × Val) (l : List (Int × Val)) : (cinsert x l).Perm (x :: l) := by
  induction l with
  | nil => simp [cinsert]
  | cons y ys ih =>
    simp only [cinsert]
    split
    · exact List.Perm.refl _
    · exact (List.Perm.cons y ih).trans (List.Perm.swap x y ys)

theorem csort_perm (l : List (Int × Val)) : (csort l).Perm l := by
  induction l with
  | nil => simp [csort]
  | cons x xs ih => exact (cinsert_perm x _).trans (List.Perm.cons x ih)

theorem cinsert_sorted (x : Int × Val) (l : List (Int × Val)) (h : CSorted l) : CSorted (cinsert x l) := by
  induction l with
  | nil => simp [cinsert]
  | cons y ys ih =>
    simp only [cinsert]
    have hy := List.pairwise_cons.mp h
    split
    · rename_i hxy
      refine List.pairwise_cons.mpr ⟨?_, h⟩
      intro a ha
      rcases List.mem_cons.mp ha with rfl | ha
      · exact hxy
      · exact cle_trans _ _ _ hxy (hy.1 a ha)
    · rename_i hxy
      refine List.pairwise_cons.mpr ⟨?_, ih hy.2⟩
      intro a ha
      have := (cinsert_perm x ys).mem_iff.mp ha
      rcases List.mem_cons.mp this with rfl | ha
      · rcases cle_total a y with h' | h'
        · exact absurd h' hxy
        · exact h'
      · exact hy.1 a ha

theorem csort_sorted (l : List (Int × Val)) : CSorted (csort l) := by
  induction l with
  | nil => simp [csort]
  | cons x xs ih => exact cinsert_sorted x _ ih

/-- a sorted list splits at any downward-closed predicate -/
theorem sorted_split (p : Int × Val → Bool) (hp : ∀ x y, cle x y = true → p y = true → p x = true)
    (l : List (Int × Val)) (h : CSorted l) : l = l.filter p ++ l.filter (fun x => !p x) := by
  induction l with
  | nil => simp
  | cons x xs ih =>
    have hx := List.pairwise_cons.mp h
    by_cases hpx : p x = true
    · simp only [List.filter_cons, hpx, if_true, Bool.not_true, Bool.false_eq_true, if_false, List.cons_append]
      exact congrArg _ (ih hx.2)
    · have hnone : xs.filter p = [] := by
        apply List.filter_eq_nil_iff.mpr
        intro a ha hpa
        exact hpx (hp x a (hx.1 a ha) hpa)
      have hall : xs.filter (fun x => !p x) = xs := by
        apply List.filter_eq_self.mpr
        intro a ha
        have : ¬ p a = true := fun hpa => hpx (hp x a (hx.1 a ha) hpa)
        simpa using this
      simp [hpx, hnone, hall]

/-! ### the three zones of the sorted array seen from group `g` -/

def validLt (g : Int) (x : Int × Val) : Bool := !x.2.isNaN && decide (x.1 < g)
def validLe (g : Int) (x : Int × Val) : Bool := !x.2.isNaN && decide (x.1 ≤ g)
def validEq (g : Int) (x : Int × Val) : Bool := !x.2.isNaN && decide (x.1 = g)

theorem validLt_down (g : Int) (x y : Int × Val) (h : cle x y = true) (hy : validLt g y = true) :
    validLt g x = true := by
  obtain ⟨kx, vx⟩ := x
  obtain ⟨ky, vy⟩ := y
  cases vx <;> cases vy <;> simp [cle, clt, Val.lt, Val.isNaN, validLt] at h hy ⊢ <;> grind

theorem validLe_down (g : Int) (x y : Int × Val) (h : cle x y = true) (hy : validLe g y = true) :
    validLe g x = true := by
  obtain ⟨kx, vx⟩ := x
  obtain ⟨ky, vy⟩ := y
  cases vx <;> cases vy <;> simp [cle, clt, Val.lt, Val.isNaN, validLe] at h hy ⊢ <;> grind

/-- sorted array = (valid entries of smaller groups) ++ (valid entries of `g`) ++ (everything else) -/
theorem csorted_three (g : Int) (l : List (Int × Val)) (h : CSorted l) :
    l = l.filter (validLt g) ++ (l.filter (validEq g) ++ l.filter (fun x => !validLe g x)) := by
  have h1 := sorted_split (validLt g) (validLt_down g) l h
  have hX : CSorted (l.filter (fun x => !validLt g x)) := List.Pairwise.filter _ h
  have h2 := sorted_split (validLe g) (validLe_down g) _ hX
  rw [List.filter_filter, List.filter_filter] at h2
  have e1 : l.filter (fun a => validLe g a && !validLt g a) = l.filter (validEq g) := by
    apply List.filter_congr
    intro x _
    obtain ⟨k, v⟩ := x
    cases v <;> simp [validLe, validLt, validEq, Val.isNaN] <;> grind
  have e2 : l.filter (fun a => (!validLe g a) && !validLt g a) = l.filter (fun x => !validLe g x) := by
    apply List.filter_congr
    intro x _
    obtain ⟨k, v⟩ := x
    cases v <;> simp [validLe, validLt, Val.isNaN] <;> grind
  rw [e1, e2] at h2
  rw [← h2]
  exact h1

/-! ### the specification's sort -/

theorem insertAsc_perm (x : Rat) (l : List Rat) : (insertAsc x l).Perm (x :: l) := by
  induction l with
  | nil => simp [insertAsc]
  | cons y ys ih =>
    simp only [insertAsc]
    split
    · exact List.Perm.refl _
    · exact (List.Perm.cons y ih).trans (List.Perm.swap x y ys)

theorem sortAsc_perm (l : List Rat) : (sortAsc l).Perm l := by
  induction l with
  | nil => simp [sortAsc]
  | cons x xs ih => exact (insertAsc_perm x _).trans (List.Perm.cons x ih)

theorem sortAsc_length (l : List Rat) : (sortAsc l).length = l.length := (sortAsc_perm l).length_eq

theorem insertAsc_sorted (x : Rat) (l : List Rat) (h : l.Pairwise (· ≤ ·)) : (insertAsc x l).Pairwise (· ≤ ·) := by
  induction l with
  | nil => simp [insertAsc]
  | cons y ys ih =>
    simp only [insertAsc]
    have hy := List.pairwise_cons.mp h
    split
    · rename_i hxy
      refine List.pairwise_cons.mpr ⟨?_, h⟩
      intro a ha
      rcases List.mem_cons.mp ha with rfl | ha
      · exact hxy
      · exact Rat.le_trans hxy (hy.1 a ha)
    · rename_i hxy
      refine List.pairwise_cons.mpr ⟨?_, ih hy.2⟩
      intro a ha
      have := (insertAsc_perm x ys).mem_iff.mp ha
      rcases List.mem_cons.mp this with rfl | ha
      · rcases Rat.le_total (a := a) (b := y) with h' | h'
        · exact absurd h' hxy
        · exact h'
      · exact hy.1 a ha

theorem sortAsc_sorted (l : List Rat) : (sortAsc l).Pairwise (· ≤ ·) := by
  induction l with
  | nil => simp [sortAsc]
  | cons x xs ih => exact insertAsc_sorted x _ ih

/-! ### the zone of group `g` holds its sorted valid members -/

/-- the property's quantifier: values are finite or NaN -/
def NoInf (vs : List Val) : Prop := ∀ v ∈ vs, v ≠ Val.pinf ∧ v ≠ Val.ninf

theorem dropNaN_eq_finites (ms : List Val) (h : NoInf ms) : dropNaN ms = (finites ms).map Val.fin := by
  induction ms with
  | nil => simp [dropNaN, finites]
  | cons v vs ih =>
    have hv := h v (by simp)
    have hvs : NoInf vs := fun w hw => h w (List.mem_cons_of_mem _ hw)
    have ih' := ih hvs
    unfold dropNaN at ih' ⊢
    cases v with
    | nan => simpa [finites, Val.isNaN, List.filter_cons] using ih'
    | fin r => simpa [finites, Val.isNaN, List.filter_cons] using ih'
    | pinf => exact absurd rfl hv.1
    | ninf => exact absurd rfl hv.2

theorem members_subset (g : Int) (codes : List Int) (vals : List Val) :
    ∀ v ∈ members g codes vals, v ∈ vals := by
  induction codes generalizing vals with
  | nil => simp
  | cons c cs ih =>
    cases vals with
    | nil => simp
    | cons w ws =>
      intro v hv
      rw [members_cons] at hv
      split at hv
      · rcases List.mem_cons.mp hv with rfl | hv
        · simp
        · exact List.mem_cons_of_mem _ (ih ws v hv)
      · exact List.mem_cons_of_mem _ (ih ws v hv)

theorem NoInf_members (g : Int) (codes : List Int) (vals : List Val) (h : NoInf vals) :
    NoInf (members g codes vals) := fun v hv => h v (members_subset g codes vals v hv)

theorem filter_key_eq_map (l : List (Int × Val)) (g : Int) :
    l.filter (fun p => p.1 = g) = ((l.filter (fun p => p.1 = g)).map (·.2)).map (fun v => (g, v)) := by
  rw [List.map_map]
  conv => lhs; rw [← List.map_id (l.filter (fun p => p.1 = g))]
  apply List.map_congr_left
  intro p hp
  have := (List.mem_filter.mp hp).2
  simp only [decide_eq_true_eq] at this
  simp [← this]

theorem prepare_zone (g : Int) (codes : List Int) (vals : List Val) (h : NoInf vals) :
    (EngineFlox.prepare codes vals).filter (validEq g)
      = (finites (members g codes vals)).map (fun r => (g, Val.fin r)) := by
  have e : (EngineFlox.prepare codes vals).filter (validEq g)
      = ((EngineFlox.prepare codes vals).filter (fun p => p.1 = g)).filter (fun p => !p.2.isNaN) := by
    rw [List.filter_filter]
    apply List.filter_congr
    intro x _
    simp [validEq]
  rw [e, filter_key_eq_map, EngineFlox.prepare_members, List.filter_map]
  have : (members g codes vals).filter ((fun p : Int × Val => !p.2.isNaN) ∘ fun v => (g, v))
      = dropNaN (members g codes vals) := by
    unfold dropNaN
    apply List.filter_congr
    intro x _
    rfl
  rw [this, dropNaN_eq_finites _ (NoInf_members g codes vals h), List.map_map]
  rfl

theorem csort_zone (g : Int) (codes : List Int) (vals : List Val) (h : NoInf vals) :
    (csort (EngineFlox.prepare codes vals)).filter (validEq g)
      = (sortAsc (finites (members g codes vals))).map (fun r => (g, Val.fin r)) := by
  apply List.Perm.eq_of_pairwise (le := fun a b => cle a b = true)
  · intro a b _ _ h1 h2
    exact cle_antisymm a b h1 h2
  · exact List.Pairwise.filter _ (csort_sorted _)
  · rw [List.pairwise_map]
    refine List.Pairwise.imp ?_ (sortAsc_sorted _)
    intro a b hab
    simp [cle, clt, Val.lt, Val.isNaN]
    exact Rat.not_lt.mpr hab
  · refine ((csort_perm _).filter _).trans ?_
    rw [prepare_zone g codes vals h]
    exact ((sortAsc_perm _).map _).symm

/-! ### `_lerp` -/

theorem lerp_fin (a b t : Rat) : lerp (Val.fin a) (Val.fin b) t = Val.fin (a + (b - a) * t) := by
  unfold lerp
  simp only [Val.sub, Val.neg, Val.add, Val.mul]
  split
  · congr 1; grind
  · congr 1; grind

/-- at `γ = 0` the left bound is returned -/
theorem lerp_zero (a b : Rat) : lerp (Val.fin a) (Val.fin b) 0 = Val.fin a := by
  rw [lerp_fin]; congr 1; grind

/-- the interpolated value lies between the bounds -/
theorem lerp_between (a b t : Rat) (hab : a ≤ b) (h0 : 0 ≤ t) (h1 : t ≤ 1) :
    ∃ r, lerp (Val.fin a) (Val.fin b) t = Val.fin r ∧ a ≤ r ∧ r ≤ b := by
  refine ⟨a + (b - a) * t, lerp_fin a b t, ?_, ?_⟩
  · have h : 0 ≤ (b - a) * t := Rat.mul_nonneg (by grind) h0
    grind
  · have h : (b - a) * t ≤ (b - a) * 1 := Rat.mul_le_mul_of_nonneg_left h1 (by grind)
    grind

/-! ### one cell, given the three zones -/

theorem takeWrap_nonneg (S : List Val) (i : Int) (h : 0 ≤ i) : takeWrap S i = S.getD i.toNat Val.nan := by
  unfold takeWrap
  rw [if_neg (by omega)]

theorem getD_zone (A C : List Val) (srt : List Rat) (k : Nat) (hk : k < srt.length) :
    (A ++ (srt.map Val.fin ++ C)).getD (A.length + k) Val.nan = Val.fin (srt.getD k 0) := by
  rw [List.getD_eq_getElem?_getD, List.getD_eq_getElem?_getD,
    List.getElem?_append_right (by omega), Nat.add_sub_cancel_left,
    List.getElem?_append_left (by simpa using hk)]
  simp [hk]

theorem virtual_bounds (q : Rat) (hq0 : 0 ≤ q) (hq1 : q ≤ 1) (n : Nat) (hn : 0 < n) :
    let v : Rat := q * (((n : Int) - 1 : Int) : Rat)
    0 ≤ v.floor ∧ v.floor ≤ v.ceil ∧ v.ceil ≤ (n : Int) - 1 := by
  intro v
  have hm : (0 : Rat) ≤ (((n : Int) - 1 : Int) : Rat) := Rat.intCast_nonneg.mpr (by omega)
  have hv0 : 0 ≤ v := Rat.mul_nonneg hq0 hm
  have hv1 : v ≤ (((n : Int) - 1 : Int) : Rat) := by
    have := Rat.mul_le_mul_of_nonneg_right hq1 hm
    simpa [v] using this
  refine ⟨Rat.le_floor_iff.mpr (by simpa using hv0), ?_, Rat.ceil_le_iff.mpr hv1⟩
  have := Rat.floor_monotone (Rat.le_ceil (x := v))
  rwa [Rat.floor_intCast] at this

theorem cell_eq_linear (A C : List Val) (srt : List Rat) (q : Rat) (hq0 : 0 ≤ q) (hq1 : q ≤ 1)
    (hn : srt ≠ []) :
    cell (A ++ (srt.map Val.fin ++ C)) q A.length srt.length = Val.fin (linear q srt) := by
  have hlen : 0 < srt.length := List.length_pos_iff.mpr hn
  obtain ⟨hf0, hfc, hc1⟩ := virtual_bounds q hq0 hq1 srt.length hlen
  unfold cell linear
  simp only
  generalize hv : q * (((srt.length : Int) - 1 : Int) : Rat) = v at hf0 hfc hc1 ⊢
  rw [Rat.floor_add_intCast, Rat.ceil_add_intCast]
  rw [takeWrap_nonneg _ _ (by omega), takeWrap_nonneg _ _ (by omega)]
  have e1 : (v.floor + ((A.length : Nat) : Int)).toNat = A.length + v.floor.toNat := by omega
  have e2 : (v.ceil + ((A.length : Nat) : Int)).toNat = A.length + v.ceil.toNat := by omega
  rw [e1, e2, getD_zone A C srt _ (by omega), getD_zone A C srt _ (by omega), lerp_fin]
  congr 2
  rw [Rat.intCast_add]
  grind

/-! ### the loop over the present groups -/

/-- the value of one present group given the offset of its zone -/
def cellR (skipna : Bool) (q : Rat) (S : List Val) (off : Nat) (ms : List Val) : Val :=
  if !skipna && (dropNaN ms).length ≠ ms.length then Val.nan
  else if skipna && (dropNaN ms).length = 0 then Val.nan
  else cell S q off (dropNaN ms).length

/-- number of valid members in the segments before the first one with key `g` -/
def validBefore (g : Int) : List (Int × List Val) → Nat
  | [] => 0
  | (k, ms) :: rest => if g = k then 0 else (dropNaN ms).length + validBefore g rest

theorem segResults_lookup (skipna : Bool) (q : Rat) (S : List Val) (segs : List (Int × List Val)) (off : Nat)
    (g : Int) :
    (segResults skipna q S off segs).lookup g
      = (segs.lookup g).map (fun ms => cellR skipna q S (off + validBefore g segs) ms) := by
  induction segs generalizing off with
  | nil => simp [segResults]
  | cons p rest ih =>
    obtain ⟨k, ms⟩ := p
    simp only [segResults, EngineFlox.lookup_cons_ite, validBefore]
    by_cases hg : g = k
    · simp [hg, cellR]
    · simp only [hg, if_false]
      rw [ih]
      congr 1
      funext ms'
      congr 1
      omega

/-- for a key-sorted array the cumulative count in front of a present group `g` is the number of valid
    entries with a smaller key -/
theorem validBefore_segments (s : List (Int × Val)) (hs : EngineFlox.KeySorted s) (g : Int)
    (hg : s.filter (fun p => p.1 = g) ≠ []) :
    validBefore g (EngineFlox.segments s) = (s.filter (validLt g)).length := by
  induction s with
  | nil => simp at hg
  | cons p rest ih =>
    obtain ⟨k, v⟩ := p
    have hp := List.pairwise_cons.mp hs
    by_cases hgk : g = k
    · -- `g` is the first key: nothing in front, and nothing smaller anywhere
      obtain ⟨vs, segs, hseg⟩ := EngineFlox.segments_head (k, v) rest
      rw [hseg]
      have hnone : ((k, v) :: rest).filter (validLt g) = [] := by
        apply List.filter_eq_nil_iff.mpr
        intro a ha
        have : k ≤ a.1 := by
          rcases List.mem_cons.mp ha with rfl | ha
          · exact Int.le_refl _
          · exact hp.1 a ha
        simp [validLt]
        intro _
        omega
      rw [hnone]
      simp [validBefore, hgk]
    · have hrest : rest.filter (fun p => p.1 = g) ≠ [] := by
        have : ¬ k = g := fun h => hgk h.symm
        simpa [List.filter_cons, this] using hg
      have ih' := ih hp.2 hrest
      -- `g` occurs later, hence `k < g`
      have hkg : k < g := by
        obtain ⟨a, ha⟩ := List.exists_mem_of_ne_nil _ hrest
        have ha' := List.mem_filter.mp ha
        have h1 : k ≤ a.1 := hp.1 a ha'.1
        have h2 : a.1 = g := by simpa using ha'.2
        omega
      have hcount : (((k, v) :: rest).filter (validLt g)).length
          = (dropNaN [v]).length + (rest.filter (validLt g)).length := by
        cases v <;> simp [validLt, dropNaN, Val.isNaN, hkg] <;> omega
      rw [hcount, ← ih']
      cases rest with
      | nil => simp at hrest
      | cons r rest' =>
        obtain ⟨vs, segs, hseg⟩ := EngineFlox.segments_head r rest'
        rw [EngineFlox.segments_cons, hseg]
        simp only
        by_cases hkk : k = r.1
        · rw [if_pos hkk]
          have hgr : ¬ g = r.1 := fun h => hgk (h.trans hkk.symm)
          simp only [validBefore, hgk, hgr, if_false]
          cases v <;> simp [dropNaN, Val.isNaN] <;> omega
        · rw [if_neg hkk]
          simp only [validBefore, hgk, if_false]

/-! ### slot by slot -/

theorem engineFlox_length (skipna : Bool) (q : Rat) (codes : List Int) (vals : List Val) (size : Nat) (fill : Val) :
    (engineFlox skipna q codes vals size fill).length = size := by
  simp [engineFlox]

theorem engineFlox_slot (skipna : Bool) (q : Rat) (codes : List Int) (vals : List Val) (size : Nat) (fill : Val)
    (g : Nat) (hg : g < size) :
    (engineFlox skipna q codes vals size fill)[g]? = some (
      if members (Int.ofNat g) codes vals = [] then fill
      else cellR skipna q ((csort (EngineFlox.prepare codes vals)).map (·.2))
        ((EngineFlox.prepare codes vals).filter (validLt (Int.ofNat g))).length
        (members (Int.ofNat g) codes vals)) := by
  unfold engineFlox
  simp only [List.getElem?_map, List.getElem?_range hg, Option.map_some]
  generalize Int.ofNat g = gi
  rw [segResults_lookup, EngineFlox.segments_lookup _ (EngineFlox.prepare_sorted codes vals)]
  by_cases h : (EngineFlox.prepare codes vals).filter (fun p => p.1 = gi) = []
  · have hm : members gi codes vals = [] := by
      rw [← EngineFlox.prepare_members, h]; rfl
    simp [h, hm]
  · have hm : members gi codes vals ≠ [] := by
      rw [← EngineFlox.prepare_members]
      simpa using h
    rw [if_neg h, if_neg hm, Option.map_some, EngineFlox.prepare_members,
      validBefore_segments _ (EngineFlox.prepare_sorted codes vals) gi h]
    simp

theorem cell_correct (q : Rat) (hq0 : 0 ≤ q) (hq1 : q ≤ 1) (codes : List Int) (vals : List Val)
    (h : NoInf vals) (g : Int) (hv : finites (members g codes vals) ≠ []) :
    cell ((csort (EngineFlox.prepare codes vals)).map (·.2)) q
        ((EngineFlox.prepare codes vals).filter (validLt g)).length
        (dropNaN (members g codes vals)).length
      = Val.fin (linear q (sortAsc (finites (members g codes vals)))) := by
  have h3 := csorted_three g _ (csort_sorted (EngineFlox.prepare codes vals))
  rw [csort_zone g codes vals h] at h3
  have hS := congrArg (List.map (·.2)) h3
  rw [List.map_append, List.map_append, List.map_map] at hS
  have hmap : ((fun x : Int × Val => x.2) ∘ fun r => (g, Val.fin r)) = Val.fin := rfl
  rw [hmap] at hS
  have hA : ((EngineFlox.prepare codes vals).filter (validLt g)).length
      = (((csort (EngineFlox.prepare codes vals)).filter (validLt g)).map (·.2)).length := by
    rw [List.length_map]
    exact (((csort_perm _).filter _).length_eq).symm
  have hn : (dropNaN (members g codes vals)).length = (sortAsc (finites (members g codes vals))).length := by
    rw [dropNaN_eq_finites _ (NoInf_members g codes vals h), List.length_map, sortAsc_length]
  have hne : sortAsc (finites (members g codes vals)) ≠ [] := by
    intro h0
    have := sortAsc_length (finites (members g codes vals))
    rw [h0] at this
    exact hv (List.length_eq_zero_iff.mp this.symm)
  rw [hS, hA, hn]
  exact cell_eq_linear _ _ _ q hq0 hq1 hne

theorem hasNaN_iff (ms : List Val) : hasNaN ms = true ↔ (dropNaN ms).length ≠ ms.length := by
  induction ms with
  | nil => simp [hasNaN, dropNaN]
  | cons v vs ih =>
    have hle : (dropNaN vs).length ≤ vs.length := List.length_filter_le _ _
    unfold hasNaN dropNaN at *
    cases v <;> simp [Val.isNaN] at * <;> first | omega | exact ih

/-- **model = specification on every present group** (either variant) -/
theorem cellR_correct (skipna : Bool) (q : Rat) (hq0 : 0 ≤ q) (hq1 : q ≤ 1) (codes : List Int) (vals : List Val)
    (h : NoInf vals) (g : Int) (hne : members g codes vals ≠ []) :
    cellR skipna q ((csort (EngineFlox.prepare codes vals)).map (·.2))
        ((EngineFlox.prepare codes vals).filter (validLt g)).length (members g codes vals)
      = Spec.quantile skipna q (members g codes vals) := by
  have hlen : (dropNaN (members g codes vals)).length = (finites (members g codes vals)).length := by
    rw [dropNaN_eq_finites _ (NoInf_members g codes vals h), List.length_map]
  unfold cellR Spec.quantile
  cases skipna with
  | false =>
    by_cases hnan : hasNaN (members g codes vals) = true
    · have hd := (hasNaN_iff _).mp hnan
      simp [hnan, hd]
    · have hd : (dropNaN (members g codes vals)).length = (members g codes vals).length := by
        by_cases hh : (dropNaN (members g codes vals)).length = (members g codes vals).length
        · exact hh
        · exact absurd ((hasNaN_iff _).mpr hh) hnan
      have hfin : finites (members g codes vals) ≠ [] := by
        intro h0
        rw [hlen, h0] at hd
        exact hne (List.length_eq_zero_iff.mp hd.symm)
      have hnan' : hasNaN (members g codes vals) = false := by simpa using hnan
      simp only [Bool.not_false, Bool.true_and, hnan', Bool.false_eq_true, if_false, if_neg hfin,
        decide_eq_true_eq, hd, ne_eq, not_true_eq_false, Bool.false_and]
      rw [← hd]
      exact cell_correct q hq0 hq1 codes vals h g hfin
  | true =>
    by_cases hfin : finites (members g codes vals) = []
    · have h0 : (dropNaN (members g codes vals)).length = 0 := by rw [hlen, hfin]; rfl
      simp [hfin, h0]
    · have h0 : (dropNaN (members g codes vals)).length ≠ 0 := by
        rw [hlen]; exact fun hz => hfin (List.length_eq_zero_iff.mp hz)
      simp only [Bool.not_true, Bool.false_and, Bool.false_eq_true, if_false, Bool.true_and, decide_eq_true_eq,
        if_neg h0, if_neg hfin]
      exact cell_correct q hq0 hq1 codes vals h g hfin

/-! ### vector `q` -/

theorem range_flatMap_get {α β} (l : List α) (H : α → List β) (K : Nat → List β)
    (hK : ∀ i (hi : i < l.length), K i = H l[i]) : (List.range l.length).flatMap K = l.flatMap H := by
  induction l generalizing K with
  | nil => simp
  | cons a as ih =>
    rw [List.length_cons, List.range_succ_eq_map, List.flatMap_cons, List.flatMap_cons, List.flatMap_map]
    have h0 : K 0 = H a := hK 0 (by simp)
    rw [h0]
    congr 1
    apply ih
    intro i hi
    have := hK (i + 1) (by simpa using hi)
    simpa using this

/-- the per-`q` slots of one block -/
theorem chunkQuantile_snd (eng : Eng) (skipna : Bool) (qs : List Rat) (keys : List Key) (row : List Val)
    (expected : Option Nat) :
    (chunkQuantile eng skipna qs keys row expected).2
      = qs.map fun q => ((chunkQuantile eng skipna [q] keys row expected).2).getD 0 [] := by
  simp [chunkQuantile]

theorem runEager_vector (func : QFunc) (hf : func.isQuantile = true) (qs : List Rat) (labels : List Key)
    (rows : List (List Val)) (batch1d : Bool) :
    (runEager ⟨func, .flox, some (.vector qs)⟩ labels rows batch1d).shape
        = qs.length :: (runEager ⟨func, .flox, some (.scalar 0)⟩ labels rows batch1d).shape
      ∧ (runEager ⟨func, .flox, some (.vector qs)⟩ labels rows batch1d).vals
        = qs.flatMap fun q => (runEager ⟨func, .flox, some (.scalar q)⟩ labels rows batch1d).vals := by
  have hv : validate ⟨func, .flox, some (.vector qs)⟩ = .ok (qs, false) := by
    simp [validate, hf]
  have hs : ∀ q, validate ⟨func, .flox, some (.scalar q)⟩ = .ok ([q], true) := by
    intro q; simp [validate, hf]
  unfold runEager
  rw [hv]
  simp only [hs, assemble, QOutcome.shape, QOutcome.vals, List.length_cons, List.length_nil]
  refine ⟨by simp, ?_⟩
  apply range_flatMap_get
  intro i hi
  have h1 : List.range (0 + 1) = [0] := rfl
  rw [h1, List.flatMap_cons, List.flatMap_nil, List.append_nil, List.flatMap_map, List.flatMap_map]
  rw [List.flatMap_def, List.flatMap_def]
  congr 1
  apply List.map_congr_left
  intro row _
  rw [chunkQuantile_snd]
  simp [hi]

end Quantile
end Flox
