/-
  The stable sort of flox's engine (`ssort` = model of `argsort(kind="stable")`), `prepare`
  (`_prepare_for_flox`) and the run decomposition `segments` (model of `flag/uniques/inv_idx` + reduceat
  segments).

  * `ssort` output is key-sorted, a permutation of the input, and *stable*: for every key `g`
    the sub-list of entries with key `g` is the same as in the input (same elements, same order).
  * the same three facts for `prepare`.
  * for a key-sorted list the segment with key `g` is exactly the (ordered) sub-list of values with key `g`.
  * link to `members`.
-/
import FloxModel.EngineFlox
import FloxProofs.Members

namespace Flox
namespace EngineFlox

/-- key-sortedness (non-decreasing keys) -/
abbrev KeySorted (l : List (Int × Val)) : Prop := List.Pairwise (fun a b => a.1 ≤ b.1) l

/-! ### insertion -/

theorem insertByKeyFront_perm (p : Int × Val) (l : List (Int × Val)) :
    (ssort.insertByKeyFront p l).Perm (p :: l) := by
  induction l with
  | nil => simp [ssort.insertByKeyFront]
  | cons q qs ih =>
    simp only [ssort.insertByKeyFront]
    split
    · exact List.Perm.refl _
    · exact (List.Perm.cons q ih).trans (List.Perm.swap p q qs)

theorem insertByKeyFront_sorted (p : Int × Val) (l : List (Int × Val)) (h : KeySorted l) :
    KeySorted (ssort.insertByKeyFront p l) := by
  induction l with
  | nil => simp [ssort.insertByKeyFront]
  | cons q qs ih =>
    simp only [ssort.insertByKeyFront]
    have hq := List.pairwise_cons.mp h
    split
    · rename_i hpq
      refine List.pairwise_cons.mpr ⟨?_, h⟩
      intro a ha
      rcases List.mem_cons.mp ha with rfl | ha
      · exact hpq
      · exact Int.le_trans hpq (hq.1 a ha)
    · rename_i hpq
      refine List.pairwise_cons.mpr ⟨?_, ih hq.2⟩
      intro a ha
      have := (insertByKeyFront_perm p qs).mem_iff.mp ha
      rcases List.mem_cons.mp this with rfl | ha
      · omega
      · exact hq.1 a ha

/-- inserting `p` puts it in front of every entry with the same key: per-key sub-lists behave like `p :: l` -/
theorem insertByKeyFront_filter (p : Int × Val) (l : List (Int × Val)) (g : Int) :
    (ssort.insertByKeyFront p l).filter (fun q => q.1 = g) = (p :: l).filter (fun q => q.1 = g) := by
  induction l with
  | nil => simp [ssort.insertByKeyFront]
  | cons q qs ih =>
    simp only [ssort.insertByKeyFront]
    split
    · rfl
    · rename_i hpq
      rw [List.filter_cons, ih]
      by_cases hp : p.1 = g
      · have hq : ¬ q.1 = g := by omega
        simp [hp, hq]
      · simp [hp, List.filter_cons]

/-! ### `ssort` -/

theorem ssort_perm (l : List (Int × Val)) : (ssort l).Perm l := by
  induction l with
  | nil => simp [ssort]
  | cons p ps ih =>
    simp only [ssort]
    exact (insertByKeyFront_perm p _).trans (List.Perm.cons p ih)

theorem ssort_sorted (l : List (Int × Val)) : KeySorted (ssort l) := by
  induction l with
  | nil => simp [ssort]
  | cons p ps ih =>
    simp only [ssort]
    exact insertByKeyFront_sorted p _ ih

/-- **stability**: the entries with key `g` appear in the sorted list in their original order -/
theorem ssort_filter (l : List (Int × Val)) (g : Int) :
    (ssort l).filter (fun p => p.1 = g) = l.filter (fun p => p.1 = g) := by
  induction l with
  | nil => simp [ssort]
  | cons p ps ih =>
    simp only [ssort]
    rw [insertByKeyFront_filter, List.filter_cons, List.filter_cons, ih]

/-! ### `prepare` -/

theorem isSortedKeys_sorted (l : List (Int × Val)) (h : isSortedKeys l = true) : KeySorted l := by
  induction l with
  | nil => simp
  | cons p ps ih =>
    cases ps with
    | nil => simp
    | cons q rest =>
      simp only [isSortedKeys, Bool.and_eq_true, decide_eq_true_eq] at h
      have hq := ih h.2
      refine List.pairwise_cons.mpr ⟨?_, hq⟩
      intro a ha
      rcases List.mem_cons.mp ha with rfl | ha
      · exact h.1
      · exact Int.le_trans h.1 ((List.pairwise_cons.mp hq).1 a ha)

theorem sorted_isSortedKeys (l : List (Int × Val)) (h : KeySorted l) : isSortedKeys l = true := by
  induction l with
  | nil => simp [isSortedKeys]
  | cons p ps ih =>
    cases ps with
    | nil => simp [isSortedKeys]
    | cons q rest =>
      have hp := List.pairwise_cons.mp h
      simp only [isSortedKeys, Bool.and_eq_true, decide_eq_true_eq]
      exact ⟨hp.1 q (by simp), ih hp.2⟩

theorem prepare_sorted (codes : List Int) (vals : List Val) : KeySorted (prepare codes vals) := by
  unfold prepare
  simp only
  split
  · rename_i h; exact isSortedKeys_sorted _ h
  · exact ssort_sorted _

theorem prepare_perm (codes : List Int) (vals : List Val) :
    (prepare codes vals).Perm (codes.zip vals) := by
  unfold prepare
  simp only
  split
  · exact List.Perm.refl _
  · exact ssort_perm _

theorem prepare_filter (codes : List Int) (vals : List Val) (g : Int) :
    (prepare codes vals).filter (fun p => p.1 = g) = (codes.zip vals).filter (fun p => p.1 = g) := by
  unfold prepare
  simp only
  split
  · rfl
  · exact ssort_filter _ g

/-- `prepare` returns the zip unchanged when it is already sorted, and `ssort` of it otherwise -
    and on sorted input `ssort` is the identity on every key class, so both branches agree class-wise. -/
theorem prepare_eq_of_sorted (codes : List Int) (vals : List Val) (h : KeySorted (codes.zip vals)) :
    prepare codes vals = codes.zip vals := by
  unfold prepare
  simp [sorted_isSortedKeys _ h]

/-! ### link with `members` -/

/-- the values with key `g` of the zipped list are the members of group `g` (no length hypothesis needed:
    both sides stop at the shorter list) -/
theorem zip_filter_members (g : Int) (codes : List Int) (vals : List Val) :
    ((codes.zip vals).filter (fun p => p.1 = g)).map (fun p => p.2) = members g codes vals := by
  induction codes generalizing vals with
  | nil => simp
  | cons c cs ih =>
    cases vals with
    | nil => simp
    | cons v vs =>
      simp only [List.zip_cons_cons, List.filter_cons, members_cons]
      by_cases hc : c = g <;> simp [hc, ih]

theorem prepare_members (g : Int) (codes : List Int) (vals : List Val) :
    ((prepare codes vals).filter (fun p => p.1 = g)).map (fun p => p.2) = members g codes vals := by
  rw [prepare_filter, zip_filter_members]

/-! ### `segments` -/

theorem segments_cons (k : Int) (v : Val) (rest : List (Int × Val)) :
    segments ((k, v) :: rest) =
      match segments rest with
      | (k', vs) :: segs => if k = k' then (k, v :: vs) :: segs else (k, [v]) :: (k', vs) :: segs
      | [] => [(k, [v])] := by
  simp only [segments]
  cases segments rest with
  | nil => rfl
  | cons a as => rfl

theorem segments_head (p : Int × Val) (rest : List (Int × Val)) :
    ∃ vs segs, segments (p :: rest) = (p.1, vs) :: segs := by
  obtain ⟨k, v⟩ := p
  simp only [segments]
  split
  · split
    · exact ⟨_, _, rfl⟩
    · exact ⟨_, _, rfl⟩
  · exact ⟨_, _, rfl⟩

theorem lookup_cons_ite {β : Type} (g k : Int) (b : β) (es : List (Int × β)) :
    List.lookup g ((k, b) :: es) = if g = k then some b else List.lookup g es := by
  rw [List.lookup_cons]
  by_cases h : g = k
  · simp [h]
  · have hb : (g == k) = false := by simpa using h
    simp [h, hb]

/-- for a key-sorted list, the segment found for key `g` is the ordered list of the values with key `g` -/
theorem segments_lookup (s : List (Int × Val)) (hs : KeySorted s) (g : Int) :
    (segments s).lookup g =
      if s.filter (fun p => p.1 = g) = [] then none
      else some ((s.filter (fun p => p.1 = g)).map (fun p => p.2)) := by
  induction s with
  | nil => simp [segments]
  | cons p rest ih =>
    obtain ⟨k, v⟩ := p
    have hp := List.pairwise_cons.mp hs
    have ih' := ih hp.2
    cases rest with
    | nil =>
      rw [segments_cons]
      simp only [segments, lookup_cons_ite, List.lookup_nil]
      by_cases hg : g = k
      · subst hg; simp
      · have : ¬ k = g := fun h => hg h.symm
        simp [hg, this]
    | cons q rest' =>
      obtain ⟨vs, segs, hseg⟩ := segments_head q rest'
      have hkq : k ≤ q.1 := hp.1 q (by simp)
      rw [segments_cons, hseg]
      simp only
      rw [hseg] at ih'
      by_cases hkk : k = q.1
      · -- the new element joins the first run
        rw [if_pos hkk]
        by_cases hg : g = k
        · have hfil : ((k, v) :: q :: rest').filter (fun p => p.1 = g)
              = (k, v) :: (q :: rest').filter (fun p => p.1 = g) := by
            simp [List.filter_cons, hg]
          have hfil2 : (q :: rest').filter (fun p => p.1 = g)
              = q :: rest'.filter (fun p => p.1 = g) := by
            simp [hg, hkk]
          rw [lookup_cons_ite, if_pos (hg.trans hkk), hfil2, if_neg (List.cons_ne_nil _ _)] at ih'
          rw [lookup_cons_ite, if_pos hg, hfil, if_neg (List.cons_ne_nil _ _), hfil2]
          simp only [Option.some.injEq] at ih'
          simp [ih']
        · have hfil : ((k, v) :: q :: rest').filter (fun p => p.1 = g)
              = (q :: rest').filter (fun p => p.1 = g) := by
            have : ¬ k = g := fun h => hg h.symm
            simp [List.filter_cons, this]
          rw [lookup_cons_ite, if_neg (fun h => hg (h.trans hkk.symm))] at ih'
          rw [lookup_cons_ite, if_neg hg, hfil, ih']
      · -- the new element starts a new run; every later key is strictly larger
        rw [if_neg hkk]
        by_cases hg : g = k
        · have hnone : (q :: rest').filter (fun p => p.1 = g) = [] := by
            apply List.filter_eq_nil_iff.mpr
            intro a ha
            have h1 : k ≤ a.1 := hp.1 a ha
            have h2 : q.1 ≤ a.1 := by
              rcases List.mem_cons.mp ha with rfl | ha'
              · exact Int.le_refl _
              · exact (List.pairwise_cons.mp hp.2).1 a ha'
            simp only [decide_eq_true_eq]
            omega
          have hfil : ((k, v) :: q :: rest').filter (fun p => p.1 = g) = [(k, v)] := by
            rw [List.filter_cons, hnone]; simp [hg]
          rw [lookup_cons_ite, if_pos hg, hfil]
          simp
        · have hfil : ((k, v) :: q :: rest').filter (fun p => p.1 = g)
              = (q :: rest').filter (fun p => p.1 = g) := by
            have : ¬ k = g := fun h => hg h.symm
            simp [List.filter_cons, this]
          rw [lookup_cons_ite, if_neg hg, hfil, ih']

end EngineFlox
end Flox
