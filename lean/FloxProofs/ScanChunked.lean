/-
  C10, part 3: blocks, carried states, any bracketing of the prefix, any chunking.
-/
import FloxProofs.ScanKernels

namespace Flox
namespace Scan

/-! ### small list facts -/

theorem keys_zip {α} (ks : List Int) (xs : List α) (h : xs.length = ks.length) : keys (ks.zip xs) = ks := by
  induction ks generalizing xs with
  | nil => simp [keys]
  | cons k r ih =>
    cases xs with
    | nil => simp at h
    | cons x xs => simp [keys] at *; exact ih xs h

theorem vals_zip (ks : List Int) (xs : List Val) (h : xs.length = ks.length) : vals (ks.zip xs) = xs := by
  induction ks generalizing xs with
  | nil => cases xs <;> simp_all [vals]
  | cons k r ih =>
    cases xs with
    | nil => simp at h
    | cons x xs => simp [vals] at *; exact ih xs h

theorem keys_length {α} (l : List (Int × α)) : (keys l).length = l.length := by simp [keys]

theorem keys_append {α} (a b : List (Int × α)) : keys (a ++ b) = keys a ++ keys b := by simp [keys]

theorem mem_insertUniq (x g : Int) (ks : List Int) : x ∈ insertUniq g ks ↔ x = g ∨ x ∈ ks := by
  induction ks with
  | nil => simp [insertUniq]
  | cons k r ih =>
    simp only [insertUniq]
    split
    · simp
    · split
      · rename_i h; subst h; simp
      · simp [ih]; constructor <;> (intro h; rcases h with h | h | h <;> simp [h])

theorem mem_uniq (x : Int) (l : List Int) : x ∈ uniq l ↔ x ∈ l := by
  induction l with
  | nil => simp [uniq]
  | cons a r ih =>
    have : uniq (a :: r) = insertUniq a (uniq r) := rfl
    rw [this, mem_insertUniq, ih]; simp

/-- members of a "functional" state list -/
theorem mem_map_state (g : Int) (ks : List Int) (φ : Int → Val) :
    mem g (ks.map fun k => (k, φ k)) = List.replicate (ks.count g) (φ g) := by
  induction ks with
  | nil => simp
  | cons k r ih =>
    rw [List.map_cons, mem_cons, ih]
    by_cases h : k = g
    · subst h; simp [List.replicate_succ]
    · have : (k == g) = false := by simpa using h
      simp [h, List.count_cons, this]

theorem lookup_map_state (g : Int) (ks : List Int) (φ : Int → Val) :
    (ks.map fun k => (k, φ k)).lookup g = if g ∈ ks then some (φ g) else none := by
  induction ks with
  | nil => simp
  | cons k r ih =>
    simp only [List.map_cons, List.lookup_cons, List.mem_cons]
    by_cases h : g = k
    · subst h; simp
    · have : (g == k) = false := by simpa using h
      simp [this, ih, h]

theorem scanLast_replicate_fill (f : Func) (hf : f ≠ .nancumsum) (c : Nat) (x : Val) :
    scanLast f (List.replicate c x) = if c = 0 then Val.nan else x := by
  induction c with
  | zero => simp [scanLast, init_fill f hf]
  | succ n ih =>
    rw [List.replicate_succ', scanLast_snoc, ih, step_fill f hf]
    by_cases hn : n = 0 <;> cases x <;> simp [hn, Val.isNaN]

theorem SEq.trans {f : Func} {a b c : AA} (h1 : SEq f a b) (h2 : SEq f b c) : SEq f a c :=
  fun g => (h1 g).trans (h2 g)

theorem SEq.symm {f : Func} {a b : AA} (h1 : SEq f a b) : SEq f b a := fun g => (h1 g).symm

/-! ### fills (concat-then-rescan) -/

theorem step_bfill : step .bfill = step .ffill := rfl
theorem init_bfill : init .bfill = init .ffill := rfl

theorem groupedScanFrom_fill (f : Func) (hf : f ≠ .nancumsum) (pre l : AA) :
    groupedScanFrom f pre l = groupedScanFrom .ffill pre l := by
  cases f
  · exact absurd rfl hf
  · rfl
  · induction l generalizing pre with
    | nil => rfl
    | cons p r ih => simp only [groupedScanFrom, ih]; rfl

/-- `lasts` keeps every group's state (fills) -/
theorem lasts_SEq (f : Func) (hf : f ≠ .nancumsum) (X : AA) : SEq f (lasts X) X := by
  intro g
  unfold lasts
  rw [mem_map_state, scanLast_replicate_fill f hf]
  by_cases hg : g ∈ keys X
  · have : (uniq (keys X)).count g ≠ 0 := by
      rw [Ne, List.count_eq_zero]; simpa [mem_uniq] using hg
    rw [if_neg this, scanLast_fill f hf]
  · have : (uniq (keys X)).count g = 0 := by
      rw [List.count_eq_zero]; simpa [mem_uniq] using hg
    rw [if_pos this, mem_eq_nil_of_not_mem_keys g X hg, scanLast_nil, init_fill f hf]

theorem groupedReduce_fill (f : Func) (hf : f ≠ .nancumsum) (b : AA) : groupedReduce f b = lasts b := by
  cases f
  · exact absurd rfl hf
  all_goals rfl

theorem fill_absorb (x e v : Val) (h : e.isNaN = false → x = e) :
    (if (if v.isNaN = true then e else v).isNaN = true then x else (if v.isNaN = true then e else v)) =
      if v.isNaN = true then x else v := by
  cases v with
  | nan =>
    simp only [show Val.nan.isNaN = true from rfl, if_true]
    by_cases he : e.isNaN = true
    · simp [he]
    · have := h (by simpa using he)
      simp [he, this]
  | _ => simp [Val.isNaN]

/-- re-running the fill on `state ++ (filled block)` gives the fill of `history ++ block` -/
theorem fill_rescan (f : Func) (hf : f ≠ .nancumsum) (b L Q Bp : AA) (h1 : SEq f L Q)
    (h2 : ∀ g, (scanLast f (mem g Bp)).isNaN = false → scanLast f (mem g Q) = scanLast f (mem g Bp)) :
    groupedScanFrom f L ((keys b).zip (groupedScanFrom f Bp b)) = groupedScanFrom f Q b := by
  induction b generalizing L Q Bp with
  | nil => rfl
  | cons p r ih =>
    simp only [keys, List.map_cons, groupedScanFrom, List.zip_cons_cons]
    have hhead : scanLast f (mem p.1 L ++ [scanLast f (mem p.1 Bp ++ [p.2])]) = scanLast f (mem p.1 Q ++ [p.2]) := by
      rw [scanLast_snoc, scanLast_snoc, scanLast_snoc, h1 p.1, step_fill f hf, step_fill f hf, step_fill f hf]
      exact fill_absorb _ _ _ (h2 p.1)
    rw [hhead]
    congr 1
    apply ih
    · intro g
      rw [mem_append, mem_append, mem_singleton, mem_singleton]
      by_cases hg : p.1 = g
      · subst hg; simpa using hhead
      · simp [hg, h1 g]
    · intro g
      rw [mem_append, mem_append, mem_singleton]
      by_cases hg : p.1 = g
      · subst hg
        simp only [if_true, scanLast_snoc, step_fill f hf]
        intro hn
        by_cases hv : p.2.isNaN
        · simp only [hv, if_true] at *; exact h2 _ hn
        · simp [hv]
      · simpa [hg] using h2 g

/-- the carried state is updated with the re-scanned values; group by group this is as good as the inputs themselves -/
theorem fill_result_SEq (f : Func) (hf : f ≠ .nancumsum) (r L L' : AA) (h : SEq f L L') :
    SEq f (L ++ (keys r).zip (groupedScanFrom f L' r)) (L' ++ r) := by
  induction r generalizing L L' with
  | nil => simpa [keys, groupedScanFrom] using h
  | cons p r ih =>
    simp only [keys, List.map_cons, groupedScanFrom, List.zip_cons_cons]
    have := ih (L ++ [(p.1, scanLast f (mem p.1 L' ++ [p.2]))]) (L' ++ [p]) (by
      intro g
      rw [mem_append, mem_append, mem_singleton, mem_singleton]
      by_cases hg : p.1 = g
      · subst hg
        simp only [if_true, scanLast_snoc, h p.1, step_fill f hf]
        cases p.2 <;> simp [Val.isNaN]
      · simp [hg, h g])
    simpa [keys] using this

theorem binopResult_fill (f : Func) (hf : f ≠ .nancumsum) (l r : AA) :
    binopResult f l r = (keys r).zip (groupedScanFrom f l r) := by
  have hi : isFill f = true := by cases f <;> simp_all [isFill]
  unfold binopResult
  rw [if_pos hi, ffillEngine_eq_groupedScan, groupedScan_append, groupedScanFrom_fill f hf]
  have : (groupedScan Func.ffill l).length = l.length := groupedScanFrom_length _ _ _
  rw [← this, List.drop_left]

theorem chunkScan_fill (f : Func) (hf : f ≠ .nancumsum) (b : AA) :
    chunkScan f b = (keys b).zip (groupedScanFrom f [] b) := by
  have hi : isFill f = true := by cases f <;> simp_all [isFill]
  unfold chunkScan
  rw [if_pos hi, ffillEngine_eq_groupedScan, groupedScanFrom_fill f hf]; rfl

/-! ### nancumsum (add the reindexed state) -/

/-- `S` is the canonical state of the history `X`: its groups with the running totals -/
def IsState (S X : AA) : Prop :=
  ∃ ks : List Int, S = ks.map (fun k => (k, scanLast .nancumsum (mem k X))) ∧ ∀ g, g ∈ ks ↔ g ∈ keys X

theorem NoInf.append {a b : AA} (ha : NoInf a) (hb : NoInf b) : NoInf (a ++ b) := by
  intro p hp
  rcases List.mem_append.mp hp with h | h
  · exact ha p h
  · exact hb p h

theorem NoInf.left {a b : AA} (h : NoInf (a ++ b)) : NoInf a := fun p hp => h p (List.mem_append_left _ hp)
theorem NoInf.right {a b : AA} (h : NoInf (a ++ b)) : NoInf b := fun p hp => h p (List.mem_append_right _ hp)

theorem foldl_cumsum_fin (ms : List Val) (h : ∀ v ∈ ms, v ≠ Val.pinf ∧ v ≠ Val.ninf) (q : Rat) :
    ∃ q', ms.foldl (step .nancumsum) (Val.fin q) = Val.fin q' := by
  induction ms generalizing q with
  | nil => exact ⟨q, rfl⟩
  | cons v r ih =>
    have hv := h v (List.mem_cons_self)
    have hr : ∀ v ∈ r, v ≠ Val.pinf ∧ v ≠ Val.ninf := fun w hw => h w (List.mem_cons_of_mem _ hw)
    cases v with
    | nan => simpa [step, Val.isNaN, Val.zero, Val.add] using ih hr (q + 0)
    | pinf => exact absurd rfl hv.1
    | ninf => exact absurd rfl hv.2
    | fin a => simpa [step, Val.isNaN, Val.add] using ih hr (q + a)

theorem scanLast_cumsum_fin (g : Int) (X : AA) (h : NoInf X) : ∃ q, scanLast .nancumsum (mem g X) = Val.fin q := by
  apply foldl_cumsum_fin
  intro v hv
  simp only [mem, List.mem_map, List.mem_filter] at hv
  obtain ⟨p, ⟨hp, _⟩, rfl⟩ := hv
  exact h p hp

theorem IsState.lookupD {S X : AA} (h : IsState S X) (g : Int) :
    lookupD g S Val.zero = scanLast .nancumsum (mem g X) := by
  obtain ⟨ks, rfl, hk⟩ := h
  unfold Scan.lookupD
  rw [lookup_map_state]
  by_cases hg : g ∈ ks
  · simp [hg]
  · have : g ∉ keys X := fun h' => hg ((hk g).mpr h')
    simp [hg, mem_eq_nil_of_not_mem_keys g X this, scanLast, init]

theorem groupedReduce_isState (b : AA) : IsState (groupedReduce .nancumsum b) b := by
  refine ⟨uniq (keys b), ?_, fun g => mem_uniq g _⟩
  unfold groupedReduce
  apply List.map_congr_left
  intro k _
  rw [scanLast_nancumsum]; rfl

theorem mem_map_add (g : Int) (r : AA) (h : Int → Val) :
    mem g (r.map fun p => (p.1, Val.add (h p.1) p.2)) = (mem g r).map (Val.add (h g)) := by
  induction r with
  | nil => rfl
  | cons p r ih =>
    rw [List.map_cons, mem_cons, mem_cons, ih]
    by_cases hp : p.1 = g
    · subst hp; simp
    · simp [hp]

theorem lastNonNaN_eq (ms : List Val) : lastNonNaN ms = scanLast .ffill ms :=
  (scanLast_fill .ffill (by decide) ms).symm

theorem combineState_isState (l r A B : AA) (hl : IsState l A) (hr : IsState r B) (hA : NoInf A) (hB : NoInf B) :
    IsState (combineState .nancumsum l r) (A ++ B) := by
  have hlook := hl.lookupD
  obtain ⟨kl, rfl, hkl⟩ := hl
  obtain ⟨kr, rfl, hkr⟩ := hr
  refine ⟨uniq (keys ((kl.map fun k => (k, scanLast .nancumsum (mem k A))) ++
      binopResult .nancumsum (kl.map fun k => (k, scanLast .nancumsum (mem k A)))
        (kr.map fun k => (k, scanLast .nancumsum (mem k B))))), ?_, ?_⟩
  · unfold combineState lasts
    apply List.map_congr_left
    intro g hg
    congr 1
    rw [mem_append]
    have hb : binopResult .nancumsum (kl.map fun k => (k, scanLast .nancumsum (mem k A)))
        (kr.map fun k => (k, scanLast .nancumsum (mem k B))) =
        (kr.map fun k => (k, scanLast .nancumsum (mem k B))).map
          (fun p => (p.1, Val.add (lookupD p.1 (kl.map fun k => (k, scanLast .nancumsum (mem k A))) Val.zero) p.2)) := by
      simp [binopResult, isFill]
    rw [hb, mem_map_add g _ (fun k => lookupD k (kl.map fun k => (k, scanLast .nancumsum (mem k A))) Val.zero),
      hlook g, mem_map_state, mem_map_state, lastNonNaN_eq, scanLast_append', List.map_replicate,
      scanLast_replicate_fill _ (by decide), scanLast_replicate_fill _ (by decide), mem_append, scanLast_append']
    obtain ⟨qa, hqa⟩ := scanLast_cumsum_fin g A hA
    obtain ⟨qb, hqb⟩ := scanLast_cumsum_fin g B hB
    rw [hqa, hqb]
    have hg' : g ∈ kl ∨ g ∈ kr := by
      rw [mem_uniq, keys_append] at hg
      rcases List.mem_append.mp hg with h | h
      · left; simpa [keys] using h
      · right
        rw [hb] at h
        simpa [keys] using h
    by_cases h2 : kr.count g = 0
    · have hgl : g ∈ kl := by
        rcases hg' with h | h
        · exact h
        · exact absurd h (List.count_eq_zero.mp h2)
      have h1 : kl.count g ≠ 0 := by rw [Ne, List.count_eq_zero]; simpa using hgl
      have hgB : g ∉ keys B := fun h' => (List.count_eq_zero.mp h2) ((hkr g).mpr h')
      have : qb = 0 := by
        have := hqb
        rw [mem_eq_nil_of_not_mem_keys g B hgB] at this
        simp [scanLast, init, Val.zero] at this
        exact this.symm
      subst this
      simp [h1, h2, comb, Val.isNaN, Val.add, Rat.add_zero]
    · simp [h2, comb, Val.isNaN, Val.add]
  · intro g
    rw [mem_uniq, keys_append, keys_append, List.mem_append, List.mem_append]
    have hb : keys (binopResult .nancumsum (kl.map fun k => (k, scanLast .nancumsum (mem k A)))
        (kr.map fun k => (k, scanLast .nancumsum (mem k B)))) = kr := by
      simp [binopResult, isFill, keys, Function.comp_def]
    rw [hb, ← hkl g, ← hkr g]
    simp [keys]

/-- adding the carried totals to the block's own scan gives the scan continued from the history -/
theorem cumsum_shift (S P : AA) (hS : ∀ g, lookupD g S Val.zero = scanLast .nancumsum (mem g P)) (b Bp : AA) :
    vals (((keys b).zip (groupedScanFrom .nancumsum Bp b)).map fun p => (p.1, Val.add (lookupD p.1 S Val.zero) p.2)) =
      groupedScanFrom .nancumsum (P ++ Bp) b := by
  induction b generalizing Bp with
  | nil => rfl
  | cons p r ih =>
    simp only [keys, List.map_cons, groupedScanFrom, List.zip_cons_cons, vals]
    have := ih (Bp ++ [p])
    simp only [keys, vals] at this
    rw [this, List.append_assoc]
    congr 1
    rw [hS, mem_append, List.append_assoc, scanLast_append' _ (mem p.1 P)]
    rfl

theorem chunkScan_cumsum (b : AA) (h : NoInf b) :
    chunkScan .nancumsum b = (keys b).zip (groupedScanFrom .nancumsum [] b) := by
  unfold chunkScan
  simp only [isFill]
  rw [npgNancumsum_eq_groupedScan b h]; rfl

/-! ### both modes together -/

/-- hypothesis of the nancumsum theorems: no `±inf` in the data (findings C10-F2, C10-F3) -/
def Good (f : Func) (l : AA) : Prop := f = .nancumsum → NoInf l

/-- the carried state `S` represents the history `X` -/
def Rep (f : Func) (S X : AA) : Prop :=
  match f with
  | .nancumsum => IsState S X
  | f => SEq f S X

theorem rep_leaf (f : Func) (b : AA) : Rep f (groupedReduce f b) b := by
  cases f
  · exact groupedReduce_isState b
  · show SEq .ffill _ _; rw [groupedReduce_fill _ (by decide)]; exact lasts_SEq _ (by decide) b
  · show SEq .bfill _ _; rw [groupedReduce_fill _ (by decide)]; exact lasts_SEq _ (by decide) b

theorem combine_fill (f : Func) (hf : f ≠ .nancumsum) (l r A B : AA) (hl : SEq f l A) (hr : SEq f r B) :
    SEq f (combineState f l r) (A ++ B) := by
  unfold combineState
  rw [binopResult_fill f hf]
  exact (lasts_SEq f hf _).trans ((fill_result_SEq f hf r l l (SEq.refl f l)).trans (SEq.append hl hr))

/-- **the state-combine is a homomorphism**: combining the states of two adjacent histories gives the state of their
    concatenation (hence it is associative on reachable states, and any bracketing gives the same state) -/
theorem rep_combine (f : Func) (l r A B : AA) (hl : Rep f l A) (hr : Rep f r B) (hA : Good f A) (hB : Good f B) :
    Rep f (combineState f l r) (A ++ B) := by
  cases f
  · exact combineState_isState l r A B hl hr (hA rfl) (hB rfl)
  · exact combine_fill .ffill (by decide) l r A B hl hr
  · exact combine_fill .bfill (by decide) l r A B hl hr

/-- the output of block `b` given a state representing everything before it -/
theorem rep_final (f : Func) (S P b : AA) (hS : Rep f S P) (hb : Good f b) :
    vals (binopResult f S (chunkScan f b)) = groupedScanFrom f P b := by
  cases f
  · rw [chunkScan_cumsum b (hb rfl)]
    have := cumsum_shift S P hS.lookupD b []
    simpa [binopResult, isFill] using this
  all_goals
    rw [chunkScan_fill _ (by decide), binopResult_fill _ (by decide),
      keys_zip _ _ (by rw [groupedScanFrom_length, keys_length]),
      vals_zip _ _ (by rw [groupedScanFrom_length, List.length_zip, groupedScanFrom_length, keys_length]; simp)]
    exact fill_rescan _ (by decide) b S P [] hS (by intro g; simp [scanLast, init, Val.isNaN])

theorem first_block (f : Func) (b : AA) (hb : Good f b) : vals (chunkScan f b) = groupedScanFrom f [] b := by
  cases f
  · rw [chunkScan_cumsum b (hb rfl)]; exact vals_zip _ _ (by rw [groupedScanFrom_length, keys_length])
  all_goals
    rw [chunkScan_fill _ (by decide)]; exact vals_zip _ _ (by rw [groupedScanFrom_length, keys_length])

/-! ### any bracketing -/

theorem Good.append {f : Func} {a b : AA} (ha : Good f a) (hb : Good f b) : Good f (a ++ b) :=
  fun h => NoInf.append (ha h) (hb h)

theorem good_flatten {f : Func} (ls : List AA) (h : ∀ b ∈ ls, Good f b) : Good f ls.flatten := by
  induction ls with
  | nil => intro _ p hp; simp at hp
  | cons b r ih =>
    rw [List.flatten_cons]
    exact Good.append (h b List.mem_cons_self) (ih fun b' hb' => h b' (List.mem_cons_of_mem _ hb'))

theorem good_getD {f : Func} (all : List AA) (h : ∀ b ∈ all, Good f b) (j : Nat) : Good f (all.getD j []) := by
  by_cases hj : j < all.length
  · rw [List.getD_eq_getElem?_getD, List.getElem?_eq_getElem hj]; exact h _ (List.getElem_mem hj)
  · rw [List.getD_eq_getElem?_getD, List.getElem?_eq_none (by omega)]; intro _ p hp; simp at hp

/-- **any bracketing of the per-block states gives the state of the concatenated blocks** (dask's Blelloch up-sweep /
    down-sweep is one family of bracketings) -/
theorem tree_rep (f : Func) (all : List AA) (hall : ∀ b ∈ all, Good f b) (t : BTree) :
    Rep f (t.eval (combineState f) (fun j => groupedReduce f (all.getD j [])))
      ((t.leaves.map (all.getD · [])).flatten) := by
  induction t with
  | leaf i => simpa [BTree.eval, BTree.leaves] using rep_leaf f (all.getD i [])
  | node l r ihl ihr =>
    simp only [BTree.eval, BTree.leaves, List.map_append, List.flatten_append]
    apply rep_combine f _ _ _ _ ihl ihr
    · exact good_flatten _ (by intro b hb; obtain ⟨j, _, rfl⟩ := List.mem_map.mp hb; exact good_getD all hall j)
    · exact good_flatten _ (by intro b hb; obtain ⟨j, _, rfl⟩ := List.mem_map.mp hb; exact good_getD all hall j)

theorem map_getD_range (all : List AA) (i : Nat) (hi : i ≤ all.length) :
    (List.range i).map (all.getD · []) = all.take i := by
  induction i with
  | zero => simp
  | succ n ih =>
    rw [List.range_succ, List.map_append, ih (by omega), List.take_add_one]
    have hn : n < all.length := by omega
    simp [List.getD_eq_getElem?_getD, List.getElem?_eq_getElem hn]

/-- the trees handed to `scanChunked` bracket the right blocks in the right order -/
def TreesOK (trees : List BTree) (nblocks : Nat) : Prop :=
  ∀ i, 0 < i → i < nblocks → (trees.getD (i - 1) (.leaf 0)).leaves = List.range i

theorem scanChunkedFrom_eq (f : Func) (trees : List BTree) (all : List AA) (hall : ∀ b ∈ all, Good f b)
    (ht : TreesOK trees all.length) (pre rest : List AA) (h : all = pre ++ rest) :
    scanChunkedFrom f trees all pre.length rest = groupedScanFrom f pre.flatten rest.flatten := by
  induction rest generalizing pre with
  | nil => simp [scanChunkedFrom, groupedScanFrom]
  | cons b r ih =>
    have hb : Good f b := hall b (by rw [h]; simp)
    have hrec := ih (pre ++ [b]) (by rw [h]; simp)
    simp only [List.length_append, List.length_cons, List.length_nil, List.flatten_append, List.flatten_cons,
      List.flatten_nil, List.append_nil] at hrec
    simp only [scanChunkedFrom, List.flatten_cons]
    rw [groupedScanFrom_append, hrec]
    congr 1
    by_cases h0 : pre.length = 0
    · have : pre = [] := List.length_eq_zero_iff.mp h0
      subst this
      simpa using first_block f b hb
    · rw [if_neg h0]
      apply rep_final f _ _ b _ hb
      have hlen : pre.length < all.length := by rw [h]; simp
      have hrep := tree_rep f all hall (trees.getD (pre.length - 1) (.leaf 0))
      rw [ht pre.length (by omega) hlen, map_getD_range all _ (by omega)] at hrep
      have : all.take pre.length = pre := by rw [h]; simp
      rwa [this] at hrep

/-- **chunked = specification for every chunking and every bracketing** -/
theorem scanChunked_eq (f : Func) (trees : List BTree) (blocks : List AA) (hall : ∀ b ∈ blocks, Good f b)
    (ht : TreesOK trees blocks.length) : scanChunked f trees blocks = groupedScan f blocks.flatten := by
  have := scanChunkedFrom_eq f trees blocks hall ht [] blocks rfl
  simpa [scanChunked, groupedScan] using this

end Scan
end Flox
