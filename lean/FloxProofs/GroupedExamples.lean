/-
  Non-vacuity examples and necessity counterexamples for `FloxProofs/Grouped.lean` (all by `decide +kernel`).
-/
import FloxProofs.Grouped
import FloxProofs.EndToEndExamples

namespace Flox.Grp
namespace GEx
open E2E

/-- `nanlast`, no `min_count`, `fill_value=-7` -/
def Rnanlast : Resolved :=
  { name := "nanlast", numpy := [.nanlast], chunk := [.nanlast], combine := [.nanlast], interFills := [Val.nan],
    numpyFills := [Val.nan], finalFill := some Val.nan, userFill := some (Val.fin (-7)), minCount := 0,
    finalize := "none", ddof := 0, isArg := false }

/-- `nanlast`, `min_count=1`, no fill value -/
def Rnanlast1 : Resolved :=
  { name := "nanlast", numpy := [.nanlast, .nanlen], chunk := [.nanlast, .nanlen], combine := [.nanlast, .sum],
    interFills := [Val.nan, Val.zero], numpyFills := [Val.nan, Val.zero], finalFill := some Val.nan,
    userFill := none, minCount := 1, finalize := "none", ddof := 0, isArg := false }

example : Rnanlast.shape? = some (.simple .nanlast .nanlast Val.nan) := by decide +kernel
example : Rnanlast1.shape? = some (.simple .nanlast .nanlast Val.nan) := by decide +kernel

/-- the grouped combine is selected for `nanlast` on non-float data -/
example : useGroupedCombine (mkCall Rnanlast .npg 4 2) false = true := by decide +kernel

/-! ### non-vacuity -/

/-- `mapreduce_grouped_eq_spec` applies: 4 blocks, binary tree, one dropped element, an absent label (filled with -7)
    and an all-NaN label -/
example : runKnown (mkCall Rnanlast .npg 4 2) (.mapreduce false) false [2, 1, 3, 2] (codeKeys codes8) vals8
    = specResult .nanlast Rnanlast codes8 vals8 4 :=
  mapreduce_grouped_eq_spec Rnanlast (.simple .nanlast .nanlast Val.nan) (mkCall Rnanlast .npg 4 2) 4 false
    [2, 1, 3, 2] codes8 vals8 rfl rfl rfl (by decide +kernel) codes8_ok rfl (by decide) (by decide +kernel)
    (by decide +kernel) (by decide) rfl (by decide +kernel)

example : runKnown (mkCall Rnanlast .npg 4 2) (.mapreduce false) false [2, 1, 3, 2] (codeKeys codes8) vals8
    = .ok [Val.fin 2, Val.fin (-7), Val.fin 5, Val.nan] := by decide +kernel
example : specResult .nanlast Rnanlast codes8 vals8 4 = .ok [Val.fin 2, Val.fin (-7), Val.fin 5, Val.nan] := by
  decide +kernel

/-- `min_count=1` without fill value, all requested labels valid, dropped element valid: H_dropped holds -/
example : runKnown (mkCall Rnanlast1 .npg 2 3) (.mapreduce false) false [1, 2, 2] (codeKeys [0, -1, 1, 0, 1])
      [.fin 1, .fin 9, .nan, .fin 4, .fin 5]
    = specResult .nanlast Rnanlast1 [0, -1, 1, 0, 1] [.fin 1, .fin 9, .nan, .fin 4, .fin 5] 2 :=
  mapreduce_grouped_eq_spec Rnanlast1 (.simple .nanlast .nanlast Val.nan) (mkCall Rnanlast1 .npg 2 3) 2 false
    [1, 2, 2] _ _ rfl rfl rfl (by decide +kernel) (by decide +kernel) rfl (by decide) (by decide +kernel)
    (by decide +kernel) (by decide) rfl (by decide +kernel)

example : specResult .nanlast Rnanlast1 [0, -1, 1, 0, 1] [.fin 1, .fin 9, .nan, .fin 4, .fin 5] 2
    = .ok [Val.fin 4, Val.fin 5] := by decide +kernel

/-- labels discovered at compute time (`nanmean`, `min_count=1`, fill -1; labels 5, NaN, 2, 5, 2, 2, 5, 3) -/
def keys8 : List Key := [some 5, none, some 2, some 5, some 2, some 2, some 5, some 3]

example : runUnknown { mkCall Rnanmean .npg 0 2 with knownLabels := false } [2, 1, 3, 2] keys8 vals8
    = specUnknown .nanmean Rnanmean true keys8 vals8 :=
  runUnknown_eq_spec Rnanmean (.mean true) _ [2, 1, 3, 2] keys8 vals8 rfl rfl (by decide +kernel) rfl
    (by decide +kernel) (by decide +kernel) (by decide) rfl

example : specUnknown .nanmean Rnanmean true keys8 vals8
    = .ok ([some 2, some 3, some 5], [Val.fin 4, Val.fin (-1), Val.fin (3/2)]) := by decide +kernel

/-! ### necessity of the hypotheses -/

/-- **H_dropped is necessary** (a finding about `_finalize_results` with `reindex=False`): the count mask is applied to
    the group `-1` of dropped elements as well; with `min_count=1`, no fill value and a dropped NaN element the
    map-reduce path raises `ValueError("Filling is required…")` although every requested label has a valid value. -/
theorem H_dropped_counterexample :
    Rnanlast1.shape? = some (.simple .nanlast .nanlast Val.nan)
    ∧ HMinMax Rnanlast1 (.simple .nanlast .nanlast Val.nan)
    ∧ ¬ HDropped Rnanlast1 [0, -1] [.fin 1, .nan]
    ∧ runKnown (mkCall Rnanlast1 .npg 1 2) (.mapreduce false) false [2] (codeKeys [0, -1]) [.fin 1, .nan]
        = .error "ValueError"
    ∧ specResult .nanlast Rnanlast1 [0, -1] [.fin 1, .nan] 1 = .ok [Val.fin 1]
    ∧ runKnown (mkCall Rnanlast1 .npg 1 2) .eager false [2] (codeKeys [0, -1]) [.fin 1, .nan] = .ok [Val.fin 1] := by
  decide +kernel

/-- **`codes ≠ []` is necessary** (degenerate): empty array, no requested label, `min_count=1`, no fill: the single
    `[NaN]` group of the empty block is masked and raises. -/
theorem codes_ne_nil_counterexample :
    runKnown (mkCall Rnanlast1 .npg 0 2) (.mapreduce false) false [0] (codeKeys []) [] = .error "ValueError"
    ∧ specResult .nanlast Rnanlast1 [] [] 0 = .ok [] := by decide +kernel

/-- **H_minmax is necessary** also for the grouped combine (`nanmax` without the count mask, labels treated as
    unknown so that the grouped combine is used): an all-NaN label keeps the intermediate fill `-inf`. -/
theorem H_minmax_grouped_counterexample :
    useGroupedCombine { mkCall Rnanmax0 .npg 1 2 with knownLabels := false } true = true
    ∧ ¬ HMinMax Rnanmax0 (.simple .nanmax .nanmax Val.ninf)
    ∧ runKnown { mkCall Rnanmax0 .npg 1 2 with knownLabels := false } (.mapreduce false) true [1] (codeKeys [0])
        [Val.nan] = .ok [Val.ninf]
    ∧ specResult .nanmax Rnanmax0 [0] [Val.nan] 1 = .ok [Val.nan] := by decide +kernel

/-- **every label missing** (the repaired behaviour; formerly `hpres_counterexample`): `_aggregate` drops the `NaN`
    placeholder group, the result is empty like the eager computation's; `runUnknown_eq_spec` applies
    (`nanmean`, `min_count=1`, `fill_value=-1`, labels `[NaN, NaN, NaN]` in two blocks). -/
theorem all_missing_example :
    runUnknown { mkCall Rnanmean .npg 0 2 with knownLabels := false } [2, 1] [none, none, none]
        [.fin 1, .fin 2, .nan] = specUnknown .nanmean Rnanmean true [none, none, none] [.fin 1, .fin 2, .nan]
    ∧ specUnknown .nanmean Rnanmean true [none, none, none] [.fin 1, .fin 2, .nan] = .ok ([], []) :=
  ⟨runUnknown_eq_spec Rnanmean (.mean true) _ [2, 1] [none, none, none] [.fin 1, .fin 2, .nan] rfl rfl
      (by decide +kernel) rfl (by decide +kernel) (by decide +kernel) (by decide) rfl,
    by decide +kernel⟩

/-- **H_allmissing is necessary** (a remaining finding, reproduced on the library): every label missing,
    `min_count=1`, no fill value: `_finalize_results` masks the placeholder group (count 0) before it is dropped and
    raises `ValueError("Filling is required…")`; the eager computation returns the empty result. -/
theorem H_allmissing_counterexample :
    ¬ HAllMissing { Rnanmean with userFill := none } [none, none, none]
    ∧ runUnknown { mkCall { Rnanmean with userFill := none } .npg 0 2 with knownLabels := false } [2, 1]
        [none, none, none] [.fin 1, .fin 2, .nan] = .error "ValueError"
    ∧ specUnknown .nanmean { Rnanmean with userFill := none } true [none, none, none] [.fin 1, .fin 2, .nan]
        = .ok ([], []) := by
  decide +kernel

/-- **`chunks ≠ []` is necessary** -/
theorem chunks_ne_nil_grouped_counterexample :
    runKnown (mkCall Rnanlast .npg 1 2) (.mapreduce false) false [] (codeKeys [0]) [.fin 1]
      ≠ specResult .nanlast Rnanlast [0] [.fin 1] 1 := by decide +kernel

/-- **`chunks.sum = codes.length` is necessary** -/
theorem chunks_sum_grouped_counterexample :
    runKnown (mkCall Rnanlast .npg 4 2) (.mapreduce false) false [2, 1] (codeKeys codes8) vals8
      ≠ specResult .nanlast Rnanlast codes8 vals8 4 := by decide +kernel

/-! ### integer-typed `nanlast` (intermediate fill `INT_MIN`, no `Shape`) -/

def intMin : Val := Val.fin (-9223372036854775808)

/-- `nanlast` as resolved for int64 data -/
def RnanlastInt : Resolved :=
  { name := "nanlast", numpy := [.nanlast], chunk := [.nanlast], combine := [.nanlast], interFills := [intMin],
    numpyFills := [intMin], finalFill := some intMin, userFill := some (Val.fin (-7)), minCount := 0,
    finalize := "none", ddof := 0, isArg := false }

example : RnanlastInt.shape? = none := by decide +kernel

def valsInt8 : List Val := [.fin 1, .fin 9, .fin 3, .fin 6, .fin 5, .fin 8, .fin 2, .fin 4]

/-- `mapreduce_sparse_intdata_partial` applies (4 blocks, binary tree) -/
example :
    groupedCombine RnanlastInt .npg true (treeReduce (groupedCombine RnanlastInt .npg true) 2
        (blockStage (mkCall RnanlastInt .npg 4 2) false [2, 1, 3, 2] (codeKeys codes8) valsInt8))
      = { groups := (foundOf true (codeKeys codes8)).map some,
          cols := [(foundOf true (codeKeys codes8)).map fun r =>
            kEval .nanlast (membersK (some r) (codeKeys codes8) valsInt8)] } :=
  mapreduce_sparse_intdata_partial (mkCall RnanlastInt .npg 4 2) .nanlast (Or.inr rfl) intMin [2, 1, 3, 2]
    (codeKeys codes8) valsInt8 2 rfl rfl rfl rfl rfl (by decide) rfl rfl (by decide +kernel) (by decide +kernel)

/-- concrete end-to-end evidence for the integer blueprint (the finalization step is not proved in general) -/
example : runKnown (mkCall RnanlastInt .npg 4 2) (.mapreduce false) false [2, 1, 3, 2] (codeKeys codes8) valsInt8
      = specResult .nanlast RnanlastInt codes8 valsInt8 4
    ∧ specResult .nanlast RnanlastInt codes8 valsInt8 4 = .ok [Val.fin 2, Val.fin (-7), Val.fin 8, Val.fin 4] := by
  decide +kernel

end GEx
end Flox.Grp
