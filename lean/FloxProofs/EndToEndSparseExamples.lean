/-
  Non-vacuity examples and necessity counterexamples for the `reindex=False` map-reduce theorems
  (`FloxProofs/EndToEndSparse.lean`), all by `decide +kernel`.
-/
import FloxProofs.EndToEndSparse
import FloxProofs.EndToEndExamples

namespace Flox
namespace E2E

/-! ### non-vacuity -/

/-- `mapreduce_sparse_eq_spec` applies to `nanmean` (`min_count=1`, fill -1), 4 blocks, binary tree; the data contain a
    dropped element (code -1), an absent requested label (1) and an all-NaN label (3) -/
example : runKnown (mkCall Rnanmean .npg 4 2) (.mapreduce false) true [2, 1, 3, 2] (codeKeys codes8) vals8
    = specResult .nanmean Rnanmean codes8 vals8 4 :=
  mapreduce_sparse_eq_spec Rnanmean (.mean true) (mkCall Rnanmean .npg 4 2) 4 true [2, 1, 3, 2] codes8 vals8
    rfl rfl rfl rfl (by decide +kernel) codes8_ok rfl (by decide +kernel) (by decide +kernel) rfl
    (by decide +kernel)

example : runKnown (mkCall Rnanmean .npg 4 2) (.mapreduce false) true [2, 1, 3, 2] (codeKeys codes8) vals8
    = .ok [Val.fin (3/2), Val.fin (-1), Val.fin 4, Val.fin (-1)] := by decide +kernel

/-- the same with first-appearance order inside the blocks (`sort = false`), an empty block and a flat tree -/
example : runKnown { mkCall Rnanmean .npg 4 8 with sort := false } (.mapreduce false) true [3, 0, 5] (codeKeys codes8)
      vals8 = specResult .nanmean Rnanmean codes8 vals8 4 :=
  mapreduce_sparse_eq_spec Rnanmean (.mean true) { mkCall Rnanmean .npg 4 8 with sort := false } 4 true [3, 0, 5]
    codes8 vals8 rfl rfl rfl rfl (by decide +kernel) codes8_ok rfl (by decide +kernel) (by decide +kernel)
    rfl (by decide +kernel)

example : runKnown { mkCall Rnanmean .npg 4 8 with sort := false } (.mapreduce false) true [3, 0, 5] (codeKeys codes8)
      vals8 = .ok [Val.fin (3/2), Val.fin (-1), Val.fin 4, Val.fin (-1)] := by decide +kernel

/-- `sum` without `min_count`, with a user fill: the absent label 1 gets the USER fill (no `H_absent` needed), whereas
    the eager path and the `reindex=True` plan leave the NumPy / intermediate fill there -/
example : runKnown (mkCall { Rsum with userFill := some (Val.fin 7) } .npg 2 2) (.mapreduce false) true [1]
      (codeKeys [0]) [Val.fin 1] = specResult .sum { Rsum with userFill := some (Val.fin 7) } [0] [Val.fin 1] 2 :=
  mapreduce_sparse_eq_spec { Rsum with userFill := some (Val.fin 7) } (.simple .sum .sum Val.zero)
    (mkCall { Rsum with userFill := some (Val.fin 7) } .npg 2 2) 2 true [1] [0] [Val.fin 1]
    rfl rfl rfl rfl (by decide +kernel) (by decide +kernel) rfl (by decide +kernel) (by decide +kernel) rfl
    (by decide +kernel)

/-- **`H_absent` is not a hypothesis of the sparse theorem, and could not be dropped from the dense one**: same call,
    three plans, only `reindex=False` returns what the specification demands -/
theorem sparse_vs_dense_absent :
    ¬ HAbsent { Rsum with userFill := some (Val.fin 7) } (members 1 [0] [Val.fin 1])
    ∧ specResult .sum { Rsum with userFill := some (Val.fin 7) } [0] [Val.fin 1] 2 = .ok [Val.fin 1, Val.fin 7]
    ∧ runKnown (mkCall { Rsum with userFill := some (Val.fin 7) } .npg 2 2) (.mapreduce false) true [1] (codeKeys [0])
        [Val.fin 1] = .ok [Val.fin 1, Val.fin 7]
    ∧ runKnown (mkCall { Rsum with userFill := some (Val.fin 7) } .npg 2 2) (.mapreduce true) true [1] (codeKeys [0])
        [Val.fin 1] = .ok [Val.fin 1, Val.fin 0]
    ∧ runKnown (mkCall { Rsum with userFill := some (Val.fin 7) } .npg 2 2) .eager true [1] (codeKeys [0])
        [Val.fin 1] = .ok [Val.fin 1, Val.nan] := by decide +kernel

/-- without a fill the absent label raises, in the model and in the specification -/
example : runKnown (mkCall Rsum .npg 2 2) (.mapreduce false) true [1] (codeKeys [0]) [Val.fin 1] = .error "ValueError"
    ∧ specResult .sum Rsum [0] [Val.fin 1] 2 = .error "ValueError" := by decide +kernel

/-- flox's own engine, `nanmax` -/
example : runKnown (mkCall Rnanmax .flox 4 2) (.mapreduce false) true [5, 3] (codeKeys codes8) vals8
    = specResult .nanmax Rnanmax codes8 vals8 4 :=
  mapreduce_sparse_eq_spec_flox Rnanmax (.simple .nanmax .nanmax Val.ninf) (mkCall Rnanmax .flox 4 2) 4 true [5, 3]
    codes8 vals8 rfl rfl rfl rfl (by decide +kernel) codes8_ok rfl (by decide +kernel) (by decide +kernel)
    rfl (by decide +kernel)

/-- `mapreduce_sparse_eq_dense` / `mapreduce_sparse_eq_eager` apply (count mask on: `H_absent` holds) -/
example : runKnown (mkCall Rnanmean .npg 4 2) (.mapreduce false) true [2, 1, 3, 2] (codeKeys codes8) vals8
    = runKnown (mkCall Rnanmean .npg 4 3) (.mapreduce true) true [4, 4] (codeKeys codes8) vals8 :=
  mapreduce_sparse_eq_dense Rnanmean (.mean true) (mkCall Rnanmean .npg 4 2) (mkCall Rnanmean .npg 4 3) 4 true
    [2, 1, 3, 2] [4, 4] codes8 vals8 rfl rfl rfl rfl rfl rfl rfl rfl (by decide +kernel) codes8_ok rfl
    (fun _ _ => Or.inl (by decide)) (by decide +kernel) (by decide +kernel) rfl (by decide) rfl
    (by decide +kernel) (by decide +kernel)

/-! ### necessity of the hypotheses -/

/-- `nanmean`, `min_count=1`, NO fill -/
def RnanmeanNoFill : Resolved := { Rnanmean with userFill := none }

/-- **`H_dropped` is necessary – and this is a defect of the modelled library** (reproduced with the real flox:
    `groupby_reduce(dask [1., nan], by=[0, 5], func="nanmean", expected_groups=[0], min_count=1, fill_value=None,
    method="map-reduce", reindex=False)` raises `ValueError: Filling is required but fill_value is None`, while
    `reindex=True` and the eager path return `[1.]`).  The count mask of `_finalize_results` runs over ALL groups of
    the combined intermediate, which for `reindex=False` include the group `-1` of the elements whose label is not
    among the expected ones; if those elements have fewer than `min_count` valid values and no fill was given, flox
    refuses although every requested label is fine. -/
theorem H_dropped_counterexample :
    RnanmeanNoFill.shape? = some (.mean true) ∧ HMinMax RnanmeanNoFill (.mean true)
    ∧ CodesOK [0, -1] 1 ∧ ¬ HDropped RnanmeanNoFill 1 [0, -1] [Val.fin 1, Val.nan]
    ∧ runKnown (mkCall RnanmeanNoFill .npg 1 2) (.mapreduce false) true [2] (codeKeys [0, -1]) [Val.fin 1, Val.nan]
        = .error "ValueError"
    ∧ specResult .nanmean RnanmeanNoFill [0, -1] [Val.fin 1, Val.nan] 1 = .ok [Val.fin 1]
    ∧ runKnown (mkCall RnanmeanNoFill .npg 1 2) (.mapreduce true) true [2] (codeKeys [0, -1]) [Val.fin 1, Val.nan]
        = .ok [Val.fin 1]
    ∧ runKnown (mkCall RnanmeanNoFill .npg 1 2) .eager true [2] (codeKeys [0, -1]) [Val.fin 1, Val.nan]
        = .ok [Val.fin 1] := by decide +kernel

/-- the other half of `H_dropped`: no element and no requested label – the NaN placeholder group is masked -/
theorem H_dropped_counterexample_empty :
    ¬ HDropped RnanmeanNoFill 0 [] []
    ∧ runKnown (mkCall RnanmeanNoFill .npg 0 2) (.mapreduce false) true [0] (codeKeys []) [] = .error "ValueError"
    ∧ specResult .nanmean RnanmeanNoFill [] [] 0 = .ok [] := by decide +kernel

/-- with a valid dropped element (or a fill) `H_dropped` holds and the theorem applies -/
example : runKnown (mkCall RnanmeanNoFill .npg 1 2) (.mapreduce false) true [2] (codeKeys [0, -1]) [Val.fin 1, Val.fin 5]
    = specResult .nanmean RnanmeanNoFill [0, -1] [Val.fin 1, Val.fin 5] 1 :=
  mapreduce_sparse_eq_spec RnanmeanNoFill (.mean true) (mkCall RnanmeanNoFill .npg 1 2) 1 true [2] [0, -1]
    [Val.fin 1, Val.fin 5] rfl rfl rfl rfl (by decide +kernel) (by decide +kernel) rfl (by decide +kernel)
    (by decide +kernel) rfl (by decide +kernel)

/-- **`H_minmax` is necessary**: without the count mask an all-NaN group keeps the intermediate fill `-inf` -/
theorem H_minmax_counterexample_sparse :
    Rnanmax0.shape? = some (.simple .nanmax .nanmax Val.ninf)
    ∧ HDropped Rnanmax0 1 [0] [Val.nan] ∧ ¬ HMinMax Rnanmax0 (.simple .nanmax .nanmax Val.ninf)
    ∧ runKnown (mkCall Rnanmax0 .npg 1 2) (.mapreduce false) true [1] (codeKeys [0]) [Val.nan] = .ok [Val.ninf]
    ∧ specResult .nanmax Rnanmax0 [0] [Val.nan] 1 = .ok [Val.nan] := by decide +kernel

/-- **`chunks.sum = codes.length` is necessary**: blocks that do not cover the array drop elements -/
theorem chunks_sum_counterexample_sparse :
    runKnown (mkCall Rnanmean .npg 4 2) (.mapreduce false) true [2, 1] (codeKeys codes8) vals8
      ≠ specResult .nanmean Rnanmean codes8 vals8 4 := by decide +kernel

/-- `chunks ≠ []` is NOT needed here (unlike `mapreduce_dense_eq_spec`): with no block at all the combine of nothing
    has the single NaN placeholder group, and every requested label gets the user fill -/
example : runKnown (mkCall Rnanmean .npg 3 2) (.mapreduce false) true [] (codeKeys []) []
    = specResult .nanmean Rnanmean [] [] 3 :=
  mapreduce_sparse_eq_spec Rnanmean (.mean true) (mkCall Rnanmean .npg 3 2) 3 true [] [] []
    rfl rfl rfl rfl (by decide +kernel) (by decide +kernel) rfl (by decide +kernel) (by decide +kernel) rfl
    (by decide +kernel)

example : runKnown (mkCall Rnanmean .npg 3 2) (.mapreduce false) true [] (codeKeys []) []
    = .ok [Val.fin (-1), Val.fin (-1), Val.fin (-1)] := by decide +kernel

/-- **`CodesOK` is necessary**: a code above the range is an ordinary (unrequested) group here, and is masked -/
theorem codesOK_counterexample_sparse :
    ¬ CodesOK [0, 3] 1 ∧ HDropped RnanmeanNoFill 1 [0, 3] [Val.fin 1, Val.nan]
    ∧ runKnown (mkCall RnanmeanNoFill .npg 1 2) (.mapreduce false) true [2] (codeKeys [0, 3]) [Val.fin 1, Val.nan]
        = .error "ValueError"
    ∧ specResult .nanmean RnanmeanNoFill [0, 3] [Val.fin 1, Val.nan] 1 = .ok [Val.fin 1] := by decide +kernel

end E2E
end Flox
