/-
  G2: ARG-REDUCTIONS END TO END (property C06), property-level statements.

  Proof chain (all in namespace `Flox.Grp`):
    ArgPair.lean      pair law of the repaired blueprints (`pairLawN_indexed`, no `HArgFill`)
    ArgEngine.lean    engine slot lemma (`chunkArgreduce_node`): a block = an arg-sparse node
    ArgCombine.lean   one `_grouped_combine` step (`groupedCombine_argNodes`), the tree (`tree_argNodes`),
                      the block stage with global indices (`blockStage_argNodes`), `mapreduce_argNode`
    ArgFinish.lean    finalize "second" + count mask + final reindex = `Spec.argSlot` (`mapreduce_arg_eq_spec`)

  This file:
    * the tie to the generated table: every float row of `argmax` / `argmin` / `nanargmax` / `nanargmin` resolves to a
      blueprint satisfying `ArgFits` (`generated_arg_rows_fit`);
    * `generated_arg_mapreduce`: C06 on the live table;
    * `arg_first_occurrence`: the specification in plain words (the returned index carries the label, holds the
      extreme, and no earlier element of the label does);
    * non-vacuity examples and counterexamples (`decide +kernel`).
-/
import FloxProofs.ArgFinish
import FloxProofs.TableShape
import FloxProofs.EndToEndExamples

namespace Flox.Grp

/-! ### tie to the generated table -/

def argFuncs : List String := ["argmax", "argmin", "nanargmax", "nanargmin"]

/-- what is checked, by evaluation, on every arg row of the generated table -/
def argRowOK (r : InitRow) : Bool :=
  match r.base, kernelWithDdof 0 r.func with
  | some R0, some k =>
    decide (ArgFits k (r.rep R0)) && (!r.mcPos || r.minCount == "mc")
      && (r.mcPos || decide (R0.minCount = 0 ∧ r.minCount ≠ "mc"))
  | _, _ => false

def argRowSelected (r : InitRow) : Bool :=
  r.ok && (r.dkind == "f8" || r.dkind == "f4") && argFuncs.contains r.func

theorem generated_arg_rows_ok :
    (Generated.initRows.all fun r => !argRowSelected r || argRowOK r) = true := by decide +kernel

theorem setDdof_of_isArg {k : Kernel} (hk : isArgKernel k = true) (d : Nat) :
    Kernel.setDdof d k = k ∧ Kernel.setDdof d (argChunkVal k) = argChunkVal k := by
  rcases isArgKernel_cases hk with (rfl | rfl) | (rfl | rfl) <;> exact ⟨rfl, rfl⟩

/-- `ArgFits` is stable under the substitution of the call's parameters -/
theorem ArgFits.transfer {k : Kernel} {R0 R : Resolved} (d : Nat) (hf : ArgFits k R0)
    (hmc : R.minCount > 0 ↔ R0.minCount > 0)
    (hchunk : R.chunk = R0.chunk.map (Kernel.setDdof d))
    (hcombine : R.combine = R0.combine.map (Kernel.setDdof d)) (hif : R.interFills = R0.interFills)
    (hfin : R.finalize = R0.finalize) (harg : R.isArg = R0.isArg) : ArgFits k R := by
  have hcnt : ∀ {α} (x : α), cntSuffix R x = cntSuffix R0 x := by
    intro α x
    unfold cntSuffix
    by_cases h : R0.minCount > 0
    · rw [if_pos h, if_pos (hmc.mpr h)]
    · rw [if_neg h, if_neg (fun h' => h (hmc.mp h'))]
  have hmapcnt : ∀ x : Kernel, x = .nanlen ∨ x = .sum →
      (cntSuffix R0 x).map (Kernel.setDdof d) = cntSuffix R0 x := by
    intro x hx
    unfold cntSuffix
    split
    · rcases hx with rfl | rfl <;> rfl
    · rfl
  obtain ⟨h1, h2⟩ := setDdof_of_isArg hf.hk d
  refine ⟨hf.hk, harg.trans hf.isArg, ?_, ?_, ?_, hfin.trans hf.fin⟩
  · rw [hchunk, hf.chunk, hcnt, List.map_append, hmapcnt _ (Or.inl rfl)]
    simp only [List.map_cons, List.map_nil, h1, h2]
  · rw [hcombine, hf.combine, hcnt, List.map_append, hmapcnt _ (Or.inr rfl)]
    simp only [List.map_cons, List.map_nil, h1, h2]
  · rw [hif, hf.interFills, hcnt]

/-- what the end-to-end theorem needs to know about an arg row of the generated table -/
structure ArgRowFacts (row : InitRow) (user : Option Val) (mc ddof : Nat) (R : Resolved) (k : Kernel) : Prop where
  resolve : row.resolve user mc ddof = some R
  kernel : kernelWithDdof ddof row.func = some k
  fits : ArgFits k R
  minCount : R.minCount = mc
  userFill : row.userFill = "user" → R.userFill = user

theorem argRowOK_facts (pf : ParseFacts) (row : InitRow) (hok : argRowOK row = true) (user : Option Val)
    (mc ddof : Nat) (hmc : row.mcPos = decide (mc > 0)) : ∃ R k, ArgRowFacts row user mc ddof R k := by
  unfold argRowOK at hok
  split at hok
  · rename_i R0 k hbase hkern
    simp only [Bool.and_eq_true, decide_eq_true_eq, Bool.or_eq_true, Bool.not_eq_true', beq_iff_eq] at hok
    obtain ⟨⟨hfit, hmcs⟩, hlit⟩ := hok
    have hpos : (row.inst R0 user mc ddof).minCount > 0 ↔ (row.rep R0).minCount > 0 := by
      simp only [InitRow.inst, InitRow.rep]
      by_cases hm : row.minCount = "mc"
      · simp only [hm, if_true, hmc]
        by_cases h0 : mc > 0 <;> simp [h0]
      · simp only [hm, if_false]
    have hk' : isArgKernel k = true := hfit.hk
    refine ⟨row.inst R0 user mc ddof, k, row.resolve_of_base pf R0 hbase user mc ddof, ?_,
      hfit.transfer ddof hpos rfl rfl rfl rfl rfl, ?_, ?_⟩
    · rw [kernelWithDdof_setDdof ddof row.func k hkern, (setDdof_of_isArg hk' ddof).1]
    · simp only [InitRow.inst]
      by_cases h0 : mc > 0
      · have hp : row.mcPos = true := by rw [hmc]; simpa using h0
        have hm : row.minCount = "mc" := by
          rcases hmcs with h | h
          · rw [hp] at h; cases h
          · exact h
        simp [hm]
      · have hp : row.mcPos = false := by rw [hmc]; simp [h0]
        rcases hlit with h | ⟨h1, h2⟩
        · rw [hp] at h; cases h
        · simp only [h2, if_false, h1]; omega
    · intro hu
      simp [InitRow.inst, hu]
  · cases hok

/-- **Tie to the generated table.**  Every `ok` row of `argmax` / `argmin` / `nanargmax` / `nanargmin` on floating
    data resolves, for every user fill / `min_count` (of the positivity the row was generated for) / `ddof`, to a
    blueprint of the repaired form `ArgFits` (chunk = combine = [value kernel, arg kernel] (+ count), fills
    [∓inf | nan, 0] (+ 0), finalize "second", isArg). -/
theorem generated_arg_rows_fit :
    ∀ row ∈ Generated.initRows, row.ok = true → row.dkind ∈ ["f8", "f4"] → row.func ∈ argFuncs →
      ∀ (user : Option Val) (mc ddof : Nat), row.mcPos = decide (mc > 0) →
        ∃ R k, ArgRowFacts row user mc ddof R k := by
  intro row hrow hok hdk hfunc user mc ddof hmc
  have hall := List.all_eq_true.mp generated_arg_rows_ok row hrow
  have hsel : argRowSelected row = true := by
    simp only [argRowSelected, Bool.and_eq_true, Bool.or_eq_true, beq_iff_eq, List.contains_iff_mem]
    refine ⟨⟨hok, ?_⟩, hfunc⟩
    simpa using hdk
  rw [hsel] at hall
  exact argRowOK_facts parseFacts row (by simpa using hall) user mc ddof hmc

/-- **C06 on the live table.**  For every `ok` float row of an arg-reduction, map-reduce (arg-reductions always use
    `_grouped_combine`) with the blueprint resolved from that row equals the specification with the NumPy kernel
    named by `func`, for every chunking and every `split_every`. -/
theorem generated_arg_mapreduce (row : InitRow) (hrow : row ∈ Generated.initRows) (hok : row.ok = true)
    (hdk : row.dkind ∈ ["f8", "f4"]) (hfunc : row.func ∈ argFuncs)
    (user : Option Val) (mc ddof : Nat) (hmc : row.mcPos = decide (mc > 0))
    (R : Resolved) (hres : row.resolve user mc ddof = some R)
    (k : Kernel) (hk : kernelWithDdof ddof row.func = some k)
    (c : Call) (n : Nat) (floatData : Bool) (chunks : List Nat) (codes : List Int) (vals : List Val)
    (hR : c.R = R) (heng : c.eng = .npg) (hn : c.ngroups = n)
    (hcodes : CodesOK codes n) (hlen : codes.length = vals.length) (hne : codes ≠ [])
    (hchunks : chunks ≠ []) (hsum : chunks.sum = codes.length)
    (H_notallnan : ∀ g : Nat, g < n → HNotAllNaN k R (members (Int.ofNat g) codes vals))
    (H_dropped : HDropped R codes vals) :
    runKnown c (.mapreduce false) floatData chunks (codeKeys codes) vals = specResult k R codes vals n := by
  obtain ⟨R', k', hfacts⟩ := generated_arg_rows_fit row hrow hok hdk hfunc user mc ddof hmc
  have : R' = R := Option.some.inj (hfacts.resolve.symm.trans hres)
  subst this
  have hk' : k' = k := Option.some.inj (hfacts.kernel.symm.trans hk)
  subst hk'
  exact mapreduce_arg_eq_spec k' R' c n floatData chunks codes vals hR heng hn hfacts.fits hcodes hlen hne hchunks hsum
    H_notallnan H_dropped

/-! ### the specification in plain words -/

/-- `argBest` is the position of the leftmost best element: nothing beats it, and nothing before it ties with it -/
theorem argBest_spec (k : Kernel) (ms : List Val) (hne : ms ≠ []) :
    let i := argBest (argBetter k) ms
    i < ms.length ∧ (∀ v ∈ ms, argBetter k v (ms.getD i Val.nan) = false)
      ∧ (∀ i' < i, argBetter k (ms.getD i Val.nan) (ms.getD i' Val.nan) = true) := by
  intro i
  have hlt : i < ms.length := argBest_lt _ _ hne
  -- pair every value with its own position
  let ps : List VI := ms.zipIdx.map fun p => (p.1, Val.ofNat p.2)
  have hfst : ps.map (·.1) = ms := by
    simp only [ps, List.map_map, Function.comp_def]
    rw [show (fun (p : Val × Nat) => p.1) = Prod.fst from rfl, List.zipIdx_map_fst]
  have hpne : ps ≠ [] := by
    intro e; apply hne; rw [← hfst, e]; rfl
  have hlen : ps.length = ms.length := by simp [ps]
  have hget : ∀ j (hj : j < ms.length), ps.getD j (Val.nan, Val.nan) = (ms[j], Val.ofNat j) := by
    intro j hj
    simp [ps, List.getD_eq_getElem?_getD, hj]
  have hpick : pick1 k ps = (ms[i], Val.ofNat i) := by
    rw [← getD_argBest k ps (Val.nan, Val.nan) hpne, hfst]
    exact hget i hlt
  have hmsi : ms.getD i Val.nan = ms[i] := by simp [List.getD_eq_getElem?_getD, hlt]
  refine ⟨hlt, ?_, ?_⟩
  · intro v hv
    obtain ⟨j, hj, rfl⟩ := List.getElem_of_mem hv
    have hmem : (ms[j], Val.ofNat j) ∈ ps := by
      rw [← hget j hj]
      simp only [List.getD_eq_getElem?_getD, List.getElem?_eq_getElem (hlen ▸ hj), Option.getD_some]
      exact List.getElem_mem _
    have := pick1_best k ps _ hmem
    rw [hpick] at this
    rw [hmsi]; exact this
  · -- leftmost: split the list at `i'`
    intro i' hi'
    have hi'lt : i' < ms.length := by omega
    -- `pick1` of the prefix up to `i'` (inclusive) is not the overall winner, so the rest strictly beats it
    have hsplit : ps = ps.take (i' + 1) ++ ps.drop (i' + 1) := (List.take_append_drop _ _).symm
    have htne : ps.take (i' + 1) ≠ [] := by
      intro e
      have := congrArg List.length e
      simp only [List.length_take, List.length_nil, hlen] at this
      omega
    have hdne : ps.drop (i' + 1) ≠ [] := by
      intro e
      have := congrArg List.length e
      simp only [List.length_drop, List.length_nil, hlen] at this
      omega
    have happ := pick1_append k _ _ htne hdne
    rw [← hsplit, hpick] at happ
    -- the winner of the prefix has an index ≤ i' < i, so it is not the overall winner
    have hpre_mem := pick1_mem k _ htne
    have hpre_idx : ∃ j, ∃ hj : j ≤ i', pick1 k (ps.take (i' + 1)) = (ms[j]'(by omega), Val.ofNat j) := by
      obtain ⟨j, hj, e⟩ := List.getElem_of_mem hpre_mem
      have hj' : j < i' + 1 := by
        simp only [List.length_take] at hj; omega
      refine ⟨j, by omega, ?_⟩
      rw [← e, List.getElem_take]
      have := hget j (by omega)
      simp only [List.getD_eq_getElem?_getD, List.getElem?_eq_getElem (show j < ps.length by rw [hlen]; omega),
        Option.getD_some] at this
      exact this
    obtain ⟨j, hj, hpre⟩ := hpre_idx
    have hne_w : pickOp k (pick1 k (ps.take (i' + 1))) (pick1 k (ps.drop (i' + 1))) ≠ pick1 k (ps.take (i' + 1)) := by
      rw [← happ, hpre]
      intro e
      have := congrArg Prod.snd e
      simp only [Val.ofNat, Val.fin.injEq] at this
      have : i = j := by exact_mod_cast this
      omega
    have hbetter : argBetter k (pick1 k (ps.drop (i' + 1))).1 (pick1 k (ps.take (i' + 1))).1 = true := by
      cases h : argBetter k (pick1 k (ps.drop (i' + 1))).1 (pick1 k (ps.take (i' + 1))).1 with
      | true => rfl
      | false => exact absurd (pickOp_of_not_better k _ _ h) hne_w
    have hw : pick1 k (ps.drop (i' + 1)) = (ms[i], Val.ofNat i) := by
      rw [← pickOp_of_better k _ _ hbetter]; exact happ.symm
    rw [hw] at hbetter
    -- the element at `i'` is in the prefix, hence not better than the prefix's winner
    have hi'mem : (ms[i'], Val.ofNat i') ∈ ps.take (i' + 1) := by
      have := hget i' hi'lt
      simp only [List.getD_eq_getElem?_getD, List.getElem?_eq_getElem (show i' < ps.length by rw [hlen]; omega),
        Option.getD_some] at this
      rw [← this]
      have hlt' : i' < (ps.take (i' + 1)).length := by simp only [List.length_take, hlen]; omega
      have := List.getElem_mem hlt'
      rwa [List.getElem_take] at this
    have hnb := pick1_best k _ _ hi'mem
    simp only at hnb hbetter
    rw [hmsi, show ms.getD i' Val.nan = ms[i'] by simp [List.getD_eq_getElem?_getD, hi'lt]]
    -- `w > pre` and `¬ (x_i' > pre)` give `w > x_i'`
    cases h : argBetter k ms[i] ms[i'] with
    | true => rfl
    | false =>
      have := argBetter_negtrans k h hnb
      rw [hbetter] at this; cases this


/-! ### positions of a label: sorted, and exactly the places where the label stands -/

theorem mem_memberPosFrom_iff (κ : Key) (keys : List Key) (n i : Nat) :
    i ∈ memberPosFrom κ keys n ↔ ∃ m, i = n + m ∧ keys[m]? = some κ := by
  induction keys generalizing n with
  | nil => simp [memberPosFrom]
  | cons k ks ih =>
    rw [memberPosFrom_cons]
    constructor
    · intro h
      by_cases e : k = κ
      · rw [if_pos e] at h
        rcases List.mem_cons.mp h with rfl | h
        · exact ⟨0, rfl, by simp [e]⟩
        · obtain ⟨m, rfl, hm⟩ := (ih (n + 1)).mp h
          exact ⟨m + 1, by omega, by simpa using hm⟩
      · rw [if_neg e] at h
        obtain ⟨m, rfl, hm⟩ := (ih (n + 1)).mp h
        exact ⟨m + 1, by omega, by simpa using hm⟩
    · rintro ⟨m, rfl, hm⟩
      cases m with
      | zero =>
        have e : k = κ := by simpa using hm
        simp [e]
      | succ m =>
        have : n + (m + 1) ∈ memberPosFrom κ ks (n + 1) := (ih (n + 1)).mpr ⟨m, by omega, by simpa using hm⟩
        by_cases e : k = κ <;> simp [e, this]

theorem pairwise_memberPosFrom (κ : Key) (keys : List Key) (n : Nat) :
    (memberPosFrom κ keys n).Pairwise (· < ·) := by
  induction keys generalizing n with
  | nil => simp [memberPosFrom]
  | cons k ks ih =>
    rw [memberPosFrom_cons]
    split
    · refine List.pairwise_cons.mpr ⟨?_, ih (n + 1)⟩
      intro a ha
      have := (mem_memberPosFrom ha).1
      omega
    · exact ih (n + 1)

/-- `Spec.positions g codes` are exactly the places where the code is `g` … -/
theorem mem_positions_iff (g : Int) (codes : List Int) (q : Nat) :
    q ∈ Spec.positions g codes ↔ codes[q]? = some g := by
  rw [← memberPosK_codeKeys, mem_memberPosFrom_iff]
  constructor
  · rintro ⟨m, rfl, hm⟩
    simp only [codeKeys, List.getElem?_map, Option.map_eq_some_iff, Option.some.injEq] at hm
    obtain ⟨a, ha, e⟩ := hm
    rw [Nat.zero_add, ha, Rat.intCast_inj.mp e]
  · intro h
    exact ⟨q, by omega, by simp [codeKeys, h]⟩

/-- … in increasing order -/
theorem positions_sorted (g : Int) (codes : List Int) : (Spec.positions g codes).Pairwise (· < ·) := by
  rw [← memberPosK_codeKeys]; exact pairwise_memberPosFrom _ _ 0

theorem members_eq_map_positions (g : Int) (codes : List Int) (vals : List Val) (h : codes.length ≤ vals.length) :
    members g codes vals = (Spec.positions g codes).map fun i => vals.getD i Val.nan := by
  rw [← membersK_codeKeys, membersK_eq_map_pos _ _ _ Val.nan (by simpa [codeKeys] using h), memberPosK_codeKeys]

/-- **The specification slot in plain words.**  For a requested label `g` that occurs and is not masked by
    `min_count`, the specification slot is an index `p` of the whole array such that
      (1) the element at `p` carries the label `g`;
      (2) no element of the label is better than the element at `p` (it is the extreme – for `argmax` / `argmin` a NaN
          counts as the extreme, as in NumPy; for `nanarg*` NaNs are worse than everything);
      (3) every EARLIER element of the label is strictly worse (first occurrence).
    `argBetter k y b` is "`y` strictly beats `b`" for the kernel `k`. -/
theorem specArgSlot_first_occurrence (k : Kernel) (hk : isArgKernel k = true) (R : Resolved) (codes : List Int)
    (vals : List Val) (g : Int) (hlen : codes.length = vals.length) (hm : members g codes vals ≠ [])
    (hun : ¬ Spec.validCount (members g codes vals) < R.minCount) :
    ∃ p : Nat, specArgSlot R k (Spec.positions g codes) (members g codes vals) = .ok (Val.ofNat p)
      ∧ codes[p]? = some g
      ∧ (∀ q, codes[q]? = some g → argBetter k (vals.getD q Val.nan) (vals.getD p Val.nan) = false)
      ∧ (∀ q, q < p → codes[q]? = some g → argBetter k (vals.getD p Val.nan) (vals.getD q Val.nan) = true) := by
  have hms := members_eq_map_positions g codes vals (by omega)
  obtain ⟨hlt, hbest, hfirst⟩ := argBest_spec k _ hm
  generalize hi : argBest (argBetter k) (members g codes vals) = i at hlt hbest hfirst
  have hlt' : i < (Spec.positions g codes).length := by
    have := congrArg List.length hms
    simp only [List.length_map] at this
    omega
  have hget : ∀ j (hj : j < (Spec.positions g codes).length),
      (members g codes vals).getD j Val.nan = vals.getD (Spec.positions g codes)[j] Val.nan := by
    intro j hj
    rw [hms, getD_map_lt _ _ _ _ hj]
  refine ⟨(Spec.positions g codes)[i], ?_, ?_, ?_, ?_⟩
  · rw [specArgSlot_unmasked R k hk _ _ hm hun, hi]
    simp [List.getD_eq_getElem?_getD, hlt']
  · exact (mem_positions_iff g codes _).mp (List.getElem_mem _)
  · intro q hq
    obtain ⟨j, hj, rfl⟩ := List.getElem_of_mem ((mem_positions_iff g codes q).mpr hq)
    have := hbest ((members g codes vals).getD j Val.nan) (by
      rw [hms, getD_map_lt _ _ _ _ hj]
      exact List.mem_map.mpr ⟨_, List.getElem_mem _, rfl⟩)
    rw [hget j hj, hget i hlt'] at this
    exact this
  · intro q hq hcode
    obtain ⟨j, hj, rfl⟩ := List.getElem_of_mem ((mem_positions_iff g codes q).mpr hcode)
    have hji : j < i := by
      apply Classical.byContradiction
      intro hnot
      have hij : i ≤ j := by omega
      rcases Nat.lt_or_eq_of_le hij with h | h
      · have := (List.pairwise_iff_getElem.mp (positions_sorted g codes)) i j hlt' hj h
        omega
      · subst h; omega
    have := hfirst j hji
    rw [hget j hj, hget i hlt'] at this
    exact this

/-- **C06 in plain words.**  Under the hypotheses of `mapreduce_arg_eq_spec`, when the map-reduce run succeeds with
    result `res`, the slot of every requested label `g` that occurs (and is not masked by `min_count`) holds an index
    `p` of the WHOLE array with: the element at `p` carries label `g`, no element of the label beats it, and every
    earlier element of the label is strictly worse – for every chunking and every `split_every`. -/
theorem arg_first_occurrence (k : Kernel) (R : Resolved) (c : Call) (n : Nat) (floatData : Bool)
    (chunks : List Nat) (codes : List Int) (vals : List Val)
    (hR : c.R = R) (heng : c.eng = .npg) (hn : c.ngroups = n) (hf : ArgFits k R) (hcodes : CodesOK codes n)
    (hlen : codes.length = vals.length) (hne : codes ≠ [])
    (hchunks : chunks ≠ []) (hsum : chunks.sum = codes.length)
    (H_notallnan : ∀ g : Nat, g < n → HNotAllNaN k R (members (Int.ofNat g) codes vals))
    (H_dropped : HDropped R codes vals)
    (res : List Val) (hres : runKnown c (.mapreduce false) floatData chunks (codeKeys codes) vals = .ok res)
    (g : Nat) (hg : g < n) (hm : members (Int.ofNat g) codes vals ≠ [])
    (hun : ¬ Spec.validCount (members (Int.ofNat g) codes vals) < R.minCount) :
    ∃ p : Nat, res[g]? = some (Val.ofNat p)
      ∧ codes[p]? = some (Int.ofNat g)
      ∧ (∀ q, codes[q]? = some (Int.ofNat g) → argBetter k (vals.getD q Val.nan) (vals.getD p Val.nan) = false)
      ∧ (∀ q, q < p → codes[q]? = some (Int.ofNat g) →
          argBetter k (vals.getD p Val.nan) (vals.getD q Val.nan) = true) := by
  rw [mapreduce_arg_eq_spec k R c n floatData chunks codes vals hR heng hn hf hcodes hlen hne hchunks hsum
    H_notallnan H_dropped, specResult_arg_slots k hf.hk] at hres
  obtain ⟨p, hp, h1, h2, h3⟩ := specArgSlot_first_occurrence k hf.hk R codes vals (Int.ofNat g) hlen hm hun
  have hgl : g < (List.range n).length := by simpa using hg
  have := mapM_except_getElem _ (List.range n) res hres g hgl
  simp only [List.getElem_range] at this
  rw [hp] at this
  have hlen' : res.length = (List.range n).length := mapM_except_length _ _ _ hres
  refine ⟨p, ?_, h1, h2, h3⟩
  rw [List.getElem?_eq_getElem (by omega)]
  exact congrArg some (Except.ok.inj this).symm


/-! ### non-vacuity examples and counterexamples (all by `decide +kernel`) -/

namespace AE2E
open E2E

/-- the repaired blueprints as `_initialize_aggregation` resolves them (float data, `fill_value=-1`) -/
def Rargmax : Resolved :=
  { name := "argmax", numpy := [.argmax], chunk := [.max, .argmax], combine := [.max, .argmax],
    interFills := [Val.ninf, Val.zero], numpyFills := [Val.zero], finalFill := some (Val.fin (-1)),
    userFill := some (Val.fin (-1)), minCount := 0, finalize := "second", ddof := 0, isArg := true }

def Rargmin : Resolved :=
  { name := "argmin", numpy := [.argmin], chunk := [.min, .argmin], combine := [.min, .argmin],
    interFills := [Val.pinf, Val.zero], numpyFills := [Val.zero], finalFill := some (Val.fin (-1)),
    userFill := some (Val.fin (-1)), minCount := 0, finalize := "second", ddof := 0, isArg := true }

def Rnanargmax : Resolved :=
  { name := "nanargmax", numpy := [.nanargmax], chunk := [.nanmax, .nanargmax], combine := [.nanmax, .nanargmax],
    interFills := [Val.nan, Val.zero], numpyFills := [Val.zero], finalFill := some (Val.fin (-1)),
    userFill := some (Val.fin (-1)), minCount := 0, finalize := "second", ddof := 0, isArg := true }

def Rnanargmin : Resolved :=
  { name := "nanargmin", numpy := [.nanargmin], chunk := [.nanmin, .nanargmin], combine := [.nanmin, .nanargmin],
    interFills := [Val.nan, Val.zero], numpyFills := [Val.zero], finalFill := some (Val.fin (-1)),
    userFill := some (Val.fin (-1)), minCount := 0, finalize := "second", ddof := 0, isArg := true }

/-- `nanargmax` with `min_count=1` (count column appended) -/
def Rnanargmax1 : Resolved :=
  { name := "nanargmax", numpy := [.nanargmax, .nanlen], chunk := [.nanmax, .nanargmax, .nanlen],
    combine := [.nanmax, .nanargmax, .sum], interFills := [Val.nan, Val.zero, Val.zero],
    numpyFills := [Val.zero, Val.zero], finalFill := some (Val.fin (-1)), userFill := some (Val.fin (-1)),
    minCount := 1, finalize := "second", ddof := 0, isArg := true }

/-- the same without a user fill -/
def Rnanargmax1n : Resolved := { Rnanargmax1 with userFill := none }

example : ArgFits .argmax Rargmax := by decide +kernel
example : ArgFits .argmin Rargmin := by decide +kernel
example : ArgFits .nanargmax Rnanargmax := by decide +kernel
example : ArgFits .nanargmin Rnanargmin := by decide +kernel
example : ArgFits .nanargmax Rnanargmax1 := by decide +kernel

/-- the generated table has the arg rows the tie theorem talks about (the tie is not vacuous) -/
example : (Generated.initRows.filter argRowSelected).length = 80 := by decide +kernel

/-! #### ties across blocks: the same extreme in two blocks → the smallest global index -/

def cT : List Int := [0, 1, 0, 1, 0, 1]
def vT : List Val := [.fin 5, .fin 3, .fin 5, .fin 3, .fin 1, .fin 3]

/-- `mapreduce_arg_eq_spec` applies (every hypothesis holds) … -/
example : runKnown (mkCall Rargmax .npg 2 2) (.mapreduce false) true [2, 2, 2] (codeKeys cT) vT
    = specResult .argmax Rargmax cT vT 2 :=
  mapreduce_arg_eq_spec .argmax Rargmax (mkCall Rargmax .npg 2 2) 2 true [2, 2, 2] cT vT rfl rfl rfl
    (by decide +kernel) (by decide +kernel) rfl (by decide) (by decide) (by decide) (by decide +kernel)
    (by decide +kernel)

/-- … and the common value is the FIRST occurrence: label 0 has its maximum 5 in blocks 0 and 1 → index 0;
    label 1 has 3 in every block → index 1 -/
example : specResult .argmax Rargmax cT vT 2 = .ok [Val.fin 0, Val.fin 1] := by decide +kernel

example : runKnown (mkCall Rargmin .npg 2 2) (.mapreduce false) true [2, 2, 2] (codeKeys cT) vT
    = specResult .argmin Rargmin cT vT 2 :=
  mapreduce_arg_eq_spec .argmin Rargmin (mkCall Rargmin .npg 2 2) 2 true [2, 2, 2] cT vT rfl rfl rfl
    (by decide +kernel) (by decide +kernel) rfl (by decide) (by decide) (by decide) (by decide +kernel)
    (by decide +kernel)

example : specResult .argmin Rargmin cT vT 2 = .ok [Val.fin 4, Val.fin 1] := by decide +kernel

/-! #### `argmax` with NaNs: NO NaN-freeness hypothesis – the first NaN of the label wins, as in NumPy -/

def vTn : List Val := [.fin 5, .fin 3, .nan, .fin 3, .nan, .fin 3]

example : runKnown (mkCall Rargmax .npg 2 2) (.mapreduce false) true [2, 2, 2] (codeKeys cT) vTn
    = specResult .argmax Rargmax cT vTn 2 :=
  mapreduce_arg_eq_spec .argmax Rargmax (mkCall Rargmax .npg 2 2) 2 true [2, 2, 2] cT vTn rfl rfl rfl
    (by decide +kernel) (by decide +kernel) rfl (by decide) (by decide) (by decide) (by decide +kernel)
    (by decide +kernel)

example : specResult .argmax Rargmax cT vTn 2 = .ok [Val.fin 2, Val.fin 1] := by decide +kernel

/-! #### NaNs on both sides of a block boundary, blocks in which a label is all-NaN (`nanargmax`) -/

def cN : List Int := [0, 0, 0, 0, 1, 0, 0, 1]
def vN : List Val := [.fin 1, .nan, .nan, .fin 7, .nan, .nan, .fin 7, .fin 2]

/-- blocks `[1, nan | nan, 7 | nan₁, nan | 7, 2₁]`: label 0 is all-NaN in block 2, label 1 is all-NaN in block 2 -/
example : runKnown (mkCall Rnanargmax .npg 2 2) (.mapreduce false) true [2, 2, 2, 2] (codeKeys cN) vN
    = specResult .nanargmax Rnanargmax cN vN 2 :=
  mapreduce_arg_eq_spec .nanargmax Rnanargmax (mkCall Rnanargmax .npg 2 2) 2 true [2, 2, 2, 2] cN vN rfl rfl rfl
    (by decide +kernel) (by decide +kernel) rfl (by decide) (by decide) (by decide) (by decide +kernel)
    (by decide +kernel)

example : specResult .nanargmax Rnanargmax cN vN 2 = .ok [Val.fin 3, Val.fin 7] := by decide +kernel

/-- `split_every = 3`, other chunking: same theorem -/
example : runKnown (mkCall Rnanargmax .npg 2 3) (.mapreduce false) true [3, 1, 3, 1] (codeKeys cN) vN
    = specResult .nanargmax Rnanargmax cN vN 2 :=
  mapreduce_arg_eq_spec .nanargmax Rnanargmax (mkCall Rnanargmax .npg 2 3) 2 true [3, 1, 3, 1] cN vN rfl rfl rfl
    (by decide +kernel) (by decide +kernel) rfl (by decide) (by decide) (by decide) (by decide +kernel)
    (by decide +kernel)

/-- **the old FINDING is gone**: data `[nan, nan | nan, -inf]`, one label.  With the old blueprint
    (`combine = [max, argmax]`, fill `-inf`) flox answered 0 (`nanargmax_grouped_counterexample`); with the repaired
    blueprint the theorem applies (no `HArgFill`) and the answer is 3, NumPy's. -/
example : runKnown (mkCall Rnanargmax .npg 1 2) (.mapreduce false) true [2, 2] (codeKeys [0, 0, 0, 0])
      [.nan, .nan, .nan, .ninf]
    = specResult .nanargmax Rnanargmax [0, 0, 0, 0] [.nan, .nan, .nan, .ninf] 1 :=
  mapreduce_arg_eq_spec .nanargmax Rnanargmax (mkCall Rnanargmax .npg 1 2) 1 true [2, 2] [0, 0, 0, 0]
    [.nan, .nan, .nan, .ninf] rfl rfl rfl (by decide +kernel) (by decide +kernel) rfl (by decide) (by decide)
    (by decide) (by decide +kernel) (by decide +kernel)

example : specResult .nanargmax Rnanargmax [0, 0, 0, 0] [.nan, .nan, .nan, .ninf] 1 = .ok [Val.fin 3] := by
  decide +kernel

example : runKnown (mkCall Rnanargmin .npg 1 2) (.mapreduce false) true [2, 2] (codeKeys [0, 0, 0, 0])
      [.nan, .nan, .nan, .pinf] = .ok [Val.fin 3] := by decide +kernel

/-! #### all chunks of size 1, dropped elements (code -1), an absent label -/

def c9 : List Int := [0, 1, 0, 1, 0, -1, 1, 0, 2]
def v9n : List Val := [.nan, .fin 5, .fin 3, .nan, .fin 3, .fin 9, .fin 7, .nan, .fin 4]

example : runKnown (mkCall Rnanargmax .npg 4 2) (.mapreduce false) true [1, 1, 1, 1, 1, 1, 1, 1, 1] (codeKeys c9) v9n
    = specResult .nanargmax Rnanargmax c9 v9n 4 :=
  mapreduce_arg_eq_spec .nanargmax Rnanargmax (mkCall Rnanargmax .npg 4 2) 4 true [1, 1, 1, 1, 1, 1, 1, 1, 1] c9 v9n
    rfl rfl rfl (by decide +kernel) (by decide +kernel) rfl (by decide) (by decide) (by decide) (by decide +kernel)
    (by decide +kernel)

/-- label 3 never occurs → the user's fill -/
example : specResult .nanargmax Rnanargmax c9 v9n 4 = .ok [Val.fin 2, Val.fin 6, Val.fin 8, Val.fin (-1)] := by
  decide +kernel

/-- the plain-words statement on the same input: the slot of label 1 is an index carrying label 1 -/
example : ∃ p : Nat, (([Val.fin 2, Val.fin 6, Val.fin 8, Val.fin (-1)] : List Val)[1]? = some (Val.ofNat p))
    ∧ c9[p]? = some (Int.ofNat 1) :=
  let ⟨p, h1, h2, _, _⟩ := arg_first_occurrence .nanargmax Rnanargmax (mkCall Rnanargmax .npg 4 2) 4 true
    [1, 1, 1, 1, 1, 1, 1, 1, 1] c9 v9n rfl rfl rfl (by decide +kernel) (by decide +kernel) rfl (by decide)
    (by decide) (by decide) (by decide +kernel) (by decide +kernel)
    [Val.fin 2, Val.fin 6, Val.fin 8, Val.fin (-1)] (by decide +kernel) 1 (by decide) (by decide +kernel)
    (by decide +kernel)
  ⟨p, h1, h2⟩

/-! #### the count mask (`min_count = 1`): an all-NaN label is masked, `H_notallnan` holds through its first disjunct -/

example : runKnown (mkCall Rnanargmax1 .npg 2 2) (.mapreduce false) true [2, 2] (codeKeys [1, 0, 0, 1])
      [.fin 3, .nan, .nan, .fin 4]
    = specResult .nanargmax Rnanargmax1 [1, 0, 0, 1] [.fin 3, .nan, .nan, .fin 4] 2 :=
  mapreduce_arg_eq_spec .nanargmax Rnanargmax1 (mkCall Rnanargmax1 .npg 2 2) 2 true [2, 2] [1, 0, 0, 1]
    [.fin 3, .nan, .nan, .fin 4] rfl rfl rfl (by decide +kernel) (by decide +kernel) rfl (by decide) (by decide)
    (by decide) (by decide +kernel) (by decide +kernel)

example : specResult .nanargmax Rnanargmax1 [1, 0, 0, 1] [.fin 3, .nan, .nan, .fin 4] 2
    = .ok [Val.fin (-1), Val.fin 3] := by decide +kernel

/-! #### necessity of the hypotheses -/

/-- **`H_notallnan` is necessary** (`nanarg*`, `min_count = 0`): label 0 is all-NaN (NumPy raises "All-NaN slice
    encountered"; the specification's convention is the label's first position, 1); the model stores the junk index
    – the first global index of the first block – which is 0, an element of label 1.  Every other hypothesis holds. -/
theorem nanargmax_allnan_counterexample :
    ArgFits .nanargmax Rnanargmax ∧ CodesOK [1, 0, 0, 1] 2 ∧ HDropped Rnanargmax [1, 0, 0, 1] [.fin 3, .nan, .nan, .fin 4]
    ∧ ¬ HNotAllNaN .nanargmax Rnanargmax (members 0 [1, 0, 0, 1] [.fin 3, .nan, .nan, .fin 4])
    ∧ runKnown (mkCall Rnanargmax .npg 2 2) (.mapreduce false) true [2, 2] (codeKeys [1, 0, 0, 1])
        [.fin 3, .nan, .nan, .fin 4] = .ok [Val.fin 0, Val.fin 3]
    ∧ specResult .nanargmax Rnanargmax [1, 0, 0, 1] [.fin 3, .nan, .nan, .fin 4] 2 = .ok [Val.fin 1, Val.fin 3] := by
  decide +kernel

/-- **`H_dropped` is necessary** (as for every grouped combine): `min_count = 1`, no fill value, the dropped elements
    (code -1) are all NaN: `_finalize_results` masks the group of dropped elements before the reindex and raises,
    although no requested label needs filling.  Every other hypothesis holds. -/
theorem arg_dropped_counterexample :
    ArgFits .nanargmax Rnanargmax1n ∧ CodesOK [0, -1, 0, -1] 1
    ∧ (∀ g : Nat, g < 1 → HNotAllNaN .nanargmax Rnanargmax1n (members (Int.ofNat g) [0, -1, 0, -1]
        [.fin 3, .nan, .fin 5, .nan]))
    ∧ ¬ HDropped Rnanargmax1n [0, -1, 0, -1] [.fin 3, .nan, .fin 5, .nan]
    ∧ runKnown (mkCall Rnanargmax1n .npg 1 2) (.mapreduce false) true [2, 2] (codeKeys [0, -1, 0, -1])
        [.fin 3, .nan, .fin 5, .nan] = .error "ValueError"
    ∧ specResult .nanargmax Rnanargmax1n [0, -1, 0, -1] [.fin 3, .nan, .fin 5, .nan] 1 = .ok [Val.fin 2] := by
  decide +kernel

end AE2E

end Flox.Grp
