/-
  G2, step (1): the ENGINE SLOT LEMMA for arg-reductions.

  `chunk_reduce` with an arg kernel (`argGrouped`: numpy_groupies returns the position inside the block of the first
  extreme among the label's members) followed by `chunk_argreduce`'s index lookup yields, per found label, the pair

      blockPairN k junk (members' values zipped with members' indices)

  (`ArgPair.lean`), where `junk = idxs[0]` is what is stored for a label whose members are all NaN (`nanarg*`).
  `argNode` is the resulting "arg-sparse node"; `chunkArgreduce_node` is the block-stage theorem.
-/
import FloxProofs.ArgPair

namespace Flox.Grp

/-! ### positions of the members of a label -/

/-- positions (counted from `n`) of the keys equal to `κ` -/
def memberPosFrom (κ : Key) (keys : List Key) (n : Nat) : List Nat :=
  (keys.zipIdx n).filterMap fun (c, i) => if c = κ then some i else none

abbrev memberPosK (κ : Key) (keys : List Key) : List Nat := memberPosFrom κ keys 0

theorem memberPosFrom_cons (κ k : Key) (keys : List Key) (n : Nat) :
    memberPosFrom κ (k :: keys) n = if k = κ then n :: memberPosFrom κ keys (n + 1) else memberPosFrom κ keys (n + 1) := by
  unfold memberPosFrom
  rw [List.zipIdx_cons, List.filterMap_cons]
  by_cases h : k = κ <;> simp [h]

theorem memberPos_map_keys_from (g : Int) (κ : Key) (φ : Key → Int) (keys : List Key) (n : Nat)
    (h : ∀ k ∈ keys, (φ k = g ↔ k = κ)) :
    ((keys.map φ).zipIdx n).filterMap (fun (c, i) => if c = g then some i else none) = memberPosFrom κ keys n := by
  induction keys generalizing n with
  | nil => rfl
  | cons k ks ih =>
    have hk := h k (by simp)
    rw [memberPosFrom_cons, List.map_cons, List.zipIdx_cons, List.filterMap_cons,
      ih (n + 1) (fun k' hk' => h k' (by simp [hk']))]
    by_cases e : k = κ
    · subst e
      have : φ k = g := hk.mpr rfl
      simp [this]
    · have : ¬ φ k = g := fun e' => e (hk.mp e')
      simp [e, this]

/-- integer codes computed from keys by `φ` select the same positions as the key `κ` when `φ k = g ↔ k = κ` -/
theorem memberPos_map_keys (g : Int) (κ : Key) (φ : Key → Int) (keys : List Key)
    (h : ∀ k ∈ keys, (φ k = g ↔ k = κ)) : memberPos g (keys.map φ) = memberPosK κ keys :=
  memberPos_map_keys_from g κ φ keys 0 h

theorem membersK_eq_map_pos_from (κ : Key) (keys : List Key) (xs : List Val) (d : Val) (n : Nat)
    (h : n + keys.length ≤ xs.length) :
    membersK κ keys (xs.drop n) = (memberPosFrom κ keys n).map fun i => xs.getD i d := by
  induction keys generalizing n with
  | nil => simp [memberPosFrom]
  | cons k ks ih =>
    have hn : n < xs.length := by simp only [List.length_cons] at h; omega
    have hd : xs.drop n = xs[n] :: xs.drop (n + 1) := (List.drop_eq_getElem_cons hn)
    rw [hd, membersK_cons, memberPosFrom_cons, ih (n + 1) (by simp only [List.length_cons] at h; omega)]
    by_cases e : k = κ
    · simp [e, List.getD_eq_getElem?_getD, hn]
    · simp [e]

/-- the members of a label are the elements at the label's positions -/
theorem membersK_eq_map_pos (κ : Key) (keys : List Key) (xs : List Val) (d : Val) (h : keys.length ≤ xs.length) :
    membersK κ keys xs = (memberPosK κ keys).map fun i => xs.getD i d := by
  have := membersK_eq_map_pos_from κ keys xs d 0 (by omega)
  simpa using this

theorem mem_memberPosFrom {κ : Key} {keys : List Key} {n i : Nat} (h : i ∈ memberPosFrom κ keys n) :
    n ≤ i ∧ i < n + keys.length := by
  induction keys generalizing n with
  | nil => simp [memberPosFrom] at h
  | cons k ks ih =>
    rw [memberPosFrom_cons] at h
    simp only [List.length_cons]
    split at h
    · rcases List.mem_cons.mp h with rfl | h'
      · omega
      · have := ih h'; omega
    · have := ih h; omega

/-! ### the arg kernel of numpy_groupies on a list of positions -/

/-- one slot of `argGrouped`, as a function of the positions of the group's members -/
def argOfPos (k : Kernel) (vals : List Val) (fill : Val) (pos : List Nat) : Val :=
  let pv := pos.map fun i => (i, vals.getD i Val.nan)
  let pv' := if k.skipsNaN then pv.filter (fun p => !p.2.isNaN) else pv
  if pv'.isEmpty then fill
  else
    let j := match kEval k (pv'.map (·.2)) with
      | .fin q => q.num.toNat
      | _ => 0
    Val.ofNat ((pv'.getD j (0, Val.nan)).1)

theorem argGrouped_eq (k : Kernel) (codes : List Int) (vals : List Val) (size : Nat) (fill : Val) :
    argGrouped k codes vals size fill
      = (List.range size).map fun (g : Nat) => argOfPos k vals fill (memberPos (Int.ofNat g) codes) := rfl

/-- `chunk_argreduce`'s lookup of a block position in the index array -/
def toIdx (idxs : List Val) (p : Val) : Val :=
  match p with
  | .fin q => idxs.getD q.num.toNat Val.nan
  | _ => Val.nan

theorem toIdx_ofNat (idxs : List Val) (n : Nat) : toIdx idxs (Val.ofNat n) = idxs.getD n Val.nan := by
  simp [toIdx, Val.ofNat]

theorem toIdx_zero (idxs : List Val) : toIdx idxs Val.zero = idxs.getD 0 Val.nan := by
  simp [toIdx, Val.zero]

theorem natOf_eq_match (v : Val) : (match v with | .fin q => q.num.toNat | _ => 0) = natOf v := by
  cases v <;> rfl

theorem getD_map_lt {α β} (l : List α) (f : α → β) (j : Nat) (d : β) (h : j < l.length) :
    (l.map f).getD j d = f l[j] := by
  simp [List.getD_eq_getElem?_getD, h]

/-- **the arg kernel on positions, looked up in the index array, is `argPick` on the (value, index) pairs** -/
theorem toIdx_argOfPos (k : Kernel) (hk : isArgKernel k = true) (vals idxs : List Val) (pos : List Nat) :
    toIdx idxs (argOfPos k vals Val.zero pos)
      = argPick k (idxs.getD 0 Val.nan) (pos.map fun i => (vals.getD i Val.nan, idxs.getD i Val.nan)) := by
  -- the positions that survive the NaN filter
  let pos' : List Nat := if k.skipsNaN then pos.filter (fun i => !(vals.getD i Val.nan).isNaN) else pos
  have hpv : (if k.skipsNaN then (pos.map fun i => (i, vals.getD i Val.nan)).filter (fun p => !p.2.isNaN)
        else pos.map fun i => (i, vals.getD i Val.nan)) = pos'.map fun i => (i, vals.getD i Val.nan) := by
    simp only [pos']
    split
    · rw [List.filter_map]; rfl
    · rfl
  have hps : (if k.skipsNaN then (pos.map fun i => (vals.getD i Val.nan, idxs.getD i Val.nan)).filter
          (fun p => !p.1.isNaN)
        else pos.map fun i => (vals.getD i Val.nan, idxs.getD i Val.nan))
      = pos'.map fun i => (vals.getD i Val.nan, idxs.getD i Val.nan) := by
    simp only [pos']
    split
    · rw [List.filter_map]; rfl
    · rfl
  unfold argOfPos argPick
  simp only [hpv, hps, natOf_eq_match]
  by_cases he : pos' = []
  · simp [he, toIdx_zero]
  · have he1 : (pos'.map fun i => (i, vals.getD i Val.nan)).isEmpty = false := by simpa using he
    have he2 : (pos'.map fun i => (vals.getD i Val.nan, idxs.getD i Val.nan)).isEmpty = false := by simpa using he
    simp only [he1, he2, Bool.false_eq_true, if_false, List.map_map, Function.comp_def, toIdx_ofNat]
    have hne : (pos'.map fun i => vals.getD i Val.nan) ≠ [] := by simpa using he
    rw [kEval_arg k hk, natOf_ofNat]
    have hlt := argBest_lt (argBetter k) _ hne
    simp only [List.length_map] at hlt
    rw [getD_map_lt _ _ _ _ hlt, getD_map_lt _ _ _ _ hlt]

/-! ### `chunk_reduce` without expected groups, arg kernels included -/

/-- one slot of one column of `chunk_reduce` (before `chunk_argreduce`'s index lookup) -/
def colSlot (k : Kernel) (fv : Val) (κ : Key) (keys : List Key) (vals : List Val) : Val :=
  if isArgKernel k then argOfPos k vals fv (memberPosK κ keys) else blockVal k fv (membersK κ keys vals)

/-- **Sparse block stage, arg kernels included** (generalises `chunkReduce_sparse`). -/
theorem chunkReduce_cols (ks : List Kernel) (fills : List Val) (keys : List Key) (vals : List Val) (sort : Bool)
    (hz : ∀ p ∈ ks.zip fills, (p.1 = .nanlen ∨ p.1 = .nansumsq) → p.2 = Val.zero) :
    chunkReduce .npg ks fills keys vals none sort
      = if presentKeys keys = [] then { groups := [none], cols := (ks.zip fills).map fun p => [p.2] }
        else { groups := (foundOf sort keys).map some,
               cols := (ks.zip fills).map fun p =>
                 (foundOf sort keys).map fun r => colSlot p.1 p.2 (some r) keys vals } := by
  simp only [chunkReduce, factorizeKeys_none]
  by_cases hp : presentKeys keys = []
  · have hempty := (all_codes_neg_one_iff sort keys).mpr hp
    simp only [hempty, hp, if_true, List.length_cons, List.length_nil, Nat.zero_add]
    congr 1
  · have hempty : ((keys.map (codeOf (foundOf sort keys))).all (· == -1)) = false := by
      simpa using (not_congr (all_codes_neg_one_iff sort keys)).mpr hp
    simp only [hempty, hp, Bool.false_eq_true, if_false]
    congr 1
    apply List.map_congr_left
    intro p hp'
    obtain ⟨k, fv⟩ := p
    have htake : ∀ b : Bool, (List.range (if b = true then (foundOf sort keys).length + 1
        else (foundOf sort keys).length)).take (foundOf sort keys).length
          = List.range (foundOf sort keys).length := by
      intro b; cases b <;> simp [List.take_range]
    by_cases hka : isArgKernel k = true
    · simp only [engineCall, hka, if_true, colSlot, argGrouped_eq]
      rw [← List.map_take, htake]
      apply List.ext_getElem
      · simp
      · intro i h1 h2
        have hi : i < (foundOf sort keys).length := by simpa using h1
        simp only [List.getElem_map, List.getElem_range, List.map_map]
        congr 1
        apply memberPos_map_keys
        intro k' hk'
        exact codeOf_eq_iff sort keys k' hk' i hi
    · have hka : isArgKernel k = false := by simpa using hka
      simp only [engineCall, hka, Bool.false_eq_true, if_false, engGrouped, colSlot]
      rw [npgGrouped_eq_blockVal_dn k fv _ vals _ hka (hz (k, fv) hp'), ← List.map_take, htake]
      apply List.ext_getElem
      · simp
      · intro i h1 h2
        have hi : i < (foundOf sort keys).length := by simpa using h1
        simp only [List.getElem_map, List.getElem_range, List.map_map]
        congr 1
        apply members_map_keys
        intro k' hk'
        exact codeOf_eq_iff sort keys k' hk' i hi

/-! ### arg segments and arg-sparse nodes -/

/-- a segment of the array with the global indices of its elements; `junk` is the index stored for a label whose
    members are all NaN (`nanarg*` only) -/
structure ASeg where
  keys : List Key
  vals : List Val
  idxs : List Val
  junk : Val
deriving Inhabited

/-- (value, global index) pairs of the members of label `κ` -/
def ASeg.pairs (s : ASeg) (κ : Key) : List VI := (membersK κ s.keys s.vals).zip (membersK κ s.keys s.idxs)

def ASeg.Aligned (s : ASeg) : Prop := s.keys.length = s.vals.length ∧ s.keys.length = s.idxs.length

theorem membersK_length (κ : Key) (keys : List Key) (xs : List Val) (h : keys.length ≤ xs.length) :
    (membersK κ keys xs).length = (memberPosK κ keys).length := by
  rw [membersK_eq_map_pos κ keys xs Val.nan h]; simp

theorem ASeg.pairs_fst (s : ASeg) (h : s.Aligned) (κ : Key) : (s.pairs κ).map (·.1) = membersK κ s.keys s.vals := by
  unfold ASeg.pairs
  apply List.map_fst_zip
  rw [membersK_length κ _ _ (by rw [h.1]; exact Nat.le_refl _), membersK_length κ _ _ (by rw [h.2]; exact Nat.le_refl _)]
  exact Nat.le_refl _

theorem ASeg.pairs_eq_map_pos (s : ASeg) (h : s.Aligned) (κ : Key) :
    s.pairs κ = (memberPosK κ s.keys).map fun i => (s.vals.getD i Val.nan, s.idxs.getD i Val.nan) := by
  unfold ASeg.pairs
  rw [membersK_eq_map_pos κ s.keys s.vals Val.nan (by rw [h.1]; exact Nat.le_refl _),
    membersK_eq_map_pos κ s.keys s.idxs Val.nan (by rw [h.2]; exact Nat.le_refl _), List.zip_map']

theorem ASeg.pairs_ne_nil (s : ASeg) (h : s.Aligned) (κ : Key) (hmem : κ ∈ s.keys) : s.pairs κ ≠ [] := by
  intro e
  have h1 := membersK_ne_nil_of_mem κ s.keys s.vals hmem (by rw [h.1]; exact Nat.le_refl _)
  apply h1
  rw [← s.pairs_fst h κ, e]; rfl

theorem ASeg.pairs_eq_nil (s : ASeg) (κ : Key) (hmem : κ ∉ s.keys) : s.pairs κ = [] := by
  unfold ASeg.pairs
  rw [membersK_eq_nil_of_not_mem κ s.keys s.vals hmem]; rfl

/-- the "arg-sparse node" of a segment: found labels; value column, index column (`blockPairN` of the label's pairs),
    and the count column when `cnt` -/
def argNode (k : Kernel) (cnt : Bool) (sort : Bool) (s : ASeg) : Inter :=
  if presentKeys s.keys = [] then
    { groups := [none], cols := [[argFillN k], [Val.zero]] ++ (if cnt then [[Val.zero]] else []) }
  else
    { groups := (foundOf sort s.keys).map some,
      cols := [ (foundOf sort s.keys).map (fun r => (blockPairN k s.junk (s.pairs (some r))).1),
                (foundOf sort s.keys).map (fun r => (blockPairN k s.junk (s.pairs (some r))).2) ]
              ++ (if cnt then [(foundOf sort s.keys).map fun r => countVal (membersK (some r) s.keys s.vals)]
                  else []) }

theorem chunkArgreduce_eq (eng : Eng) (ks : List Kernel) (fills : List Val) (keys : List Key)
    (vals : List Val) (idxs : List Val) (sort : Bool) :
    chunkArgreduce eng ks fills keys vals idxs sort
      = if allNull (chunkReduce eng ks fills keys vals none sort).groups then chunkReduce eng ks fills keys vals none sort
        else { chunkReduce eng ks fills keys vals none sort with
               cols := (chunkReduce eng ks fills keys vals none sort).cols.mapIdx fun j col =>
                 if j = 1 then col.map (toIdx idxs) else col } := rfl

theorem argChunkVal_noarg {k : Kernel} (hk : isArgKernel k = true) : isArgKernel (argChunkVal k) = false := by
  cases k <;> simp [isArgKernel] at hk <;> rfl

theorem allNull_map_some (l : List Rat) (h : l ≠ []) : allNull (l.map some) = false := by
  cases l with
  | nil => exact absurd rfl h
  | cons a l => simp [allNull]

/-- **Engine slot lemma / block stage**: `chunk_argreduce` on a block is the arg-sparse node of the block, the junk
    index being the first index of the block. -/
theorem chunkArgreduce_node (k : Kernel) (hk : isArgKernel k = true) (cnt : Bool) (keys : List Key)
    (vals idxs : List Val) (sort : Bool) (hv : keys.length = vals.length) (hi : keys.length = idxs.length) :
    chunkArgreduce .npg ([argChunkVal k, k] ++ (if cnt then [Kernel.nanlen] else []))
        ([argFillN k, Val.zero] ++ (if cnt then [Val.zero] else [])) keys vals idxs sort
      = argNode k cnt sort ⟨keys, vals, idxs, idxs.getD 0 Val.nan⟩ := by
  have hal : (⟨keys, vals, idxs, idxs.getD 0 Val.nan⟩ : ASeg).Aligned := ⟨hv, hi⟩
  have hna := argChunkVal_noarg hk
  have hz : ∀ p ∈ ([argChunkVal k, k] ++ (if cnt then [Kernel.nanlen] else [])).zip
      ([argFillN k, Val.zero] ++ (if cnt then [Val.zero] else [])),
      (p.1 = .nanlen ∨ p.1 = .nansumsq) → p.2 = Val.zero := by
    intro p hp hp'
    have hA : p = (argChunkVal k, argFillN k) → p.2 = Val.zero := by
      intro e; subst e
      exfalso
      rcases isArgKernel_cases hk with (rfl | rfl) | (rfl | rfl) <;> simp [argChunkVal] at hp'
    cases cnt <;> simp at hp
    · rcases hp with e | rfl
      · exact hA e
      · rfl
    · rcases hp with e | rfl | rfl
      · exact hA e
      · rfl
      · rfl
  rw [chunkArgreduce_eq, chunkReduce_cols _ _ keys vals sort hz]
  unfold argNode
  by_cases hp : presentKeys keys = []
  · simp only [hp, if_true]
    cases cnt <;> simp [allNull]
  · have hf : foundOf sort keys ≠ [] := fun h => hp ((presentKeys_nil_iff_foundOf sort keys).mpr h)
    simp only [hp, if_false, allNull_map_some _ hf, Bool.false_eq_true]
    have h0 : ∀ r : Rat, colSlot (argChunkVal k) (argFillN k) (some r) keys vals
        = (blockPairN k (idxs.getD 0 Val.nan) ((⟨keys, vals, idxs, idxs.getD 0 Val.nan⟩ : ASeg).pairs (some r))).1 := by
      intro r
      simp only [colSlot, hna, Bool.false_eq_true, if_false, blockPairN]
      rw [ASeg.pairs_fst _ hal]
    have h1 : ∀ r : Rat, toIdx idxs (colSlot k Val.zero (some r) keys vals)
        = (blockPairN k (idxs.getD 0 Val.nan) ((⟨keys, vals, idxs, idxs.getD 0 Val.nan⟩ : ASeg).pairs (some r))).2 := by
      intro r
      simp only [colSlot, hk, if_true, blockPairN]
      rw [toIdx_argOfPos k hk, ASeg.pairs_eq_map_pos _ hal]
    cases cnt
    · simp only [Bool.false_eq_true, if_false, List.append_nil, List.zip_cons_cons, List.zip_nil_right,
        List.map_cons, List.map_nil, List.mapIdx_cons, List.mapIdx_nil, List.map_map, Function.comp_def,
        h0, h1]
      simp
    · simp only [if_true, List.cons_append, List.nil_append, List.zip_cons_cons, List.zip_nil_right,
        List.map_cons, List.map_nil, List.mapIdx_cons, List.mapIdx_nil, List.map_map, Function.comp_def,
        h0, h1]
      simp [colSlot, isArgKernel, countVal]

end Flox.Grp
