/-
  C20 (second sentence) — proofs about the width-aware accumulation model `FloxModel/IntWidth.lean`.

  Two independent routes to "the accumulated value is the exact total":
    (A) NO OVERFLOW HAPPENS (`accW_exact`): if every prefix result is representable, the wrapping fold equals the exact
        fold – for ANY reduction `wrap` that is the identity on representable values (two's complement, saturation, a
        trap …: the statement does not depend on what the hardware does on overflow).
    (B) TWO'S COMPLEMENT IS A RING HOMOMORPHISM (`accW_eq_wrap_fold`, `chunkedAcc_eq_wrap_total`): with `wrapS` / `wrapU`
        every engine, every chunking, every tree and every order returns `wrap (exact total)`; hence the result is exact
        as soon as the TOTAL is representable (even if intermediate results were not).
  Core Lean only.
-/
import FloxModel.IntWidth

namespace Flox.IntWidth

/-! ### exact totals -/

/-- `Σ |x_i|` -/
def absSum (xs : List Int) : Nat := (xs.map Int.natAbs).sum

/-- `Π |x_i|` -/
def absProd (xs : List Int) : Nat := (xs.map Int.natAbs).prod

private theorem foldl_add_eq (xs : List Int) (a : Int) : xs.foldl (· + ·) a = a + xs.sum := by
  induction xs generalizing a with
  | nil => simp
  | cons x t ih => simp only [List.foldl_cons, List.sum_cons, ih]; omega

private theorem foldl_mul_eq (xs : List Int) (a : Int) : xs.foldl (· * ·) a = a * xs.prod := by
  induction xs generalizing a with
  | nil => simp
  | cons x t ih => simp only [List.foldl_cons, List.prod_cons, ih, Int.mul_assoc]

theorem foldl_add_zero (xs : List Int) : xs.foldl (· + ·) 0 = xs.sum := by simp [foldl_add_eq]
theorem foldl_mul_one (xs : List Int) : xs.foldl (· * ·) 1 = xs.prod := by simp [foldl_mul_eq]

theorem perm_sum {l₁ l₂ : List Int} (h : l₁.Perm l₂) : l₁.sum = l₂.sum := by
  induction h with
  | nil => rfl
  | cons x _ ih => simp [ih]
  | swap x y l => simp only [List.sum_cons]; omega
  | trans _ _ ih₁ ih₂ => exact ih₁.trans ih₂

theorem perm_prod {l₁ l₂ : List Int} (h : l₁.Perm l₂) : l₁.prod = l₂.prod := by
  induction h with
  | nil => rfl
  | cons x _ ih => simp [ih]
  | swap x y l => simp only [List.prod_cons, ← Int.mul_assoc, Int.mul_comm y x]
  | trans _ _ ih₁ ih₂ => exact ih₁.trans ih₂

theorem natAbs_sum_le (xs : List Int) : xs.sum.natAbs ≤ absSum xs := by
  induction xs with
  | nil => simp [absSum]
  | cons x t ih =>
    have := Int.natAbs_add_le x t.sum
    simp only [absSum, List.map_cons, List.sum_cons] at ih ⊢
    omega

theorem natAbs_prod (xs : List Int) : xs.prod.natAbs = absProd xs := by
  induction xs with
  | nil => simp [absProd]
  | cons x t ih => simp only [absProd, List.map_cons, List.prod_cons, Int.natAbs_mul] at ih ⊢; rw [ih]

private theorem absSum_append (a b : List Int) : absSum (a ++ b) = absSum a + absSum b := by
  simp [absSum, List.sum_append]

theorem absSum_take_le (xs : List Int) (k : Nat) : absSum (xs.take k) ≤ absSum xs := by
  have h := absSum_append (xs.take k) (xs.drop k)
  rw [List.take_append_drop] at h
  omega

/-! ### the two wraps -/

private theorem pow_pred {w : Nat} (hw : 1 ≤ w) : 2 ^ w = 2 * 2 ^ (w - 1) := by
  obtain ⟨k, rfl⟩ : ∃ k, w = k + 1 := ⟨w - 1, by omega⟩
  simp only [Nat.add_sub_cancel, Nat.pow_succ]; omega

/-- representable values are left alone -/
theorem wrapS_of_inS {w : Nat} (hw : 1 ≤ w) {x : Int} (h : inS w x) : wrapS w x = x := by
  unfold wrapS
  unfold inS at h
  have hp := pow_pred hw
  apply Int.bmod_eq_of_le <;> rw [hp] <;> generalize 2 ^ (w - 1) = H at * <;> omega

/-- the wrapped value is representable -/
theorem wrapS_inS {w : Nat} (hw : 1 ≤ w) (x : Int) : inS w (wrapS w x) := by
  have hpos : 0 < 2 ^ w := Nat.two_pow_pos w
  have h1 := @Int.le_bmod x (2 ^ w) hpos
  have h2 := @Int.bmod_lt x (2 ^ w) hpos
  have hp := pow_pred hw
  unfold inS wrapS
  rw [hp] at h1 h2 ⊢
  generalize 2 ^ (w - 1) = H at *
  generalize Int.bmod x (2 * H) = r at *
  omega

theorem wrapU_of_inU {w : Nat} {x : Int} (h : inU w x) : wrapU w x = x :=
  Int.emod_eq_of_lt h.1 h.2

theorem wrapU_inU (w : Nat) (x : Int) : inU w (wrapU w x) := by
  have hpos : (0 : Int) < (2 ^ w : Nat) := Int.natCast_pos.mpr (Nat.two_pow_pos w)
  exact ⟨Int.emod_nonneg _ (by omega), Int.emod_lt_of_pos _ hpos⟩

/-- a narrower signed dtype is contained in a wider one -/
theorem inS_mono {w₁ w₂ : Nat} (h : w₁ ≤ w₂) {x : Int} (hx : inS w₁ x) : inS w₂ x := by
  have hp : 2 ^ (w₁ - 1) ≤ 2 ^ (w₂ - 1) := Nat.pow_le_pow_right (by decide) (by omega)
  unfold inS at *
  generalize 2 ^ (w₁ - 1) = A at *
  generalize 2 ^ (w₂ - 1) = B at *
  omega

theorem inU_mono {w₁ w₂ : Nat} (h : w₁ ≤ w₂) {x : Int} (hx : inU w₁ x) : inU w₂ x := by
  have hp : 2 ^ w₁ ≤ 2 ^ w₂ := Nat.pow_le_pow_right (by decide) h
  unfold inU at *
  generalize 2 ^ w₁ = A at *
  generalize 2 ^ w₂ = B at *
  omega

/-- `|x| < 2^(w-1)` ⇒ representable -/
theorem inS_of_natAbs_lt {w : Nat} {x : Int} (h : x.natAbs < 2 ^ (w - 1)) : inS w x := by
  unfold inS
  generalize 2 ^ (w - 1) = H at *
  omega

/-! ### route (A): no overflow happens -/

/-- **`accW_exact`.**  `wrap` is ANY function that leaves representable values (`R`) alone.  If every non-empty prefix
    (`xs.take (k + 1)`, `k < xs.length`) of the exact fold is representable, the wrapping fold equals the exact fold. -/
theorem accW_exact (wrap : Int → Int) (R : Int → Prop) (hR : ∀ x, R x → wrap x = x) (op : Int → Int → Int)
    (init : Int) (xs : List Int)
    (hpre : ∀ k, k < xs.length → R ((xs.take (k + 1)).foldl op init)) :
    accW wrap op init xs = xs.foldl op init := by
  induction xs generalizing init with
  | nil => rfl
  | cons x t ih =>
    have h1 : R (op init x) := by simpa using hpre 0 (by simp)
    show accW wrap op (wrap (op init x)) t = t.foldl op (op init x)
    rw [hR _ h1]
    apply ih
    intro k hk
    simpa using hpre (k + 1) (by simpa using hk)

/-- the engine that converts first: representable inputs, representable prefixes ⇒ exact (any overflow behaviour) -/
theorem engineAcc_castFirst_exact (wrapIn wrapAcc : Int → Int) (R : Int → Prop) (hR : ∀ x, R x → wrapAcc x = x)
    (op : Int → Int → Int) (init : Int) (xs : List Int) (hin : ∀ x ∈ xs, R x)
    (hpre : ∀ k, k < xs.length → R ((xs.take (k + 1)).foldl op init)) :
    engineAcc op init true wrapIn wrapAcc xs = xs.foldl op init := by
  have hmap : xs.map wrapAcc = xs := by
    rw [List.map_congr_left (g := id) (fun x hx => hR x (hin x hx)), List.map_id]
  simp only [engineAcc, if_true, hmap]
  exact accW_exact wrapAcc R hR op init xs hpre

/-- `Σ|x_i| < 2^(w-1)` ⇒ every prefix sum is representable -/
theorem prefix_sums_inS_of_abs_bound {w : Nat} (xs : List Int) (h : absSum xs < 2 ^ (w - 1)) (k : Nat) :
    inS w ((xs.take k).foldl (· + ·) 0) := by
  rw [foldl_add_zero]
  apply inS_of_natAbs_lt
  have h1 := natAbs_sum_le (xs.take k)
  have h2 := absSum_take_le xs k
  omega

/-! ### route (B): two's complement is a homomorphism -/

/-- `wrap` respects `op` modulo its kernel -/
structure ModWrap (wrap : Int → Int) (op : Int → Int → Int) : Prop where
  left : ∀ a b, wrap (op (wrap a) b) = wrap (op a b)
  right : ∀ a b, wrap (op a (wrap b)) = wrap (op a b)
  idem : ∀ a, wrap (wrap a) = wrap a

/-- `op` is a monoid with unit `e` -/
structure Mon (op : Int → Int → Int) (e : Int) : Prop where
  assoc : ∀ a b c, op (op a b) c = op a (op b c)
  id_left : ∀ a, op e a = a
  id_right : ∀ a, op a e = a

theorem modWrap_S_add (w : Nat) : ModWrap (wrapS w) (· + ·) :=
  ⟨fun _ _ => Int.bmod_add_bmod, fun _ _ => Int.add_bmod_bmod, fun _ => Int.bmod_bmod⟩

theorem modWrap_S_mul (w : Nat) : ModWrap (wrapS w) (· * ·) :=
  ⟨fun _ _ => Int.bmod_mul_bmod, fun _ _ => Int.mul_bmod_bmod, fun _ => Int.bmod_bmod⟩

theorem modWrap_U_add (w : Nat) : ModWrap (wrapU w) (· + ·) :=
  ⟨fun a b => Int.emod_add_emod a _ b, fun a b => Int.add_emod_emod a b _, fun a => Int.emod_emod a _⟩

theorem modWrap_U_mul (w : Nat) : ModWrap (wrapU w) (· * ·) := by
  refine ⟨fun a b => ?_, fun a b => ?_, fun a => Int.emod_emod a _⟩
  · show (a % _ * b) % _ = (a * b) % _
    rw [Int.mul_emod, Int.emod_emod, ← Int.mul_emod]
  · show (a * (b % _)) % _ = (a * b) % _
    rw [Int.mul_emod, Int.emod_emod, ← Int.mul_emod]

theorem mon_add : Mon (· + ·) 0 := ⟨Int.add_assoc, Int.zero_add, Int.add_zero⟩
theorem mon_mul : Mon (· * ·) 1 := ⟨Int.mul_assoc, Int.one_mul, Int.mul_one⟩

section
variable {wrap : Int → Int} {op : Int → Int → Int}

private theorem ModWrap.congr_left (h : ModWrap wrap op) {a a' : Int} (b : Int) (e : wrap a = wrap a') :
    wrap (op a b) = wrap (op a' b) := by
  rw [← h.left a b, e, h.left]

private theorem ModWrap.foldl_congr (h : ModWrap wrap op) (xs : List Int) {a a' : Int} (e : wrap a = wrap a') :
    wrap (xs.foldl op a) = wrap (xs.foldl op a') := by
  induction xs generalizing a a' with
  | nil => exact e
  | cons x t ih => exact ih (h.congr_left x e)

private theorem ModWrap.foldl_map (h : ModWrap wrap op) (xs : List Int) (a : Int) :
    wrap ((xs.map wrap).foldl op a) = wrap (xs.foldl op a) := by
  induction xs generalizing a with
  | nil => rfl
  | cons x t ih =>
    simp only [List.map_cons, List.foldl_cons]
    rw [ih]
    exact h.foldl_congr t (h.right a x)

private theorem accW_wrapped (h : ModWrap wrap op) (xs : List Int) {a : Int} (ha : wrap a = a) :
    wrap (accW wrap op a xs) = accW wrap op a xs := by
  induction xs generalizing a with
  | nil => exact ha
  | cons x t ih => exact ih (h.idem _)

private theorem accW_mod (h : ModWrap wrap op) (xs : List Int) (a : Int) :
    wrap (accW wrap op a xs) = wrap (xs.foldl op a) := by
  induction xs generalizing a with
  | nil => rfl
  | cons x t ih =>
    show wrap (accW wrap op (wrap (op a x)) t) = wrap (t.foldl op (op a x))
    rw [ih]
    exact h.foldl_congr t (h.idem _)

/-- **the wrapping fold is the wrap of the exact fold** (start value representable) -/
theorem accW_eq_wrap_fold (h : ModWrap wrap op) (xs : List Int) {a : Int} (ha : wrap a = a) :
    accW wrap op a xs = wrap (xs.foldl op a) := by
  rw [← accW_wrapped h xs ha, accW_mod h]

private theorem Mon.foldl_eq {e : Int} (m : Mon op e) (xs : List Int) (a : Int) :
    xs.foldl op a = op a (xs.foldl op e) := by
  induction xs generalizing a with
  | nil => simp [m.id_right]
  | cons x t ih => simp only [List.foldl_cons]; rw [ih, ih (op e x), m.id_left, m.assoc]

private theorem Mon.foldl_append {e : Int} (m : Mon op e) (xs ys : List Int) :
    (xs ++ ys).foldl op e = op (xs.foldl op e) (ys.foldl op e) := by
  rw [List.foldl_append, m.foldl_eq ys]

/-- an engine that converts first returns the wrap of the exact total, whatever the input width -/
theorem engineAcc_castFirst_eq_wrap (h : ModWrap wrap op) (wrapIn : Int → Int) (xs : List Int) {e : Int}
    (he : wrap e = e) : engineAcc op e true wrapIn wrap xs = wrap (xs.foldl op e) := by
  simp only [engineAcc, if_true]
  rw [accW_eq_wrap_fold h _ he, h.foldl_map]

mutual
/-- **every tree**: blocks convert first, combines wrap at the accumulator width ⇒ `wrap (exact total of the leaves)` -/
theorem chunkedAcc_eq_wrap_total (h : ModWrap wrap op) {e : Int} (m : Mon op e) (he : wrap e = e)
    (wrapIn : Int → Int) : (t : WTree) →
    chunkedAcc op e true wrapIn wrap t = wrap (t.leaves.foldl op e)
  | .leaf b => by
    show engineAcc op e true wrapIn wrap b = _
    rw [engineAcc_castFirst_eq_wrap h wrapIn b he]; rfl
  | .node ts => by
    show accW wrap op e (ts.evals (engineAcc op e true wrapIn wrap) (accW wrap op e)) = _
    rw [accW_eq_wrap_fold h _ he, forest_evals_mod h m he wrapIn ts e, m.id_left]; rfl
theorem forest_evals_mod (h : ModWrap wrap op) {e : Int} (m : Mon op e) (he : wrap e = e)
    (wrapIn : Int → Int) : (ts : WForest) → (a : Int) →
    wrap ((ts.evals (engineAcc op e true wrapIn wrap) (accW wrap op e)).foldl op a)
      = wrap (op a (ts.leaves.foldl op e))
  | .one t, a => by
    have ht := chunkedAcc_eq_wrap_total h m he wrapIn t
    unfold chunkedAcc at ht
    simp only [WForest.evals, WForest.leaves, List.foldl_cons, List.foldl_nil, ht]
    exact h.right _ _
  | .cons t ts, a => by
    have ht := chunkedAcc_eq_wrap_total h m he wrapIn t
    unfold chunkedAcc at ht
    simp only [WForest.evals, WForest.leaves, List.foldl_cons, ht]
    rw [forest_evals_mod h m he wrapIn ts, m.foldl_append, ← m.assoc]
    exact h.congr_left _ (h.right _ _)
end

end

/-! ### the named instances -/

private theorem wrapS_zero (w : Nat) : wrapS w 0 = 0 := by simp [wrapS]
private theorem wrapU_zero (w : Nat) : wrapU w 0 = 0 := by simp [wrapU]
private theorem wrapS_one {w : Nat} (hw : 2 ≤ w) : wrapS w 1 = 1 := by
  apply wrapS_of_inS (by omega)
  have : 2 ^ 1 ≤ 2 ^ (w - 1) := Nat.pow_le_pow_right (by decide) (by omega)
  unfold inS
  generalize 2 ^ (w - 1) = H at *
  omega
private theorem wrapU_one {w : Nat} (hw : 1 ≤ w) : wrapU w 1 = 1 := by
  apply wrapU_of_inU
  have : 2 ^ 1 ≤ 2 ^ w := Nat.pow_le_pow_right (by decide) hw
  unfold inU
  generalize 2 ^ w = H at *
  omega

/-- sequential signed sum at `w` bits = wrap of the exact sum -/
theorem accW_sum_eq_wrap (w : Nat) (xs : List Int) : accW (wrapS w) (· + ·) 0 xs = wrapS w xs.sum := by
  rw [accW_eq_wrap_fold (modWrap_S_add w) xs (wrapS_zero w), foldl_add_zero]

theorem accW_prod_eq_wrap {w : Nat} (hw : 2 ≤ w) (xs : List Int) :
    accW (wrapS w) (· * ·) 1 xs = wrapS w xs.prod := by
  rw [accW_eq_wrap_fold (modWrap_S_mul w) xs (wrapS_one hw), foldl_mul_one]

/-- **every chunking, every tree, every input width**: the chunked signed sum is the wrap of the exact total -/
theorem chunkedSum_eq_wrap (wIn wAcc : Nat) (t : WTree) :
    chunkedSum true wIn wAcc t = wrapS wAcc t.leaves.sum := by
  unfold chunkedSum
  rw [chunkedAcc_eq_wrap_total (modWrap_S_add wAcc) mon_add (wrapS_zero wAcc), foldl_add_zero]

theorem chunkedProd_eq_wrap (wIn : Nat) {wAcc : Nat} (hw : 2 ≤ wAcc) (t : WTree) :
    chunkedProd true wIn wAcc t = wrapS wAcc t.leaves.prod := by
  unfold chunkedProd
  rw [chunkedAcc_eq_wrap_total (modWrap_S_mul wAcc) mon_mul (wrapS_one hw), foldl_mul_one]

theorem chunkedSumU_eq_wrap (wIn wAcc : Nat) (t : WTree) :
    chunkedSumU true wIn wAcc t = wrapU wAcc t.leaves.sum := by
  unfold chunkedSumU
  rw [chunkedAcc_eq_wrap_total (modWrap_U_add wAcc) mon_add (wrapU_zero wAcc), foldl_add_zero]

theorem chunkedProdU_eq_wrap (wIn : Nat) {wAcc : Nat} (hw : 1 ≤ wAcc) (t : WTree) :
    chunkedProdU true wIn wAcc t = wrapU wAcc t.leaves.prod := by
  unfold chunkedProdU
  rw [chunkedAcc_eq_wrap_total (modWrap_U_mul wAcc) mon_mul (wrapU_one hw), foldl_mul_one]

/-- the eager engine is the one-leaf tree -/
theorem engineSum_eq_chunked (c : Bool) (wIn wAcc : Nat) (xs : List Int) :
    engineSum c wIn wAcc xs = chunkedSum c wIn wAcc (.leaf xs) := rfl
theorem engineProd_eq_chunked (c : Bool) (wIn wAcc : Nat) (xs : List Int) :
    engineProd c wIn wAcc xs = chunkedProd c wIn wAcc (.leaf xs) := rfl
theorem engineSumU_eq_chunked (c : Bool) (wIn wAcc : Nat) (xs : List Int) :
    engineSumU c wIn wAcc xs = chunkedSumU c wIn wAcc (.leaf xs) := rfl
theorem engineProdU_eq_chunked (c : Bool) (wIn wAcc : Nat) (xs : List Int) :
    engineProdU c wIn wAcc xs = chunkedProdU c wIn wAcc (.leaf xs) := rfl

/-! ### route (A) for every tree: with `Σ|x_i| < 2^(w-1)` no step of any tree overflows -/

theorem perm_absSum {l₁ l₂ : List Int} (h : l₁.Perm l₂) : absSum l₁ = absSum l₂ := by
  induction h with
  | nil => rfl
  | cons x _ ih => simp only [absSum, List.map_cons, List.sum_cons] at ih ⊢; omega
  | swap x y l => simp only [absSum, List.map_cons, List.sum_cons]; omega
  | trans _ _ ih₁ ih₂ => exact ih₁.trans ih₂

private theorem mem_inS_of_abs_bound {w : Nat} {xs : List Int} (h : absSum xs < 2 ^ (w - 1)) :
    ∀ x ∈ xs, inS w x := by
  induction xs with
  | nil => intro x hx; cases hx
  | cons y t ih =>
    simp only [absSum, List.map_cons, List.sum_cons] at h ih
    intro x hx
    rcases List.mem_cons.mp hx with rfl | hx
    · exact inS_of_natAbs_lt (by omega)
    · exact ih (by omega) x hx

section
variable {w : Nat} {wrapIn wrapAcc : Int → Int}

mutual
private theorem tree_sum_noOverflow (hR : ∀ x, inS w x → wrapAcc x = x) : (t : WTree) →
    absSum t.leaves < 2 ^ (w - 1) → chunkedAcc (· + ·) 0 true wrapIn wrapAcc t = t.leaves.sum
  | .leaf b, hb => by
    show engineAcc (· + ·) 0 true wrapIn wrapAcc b = _
    rw [engineAcc_castFirst_exact wrapIn wrapAcc (inS w) hR (· + ·) 0 b (mem_inS_of_abs_bound hb)
      (fun k _ => prefix_sums_inS_of_abs_bound b hb (k + 1)), foldl_add_zero]; rfl
  | .node ts, hb => by
    have hf := forest_sum_noOverflow hR ts hb
    show accW wrapAcc (· + ·) 0 (ts.evals (engineAcc (· + ·) 0 true wrapIn wrapAcc) (accW wrapAcc (· + ·) 0)) = _
    rw [accW_exact wrapAcc (inS w) hR (· + ·) 0 _
      (fun k _ => prefix_sums_inS_of_abs_bound _ (Nat.lt_of_le_of_lt hf.2 hb) (k + 1)), foldl_add_zero, hf.1]; rfl
private theorem forest_sum_noOverflow (hR : ∀ x, inS w x → wrapAcc x = x) : (ts : WForest) →
    absSum ts.leaves < 2 ^ (w - 1) →
    (ts.evals (engineAcc (· + ·) 0 true wrapIn wrapAcc) (accW wrapAcc (· + ·) 0)).sum = ts.leaves.sum ∧
    absSum (ts.evals (engineAcc (· + ·) 0 true wrapIn wrapAcc) (accW wrapAcc (· + ·) 0)) ≤ absSum ts.leaves
  | .one t, hb => by
    have ht := tree_sum_noOverflow hR t hb
    unfold chunkedAcc at ht
    have := natAbs_sum_le t.leaves
    simp only [WForest.evals, WForest.leaves, ht, List.sum_cons, List.sum_nil, absSum, List.map_cons,
      List.map_nil] at this ⊢
    omega
  | .cons t ts, hb => by
    simp only [WForest.leaves, absSum_append] at hb
    have ht := tree_sum_noOverflow hR t (by omega)
    have hts := forest_sum_noOverflow hR ts (by omega)
    unfold chunkedAcc at ht
    have := natAbs_sum_le t.leaves
    simp only [WForest.evals, WForest.leaves, ht, List.sum_cons, List.sum_append, absSum_append, hts.1]
    refine ⟨trivial, ?_⟩
    have h2 := hts.2
    simp only [absSum, List.map_cons, List.sum_cons] at this h2 ⊢
    omega
end

/-- **`sum_exact_of_abs_bound`** (no assumption on what overflow does: `wrapAcc` is any function that leaves values
    representable at `w` bits alone).  If `Σ|x_i| < 2^(w-1)`, then every chunking of the members into blocks, every
    order of the members / blocks, every bracketing of the combine tree gives the exact sum. -/
theorem sum_exact_of_abs_bound (hR : ∀ x, inS w x → wrapAcc x = x) (xs : List Int) (h : absSum xs < 2 ^ (w - 1))
    (t : WTree) (hp : t.leaves.Perm xs) : chunkedAcc (· + ·) 0 true wrapIn wrapAcc t = xs.sum := by
  rw [tree_sum_noOverflow hR t (by rw [perm_absSum hp]; exact h), perm_sum hp]

end

/-- the same for flox's signed accumulator, eager (one block) and chunked -/
theorem sum_exact_of_abs_bound_S {w : Nat} (hw : 1 ≤ w) (wIn : Nat) (xs : List Int) (h : absSum xs < 2 ^ (w - 1)) :
    engineSum true wIn w xs = xs.sum ∧
    ∀ t : WTree, t.leaves.Perm xs → chunkedSum true wIn w t = xs.sum :=
  ⟨sum_exact_of_abs_bound (fun _ hx => wrapS_of_inS hw hx) xs h (.leaf xs) (List.Perm.refl _),
   fun t hp => sum_exact_of_abs_bound (fun _ hx => wrapS_of_inS hw hx) xs h t hp⟩

/-- sharper, sequential: every prefix sum representable ⇒ the wrapping accumulator holds the exact sum -/
theorem sum_exact_of_prefix_bound {w : Nat} (hw : 1 ≤ w) (xs : List Int)
    (hpre : ∀ k, k < xs.length → inS w (xs.take (k + 1)).sum) :
    accW (wrapS w) (· + ·) 0 xs = xs.sum := by
  rw [accW_exact (wrapS w) (inS w) (fun _ hx => wrapS_of_inS hw hx) (· + ·) 0 xs
    (fun k hk => by rw [foldl_add_zero]; exact hpre k hk), foldl_add_zero]

theorem prod_exact_of_prefix_bound {w : Nat} (hw : 1 ≤ w) (xs : List Int)
    (hpre : ∀ k, k < xs.length → inS w (xs.take (k + 1)).prod) :
    accW (wrapS w) (· * ·) 1 xs = xs.prod := by
  rw [accW_exact (wrapS w) (inS w) (fun _ hx => wrapS_of_inS hw hx) (· * ·) 1 xs
    (fun k hk => by rw [foldl_mul_one]; exact hpre k hk), foldl_mul_one]

/-- sharpest (two's complement): only the TOTAL has to be representable – every engine, chunking, order, tree -/
theorem sum_exact_of_total_bound {w : Nat} (hw : 1 ≤ w) (wIn : Nat) (xs : List Int) (h : inS w xs.sum) :
    engineSum true wIn w xs = xs.sum ∧
    ∀ t : WTree, t.leaves.Perm xs → chunkedSum true wIn w t = xs.sum := by
  refine ⟨?_, fun t hp => ?_⟩
  · rw [engineSum_eq_chunked, chunkedSum_eq_wrap]; exact wrapS_of_inS hw h
  · rw [chunkedSum_eq_wrap, perm_sum hp]; exact wrapS_of_inS hw h

theorem sumU_exact_of_total_bound (wIn w : Nat) (xs : List Int) (h : inU w xs.sum) :
    engineSumU true wIn w xs = xs.sum ∧
    ∀ t : WTree, t.leaves.Perm xs → chunkedSumU true wIn w t = xs.sum := by
  refine ⟨?_, fun t hp => ?_⟩
  · rw [engineSumU_eq_chunked, chunkedSumU_eq_wrap]; exact wrapU_of_inU h
  · rw [chunkedSumU_eq_wrap, perm_sum hp]; exact wrapU_of_inU h

/-! ### `cast_first_exact` -/

/-- **`cast_first_exact`** (route A: any overflow behaviour).  Inputs representable at `wIn ≤ wAcc`, every prefix sum
    representable at `wAcc` ⇒ the engine that converts before accumulating returns the exact sum. -/
theorem cast_first_exact {wIn wAcc : Nat} (hle : wIn ≤ wAcc) (wrapIn wrapAcc : Int → Int)
    (hR : ∀ x, inS wAcc x → wrapAcc x = x) (xs : List Int) (hin : ∀ x ∈ xs, inS wIn x)
    (hpre : ∀ k, k < xs.length → inS wAcc (xs.take (k + 1)).sum) :
    engineAcc (· + ·) 0 true wrapIn wrapAcc xs = xs.sum := by
  rw [engineAcc_castFirst_exact wrapIn wrapAcc (inS wAcc) hR (· + ·) 0 xs (fun x hx => inS_mono hle (hin x hx))
    (fun k hk => by rw [foldl_add_zero]; exact hpre k hk), foldl_add_zero]

theorem cast_first_prod_exact {wIn wAcc : Nat} (hle : wIn ≤ wAcc) (wrapIn wrapAcc : Int → Int)
    (hR : ∀ x, inS wAcc x → wrapAcc x = x) (xs : List Int) (hin : ∀ x ∈ xs, inS wIn x)
    (hpre : ∀ k, k < xs.length → inS wAcc (xs.take (k + 1)).prod) :
    engineAcc (· * ·) 1 true wrapIn wrapAcc xs = xs.prod := by
  rw [engineAcc_castFirst_exact wrapIn wrapAcc (inS wAcc) hR (· * ·) 1 xs (fun x hx => inS_mono hle (hin x hx))
    (fun k hk => by rw [foldl_mul_one]; exact hpre k hk), foldl_mul_one]

/-- **`cast_first_exact`, every plan** (signed): `Σ|x_i| < 2^(wAcc-1)` ⇒ eager engine and every chunking / tree are
    exact.  The input width does not occur in the hypothesis: that is the content of "never wrap at the narrower width
    of the input". -/
theorem cast_first_exact_all_plans {wAcc : Nat} (hw : 1 ≤ wAcc) (wIn : Nat) (xs : List Int)
    (htot : absSum xs < 2 ^ (wAcc - 1)) :
    engineSum true wIn wAcc xs = xs.sum ∧
    ∀ t : WTree, t.leaves.Perm xs → chunkedSum true wIn wAcc t = xs.sum :=
  sum_exact_of_abs_bound_S hw wIn xs htot

/-- mirror for products: `Π|x_i| < 2^(wAcc-1)` -/
theorem cast_first_prod_exact_all_plans {wAcc : Nat} (hw : 2 ≤ wAcc) (wIn : Nat) (xs : List Int)
    (htot : absProd xs < 2 ^ (wAcc - 1)) :
    engineProd true wIn wAcc xs = xs.prod ∧
    ∀ t : WTree, t.leaves.Perm xs → chunkedProd true wIn wAcc t = xs.prod := by
  have hin : inS wAcc xs.prod := inS_of_natAbs_lt (by rw [natAbs_prod]; exact htot)
  refine ⟨?_, fun t hp => ?_⟩
  · rw [engineProd_eq_chunked, chunkedProd_eq_wrap wIn hw]; exact wrapS_of_inS (by omega) hin
  · rw [chunkedProd_eq_wrap wIn hw, perm_prod hp]; exact wrapS_of_inS (by omega) hin

/-- unsigned mirror (`uint8 → uint64`): total `< 2^wAcc` -/
theorem cast_first_prodU_exact_all_plans {wAcc : Nat} (hw : 1 ≤ wAcc) (wIn : Nat) (xs : List Int)
    (htot : inU wAcc xs.prod) :
    engineProdU true wIn wAcc xs = xs.prod ∧
    ∀ t : WTree, t.leaves.Perm xs → chunkedProdU true wIn wAcc t = xs.prod := by
  refine ⟨?_, fun t hp => ?_⟩
  · rw [engineProdU_eq_chunked, chunkedProdU_eq_wrap wIn hw]; exact wrapU_of_inU htot
  · rw [chunkedProdU_eq_wrap wIn hw, perm_prod hp]; exact wrapU_of_inU htot

/-! ### the hypothesis `castFirst` is necessary: the repaired defects -/

/-- numbagg before /repo a3da74f: int8 `[100, 100]` accumulated in int8, THEN cast to int64: `-56`, not `200` -/
theorem narrow_accumulation_counterexample :
    engineSum false 8 64 [100, 100] = -56 ∧ engineSum true 8 64 [100, 100] = 200 ∧
    engineSumU false 8 64 [200, 250, 255, 129] = 66 ∧ engineSumU true 8 64 [200, 250, 255, 129] = 834 ∧
    engineProd false 8 64 [7, 5, 5] = -81 ∧ engineProd true 8 64 [7, 5, 5] = 175 := by decide +kernel

/-- … and in the chunked pipeline (blocks `[100, 100 | 27]`): the wide combine cannot repair a narrow block -/
theorem narrow_accumulation_counterexample_chunked :
    chunkedSum false 8 64 (.node (.cons (.leaf [100, 100]) (.one (.leaf [27])))) = -29 ∧
    chunkedSum true 8 64 (.node (.cons (.leaf [100, 100]) (.one (.leaf [27])))) = 227 := by decide +kernel

/-- engine "flox" before /repo 73517da: `array**2` in int8 (`100² = 10000 ≡ 16`), accumulated wide -/
theorem narrow_square_counterexample :
    engineSumSq false (wrapS 8) (wrapS 64) [100, 3] = 25 ∧ engineSumSq true (wrapS 8) (wrapS 64) [100, 3] = 10009 := by
  decide +kernel

end Flox.IntWidth
