/-
  C10, part 2: the in-memory kernels (`aggregate_flox.ffill`, numpy_groupies' `_nancumsum`) equal the specification.

  Route: (A) on a key-sorted list the "reset at every key change" scan `runScan` equals the specification;
         (B) the literal kernels (index gymnastics / global cumsum minus group start) equal `runScan`;
         (C) stable sorting, scanning and un-permuting = scanning in the original order.
-/
import FloxProofs.ScanAlgebra

namespace Flox
namespace Scan

/-- no `±inf` among the values (NaN allowed) -/
def NoInf (l : AA) : Prop := ∀ p ∈ l, p.2 ≠ Val.pinf ∧ p.2 ≠ Val.ninf

abbrev IAA := List (Int × (Nat × Val))

def Sorted {α} (l : List (Int × α)) : Prop := l.Pairwise (fun a b => a.1 ≤ b.1)

/-! ### (A) run-based scan on sorted data -/

/-- scan that restarts whenever the key changes; state = (previous key, previous output) -/
def runScan (f : Func) : Option (Int × Val) → AA → List Val
  | _, [] => []
  | st, (k, v) :: r =>
    let o := match st with
      | some (pk, c) => if pk = k then step f c v else step f (init f) v
      | none => step f (init f) v
    o :: runScan f (some (k, o)) r

def Match (f : Func) (st : Option (Int × Val)) (pre : AA) : Prop :=
  (pre = [] ∧ st = none) ∨ ∃ pre0 pk x, pre = pre0 ++ [(pk, x)] ∧ st = some (pk, scanLast f (mem pk pre))

theorem runScan_eq (f : Func) (l pre : AA) (st : Option (Int × Val)) (hs : Sorted (pre ++ l)) (hm : Match f st pre) :
    runScan f st l = groupedScanFrom f pre l := by
  induction l generalizing pre st with
  | nil => rfl
  | cons p r ih =>
    obtain ⟨k, v⟩ := p
    have htail : ∀ o, o = scanLast f (mem k pre ++ [v]) →
        runScan f (some (k, o)) r = groupedScanFrom f (pre ++ [(k, v)]) r := by
      intro o ho
      apply ih
      · simpa using hs
      · right
        refine ⟨pre, k, v, rfl, ?_⟩
        rw [mem_append, mem_singleton, if_pos rfl, ho]
    rcases hm with ⟨rfl, rfl⟩ | ⟨pre0, pk, x, rfl, rfl⟩
    · simp only [runScan, groupedScanFrom]
      have hout : step f (init f) v = scanLast f (mem k [] ++ [v]) := by simp [scanLast]
      rw [hout, htail _ rfl]
    · simp only [runScan, groupedScanFrom]
      have hout : (if pk = k then step f (scanLast f (mem pk (pre0 ++ [(pk, x)]))) v else step f (init f) v) =
          scanLast f (mem k (pre0 ++ [(pk, x)]) ++ [v]) := by
        by_cases hk : pk = k
        · subst hk; rw [if_pos rfl, scanLast_snoc]
        · rw [if_neg hk]
          have hnot : k ∉ keys (pre0 ++ [(pk, x)]) := by
            intro hmem
            simp only [keys, List.mem_map] at hmem
            obtain ⟨q, hq, hqk⟩ := hmem
            have h1 : q.1 ≤ pk := by
              rcases List.mem_append.mp hq with h | h
              · have := (List.pairwise_append.mp (List.pairwise_append.mp hs).1).2.2 q h (pk, x) (by simp)
                exact this
              · simp at h; subst h; exact Int.le_refl _
            have h2 : pk ≤ k := by
              have := (List.pairwise_append.mp hs).2.2 (pk, x) (by simp) (k, v) (by simp)
              exact this
            omega
          rw [mem_eq_nil_of_not_mem_keys _ _ hnot]; simp [scanLast]
      rw [hout, htail _ rfl]

theorem runScan_sorted (f : Func) (l : AA) (hs : Sorted l) : runScan f none l = groupedScanFrom f [] l :=
  runScan_eq f l [] none (by simpa using hs) (Or.inl ⟨rfl, rfl⟩)

/-! ### (B1) `aggregate_flox.ffill` on sorted data -/

theorem getD_vals_append_left (pre r : AA) (i : Nat) (h : i < pre.length) :
    (vals (pre ++ r)).getD i Val.nan = (vals pre).getD i Val.nan := by
  simp [vals, List.getD_eq_getElem?_getD, List.getElem?_append_left, h]

theorem getD_vals_append_mid (pre r : AA) (k : Int) (v : Val) :
    (vals (pre ++ (k, v) :: r)).getD pre.length Val.nan = v := by
  simp [vals, List.getD_eq_getElem?_getD]

theorem nan_of_isNaN {v : Val} (h : v.isNaN = true) : v = Val.nan := by cases v <;> simp_all [Val.isNaN]

theorem step_ffill_init (v : Val) : step .ffill (init .ffill) v = v := by
  cases v <;> simp [step, init, Val.isNaN]

theorem ffillIdx_eq (r pre : AA) (pk : Int) (c : Val) (cur : Nat) (hcur : cur < pre.length)
    (hc : (vals pre).getD cur Val.nan = c) :
    (ffillIdx (some pk) pre.length cur r).map (fun a => (vals (pre ++ r)).getD a Val.nan) =
      runScan .ffill (some (pk, c)) r := by
  induction r generalizing pre pk c cur with
  | nil => rfl
  | cons p r ih =>
    obtain ⟨k, v⟩ := p
    simp only [ffillIdx, runScan, List.map_cons]
    by_cases hmask : (v.isNaN && (some pk == some k)) = true
    · have hv : v.isNaN = true := by simp_all
      have hk : pk = k := by simp_all
      subst hk
      have hmax : Nat.max cur 0 = cur := by simp
      simp only [hmask, if_true, hmax]
      have hval : (vals (pre ++ (pk, v) :: r)).getD cur Val.nan = c := by
        rw [getD_vals_append_left _ _ _ hcur, hc]
      have hstep : step .ffill c v = c := by simp [step, hv]
      rw [hval, hstep]
      congr 1
      have := ih (pre ++ [(pk, v)]) pk c cur (by simp only [List.length_append, List.length_cons, List.length_nil]; omega)
        (by rw [getD_vals_append_left _ _ _ hcur, hc])
      simpa using this
    · have hmax : Nat.max cur pre.length = pre.length := Nat.max_eq_right (by omega)
      simp only [hmask, Bool.false_eq_true, if_false, hmax]
      rw [getD_vals_append_mid]
      have hstep : (if pk = k then step .ffill c v else step .ffill (init .ffill) v) = v := by
        by_cases hk : pk = k
        · subst hk
          have hv : v.isNaN = false := by simpa using hmask
          simp [step, hv]
        · rw [if_neg hk]; exact step_ffill_init v
      rw [hstep]
      congr 1
      have := ih (pre ++ [(k, v)]) k v pre.length (by simp) (by
        have := getD_vals_append_mid pre [] k v
        simpa using this)
      simpa using this

theorem ffillSorted_eq (s : AA) : ffillSorted s = runScan .ffill none s := by
  cases s with
  | nil => rfl
  | cons p r =>
    obtain ⟨k, v⟩ := p
    simp only [ffillSorted, ffillIdx, runScan, List.map_cons]
    have h0 : (v.isNaN && ((none : Option Int) == some k)) = false := by simp
    have hmax : Nat.max 0 0 = 0 := rfl
    simp only [h0, Bool.false_eq_true, if_false, hmax]
    have hfirst : (vals ((k, v) :: r)).getD 0 Val.nan = step .ffill (init .ffill) v := by
      rw [step_ffill_init]; simp [vals]
    rw [hfirst]
    congr 1
    have := ffillIdx_eq r [(k, v)] k (step .ffill (init .ffill) v) 0 (by simp) (by rw [step_ffill_init]; simp [vals])
    simpa using this

/-! ### (B2) numpy_groupies' cumsum on sorted data without `±inf` -/

def AllFin (s : AA) : Prop := ∀ p ∈ s, ∃ q, p.2 = Val.fin q

theorem cumsumSorted_eq (r : AA) (hr : AllFin r) (pk : Int) (C CS A G : Rat) (hG : G = C - CS + A) :
    cumsumSorted (some pk) (Val.fin C) (Val.fin CS) (Val.fin A) r = runScan .nancumsum (some (pk, Val.fin G)) r := by
  induction r generalizing pk C CS A G with
  | nil => rfl
  | cons p r ih =>
    obtain ⟨k, v⟩ := p
    obtain ⟨x, hx⟩ := hr (k, v) List.mem_cons_self
    simp only at hx
    subst hx
    have hr' : AllFin r := fun p hp => hr p (List.mem_cons_of_mem _ hp)
    simp only [cumsumSorted, runScan]
    by_cases hk : pk = k
    · subst hk
      simp only [beq_self_eq_true, if_true]
      have h1 : Val.add (Val.sub (Val.add (Val.fin C) (Val.fin x)) (Val.fin CS)) (Val.fin A) = Val.fin (G + x) := by
        simp only [Val.add, Val.sub, Val.neg]; congr 1; subst hG; grind
      have h2 : step .nancumsum (Val.fin G) (Val.fin x) = Val.fin (G + x) := by simp [step, Val.isNaN, Val.add]
      rw [h1, h2]
      congr 1
      exact ih hr' pk (C + x) CS A (G + x) (by subst hG; grind)
    · have hb : (some pk == some k) = false := by simpa using hk
      simp only [hb, Bool.false_eq_true, if_false, if_neg hk]
      have h1 : Val.add (Val.sub (Val.add (Val.fin C) (Val.fin x)) (Val.add (Val.fin C) (Val.fin x))) (Val.fin x) = Val.fin x := by
        simp only [Val.add, Val.sub, Val.neg]; congr 1; grind
      have h2 : step .nancumsum (init .nancumsum) (Val.fin x) = Val.fin x := by
        simp [step, init, Val.isNaN, Val.add, Val.zero, Rat.zero_add]
      rw [h1, h2]
      congr 1
      exact ih hr' k (C + x) (C + x) x x (by grind)

theorem cumsumSorted_none_eq (s : AA) (hs : AllFin s) :
    cumsumSorted none Val.zero Val.zero Val.zero s = runScan .nancumsum none s := by
  cases s with
  | nil => rfl
  | cons p r =>
    obtain ⟨k, v⟩ := p
    obtain ⟨x, hx⟩ := hs (k, v) List.mem_cons_self
    simp only at hx
    subst hx
    have hr' : AllFin r := fun p hp => hs p (List.mem_cons_of_mem _ hp)
    simp only [cumsumSorted, runScan]
    have hb : ((none : Option Int) == some k) = false := rfl
    simp only [hb, Bool.false_eq_true, if_false]
    have h1 : Val.add (Val.sub (Val.add Val.zero (Val.fin x)) (Val.add Val.zero (Val.fin x))) (Val.fin x) = Val.fin x := by
      simp only [Val.add, Val.sub, Val.neg, Val.zero]; congr 1; grind
    have h2 : step .nancumsum (init .nancumsum) (Val.fin x) = Val.fin x := by
      simp [step, init, Val.isNaN, Val.add, Val.zero, Rat.zero_add]
    rw [h1, h2]
    congr 1
    have : Val.add Val.zero (Val.fin x) = Val.fin (0 + x) := rfl
    rw [this]
    exact cumsumSorted_eq r hr' k (0 + x) (0 + x) x x (by grind)

/-! ### (C) sort, scan, un-permute -/

/-- every element of the indexed list paired with what the specification gives at its place -/
def ann (f : Func) (pre : AA) (s : IAA) : List (Nat × Val) := (idxs s).zip (groupedScanFrom f pre (dropIdx s))

theorem dropIdx_append (a b : IAA) : dropIdx (a ++ b) = dropIdx a ++ dropIdx b := by simp [dropIdx]

theorem ann_cons (f : Func) (pre : AA) (e : Int × (Nat × Val)) (s : IAA) :
    ann f pre (e :: s) = (e.2.1, scanLast f (mem e.1 pre ++ [e.2.2])) :: ann f (pre ++ [(e.1, e.2.2)]) s := by
  simp [ann, idxs, dropIdx, groupedScanFrom]

theorem ann_append (f : Func) (pre : AA) (a b : IAA) :
    ann f pre (a ++ b) = ann f pre a ++ ann f (pre ++ dropIdx a) b := by
  induction a generalizing pre with
  | nil => simp [ann, idxs, dropIdx, groupedScanFrom]
  | cons e r ih => rw [List.cons_append, ann_cons, ann_cons, ih]; simp [dropIdx]

theorem groupedScanFrom_congr_on (f : Func) (pre pre' l : AA)
    (h : ∀ g ∈ keys l, scanLast f (mem g pre) = scanLast f (mem g pre')) :
    groupedScanFrom f pre l = groupedScanFrom f pre' l := by
  induction l generalizing pre pre' with
  | nil => rfl
  | cons p r ih =>
    simp only [groupedScanFrom]
    rw [scanLast_snoc, scanLast_snoc, h p.1 (by simp [keys])]
    congr 1
    apply ih
    intro g hg
    rw [mem_append, mem_append, scanLast_append', scanLast_append', h g (by simp [keys] at hg ⊢; right; exact hg)]

theorem keys_dropIdx (s : IAA) : keys (dropIdx s) = keys s := by simp [keys, dropIdx]

theorem insertBack_perm_ann (f : Func) (e : Int × (Nat × Val)) (S : IAA) (pre : AA) (hS : Sorted S) :
    (ann f pre (insertBack e S)).Perm
      (ann f pre S ++ [(e.2.1, scanLast f (mem e.1 (pre ++ dropIdx S) ++ [e.2.2]))]) := by
  induction S generalizing pre with
  | nil => simp [insertBack, ann_cons, ann, idxs, dropIdx, groupedScanFrom]
  | cons q qs ih =>
    have hqs : Sorted qs := (List.pairwise_cons.mp hS).2
    simp only [insertBack]
    by_cases hle : q.1 ≤ e.1
    · rw [if_pos hle, ann_cons, ann_cons, List.cons_append]
      refine List.Perm.cons _ ?_
      have := ih (pre ++ [(q.1, q.2.2)]) hqs
      simpa [dropIdx, List.append_assoc] using this
    · rw [if_neg hle, ann_cons]
      have hgt : ∀ x ∈ q :: qs, e.1 < x.1 := by
        intro x hx
        rcases List.mem_cons.mp hx with rfl | hx
        · omega
        · have := (List.pairwise_cons.mp hS).1 x hx; omega
      have hnot : e.1 ∉ keys (dropIdx (q :: qs)) := by
        rw [keys_dropIdx]; intro hm
        simp only [keys, List.mem_map] at hm
        obtain ⟨x, hx, hxe⟩ := hm
        have := hgt x hx; omega
      have hsame : ann f (pre ++ [(e.1, e.2.2)]) (q :: qs) = ann f pre (q :: qs) := by
        unfold ann
        congr 1
        apply groupedScanFrom_congr_on
        intro g hg
        have hne : e.1 ≠ g := by rintro rfl; exact hnot hg
        rw [mem_append, mem_singleton, if_neg hne, List.append_nil]
      rw [hsame, mem_append, mem_eq_nil_of_not_mem_keys _ _ hnot, List.append_nil]
      exact (List.perm_append_singleton _ _).symm

theorem insertBack_sorted {α} (e : Int × α) (S : List (Int × α)) (hS : Sorted S) : Sorted (insertBack e S) := by
  induction S with
  | nil => simp [insertBack, Sorted]
  | cons q qs ih =>
    have hqs : Sorted qs := (List.pairwise_cons.mp hS).2
    have hq := (List.pairwise_cons.mp hS).1
    simp only [insertBack]
    by_cases hle : q.1 ≤ e.1
    · rw [if_pos hle]
      refine List.pairwise_cons.mpr ⟨?_, ih hqs⟩
      intro x hx
      have hmem : ∀ y, y ∈ insertBack e qs → y = e ∨ y ∈ qs := by
        intro y
        clear ih hS hqs hq hx
        induction qs with
        | nil => simp [insertBack]
        | cons a as iha =>
          simp only [insertBack]
          split
          · intro hy
            rcases List.mem_cons.mp hy with rfl | hy
            · right; simp
            · rcases iha hy with h | h
              · left; exact h
              · right; simp [h]
          · intro hy
            rcases List.mem_cons.mp hy with rfl | hy
            · left; rfl
            · right; exact hy
      rcases hmem x hx with rfl | hx
      · exact hle
      · exact hq x hx
    · rw [if_neg hle]
      refine List.pairwise_cons.mpr ⟨?_, hS⟩
      intro x hx
      rcases List.mem_cons.mp hx with rfl | hx
      · omega
      · have := hq x hx; omega

theorem mem_insertBack_sorted (g : Int) (e : Int × (Nat × Val)) (S : IAA) (hS : Sorted S) :
    mem g (dropIdx (insertBack e S)) = mem g (dropIdx S) ++ (if e.1 = g then [e.2.2] else []) := by
  induction S with
  | nil => simp [insertBack, dropIdx, mem_singleton]
  | cons q qs ih =>
    have hqs : Sorted qs := (List.pairwise_cons.mp hS).2
    simp only [insertBack]
    by_cases hle : q.1 ≤ e.1
    · rw [if_pos hle]
      simp only [dropIdx, List.map_cons] at ih ⊢
      rw [mem_cons, mem_cons, ih hqs]
      by_cases hq : q.1 = g <;> simp [hq]
    · rw [if_neg hle]
      by_cases he : e.1 = g
      · subst he
        have hnot : e.1 ∉ keys (dropIdx (q :: qs)) := by
          rw [keys_dropIdx]; intro hm
          simp only [keys, List.mem_map] at hm
          obtain ⟨x, hx, hxe⟩ := hm
          rcases List.mem_cons.mp hx with rfl | hx
          · omega
          · have := (List.pairwise_cons.mp hS).1 x hx; omega
        rw [mem_eq_nil_of_not_mem_keys _ _ hnot]
        simp only [dropIdx, List.map_cons] at hnot ⊢
        rw [mem_cons, if_pos rfl, mem_eq_nil_of_not_mem_keys _ _ hnot]
        simp
      · simp only [dropIdx, List.map_cons]
        rw [mem_cons (p := (e.1, e.2.2)), if_neg he]; simp [he]

theorem mem_of_mem_insertBack {α} (e x : Int × α) (S : List (Int × α)) (h : x ∈ insertBack e S) : x = e ∨ x ∈ S := by
  induction S with
  | nil => simpa [insertBack] using h
  | cons a as ih =>
    simp only [insertBack] at h
    split at h
    · rcases List.mem_cons.mp h with rfl | h
      · right; simp
      · rcases ih h with h | h
        · left; exact h
        · right; simp [h]
    · rcases List.mem_cons.mp h with rfl | h
      · left; rfl
      · right; exact h

/-- invariant of the insertion sort: sorted, stable (per-key order kept), annotated outputs are a permutation -/
theorem ssort_invariant (f : Func) (l z1 S : IAA) (hS : Sorted S)
    (hstab : ∀ g, mem g (dropIdx S) = mem g (dropIdx z1)) (hperm : (ann f [] S).Perm (ann f [] z1))
    (hsub : ∀ x ∈ S, x ∈ z1) :
    Sorted (l.foldl (fun acc p => insertBack p acc) S) ∧
      (ann f [] (l.foldl (fun acc p => insertBack p acc) S)).Perm (ann f [] (z1 ++ l)) ∧
      ∀ x ∈ l.foldl (fun acc p => insertBack p acc) S, x ∈ z1 ++ l := by
  induction l generalizing z1 S with
  | nil => simp only [List.foldl_nil, List.append_nil]; exact ⟨hS, hperm, hsub⟩
  | cons e r ih =>
    simp only [List.foldl_cons]
    have := ih (z1 ++ [e]) (insertBack e S) (insertBack_sorted e S hS)
      (by
        intro g
        rw [mem_insertBack_sorted g e S hS, hstab g, dropIdx_append, mem_append]
        simp [dropIdx, mem_singleton])
      (by
        refine (insertBack_perm_ann f e S [] hS).trans ?_
        rw [ann_append, List.nil_append, List.nil_append]
        refine List.Perm.append hperm ?_
        rw [ann_cons, hstab e.1]
        simp [ann, idxs, dropIdx, groupedScanFrom])
      (by
        intro x hx
        rcases mem_of_mem_insertBack e x S hx with rfl | h
        · simp
        · exact List.mem_append_left _ (hsub x h))
    simpa [List.append_assoc] using this

theorem ssortL_spec (f : Func) (z : IAA) :
    Sorted (ssortL z) ∧ (ann f [] (ssortL z)).Perm (ann f [] z) ∧ ∀ x ∈ ssortL z, x ∈ z := by
  have := ssort_invariant f z [] [] (by simp [Sorted]) (fun _ => rfl) (List.Perm.refl _) (by simp)
  simpa [ssortL] using this

/-! #### un-permuting -/

theorem lookup_of_mem (pairs : List (Nat × Val)) (hn : (pairs.map (·.1)).Nodup) (i : Nat) (v : Val)
    (h : (i, v) ∈ pairs) : pairs.lookup i = some v := by
  induction pairs with
  | nil => simp at h
  | cons p r ih =>
    obtain ⟨a, b⟩ := p
    simp only [List.map_cons, List.nodup_cons] at hn
    rcases List.mem_cons.mp h with heq | h'
    · cases heq; simp [List.lookup_cons]
    · have hne : i ≠ a := by
        rintro rfl
        exact hn.1 (List.mem_map.mpr ⟨(i, v), h', rfl⟩)
      have : (i == a) = false := by simpa using hne
      simp only [List.lookup_cons, this]
      exact ih hn.2 h'

theorem idxs_withIdx (l : AA) : idxs (withIdx l) = List.range l.length := by
  have : idxs (withIdx l) = l.zipIdx.map (fun x => x.2) := by simp [idxs, withIdx, Function.comp_def]
  rw [this, List.zipIdx_eq_zip_range', List.range_eq_range']
  exact List.map_snd_zip (by simp)

theorem dropIdx_withIdx (l : AA) : dropIdx (withIdx l) = l := by
  simp [dropIdx, withIdx, Function.comp_def]

theorem unperm_of_perm (n : Nat) (xs : List Val) (hx : xs.length = n) (pairs : List (Nat × Val))
    (hp : pairs.Perm ((List.range n).zip xs)) : unperm n pairs = xs := by
  have hnd : (pairs.map (·.1)).Nodup := by
    rw [(hp.map (·.1)).nodup_iff, List.map_fst_zip (by simp [hx])]
    exact List.nodup_range
  apply List.ext_getElem
  · simp [unperm, hx]
  · intro i h1 h2
    have hi : i < n := by simpa [unperm] using h1
    simp only [unperm, List.getElem_map, List.getElem_range]
    have hmem : (i, xs[i]) ∈ pairs := by
      rw [hp.mem_iff, List.mem_iff_getElem]
      refine ⟨i, by simp [hx, hi], by simp⟩
    rw [lookup_of_mem pairs hnd i _ hmem]; rfl

theorem sort_scan_unperm (f : Func) (l : AA) (s : IAA) (hperm : (ann f [] s).Perm (ann f [] (withIdx l))) :
    unperm l.length ((idxs s).zip (groupedScanFrom f [] (dropIdx s))) = groupedScan f l := by
  apply unperm_of_perm _ _ (groupedScanFrom_length f [] l)
  have : ann f [] (withIdx l) = (List.range l.length).zip (groupedScanFrom f [] l) := by
    simp [ann, idxs_withIdx, dropIdx_withIdx]
  have h := hperm
  rw [this] at h
  exact h

theorem sorted_dropIdx (s : IAA) (h : Sorted s) : Sorted (dropIdx s) := by
  unfold Sorted dropIdx
  rw [List.pairwise_map]
  exact h

theorem isSortedKeys_sorted {α} (l : List (Int × α)) (h : isSortedKeys l = true) : Sorted l := by
  induction l with
  | nil => simp [Sorted]
  | cons p r ih =>
    cases r with
    | nil => simp [Sorted]
    | cons q rest =>
      simp only [isSortedKeys, Bool.and_eq_true, decide_eq_true_eq] at h
      have hr := ih h.2
      refine List.pairwise_cons.mpr ⟨?_, hr⟩
      intro x hx
      rcases List.mem_cons.mp hx with rfl | hx
      · exact h.1
      · have := (List.pairwise_cons.mp hr).1 x hx; omega

/-! ### the kernels -/

theorem ffillEngine_eq_groupedScan (l : AA) : ffillEngine l = groupedScan .ffill l := by
  unfold ffillEngine
  simp only
  by_cases hs : isSortedKeys (withIdx l) = true
  · rw [if_pos hs, ffillSorted_eq, runScan_sorted _ _ (sorted_dropIdx _ (isSortedKeys_sorted _ hs))]
    exact sort_scan_unperm .ffill l _ (List.Perm.refl _)
  · rw [if_neg hs]
    obtain ⟨h1, h2, _⟩ := ssortL_spec .ffill (withIdx l)
    rw [ffillSorted_eq, runScan_sorted _ _ (sorted_dropIdx _ h1)]
    exact sort_scan_unperm .ffill l _ h2

theorem scanLast_nanToZero (pre : AA) (g : Int) :
    scanLast .nancumsum (mem g (nanToZero pre)) = scanLast .nancumsum (mem g pre) := by
  induction pre using snoc_induction with
  | hnil => rfl
  | hsnoc r p ih =>
    simp only [nanToZero, List.map_append, List.map_cons, List.map_nil] at ih ⊢
    rw [mem_append, mem_append, scanLast_append', scanLast_append', ih, mem_singleton, mem_singleton]
    by_cases hp : p.1 = g
    · simp only [hp, if_true]
      congr 1
      cases p.2 <;> simp [scanLast, step, init, Val.isNaN, Val.zero]
    · simp [hp]

theorem groupedScanFrom_nanToZero (pre l : AA) :
    groupedScanFrom .nancumsum (nanToZero pre) (nanToZero l) = groupedScanFrom .nancumsum pre l := by
  induction l generalizing pre with
  | nil => rfl
  | cons p r ih =>
    simp only [nanToZero, List.map_cons, groupedScanFrom] at ih ⊢
    have h1 := ih (pre ++ [p])
    simp only [nanToZero, List.map_append, List.map_cons, List.map_nil] at h1
    rw [h1]
    congr 1
    rw [scanLast_snoc, scanLast_snoc]
    have := scanLast_nanToZero pre p.1
    simp only [nanToZero] at this
    rw [this]
    cases p.2 <;> simp [step, Val.isNaN, Val.zero]

theorem npgNancumsum_eq_groupedScan (l : AA) (h : NoInf l) : npgNancumsum l = groupedScan .nancumsum l := by
  unfold npgNancumsum
  simp only
  obtain ⟨h1, h2, h3⟩ := ssortL_spec .nancumsum (withIdx (nanToZero l))
  have hfin : AllFin (dropIdx (ssortL (withIdx (nanToZero l)))) := by
    intro p hp
    simp only [dropIdx, List.mem_map] at hp
    obtain ⟨x, hx, rfl⟩ := hp
    have hx' := h3 x hx
    have : (x.1, x.2.2) ∈ nanToZero l := by
      have : (x.1, x.2.2) ∈ dropIdx (withIdx (nanToZero l)) := List.mem_map.mpr ⟨x, hx', rfl⟩
      rwa [dropIdx_withIdx] at this
    simp only [nanToZero, List.mem_map] at this
    obtain ⟨q, hq, hqe⟩ := this
    have hq' := h q hq
    simp only [Prod.mk.injEq] at hqe
    rw [← hqe.2]
    cases hv : q.2 with
    | nan => exact ⟨0, by simp [Val.isNaN, Val.zero]⟩
    | pinf => exact absurd hv hq'.1
    | ninf => exact absurd hv hq'.2
    | fin a => exact ⟨a, by simp [Val.isNaN]⟩
  rw [cumsumSorted_none_eq _ hfin, runScan_sorted _ _ (sorted_dropIdx _ h1)]
  have hlen : l.length = (nanToZero l).length := by simp [nanToZero]
  rw [hlen, sort_scan_unperm .nancumsum (nanToZero l) _ h2]
  exact groupedScanFrom_nanToZero [] l

end Scan
end Flox
