/-
  G2: arg-reductions through the COHORTS plan (`.cohorts cs`; arg-reductions use `_grouped_combine`, so per cohort the
  blocks are NOT reindexed (`reindexer = identity`), the tree runs `_grouped_combine`, and `_finalize_results` reindexes
  the combined intermediate to the cohort's labels).

    cohorts_assemble        (generic) per-cohort label slots → the result of `runKnown … (.cohorts cs)`
    cohortA_result          one cohort = the specification slots of its labels
    cohorts_arg_eq_spec     END TO END, for every sound cohort structure (`CohortsSound`), chunking and `split_every`
-/
import FloxProofs.ArgFinish
import FloxProofs.Cohorts

namespace Flox.Grp

/-! ### assembling the per-cohort results (generic in the slot function) -/

/-- From "every cohort returns the slots `S` of its labels" to the result of the whole run: the concatenated
    (labels, values) are sorted when `sort`, and the final reindex of `groupby_reduce` fills the requested labels that
    are in no cohort with `fill_value`.  (Generic form of the second half of `cohorts_eq_spec`.) -/
theorem cohorts_assemble (c : Call) (R : Resolved) (n : Nat) (cs : List (List Nat × List Rat))
    (S : Int → Except String Val) (hn : c.ngroups = n)
    (labels_ok : ∀ co ∈ cs, ∀ ℓ ∈ co.2, ∃ g : Nat, g < n ∧ ℓ = ((g : Nat) : Rat))
    (hSerr : ∀ g e, S g = .error e → e = "ValueError")
    (hSnil : ∀ g : Nat, g < n → (∀ co ∈ cs, ((g : Nat) : Rat) ∉ co.2) → S (Int.ofNat g) = fillOrError R.userFill)
    (H_fill : HCohortFill c R n cs) :
    (match (cs.map (cohortSlots fun ℓ => S ℓ.num)).mapM id with
      | .error e => .error e
      | .ok rs => finalReindex c false (cohortPairs c rs).1 (cohortPairs c rs).2 : Except String (List Val))
      = (List.range n).mapM fun (g : Nat) => S (Int.ofNat g) := by
  let slot : Rat → Except String Val := fun ℓ => S ℓ.num
  have herr : ∀ ℓ e, slot ℓ = .error e → e = "ValueError" := fun ℓ e h => hSerr _ e h
  have hspec_err : ∀ (g : Nat) e, S (Int.ofNat g) = .error e → e = "ValueError" := fun g e h => hSerr _ e h
  show (match (cs.map (cohortSlots slot)).mapM id with
      | .error e => .error e
      | .ok rs => finalReindex c false (cohortPairs c rs).1 (cohortPairs c rs).2 : Except String (List Val)) = _
  by_cases hbad : ∃ co ∈ cs, ∃ ℓ ∈ co.2, slot ℓ = .error "ValueError"
  · rw [cohorts_error slot cs herr hbad]
    obtain ⟨co, hco, ℓ, hℓ, hsl⟩ := hbad
    obtain ⟨g, hg, rfl⟩ := labels_ok co hco ℓ hℓ
    simp only [slot, num_natCast_rat] at hsl
    rw [mapM_except_error_of_mem (fun (g : Nat) => S (Int.ofNat g)) (List.range n) "ValueError"
      (fun g _ e h => hspec_err g e h) ⟨g, List.mem_range.mpr hg, hsl⟩]
  · have hok : ∀ co ∈ cs, ∀ ℓ ∈ co.2, slot ℓ = .ok (exVal (slot ℓ)) := by
      intro co hco ℓ hℓ
      cases hsl : slot ℓ with
      | ok v => rfl
      | error e =>
        exfalso
        apply hbad
        have := herr ℓ e hsl
        subst this
        exact ⟨co, hco, ℓ, hℓ, hsl⟩
    rw [cohorts_all_ok slot cs hok]
    simp only
    let φ : Key → Val := fun κ => match κ with
      | some ℓ => exVal (slot ℓ)
      | none => Val.nan
    have hgs : (cs.map fun co => ((co.2.map some : List Key), co.2.map fun ℓ => exVal (slot ℓ))).flatMap (·.1)
        = (cs.flatMap (·.2)).map some := by
      simp [List.flatMap_def, List.map_flatten, List.map_map, Function.comp_def]
    have hvs : (cs.map fun co => ((co.2.map some : List Key), co.2.map fun ℓ => exVal (slot ℓ))).flatMap (·.2)
        = ((cs.flatMap (·.2)).map some).map φ := by
      simp [List.flatMap_def, List.map_flatten, List.map_map, Function.comp_def, φ]
    have hpairs : ∃ G' : List Key, (∀ κ, κ ∈ G' ↔ κ ∈ (cs.flatMap (·.2)).map some) ∧
        cohortPairs c (cs.map fun co => ((co.2.map some : List Key), co.2.map fun ℓ => exVal (slot ℓ)))
          = (G', G'.map φ) := by
      unfold cohortPairs
      rw [hgs, hvs]
      by_cases hsort : c.sort = true
      · simp only [hsort, if_true]
        exact sortPairs_fun _ φ
      · simp only [hsort, Bool.false_eq_true, if_false]
        exact ⟨_, fun _ => Iff.rfl, rfl⟩
    obtain ⟨G', hG'mem, hG'⟩ := hpairs
    rw [hG']
    simp only
    have hmemG : ∀ g : Nat, (some ((g : Nat) : Rat) : Key) ∈ G' ↔ ∃ co ∈ cs, ((g : Nat) : Rat) ∈ co.2 := by
      intro g
      rw [hG'mem]
      simp [List.mem_flatMap]
    unfold finalReindex
    simp only [Bool.false_and, Bool.false_eq_true, if_false, hn]
    by_cases hGe : G' = []
    · subst hGe
      have hnone : ∀ g : Nat, ∀ co ∈ cs, ((g : Nat) : Rat) ∉ co.2 := by
        intro g co hco hmem
        have := (hmemG g).mpr ⟨co, hco, hmem⟩
        simp at this
      have hlab : cs.flatMap (·.2) = [] := by
        apply List.eq_nil_iff_forall_not_mem.mpr
        intro ℓ hℓ
        have := (hG'mem (some ℓ)).mpr (List.mem_map.mpr ⟨ℓ, hℓ, rfl⟩)
        simp at this
      simp only [reindexCol, List.map_nil, List.isEmpty_nil, if_true]
      by_cases hn0 : 0 < n
      · have hfa := H_fill.2 hlab hn0
        have hfu : c.fillArg = R.userFill := H_fill.1 0 hn0 (hnone 0)
        cases hf : c.fillArg with
        | none => exact absurd hf hfa
        | some f =>
          simp only [Option.getD_some]
          unfold rangeKeys
          rw [List.map_map, ← mapM_except_ok]
          apply mapM_except_congr
          intro g hg
          have hg' := List.mem_range.mp hg
          rw [hSnil g hg' (hnone g), ← hfu, hf]
          rfl
      · have : n = 0 := by omega
        subst this
        rfl
    · rw [reindexCol_fun_opt G' (rangeKeys n) φ c.fillArg hGe]
      have key : optToExcept ((rangeKeys n).mapM (fun κ => if κ ∈ G' then some (φ κ) else c.fillArg))
          = (List.range n).mapM fun (g : Nat) => S (Int.ofNat g) := by
        rw [mapM_option_toExcept]
        unfold rangeKeys
        rw [mapM_except_map]
        apply mapM_except_congr
        intro g hg
        have hg' := List.mem_range.mp hg
        by_cases hin : (some ((g : Nat) : Rat) : Key) ∈ G'
        · obtain ⟨co, hco, hmem⟩ := (hmemG g).mp hin
          simp only [hin, if_true, optToExcept, φ]
          have := hok co hco _ hmem
          simp only [slot, num_natCast_rat] at this ⊢
          exact this.symm
        · have hno : ∀ co ∈ cs, ((g : Nat) : Rat) ∉ co.2 := fun co hco hmem => hin ((hmemG g).mpr ⟨co, hco, hmem⟩)
          simp only [hin, if_false]
          rw [hSnil g hg' hno, H_fill.1 g hg' hno]
          rfl
      cases hr : (rangeKeys n).mapM (fun κ => if κ ∈ G' then some (φ κ) else c.fillArg) with
      | none => rw [hr] at key; rw [← key]; rfl
      | some v => rw [hr] at key; rw [← key]; rfl

/-! ### unfolding `runKnown … (.cohorts cs)` with the grouped combine -/

/-- the per-cohort computation with `_grouped_combine` (no reindexing of the blocks) -/
def cohortOutA (c : Call) (blocks : List Inter) (co : List Nat × List Rat) : Except String (List Key × List Val) :=
  finalizeResults c.R
    (groupedCombine c.R c.eng c.sort (treeReduce (groupedCombine c.R c.eng c.sort) c.splitEvery
      (co.1.map fun b => blocks.getD b default)))
    (some (co.2.map some)) false

theorem runKnown_cohorts_unfoldA (c : Call) (cs : List (List Nat × List Rat)) (floatData : Bool) (chunks : List Nat)
    (keys : List Key) (vals : List Val) (hcombine : useGroupedCombine c floatData = true) :
    runKnown c (.cohorts cs) floatData chunks keys vals
      = (match (cs.map (cohortOutA c (blockStage c false chunks keys vals))).mapM id with
        | .error e => .error e
        | .ok rs => finalReindex c false (cohortPairs c rs).1 (cohortPairs c rs).2) := by
  simp only [runKnown, hcombine, Bool.not_true, Bool.false_eq_true, if_false, if_true]
  unfold cohortOutA cohortPairs
  cases c.sort <;> rfl

/-! ### selecting blocks -/

/-- the arg segments picked by a cohort's block list -/
def selA (segs : List ASeg) (blks : List Nat) : List ASeg := blks.map fun b => segs.getD b default

theorem default_ASeg_aligned : (default : ASeg).Aligned := ⟨rfl, rfl⟩

theorem selA_aligned (segs : List ASeg) (blks : List Nat) (hal : AlignedA segs) : AlignedA (selA segs blks) := by
  intro p hp
  obtain ⟨b, _, rfl⟩ := List.mem_map.mp hp
  by_cases hb : b < segs.length
  · rw [List.getD_eq_getElem?_getD, List.getElem?_eq_getElem hb]
    exact hal _ (List.getElem_mem hb)
  · rw [List.getD_eq_getElem?_getD, List.getElem?_eq_none (by omega)]
    exact default_ASeg_aligned

/-- pairs of a label in the selected blocks = pairs in all blocks, provided the (ascending) selection contains every
    block in which the label occurs -/
theorem pairs_selA (κ : Key) (segs : List ASeg) (blks : List Nat) (hal : AlignedA segs) (j j' : Val)
    (hs : blks.Pairwise (· < ·)) (hlt : ∀ b ∈ blks, b < segs.length)
    (hcover : ∀ b (hb : b < segs.length), κ ∈ segs[b].keys → b ∈ blks) :
    (⟨catAK (selA segs blks), catAV (selA segs blks), catAI (selA segs blks), j⟩ : ASeg).pairs κ
      = (⟨catAK segs, catAV segs, catAI segs, j'⟩ : ASeg).pairs κ := by
  rw [pairs_catA κ _ (selA_aligned segs blks hal), pairs_catA κ segs hal]
  exact flatten_select segs default blks (fun p => p.pairs κ) hs hlt
    (fun b hb hnb => ASeg.pairs_eq_nil _ κ (fun hmem => hnb (hcover b hb hmem)))

theorem membersK_selA (κ : Key) (segs : List ASeg) (blks : List Nat) (hal : AlignedA segs)
    (hs : blks.Pairwise (· < ·)) (hlt : ∀ b ∈ blks, b < segs.length)
    (hcover : ∀ b (hb : b < segs.length), κ ∈ segs[b].keys → b ∈ blks) :
    membersK κ (catAK (selA segs blks)) (catAV (selA segs blks)) = membersK κ (catAK segs) (catAV segs) := by
  rw [membersK_catA κ _ (selA_aligned segs blks hal), membersK_catA κ segs hal]
  exact flatten_select segs default blks (fun p => membersK κ p.keys p.vals) hs hlt
    (fun b hb hnb => membersK_eq_nil_of_not_mem κ _ _ (fun hmem => hnb (hcover b hb hmem)))

theorem blockSegs_length (off : Nat) (chunks : List Nat) (keys : List Key) (vals : List Val) :
    (blockSegs off chunks keys vals).length = chunks.length := by
  induction chunks generalizing off keys vals with
  | nil => rfl
  | cons n ns ih => simp [blockSegs, ih]

theorem blockSegs_keys (off : Nat) (chunks : List Nat) (keys : List Key) (vals : List Val) :
    (blockSegs off chunks keys vals).map (·.keys) = splitBy chunks keys := by
  induction chunks generalizing off keys vals with
  | nil => rfl
  | cons n ns ih => simp [blockSegs, splitBy, ih]

/-! ### the named hypothesis -/

/-- (H_cohortmask) Per cohort, `_finalize_results` applies the count mask to ALL labels found in the cohort's blocks –
    also labels of other cohorts (of which the cohort's blocks may hold only a part) and the group of dropped elements
    – before reindexing to the cohort's labels.  Without a fill value such a foreign group with fewer than `min_count`
    valid members raises although no label of the cohort needs filling.  The hypothesis excludes the mask-without-fill
    combination altogether. -/
def HCohortMask (R : Resolved) : Prop := R.minCount > 0 → R.userFill ≠ none

instance (R : Resolved) : Decidable (HCohortMask R) := by unfold HCohortMask; infer_instance

/-- the value of a masked slot when the mask cannot raise -/
def maskedVal (R : Resolved) (cnt v : Val) : Val :=
  if R.minCount > 0 ∧ countBelow cnt R.minCount = true then R.userFill.getD v else v

theorem maskedSlot_eq_ok (R : Resolved) (hmask : HCohortMask R) (cnt v : Val) :
    maskedSlot R cnt v = .ok (maskedVal R cnt v) := by
  unfold maskedSlot maskedVal
  split
  · rename_i h
    cases huf : R.userFill with
    | none => exact absurd huf (hmask h.1)
    | some f => rfl
  · rfl

/-! ### one cohort -/

theorem specArgSlot_error (R : Resolved) (k : Kernel) (pos : List Nat) (ms : List Val) (e : String)
    (h : specArgSlot R k pos ms = .error e) : e = "ValueError" := by
  unfold specArgSlot optToExcept at h
  split at h
  · cases h
  · simp only [Except.error.injEq] at h; exact h.symm

theorem specArgSlot_nil (R : Resolved) (k : Kernel) (pos : List Nat) :
    specArgSlot R k pos [] = fillOrError R.userFill := by
  simp [specArgSlot, Spec.argSlot, fillOrError]

/-- the specification slot of label `ℓ` (a rational that is a code) -/
abbrev specArgOf (k : Kernel) (R : Resolved) (codes : List Int) (vals : List Val) (g : Int) : Except String Val :=
  specArgSlot R k (Spec.positions g codes) (members g codes vals)

theorem cohortA_result {k : Kernel} {R : Resolved} (hf : ArgFits k R) (c : Call) (hR : c.R = R) (heng : c.eng = .npg)
    (n : Nat) (chunks : List Nat) (codes : List Int) (vals : List Val) (cs : List (List Nat × List Rat))
    (hlen : codes.length = vals.length) (hsum : chunks.sum = codes.length)
    (hsound : CohortsSound chunks codes n cs)
    (H_notallnan : ∀ g : Nat, g < n → HNotAllNaN k R (members (Int.ofNat g) codes vals))
    (H_mask : HCohortMask R)
    (co : List Nat × List Rat) (hco : co ∈ cs) :
    cohortOutA c (blockStage c false chunks (codeKeys codes) vals) co
      = cohortSlots (fun ℓ => specArgOf k R codes vals ℓ.num) co := by
  subst hR
  have hklen : (codeKeys codes).length = codes.length := by simp [codeKeys]
  obtain ⟨segs, hsegs⟩ : ∃ s, s = blockSegs 0 chunks (codeKeys codes) vals := ⟨_, rfl⟩
  have hsegs_len : segs.length = chunks.length := by rw [hsegs]; exact blockSegs_length _ _ _ _
  have hal : AlignedA segs := by
    rw [hsegs]; exact blockSegs_aligned 0 chunks (codeKeys codes) vals (by omega) (by omega)
  have hcatK : catAK segs = codeKeys codes := by rw [hsegs]; exact blockSegs_catAK 0 chunks _ vals (by omega)
  have hcatV : catAV segs = vals := by rw [hsegs]; exact blockSegs_catAV 0 chunks _ vals (by omega)
  have hcatI : catAI segs = globalIdx codes.length := by
    rw [hsegs, blockSegs_catAI, hsum]
    simp [globalIdx]
  -- the cohort's blocks are the nodes of the selected segments
  have hsub : (co.1.map fun b => (blockStage c false chunks (codeKeys codes) vals).getD b default)
      = (selA segs co.1).map (aNode k c.R c.sort) := by
    rw [blockStage_argNodes c hf heng false chunks (codeKeys codes) vals (by omega) (by omega), ← hsegs]
    unfold selA
    rw [List.map_map]
    apply List.map_congr_left
    intro b hb
    have hb' : b < segs.length := by rw [hsegs_len]; exact hsound.blocks_lt co hco b hb
    simp only [Function.comp, List.getD_eq_getElem?_getD, List.getElem?_map,
      List.getElem?_eq_getElem hb', Option.map_some, Option.getD_some]
  unfold cohortOutA
  rw [hsub, heng]
  obtain ⟨j, hj⟩ := tree_argNodes hf c.sort c.splitEvery (selA segs co.1)
    (by simpa [selA] using hsound.blocks_ne co hco) (selA_aligned segs co.1 hal)
  rw [hj]
  -- the combined intermediate of the cohort
  generalize hS : (⟨catAK (selA segs co.1), catAV (selA segs co.1), catAI (selA segs co.1), j⟩ : ASeg) = sel
  have hselK : sel.keys = catAK (selA segs co.1) := by rw [← hS]
  have hselV : sel.vals = catAV (selA segs co.1) := by rw [← hS]
  -- columns indexed by the node's own group list
  let a : Key → Val := fun κ => match κ with
    | some r => argPick k sel.junk (sel.pairs (some r))
    | none => Val.zero
  let cntv : Key → Val := fun κ => match κ with
    | some r => countVal (membersK (some r) sel.keys sel.vals)
    | none => Val.zero
  have hgroups := aNode_groups k c.R c.sort sel
  have hcols : (aNode k c.R c.sort sel).cols
      = [colAt (aNode k c.R c.sort sel) 0, colAt (aNode k c.R c.sort sel) 1]
          ++ (if decide (c.R.minCount > 0) then [colAt (aNode k c.R c.sort sel) 2] else []) :=
    argNode_cols k (decide (c.R.minCount > 0)) c.sort sel
  have hc1 : colAt (aNode k c.R c.sort sel) 1 = (aNode k c.R c.sort sel).groups.map a := by
    rw [colAt_argNode1, hgroups]
    split
    · rfl
    · rw [List.map_map]; rfl
  have hv : finalizeVals c.R (if c.R.minCount > 0 then (aNode k c.R c.sort sel).cols.dropLast
      else (aNode k c.R c.sort sel).cols) = (aNode k c.R c.sort sel).groups.map a := by
    rw [finalizeVals_second _ _ hf.fin, ← hc1]
    by_cases hm : c.R.minCount > 0
    · rw [if_pos hm, hcols]; simp [hm]
    · rw [if_neg hm]; rfl
  have hc : c.R.minCount > 0 → (aNode k c.R c.sort sel).cols.getLastD [] = (aNode k c.R c.sort sel).groups.map cntv := by
    intro hm
    have hnode : aNode k c.R c.sort sel = argNode k true c.sort sel := by simp [aNode, hm]
    rw [hcols]
    simp only [hm, decide_true, if_true, List.cons_append, List.nil_append, List.getLastD_cons, List.getLastD_nil]
    rw [hnode, colAt_argNode2, argNode_groups]
    split
    · rfl
    · rw [List.map_map]; rfl
  rw [finalizeResults_masked c.R _ (aNode k c.R c.sort sel).groups a cntv (some (co.2.map some)) false hv hc]
  -- the mask cannot raise
  have hmapM : (aNode k c.R c.sort sel).groups.mapM (fun κ => maskedSlot c.R (cntv κ) (a κ))
      = .ok ((aNode k c.R c.sort sel).groups.map fun κ => maskedVal c.R (cntv κ) (a κ)) := by
    rw [← mapM_except_ok]
    apply mapM_except_congr
    intro κ _
    exact maskedSlot_eq_ok c.R H_mask _ _
  rw [hmapM]
  simp only
  have hGne : (aNode k c.R c.sort sel).groups ≠ [] := by
    rw [hgroups]; split
    · simp
    · rename_i h
      have hfn : foundOf c.sort sel.keys ≠ [] := fun e => h ((presentKeys_nil_iff_foundOf c.sort sel.keys).mpr e)
      simpa using hfn
  rw [reindexCol_fun_opt _ (co.2.map some) (fun κ => maskedVal c.R (cntv κ) (a κ)) c.R.userFill hGne]
  -- slot by slot
  have hslot : ∀ ℓ ∈ co.2,
      optToExcept (if (some ℓ : Key) ∈ (aNode k c.R c.sort sel).groups
          then some (maskedVal c.R (cntv (some ℓ)) (a (some ℓ))) else c.R.userFill)
        = specArgOf k c.R codes vals ℓ.num := by
    intro ℓ hℓ
    obtain ⟨g, hg, rfl⟩ := hsound.labels_ok co hco ℓ hℓ
    rw [num_natCast_rat]
    -- the label's members / pairs in the selected blocks are those in the whole array
    have hcover : ∀ b (hb : b < segs.length), (some ((g : Nat) : Rat) : Key) ∈ segs[b].keys → b ∈ co.1 := by
      intro b hb hmem
      have hb' : b < chunks.length := by rw [← hsegs_len]; exact hb
      apply hsound.blocks_cover co hco g hℓ b hb'
      have hk : segs[b].keys = (splitBy chunks (codeKeys codes))[b]'(by rw [splitBy_length]; exact hb') := by
        have := blockSegs_keys 0 chunks (codeKeys codes) vals
        rw [← hsegs] at this
        have h2 := congrArg (fun l => l[b]?) this
        simp only [List.getElem?_map] at h2
        rw [List.getElem?_eq_getElem hb, List.getElem?_eq_getElem (by rw [splitBy_length]; exact hb')] at h2
        exact Option.some.inj h2
      rw [hk] at hmem
      have hsp : splitBy chunks (codeKeys codes) = (splitBy chunks codes).map codeKeys := splitBy_map _ _ _
      have h1 : b < (splitBy chunks codes).length := by rw [splitBy_length]; exact hb'
      rw [List.getD_eq_getElem?_getD, List.getElem?_eq_getElem h1]
      simp only [hsp, List.getElem_map] at hmem
      obtain ⟨cd, hcd, e⟩ := mem_codeKeys.mp hmem
      have : cd = Int.ofNat g := by
        have h3 : ((cd : Int) : Rat) = ((Int.ofNat g : Int) : Rat) := by rw [← e, natCast_rat_eq]
        exact Rat.intCast_inj.mp h3
      rw [← this]; exact hcd
    have hasc := hsound.blocks_asc co hco
    have hlt : ∀ b ∈ co.1, b < segs.length := by
      intro b hb; rw [hsegs_len]; exact hsound.blocks_lt co hco b hb
    have hpairs : sel.pairs (some ((g : Nat) : Rat)) = (wholeSeg codes vals sel.junk).pairs (some ((g : Nat) : Rat)) := by
      have := pairs_selA (some ((g : Nat) : Rat)) segs co.1 hal j sel.junk hasc hlt hcover
      rw [hS, hcatK, hcatV, hcatI] at this
      exact this
    have hmem : membersK (some ((g : Nat) : Rat)) sel.keys sel.vals = members (Int.ofNat g) codes vals := by
      rw [hselK, hselV, membersK_selA _ segs co.1 hal hasc hlt hcover, hcatK, hcatV, natCast_rat_eq,
        membersK_codeKeys]
    have hin : (some ((g : Nat) : Rat) : Key) ∈ (aNode k c.R c.sort sel).groups ↔
        members (Int.ofNat g) codes vals ≠ [] := by
      rw [← hmem, hgroups]
      have hal' : sel.Aligned := by rw [← hS]; exact catA_aligned _ (selA_aligned segs co.1 hal) _
      constructor
      · intro h
        have hk : (some ((g : Nat) : Rat) : Key) ∈ sel.keys := by
          split at h
          · simp at h
          · simp only [List.mem_map, Option.some.injEq, exists_eq_right] at h
            exact (mem_foundOf _ _ _).mp h
        exact membersK_ne_nil_of_mem _ _ _ hk (by rw [hal'.1]; exact Nat.le_refl _)
      · intro h
        have hk : (some ((g : Nat) : Rat) : Key) ∈ sel.keys := by
          apply Classical.byContradiction
          intro hnot
          exact h (membersK_eq_nil_of_not_mem _ _ _ hnot)
        have hp : presentKeys sel.keys ≠ [] := by
          intro e
          have := (mem_presentKeys _ _).mpr hk
          rw [e] at this; simp at this
        rw [if_neg hp]
        simp only [List.mem_map, Option.some.injEq, exists_eq_right]
        exact (mem_foundOf _ _ _).mpr hk
    by_cases hm : members (Int.ofNat g) codes vals = []
    · have : ¬ (some ((g : Nat) : Rat) : Key) ∈ (aNode k c.R c.sort sel).groups := fun h => hin.mp h hm
      rw [if_neg this]
      unfold specArgOf
      rw [hm, specArgSlot_nil]
      rfl
    · rw [if_pos (hin.mpr hm)]
      simp only [optToExcept]
      rw [← maskedSlot_eq_ok c.R H_mask]
      simp only [a, cntv]
      rw [hpairs, hmem]
      exact argMrSlot_eq_spec k c.R hf codes vals sel.junk hlen _ hm (H_notallnan g hg)
  unfold cohortSlots
  have hE := mapM_option_toExcept (fun κ => if κ ∈ (aNode k c.R c.sort sel).groups
      then some (maskedVal c.R (cntv κ) (a κ)) else c.R.userFill) (co.2.map some)
  rw [mapM_except_map] at hE
  rw [mapM_except_congr _ _ co.2 hslot] at hE
  rw [← hE]
  cases (co.2.map some).mapM (fun κ => if κ ∈ (aNode k c.R c.sort sel).groups
      then some (maskedVal c.R (cntv κ) (a κ)) else c.R.userFill) with
  | none => rfl
  | some v => rfl

/-! ### the end-to-end theorem -/

/-- **G2, cohorts, END TO END.**  The `cohorts` plan for an arg-reduction (grouped combine, no reindexing of the
    blocks, finalize reindexes to the cohort's labels) equals the specification for every SOUND cohort structure, every
    chunking and every `split_every`. -/
theorem cohorts_arg_eq_spec (k : Kernel) (R : Resolved) (c : Call) (n : Nat) (floatData : Bool)
    (chunks : List Nat) (codes : List Int) (vals : List Val) (cs : List (List Nat × List Rat))
    (hR : c.R = R) (heng : c.eng = .npg) (hn : c.ngroups = n) (hf : ArgFits k R)
    (hlen : codes.length = vals.length) (hsum : chunks.sum = codes.length)
    (hsound : CohortsSound chunks codes n cs)
    (H_notallnan : ∀ g : Nat, g < n → HNotAllNaN k R (members (Int.ofNat g) codes vals))
    (H_mask : HCohortMask R)
    (H_fill : HCohortFill c R n cs) :
    runKnown c (.cohorts cs) floatData chunks (codeKeys codes) vals = specResult k R codes vals n := by
  have hcombine : useGroupedCombine c floatData = true := by simp [useGroupedCombine, hR, hf.isArg]
  rw [runKnown_cohorts_unfoldA c cs floatData chunks _ vals hcombine, specResult_arg_slots k hf.hk]
  have hper : cs.map (cohortOutA c (blockStage c false chunks (codeKeys codes) vals))
      = cs.map (cohortSlots fun ℓ => specArgOf k R codes vals ℓ.num) := by
    apply List.map_congr_left
    intro co hco
    exact cohortA_result hf c hR heng n chunks codes vals cs hlen hsum hsound H_notallnan H_mask co hco
  rw [hper]
  exact cohorts_assemble c R n cs (specArgOf k R codes vals) hn hsound.labels_ok
    (fun g e h => specArgSlot_error R k _ _ e h)
    (by
      intro g hg hno
      have hm : members (Int.ofNat g) codes vals = [] := by
        apply members_eq_nil_of_ne
        intro c' hc' e
        obtain ⟨co, hco, hmem⟩ := hsound.covered g hg (e ▸ hc')
        exact hno co hco hmem
      unfold specArgOf
      rw [hm, specArgSlot_nil])
    H_fill

/-- cohorts = map-reduce for arg-reductions -/
theorem cohorts_arg_eq_mapreduce (k : Kernel) (R : Resolved) (c : Call) (n : Nat) (floatData : Bool)
    (chunks chunks' : List Nat) (codes : List Int) (vals : List Val) (cs : List (List Nat × List Rat))
    (hR : c.R = R) (heng : c.eng = .npg) (hn : c.ngroups = n) (hf : ArgFits k R) (hcodes : CodesOK codes n)
    (hlen : codes.length = vals.length) (hne : codes ≠ []) (hsum : chunks.sum = codes.length)
    (hchunks' : chunks' ≠ []) (hsum' : chunks'.sum = codes.length)
    (hsound : CohortsSound chunks codes n cs)
    (H_notallnan : ∀ g : Nat, g < n → HNotAllNaN k R (members (Int.ofNat g) codes vals))
    (H_mask : HCohortMask R) (H_dropped : HDropped R codes vals)
    (H_fill : HCohortFill c R n cs) :
    runKnown c (.cohorts cs) floatData chunks (codeKeys codes) vals
      = runKnown c (.mapreduce false) floatData chunks' (codeKeys codes) vals := by
  rw [cohorts_arg_eq_spec k R c n floatData chunks codes vals cs hR heng hn hf hlen hsum hsound H_notallnan H_mask
      H_fill,
    mapreduce_arg_eq_spec k R c n floatData chunks' codes vals hR heng hn hf hcodes hlen hne hchunks' hsum'
      H_notallnan H_dropped]

end Flox.Grp
