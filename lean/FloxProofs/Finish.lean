/-
  The tail of `runKnown` (`_finalize_results` + the final reindex) on a dense intermediate, slot by slot.
-/
import FloxModel.Pipeline
import FloxModel.Spec
import FloxProofs.Dense

deriving instance DecidableEq for Except

namespace Flox

/-! ### `List.mapM` in `Except` / `Option` -/

theorem mapM_except_cons {ε α β} (f : α → Except ε β) (a : α) (l : List α) :
    (a :: l).mapM f = (match f a with
      | .error e => .error e
      | .ok b => match l.mapM f with
        | .error e => .error e
        | .ok bs => .ok (b :: bs)) := by
  rw [List.mapM_cons]
  cases f a <;> simp [bind, Except.bind, pure, Except.pure]
  cases l.mapM f <;> rfl

theorem mapM_except_ok {ε α β} (f : α → β) (l : List α) :
    l.mapM (fun a => (Except.ok (f a) : Except ε β)) = .ok (l.map f) := by
  induction l with
  | nil => rfl
  | cons a l ih => rw [mapM_except_cons, ih]; rfl

theorem mapM_except_length {ε α β} (f : α → Except ε β) (l : List α) (bs : List β)
    (h : l.mapM f = .ok bs) : bs.length = l.length := by
  induction l generalizing bs with
  | nil => simp [List.mapM_nil, pure, Except.pure] at h; subst h; rfl
  | cons a l ih =>
    rw [mapM_except_cons] at h
    cases hfa : f a with
    | error e => simp [hfa] at h
    | ok b =>
      cases hl : l.mapM f with
      | error e => simp [hfa, hl] at h
      | ok bs' =>
        simp only [hfa, hl, Except.ok.injEq] at h
        subst h
        simp [ih bs' hl]

theorem mapM_except_congr {ε α β} (f g : α → Except ε β) (l : List α) (h : ∀ a ∈ l, f a = g a) :
    l.mapM f = l.mapM g := by
  induction l with
  | nil => rfl
  | cons a l ih =>
    rw [mapM_except_cons, mapM_except_cons, h a (by simp), ih (fun b hb => h b (by simp [hb]))]

/-- turning the `Option` of the specification into the `Except` of the model -/
def optToExcept {α} (o : Option α) : Except String α :=
  match o with
  | some v => .ok v
  | none => .error "ValueError"

theorem mapM_option_toExcept {α β} (f : α → Option β) (l : List α) :
    optToExcept (l.mapM f) = l.mapM (fun a => optToExcept (f a)) := by
  induction l with
  | nil => rfl
  | cons a l ih =>
    rw [mapM_except_cons, ← ih, List.mapM_cons]
    cases f a with
    | none => rfl
    | some b =>
      cases l.mapM f <;> rfl

/-! ### the count mask -/

/-- the user's fill, or flox's `ValueError("Filling is required…")` -/
def fillOrError (uf : Option Val) : Except String Val := optToExcept uf

theorem mask_mapM {α} (l : List α) (a : α → Val) (b : α → Bool) (uf : Option Val) :
    (if ((l.map b).any id) = true then
        (match uf with
          | none => (Except.error "ValueError" : Except String (List Val))
          | some f => .ok (((l.map a).zip (l.map b)).map fun (v, m) => if m then f else v))
      else .ok (l.map a))
      = l.mapM fun x => if b x = true then fillOrError uf else .ok (a x) := by
  induction l with
  | nil => rfl
  | cons x l ih =>
    rw [mapM_except_cons, ← ih]
    cases uf with
    | none =>
      by_cases hb : b x = true
      · simp [hb, fillOrError, optToExcept]
      · by_cases hany : ((l.map b).any id) = true
        · simp [hb, hany]
        · simp [hb, hany]
    | some f =>
      by_cases hb : b x = true
      · by_cases hany : ((l.map b).any id) = true
        · simp [hb, hany, fillOrError, optToExcept]
        · simp only [Bool.not_eq_true] at hany
          have hall : ∀ y ∈ l, b y = false := by
            intro y hy
            simp only [List.any_map, List.any_eq_false, Function.comp, id] at hany
            simpa using hany y hy
          have : ((l.map a).zip (l.map b)).map (fun (p : Val × Bool) => if p.2 then f else p.1) = l.map a := by
            rw [List.zip_map', List.map_map]
            apply List.map_congr_left
            intro y hy
            simp [hall y hy]
          simp [hb, hany, fillOrError, optToExcept, this]
      · by_cases hany : ((l.map b).any id) = true
        · simp [hb, hany]
        · simp [hb, hany]

/-! ### `finalReindex` onto the range it already has -/

theorem finalReindex_range (c : Call) (n : Nat) (vs : List Val) (hn : c.ngroups = n) (hlen : vs.length = n) :
    finalReindex c false (rangeKeys n) vs = .ok vs := by
  unfold finalReindex
  simp only [Bool.false_and, Bool.false_eq_true, if_false, hn, reindexCol]
  cases n with
  | zero =>
    have : vs = [] := List.length_eq_zero_iff.mp hlen
    simp [rangeKeys, this]
  | succ m => simp [rangeKeys, List.range_succ]

/-- one output slot after the count mask: the user's fill (or the error) when the count is below `min_count` -/
def maskedSlot (R : Resolved) (cnt v : Val) : Except String Val :=
  if R.minCount > 0 ∧ countBelow cnt R.minCount = true then fillOrError R.userFill else .ok v

/-- `_finalize_results` (reindexed blocks) followed by the final reindex, on an intermediate whose finalized
    values and counts are given slot by slot -/
theorem finish_dense (c : Call) (R' : Resolved) (n : Nat) (x : Inter) (a cntv : Nat → Val)
    (hn : c.ngroups = n) (hg : x.groups = rangeKeys n)
    (hv : finalizeVals R' (if R'.minCount > 0 then x.cols.dropLast else x.cols) = (List.range n).map a)
    (hc : R'.minCount > 0 → x.cols.getLastD [] = (List.range n).map cntv) :
    (match finalizeResults R' x (some (rangeKeys n)) true with
      | .error e => .error e
      | .ok (gs, vs) => finalReindex c false gs vs)
      = (List.range n).mapM fun g => maskedSlot R' (cntv g) (a g) := by
  unfold finalizeResults
  by_cases hmc : R'.minCount > 0
  · simp only [hmc, if_true] at hv ⊢
    rw [hv, hc hmc, List.map_map]
    have hm := mask_mapM (List.range n) a (fun g => countBelow (cntv g) R'.minCount) R'.userFill
    simp only [maskedSlot, hmc, true_and, Function.comp_def]
    rw [← hm]
    by_cases hany : ((List.range n).map (fun g => countBelow (cntv g) R'.minCount)).any id = true
    · simp only [hany, if_true]
      cases R'.userFill with
      | none => rfl
      | some f =>
        simp only [hg]
        apply finalReindex_range c n _ hn
        simp
    · simp only [hany, Bool.false_eq_true, if_false, hg]
      apply finalReindex_range c n _ hn
      simp
  · simp only [hmc, if_false] at hv ⊢
    rw [hv]
    simp only [maskedSlot, hmc, false_and, if_false, mapM_except_ok, hg]
    apply finalReindex_range c n _ hn
    simp

end Flox
