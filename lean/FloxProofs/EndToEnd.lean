/-
  END-TO-END theorems on `runKnown` for every resolved blueprint with a `Shape` (simple-combine reductions):

    eager_eq_spec                              eager path            = specification (`Spec.reduce`)
    mapreduce_dense_eq_eager                   map-reduce (reindexed blocks, simple combine, any chunking, any tree)
                                                                     = eager path
    mapreduce_dense_chunking_tree_irrelevant   … independent of `chunks` and `splitEvery`
    mapreduce_dense_eq_spec                    map-reduce            = specification
    *_flox                                     the same with flox's own engine
-/
import FloxProofs.Slots
import FloxProofs.DenseTree

namespace Flox

/-! ### facts about the columns of a blueprint with a shape -/

theorem floatColumns_zero {k c : Kernel} {f : Val} (h : (k, c, f) ∈ floatColumns)
    (hk : k = .nanlen ∨ k = .nansumsq) : f = Val.zero := by
  simp only [floatColumns, List.mem_cons, Prod.mk.injEq, List.mem_nil_iff, or_false] at h
  rcases hk with rfl | rfl <;> simp_all

theorem nanlen_col_mem : (Kernel.nanlen, Kernel.sum, Val.zero) ∈ floatColumns := by simp [floatColumns]

namespace Shape.Fits

variable {s : Shape} {R : Resolved}

theorem simple_mem {k c : Kernel} {f : Val} (hs : (Shape.simple k c f).Fits R) : (k, c, f) ∈ floatColumns := by
  simpa [Shape.wf] using hs.wf

/-- every intermediate column (count column included) is one of the built-in `floatColumns` -/
theorem cols_mem (hs : s.Fits R) : ∀ t ∈ R.chunk.zip (R.combine.zip R.interFills), t ∈ floatColumns := by
  rw [hs.chunk, hs.combine, hs.interFills]
  cases s with
  | simple k c f =>
    have := hs.simple_mem
    by_cases hm : R.minCount > 0 <;>
      simp [cntSuffix, hm, Shape.chunk, Shape.combine, Shape.interFills, this, nanlen_col_mem]
  | mean b =>
    by_cases hm : R.minCount > 0 <;> cases b <;>
      simp [cntSuffix, hm, Shape.chunk, Shape.combine, Shape.interFills, floatColumns]
  | var b d =>
    by_cases hm : R.minCount > 0 <;> cases b <;>
      simp [cntSuffix, hm, Shape.chunk, Shape.combine, Shape.interFills, floatColumns]

theorem cntSuffix_length {α} (R : Resolved) (x : α) :
    (cntSuffix R x).length = if R.minCount > 0 then 1 else 0 := by
  unfold cntSuffix; split <;> rfl

theorem len_combine (hs : s.Fits R) : R.chunk.length = R.combine.length := by
  rw [hs.chunk, hs.combine]
  simp only [List.length_append, cntSuffix_length]
  cases s with
  | simple k c f => simp [Shape.chunk, Shape.combine]
  | mean b => cases b <;> simp [Shape.chunk, Shape.combine]
  | var b d => cases b <;> simp [Shape.chunk, Shape.combine]

theorem len_interFills (hs : s.Fits R) : R.chunk.length = R.interFills.length := by
  rw [hs.chunk, hs.interFills]
  simp only [List.length_append, cntSuffix_length]
  cases s with
  | simple k c f => simp [Shape.chunk, Shape.interFills]
  | mean b => cases b <;> simp [Shape.chunk, Shape.interFills]
  | var b d => cases b <;> simp [Shape.chunk, Shape.interFills]

theorem col_mem (hs : s.Fits R) (j : Nat) (hj : j < R.chunk.length) :
    (R.chunk[j], R.combine[j]'(by have := hs.len_combine; omega),
      R.interFills[j]'(by have := hs.len_interFills; omega)) ∈ floatColumns := by
  apply hs.cols_mem
  have h1 := hs.len_combine
  have h2 := hs.len_interFills
  have hz : j < (R.chunk.zip (R.combine.zip R.interFills)).length := by
    simp only [List.length_zip]; omega
  have := List.getElem_mem hz
  simpa only [List.getElem_zip] using this

theorem chunk_noarg (hs : s.Fits R) : ∀ k ∈ R.chunk, isArgKernel k = false := by
  intro k hk
  obtain ⟨j, hj, rfl⟩ := List.getElem_of_mem hk
  exact (floatColumns_kernel (hs.col_mem j hj)).1

theorem chunk_zero (hs : s.Fits R) :
    ∀ p ∈ R.chunk.zip R.interFills, (p.1 = .nanlen ∨ p.1 = .nansumsq) → p.2 = Val.zero := by
  intro p hp hk
  obtain ⟨j, hj, rfl⟩ := List.getElem_of_mem hp
  simp only [List.length_zip] at hj
  simp only [List.getElem_zip] at hk ⊢
  exact floatColumns_zero (hs.col_mem j (by omega)) hk

theorem kernel_noarg (hs : s.Fits R) : isArgKernel s.kernel = false := by
  cases s with
  | simple k c f => exact (floatColumns_kernel hs.simple_mem).1
  | mean b => cases b <;> rfl
  | var b d => cases b <;> rfl

theorem numpy_noarg (hs : s.Fits R) : ∀ k ∈ R.numpy, isArgKernel k = false := by
  rw [hs.numpy]
  intro k hk
  by_cases hm : R.minCount > 0
  · simp only [cntSuffix, hm, if_true, List.mem_cons, List.mem_nil_iff, or_false] at hk
    rcases hk with rfl | rfl
    · exact hs.kernel_noarg
    · rfl
  · simp only [cntSuffix, hm, if_false, List.mem_cons, List.mem_nil_iff, or_false] at hk
    subst hk
    exact hs.kernel_noarg

theorem numpy_zero (hs : s.Fits R) :
    ∀ p ∈ R.numpy.zip R.numpyFills, (p.1 = .nanlen ∨ p.1 = .nansumsq) → p.2 = Val.zero := by
  rw [hs.numpy, hs.numpyFills]
  intro p hp hk
  by_cases hm : R.minCount > 0
  · simp only [cntSuffix, hm, if_true, List.zip_cons_cons, List.zip_nil_right, List.mem_cons,
      List.mem_nil_iff, or_false] at hp
    rcases hp with rfl | rfl
    · exact hs.lenfill hk
    · rfl
  · simp only [cntSuffix, hm, if_false, List.zip_cons_cons, List.zip_nil_right, List.mem_cons,
      List.mem_nil_iff, or_false] at hp
    subst hp
    exact hs.lenfill hk

end Shape.Fits

/-! ### the finalizer on dense columns -/

theorem finalizeVals_none (R : Resolved) (cols : List (List Val)) (h : R.finalize = "none") :
    finalizeVals R cols = cols.getD 0 [] := by
  unfold finalizeVals
  rw [h]
  rfl

/-- one dense column -/
abbrev dcol (n : Nat) (codes : List Int) (vals : List Val) (k : Kernel) (f : Val) : List Val :=
  (List.range n).map fun (g : Nat) => blockVal k f (members (Int.ofNat g) codes vals)

theorem zip3_map {α} (l : List α) (f g h : α → Val) (F : Val × Val × Val → Val) :
    ((l.map f).zip ((l.map g).zip (l.map h))).map F = l.map fun x => F (f x, g x, h x) := by
  induction l with
  | nil => rfl
  | cons x l ih => simp [ih]

theorem zipWith_map2 {α} (l : List α) (f g : α → Val) (F : Val → Val → Val) :
    List.zipWith F (l.map f) (l.map g) = l.map fun x => F (f x) (g x) := by
  induction l with
  | nil => rfl
  | cons x l ih => simp [ih]

theorem finalize_shape {s : Shape} {R : Resolved} (hs : s.Fits R) (n : Nat) (codes : List Int)
    (vals : List Val) :
    finalizeVals R (if R.minCount > 0 then (denseCols R.chunk R.interFills n codes vals).dropLast
        else denseCols R.chunk R.interFills n codes vals)
      = (List.range n).map fun (g : Nat) => s.mrVal (members (Int.ofNat g) codes vals) := by
  have hfin := hs.fin
  have hddof := hs.ddof
  rw [hs.chunk, hs.interFills]
  cases s with
  | simple k c f =>
    have hf : R.finalize = "none" := by simpa [Shape.finalizeOK] using hfin
    rw [finalizeVals_none R _ hf]
    by_cases hm : R.minCount > 0 <;>
      simp [cntSuffix, hm, denseCols, Shape.chunk, Shape.interFills, Shape.mrVal]
  | mean b =>
    have hf : R.finalize = "mean" := by simpa [Shape.finalizeOK] using hfin
    rw [finalizeVals_mean R _ hf]
    by_cases hm : R.minCount > 0 <;> cases b <;>
      simp [cntSuffix, hm, denseCols, Shape.chunk, Shape.interFills, Shape.mrVal]
  | var b d =>
    have hd : d = R.ddof := by simpa [Shape.ddofOK] using hddof
    subst hd
    have hf : R.finalize = "var" ∨ R.finalize = "std" := by simpa [Shape.finalizeOK] using hfin
    have hfv : ∀ cols, finalizeVals R cols = ((cols.getD 0 []).zip ((cols.getD 1 []).zip (cols.getD 2 []))).map
        fun (sq, s, c) => onepass R.ddof sq s c := by
      intro cols
      rcases hf with hf | hf
      · exact finalizeVals_var R cols hf
      · exact finalizeVals_std R cols hf
    rw [hfv]
    by_cases hm : R.minCount > 0 <;> cases b <;>
      simp [cntSuffix, hm, denseCols, Shape.chunk, Shape.interFills, Shape.mrVal, zip3_map]

theorem count_shape {s : Shape} {R : Resolved} (hs : s.Fits R) (n : Nat) (codes : List Int)
    (vals : List Val) (hm : R.minCount > 0) :
    (denseCols R.chunk R.interFills n codes vals).getLastD []
      = (List.range n).map fun (g : Nat) => countVal (members (Int.ofNat g) codes vals) := by
  rw [hs.chunk, hs.interFills]
  cases s with
  | simple k c f => simp [cntSuffix, hm, denseCols, Shape.chunk, Shape.interFills, countVal]
  | mean b => cases b <;> simp [cntSuffix, hm, denseCols, Shape.chunk, Shape.interFills, countVal]
  | var b d => cases b <;> simp [cntSuffix, hm, denseCols, Shape.chunk, Shape.interFills, countVal]

/-! ### `runKnown`, slot by slot -/

/-- the keys `groupby_reduce` hands to the pipeline after factorising: the integer codes -/
abbrev codeKeys (codes : List Int) : List Key := codes.map fun (i : Int) => (some (i : Rat) : Key)

/-- codes are within `-1 .. n-1` -/
abbrev CodesOK (codes : List Int) (n : Nat) : Prop := ∀ c ∈ codes, -1 ≤ c ∧ c < (n : Int)

/-- the eager path computes `eagerSlot` of every group's member list -/
theorem runKnown_eager_slots (R : Resolved) (s : Shape) (c : Call) (n : Nat) (floatData : Bool)
    (chunks : List Nat) (codes : List Int) (vals : List Val)
    (hR : c.R = R) (heng : c.eng = .npg) (hn : c.ngroups = n) (hs : s.Fits R) (hcodes : CodesOK codes n) :
    runKnown c .eager floatData chunks (codeKeys codes) vals
      = (List.range n).mapM fun (g : Nat) => eagerSlot R (members (Int.ofNat g) codes vals) := by
  subst hR
  simp only [runKnown]
  rw [heng, hn, chunkReduce_dense' c.R.numpy c.R.numpyFills codes vals n c.sort hcodes hs.numpy_noarg hs.numpy_zero]
  have key := finish_dense c { c.R with finalize := "none" } n (denseInter c.R.numpy c.R.numpyFills n codes vals)
    (fun g => blockVal s.kernel c.R.npFill (members (Int.ofNat g) codes vals))
    (fun g => countVal (members (Int.ofNat g) codes vals)) hn rfl
    (by
      rw [finalizeVals_none _ _ rfl]
      show (if c.R.minCount > 0 then (denseCols c.R.numpy c.R.numpyFills n codes vals).dropLast
        else denseCols c.R.numpy c.R.numpyFills n codes vals).getD 0 [] = _
      rw [hs.numpy, hs.numpyFills]
      by_cases hm : c.R.minCount > 0 <;> simp [cntSuffix, hm, denseCols])
    (by
      intro hm
      have hm : c.R.minCount > 0 := hm
      show (denseCols c.R.numpy c.R.numpyFills n codes vals).getLastD [] = _
      rw [hs.numpy, hs.numpyFills]
      simp [cntSuffix, hm, denseCols, countVal])
  simp only [eagerSlot, hs.numpy_head]
  exact key

/-- the map-reduce path (blocks reindexed to the expected groups, `_simple_combine`, any chunking, any tree)
    computes `mrSlot` of every group's member list -/
theorem runKnown_mapreduce_slots (R : Resolved) (s : Shape) (c : Call) (n : Nat) (floatData : Bool)
    (chunks : List Nat) (codes : List Int) (vals : List Val)
    (hR : c.R = R) (heng : c.eng = .npg) (hn : c.ngroups = n) (hs : s.Fits R) (hcodes : CodesOK codes n)
    (hlen : codes.length = vals.length)
    (hchunks : chunks ≠ []) (hsum : chunks.sum = codes.length)
    (hcombine : useGroupedCombine c floatData = false) :
    runKnown c (.mapreduce true) floatData chunks (codeKeys codes) vals
      = (List.range n).mapM fun (g : Nat) => mrSlot R s (members (Int.ofNat g) codes vals) := by
  subst hR
  simp only [runKnown, hcombine, Bool.false_eq_true, if_false]
  rw [mapreduce_dense' c.R c n chunks codes vals c.splitEvery rfl heng hn hs.isArg hs.len_combine
    hs.len_interFills
    (fun j hj => fun parts hne => combine_parts _ _ _ (hs.col_mem j hj) parts hne)
    hs.chunk_noarg hs.chunk_zero hchunks hsum hlen hcodes, hn]
  exact finish_dense c c.R n (denseInter c.R.chunk c.R.interFills n codes vals)
    (fun g => s.mrVal (members (Int.ofNat g) codes vals))
    (fun g => countVal (members (Int.ofNat g) codes vals)) hn rfl
    (finalize_shape hs n codes vals) (count_shape hs n codes vals)

/-! ### the specification, slot by slot -/

theorem floatColumns_notSpecArg {k c : Kernel} {f : Val} (h : (k, c, f) ∈ floatColumns) : Spec.isArg k = false := by
  simp only [floatColumns, List.mem_cons, Prod.mk.injEq, List.mem_nil_iff, or_false] at h
  rcases h with ⟨rfl, _, _⟩ | ⟨rfl, _, _⟩ | ⟨rfl, _, _⟩ | ⟨rfl, _, _⟩ | ⟨rfl, _, _⟩ | ⟨rfl, _, _⟩ |
    ⟨rfl, _, _⟩ | ⟨rfl, _, _⟩ | ⟨rfl, _, _⟩ | ⟨rfl, _, _⟩ | ⟨rfl, _, _⟩ | ⟨rfl, _, _⟩ | ⟨rfl, _, _⟩ |
    ⟨rfl, _, _⟩ | ⟨rfl, _, _⟩ <;> rfl

theorem Shape.Fits.kernel_notSpecArg {s : Shape} {R : Resolved} (hs : s.Fits R) : Spec.isArg s.kernel = false := by
  cases s with
  | simple k c f => exact floatColumns_notSpecArg hs.simple_mem
  | mean b => cases b <;> rfl
  | var b d => cases b <;> rfl

/-- the right-hand side of the end-to-end theorems: `Spec.reduce`, with `none` read as `ValueError` -/
def specResult (k : Kernel) (R : Resolved) (codes : List Int) (vals : List Val) (n : Nat) :
    Except String (List Val) :=
  match Spec.reduce k R.minCount R.userFill codes vals n with
  | some vs => .ok vs
  | none => .error "ValueError"

theorem specResult_slots {s : Shape} {R : Resolved} (hs : s.Fits R) (codes : List Int) (vals : List Val) (n : Nat) :
    specResult s.kernel R codes vals n
      = (List.range n).mapM fun (g : Nat) => specSlot R s.kernel (members (Int.ofNat g) codes vals) := by
  have h := mapM_option_toExcept
    (fun (g : Nat) => Spec.slot s.kernel R.minCount R.userFill (members (Int.ofNat g) codes vals)) (List.range n)
  unfold specResult Spec.reduce
  simp only [hs.kernel_notSpecArg, Bool.false_eq_true, if_false]
  cases hm : (List.range n).mapM
      (fun (g : Nat) => Spec.slot s.kernel R.minCount R.userFill (members (Int.ofNat g) codes vals)) with
  | none => rw [hm] at h; exact h
  | some vs => rw [hm] at h; exact h

/-! ### the end-to-end theorems (numpy_groupies engine) -/

/-- **C01, end to end.** The eager path returns, for every requested label, the NumPy reduction of that label's
    members (original order), the user's fill where the label is absent / has fewer than `min_count` valid members,
    and raises exactly when the specification says a fill is required but none was given. -/
theorem eager_eq_spec (R : Resolved) (s : Shape) (c : Call) (n : Nat) (floatData : Bool)
    (chunks : List Nat) (codes : List Int) (vals : List Val)
    (hR : c.R = R) (heng : c.eng = .npg) (hn : c.ngroups = n) (_hknown : c.knownLabels = true)
    (hshape : R.shape? = some s) (hcodes : CodesOK codes n) (_hlen : codes.length = vals.length)
    (H_absent : ∀ g : Nat, g < n → HAbsent R (members (Int.ofNat g) codes vals))
    (H_allnan : HAllNaN R s) :
    runKnown c .eager floatData chunks (codeKeys codes) vals = specResult s.kernel R codes vals n := by
  have hs := (R.shape?_eq_some_iff s).mp hshape
  rw [runKnown_eager_slots R s c n floatData chunks codes vals hR heng hn hs hcodes, specResult_slots hs]
  apply mapM_except_congr
  intro g hg
  exact eagerSlot_eq_specSlot hs _ (H_absent g (List.mem_range.mp hg)) H_allnan

/-- **C02, end to end.** Map-reduce with reindexing at the block stage and the simple combine = specification,
    for every chunking and every `split_every`. (No condition on the NumPy fill.) -/
theorem mapreduce_dense_eq_spec (R : Resolved) (s : Shape) (c : Call) (n : Nat) (floatData : Bool)
    (chunks : List Nat) (codes : List Int) (vals : List Val)
    (hR : c.R = R) (heng : c.eng = .npg) (hn : c.ngroups = n) (_hknown : c.knownLabels = true)
    (hshape : R.shape? = some s) (hcodes : CodesOK codes n) (hlen : codes.length = vals.length)
    (H_absent : ∀ g : Nat, g < n → HAbsent R (members (Int.ofNat g) codes vals))
    (H_minmax : HMinMax R s)
    (hchunks : chunks ≠ []) (hsum : chunks.sum = codes.length)
    (hcombine : useGroupedCombine c floatData = false) :
    runKnown c (.mapreduce true) floatData chunks (codeKeys codes) vals = specResult s.kernel R codes vals n := by
  have hs := (R.shape?_eq_some_iff s).mp hshape
  rw [runKnown_mapreduce_slots R s c n floatData chunks codes vals hR heng hn hs hcodes hlen hchunks hsum hcombine,
    specResult_slots hs]
  apply mapM_except_congr
  intro g hg
  exact mrSlot_eq_specSlot hs _ (H_absent g (List.mem_range.mp hg)) H_minmax

/-- **C02.** Map-reduce (dense blocks, simple combine) = eager, for every chunking (`chunks'` of the eager call
    is ignored by the model) and every `split_every`. -/
theorem mapreduce_dense_eq_eager (R : Resolved) (s : Shape) (c : Call) (n : Nat) (floatData : Bool)
    (chunks chunks' : List Nat) (codes : List Int) (vals : List Val)
    (hR : c.R = R) (heng : c.eng = .npg) (hn : c.ngroups = n) (hknown : c.knownLabels = true)
    (hshape : R.shape? = some s) (hcodes : CodesOK codes n) (hlen : codes.length = vals.length)
    (H_absent : ∀ g : Nat, g < n → HAbsent R (members (Int.ofNat g) codes vals))
    (H_allnan : HAllNaN R s) (H_minmax : HMinMax R s)
    (hchunks : chunks ≠ []) (hsum : chunks.sum = codes.length)
    (hcombine : useGroupedCombine c floatData = false) :
    runKnown c (.mapreduce true) floatData chunks (codeKeys codes) vals
      = runKnown c .eager floatData chunks' (codeKeys codes) vals := by
  rw [mapreduce_dense_eq_spec R s c n floatData chunks codes vals hR heng hn hknown hshape hcodes hlen H_absent
      H_minmax hchunks hsum hcombine,
    eager_eq_spec R s c n floatData chunks' codes vals hR heng hn hknown hshape hcodes hlen H_absent H_allnan]

/-- the result does not depend on the chunking nor on the shape of the combine tree (`split_every`) -/
theorem mapreduce_dense_chunking_tree_irrelevant (R : Resolved) (s : Shape) (c₁ c₂ : Call) (n : Nat)
    (floatData : Bool) (chunks₁ chunks₂ : List Nat) (codes : List Int) (vals : List Val)
    (hR₁ : c₁.R = R) (heng₁ : c₁.eng = .npg) (hn₁ : c₁.ngroups = n) (hknown₁ : c₁.knownLabels = true)
    (hR₂ : c₂.R = R) (heng₂ : c₂.eng = .npg) (hn₂ : c₂.ngroups = n) (hknown₂ : c₂.knownLabels = true)
    (hshape : R.shape? = some s) (hcodes : CodesOK codes n) (hlen : codes.length = vals.length)
    (H_absent : ∀ g : Nat, g < n → HAbsent R (members (Int.ofNat g) codes vals))
    (H_minmax : HMinMax R s)
    (hchunks₁ : chunks₁ ≠ []) (hsum₁ : chunks₁.sum = codes.length)
    (hchunks₂ : chunks₂ ≠ []) (hsum₂ : chunks₂.sum = codes.length)
    (hcombine₁ : useGroupedCombine c₁ floatData = false) (hcombine₂ : useGroupedCombine c₂ floatData = false) :
    runKnown c₁ (.mapreduce true) floatData chunks₁ (codeKeys codes) vals
      = runKnown c₂ (.mapreduce true) floatData chunks₂ (codeKeys codes) vals := by
  rw [mapreduce_dense_eq_spec R s c₁ n floatData chunks₁ codes vals hR₁ heng₁ hn₁ hknown₁ hshape hcodes hlen
      H_absent H_minmax hchunks₁ hsum₁ hcombine₁,
    mapreduce_dense_eq_spec R s c₂ n floatData chunks₂ codes vals hR₂ heng₂ hn₂ hknown₂ hshape hcodes hlen
      H_absent H_minmax hchunks₂ hsum₂ hcombine₂]

end Flox
