/-
  Proofs about the cohort planner model (`FloxModel/Cohorts.lean`), for ALL inputs and ALL thresholds.

  Table level (`plan` on an arbitrary table with distinct labels):
    exactCohorts_sound      – the exact cohorts (branches 2-6) list every table label once, cover its blocks, list nothing else
    mergeLoop invariants    – labels listed in the dict are distinct (also when a cohort is extended on a key collision), are table
                              labels, each key is the union of its labels' blocks, |merged_keys| = number of listed labels
    plan_sound              – whatever `plan` returns as `ok` is `TblSound`, or it is the ("map-reduce", {}) non-plan
    plan_blockwise          – "blockwise" is returned only when every table entry has exactly one block
  Array level (`find` on elements): `find_sound`, `find_blockwise_confined`, `find_blocks_exact`, `counted_once`.
-/
import FloxModel.Cohorts

namespace Flox
namespace Cohorts

/-! ### generic list lemmas -/

theorem subset_of_nodup_subset_length {α} [DecidableEq α] {F L : List α} (hF : F.Nodup) (hsub : F ⊆ L)
    (hlen : L.length ≤ F.length) : L ⊆ F := by
  intro a ha
  apply Classical.byContradiction
  intro hna
  have hsub' : F ⊆ L.erase a := by
    intro x hx
    have hxa : x ≠ a := fun h => hna (h ▸ hx)
    exact (List.mem_erase_of_ne hxa).2 (hsub hx)
  have h1 := hF.length_le_of_subset hsub'
  have h2 : (L.erase a).length = L.length - 1 := by rw [List.length_erase]; simp [ha]
  have h3 : 1 ≤ L.length := List.length_pos_of_mem ha
  omega

theorem count_flatMap_nodup {α β} [DecidableEq α] [DecidableEq β] (g : α → List β) (x : β) (a : α)
    (hg : ∀ k, (g k).count x = if a = k then 1 else 0) :
    ∀ K : List α, K.Nodup → (K.flatMap g).count x = if a ∈ K then 1 else 0
  | [], _ => by simp
  | k :: K, hK => by
    rw [List.nodup_cons] at hK
    rw [List.flatMap_cons, List.count_append, hg k, count_flatMap_nodup g x a hg K hK.2]
    by_cases h : a = k
    · subst h; simp [hK.1]
    · simp [h]

/-! ### the stable insertion sort -/

theorem insertStable_perm {α} (le : α → α → Bool) (a : α) : ∀ l : List α, (insertStable le a l).Perm (a :: l)
  | [] => List.Perm.refl _
  | x :: xs => by
    simp only [insertStable]
    split
    · exact List.Perm.refl _
    · exact ((insertStable_perm le a xs).cons x).trans (List.Perm.swap a x xs)

theorem stableSort_perm {α} (le : α → α → Bool) : ∀ l : List α, (stableSort le l).Perm l
  | [] => List.Perm.refl _
  | a :: l => (insertStable_perm le a _).trans ((stableSort_perm le l).cons a)

theorem mem_stableSort {α} {le : α → α → Bool} {l : List α} {a : α} : a ∈ stableSort le l ↔ a ∈ l :=
  (stableSort_perm le l).mem_iff

theorem map_insertStable {α β} (f : α → β) (r : α → α → Bool) (s : β → β → Bool) (h : ∀ a b, r a b = s (f a) (f b))
    (a : α) : ∀ l : List α, (insertStable r a l).map f = insertStable s (f a) (l.map f)
  | [] => rfl
  | x :: xs => by
    simp only [insertStable, List.map_cons, ← h]
    split
    · rfl
    · rw [List.map_cons, map_insertStable f r s h a xs]

theorem map_stableSort {α β} (f : α → β) (r : α → α → Bool) (s : β → β → Bool) (h : ∀ a b, r a b = s (f a) (f b)) :
    ∀ l : List α, (stableSort r l).map f = stableSort s (l.map f)
  | [] => rfl
  | a :: l => by
    simp only [stableSort, List.map_cons]
    rw [map_insertStable f r s h, map_stableSort f r s h l]

theorem mem_sortLabels {l : List Nat} {a : Nat} : a ∈ sortLabels l ↔ a ∈ l := mem_stableSort

theorem sortLabels_perm (l : List Nat) : (sortLabels l).Perm l := stableSort_perm _ l

theorem insertStable_le_sorted (a : Nat) : ∀ l : List Nat, l.Pairwise (· ≤ ·) →
    (insertStable (fun a b => decide (a ≤ b)) a l).Pairwise (· ≤ ·)
  | [], _ => by simp [insertStable]
  | x :: xs, h => by
    rw [List.pairwise_cons] at h
    simp only [insertStable]
    split
    · rename_i hax
      have hax : a ≤ x := by simpa using hax
      refine List.pairwise_cons.mpr ⟨?_, List.pairwise_cons.mpr h⟩
      intro y hy
      rcases List.mem_cons.mp hy with rfl | hy
      · exact hax
      · exact Nat.le_trans hax (h.1 y hy)
    · rename_i hax
      have hxa : x ≤ a := by have : ¬ a ≤ x := by simpa using hax
                             omega
      refine List.pairwise_cons.mpr ⟨?_, insertStable_le_sorted a xs h.2⟩
      intro y hy
      rcases List.mem_cons.mp ((insertStable_perm _ a xs).mem_iff.mp hy) with rfl | hy
      · exact hxa
      · exact h.1 y hy

theorem sortLabels_sorted : ∀ l : List Nat, (sortLabels l).Pairwise (· ≤ ·)
  | [] => by simp [sortLabels, stableSort]
  | a :: l => by
    simp only [sortLabels, stableSort]
    exact insertStable_le_sorted a _ (sortLabels_sorted l)

theorem sortLabels_asc {l : List Nat} (h : l.Nodup) : (sortLabels l).Pairwise (· < ·) := by
  have h1 := sortLabels_sorted l
  have h2 : (sortLabels l).Nodup := (sortLabels_perm l).nodup_iff.mpr h
  exact List.Pairwise.imp₂ (fun a b hab hne => Nat.lt_of_le_of_ne hab hne) h1 h2

/-! ### Stage A -/

theorem mem_blocksOf {elems : List Elem} {nchunks l b : Nat} :
    b ∈ blocksOf elems nchunks l ↔ b < nchunks ∧ ((l : Int), b) ∈ elems := by
  simp [blocksOf, holds, List.mem_filter, List.mem_range]

theorem mem_tblOf {elems : List Elem} {nchunks nlabels : Nat} {e : Entry} :
    e ∈ tblOf elems nchunks nlabels ↔ e.1 < nlabels ∧ e.2 = blocksOf elems nchunks e.1 ∧ e.2 ≠ [] := by
  obtain ⟨l, bs⟩ := e
  simp only [tblOf, List.mem_filter, List.mem_map, List.mem_range, Prod.mk.injEq]
  constructor
  · rintro ⟨⟨l', hl', rfl, rfl⟩, hne⟩
    refine ⟨hl', rfl, ?_⟩
    intro h; simp [h] at hne
  · rintro ⟨hl, rfl, hne⟩
    refine ⟨⟨l, hl, rfl, rfl⟩, ?_⟩
    cases h : blocksOf elems nchunks l with
    | nil => exact absurd h hne
    | cons a t => simp

theorem tblOf_nodup (elems : List Elem) (nchunks nlabels : Nat) :
    ((tblOf elems nchunks nlabels).map (·.1)).Nodup := by
  have h1 : List.Sublist ((tblOf elems nchunks nlabels).map (·.1))
      (((List.range nlabels).map fun l => (l, blocksOf elems nchunks l)).map (·.1)) :=
    List.Sublist.map _ List.filter_sublist
  have h2 : (((List.range nlabels).map fun l => (l, blocksOf elems nchunks l)).map (·.1)) = List.range nlabels := by
    simp [List.map_map, Function.comp_def]
  rw [h2] at h1
  exact h1.nodup List.nodup_range

theorem tblOf_asc (elems : List Elem) (nchunks nlabels : Nat) :
    ((tblOf elems nchunks nlabels).map (·.1)).Pairwise (· < ·) := by
  have h1 : List.Sublist ((tblOf elems nchunks nlabels).map (·.1))
      (((List.range nlabels).map fun l => (l, blocksOf elems nchunks l)).map (·.1)) :=
    List.Sublist.map _ List.filter_sublist
  have h2 : (((List.range nlabels).map fun l => (l, blocksOf elems nchunks l)).map (·.1)) = List.range nlabels := by
    simp [List.map_map, Function.comp_def]
  rw [h2] at h1
  exact List.Pairwise.sublist h1 List.pairwise_lt_range

theorem tblOf_blocks_lt {elems : List Elem} {nchunks nlabels : Nat} {e : Entry}
    (he : e ∈ tblOf elems nchunks nlabels) : ∀ b ∈ e.2, b < nchunks := by
  intro b hb
  rw [mem_tblOf] at he
  rw [he.2.1] at hb
  exact (mem_blocksOf.mp hb).1

/-! ### tables with distinct labels -/

theorem entry_unique : ∀ {tbl : List Entry}, (tbl.map (·.1)).Nodup → ∀ {l : Nat} {bs bs' : List Nat},
    (l, bs) ∈ tbl → (l, bs') ∈ tbl → bs = bs'
  | [], _, _, _, _, h1, _ => by simp at h1
  | e :: rest, hnd, l, bs, bs', h1, h2 => by
    rw [List.map_cons, List.nodup_cons] at hnd
    rcases List.mem_cons.mp h1 with h1 | h1 <;> rcases List.mem_cons.mp h2 with h2 | h2
    · rw [← h1] at h2; exact (Prod.mk.inj h2).2.symm
    · exfalso; apply hnd.1; rw [← h1]; exact List.mem_map.mpr ⟨_, h2, rfl⟩
    · exfalso; apply hnd.1; rw [← h2]; exact List.mem_map.mpr ⟨_, h1, rfl⟩
    · exact entry_unique hnd.2 h1 h2

/-- in a table with distinct labels, a label occurs in a filtered projection exactly when its entry passes the filter -/
theorem count_filter_map_fst : ∀ {tbl : List Entry}, (tbl.map (·.1)).Nodup → ∀ (p : Entry → Bool) {l : Nat} {bs : List Nat},
    (l, bs) ∈ tbl → ((tbl.filter p).map (·.1)).count l = if p (l, bs) then 1 else 0
  | [], _, _, _, _, h => by simp at h
  | e :: rest, hnd, p, l, bs, h => by
    rw [List.map_cons, List.nodup_cons] at hnd
    have hrest : ∀ (q : Entry → Bool), l ∉ rest.map (·.1) → ((rest.filter q).map (·.1)).count l = 0 := by
      intro q hl
      rw [List.count_eq_zero]
      intro hm
      exact hl ((List.Sublist.map _ List.filter_sublist).subset hm)
    rcases List.mem_cons.mp h with h | h
    · subst h
      by_cases hp : p (l, bs) = true
      · simp [hp, hrest p hnd.1]
      · simp [hp, hrest p hnd.1]
    · have hne : e.1 ≠ l := by
        intro heq; apply hnd.1; rw [heq]; exact List.mem_map.mpr ⟨_, h, rfl⟩
      have ih := count_filter_map_fst hnd.2 p h
      by_cases hp : p e = true
      · simp only [List.filter_cons, hp, if_true, List.map_cons, List.count_cons]
        rw [ih]; simp [hne]
      · simp only [List.filter_cons, hp, Bool.false_eq_true, if_false]
        exact ih

/-! ### dedupKeys -/

theorem mem_dedupKeys : ∀ {ks : List (List Nat)} {x : List Nat}, x ∈ dedupKeys ks ↔ x ∈ ks
  | [], x => by simp [dedupKeys]
  | k :: ks, x => by
    simp only [dedupKeys, List.mem_cons, List.mem_filter, mem_dedupKeys (ks := ks)]
    by_cases h : x = k
    · simp [h]
    · simp [h]

theorem nodup_dedupKeys : ∀ (ks : List (List Nat)), (dedupKeys ks).Nodup
  | [] => by simp [dedupKeys]
  | k :: ks => by
    simp only [dedupKeys, List.nodup_cons]
    refine ⟨?_, (nodup_dedupKeys ks).sublist List.filter_sublist⟩
    simp [List.mem_filter]

/-! ### table-level soundness -/

/-- every table label is listed once; a cohort's blocks contain the blocks of each of its labels; only table labels are listed -/
def TblSound (tbl : List Entry) (cs : List Cohort) : Prop :=
  (∀ e ∈ tbl, occurrences cs e.1 = 1) ∧
  (∀ c ∈ cs, ∀ l ∈ c.2, ∀ bs, (l, bs) ∈ tbl → ∀ b ∈ bs, b ∈ c.1) ∧
  (∀ c ∈ cs, ∀ l ∈ c.2, l ∈ tbl.map (·.1)) ∧
  (∀ c ∈ cs, ∀ b ∈ c.1, ∃ l ∈ c.2, ∃ bs, (l, bs) ∈ tbl ∧ b ∈ bs) ∧
  (∀ c ∈ cs, c.2.Pairwise (· < ·))

theorem exactCohorts_sound {tbl : List Entry} (hasc : (tbl.map (·.1)).Pairwise (· < ·)) : TblSound tbl (exactCohorts tbl) := by
  have hnd : (tbl.map (·.1)).Nodup := hasc.imp Nat.ne_of_lt
  refine ⟨?_, ?_, ?_, ?_, ?_⟩
  rotate_right
  · intro c hc
    simp only [exactCohorts, List.mem_map] at hc
    obtain ⟨k, _, rfl⟩ := hc
    exact List.Pairwise.sublist (List.Sublist.map _ List.filter_sublist) hasc
  · rintro ⟨l, bs⟩ he
    simp only [occurrences, exactCohorts, List.flatMap_map]
    rw [count_flatMap_nodup (fun k => (tbl.filter (·.2 == k)).map (·.1)) l bs ?_ _ (nodup_dedupKeys _)]
    · have : bs ∈ dedupKeys (tbl.map (·.2)) := mem_dedupKeys.mpr (List.mem_map.mpr ⟨_, he, rfl⟩)
      simp [this]
    · intro k
      rw [count_filter_map_fst hnd _ he]
      simp
  · intro c hc l hl bs hbs b hb
    simp only [exactCohorts, List.mem_map] at hc
    obtain ⟨k, _, rfl⟩ := hc
    simp only [List.mem_map, List.mem_filter] at hl
    obtain ⟨⟨l', bs'⟩, ⟨hmem, hk⟩, rfl⟩ := hl
    have : bs' = bs := entry_unique hnd hmem hbs
    subst this
    have hk' : bs' = k := by simpa using hk
    simpa [hk'] using hb
  · intro c hc l hl
    simp only [exactCohorts, List.mem_map] at hc
    obtain ⟨k, _, rfl⟩ := hc
    exact (List.Sublist.map _ List.filter_sublist).subset hl
  · intro c hc b hb
    simp only [exactCohorts, List.mem_map] at hc
    obtain ⟨k, hk, rfl⟩ := hc
    obtain ⟨e, he, hek⟩ := List.mem_map.mp (mem_dedupKeys.mp hk)
    refine ⟨e.1, ?_, e.2, he, ?_⟩
    · exact List.mem_map.mpr ⟨e, List.mem_filter.mpr ⟨he, by simp [hek]⟩, rfl⟩
    · simp only at hb; rw [hek]; exact hb

/-! ### the merge loop -/

theorem mem_unionBlocks {tbl : List Entry} {nchunks : Nat} {ls : List Nat} {b : Nat} :
    b ∈ unionBlocks tbl nchunks ls ↔ b < nchunks ∧ ∃ l ∈ ls, ∃ bs, (l, bs) ∈ tbl ∧ b ∈ bs := by
  simp only [unionBlocks, holdsTbl, List.mem_filter, List.mem_range, List.any_eq_true, Bool.and_eq_true, beq_iff_eq,
    List.contains_iff_mem]
  constructor
  · rintro ⟨hb, l, hl, ⟨l', bs⟩, he, rfl, hbs⟩
    exact ⟨hb, l', hl, bs, he, hbs⟩
  · rintro ⟨hb, l, hl, bs, he, hbs⟩
    exact ⟨hb, l, hl, (l, bs), he, rfl, hbs⟩

theorem mem_unionBlocks_append {tbl : List Entry} {nchunks : Nat} {a v : List Nat} {b : Nat} :
    b ∈ unionBlocks tbl nchunks (a ++ v) ↔ b ∈ unionBlocks tbl nchunks a ∨ b ∈ unionBlocks tbl nchunks v := by
  simp only [mem_unionBlocks, List.mem_append]
  constructor
  · rintro ⟨hb, l, hl | hl, h⟩
    · exact Or.inl ⟨hb, l, hl, h⟩
    · exact Or.inr ⟨hb, l, hl, h⟩
  · rintro (⟨hb, l, hl, h⟩ | ⟨hb, l, hl, h⟩)
    · exact ⟨hb, l, Or.inl hl, h⟩
    · exact ⟨hb, l, Or.inr hl, h⟩

theorem mem_unionBlocks_sort {tbl : List Entry} {nchunks : Nat} {l : List Nat} {b : Nat} :
    b ∈ unionBlocks tbl nchunks (sortLabels l) ↔ b ∈ unionBlocks tbl nchunks l := by
  simp only [mem_unionBlocks, mem_sortLabels]

theorem dictInsert_labels : ∀ {d : List Cohort} {k v : List Nat} {x : Nat},
    x ∈ (dictInsert d k v).flatMap (·.2) → x ∈ d.flatMap (·.2) ∨ x ∈ v
  | [], k, v, x, h => by simp [dictInsert] at h; exact Or.inr h
  | c0 :: d, k, v, x, h => by
    simp only [dictInsert] at h
    split at h
    · simp only [List.flatMap_cons, List.mem_append, mem_sortLabels] at h ⊢
      rcases h with (h | h) | h
      · exact Or.inl (Or.inl h)
      · exact Or.inr h
      · exact Or.inl (Or.inr h)
    · simp only [List.flatMap_cons, List.mem_append] at h ⊢
      rcases h with h | h
      · exact Or.inl (Or.inl h)
      · rcases dictInsert_labels h with h | h
        · exact Or.inl (Or.inr h)
        · exact Or.inr h

theorem dictInsert_length : ∀ (d : List Cohort) (k v : List Nat),
    ((dictInsert d k v).flatMap (·.2)).length = (d.flatMap (·.2)).length + v.length
  | [], k, v => by simp [dictInsert]
  | c0 :: d, k, v => by
    simp only [dictInsert]
    split
    · simp only [List.flatMap_cons, List.length_append, (sortLabels_perm _).length_eq]; omega
    · simp only [List.flatMap_cons, List.length_append, dictInsert_length d k v]; omega

theorem dictInsert_nodup : ∀ {d : List Cohort} {k v : List Nat}, (d.flatMap (·.2)).Nodup → v.Nodup →
    (∀ x ∈ v, x ∉ d.flatMap (·.2)) → ((dictInsert d k v).flatMap (·.2)).Nodup
  | [], k, v, _, hv, _ => by simpa [dictInsert] using hv
  | c0 :: d, k, v, hd, hv, hdisj => by
    simp only [dictInsert]
    rw [List.flatMap_cons, List.nodup_append] at hd
    have hdisj' : ∀ x ∈ v, x ∉ d.flatMap (·.2) := by
      intro x hx hm
      exact hdisj x hx (by rw [List.flatMap_cons]; exact List.mem_append_right _ hm)
    have hdisj0 : ∀ x ∈ v, x ∉ c0.2 := by
      intro x hx hm
      exact hdisj x hx (by rw [List.flatMap_cons]; exact List.mem_append_left _ hm)
    split
    · -- the key exists: the cohort is extended
      rw [List.flatMap_cons, List.nodup_append]
      refine ⟨(sortLabels_perm _).nodup_iff.mpr
        (List.nodup_append.mpr ⟨hd.1, hv, fun a ha b hb hab => hdisj0 b hb (hab ▸ ha)⟩), hd.2.1, ?_⟩
      intro a ha b hb hab
      rcases List.mem_append.mp (mem_sortLabels.mp ha) with ha | ha
      · exact hd.2.2 a ha b hb hab
      · exact hdisj' a ha (hab ▸ hb)
    · rw [List.flatMap_cons, List.nodup_append]
      refine ⟨hd.1, dictInsert_nodup hd.2.1 hv hdisj', ?_⟩
      intro a ha b hb hab
      rcases dictInsert_labels hb with hb | hb
      · exact hd.2.2 a ha b hb hab
      · exact hdisj0 b hb (hab ▸ ha)

theorem dictInsert_asc : ∀ {d : List Cohort} {k v : List Nat}, (∀ c ∈ d, c.2.Pairwise (· < ·)) → v.Pairwise (· < ·) →
    (d.flatMap (·.2)).Nodup → v.Nodup → (∀ x ∈ v, x ∉ d.flatMap (·.2)) → ∀ c ∈ dictInsert d k v, c.2.Pairwise (· < ·)
  | [], k, v, _, hv, _, _, _, c, hc => by simp [dictInsert] at hc; subst hc; exact hv
  | c0 :: d, k, v, hd, hv, hnd, hvn, hdisj, c, hc => by
    simp only [dictInsert] at hc
    rw [List.flatMap_cons, List.nodup_append] at hnd
    split at hc
    · rcases List.mem_cons.mp hc with hc | hc
      · subst hc
        apply sortLabels_asc
        refine List.nodup_append.mpr ⟨hnd.1, hvn, fun a ha b hb hab => ?_⟩
        exact hdisj b hb (by rw [List.flatMap_cons]; exact List.mem_append_left _ (hab ▸ ha))
      · exact hd c (List.mem_cons_of_mem _ hc)
    · rcases List.mem_cons.mp hc with hc | hc
      · exact hc ▸ hd c0 List.mem_cons_self
      · refine dictInsert_asc (fun c' hc' => hd c' (List.mem_cons_of_mem _ hc')) hv hnd.2.1 hvn ?_ c hc
        intro x hx hm
        exact hdisj x hx (by rw [List.flatMap_cons]; exact List.mem_append_right _ hm)

/-- a dict entry's key lists exactly the blocks of its labels -/
def KeyOK (tbl : List Entry) (nchunks : Nat) (c : Cohort) : Prop :=
  ∀ b, b ∈ c.1 ↔ b ∈ unionBlocks tbl nchunks c.2

theorem dictInsert_key {tbl : List Entry} {nchunks : Nat} : ∀ {d : List Cohort} {k v : List Nat},
    (∀ c ∈ d, KeyOK tbl nchunks c) → k = unionBlocks tbl nchunks v → ∀ c ∈ dictInsert d k v, KeyOK tbl nchunks c
  | [], k, v, _, hk, c, hc => by
    simp [dictInsert] at hc; subst hc; intro b; simp only; rw [hk]
  | c0 :: d, k, v, hd, hk, c, hc => by
    simp only [dictInsert] at hc
    split at hc
    · rename_i heq
      have heq : c0.1 = k := by simpa using heq
      rcases List.mem_cons.mp hc with hc | hc
      · subst hc
        intro b
        simp only
        rw [mem_unionBlocks_sort, mem_unionBlocks_append, ← hd c0 List.mem_cons_self b, heq, ← hk]
        simp
      · exact hd c (List.mem_cons_of_mem _ hc)
    · rcases List.mem_cons.mp hc with hc | hc
      · exact hc ▸ hd c0 List.mem_cons_self
      · exact dictInsert_key (fun c' hc' => hd c' (List.mem_cons_of_mem _ hc')) hk c hc

structure LoopInv (tbl : List Entry) (nchunks : Nat) (s : MState) : Prop where
  nodup : (s.dict.flatMap (·.2)).Nodup
  sub : ∀ x ∈ s.dict.flatMap (·.2), x ∈ s.mergedKeys
  lab : ∀ x ∈ s.mergedKeys, x ∈ tbl.map (·.1)
  key : ∀ c ∈ s.dict, KeyOK tbl nchunks c
  knodup : s.mergedKeys.Nodup
  len : s.mergedKeys.length = (s.dict.flatMap (·.2)).length
  asc : ∀ c ∈ s.dict, c.2.Pairwise (· < ·)

theorem mergeStep_inv {tbl : List Entry} {nchunks : Nat} {s : MState} {r : Nat × List Nat}
    (hs : LoopInv tbl nchunks s) (hrasc : r.2.Pairwise (· < ·)) (hsub : ∀ x ∈ r.2, x ∈ tbl.map (·.1)) :
    LoopInv tbl nchunks (mergeStep tbl nchunks s r) := by
  have hnd : r.2.Nodup := hrasc.imp Nat.ne_of_lt
  unfold mergeStep
  split
  · exact hs
  · dsimp only
    split
    · exact hs
    · have hcnd : (r.2.filter fun j => !s.mergedKeys.contains j).Nodup := hnd.sublist List.filter_sublist
      have hfresh : ∀ x ∈ r.2.filter (fun j => !s.mergedKeys.contains j), x ∉ s.mergedKeys := by
        intro x hx
        simpa using (List.mem_filter.mp hx).2
      refine ⟨?_, ?_, ?_, ?_, ?_, ?_, ?_⟩
      rotate_right
      · exact dictInsert_asc hs.asc (List.Pairwise.sublist List.filter_sublist hrasc) hs.nodup hcnd
          (fun x hx hm => hfresh x hx (hs.sub x hm))
      · exact dictInsert_nodup hs.nodup hcnd (fun x hx hm => hfresh x hx (hs.sub x hm))
      · intro x hx
        rcases dictInsert_labels hx with hx | hx
        · exact List.mem_append_left _ (hs.sub x hx)
        · exact List.mem_append_right _ hx
      · intro x hx
        rcases List.mem_append.mp hx with hx | hx
        · exact hs.lab x hx
        · exact hsub x (List.mem_filter.mp hx).1
      · exact dictInsert_key hs.key rfl
      · exact List.nodup_append.mpr ⟨hs.knodup, hcnd, fun a ha b hb hab => hfresh b hb (hab ▸ ha)⟩
      · rw [List.length_append, dictInsert_length, hs.len]

theorem foldl_inv {tbl : List Entry} {nchunks : Nat} : ∀ (rs : List (Nat × List Nat)) (s : MState),
    LoopInv tbl nchunks s → (∀ r ∈ rs, r.2.Pairwise (· < ·) ∧ ∀ x ∈ r.2, x ∈ tbl.map (·.1)) →
    LoopInv tbl nchunks (rs.foldl (mergeStep tbl nchunks) s)
  | [], s, hs, _ => hs
  | r :: rs, s, hs, hr => by
    rw [List.foldl_cons]
    apply foldl_inv rs _ (mergeStep_inv hs (hr r List.mem_cons_self).1 (hr r List.mem_cons_self).2)
    intro r' hr'
    exact hr r' (List.mem_cons_of_mem _ hr')

theorem row_sublist (T : Thresholds) (tbl : List Entry) (e : Entry) : List.Sublist (row T tbl e) (tbl.map (·.1)) := by
  unfold row
  split
  · exact List.Sublist.map _ List.filter_sublist
  · exact List.nil_sublist _

theorem mem_visitOrder {T : Thresholds} {tbl : List Entry} {r : Nat × List Nat} (h : r ∈ visitOrder T tbl) :
    ∃ e ∈ tbl, r = (e.1, row T tbl e) := by
  simp only [visitOrder, List.mem_filter, List.mem_reverse, mem_stableSort, List.mem_map] at h
  obtain ⟨⟨e, he, rfl⟩, _⟩ := h
  exact ⟨e, he, rfl⟩

theorem mergeLoop_inv (T : Thresholds) {tbl : List Entry} (hasc : (tbl.map (·.1)).Pairwise (· < ·)) (nchunks : Nat) :
    LoopInv tbl nchunks (mergeLoop T tbl nchunks) := by
  unfold mergeLoop
  apply foldl_inv
  · exact ⟨by simp, by simp, by simp, by simp, by simp, by simp, by simp⟩
  · intro r hr
    obtain ⟨e, _, rfl⟩ := mem_visitOrder hr
    exact ⟨List.Pairwise.sublist (row_sublist T tbl e) hasc, fun x hx => (row_sublist T tbl e).subset hx⟩

theorem sortByFirst_perm (d : List Cohort) : (sortByFirst d).Perm d := stableSort_perm _ _

/-- what the two `assert`s leave through: the merged cohorts are sound -/
theorem merged_sound (T : Thresholds) {tbl : List Entry} (hasc : (tbl.map (·.1)).Pairwise (· < ·)) {nchunks : Nat}
    (hlt : ∀ e ∈ tbl, ∀ b ∈ e.2, b < nchunks)
    (hassert : tbl.length = totalLabels (mergeLoop T tbl nchunks).dict) :
    TblSound tbl (sortByFirst (mergeLoop T tbl nchunks).dict) := by
  have hnd : (tbl.map (·.1)).Nodup := hasc.imp Nat.ne_of_lt
  have inv := mergeLoop_inv T hasc nchunks
  generalize mergeLoop T tbl nchunks = s at inv hassert
  have hperm := sortByFirst_perm s.dict
  have hFsub : s.dict.flatMap (·.2) ⊆ tbl.map (·.1) := fun x hx => inv.lab x (inv.sub x hx)
  have hall : tbl.map (·.1) ⊆ s.dict.flatMap (·.2) := by
    apply subset_of_nodup_subset_length inv.nodup hFsub
    simp only [totalLabels] at hassert
    simp [hassert]
  refine ⟨?_, ?_, ?_, ?_, fun c hc => inv.asc c (hperm.mem_iff.mp hc)⟩
  · intro e he
    simp only [occurrences]
    rw [(hperm.flatMap_right (·.2)).count_eq, inv.nodup.count]
    simp [hall (List.mem_map.mpr ⟨e, he, rfl⟩)]
  · intro c hc l hl bs hbs b hb
    have hc' : c ∈ s.dict := hperm.mem_iff.mp hc
    rw [inv.key c hc' b, mem_unionBlocks]
    exact ⟨hlt _ hbs b hb, l, hl, bs, hbs, hb⟩
  · intro c hc l hl
    have hc' : c ∈ s.dict := hperm.mem_iff.mp hc
    exact hFsub (List.mem_flatMap.mpr ⟨c, hc', hl⟩)
  · intro c hc b hb
    have hc' : c ∈ s.dict := hperm.mem_iff.mp hc
    rw [inv.key c hc' b, mem_unionBlocks] at hb
    exact hb.2

/-! ### the planner on a table -/

theorem plan_sound (T : Thresholds) (nchunks : Nat) (single merge : Bool) {tbl : List Entry}
    (hnd : (tbl.map (·.1)).Pairwise (· < ·)) (hlt : ∀ e ∈ tbl, ∀ b ∈ e.2, b < nchunks) {m : Method} {cs : List Cohort}
    (h : plan T nchunks single merge tbl = .ok m cs) :
    TblSound tbl cs ∨ (m = .mapreduce ∧ cs = [] ∧ merge = false) := by
  unfold plan at h
  simp only at h
  split at h
  · injection h with _ h2; subst h2; exact Or.inl (exactCohorts_sound hnd)
  · split at h
    · injection h with h1 h2
      cases merge
      · right; simp at h2; exact ⟨h1.symm, h2, rfl⟩
      · left; simp at h2; subst h2; exact exactCohorts_sound hnd
    · split at h
      · injection h with _ h2; subst h2; exact Or.inl (exactCohorts_sound hnd)
      · split at h
        · injection h with h1 h2
          right
          rename_i hd
          simp at hd
          exact ⟨h1.symm, h2.symm, hd.2⟩
        · split at h
          · exact absurd h (by simp)
          · split at h
            · exact absurd h (by simp)
            · rename_i ha
              injection h with _ h2
              subst h2
              left
              exact merged_sound T hnd hlt (by simpa using ha)

theorem plan_blockwise (T : Thresholds) (nchunks : Nat) (single merge : Bool) {tbl : List Entry} {cs : List Cohort}
    (h : plan T nchunks single merge tbl = .ok .blockwise cs) : ∀ e ∈ tbl, e.2.length = 1 := by
  unfold plan at h
  simp only at h
  split at h
  · rename_i hall
    intro e he
    simpa using (List.all_eq_true.mp hall) e he
  · split at h
    · injection h with h1 _; cases h1
    · split at h
      · injection h with h1 _; cases h1
      · split at h
        · injection h with h1 _; cases h1
        · split at h
          · exact absurd h (by simp)
          · split at h
            · exact absurd h (by simp)
            · injection h with h1 _
              split at h1 <;> cases h1

/-! ### array level -/

/-- every element lies in a block of the grid -/
def WellFormed (elems : List Elem) (nchunks : Nat) : Prop := ∀ e ∈ elems, e.2 < nchunks

theorem tblSound_cohortsSound {elems : List Elem} {nchunks nlabels : Nat} {cs : List Cohort}
    (hwf : WellFormed elems nchunks) (h : TblSound (tblOf elems nchunks nlabels) cs) : CohortsSound elems nlabels cs := by
  obtain ⟨h1, h2, h3, _, _⟩ := h
  have hentry : ∀ l, l < nlabels → ∀ e ∈ elems, e.1 = (l : Int) →
      (l, blocksOf elems nchunks l) ∈ tblOf elems nchunks nlabels ∧ e.2 ∈ blocksOf elems nchunks l := by
    intro l hl e he hel
    have hb : e.2 ∈ blocksOf elems nchunks l := by
      rw [mem_blocksOf]; refine ⟨hwf e he, ?_⟩
      rw [← hel]; exact he
    refine ⟨mem_tblOf.mpr ⟨hl, rfl, ?_⟩, hb⟩
    intro hnil; simp only at hnil; rw [hnil] at hb; simp at hb
  constructor
  · rintro l hl ⟨e, he, hel⟩
    exact h1 _ (hentry l hl e he hel).1
  · intro c hc l hlc e he hel
    have hl : l < nlabels := by
      obtain ⟨e', he', hl'⟩ := List.mem_map.mp (h3 c hc l hlc)
      rw [← hl']; exact (mem_tblOf.mp he').1
    obtain ⟨ht, hb⟩ := hentry l hl e he hel
    exact h2 c hc l hlc _ ht _ hb

theorem find_sound (T : Thresholds) {elems : List Elem} {nchunks nlabels : Nat} {single merge : Bool} {m : Method}
    {cs : List Cohort} (hwf : WellFormed elems nchunks) (h : find T elems nchunks nlabels single merge = .ok m cs) :
    CohortsSound elems nlabels cs ∨ (m = .mapreduce ∧ cs = [] ∧ merge = false) := by
  unfold find at h
  split at h
  · rename_i h1
    have h1 : nchunks = 1 := by simpa using h1
    injection h with _ h2
    subst h2
    left
    constructor
    · rintro l hl -
      simp only [occurrences, List.flatMap_cons, List.flatMap_nil, List.append_nil]
      rw [List.nodup_range.count]; simp [hl]
    · intro c hc l _ e he _
      have : e.2 < 1 := h1 ▸ hwf e he
      simp only [List.mem_singleton] at hc
      subst hc
      simp; omega
  · rcases plan_sound T nchunks single merge (tblOf_asc elems nchunks nlabels)
      (fun e he => tblOf_blocks_lt he) h with hs | hs
    · exact Or.inl (tblSound_cohortsSound hwf hs)
    · exact Or.inr hs

theorem find_blockwise_confined (T : Thresholds) {elems : List Elem} {nchunks nlabels : Nat} {single merge : Bool}
    {cs : List Cohort} (hwf : WellFormed elems nchunks)
    (h : find T elems nchunks nlabels single merge = .ok .blockwise cs) : Confined elems nlabels := by
  intro l hl e he e' he' hel hel'
  unfold find at h
  split at h
  · rename_i h1
    have h1 : nchunks = 1 := by simpa using h1
    have := hwf e he; have := hwf e' he'
    omega
  · have hb : ∀ x ∈ elems, x.1 = (l : Int) → x.2 ∈ blocksOf elems nchunks l := by
      intro x hx hxl
      rw [mem_blocksOf]; refine ⟨hwf x hx, ?_⟩
      rw [← hxl]; exact hx
    have hmem : (l, blocksOf elems nchunks l) ∈ tblOf elems nchunks nlabels := by
      refine mem_tblOf.mpr ⟨hl, rfl, ?_⟩
      intro hnil; have := hb e he hel; simp only at hnil; rw [hnil] at this; simp at this
    have hlen := plan_blockwise T nchunks single merge h _ hmem
    simp only at hlen
    have h1 := hb e he hel
    have h2 := hb e' he' hel'
    match hbl : blocksOf elems nchunks l, hlen with
    | [x], _ =>
      rw [hbl] at h1 h2
      simp at h1 h2
      rw [h1, h2]

/-- beyond the single-chunk shortcut the blocks of a cohort are exactly the union of its labels' blocks (no foreign block),
    and only present labels are listed -/
theorem find_blocks_exact (T : Thresholds) {elems : List Elem} {nchunks nlabels : Nat} {single merge : Bool} {m : Method}
    {cs : List Cohort} (hne : nchunks ≠ 1) (h : find T elems nchunks nlabels single merge = .ok m cs) :
    ∀ c ∈ cs, (∀ b ∈ c.1, ∃ l ∈ c.2, ((l : Int), b) ∈ elems) ∧ (∀ l ∈ c.2, l < nlabels ∧ ∃ e ∈ elems, e.1 = (l : Int)) := by
  unfold find at h
  split at h
  · rename_i h1; exact absurd (by simpa using h1) hne
  · rcases plan_sound T nchunks single merge (tblOf_asc elems nchunks nlabels)
      (fun e he => tblOf_blocks_lt he) h with hs | hs
    · obtain ⟨_, _, h3, h4, _⟩ := hs
      intro c hc
      constructor
      · intro b hb
        obtain ⟨l, hl, bs, hbs, hbb⟩ := h4 c hc b hb
        refine ⟨l, hl, ?_⟩
        have := (mem_tblOf.mp hbs).2.1
        simp only at this
        rw [this] at hbb
        exact (mem_blocksOf.mp hbb).2
      · intro l hl
        obtain ⟨e', he', hl'⟩ := List.mem_map.mp (h3 c hc l hl)
        obtain ⟨h1, h2, h3'⟩ := mem_tblOf.mp he'
        subst hl'
        refine ⟨h1, ?_⟩
        match hb : e'.2, h3' with
        | b :: _, _ =>
          have hb' : b ∈ blocksOf elems nchunks e'.1 := by rw [← h2, hb]; exact List.mem_cons_self
          exact ⟨_, (mem_blocksOf.mp hb').2, rfl⟩
    · intro c hc; rw [hs.2.1] at hc; simp at hc

/-- members counted once: an element with a present label is picked up by exactly one (cohort, label) slot whose
    blocks include the element's block -/
theorem counted_once {elems : List Elem} {nlabels : Nat} {cs : List Cohort} (h : CohortsSound elems nlabels cs)
    {l b : Nat} (hl : l < nlabels) (he : ((l : Int), b) ∈ elems) :
    (cs.flatMap fun c => if b ∈ c.1 then c.2.filter (· == l) else []).length = 1 := by
  have hocc := h.1 l hl ⟨_, he, rfl⟩
  have hcov : ∀ c ∈ cs, l ∈ c.2 → b ∈ c.1 := fun c hc hlc => h.2 c hc l hlc _ he rfl
  rw [← hocc]
  simp only [occurrences]
  clear hocc h
  induction cs with
  | nil => simp
  | cons c cs ih =>
    rw [List.flatMap_cons, List.flatMap_cons, List.length_append, List.count_append,
      ih (fun c' hc' => hcov c' (List.mem_cons_of_mem _ hc'))]
    congr 1
    by_cases hlc : l ∈ c.2
    · rw [if_pos (hcov c List.mem_cons_self hlc), List.count, List.countP_eq_length_filter]
    · rw [List.count_eq_zero.mpr hlc]
      split
      · rw [List.length_eq_zero_iff, List.filter_eq_nil_iff]
        intro x hx hxl
        have : x = l := by simpa using hxl
        exact hlc (this ▸ hx)
      · rfl

/-- every returned cohort lists its labels in strictly ascending order (what `dask_groupby_agg` relies on: the per-cohort
    aggregate re-sorts the labels while the declared group order is the cohort's list) -/
theorem find_labels_ascending (T : Thresholds) {elems : List Elem} {nchunks nlabels : Nat} {single merge : Bool} {m : Method}
    {cs : List Cohort} (h : find T elems nchunks nlabels single merge = .ok m cs) : ∀ c ∈ cs, c.2.Pairwise (· < ·) := by
  unfold find at h
  split at h
  · injection h with _ h2
    subst h2
    intro c hc
    simp only [List.mem_singleton] at hc
    subst hc
    exact List.pairwise_lt_range
  · rcases plan_sound T nchunks single merge (tblOf_asc elems nchunks nlabels)
      (fun e he => tblOf_blocks_lt he) h with hs | hs
    · exact hs.2.2.2.2
    · intro c hc; rw [hs.2.1] at hc; simp at hc

/-! ### geometry: every element of the array lies in a block of the grid -/

theorem mem_axisIds {cs : List Nat} {a : Nat} (h : a ∈ axisIds cs) : a < cs.length := by
  simp only [axisIds, List.mem_flatMap] at h
  obtain ⟨⟨c, i⟩, hci, ha⟩ := h
  have := List.mem_zipIdx hci
  simp only [List.mem_replicate] at ha
  omega

theorem blockIds_lt : ∀ (chunks : List (List Nat)), ∀ b ∈ blockIds chunks, b < nChunks chunks
  | [], b, hb => by simp [blockIds] at hb; simp [nChunks, hb]
  | cs :: rest, b, hb => by
    simp only [blockIds, List.mem_flatMap, List.mem_map] at hb
    obtain ⟨a, ha, b', hb', rfl⟩ := hb
    have h1 := mem_axisIds ha
    have h2 := blockIds_lt rest b' hb'
    simp only [nChunks, List.map_cons, List.foldr_cons] at h2 ⊢
    calc a * _ + b' < a * _ + _ := Nat.add_lt_add_left h2 _
      _ = (a + 1) * _ := by rw [Nat.add_mul, Nat.one_mul]
      _ ≤ cs.length * _ := Nat.mul_le_mul_right _ h1

theorem wellFormed_zip (codes : List Int) (chunks : List (List Nat)) :
    WellFormed (codes.zip (blockIds chunks)) (nChunks chunks) := by
  intro e he
  exact blockIds_lt chunks e.2 (List.of_mem_zip he).2

/-! ### the two `assert`s never fire -/

/-! every label gets merged: members of one exact cohort enter `merged_keys` together -/

theorem find_first {tbl : List Entry} {e : Entry} (he : e ∈ tbl) :
    ∃ f ∈ tbl, f.2 = e.2 ∧ isFirst tbl f = true := by
  cases hf : tbl.find? (·.2 == e.2) with
  | none =>
    rw [List.find?_eq_none] at hf
    exact absurd (by simp) (hf e he)
  | some f =>
    have h1 : f ∈ tbl := List.mem_of_find?_eq_some hf
    have h2 : f.2 = e.2 := by simpa using List.find?_some hf
    refine ⟨f, h1, h2, ?_⟩
    unfold isFirst
    rw [h2, hf]
    simp

theorem mem_filter_map_fst {tbl : List Entry} (hnd : (tbl.map (·.1)).Nodup) (p : Entry → Bool) {j : Entry} (hj : j ∈ tbl) :
    j.1 ∈ (tbl.filter p).map (·.1) ↔ p j = true := by
  constructor
  · intro h
    obtain ⟨j', hj', h1⟩ := List.mem_map.mp h
    obtain ⟨hm, hp⟩ := List.mem_filter.mp hj'
    have : j'.2 = j.2 := entry_unique hnd (l := j.1) (by rw [← h1]; exact hm) hj
    have : j' = j := Prod.ext h1 this
    rw [← this]; exact hp
  · intro hp
    exact List.mem_map.mpr ⟨j, List.mem_filter.mpr ⟨hj, hp⟩, rfl⟩

theorem row_mate (T : Thresholds) {tbl : List Entry} (hnd : (tbl.map (·.1)).Nodup) (e : Entry) {j j' : Entry}
    (hj : j ∈ tbl) (hj' : j' ∈ tbl) (h : j.2 = j'.2) : j.1 ∈ row T tbl e ↔ j'.1 ∈ row T tbl e := by
  unfold row
  split
  · rw [mem_filter_map_fst hnd _ hj, mem_filter_map_fst hnd _ hj', h]
  · simp

theorem interCount_self (a : List Nat) : interCount a a = a.length := by
  unfold interCount
  rw [List.filter_eq_self.mpr]
  intro x hx
  simpa using hx

theorem self_mem_row (T : Thresholds) (hclose : ∀ n, 0 < n → T.close n n = true) {tbl : List Entry}
    (hnd : (tbl.map (·.1)).Nodup) {f : Entry} (hf : f ∈ tbl) (hne : f.2 ≠ []) (hfirst : isFirst tbl f = true) :
    f.1 ∈ row T tbl f := by
  unfold row
  rw [if_pos hfirst, mem_filter_map_fst hnd _ hf, interCount_self]
  have : 0 < f.2.length := List.length_pos_iff.mpr hne
  simp [this, hclose _ this]

def Mate (tbl : List Entry) (K : List Nat) : Prop :=
  ∀ j ∈ tbl, ∀ j' ∈ tbl, j.2 = j'.2 → (j.1 ∈ K ↔ j'.1 ∈ K)

theorem mergeStep_keys (T : Thresholds) {tbl : List Entry} (hnd : (tbl.map (·.1)).Nodup) (nchunks : Nat) (s : MState)
    (e : Entry) (hm : Mate tbl s.mergedKeys) :
    let s' := mergeStep tbl nchunks s (e.1, row T tbl e)
    Mate tbl s'.mergedKeys ∧ (∀ x ∈ s.mergedKeys, x ∈ s'.mergedKeys) ∧ (e.1 ∈ row T tbl e → e.1 ∈ s'.mergedKeys) := by
  intro s'
  show Mate tbl (mergeStep tbl nchunks s (e.1, row T tbl e)).mergedKeys ∧
    (∀ x ∈ s.mergedKeys, x ∈ (mergeStep tbl nchunks s (e.1, row T tbl e)).mergedKeys) ∧
    (e.1 ∈ row T tbl e → e.1 ∈ (mergeStep tbl nchunks s (e.1, row T tbl e)).mergedKeys)
  unfold mergeStep
  split
  · rename_i h1
    exact ⟨hm, fun x hx => hx, fun _ => by simpa using h1⟩
  · rename_i h1
    dsimp only
    split
    · rename_i h2
      refine ⟨hm, fun x hx => hx, fun hself => ?_⟩
      exfalso
      have : e.1 ∈ (row T tbl e).filter fun j => !s.mergedKeys.contains j :=
        List.mem_filter.mpr ⟨hself, by simpa using h1⟩
      rw [List.isEmpty_iff.mp h2] at this
      simp at this
    · refine ⟨?_, fun x hx => List.mem_append_left _ hx, fun hself => ?_⟩
      · intro j hj j' hj' hjj'
        simp only [List.mem_append, List.mem_filter, Bool.not_eq_true', List.contains_eq_mem, decide_eq_false_iff_not]
        rw [hm j hj j' hj' hjj', row_mate T hnd e hj hj' hjj']
      · exact List.mem_append_right _ (List.mem_filter.mpr ⟨hself, by simpa using h1⟩)

theorem mergeFold_keys (T : Thresholds) {tbl : List Entry} (hnd : (tbl.map (·.1)).Nodup) (nchunks : Nat) :
    ∀ (es : List Entry) (s : MState), Mate tbl s.mergedKeys →
      let s' := (es.map fun e => (e.1, row T tbl e)).foldl (mergeStep tbl nchunks) s
      Mate tbl s'.mergedKeys ∧ (∀ x ∈ s.mergedKeys, x ∈ s'.mergedKeys) ∧
      (∀ e ∈ es, e.1 ∈ row T tbl e → e.1 ∈ s'.mergedKeys)
  | [], s, hm => ⟨hm, fun _ hx => hx, by simp⟩
  | e :: es, s, hm => by
    intro s'
    obtain ⟨h1, h2, h3⟩ := mergeStep_keys T hnd nchunks s e hm
    obtain ⟨i1, i2, i3⟩ := mergeFold_keys T hnd nchunks es _ h1
    refine ⟨i1, fun x hx => i2 x (h2 x hx), ?_⟩
    intro e' he' hself
    rcases List.mem_cons.mp he' with rfl | he'
    · exact i2 _ (h3 hself)
    · exact i3 e' he' hself

theorem visitOrder_eq_map (T : Thresholds) (tbl : List Entry) :
    ∃ es : List Entry, visitOrder T tbl = es.map (fun e => (e.1, row T tbl e)) ∧
      ∀ e ∈ tbl, 0 < (row T tbl e).length → e ∈ es := by
  -- sort the entries themselves with the same comparison
  let es := ((stableSort (fun a b => decide ((row T tbl a).length ≤ (row T tbl b).length)) tbl).reverse).filter
    fun e => decide (0 < (row T tbl e).length)
  refine ⟨es, ?_, ?_⟩
  · have hsort := map_stableSort (fun e : Entry => (e.1, row T tbl e))
        (fun a b => decide ((row T tbl a).length ≤ (row T tbl b).length))
        (fun a b => decide (a.2.length ≤ b.2.length)) (fun a b => rfl) tbl
    simp only [visitOrder, es]
    rw [← hsort, ← List.map_reverse, List.filter_map]
    rfl
  · intro e he hpos
    simp only [es, List.mem_filter, List.mem_reverse, mem_stableSort]
    exact ⟨he, by simpa using hpos⟩

theorem all_merged (T : Thresholds) (hclose : ∀ n, 0 < n → T.close n n = true) {tbl : List Entry}
    (hnd : (tbl.map (·.1)).Nodup) (hne : ∀ e ∈ tbl, e.2 ≠ []) (nchunks : Nat) :
    ∀ e ∈ tbl, e.1 ∈ (mergeLoop T tbl nchunks).mergedKeys := by
  intro e he
  obtain ⟨es, hes, hmem⟩ := visitOrder_eq_map T tbl
  have hfold := mergeFold_keys T hnd nchunks es { mergedKeys := [], dict := [] } (by intro j _ j' _ _; simp)
  unfold mergeLoop
  rw [hes]
  obtain ⟨hm, _, hall⟩ := hfold
  obtain ⟨f, hf, hfe, hfirst⟩ := find_first he
  have hself := self_mem_row T hclose hnd hf (hfe ▸ hne e he) hfirst
  have hfin := hall f (hmem f hf (List.length_pos_of_mem hself)) hself
  exact (hm f hf e he hfe).mp hfin

/-- neither `assert` fires (the threshold must accept full containment, as 0.75 does) -/
theorem plan_no_internalError (T : Thresholds) (hclose : ∀ n, 0 < n → T.close n n = true) (nchunks : Nat)
    (single merge : Bool) {tbl : List Entry} (hasc : (tbl.map (·.1)).Pairwise (· < ·)) (hne : ∀ e ∈ tbl, e.2 ≠ []) :
    ∀ w, plan T nchunks single merge tbl ≠ .internalError w := by
  have hnd : (tbl.map (·.1)).Nodup := hasc.imp Nat.ne_of_lt
  have inv := mergeLoop_inv T hasc nchunks
  have hkeys := inv.len
  have hall := all_merged T hclose hnd hne nchunks
  have hlen : tbl.length = (mergeLoop T tbl nchunks).mergedKeys.length := by
    have h1 := inv.knodup.length_le_of_subset (fun x hx => inv.lab x hx)
    have h2 := hnd.length_le_of_subset (l₂ := (mergeLoop T tbl nchunks).mergedKeys) (by
      intro x hx
      obtain ⟨e, he, rfl⟩ := List.mem_map.mp hx
      exact hall e he)
    simp only [List.length_map] at h1 h2
    omega
  intro w h
  unfold plan at h
  simp only at h
  split at h
  · cases h
  · split at h
    · cases h
    · split at h
      · cases h
      · split at h
        · cases h
        · split at h
          · rename_i ha
            simp only [totalLabels, ← hkeys] at ha
            simp at ha
          · split at h
            · rename_i ha
              simp only [totalLabels, ← hkeys] at ha
              simp [hlen] at ha
            · cases h

end Cohorts
end Flox
