/-
  Non-vacuity examples and necessity counterexamples for `blockwise_eq_spec` (all by `decide +kernel`).
-/
import FloxProofs.BlockwiseFlox
import FloxProofs.EndToEndExamples

namespace Flox
namespace BWEx

open BW E2E

instance (R : Resolved) (ms : List Val) : Decidable (Unmasked R ms) := by unfold Unmasked; infer_instance
instance (R : Resolved) (segs : Segs) : Decidable (HDropped R segs) := by unfold HDropped; infer_instance
instance (R : Resolved) (codes : List Int) (n : Nat) : Decidable (HSomeLabel R codes n) := by
  unfold HSomeLabel; infer_instance

def mk (R : Resolved) (eng : Eng) (sort : Bool) (n : Nat) : Call :=
  { R := R, eng := eng, sort := sort, ngroups := n, knownLabels := true, fillArg := R.userFill, splitEvery := 2 }

/-! ### non-vacuity -/

-- three blocks; labels 0 | 2 | 3 each within one block, label 1 absent, dropped elements in two blocks,
-- group 3 all-NaN
def codesA : List Int := [0, -1, 0, 2, 2, 3, -1, 3]
def valsA : List Val := [.fin 1, .fin 9, .fin 3, .nan, .fin 5, .nan, .fin 2, .nan]
def chunksA : List Nat := [3, 2, 3]

/-- `blockwise_eq_spec` applies to `nanmean`, `min_count=1`, `fill_value=-1`, `sort=True` -/
example : runKnown (mk Rnanmean .npg true 4) (.blockwise false) true chunksA (codeKeys codesA) valsA
    = specResult .nanmean Rnanmean codesA valsA 4 :=
  blockwise_eq_spec Rnanmean (.mean true) (mk Rnanmean .npg true 4) 4 true chunksA codesA valsA rfl rfl rfl rfl
    (by decide +kernel) (by decide +kernel) rfl rfl (by decide) (by decide +kernel) rfl (by decide +kernel)
    (by decide +kernel) (by decide +kernel)

example : specResult .nanmean Rnanmean codesA valsA 4
    = .ok [Val.fin 2, Val.fin (-1), Val.fin 5, Val.fin (-1)] := by decide +kernel

-- (`List.mergeSort` is defined by well-founded recursion, so the kernel cannot evaluate the `sort=True` path with
-- two or more labels directly: the concrete value is obtained through the theorem)
example : runKnown (mk Rnanmean .npg true 4) (.blockwise false) true chunksA (codeKeys codesA) valsA
    = .ok [Val.fin 2, Val.fin (-1), Val.fin 5, Val.fin (-1)] := by
  rw [blockwise_eq_spec Rnanmean (.mean true) (mk Rnanmean .npg true 4) 4 true chunksA codesA valsA rfl rfl rfl rfl
    (by decide +kernel) (by decide +kernel) rfl rfl (by decide) (by decide +kernel) rfl (by decide +kernel)
    (by decide +kernel) (by decide +kernel)]
  decide +kernel

/-- the same call with `sort=False`, evaluated directly -/
example : runKnown (mk Rnanmean .npg false 4) (.blockwise false) true chunksA (codeKeys codesA) valsA
    = .ok [Val.fin 2, Val.fin (-1), Val.fin 5, Val.fin (-1)] := by decide +kernel

-- `sort=False`, labels in order of first appearance, no fill, no `min_count`: every requested label present
def codesB : List Int := [2, -1, 2, 0, 0, 3, -1, 1]
def valsB : List Val := [.fin 1, .fin 9, .fin 3, .nan, .fin 5, .nan, .fin 2, .fin 4]

/-- `blockwise_eq_spec` applies to `sum` without fill, `sort=False` (H_dropped and H_somelabel hold non-trivially:
    `userFill = none`) -/
example : runKnown (mk Rsum .npg false 4) (.blockwise false) true chunksA (codeKeys codesB) valsB
    = specResult .sum Rsum codesB valsB 4 :=
  blockwise_eq_spec Rsum (.simple .sum .sum Val.zero) (mk Rsum .npg false 4) 4 true chunksA codesB valsB
    rfl rfl rfl rfl
    (by decide +kernel) (by decide +kernel) rfl rfl (by decide) (by decide +kernel) rfl (by decide +kernel)
    (by decide +kernel) (by decide +kernel)

example : runKnown (mk Rsum .npg false 4) (.blockwise false) true chunksA (codeKeys codesB) valsB
    = .ok [Val.nan, Val.fin 4, Val.fin 4, Val.nan] := by decide +kernel

/-- `blockwise_eq_eager` applies (`nanmean`; H_absent through the count mask) -/
example : runKnown (mk Rnanmean .npg true 4) (.blockwise false) true chunksA (codeKeys codesA) valsA
    = runKnown (mk Rnanmean .npg true 4) .eager true [8] (codeKeys codesA) valsA :=
  blockwise_eq_eager Rnanmean (.mean true) (mk Rnanmean .npg true 4) 4 true chunksA [8] codesA valsA rfl rfl rfl rfl
    (by decide +kernel) (by decide +kernel) rfl rfl (by decide) (by decide +kernel) rfl (by decide +kernel)
    (by decide +kernel) (by decide +kernel) (fun _ _ => Or.inl (by decide))

/-- the `ValueError` branch is reachable and agrees: `nanmean`, `min_count=1`, no fill; group 3 is all-NaN -/
example : runKnown (mk { Rnanmean with userFill := none } .npg true 4) (.blockwise false) true chunksA
      (codeKeys codesA) valsA = specResult .nanmean { Rnanmean with userFill := none } codesA valsA 4 :=
  blockwise_eq_spec { Rnanmean with userFill := none } (.mean true) (mk { Rnanmean with userFill := none } .npg true 4)
    4 true chunksA codesA valsA rfl rfl rfl rfl
    (by decide +kernel) (by decide +kernel) rfl rfl (by decide) (by decide +kernel) rfl (by decide +kernel)
    (by decide +kernel) (by decide +kernel)

example : specResult .nanmean { Rnanmean with userFill := none } codesA valsA 4 = .error "ValueError" := by
  decide +kernel

/-- flox's own engine: `nanmax` -/
example : runKnown (mk Rnanmax .flox true 4) (.blockwise false) true chunksA (codeKeys codesA) valsA
    = specResult .nanmax Rnanmax codesA valsA 4 :=
  blockwise_eq_spec_flox Rnanmax (.simple .nanmax .nanmax Val.ninf) (mk Rnanmax .flox true 4) 4 true chunksA codesA
    valsA rfl rfl rfl rfl (by decide +kernel) (by decide +kernel) (by decide +kernel) rfl rfl (by decide)
    (by decide +kernel) rfl (by decide +kernel) (by decide +kernel) (by decide +kernel)

/-- `.blockwise true` on one block = eager -/
example : runKnown (mk Rnanmean .npg true 4) (.blockwise true) true [8] (codeKeys codesA) valsA
    = runKnown (mk Rnanmean .npg true 4) .eager true [8] (codeKeys codesA) valsA :=
  blockwise_single_eq_eager _ true 8 [8] _ _ (by decide) (by decide)

/-! ### necessity of the hypotheses -/

/-- **the precondition `EachLabelInOneBlock` is necessary.**  Label 0 occurs in two blocks: the model's final reindex
    (`reindexCol`, pandas `get_indexer` on the concatenated labels) silently takes the FIRST block's partial result.
    (The real library now raises `ValueError` for a label occurring in two blocks: known divergence of the model,
    outside the documented precondition of `method="blockwise"`.)  `sort=False`: -/
theorem each_label_in_one_block_counterexample :
    ¬ EachLabelInOneBlock [2, 1] [0, 1, 0]
    ∧ runKnown (mk Rsum .npg false 2) (.blockwise false) true [2, 1] (codeKeys [0, 1, 0])
        [Val.fin 1, Val.fin 2, Val.fin 5] = .ok [Val.fin 1, Val.fin 2]
    ∧ specResult .sum Rsum [0, 1, 0] [Val.fin 1, Val.fin 2, Val.fin 5] 2 = .ok [Val.fin 6, Val.fin 2] := by
  decide +kernel

-- with `sort=True` the stable sort keeps block order among equal labels, so again the first block wins
-- (`#eval runKnown (mk Rsum .npg true 1) (.blockwise false) true [1, 1] (codeKeys [0, 0]) [.fin 1, .fin 2]` gives
-- `.ok [.fin 1]`, the specification `.ok [.fin 3]`; not kernel-checkable because of `List.mergeSort`).

/-- **non-empty blocks (`hpos`) are necessary.**  An empty block announces no label but `chunk_reduce` of the model
    returns one slot (`groups = [NaN]`, the fill) for it: labels and values of the concatenation are misaligned
    (here the announced labels happen to equal the expected ones, so the 3 values are returned as they are; with
    `sort=True` the `zip` inside `sortPairs` truncates them to `[1, NaN]`). -/
theorem empty_block_counterexample :
    EachLabelInOneBlock [1, 0, 1] [0, 1]
    ∧ runKnown (mk Rsum .npg false 2) (.blockwise false) true [1, 0, 1] (codeKeys [0, 1]) [Val.fin 1, Val.fin 2]
        = .ok [Val.fin 1, Val.nan, Val.fin 2]
    ∧ specResult .sum Rsum [0, 1] [Val.fin 1, Val.fin 2] 2 = .ok [Val.fin 1, Val.fin 2] := by decide +kernel

/-- **`c.fillArg = R.userFill` is necessary**: absent labels get `c.fillArg` through the final reindex, the
    specification gives them `R.userFill` -/
theorem fillArg_counterexample :
    runKnown { mk Rsum .npg true 2 with fillArg := some (Val.fin 7) } (.blockwise false) true [1] (codeKeys [0])
        [Val.fin 1] = .ok [Val.fin 1, Val.fin 7]
    ∧ specResult .sum Rsum [0] [Val.fin 1] 2 = .error "ValueError" := by decide +kernel

/-- **H_dropped is necessary.**  `nanmean`, `min_count=1`, no fill: the dropped element (code -1) is NaN, so inside
    its block the group "-1" has 0 valid members, the count mask fires and `_finalize_results` raises, although no
    requested label needs a fill.  The eager path (and the specification) return the result. -/
theorem H_dropped_counterexample :
    ¬ HDropped { Rnanmean with userFill := none } (segsOf [2] [0, -1] [Val.fin 1, Val.nan])
    ∧ HSomeLabel { Rnanmean with userFill := none } [0, -1] 1
    ∧ EachLabelInOneBlock [2] [0, -1]
    ∧ runKnown (mk { Rnanmean with userFill := none } .npg true 1) (.blockwise false) true [2] (codeKeys [0, -1])
        [Val.fin 1, Val.nan] = .error "ValueError"
    ∧ specResult .nanmean { Rnanmean with userFill := none } [0, -1] [Val.fin 1, Val.nan] 1 = .ok [Val.fin 1]
    ∧ runKnown (mk { Rnanmean with userFill := none } .npg true 1) .eager true [2] (codeKeys [0, -1])
        [Val.fin 1, Val.nan] = .ok [Val.fin 1] := by decide +kernel

/-- **H_somelabel is necessary.**  Every element is dropped, in two blocks: both `-1` entries are removed, the final
    reindex sees an empty array and fills with `fill_value=None` ↦ NaN without raising; the specification demands a
    fill.  (With a single block the `-1` entry stays and the reindex raises.) -/
theorem H_somelabel_counterexample :
    ¬ HSomeLabel Rsum [-1, -1] 1 ∧ HDropped Rsum (segsOf [1, 1] [-1, -1] [Val.fin 1, Val.fin 2])
    ∧ EachLabelInOneBlock [1, 1] [-1, -1]
    ∧ runKnown (mk Rsum .npg false 1) (.blockwise false) true [1, 1] (codeKeys [-1, -1]) [Val.fin 1, Val.fin 2]
        = .ok [Val.nan]
    ∧ specResult .sum Rsum [-1, -1] [Val.fin 1, Val.fin 2] 1 = .error "ValueError"
    ∧ runKnown (mk Rsum .npg true 1) (.blockwise false) true [2] (codeKeys [-1, -1]) [Val.fin 1, Val.fin 2]
        = .error "ValueError" := by decide +kernel

/-- **`CodesOK` is necessary**: an out-of-range label is an ordinary group of its block and can trip the count mask -/
theorem codesOK_counterexample :
    ¬ CodesOK [0, 5] 1
    ∧ HDropped { Rnanmean with userFill := none } (segsOf [2] [0, 5] [Val.fin 1, Val.nan])
    ∧ runKnown (mk { Rnanmean with userFill := none } .npg true 1) (.blockwise false) true [2] (codeKeys [0, 5])
        [Val.fin 1, Val.nan] = .error "ValueError"
    ∧ specResult .nanmean { Rnanmean with userFill := none } [0, 5] [Val.fin 1, Val.nan] 1 = .ok [Val.fin 1] := by
  decide +kernel

/-- **`chunks.sum = codes.length` is necessary**: blocks that do not cover the array drop elements -/
theorem chunks_sum_counterexample :
    runKnown (mk Rsum .npg true 2) (.blockwise false) true [1] (codeKeys [0, 1]) [Val.fin 1, Val.fin 2]
      = .error "ValueError"
    ∧ specResult .sum Rsum [0, 1] [Val.fin 1, Val.fin 2] 2 = .ok [Val.fin 1, Val.fin 2] := by decide +kernel

/-- **H_allnan is necessary** (as for the eager path): an all-NaN group gets the NumPy fill from numpy_groupies -/
theorem H_allnan_counterexample :
    ¬ HAllNaN Rnanfirst0 (.simple .nanfirst .nanfirst Val.nan)
    ∧ runKnown (mk Rnanfirst0 .npg true 1) (.blockwise false) true [1] (codeKeys [0]) [Val.nan] = .ok [Val.fin 0]
    ∧ specResult .nanfirst Rnanfirst0 [0] [Val.nan] 1 = .ok [Val.nan] := by decide +kernel

/-- `.blockwise true` with more than one block: the model returns `ValueError` (the graph has one output block per
    input block while the announced groups are `expected_groups`) -/
theorem blockwise_true_two_blocks :
    runKnown (mk Rnanmean .npg true 4) (.blockwise true) true [4, 4] (codeKeys codesA) valsA = .error "ValueError" := by
  decide +kernel

/-- `chunks ≠ []` is NOT needed by `blockwise_eq_spec`: with no data and a fill the empty reindex fills every slot
    (without a fill H_somelabel fails) -/
example : runKnown (mk Rnanmean .npg true 2) (.blockwise false) true [] (codeKeys []) []
    = specResult .nanmean Rnanmean [] [] 2 :=
  blockwise_eq_spec Rnanmean (.mean true) (mk Rnanmean .npg true 2) 2 true [] [] [] rfl rfl rfl rfl
    (by decide +kernel) (by decide +kernel) rfl rfl (by decide) (by decide +kernel) rfl (by decide +kernel)
    (by decide +kernel) (by decide +kernel)

/-- `eager_eq_spec` with `sort=False` (it has no hypothesis on `c.sort`) -/
example : runKnown (mk Rnanmean .npg false 4) .eager true [8] (codeKeys codes8) vals8
    = specResult .nanmean Rnanmean codes8 vals8 4 :=
  eager_eq_spec Rnanmean (.mean true) (mk Rnanmean .npg false 4) 4 true [8] codes8 vals8 rfl rfl rfl rfl
    (by decide +kernel) codes8_ok rfl (fun _ _ => Or.inl (by decide)) (by decide +kernel)

end BWEx
end Flox
