/-
  The chunk / combine decomposition law (C04) for every built-in column triple of `floatColumns`:

      combineVal c (parts.map (blockVal k f)) = blockVal k f parts.flatten

  `parts` is the list of per-block member lists of one group (in block order); a block in which the group is
  absent contributes `[]`, a block in which all members are NaN contributes an all-NaN list.
  No commutativity is used anywhere (order matters for `nanfirst` / `nanlast`).
-/
import FloxModel.Blueprint
import FloxProofs.ValAlgebra2

namespace Flox

set_option linter.unusedSimpArgs false

/-! ### generic monoid folds -/

section Monoid

variable {op : Val → Val → Val} {e : Val}

theorem foldl_monoid_init (hassoc : ∀ a b c, op (op a b) c = op a (op b c))
    (hr : ∀ a, op a e = a) (hl : ∀ a, op e a = a) (a : Val) (xs : List Val) :
    xs.foldl op a = op a (xs.foldl op e) := by
  induction xs generalizing a with
  | nil => simp [hr]
  | cons x xs ih =>
    simp only [List.foldl_cons]
    rw [ih (op a x), ih (op e x), hl, hassoc]

theorem foldl_monoid_append (hassoc : ∀ a b c, op (op a b) c = op a (op b c))
    (hr : ∀ a, op a e = a) (hl : ∀ a, op e a = a) (xs ys : List Val) :
    (xs ++ ys).foldl op e = op (xs.foldl op e) (ys.foldl op e) := by
  rw [List.foldl_append, foldl_monoid_init hassoc hr hl]

theorem foldl_monoid_flatten (hassoc : ∀ a b c, op (op a b) c = op a (op b c))
    (hr : ∀ a, op a e = a) (hl : ∀ a, op e a = a) (parts : List (List Val)) :
    (parts.map (fun p => p.foldl op e)).foldl op e = parts.flatten.foldl op e := by
  induction parts with
  | nil => simp
  | cons p ps ih =>
    simp only [List.map_cons, List.foldl_cons, List.flatten_cons]
    rw [foldl_monoid_append hassoc hr hl, ← ih, hl,
      foldl_monoid_init hassoc hr hl (p.foldl op e)]

end Monoid

/-! ### `dropNaN` -/

@[simp] theorem dropNaN_nil : dropNaN [] = [] := rfl

theorem dropNaN_cons (x : Val) (xs : List Val) :
    dropNaN (x :: xs) = if x.isNaN then dropNaN xs else x :: dropNaN xs := by
  cases h : x.isNaN <;> simp [dropNaN, h]

theorem dropNaN_append (xs ys : List Val) : dropNaN (xs ++ ys) = dropNaN xs ++ dropNaN ys := by
  simp [dropNaN]

theorem dropNaN_flatten (parts : List (List Val)) :
    dropNaN parts.flatten = (parts.map dropNaN).flatten := by
  unfold dropNaN
  rw [List.filter_flatten]

theorem dropNaN_idem (xs : List Val) : dropNaN (dropNaN xs) = dropNaN xs := by
  simp [dropNaN]

theorem mem_dropNaN {x : Val} {xs : List Val} : x ∈ dropNaN xs ↔ x ∈ xs ∧ x.isNaN = false := by
  simp [dropNaN]

theorem dropNaN_eq_self {xs : List Val} (h : ∀ x ∈ xs, x.isNaN = false) : dropNaN xs = xs := by
  simp only [dropNaN, List.filter_eq_self]
  intro x hx
  simp [h x hx]

theorem dropNaN_eq_nil_iff {xs : List Val} : dropNaN xs = [] ↔ ∀ x ∈ xs, x.isNaN = true := by
  simp [dropNaN, List.filter_eq_nil_iff]

theorem dropNaN_reverse (xs : List Val) : dropNaN xs.reverse = (dropNaN xs).reverse := by
  simp [dropNaN, List.filter_reverse]

/-! ### sums and products -/

@[simp] theorem vsum_nil : vsum [] = Val.zero := rfl
@[simp] theorem vprod_nil : vprod [] = Val.one := rfl

theorem vsum_append (xs ys : List Val) : vsum (xs ++ ys) = Val.add (vsum xs) (vsum ys) :=
  foldl_monoid_append Val.add_assoc Val.add_zero_right Val.add_zero_left xs ys

theorem vsum_cons (x : Val) (xs : List Val) : vsum (x :: xs) = Val.add x (vsum xs) := by
  have := vsum_append [x] xs
  simpa [vsum, Val.add_zero_left] using this

theorem vsum_map_vsum_eq_flatten (parts : List (List Val)) :
    vsum (parts.map vsum) = vsum parts.flatten :=
  foldl_monoid_flatten Val.add_assoc Val.add_zero_right Val.add_zero_left parts

theorem vprod_append (xs ys : List Val) : vprod (xs ++ ys) = Val.mul (vprod xs) (vprod ys) :=
  foldl_monoid_append Val.mul_assoc Val.mul_one_right Val.mul_one_left xs ys

theorem vprod_cons (x : Val) (xs : List Val) : vprod (x :: xs) = Val.mul x (vprod xs) := by
  have := vprod_append [x] xs
  simpa [vprod, Val.mul_one_left] using this

theorem vprod_map_vprod_eq_flatten (parts : List (List Val)) :
    vprod (parts.map vprod) = vprod parts.flatten :=
  foldl_monoid_flatten Val.mul_assoc Val.mul_one_right Val.mul_one_left parts

/-- generalised form: any per-part preprocessing `g` that commutes with flattening -/
theorem vsum_map_comp_flatten (g : List Val → List Val) (parts : List (List Val)) :
    vsum (parts.map (fun p => vsum (g p))) = vsum (parts.map g).flatten := by
  rw [← vsum_map_vsum_eq_flatten, List.map_map]; rfl

theorem vprod_map_comp_flatten (g : List Val → List Val) (parts : List (List Val)) :
    vprod (parts.map (fun p => vprod (g p))) = vprod (parts.map g).flatten := by
  rw [← vprod_map_vprod_eq_flatten, List.map_map]; rfl

/-! ### max / min: `ninf` / `pinf` are the identities, so `fold1` is a monoid fold -/

theorem vmax_eq_foldl (xs : List Val) : vmax xs = xs.foldl Val.max Val.ninf := by
  cases xs with
  | nil => rfl
  | cons x xs => simp [vmax, fold1, Val.max_ninf_left]

theorem vmin_eq_foldl (xs : List Val) : vmin xs = xs.foldl Val.min Val.pinf := by
  cases xs with
  | nil => rfl
  | cons x xs => simp [vmin, fold1, Val.min_pinf_left]

@[simp] theorem vmax_nil : vmax [] = Val.ninf := rfl
@[simp] theorem vmin_nil : vmin [] = Val.pinf := rfl

theorem vmax_append (xs ys : List Val) : vmax (xs ++ ys) = Val.max (vmax xs) (vmax ys) := by
  simp only [vmax_eq_foldl]
  exact foldl_monoid_append Val.max_assoc Val.max_ninf_right Val.max_ninf_left xs ys

theorem vmin_append (xs ys : List Val) : vmin (xs ++ ys) = Val.min (vmin xs) (vmin ys) := by
  simp only [vmin_eq_foldl]
  exact foldl_monoid_append Val.min_assoc Val.min_pinf_right Val.min_pinf_left xs ys

theorem vmax_map_vmax_eq_flatten (parts : List (List Val)) :
    vmax (parts.map vmax) = vmax parts.flatten := by
  simp only [vmax_eq_foldl]
  have := foldl_monoid_flatten (op := Val.max) (e := Val.ninf)
    Val.max_assoc Val.max_ninf_right Val.max_ninf_left parts
  rw [← this]
  congr 1
  apply List.map_congr_left
  intro p _
  exact vmax_eq_foldl p

theorem vmin_map_vmin_eq_flatten (parts : List (List Val)) :
    vmin (parts.map vmin) = vmin parts.flatten := by
  simp only [vmin_eq_foldl]
  have := foldl_monoid_flatten (op := Val.min) (e := Val.pinf)
    Val.min_assoc Val.min_pinf_right Val.min_pinf_left parts
  rw [← this]
  congr 1
  apply List.map_congr_left
  intro p _
  exact vmin_eq_foldl p

theorem foldl_max_isNaN_false (a : Val) (xs : List Val) (ha : a.isNaN = false)
    (h : ∀ x ∈ xs, x.isNaN = false) : (xs.foldl Val.max a).isNaN = false := by
  induction xs generalizing a with
  | nil => simpa using ha
  | cons x xs ih =>
    simp only [List.foldl_cons]
    apply ih
    · exact Val.max_isNaN_false ha (h x (by simp))
    · intro y hy; exact h y (by simp [hy])

theorem foldl_min_isNaN_false (a : Val) (xs : List Val) (ha : a.isNaN = false)
    (h : ∀ x ∈ xs, x.isNaN = false) : (xs.foldl Val.min a).isNaN = false := by
  induction xs generalizing a with
  | nil => simpa using ha
  | cons x xs ih =>
    simp only [List.foldl_cons]
    apply ih
    · exact Val.min_isNaN_false ha (h x (by simp))
    · intro y hy; exact h y (by simp [hy])

/-- the maximum of a NaN-free list is not NaN -/
theorem vmax_isNaN_false {xs : List Val} (h : ∀ x ∈ xs, x.isNaN = false) :
    (vmax xs).isNaN = false := by
  rw [vmax_eq_foldl]; exact foldl_max_isNaN_false _ _ rfl h

theorem vmin_isNaN_false {xs : List Val} (h : ∀ x ∈ xs, x.isNaN = false) :
    (vmin xs).isNaN = false := by
  rw [vmin_eq_foldl]; exact foldl_min_isNaN_false _ _ rfl h

theorem vmax_dropNaN_isNaN (xs : List Val) : (vmax (dropNaN xs)).isNaN = false :=
  vmax_isNaN_false (fun _ hx => (mem_dropNaN.mp hx).2)

theorem vmin_dropNaN_isNaN (xs : List Val) : (vmin (dropNaN xs)).isNaN = false :=
  vmin_isNaN_false (fun _ hx => (mem_dropNaN.mp hx).2)

/-! ### counting -/

theorem vsum_map_ofNat (ns : List Nat) : vsum (ns.map Val.ofNat) = Val.ofNat ns.sum := by
  induction ns with
  | nil => simp [Val.ofNat_zero]
  | cons n ns ih => rw [List.map_cons, vsum_cons, ih, Val.ofNat_add, List.sum_cons]

theorem vsum_map_vcount_eq_flatten (parts : List (List Val)) :
    vsum (parts.map vcount) = vcount parts.flatten := by
  have : parts.map vcount = (parts.map List.length).map Val.ofNat := by
    rw [List.map_map]; rfl
  rw [this, vsum_map_ofNat]
  simp [vcount, List.length_flatten]

/-! ### first / last valid member -/

@[simp] theorem firstNonNaN_nil : firstNonNaN [] = Val.nan := rfl

theorem firstNonNaN_cons (x : Val) (xs : List Val) :
    firstNonNaN (x :: xs) = if x.isNaN then firstNonNaN xs else x := rfl

theorem firstNonNaN_append (xs ys : List Val) :
    firstNonNaN (xs ++ ys) = if (firstNonNaN xs).isNaN then firstNonNaN ys else firstNonNaN xs := by
  induction xs with
  | nil => simp
  | cons x xs ih =>
    simp only [List.cons_append, firstNonNaN_cons]
    by_cases hx : x.isNaN = true <;> simp [hx, ih]

theorem firstNonNaN_map_flatten (parts : List (List Val)) :
    firstNonNaN (parts.map firstNonNaN) = firstNonNaN parts.flatten := by
  induction parts with
  | nil => rfl
  | cons p ps ih =>
    simp only [List.map_cons, List.flatten_cons, firstNonNaN_cons, firstNonNaN_append, ih]

theorem firstNonNaN_eq_nan_of_allNaN {xs : List Val} (h : dropNaN xs = []) :
    firstNonNaN xs = Val.nan := by
  induction xs with
  | nil => rfl
  | cons x xs ih =>
    rw [dropNaN_cons] at h
    cases hx : x.isNaN <;> simp [hx] at h
    simp [firstNonNaN_cons, hx, ih h]

theorem lastNonNaN_map_flatten (parts : List (List Val)) :
    lastNonNaN (parts.map lastNonNaN) = lastNonNaN parts.flatten := by
  unfold lastNonNaN
  rw [List.reverse_flatten, ← firstNonNaN_map_flatten]
  simp [List.map_reverse, Function.comp_def]

theorem lastNonNaN_eq_nan_of_allNaN {xs : List Val} (h : dropNaN xs = []) :
    lastNonNaN xs = Val.nan := by
  unfold lastNonNaN
  apply firstNonNaN_eq_nan_of_allNaN
  rw [dropNaN_reverse, h]; rfl

/-! ### all / any -/

theorem all_map_flatten (parts : List (List Val)) :
    (parts.map (fun p => Val.ofBool (p.all Val.truthy))).all Val.truthy
      = parts.flatten.all Val.truthy := by
  simp [List.all_flatten, List.all_map, Function.comp_def]

theorem any_map_flatten (parts : List (List Val)) :
    (parts.map (fun p => Val.ofBool (p.any Val.truthy))).any Val.truthy
      = parts.flatten.any Val.truthy := by
  simp [List.any_flatten, List.any_map, Function.comp_def]

/-! ### closed forms of `blockVal` for each built-in column -/

theorem blockVal_sum (ms : List Val) : blockVal .sum Val.zero ms = vsum ms := by
  cases ms <;> simp [blockVal, Kernel.skipsNaN, kEval]

theorem blockVal_nansum (ms : List Val) : blockVal .nansum Val.zero ms = vsum (dropNaN ms) := by
  unfold blockVal
  cases ms with
  | nil => rfl
  | cons x xs =>
    cases h : (dropNaN (x :: xs)).isEmpty
    · simp [Kernel.skipsNaN, kEval, h]
    · simp only [List.isEmpty_iff] at h
      simp [Kernel.skipsNaN, allNaNVal, h]

theorem blockVal_prod (ms : List Val) : blockVal .prod Val.one ms = vprod ms := by
  cases ms <;> simp [blockVal, Kernel.skipsNaN, kEval]

theorem blockVal_nanprod (ms : List Val) : blockVal .nanprod Val.one ms = vprod (dropNaN ms) := by
  unfold blockVal
  cases ms with
  | nil => rfl
  | cons x xs =>
    cases h : (dropNaN (x :: xs)).isEmpty
    · simp [Kernel.skipsNaN, kEval, h]
    · simp only [List.isEmpty_iff] at h
      simp [Kernel.skipsNaN, allNaNVal, h]

theorem blockVal_max (ms : List Val) : blockVal .max Val.ninf ms = vmax ms := by
  cases ms <;> simp [blockVal, Kernel.skipsNaN, kEval]

theorem blockVal_min (ms : List Val) : blockVal .min Val.pinf ms = vmin ms := by
  cases ms <;> simp [blockVal, Kernel.skipsNaN, kEval]

theorem blockVal_nanmax (ms : List Val) : blockVal .nanmax Val.ninf ms = vmax (dropNaN ms) := by
  unfold blockVal
  cases ms with
  | nil => rfl
  | cons x xs =>
    cases h : (dropNaN (x :: xs)).isEmpty
    · simp [Kernel.skipsNaN, kEval, h]
    · simp only [List.isEmpty_iff] at h
      simp [Kernel.skipsNaN, allNaNVal, h]

theorem blockVal_nanmin (ms : List Val) : blockVal .nanmin Val.pinf ms = vmin (dropNaN ms) := by
  unfold blockVal
  cases ms with
  | nil => rfl
  | cons x xs =>
    cases h : (dropNaN (x :: xs)).isEmpty
    · simp [Kernel.skipsNaN, kEval, h]
    · simp only [List.isEmpty_iff] at h
      simp [Kernel.skipsNaN, allNaNVal, h]

theorem blockVal_nanlen (ms : List Val) : blockVal .nanlen Val.zero ms = vcount (dropNaN ms) := by
  unfold blockVal
  cases ms with
  | nil => simp [vcount, Val.ofNat_zero]
  | cons x xs =>
    cases h : (dropNaN (x :: xs)).isEmpty
    · simp [Kernel.skipsNaN, kEval, h]
    · simp only [List.isEmpty_iff] at h
      simp [Kernel.skipsNaN, allNaNVal, h, vcount, Val.ofNat_zero]

theorem blockVal_sumsq (ms : List Val) :
    blockVal .sumsq Val.zero ms = vsum (ms.map fun x => Val.mul x x) := by
  cases ms <;> simp [blockVal, Kernel.skipsNaN, kEval]

theorem blockVal_nansumsq (ms : List Val) :
    blockVal .nansumsq Val.zero ms = vsum ((dropNaN ms).map fun x => Val.mul x x) := by
  unfold blockVal
  cases ms with
  | nil => rfl
  | cons x xs =>
    cases h : (dropNaN (x :: xs)).isEmpty
    · simp [Kernel.skipsNaN, kEval, h]
    · simp only [List.isEmpty_iff] at h
      simp [Kernel.skipsNaN, allNaNVal, h]

theorem blockVal_all (ms : List Val) :
    blockVal .all Val.one ms = Val.ofBool (ms.all Val.truthy) := by
  cases ms with
  | nil => rfl
  | cons x xs => simp [blockVal, Kernel.skipsNaN, kEval]

theorem blockVal_any (ms : List Val) :
    blockVal .any Val.zero ms = Val.ofBool (ms.any Val.truthy) := by
  cases ms with
  | nil => rfl
  | cons x xs => simp [blockVal, Kernel.skipsNaN, kEval]

theorem blockVal_nanfirst (ms : List Val) : blockVal .nanfirst Val.nan ms = firstNonNaN ms := by
  unfold blockVal
  cases ms with
  | nil => rfl
  | cons x xs =>
    cases h : (dropNaN (x :: xs)).isEmpty
    · simp [Kernel.skipsNaN, kEval, h]
    · simp only [List.isEmpty_iff] at h
      simp [Kernel.skipsNaN, allNaNVal, h, firstNonNaN_eq_nan_of_allNaN h]

theorem blockVal_nanlast (ms : List Val) : blockVal .nanlast Val.nan ms = lastNonNaN ms := by
  unfold blockVal
  cases ms with
  | nil => rfl
  | cons x xs =>
    cases h : (dropNaN (x :: xs)).isEmpty
    · simp [Kernel.skipsNaN, kEval, h]
    · simp only [List.isEmpty_iff] at h
      simp [Kernel.skipsNaN, allNaNVal, h, lastNonNaN_eq_nan_of_allNaN h]

/-! ### the decomposition law, column by column -/

theorem combine_sum (parts : List (List Val)) :
    combineVal .sum (parts.map (blockVal .sum Val.zero)) = blockVal .sum Val.zero parts.flatten := by
  simp only [show blockVal .sum Val.zero = vsum from funext blockVal_sum, combineVal, kEval]
  exact vsum_map_vsum_eq_flatten parts

theorem combine_nansum (parts : List (List Val)) :
    combineVal .sum (parts.map (blockVal .nansum Val.zero))
      = blockVal .nansum Val.zero parts.flatten := by
  simp only [show blockVal .nansum Val.zero = fun p => vsum (dropNaN p) from funext blockVal_nansum,
    combineVal, kEval]
  rw [vsum_map_comp_flatten, dropNaN_flatten]

theorem combine_prod (parts : List (List Val)) :
    combineVal .prod (parts.map (blockVal .prod Val.one)) = blockVal .prod Val.one parts.flatten := by
  simp only [show blockVal .prod Val.one = vprod from funext blockVal_prod, combineVal, kEval]
  exact vprod_map_vprod_eq_flatten parts

theorem combine_nanprod (parts : List (List Val)) :
    combineVal .prod (parts.map (blockVal .nanprod Val.one))
      = blockVal .nanprod Val.one parts.flatten := by
  simp only [show blockVal .nanprod Val.one = fun p => vprod (dropNaN p) from funext blockVal_nanprod,
    combineVal, kEval]
  rw [vprod_map_comp_flatten, dropNaN_flatten]

theorem combine_max (parts : List (List Val)) :
    combineVal .max (parts.map (blockVal .max Val.ninf)) = blockVal .max Val.ninf parts.flatten := by
  simp only [show blockVal .max Val.ninf = vmax from funext blockVal_max, combineVal, kEval]
  exact vmax_map_vmax_eq_flatten parts

theorem combine_min (parts : List (List Val)) :
    combineVal .min (parts.map (blockVal .min Val.pinf)) = blockVal .min Val.pinf parts.flatten := by
  simp only [show blockVal .min Val.pinf = vmin from funext blockVal_min, combineVal, kEval]
  exact vmin_map_vmin_eq_flatten parts

/-- here `parts ≠ []` is needed: `nanmax` of no block values at all is NaN, not the fill `-inf` -/
theorem combine_nanmax (parts : List (List Val)) (hne : parts ≠ []) :
    combineVal .nanmax (parts.map (blockVal .nanmax Val.ninf))
      = blockVal .nanmax Val.ninf parts.flatten := by
  simp only [show blockVal .nanmax Val.ninf = fun p => vmax (dropNaN p) from funext blockVal_nanmax,
    combineVal, kEval]
  have hself : dropNaN (parts.map fun p => vmax (dropNaN p)) = parts.map fun p => vmax (dropNaN p) := by
    apply dropNaN_eq_self
    intro x hx
    obtain ⟨p, _, rfl⟩ := List.mem_map.mp hx
    exact vmax_dropNaN_isNaN p
  have hemp : (parts.map fun p => vmax (dropNaN p)).isEmpty = false := by
    cases parts with
    | nil => exact absurd rfl hne
    | cons _ _ => rfl
  rw [hself, hemp, dropNaN_flatten, ← vmax_map_vmax_eq_flatten, List.map_map]
  rfl

theorem combine_nanmin (parts : List (List Val)) (hne : parts ≠ []) :
    combineVal .nanmin (parts.map (blockVal .nanmin Val.pinf))
      = blockVal .nanmin Val.pinf parts.flatten := by
  simp only [show blockVal .nanmin Val.pinf = fun p => vmin (dropNaN p) from funext blockVal_nanmin,
    combineVal, kEval]
  have hself : dropNaN (parts.map fun p => vmin (dropNaN p)) = parts.map fun p => vmin (dropNaN p) := by
    apply dropNaN_eq_self
    intro x hx
    obtain ⟨p, _, rfl⟩ := List.mem_map.mp hx
    exact vmin_dropNaN_isNaN p
  have hemp : (parts.map fun p => vmin (dropNaN p)).isEmpty = false := by
    cases parts with
    | nil => exact absurd rfl hne
    | cons _ _ => rfl
  rw [hself, hemp, dropNaN_flatten, ← vmin_map_vmin_eq_flatten, List.map_map]
  rfl

theorem combine_nanlen (parts : List (List Val)) :
    combineVal .sum (parts.map (blockVal .nanlen Val.zero))
      = blockVal .nanlen Val.zero parts.flatten := by
  simp only [show blockVal .nanlen Val.zero = fun p => vcount (dropNaN p) from funext blockVal_nanlen,
    combineVal, kEval]
  rw [dropNaN_flatten, ← vsum_map_vcount_eq_flatten, List.map_map]
  rfl

theorem combine_sumsq (parts : List (List Val)) :
    combineVal .sum (parts.map (blockVal .sumsq Val.zero))
      = blockVal .sumsq Val.zero parts.flatten := by
  simp only [show blockVal .sumsq Val.zero = fun p => vsum (p.map fun x => Val.mul x x)
    from funext blockVal_sumsq, combineVal, kEval]
  rw [vsum_map_comp_flatten, List.map_flatten]

theorem combine_nansumsq (parts : List (List Val)) :
    combineVal .sum (parts.map (blockVal .nansumsq Val.zero))
      = blockVal .nansumsq Val.zero parts.flatten := by
  simp only [show blockVal .nansumsq Val.zero = fun p => vsum ((dropNaN p).map fun x => Val.mul x x)
    from funext blockVal_nansumsq, combineVal, kEval]
  rw [vsum_map_comp_flatten, dropNaN_flatten, List.map_flatten, List.map_map]
  rfl

theorem combine_all (parts : List (List Val)) :
    combineVal .all (parts.map (blockVal .all Val.one)) = blockVal .all Val.one parts.flatten := by
  simp only [show blockVal .all Val.one = fun p => Val.ofBool (p.all Val.truthy)
    from funext blockVal_all, combineVal, kEval]
  rw [all_map_flatten]

theorem combine_any (parts : List (List Val)) :
    combineVal .any (parts.map (blockVal .any Val.zero)) = blockVal .any Val.zero parts.flatten := by
  simp only [show blockVal .any Val.zero = fun p => Val.ofBool (p.any Val.truthy)
    from funext blockVal_any, combineVal, kEval]
  rw [any_map_flatten]

theorem combine_nanfirst (parts : List (List Val)) :
    combineVal .nanfirst (parts.map (blockVal .nanfirst Val.nan))
      = blockVal .nanfirst Val.nan parts.flatten := by
  simp only [show blockVal .nanfirst Val.nan = firstNonNaN from funext blockVal_nanfirst,
    combineVal, kEval]
  exact firstNonNaN_map_flatten parts

theorem combine_nanlast (parts : List (List Val)) :
    combineVal .nanlast (parts.map (blockVal .nanlast Val.nan))
      = blockVal .nanlast Val.nan parts.flatten := by
  simp only [show blockVal .nanlast Val.nan = lastNonNaN from funext blockVal_nanlast,
    combineVal, kEval]
  exact lastNonNaN_map_flatten parts

/-! ### the decomposition law -/

/-- **Chunk / combine decomposition.**  For every built-in column `(k, c, f)`, combining the per-block
    intermediates of a group with the combine kernel `c` gives exactly the intermediate of the
    concatenated member list.  Blocks where the group is absent (`[]`) or all-NaN are allowed. -/
theorem combine_parts (k c : Kernel) (f : Val) (h : (k, c, f) ∈ floatColumns)
    (parts : List (List Val)) (hne : parts ≠ []) :
    combineVal c (parts.map (blockVal k f)) = blockVal k f parts.flatten := by
  simp only [floatColumns, List.mem_cons, Prod.mk.injEq, List.mem_nil_iff, or_false] at h
  rcases h with ⟨rfl, rfl, rfl⟩ | ⟨rfl, rfl, rfl⟩ | ⟨rfl, rfl, rfl⟩ | ⟨rfl, rfl, rfl⟩ |
    ⟨rfl, rfl, rfl⟩ | ⟨rfl, rfl, rfl⟩ | ⟨rfl, rfl, rfl⟩ | ⟨rfl, rfl, rfl⟩ |
    ⟨rfl, rfl, rfl⟩ | ⟨rfl, rfl, rfl⟩ | ⟨rfl, rfl, rfl⟩ | ⟨rfl, rfl, rfl⟩ |
    ⟨rfl, rfl, rfl⟩ | ⟨rfl, rfl, rfl⟩ | ⟨rfl, rfl, rfl⟩
  · exact combine_sum parts
  · exact combine_nansum parts
  · exact combine_prod parts
  · exact combine_nanprod parts
  · exact combine_max parts
  · exact combine_nanmax parts hne
  · exact combine_min parts
  · exact combine_nanmin parts hne
  · exact combine_nanlen parts
  · exact combine_sumsq parts
  · exact combine_nansumsq parts
  · exact combine_all parts
  · exact combine_any parts
  · exact combine_nanfirst parts
  · exact combine_nanlast parts

/-! ### absent and all-NaN blocks are neutral -/

/-- in every built-in column with a NaN-skipping chunk kernel, a block whose members are all NaN stores
    the same intermediate as a block in which the group is absent, namely the fill `f` -/
theorem blockVal_allNaN (k c : Kernel) (f : Val) (h : (k, c, f) ∈ floatColumns)
    (hs : k.skipsNaN = true) (p : List Val) (hp : ∀ x ∈ p, x.isNaN = true) :
    blockVal k f p = f := by
  have hd : dropNaN p = [] := dropNaN_eq_nil_iff.mpr hp
  cases p with
  | nil => rfl
  | cons x xs =>
    simp only [floatColumns, List.mem_cons, Prod.mk.injEq, List.mem_nil_iff, or_false] at h
    rcases h with ⟨rfl, rfl, rfl⟩ | ⟨rfl, rfl, rfl⟩ | ⟨rfl, rfl, rfl⟩ | ⟨rfl, rfl, rfl⟩ |
      ⟨rfl, rfl, rfl⟩ | ⟨rfl, rfl, rfl⟩ | ⟨rfl, rfl, rfl⟩ | ⟨rfl, rfl, rfl⟩ |
      ⟨rfl, rfl, rfl⟩ | ⟨rfl, rfl, rfl⟩ | ⟨rfl, rfl, rfl⟩ | ⟨rfl, rfl, rfl⟩ |
      ⟨rfl, rfl, rfl⟩ | ⟨rfl, rfl, rfl⟩ | ⟨rfl, rfl, rfl⟩ <;>
    first
      | (exact absurd hs (by decide))
      | simp [blockVal, hd, Kernel.skipsNaN, allNaNVal]

@[simp] theorem blockVal_nil (k : Kernel) (f : Val) : blockVal k f [] = f := rfl

/-- an all-NaN block is interchangeable with an absent block (no side condition on the other blocks) -/
theorem allNaN_block_eq_absent (k c : Kernel) (f : Val) (h : (k, c, f) ∈ floatColumns)
    (hs : k.skipsNaN = true) (p : List Val) (hp : ∀ x ∈ p, x.isNaN = true)
    (l₁ l₂ : List (List Val)) :
    combineVal c ((l₁ ++ p :: l₂).map (blockVal k f))
      = combineVal c ((l₁ ++ [] :: l₂).map (blockVal k f)) := by
  simp only [List.map_append, List.map_cons, blockVal_allNaN k c f h hs p hp, blockVal_nil]

/-- inserting an absent block anywhere among the (at least one) blocks changes nothing -/
theorem empty_block_neutral (k c : Kernel) (f : Val) (h : (k, c, f) ∈ floatColumns)
    (l₁ l₂ : List (List Val)) (hne : l₁ ++ l₂ ≠ []) :
    combineVal c ((l₁ ++ [] :: l₂).map (blockVal k f))
      = combineVal c ((l₁ ++ l₂).map (blockVal k f)) := by
  rw [combine_parts k c f h _ (by simp), combine_parts k c f h _ hne]
  simp

/-- inserting an all-NaN block anywhere changes nothing, for a NaN-skipping chunk kernel -/
theorem allNaN_block_neutral (k c : Kernel) (f : Val) (h : (k, c, f) ∈ floatColumns)
    (hs : k.skipsNaN = true) (p : List Val) (hp : ∀ x ∈ p, x.isNaN = true)
    (l₁ l₂ : List (List Val)) (hne : l₁ ++ l₂ ≠ []) :
    combineVal c ((l₁ ++ p :: l₂).map (blockVal k f))
      = combineVal c ((l₁ ++ l₂).map (blockVal k f)) := by
  rw [allNaN_block_eq_absent k c f h hs p hp, empty_block_neutral k c f h l₁ l₂ hne]

/-- **Absent / all-NaN blocks are neutral.**  Inserting, anywhere among the blocks, a block in which the
    group is absent, or (for a NaN-skipping chunk kernel) one in which all its members are NaN,
    does not change the combined value.  (`l₁ ++ l₂ ≠ []`: there is at least one other block; without it
    the statement fails for `nanmax` / `nanmin`, see the `example` below.) -/
theorem absent_block_neutral (k c : Kernel) (f : Val) (h : (k, c, f) ∈ floatColumns)
    (p : List Val) (hp : p = [] ∨ (k.skipsNaN = true ∧ ∀ x ∈ p, x.isNaN = true))
    (l₁ l₂ : List (List Val)) (hne : l₁ ++ l₂ ≠ []) :
    combineVal c ((l₁ ++ p :: l₂).map (blockVal k f))
      = combineVal c ((l₁ ++ l₂).map (blockVal k f)) := by
  rcases hp with rfl | ⟨hs, hp⟩
  · exact empty_block_neutral k c f h l₁ l₂ hne
  · exact allNaN_block_neutral k c f h hs p hp l₁ l₂ hne

/-- the same, phrased on the result: the combined value only depends on the concatenated members -/
theorem absent_block_neutral' (k c : Kernel) (f : Val) (h : (k, c, f) ∈ floatColumns)
    (p : List Val) (hp : p = [] ∨ (k.skipsNaN = true ∧ ∀ x ∈ p, x.isNaN = true))
    (l₁ l₂ : List (List Val)) (hne : l₁ ++ l₂ ≠ []) :
    combineVal c ((l₁ ++ p :: l₂).map (blockVal k f)) = blockVal k f (l₁ ++ l₂).flatten := by
  rw [absent_block_neutral k c f h p hp l₁ l₂ hne, combine_parts k c f h _ hne]

/-! ### non-vacuity: concrete splits -/

section Examples
open Val

/-- 3 blocks: one with a NaN, one where the group is absent, one plain -/
def exParts : List (List Val) := [[fin 1, nan, fin (-2)], [], [fin 5]]

example : floatColumns.length = 15 := rfl

-- both sides computed independently by the kernel, for every column
example : ∀ t ∈ floatColumns,
    combineVal t.2.1 (exParts.map (blockVal t.1 t.2.2)) = blockVal t.1 t.2.2 exParts.flatten := by
  decide +kernel

example : combineVal .sum (exParts.map (blockVal .nansum zero)) = fin 4 := by decide +kernel
example : combineVal .sum (exParts.map (blockVal .sum zero)) = nan := by decide +kernel
example : combineVal .sum (exParts.map (blockVal .nanlen zero)) = fin 3 := by decide +kernel
example : combineVal .nanmax (exParts.map (blockVal .nanmax ninf)) = fin 5 := by decide +kernel
example : combineVal .nanmin (exParts.map (blockVal .nanmin pinf)) = fin (-2) := by decide +kernel
example : combineVal .prod (exParts.map (blockVal .nanprod one)) = fin (-10) := by decide +kernel
example : combineVal .sum (exParts.map (blockVal .nansumsq zero)) = fin 30 := by decide +kernel
example : combineVal .nanfirst (exParts.map (blockVal .nanfirst nan)) = fin 1 := by decide +kernel
example : combineVal .nanlast (exParts.map (blockVal .nanlast nan)) = fin 5 := by decide +kernel

-- with an additional all-NaN block and infinities
example : ∀ t ∈ floatColumns,
    combineVal t.2.1 ([[nan, nan], [pinf, fin 3], [], [nan, fin 0]].map (blockVal t.1 t.2.2))
      = blockVal t.1 t.2.2 [nan, nan, pinf, fin 3, nan, fin 0] := by
  decide +kernel

-- order matters for nanfirst / nanlast: no commutativity is available (and none is used)
example : combineVal .nanfirst ([[fin 1], [fin 2]].map (blockVal .nanfirst nan))
    ≠ combineVal .nanfirst ([[fin 2], [fin 1]].map (blockVal .nanfirst nan)) := by decide +kernel

-- `parts ≠ []` cannot be dropped from `combine_parts` (nanmax / nanmin):
example : combineVal .nanmax (([] : List (List Val)).map (blockVal .nanmax ninf)) = nan := by
  decide +kernel
example : blockVal .nanmax ninf ([] : List (List Val)).flatten = ninf := by decide +kernel

-- `l₁ ++ l₂ ≠ []` cannot be dropped from `absent_block_neutral`:
example : combineVal .nanmax (([] ++ [] :: ([] : List (List Val))).map (blockVal .nanmax ninf))
    ≠ combineVal .nanmax (([] ++ ([] : List (List Val))).map (blockVal .nanmax ninf)) := by
  decide +kernel

-- an instance of `absent_block_neutral` with an all-NaN block
example : combineVal .nanmax (([[fin 1]] ++ [nan, nan] :: [[fin 0]]).map (blockVal .nanmax ninf))
    = combineVal .nanmax (([[fin 1]] ++ [[fin 0]]).map (blockVal .nanmax ninf)) :=
  absent_block_neutral .nanmax .nanmax ninf (by decide +kernel) [nan, nan]
    (Or.inr ⟨rfl, by decide +kernel⟩) [[fin 1]] [[fin 0]] (by simp)

end Examples

end Flox
