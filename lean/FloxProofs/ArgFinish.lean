/-
  G2, step (4): `_finalize_results` (finalize "second" = the index column, count mask) and the final reindex on the
  arg-sparse node of the whole array, linked to the specification (`Spec.argSlot` / `Spec.positions`).

    runKnown_arg_slots      `runKnown c (.mapreduce false) …`, slot by slot
    mapreduce_arg_eq_spec   END TO END: = `specResult k R codes vals n` for every chunking and every `split_every`
-/
import FloxProofs.ArgCombine

namespace Flox.Grp

/-! ### positions and global indices -/

theorem memberPosFrom_codeKeys (g : Int) (codes : List Int) (n : Nat) :
    memberPosFrom (some (g : Rat)) (codeKeys codes) n
      = (codes.zipIdx n).filterMap fun (c, i) => if c = g then some i else none := by
  induction codes generalizing n with
  | nil => rfl
  | cons c cs ih =>
    have ih' := ih (n + 1)
    simp only [codeKeys] at ih' ⊢
    rw [List.map_cons, memberPosFrom_cons, ih', List.zipIdx_cons, List.filterMap_cons]
    by_cases e : c = g
    · simp [e]
    · have : ¬ ((c : Rat) = (g : Rat)) := fun h => e (Rat.intCast_inj.mp h)
      simp [e, this]

/-- the positions of a label among the code keys are the specification's `positions` -/
theorem memberPosK_codeKeys (g : Int) (codes : List Int) :
    memberPosK (some (g : Rat)) (codeKeys codes) = Spec.positions g codes :=
  memberPosFrom_codeKeys g codes 0

theorem globalIdx_getD (N p : Nat) (h : p < N) : (globalIdx N).getD p Val.nan = Val.ofNat p := by
  rw [globalIdx, getD_map_lt _ _ _ _ (by simpa using h)]
  simp

/-- the whole array as an arg segment: global indices `0 … N-1` -/
abbrev wholeSeg (codes : List Int) (vals : List Val) (j : Val) : ASeg :=
  ⟨codeKeys codes, vals, globalIdx codes.length, j⟩

theorem wholeSeg_aligned (codes : List Int) (vals : List Val) (j : Val) (hlen : codes.length = vals.length) :
    (wholeSeg codes vals j).Aligned := by
  constructor
  · simp [codeKeys, hlen]
  · simp [codeKeys, globalIdx]

theorem wholeSeg_pairs_fst (codes : List Int) (vals : List Val) (j : Val) (hlen : codes.length = vals.length)
    (g : Int) : ((wholeSeg codes vals j).pairs (some (g : Rat))).map (·.1) = members g codes vals := by
  rw [ASeg.pairs_fst _ (wholeSeg_aligned codes vals j hlen)]
  exact membersK_codeKeys g codes vals

/-- **the index column is the specification's index**: on a label with a selectable member, `argPick` over the
    (value, global index) pairs of the label is the position IN THE WHOLE ARRAY of the first occurrence of the extreme -/
theorem argPick_wholeSeg (k : Kernel) (hk : isArgKernel k = true) (codes : List Int) (vals : List Val) (j junk : Val)
    (hlen : codes.length = vals.length) (g : Int)
    (hg : goodP k ((wholeSeg codes vals j).pairs (some (g : Rat)))) :
    argPick k junk ((wholeSeg codes vals j).pairs (some (g : Rat)))
      = Val.ofNat ((Spec.positions g codes).getD (argBest (argBetter k) (members g codes vals)) 0) := by
  have hal := wholeSeg_aligned codes vals j hlen
  rw [argPick_good k hk junk _ hg, wholeSeg_pairs_fst codes vals j hlen g]
  have hne : members g codes vals ≠ [] := by
    have := goodP_ne_nil hg
    intro e
    apply this
    have h := wholeSeg_pairs_fst codes vals j hlen g
    rw [e] at h
    exact List.map_eq_nil_iff.mp h
  have hlt := argBest_lt (argBetter k) _ hne
  have hlenpos : (members g codes vals).length = (Spec.positions g codes).length := by
    rw [← membersK_codeKeys g codes vals, membersK_length _ _ _ (by simp [codeKeys, hlen]), memberPosK_codeKeys]
  rw [hlenpos] at hlt
  rw [ASeg.pairs_eq_map_pos _ hal, memberPosK_codeKeys, getD_map_lt _ _ _ _ hlt]
  simp only
  have hmem : (Spec.positions g codes)[argBest (argBetter k) (members g codes vals)] ∈
      memberPosK (some (g : Rat)) (codeKeys codes) := by
    rw [memberPosK_codeKeys]; exact List.getElem_mem _
  have hb := (mem_memberPosFrom hmem).2
  rw [globalIdx_getD _ _ (by simpa [codeKeys] using hb)]
  simp [List.getD_eq_getElem?_getD, hlt]

/-! ### the specification, slot by slot -/

theorem specIsArg_eq (k : Kernel) : Spec.isArg k = isArgKernel k := by cases k <;> rfl

/-- the specification slot of an arg-reduction, with `none` read as flox's `ValueError` -/
def specArgSlot (R : Resolved) (k : Kernel) (pos : List Nat) (ms : List Val) : Except String Val :=
  optToExcept (Spec.argSlot k R.minCount R.userFill pos ms)

theorem specResult_arg_slots (k : Kernel) (hk : isArgKernel k = true) (R : Resolved) (codes : List Int)
    (vals : List Val) (n : Nat) :
    specResult k R codes vals n
      = (List.range n).mapM fun (g : Nat) =>
          specArgSlot R k (Spec.positions (Int.ofNat g) codes) (members (Int.ofNat g) codes vals) := by
  have h := mapM_option_toExcept
    (fun (g : Nat) => Spec.argSlot k R.minCount R.userFill (Spec.positions (Int.ofNat g) codes)
      (members (Int.ofNat g) codes vals)) (List.range n)
  unfold specResult Spec.reduce
  simp only [specIsArg_eq, hk, if_true]
  cases hm : (List.range n).mapM
      (fun (g : Nat) => Spec.argSlot k R.minCount R.userFill (Spec.positions (Int.ofNat g) codes)
        (members (Int.ofNat g) codes vals)) with
  | none => rw [hm] at h; exact h
  | some vs => rw [hm] at h; exact h

/-- value of the specification slot on a non-empty, unmasked group -/
theorem specArgSlot_unmasked (R : Resolved) (k : Kernel) (hk : isArgKernel k = true) (pos : List Nat) (ms : List Val)
    (hne : ms ≠ []) (hun : ¬ Spec.validCount ms < R.minCount) :
    specArgSlot R k pos ms = .ok (Val.ofNat (pos.getD (argBest (argBetter k) ms) 0)) := by
  have hne' : ms.isEmpty = false := by simpa using hne
  unfold specArgSlot Spec.argSlot
  simp only [hne', Bool.false_eq_true, if_false, hun, kEval_arg k hk]
  simp [Val.ofNat, optToExcept]

/-! ### the named hypotheses -/

/-- (H_notallnan) `nanargmax` / `nanargmin`: a requested label that occurs has at least one non-NaN member, unless the
    count mask is on (`min_count ≥ 1` masks an all-NaN group).  NumPy raises "All-NaN slice encountered" there; the
    model stores a junk index. -/
def HNotAllNaN (k : Kernel) (R : Resolved) (ms : List Val) : Prop :=
  k.skipsNaN = true → ms ≠ [] → R.minCount ≥ 1 ∨ dropNaN ms ≠ []

instance (k : Kernel) (R : Resolved) (ms : List Val) : Decidable (HNotAllNaN k R ms) := by
  unfold HNotAllNaN; infer_instance

theorem finalizeVals_second (R : Resolved) (cols : List (List Val)) (h : R.finalize = "second") :
    finalizeVals R cols = cols.getD 1 [] := by
  unfold finalizeVals
  rw [h]
  rfl

/-! ### `runKnown … (.mapreduce false)` for an arg-reduction, slot by slot -/

/-- what the map-reduce path puts into the slot of group `g` -/
def argMrSlot (k : Kernel) (R : Resolved) (codes : List Int) (vals : List Val) (j : Val) (g : Int) :
    Except String Val :=
  maskedSlot R (countVal (members g codes vals))
    (argPick k j ((wholeSeg codes vals j).pairs (some (g : Rat))))

theorem runKnown_arg_slots (k : Kernel) (R : Resolved) (c : Call) (n : Nat) (floatData : Bool)
    (chunks : List Nat) (codes : List Int) (vals : List Val)
    (hR : c.R = R) (heng : c.eng = .npg) (hn : c.ngroups = n) (hf : ArgFits k R) (hcodes : CodesOK codes n)
    (hlen : codes.length = vals.length) (hne : codes ≠ [])
    (hchunks : chunks ≠ []) (hsum : chunks.sum = codes.length)
    (H_dropped : HDropped R codes vals) :
    ∃ j : Val, runKnown c (.mapreduce false) floatData chunks (codeKeys codes) vals
      = (List.range n).mapM fun (g : Nat) =>
          if members (Int.ofNat g) codes vals = [] then fillOrError R.userFill
          else argMrSlot k R codes vals j (Int.ofNat g) := by
  subst hR
  have hklen : (codeKeys codes).length = codes.length := by simp [codeKeys]
  have hcombine : useGroupedCombine c floatData = true := by simp [useGroupedCombine, hf.isArg]
  obtain ⟨j, hj⟩ := mapreduce_argNode c hf heng false chunks (codeKeys codes) vals c.splitEvery hchunks
    (by omega) (by omega)
  refine ⟨j, ?_⟩
  simp only [runKnown, hcombine, if_true]
  rw [heng, hj, hklen]
  have hpk := presentKeys_codeKeys_ne_nil codes hne
  have hfne : foundOf c.sort (codeKeys codes) ≠ [] :=
    fun h => hpk ((presentKeys_nil_iff_foundOf c.sort _).mpr h)
  -- the combined intermediate
  have hx : aNode k c.R c.sort (wholeSeg codes vals j)
      = { groups := (foundOf c.sort (codeKeys codes)).map some,
          cols := [ (foundOf c.sort (codeKeys codes)).map
                      (fun r => (blockPairN k j ((wholeSeg codes vals j).pairs (some r))).1),
                    (foundOf c.sort (codeKeys codes)).map
                      (fun r => (blockPairN k j ((wholeSeg codes vals j).pairs (some r))).2) ]
                  ++ (if decide (c.R.minCount > 0) then
                        [(foundOf c.sort (codeKeys codes)).map fun r => countVal (membersK (some r) (codeKeys codes) vals)]
                      else []) } := by
    simp only [aNode, argNode, hpk, if_false]
  rw [hx, hn]
  refine (finish_sparse c c.R n _ (foundOf c.sort (codeKeys codes))
    (fun r => argPick k j ((wholeSeg codes vals j).pairs (some r)))
    (fun r => countVal (membersK (some r) (codeKeys codes) vals)) hn rfl hfne (nodup_foundOf _ _)
    (by
      rw [finalizeVals_second _ _ hf.fin]
      by_cases hm : c.R.minCount > 0 <;> simp [hm, blockPairN])
    (by
      intro hm
      simp [hm])).trans ?_
  rw [sparse_slots n (foundOf c.sort (codeKeys codes)) _ c.R.userFill (nodup_foundOf _ _)]
  · apply mapM_except_congr
    intro g _
    have hmem : (g : Rat) ∈ foundOf c.sort (codeKeys codes) ↔ members (Int.ofNat g) codes vals ≠ [] := by
      rw [mem_foundOf, natCast_rat_eq g, ← membersK_codeKeys]
      constructor
      · intro h; exact membersK_ne_nil_of_mem _ _ _ h (by omega)
      · intro h
        apply Classical.byContradiction
        intro hnot
        exact h (membersK_eq_nil_of_not_mem _ _ _ hnot)
    by_cases hm : members (Int.ofNat g) codes vals = []
    · have : ¬ (g : Rat) ∈ foundOf c.sort (codeKeys codes) := fun h => hmem.mp h hm
      simp only [this, hm, if_false, if_true]
    · have : (g : Rat) ∈ foundOf c.sort (codeKeys codes) := hmem.mpr hm
      simp only [this, hm, if_false, if_true, argMrSlot]
      rw [natCast_rat_eq g, membersK_codeKeys]
  · intro r e he
    rw [maskedSlot_countVal] at he
    split at he
    · cases huf : c.R.userFill with
      | none => simp [huf, fillOrError, optToExcept] at he; exact he.symm
      | some f => simp [huf, fillOrError, optToExcept] at he
    · cases he
  · intro r hr
    obtain ⟨cd, hcd, rfl⟩ := mem_codeKeys.mp ((mem_foundOf _ _ _).mp hr)
    have hb := hcodes cd hcd
    by_cases h0 : 0 ≤ cd
    · left
      refine ⟨cd.toNat, by omega, ?_⟩
      rw [natCast_rat_eq]
      congr 1
      simp only [Int.ofNat_eq_natCast]
      omega
    · right
      have hcd1 : cd = -1 := by omega
      subst hcd1
      rw [maskedSlot_countVal, membersK_codeKeys]
      by_cases hmask : c.R.minCount > 0 ∧ Spec.validCount (members (-1) codes vals) < c.R.minCount
      · cases huf : c.R.userFill with
        | none =>
          have := H_dropped huf hmask.1 hcd
          omega
        | some f => exact ⟨f, by simp [hmask, fillOrError, optToExcept]⟩
      · exact ⟨argPick k j ((wholeSeg codes vals j).pairs (some (((-1 : Int)) : Rat))),
          by simp only [hmask, if_false]⟩

/-- map-reduce slot = specification slot -/
theorem argMrSlot_eq_spec (k : Kernel) (R : Resolved) (hf : ArgFits k R) (codes : List Int) (vals : List Val)
    (j : Val) (hlen : codes.length = vals.length) (g : Int) (hm : members g codes vals ≠ [])
    (H_notallnan : HNotAllNaN k R (members g codes vals)) :
    argMrSlot k R codes vals j g = specArgSlot R k (Spec.positions g codes) (members g codes vals) := by
  unfold argMrSlot
  rw [maskedSlot_countVal]
  by_cases hlt : Spec.validCount (members g codes vals) < R.minCount
  · have hpos : R.minCount > 0 := by omega
    have hne' : (members g codes vals).isEmpty = false := by simpa using hm
    simp [hlt, hpos, specArgSlot, Spec.argSlot, hne', fillOrError]
  · have hcond : ¬ (R.minCount > 0 ∧ Spec.validCount (members g codes vals) < R.minCount) := fun h => hlt h.2
    rw [if_neg hcond, specArgSlot_unmasked R k hf.hk _ _ hm hlt]
    congr 1
    apply argPick_wholeSeg k hf.hk codes vals j j hlen g
    -- the label has a selectable member
    have hfst := wholeSeg_pairs_fst codes vals j hlen g
    unfold goodP
    split
    · rename_i hs
      have hd : dropNaN (members g codes vals) ≠ [] := by
        rcases H_notallnan hs hm with h | h
        · intro e
          apply hlt
          simp only [Spec.validCount, e, List.length_nil]
          omega
        · exact h
      intro e
      apply hd
      rw [← hfst, dropNaN_map_fst, e]; rfl
    · intro e
      apply hm
      rw [← hfst, e]; rfl

/-- **G2, END TO END (C06).**  Map-reduce of an arg-reduction (`argmax`, `argmin`, `nanargmax`, `nanargmin`; repaired
    blueprints, float data, with or without `min_count`) through `_grouped_combine` equals the specification – the slot
    of every requested label is the position IN THE WHOLE ARRAY of the first occurrence of the label's extreme – for
    EVERY chunking and EVERY `split_every`.

    * `argmax` / `argmin`: NO hypothesis on NaNs (a NaN is the extreme, first NaN wins, as in NumPy);
    * `nanargmax` / `nanargmin`: `H_notallnan` – every occurring requested label has a non-NaN member (or the count
      mask is on);
    * `H_dropped` as for every grouped combine (count mask applied to the group of dropped elements). -/
theorem mapreduce_arg_eq_spec (k : Kernel) (R : Resolved) (c : Call) (n : Nat) (floatData : Bool)
    (chunks : List Nat) (codes : List Int) (vals : List Val)
    (hR : c.R = R) (heng : c.eng = .npg) (hn : c.ngroups = n) (hf : ArgFits k R) (hcodes : CodesOK codes n)
    (hlen : codes.length = vals.length) (hne : codes ≠ [])
    (hchunks : chunks ≠ []) (hsum : chunks.sum = codes.length)
    (H_notallnan : ∀ g : Nat, g < n → HNotAllNaN k R (members (Int.ofNat g) codes vals))
    (H_dropped : HDropped R codes vals) :
    runKnown c (.mapreduce false) floatData chunks (codeKeys codes) vals = specResult k R codes vals n := by
  obtain ⟨j, hj⟩ := runKnown_arg_slots k R c n floatData chunks codes vals hR heng hn hf hcodes hlen hne hchunks hsum
    H_dropped
  rw [hj, specResult_arg_slots k hf.hk]
  apply mapM_except_congr
  intro g hg
  by_cases hm : members (Int.ofNat g) codes vals = []
  · rw [if_pos hm]
    unfold specArgSlot Spec.argSlot
    rw [hm]
    rfl
  · simp only [hm, if_false]
    exact argMrSlot_eq_spec k R hf codes vals j hlen _ hm (H_notallnan g (List.mem_range.mp hg))

/-- the result does not depend on the chunking nor on `split_every` -/
theorem mapreduce_arg_chunking_tree_irrelevant (k : Kernel) (R : Resolved) (c₁ c₂ : Call) (n : Nat)
    (floatData : Bool) (chunks₁ chunks₂ : List Nat) (codes : List Int) (vals : List Val)
    (hR₁ : c₁.R = R) (heng₁ : c₁.eng = .npg) (hn₁ : c₁.ngroups = n)
    (hR₂ : c₂.R = R) (heng₂ : c₂.eng = .npg) (hn₂ : c₂.ngroups = n)
    (hf : ArgFits k R) (hcodes : CodesOK codes n)
    (hlen : codes.length = vals.length) (hne : codes ≠ [])
    (hchunks₁ : chunks₁ ≠ []) (hsum₁ : chunks₁.sum = codes.length)
    (hchunks₂ : chunks₂ ≠ []) (hsum₂ : chunks₂.sum = codes.length)
    (H_notallnan : ∀ g : Nat, g < n → HNotAllNaN k R (members (Int.ofNat g) codes vals))
    (H_dropped : HDropped R codes vals) :
    runKnown c₁ (.mapreduce false) floatData chunks₁ (codeKeys codes) vals
      = runKnown c₂ (.mapreduce false) floatData chunks₂ (codeKeys codes) vals := by
  rw [mapreduce_arg_eq_spec k R c₁ n floatData chunks₁ codes vals hR₁ heng₁ hn₁ hf hcodes hlen hne hchunks₁ hsum₁
      H_notallnan H_dropped,
    mapreduce_arg_eq_spec k R c₂ n floatData chunks₂ codes vals hR₂ heng₂ hn₂ hf hcodes hlen hne hchunks₂ hsum₂
      H_notallnan H_dropped]

end Flox.Grp
