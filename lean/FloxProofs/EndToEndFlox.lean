/-
  The end-to-end theorems with flox's own engine (`engine="flox"`): every kernel except `mean` / `nanmean` is either
  implemented by `aggregate_flox` and proved equal to the numpy_groupies wrapper (`floxGrouped_eq_npgGrouped`), or
  falls back to numpy_groupies; flox's own `mean` / `nanmean` agree with numpy_groupies when the fill is NaN.
-/
import FloxProofs.EndToEnd

namespace Flox

/-- kernels for which `engine="flox"` and `engine="numpy"` return the same grouped array
    (all but flox's own `mean` / `nanmean`, which divide `fill` by a zero count in absent slots) -/
def floxAgrees (k : Kernel) : Prop := k ≠ .mean ∧ k ≠ .nanmean

theorem floxGrouped_eq_npgGrouped' (k : Kernel) (hk : floxAgrees k)
    (codes : List Int) (vals : List Val) (size : Nat) (fill : Val) (hlen : codes.length = vals.length)
    (hfill : k = .nanlen ∨ k = .nansumsq → fill = Val.zero) :
    floxGrouped k codes vals size fill = npgGrouped k codes vals size fill := by
  by_cases hL : k ∈ [Kernel.sum, .prod, .max, .min, .nansum, .nanprod, .nanmax, .nanmin, .sumsq, .nansumsq, .nanlen]
  · exact floxGrouped_eq_npgGrouped k hL codes vals size fill hlen hfill
  · obtain ⟨h1, h2⟩ := hk
    unfold floxGrouped
    have : EngineFlox.run? k codes vals size fill = none := by
      cases k <;> first | rfl | (exfalso; simp at hL h1 h2)
    rw [this]

/-- … and flox's own `mean` / `nanmean` agree with numpy_groupies when the fill is NaN (`NaN / 0 = NaN`) -/
def floxAgreesAt (k : Kernel) (fill : Val) : Prop := floxAgrees k ∨ fill = Val.nan

theorem floxGrouped_mean_nan (codes : List Int) (vals : List Val) (size : Nat) :
    floxGrouped .mean codes vals size Val.nan = npgGrouped .mean codes vals size Val.nan := by
  unfold floxGrouped
  rw [EngineFlox.run_mean, npgGrouped_eq_blockVal_dn .mean Val.nan codes vals size rfl (by simp)]
  simp only
  apply List.map_congr_left
  intro g _
  generalize members (Int.ofNat g) codes vals = ms
  by_cases h : ms = []
  · simp [h, blockVal, Val.div]
  · simp [h, blockVal, Kernel.skipsNaN]

theorem floxGrouped_nanmean_nan (codes : List Int) (vals : List Val) (size : Nat) :
    floxGrouped .nanmean codes vals size Val.nan = npgGrouped .nanmean codes vals size Val.nan := by
  unfold floxGrouped
  rw [EngineFlox.run_nanmean, npgGrouped_eq_blockVal_dn .nanmean Val.nan codes vals size rfl (by simp)]
  simp only
  apply List.map_congr_left
  intro g _
  generalize members (Int.ofNat g) codes vals = ms
  by_cases h : ms = []
  · simp [h, blockVal, Val.div]
  · by_cases hd : dropNaN ms = []
    · simp [h, hd, blockVal, Kernel.skipsNaN, allNaNVal, EngineFlox.kEval_nanmean_allNaN _ hd]
    · simp [h, hd, blockVal, Kernel.skipsNaN]

theorem floxGrouped_eq_npgGrouped'' (k : Kernel) (fill : Val) (hk : floxAgreesAt k fill)
    (codes : List Int) (vals : List Val) (size : Nat) (hlen : codes.length = vals.length)
    (hfill : k = .nanlen ∨ k = .nansumsq → fill = Val.zero) :
    floxGrouped k codes vals size fill = npgGrouped k codes vals size fill := by
  by_cases h : floxAgrees k
  · exact floxGrouped_eq_npgGrouped' k h codes vals size fill hlen hfill
  · have hf : fill = Val.nan := hk.resolve_left h
    subst hf
    unfold floxAgrees at h
    by_cases h1 : k = .mean
    · subst h1; exact floxGrouped_mean_nan codes vals size
    · have h2 : k = .nanmean := by
        by_cases h2 : k = .nanmean
        · exact h2
        · exact absurd ⟨h1, h2⟩ h
      subst h2; exact floxGrouped_nanmean_nan codes vals size

theorem engineCall_flox (k : Kernel) (fill : Val) (hk : floxAgreesAt k fill)
    (codes : List Int) (vals : List Val) (size : Nat) (hlen : codes.length = vals.length)
    (hfill : k = .nanlen ∨ k = .nansumsq → fill = Val.zero) :
    engineCall .flox k codes vals size fill = engineCall .npg k codes vals size fill := by
  unfold engineCall
  split
  · rfl
  · exact floxGrouped_eq_npgGrouped'' k fill hk codes vals size hlen hfill

theorem factorizeKeys_codes_length (keys : List Key) (expected : Option Nat) (sort : Bool) :
    (factorizeKeys keys expected sort).2.length = keys.length := by
  cases expected <;> simp [factorizeKeys]

theorem chunkReduce_flox (ks : List Kernel) (fills : List Val) (keys : List Key) (vals : List Val)
    (expected : Option Nat) (sort : Bool)
    (hks : ∀ p ∈ ks.zip fills, floxAgreesAt p.1 p.2)
    (hz : ∀ p ∈ ks.zip fills, (p.1 = .nanlen ∨ p.1 = .nansumsq) → p.2 = Val.zero)
    (hlen : keys.length = vals.length) :
    chunkReduce .flox ks fills keys vals expected sort = chunkReduce .npg ks fills keys vals expected sort := by
  have hl := factorizeKeys_codes_length keys expected sort
  unfold chunkReduce
  generalize factorizeKeys keys expected sort = fc at hl
  obtain ⟨found, codes⟩ := fc
  simp only at hl ⊢
  congr 1
  apply List.map_congr_left
  intro p hp
  obtain ⟨k, fv⟩ := p
  simp only
  split
  · rfl
  · rw [engineCall_flox k fv (hks (k, fv) hp) _ vals _ (by simp [hl, hlen]) (hz (k, fv) hp)]

theorem splitBy_zip_aligned {α β} (chunks : List Nat) (xs : List α) (ys : List β) (h : xs.length = ys.length) :
    ∀ p ∈ (splitBy chunks xs).zip (splitBy chunks ys), p.1.length = p.2.length := by
  induction chunks generalizing xs ys with
  | nil => intro p hp; simp [splitBy] at hp
  | cons n ns ih =>
    intro p hp
    simp only [splitBy, List.zip_cons_cons, List.mem_cons] at hp
    rcases hp with rfl | hp
    · simp [h]
    · exact ih (xs.drop n) (ys.drop n) (by simp [h]) p hp

/-- the `Call` with the numpy_groupies engine instead -/
abbrev Call.withNpg (c : Call) : Call := { c with eng := .npg }

theorem blockStage_flox (c : Call) (chunks : List Nat) (keys : List Key) (vals : List Val)
    (heng : c.eng = .flox) (harg : c.R.isArg = false)
    (hks : ∀ p ∈ c.R.chunk.zip c.R.interFills, floxAgreesAt p.1 p.2)
    (hz : ∀ p ∈ c.R.chunk.zip c.R.interFills, (p.1 = .nanlen ∨ p.1 = .nansumsq) → p.2 = Val.zero)
    (hlen : keys.length = vals.length) :
    blockStage c true chunks keys vals = blockStage c.withNpg true chunks keys vals := by
  rw [blockStage_eq c chunks keys vals harg, blockStage_eq c.withNpg chunks keys vals harg, heng]
  apply List.map_congr_left
  intro p hp
  exact chunkReduce_flox _ _ _ _ _ _ hks hz (splitBy_zip_aligned chunks keys vals hlen p hp)

theorem runKnown_eager_flox (c : Call) (floatData : Bool) (chunks : List Nat) (keys : List Key) (vals : List Val)
    (heng : c.eng = .flox)
    (hks : ∀ p ∈ c.R.numpy.zip c.R.numpyFills, floxAgreesAt p.1 p.2)
    (hz : ∀ p ∈ c.R.numpy.zip c.R.numpyFills, (p.1 = .nanlen ∨ p.1 = .nansumsq) → p.2 = Val.zero)
    (hlen : keys.length = vals.length) :
    runKnown c .eager floatData chunks keys vals = runKnown c.withNpg .eager floatData chunks keys vals := by
  simp only [runKnown]
  rw [heng, chunkReduce_flox _ _ _ _ _ _ hks hz hlen]
  rfl

theorem runKnown_mapreduce_flox (c : Call) (floatData : Bool) (chunks : List Nat) (keys : List Key)
    (vals : List Val)
    (heng : c.eng = .flox) (harg : c.R.isArg = false)
    (hks : ∀ p ∈ c.R.chunk.zip c.R.interFills, floxAgreesAt p.1 p.2)
    (hz : ∀ p ∈ c.R.chunk.zip c.R.interFills, (p.1 = .nanlen ∨ p.1 = .nansumsq) → p.2 = Val.zero)
    (hlen : keys.length = vals.length)
    (hcombine : useGroupedCombine c floatData = false) :
    runKnown c (.mapreduce true) floatData chunks keys vals
      = runKnown c.withNpg (.mapreduce true) floatData chunks keys vals := by
  have hcombine' : useGroupedCombine c.withNpg floatData = false := hcombine
  simp only [runKnown, hcombine, hcombine', Bool.false_eq_true, if_false]
  rw [blockStage_flox c chunks keys vals heng harg hks hz hlen]
  rfl

theorem Shape.Fits.chunk_floxAgrees {s : Shape} {R : Resolved} (hs : s.Fits R) :
    ∀ p ∈ R.chunk.zip R.interFills, floxAgreesAt p.1 p.2 := by
  intro p hp
  have hk : p.1 ∈ R.chunk := (List.of_mem_zip hp).1
  obtain ⟨j, hj, hjk⟩ := List.getElem_of_mem hk
  have := floatColumns_kernel (hs.col_mem j hj)
  rw [hjk] at this
  exact Or.inl ⟨this.2.1, this.2.2.1⟩

/-- is it one of the two `mean` shapes? -/
def Shape.isMean : Shape → Bool
  | .mean _ => true
  | _ => false

/-- (H_floxmean) flox's own `mean` / `nanmean` kernels put `fill / 0` into absent slots: harmless iff the fill is NaN -/
def HFloxMean (R : Resolved) (s : Shape) : Prop := s.isMean = true → R.npFill = Val.nan

instance (R : Resolved) (s : Shape) : Decidable (HFloxMean R s) := by unfold HFloxMean; infer_instance

theorem Shape.Fits.numpy_floxAgrees {s : Shape} {R : Resolved} (hs : s.Fits R) (hmean : HFloxMean R s) :
    ∀ p ∈ R.numpy.zip R.numpyFills, floxAgreesAt p.1 p.2 := by
  have hk0 : floxAgreesAt s.kernel R.npFill := by
    cases s with
    | simple k c f =>
      have := floatColumns_kernel hs.simple_mem
      exact Or.inl ⟨this.2.1, this.2.2.1⟩
    | mean b => exact Or.inr (hmean rfl)
    | var b d => cases b <;> exact Or.inl (by simp [floxAgrees, Shape.kernel])
  rw [hs.numpy, hs.numpyFills]
  intro p hp
  by_cases hm : R.minCount > 0
  · simp only [cntSuffix, hm, if_true, List.zip_cons_cons, List.zip_nil_right, List.mem_cons,
      List.mem_nil_iff, or_false] at hp
    rcases hp with rfl | rfl
    · exact hk0
    · exact Or.inl (by simp [floxAgrees])
  · simp only [cntSuffix, hm, if_false, List.zip_cons_cons, List.zip_nil_right, List.mem_cons,
      List.mem_nil_iff, or_false] at hp
    subst hp
    exact hk0

theorem codeKeys_length (codes : List Int) : (codeKeys codes).length = codes.length := by simp [codeKeys]

/-! ### the end-to-end theorems with `engine="flox"` -/

/-- eager = specification with flox's own engine, for every shape; for the `mean` / `nanmean` shapes the NumPy fill
    must be NaN (H_floxmean; it is, in every float row of the registry).  In particular this covers every shape whose
    NumPy kernel is in the list of `floxEngine_eq_blockVal`. -/
theorem eager_eq_spec_flox (R : Resolved) (s : Shape) (c : Call) (n : Nat) (floatData : Bool)
    (chunks : List Nat) (codes : List Int) (vals : List Val)
    (hR : c.R = R) (heng : c.eng = .flox) (hn : c.ngroups = n) (hknown : c.knownLabels = true)
    (hshape : R.shape? = some s) (hmean : HFloxMean R s)
    (hcodes : CodesOK codes n) (hlen : codes.length = vals.length)
    (H_absent : ∀ g : Nat, g < n → HAbsent R (members (Int.ofNat g) codes vals))
    (H_allnan : HAllNaN R s) :
    runKnown c .eager floatData chunks (codeKeys codes) vals = specResult s.kernel R codes vals n := by
  have hs := (R.shape?_eq_some_iff s).mp hshape
  subst hR
  rw [runKnown_eager_flox c floatData chunks _ vals heng (hs.numpy_floxAgrees hmean) hs.numpy_zero
    (by rw [codeKeys_length, hlen])]
  exact eager_eq_spec c.R s c.withNpg n floatData chunks codes vals rfl rfl hn hknown hshape hcodes hlen
    H_absent H_allnan

/-- map-reduce (dense blocks, simple combine) = specification with flox's own engine, for EVERY shape
    (the chunk kernels of all shapes are implemented by `aggregate_flox` or fall back to numpy_groupies) -/
theorem mapreduce_dense_eq_spec_flox (R : Resolved) (s : Shape) (c : Call) (n : Nat) (floatData : Bool)
    (chunks : List Nat) (codes : List Int) (vals : List Val)
    (hR : c.R = R) (heng : c.eng = .flox) (hn : c.ngroups = n) (hknown : c.knownLabels = true)
    (hshape : R.shape? = some s) (hcodes : CodesOK codes n) (hlen : codes.length = vals.length)
    (H_absent : ∀ g : Nat, g < n → HAbsent R (members (Int.ofNat g) codes vals))
    (H_minmax : HMinMax R s)
    (hchunks : chunks ≠ []) (hsum : chunks.sum = codes.length)
    (hcombine : useGroupedCombine c floatData = false) :
    runKnown c (.mapreduce true) floatData chunks (codeKeys codes) vals = specResult s.kernel R codes vals n := by
  have hs := (R.shape?_eq_some_iff s).mp hshape
  subst hR
  rw [runKnown_mapreduce_flox c floatData chunks _ vals heng hs.isArg hs.chunk_floxAgrees hs.chunk_zero
    (by rw [codeKeys_length, hlen]) hcombine]
  exact mapreduce_dense_eq_spec c.R s c.withNpg n floatData chunks codes vals rfl rfl hn hknown hshape hcodes hlen
    H_absent H_minmax hchunks hsum hcombine

/-- map-reduce = eager with flox's own engine -/
theorem mapreduce_dense_eq_eager_flox (R : Resolved) (s : Shape) (c : Call) (n : Nat) (floatData : Bool)
    (chunks chunks' : List Nat) (codes : List Int) (vals : List Val)
    (hR : c.R = R) (heng : c.eng = .flox) (hn : c.ngroups = n) (hknown : c.knownLabels = true)
    (hshape : R.shape? = some s) (hmean : HFloxMean R s)
    (hcodes : CodesOK codes n) (hlen : codes.length = vals.length)
    (H_absent : ∀ g : Nat, g < n → HAbsent R (members (Int.ofNat g) codes vals))
    (H_allnan : HAllNaN R s) (H_minmax : HMinMax R s)
    (hchunks : chunks ≠ []) (hsum : chunks.sum = codes.length)
    (hcombine : useGroupedCombine c floatData = false) :
    runKnown c (.mapreduce true) floatData chunks (codeKeys codes) vals
      = runKnown c .eager floatData chunks' (codeKeys codes) vals := by
  rw [mapreduce_dense_eq_spec_flox R s c n floatData chunks codes vals hR heng hn hknown hshape hcodes hlen H_absent
      H_minmax hchunks hsum hcombine,
    eager_eq_spec_flox R s c n floatData chunks' codes vals hR heng hn hknown hshape hmean hcodes hlen H_absent
      H_allnan]

/-- engine independence, end to end: `engine="flox"` and `engine="numpy"` give the same eager result -/
theorem eager_engine_irrelevant (R : Resolved) (s : Shape) (c : Call) (floatData : Bool)
    (chunks : List Nat) (keys : List Key) (vals : List Val)
    (hR : c.R = R) (heng : c.eng = .flox) (hshape : R.shape? = some s) (hmean : HFloxMean R s)
    (hlen : keys.length = vals.length) :
    runKnown c .eager floatData chunks keys vals = runKnown c.withNpg .eager floatData chunks keys vals := by
  have hs := (R.shape?_eq_some_iff s).mp hshape
  subst hR
  exact runKnown_eager_flox c floatData chunks keys vals heng (hs.numpy_floxAgrees hmean) hs.numpy_zero hlen

end Flox
