/-
  The metadata model of `xarray_reduce` produces the dims of native xarray's groupby, on the supported calls.
-/
import FloxProofs.XDims

namespace Flox.XDims

/-- The calls on which flox and native xarray are claimed to agree on the result dims.  Every field is a named
    restriction; FloxProps/C15.lean shows by counterexample that each of the starred ones is necessary. -/
structure Supported (c : Call) (t : List Dim) : Prop where
  /-- every data variable has all grouper dims (no `xr.broadcast`)                                   (*) -/
  noBroadcast : needsBroadcast c = false
  varsNodup : ∀ v ∈ c.vars, v.2.Nodup
  /-- a group name that is also a dim of a variable is the grouper's own dimension coordinate -/
  groupNamesFresh : ∀ g ∈ c.groupers, ∀ v ∈ c.vars, groupName g ∈ v.2 → g.isbin = false ∧ g.dims = [g.name]
  /-- binning reduces at least one dim of the grouper (otherwise native does a plain reduction)        (*) -/
  binsReduceGrouperDim : c.groupers.any (·.isbin) = true → t.all (· ∉ grouperDims c.groupers) = false
  /-- the plain-reduction shortcut is compared only for groupers along one dim                        (*) -/
  shortcutOneDim : shortcut c t = true → (grouperDims c.groupers).length = 1
  /-- N-D groupers and several groupers: all grouper dims are reduced (native refuses anything else) -/
  nativeDefined : shortcut c t = false →
    (∃ g d, c.groupers = [g] ∧ g.dims = [d]) ∨ ∀ x ∈ grouperDims c.groupers, x ∈ t
  /-- `_restore_dim_order` recognises the group dim: not binned if 1-D, and 1-D and not binned in a Dataset  (*) -/
  groupDimRecognised : ∀ g, c.groupers = [g] → shortcut c t = false →
    (c.isDataset = true → g.isbin = false ∧ g.dims.length = 1) ∧
    (c.isDataset = false → g.dims.length = 1 → g.isbin = false)
  /-- pass-through variables are compared for one grouper only                                         (*) -/
  passThroughOneGrouper : shortcut c t = false → ∀ v ∈ c.vars, missing c t v.2 = true → c.groupers.length = 1
  /-- a reduced variable has every reduced dim (otherwise apply_ufunc raises)                          (*) -/
  coreDimsPresent : shortcut c t = false → ∀ v ∈ c.vars, missing c t v.2 = false → ∀ x ∈ t, x ∈ v.2

theorem dimTuple_native (c : Call) (t : List Dim) (ht : dimTuple c = .ok t) : t = nativeReduced c := by
  unfold dimTuple at ht
  unfold nativeReduced
  cases hdim : c.dim with
  | none =>
    simp only [hdim] at ht ⊢
    split at ht
    · exact absurd ht (by simp)
    · simp only [Except.ok.injEq] at ht; exact ht.symm
  | explicit ds =>
    simp only [hdim] at ht ⊢
    split at ht
    · exact absurd ht (by simp)
    · simp only [Except.ok.injEq] at ht; exact ht.symm
  | ellipsis =>
    simp only [hdim] at ht ⊢
    match hg : c.groupers with
    | [g] =>
      simp only [hg] at ht
      split at ht
      · exact absurd ht (by simp)
      · simp only [Except.ok.injEq] at ht; exact ht.symm
    | [] => simp [hg] at ht
    | _ :: _ :: _ => simp [hg] at ht

theorem gd_subset (c : Call) (h : needsBroadcast c = false) (v : String × List Dim) (hv : v ∈ c.vars) :
    ∀ x ∈ grouperDims c.groupers, x ∈ v.2 := by
  intro x hx
  unfold needsBroadcast at h
  rw [List.any_eq_false] at h
  have := h v hv
  simp only [Bool.not_eq_true, Bool.not_eq_false', List.all_eq_true, decide_eq_true_eq] at this
  exact this x hx

theorem groupNames_single (g : Grouper) : groupNames [g] = [groupName g] := rfl

theorem grouperDims_single_1d (n : String) (d : Dim) (b : Bool) (bn : String) : grouperDims [⟨n, [d], b, bn⟩] = [d] := by
  simp [grouperDims, addNew]

theorem xdims_eq_native (c : Call) (t : List Dim) (ht : dimTuple c = .ok t) (S : Supported c t)
    (v : String × List Dim) (hvm : v ∈ c.vars) : varDims c t v.1 v.2 = .ok (nativeVarDims c v.2) := by
  have hnat := dimTuple_native c t ht
  have hgv := gd_subset c S.noBroadcast v hvm
  have hb : bdims c t v.2 = v.2 := by simp [bdims, S.noBroadcast]
  unfold varDims nativeVarDims
  rw [← hnat]
  by_cases hs : shortcut c t = true
  · -- the plain-reduction shortcut
    have hall : t.all (· ∉ grouperDims c.groupers) = true := by
      unfold shortcut at hs; simp only [Bool.and_eq_true] at hs; exact hs.1
    have hlen := S.shortcutOneDim hs
    have hgd : (grouperDims c.groupers).filter (· ∉ v.2) = [] := by
      rw [List.filter_eq_nil_iff]; intro x hx; simpa using hgv x hx
    simp only [hs, if_true, hb, hall, hlen, hgd, List.nil_append]
  · have hs' : shortcut c t = false := by simpa using hs
    have hall : t.all (· ∉ grouperDims c.groupers) = false := by
      by_cases hbin : c.groupers.any (·.isbin) = true
      · exact S.binsReduceGrouperDim hbin
      · unfold shortcut at hs'
        simp only [Bool.not_eq_true] at hbin
        simpa [hbin] using hs'
    simp only [hs', Bool.false_eq_true, if_false, hall]
    by_cases hm : missing c t v.2 = true
    · -- pass-through variable
      have hm' : (c.isDataset && t.all (· ∉ v.2)) = true := hm
      have h1 := S.passThroughOneGrouper hs' v hvm hm
      match hg : c.groupers, h1 with
      | [g], _ => simp only [hm, hm', if_true, groupNames_single]
    · have hm' : missing c t v.2 = false := by simpa using hm
      have hm'' : (c.isDataset && t.all (· ∉ v.2)) = false := hm'
      have hcore := S.coreDimsPresent hs' v hvm hm'
      have hany : t.any (· ∉ v.2) = false := by
        rw [List.any_eq_false]; intro x hx; simpa using hcore x hx
      -- all grouper dims are reduced
      have hgt : ∀ x ∈ grouperDims c.groupers, x ∈ t := by
        rcases S.nativeDefined hs' with ⟨g, d, hg, hd⟩ | h
        · intro x hx
          have hgd : grouperDims c.groupers = [d] := by
            rw [hg]; cases g with | mk n ds b bn => simp only at hd; subst hd; exact grouperDims_single_1d n d b bn
          rw [hgd] at hx hall
          simp only [List.mem_singleton] at hx
          subst hx
          rw [List.all_eq_false] at hall
          obtain ⟨y, hy, hy2⟩ := hall
          simp only [List.mem_singleton, decide_not, Bool.not_eq_true', decide_eq_false_iff_not, Decidable.not_not] at hy2
          exact hy2 ▸ hy
        · exact h
      have hout : ufuncDims c t v.2 = v.2.filter (· ∉ t) ++ groupNames c.groupers := by
        unfold ufuncDims
        rw [hb]
        have e1 : (grouperDims c.groupers).filter (· ∉ t) = [] := by
          rw [List.filter_eq_nil_iff]; intro x hx; simpa using hgt x hx
        have e2 : v.2.filter (fun d => d ∉ grouperDims c.groupers ∧ d ∉ t) = v.2.filter (· ∉ t) := by
          apply List.filter_congr
          intro x _
          by_cases hxt : x ∈ t
          · simp [hxt]
          · have : x ∉ grouperDims c.groupers := fun h => hxt (hgt x h)
            simp [hxt, this]
        dsimp only
        rw [e2, e1, List.append_nil]
      simp only [hm', hm'', Bool.false_eq_true, if_false, S.noBroadcast, Bool.not_false, Bool.true_and, hany, hout]
      have hvn := S.varsNodup v hvm
      match hg : c.groupers with
      | [] => simp
      | _ :: _ :: _ => simp
      | [g] =>
        have hrec := S.groupDimRecognised g hg hs'
        have hfresh := S.groupNamesFresh g (by simp [hg]) v hvm
        -- the `ndim > 1` guard is immaterial
        have hguard : ∀ out : List Dim, (if out.length > 1 then
              (Except.ok (restore out v.2 g c.isDataset) : Except Err (List Dim)) else .ok out) =
            .ok (restore out v.2 g c.isDataset) := by
          intro out
          split
          · rfl
          · rename_i h; rw [restore, sortByKey_short _ _ h]
        dsimp only
        rw [hguard, groupNames_single]
        congr 1
        cases g with
        | mk n ds b bn =>
          by_cases hds : c.isDataset = true
          · -- Dataset: 1-D, not binned, group dim first
            obtain ⟨hb0, hl⟩ := hrec.1 hds
            simp only at hb0 hl
            subst hb0
            match ds, hl with
            | [d], _ =>
              have hgn : groupName ⟨n, [d], false, bn⟩ = n := by simp [groupName]
              have hdt : d ∈ t := by
                apply hgt; rw [hg, grouperDims_single_1d]; simp
              have hn : n ∉ v.2.filter (· ∉ t) := by
                intro hmem
                have hnv : n ∈ v.2 := (List.mem_filter.mp hmem).1
                have := (hfresh (by rw [hgn]; exact hnv)).2
                simp only [List.cons.injEq, and_true] at this
                subst this
                simp [hdt] at hmem
              simp only [hds, if_true, hgn]
              exact restore_first v.2 t n d bn hvn hn
          · have hds' : c.isDataset = false := by simpa using hds
            simp only [hds', Bool.false_eq_true, if_false]
            match ds with
            | [d] =>
              have hb0 : b = false := hrec.2 hds' (by simp)
              subst hb0
              have hgn : groupName ⟨n, [d], false, bn⟩ = n := by simp [groupName]
              have hdt : d ∈ t := by
                apply hgt; rw [hg, grouperDims_single_1d]; simp
              have hdv : d ∈ v.2 := by
                apply hgv; rw [hg, grouperDims_single_1d]; simp
              simp only [hgn]
              apply restore_in_place v.2 t n d bn hvn hdv hdt
              intro hnv
              have := (hfresh (by rw [hgn]; exact hnv)).2
              simp only [List.cons.injEq, and_true] at this
              exact this.symm
            | [] =>
              have hgnv : groupName ⟨n, [], b, bn⟩ ∉ v.2 := by
                intro h; have := (hfresh h).2; simp at this
              exact restore_last v.2 t n _ [] false hvn (by simp) hgnv
            | d1 :: d2 :: rest =>
              have hgnv : groupName ⟨n, d1 :: d2 :: rest, b, bn⟩ ∉ v.2 := by
                intro h; have := (hfresh h).2; simp at this
              exact restore_last v.2 t n _ (d1 :: d2 :: rest) false hvn (by simp) hgnv

end Flox.XDims
