/-
  Lemmas about `members` (the ordered member list of one group).
-/
import FloxModel.Kernels

namespace Flox

@[simp] theorem members_nil_left (g : Int) (vs : List Val) : members g [] vs = [] := by
  simp [members]

@[simp] theorem members_nil_right (g : Int) (cs : List Int) : members g cs [] = [] := by
  cases cs <;> simp [members]

@[simp] theorem members_cons (g c : Int) (cs : List Int) (v : Val) (vs : List Val) :
    members g (c :: cs) (v :: vs) = if c = g then v :: members g cs vs else members g cs vs := by
  simp [members]

/-- splitting an array into two blocks splits every group's member list, order preserved -/
theorem members_append (g : Int) (c₁ c₂ : List Int) (v₁ v₂ : List Val) (h : c₁.length = v₁.length) :
    members g (c₁ ++ c₂) (v₁ ++ v₂) = members g c₁ v₁ ++ members g c₂ v₂ := by
  induction c₁ generalizing v₁ with
  | nil =>
    cases v₁ with
    | nil => simp
    | cons _ _ => simp at h
  | cons c cs ih =>
    cases v₁ with
    | nil => simp at h
    | cons v vs =>
      simp only [List.length_cons, Nat.add_right_cancel_iff] at h
      simp only [List.cons_append, members_cons]
      split <;> simp [ih vs h]

/-- an element whose code is not `g` contributes nothing to group `g` -/
theorem members_skip (g c : Int) (cs : List Int) (v : Val) (vs : List Val) (h : c ≠ g) :
    members g (c :: cs) (v :: vs) = members g cs vs := by
  simp [h]

end Flox
