/-
  The `.blockwise` plan with flox's own engine (`engine="flox"`): reduced to the numpy_groupies engine block by block
  (`chunkReduce_flox`), then `blockwise_eq_spec`.
-/
import FloxProofs.Blockwise
import FloxProofs.EndToEndFlox

namespace Flox
namespace BW

theorem runKnown_blockwise_flox (c : Call) (rb : Bool) (floatData : Bool) (chunks : List Nat) (keys : List Key)
    (vals : List Val)
    (heng : c.eng = .flox)
    (hks : ∀ p ∈ c.R.numpy.zip c.R.numpyFills, floxAgreesAt p.1 p.2)
    (hz : ∀ p ∈ c.R.numpy.zip c.R.numpyFills, (p.1 = .nanlen ∨ p.1 = .nansumsq) → p.2 = Val.zero)
    (hlen : keys.length = vals.length) :
    runKnown c (.blockwise rb) floatData chunks keys vals
      = runKnown c.withNpg (.blockwise rb) floatData chunks keys vals := by
  simp only [runKnown]
  have hper : ∀ (F : Inter → Except String (List Key × List Val)),
      ((splitBy chunks keys).zip (splitBy chunks vals)).map (fun (p : List Key × List Val) =>
          F (chunkReduce c.eng c.R.numpy c.R.numpyFills p.1 p.2 (if rb then some c.ngroups else none) c.sort))
        = ((splitBy chunks keys).zip (splitBy chunks vals)).map (fun (p : List Key × List Val) =>
          F (chunkReduce .npg c.R.numpy c.R.numpyFills p.1 p.2 (if rb then some c.ngroups else none) c.sort)) := by
    intro F
    apply List.map_congr_left
    intro p hp
    rw [heng, chunkReduce_flox _ _ _ _ _ _ hks hz (splitBy_zip_aligned chunks keys vals hlen p hp)]
  have := hper (fun x => finalizeResults { c.R with finalize := "none" } x
    (if rb then some (rangeKeys c.ngroups) else none) rb)
  simp only at this
  rw [this]
  rfl

/-- `method="blockwise"` = specification with flox's own engine (H_floxmean: for the `mean` shapes the NumPy fill must
    be NaN, as in `eager_eq_spec_flox`) -/
theorem blockwise_eq_spec_flox (R : Resolved) (s : Shape) (c : Call) (n : Nat) (floatData : Bool)
    (chunks : List Nat) (codes : List Int) (vals : List Val)
    (hR : c.R = R) (heng : c.eng = .flox) (hn : c.ngroups = n) (hknown : c.knownLabels = true)
    (hshape : R.shape? = some s) (hmean : HFloxMean R s)
    (hcodes : CodesOK codes n) (hlen : codes.length = vals.length)
    (hsum : chunks.sum = codes.length) (hpos : ∀ k ∈ chunks, 0 < k)
    (hone : EachLabelInOneBlock chunks codes)
    (hfill : c.fillArg = R.userFill) (H_allnan : HAllNaN R s)
    (H_dropped : HDropped R (segsOf chunks codes vals)) (H_somelabel : HSomeLabel R codes n) :
    runKnown c (.blockwise false) floatData chunks (codeKeys codes) vals = specResult s.kernel R codes vals n := by
  have hs := (R.shape?_eq_some_iff s).mp hshape
  subst hR
  rw [runKnown_blockwise_flox c false floatData chunks _ vals heng (hs.numpy_floxAgrees hmean) hs.numpy_zero
    (by rw [codeKeys_length, hlen])]
  exact blockwise_eq_spec c.R s c.withNpg n floatData chunks codes vals rfl rfl hn hknown hshape hcodes hlen hsum hpos
    hone hfill H_allnan H_dropped H_somelabel

end BW
end Flox
