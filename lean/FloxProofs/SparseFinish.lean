/-
  `_finalize_results` on a sparse intermediate: finalizer + count mask over the groups that are present, then the
  reindex to the requested labels with the USER fill (`reindex=False` plans), slot by slot.
-/
import FloxProofs.SparseTree

namespace Flox

/-! ### more `mapM` facts -/

theorem mapM_except_eq_error {ε α β} (f : α → Except ε β) (l : List α) (e : ε) (h : l.mapM f = .error e) :
    ∃ a ∈ l, f a = .error e := by
  induction l with
  | nil => simp [List.mapM_nil, pure, Except.pure] at h
  | cons a l ih =>
    rw [mapM_except_cons] at h
    cases hfa : f a with
    | error e' =>
      simp only [hfa, Except.error.injEq] at h
      subst h
      exact ⟨a, by simp, hfa⟩
    | ok b =>
      cases hl : l.mapM f with
      | error e' =>
        simp only [hfa, hl, Except.error.injEq] at h
        subst h
        obtain ⟨a', ha', hfa'⟩ := ih hl
        exact ⟨a', by simp [ha'], hfa'⟩
      | ok bs => simp [hfa, hl] at h

theorem mapM_except_error_of_mem {ε α β} (f : α → Except ε β) (l : List α) (e0 : ε)
    (herr : ∀ a e, f a = .error e → e = e0) (h : ∃ a ∈ l, f a = .error e0) : l.mapM f = .error e0 := by
  induction l with
  | nil => simp at h
  | cons a l ih =>
    rw [mapM_except_cons]
    cases hfa : f a with
    | error e' => rw [herr a e' hfa]
    | ok b =>
      obtain ⟨a', ha', hfa'⟩ := h
      rcases List.mem_cons.mp ha' with rfl | ha'
      · rw [hfa] at hfa'; cases hfa'
      · rw [ih ⟨a', ha', hfa'⟩]

/-- the value of an `Except` (a default on error) -/
def exVal {ε} (x : Except ε Val) : Val :=
  match x with
  | .ok v => v
  | .error _ => Val.nan

theorem mapM_except_eq_ok {ε α} (f : α → Except ε Val) (l : List α) (bs : List Val) (h : l.mapM f = .ok bs) :
    bs = l.map (fun a => exVal (f a)) ∧ ∀ a ∈ l, f a = .ok (exVal (f a)) := by
  induction l generalizing bs with
  | nil => simp [List.mapM_nil, pure, Except.pure] at h; subst h; simp
  | cons a l ih =>
    rw [mapM_except_cons] at h
    cases hfa : f a with
    | error e => simp [hfa] at h
    | ok b =>
      cases hl : l.mapM f with
      | error e => simp [hfa, hl] at h
      | ok bs' =>
        simp only [hfa, hl, Except.ok.injEq] at h
        subst h
        obtain ⟨h1, h2⟩ := ih bs' hl
        refine ⟨by simp [hfa, exVal, h1], ?_⟩
        intro a' ha'
        rcases List.mem_cons.mp ha' with rfl | ha'
        · simp [hfa, exVal]
        · exact h2 a' ha'

theorem mapM_except_map {ε α β γ} (g : α → β) (f : β → Except ε γ) (l : List α) :
    (l.map g).mapM f = l.mapM (fun a => f (g a)) := by
  induction l with
  | nil => rfl
  | cons a l ih => rw [List.map_cons, mapM_except_cons, mapM_except_cons, ih]

/-! ### finalizer and counts on functional columns (generalisation of `finalize_shape` / `count_shape`) -/

theorem finalize_shape_gen {α} {s : Shape} {R : Resolved} (hs : s.Fits R) (L : List α) (m : α → List Val) :
    finalizeVals R (if R.minCount > 0 then (fcols R.chunk R.interFills L m).dropLast
        else fcols R.chunk R.interFills L m)
      = L.map fun a => s.mrVal (m a) := by
  have hfin := hs.fin
  have hddof := hs.ddof
  rw [hs.chunk, hs.interFills]
  cases s with
  | simple k c f =>
    have hf : R.finalize = "none" := by simpa [Shape.finalizeOK] using hfin
    rw [finalizeVals_none R _ hf]
    by_cases hm : R.minCount > 0 <;>
      simp [cntSuffix, hm, fcols, Shape.chunk, Shape.interFills, Shape.mrVal]
  | mean b =>
    have hf : R.finalize = "mean" := by simpa [Shape.finalizeOK] using hfin
    rw [finalizeVals_mean R _ hf]
    by_cases hm : R.minCount > 0 <;> cases b <;>
      simp [cntSuffix, hm, fcols, Shape.chunk, Shape.interFills, Shape.mrVal]
  | var b d =>
    have hd : d = R.ddof := by simpa [Shape.ddofOK] using hddof
    subst hd
    have hf : R.finalize = "var" ∨ R.finalize = "std" := by simpa [Shape.finalizeOK] using hfin
    have hfv : ∀ cols, finalizeVals R cols = ((cols.getD 0 []).zip ((cols.getD 1 []).zip (cols.getD 2 []))).map
        fun (sq, s, c) => onepass R.ddof sq s c := by
      intro cols
      rcases hf with hf | hf
      · exact finalizeVals_var R cols hf
      · exact finalizeVals_std R cols hf
    rw [hfv]
    by_cases hm : R.minCount > 0 <;> cases b <;>
      simp [cntSuffix, hm, fcols, Shape.chunk, Shape.interFills, Shape.mrVal, zip3_map]

theorem count_shape_gen {α} {s : Shape} {R : Resolved} (hs : s.Fits R) (L : List α) (m : α → List Val)
    (hm : R.minCount > 0) :
    (fcols R.chunk R.interFills L m).getLastD [] = L.map fun a => countVal (m a) := by
  rw [hs.chunk, hs.interFills]
  cases s with
  | simple k c f => simp [cntSuffix, hm, fcols, Shape.chunk, Shape.interFills, countVal]
  | mean b => cases b <;> simp [cntSuffix, hm, fcols, Shape.chunk, Shape.interFills, countVal]
  | var b d => cases b <;> simp [cntSuffix, hm, fcols, Shape.chunk, Shape.interFills, countVal]

/-! ### `_finalize_results`, slot by slot -/

/-- `_finalize_results` on an intermediate whose finalized values and counts are given group by group -/
theorem finalizeResults_slots (R' : Resolved) (x : Inter) (a cntv : Key → Val)
    (expected : Option (List Key)) (rb : Bool)
    (hv : finalizeVals R' (if R'.minCount > 0 then x.cols.dropLast else x.cols) = x.groups.map a)
    (hc : R'.minCount > 0 → x.cols.getLastD [] = x.groups.map cntv) :
    finalizeResults R' x expected rb
      = (match x.groups.mapM (fun κ => maskedSlot R' (cntv κ) (a κ)) with
        | .error e => .error e
        | .ok vals =>
          match expected, rb with
          | some ex, false =>
            (match reindexCol vals x.groups ex R'.userFill with
              | some v => .ok (ex, v)
              | none => .error "ValueError")
          | _, _ => .ok (x.groups, vals)) := by
  unfold finalizeResults
  by_cases hmc : R'.minCount > 0
  · simp only [hmc, if_true] at hv ⊢
    rw [hv, hc hmc, List.map_map]
    have hm := mask_mapM x.groups a (fun g => countBelow (cntv g) R'.minCount) R'.userFill
    simp only [maskedSlot, hmc, true_and, Function.comp_def]
    rw [← hm]
    by_cases hany : (x.groups.map (fun g => countBelow (cntv g) R'.minCount)).any id = true
    · simp only [hany, if_true]
      cases R'.userFill with
      | none => rfl
      | some f => rfl
    · simp only [hany, Bool.false_eq_true, if_false]
      rfl
  · simp only [hmc, if_false] at hv ⊢
    rw [hv]
    simp only [maskedSlot, hmc, false_and, if_false, mapM_except_ok]
    rfl

theorem maskedSlot_error (R : Resolved) (cnt v : Val) (e : String) (h : maskedSlot R cnt v = .error e) :
    e = "ValueError" ∧ R.userFill = none ∧ R.minCount > 0 ∧ countBelow cnt R.minCount = true := by
  unfold maskedSlot at h
  split at h
  · rename_i hc
    unfold fillOrError optToExcept at h
    cases huf : R.userFill with
    | none => rw [huf] at h; simp only [Except.error.injEq] at h; exact ⟨h.symm, rfl, hc.1, hc.2⟩
    | some f => rw [huf] at h; cases h
  · cases h

theorem fillOrError_error (uf : Option Val) (e : String) (h : fillOrError uf = .error e) :
    e = "ValueError" ∧ uf = none := by
  unfold fillOrError optToExcept at h
  cases uf with
  | none => simp only [Except.error.injEq] at h; exact ⟨h.symm, rfl⟩
  | some f => cases h

/-- the reindex of masked group values to the requested labels `T` with the user fill: a requested label that is a
    group gets that group's slot, any other the user's fill (or the `ValueError`).  `hextra`: an error raised by the
    count mask on a group that is NOT requested is matched by an error of a requested slot. -/
theorem reindex_slots (G T : List Key) (slot : Key → Except String Val) (uf : Option Val) (hG : G ≠ [])
    (herr : ∀ κ e, slot κ = .error e → e = "ValueError")
    (hextra : ∀ κ ∈ G, κ ∉ T → slot κ = .error "ValueError" →
      ∃ τ ∈ T, (if τ ∈ G then slot τ else fillOrError uf) = .error "ValueError") :
    (match G.mapM slot with
      | .error e => (.error e : Except String (List Key × List Val))
      | .ok vals =>
        match reindexCol vals G T uf with
        | some v => .ok (T, v)
        | none => .error "ValueError")
      = (match T.mapM (fun κ => if κ ∈ G then slot κ else fillOrError uf) with
        | .error e => .error e
        | .ok v => .ok (T, v)) := by
  have herr' : ∀ κ e, (if κ ∈ G then slot κ else fillOrError uf) = .error e → e = "ValueError" := by
    intro κ e h
    split at h
    · exact herr κ e h
    · exact (fillOrError_error uf e h).1
  cases hm : G.mapM slot with
  | error e =>
    obtain ⟨κ, hκ, hs⟩ := mapM_except_eq_error slot G e hm
    have he := herr κ e hs
    subst he
    have : ∃ τ ∈ T, (if τ ∈ G then slot τ else fillOrError uf) = .error "ValueError" := by
      by_cases hT : κ ∈ T
      · exact ⟨κ, hT, by simp [hκ, hs]⟩
      · exact hextra κ hκ hT hs
    rw [mapM_except_error_of_mem _ T "ValueError" herr' this]
  | ok vals =>
    obtain ⟨hvals, hok⟩ := mapM_except_eq_ok slot G vals hm
    have key : optToExcept (reindexCol vals G T uf)
        = T.mapM (fun κ => if κ ∈ G then slot κ else fillOrError uf) := by
      unfold reindexCol
      have hGe : G.isEmpty = false := by simpa using hG
      simp only [hGe, Bool.false_eq_true, if_false]
      by_cases hGT : G = T
      · subst hGT
        simp only [if_true, optToExcept]
        rw [hvals, ← mapM_except_ok]
        apply mapM_except_congr
        intro κ hκ
        simp [hκ, ← hok κ hκ]
      · simp only [hGT, if_false]
        rw [mapM_option_toExcept]
        apply mapM_except_congr
        intro g _
        cases hl : lookupKey g G with
        | none =>
          have : g ∉ G := (lookupKey_eq_none_iff g G).mp hl
          simp only [this, if_false]
          rfl
        | some i =>
          obtain ⟨hi, hgi⟩ := lookupKey_eq_some g G i hl
          have hg : g ∈ G := hgi ▸ List.getElem_mem hi
          simp only [hg, if_true, optToExcept]
          rw [hok g hg, hvals, List.getD_eq_getElem?_getD, List.getElem?_eq_getElem (by simpa using hi)]
          simp [hgi]
    simp only
    cases hr : reindexCol vals G T uf with
    | none => rw [hr] at key; rw [← key]; rfl
    | some v => rw [hr] at key; rw [← key]; rfl

/-! ### the hypothesis on dropped elements -/

/-- (H_dropped) with a count mask but WITHOUT a user fill, `_finalize_results` raises as soon as ANY group of the
    combined intermediate is below `min_count` – including the group `-1` of the dropped elements, which is not
    requested.  The specification only raises for requested labels; so the dropped elements must not be masked.
    (Also: when there is no element at all the only group is the NaN placeholder, which is masked; the specification
    then raises only if at least one label is requested.) -/
def HDropped (R : Resolved) (n : Nat) (codes : List Int) (vals : List Val) : Prop :=
  R.minCount > 0 → R.userFill = none →
    (codes = [] → 0 < n) ∧
    (members (-1) codes vals = [] ∨ R.minCount ≤ Spec.validCount (members (-1) codes vals))

instance (R : Resolved) (n : Nat) (codes : List Int) (vals : List Val) : Decidable (HDropped R n codes vals) := by
  unfold HDropped; infer_instance

theorem mem_rangeKeys (κ : Key) (n : Nat) : κ ∈ rangeKeys n ↔ ∃ i, i < n ∧ κ = some ((i : Nat) : Rat) := by
  simp [rangeKeys, eq_comm]

theorem specSlot_nil (R : Resolved) (k : Kernel) : specSlot R k [] = fillOrError R.userFill := by
  simp [specSlot, Spec.slot, fillOrError]

/-- **the tail of the `reindex=False` map-reduce plan**: `_finalize_results` (count mask over the present groups,
    reindex to `RangeIndex(n)` with the user fill) + final reindex = the specification, slot by slot -/
theorem finish_sparse {s : Shape} {R : Resolved} (hs : s.Fits R) (c : Call) (n : Nat) (G : List Key)
    (codes : List Int) (vals : List Val)
    (hn : c.ngroups = n) (hcodes : CodesOK codes n) (hlen : codes.length = vals.length)
    (hcov : Covers (G, (codes, vals))) (hex : Exact (G, (codes, vals))) (hG : G ≠ [])
    (H_dropped : HDropped R n codes vals) (H_minmax : HMinMax R s) :
    (match finalizeResults R (spInter R.chunk R.interFills G codes vals) (some (rangeKeys n)) false with
      | .error e => .error e
      | .ok (gs, vs) => finalReindex c false gs vs)
      = (List.range n).mapM fun (g : Nat) => specSlot R s.kernel (members (Int.ofNat g) codes vals) := by
  rw [finalizeResults_slots R (spInter R.chunk R.interFills G codes vals)
    (fun κ => s.mrVal (keyMembers κ codes vals)) (fun κ => countVal (keyMembers κ codes vals))
    (some (rangeKeys n)) false (finalize_shape_gen hs G _) (count_shape_gen hs G _)]
  simp only [spInter]
  have hmemcodes : ∀ (g : Nat), (some ((g : Nat) : Rat) : Key) ∈ G ↔ Int.ofNat g ∈ codes := by
    intro g
    constructor
    · intro h
      rcases hex _ h with ⟨h', _⟩ | ⟨c', hc', e⟩
      · cases h'
      · simp only [Option.some.injEq] at e
        have : ((g : Int) : Rat) = ((c' : Int) : Rat) := by rw [← e]; exact Rat.intCast_natCast g
        have := Rat.intCast_inj.mp this
        rw [Int.ofNat_eq_natCast, this]; exact hc'
    · intro h
      have := hcov _ h
      simpa [Rat.intCast_natCast] using this
  rw [reindex_slots G (rangeKeys n)
    (fun κ => maskedSlot R (countVal (keyMembers κ codes vals)) (s.mrVal (keyMembers κ codes vals))) R.userFill hG
    (fun κ e h => (maskedSlot_error R _ _ e h).1)]
  · -- the requested slots
    have hslots : (rangeKeys n).mapM (fun κ => if κ ∈ G
          then maskedSlot R (countVal (keyMembers κ codes vals)) (s.mrVal (keyMembers κ codes vals))
          else fillOrError R.userFill)
        = (List.range n).mapM fun (g : Nat) => specSlot R s.kernel (members (Int.ofNat g) codes vals) := by
      unfold rangeKeys
      rw [mapM_except_map]
      apply mapM_except_congr
      intro g _
      by_cases hg : (some ((g : Nat) : Rat) : Key) ∈ G
      · simp only [hg, if_true, keyMembers_nat]
        have hne : members (Int.ofNat g) codes vals ≠ [] :=
          members_ne_nil_of_mem _ codes vals (by omega) ((hmemcodes g).mp hg)
        exact mrSlot_eq_specSlot hs _ (Or.inr hne) H_minmax
      · simp only [hg, if_false]
        have hnil : members (Int.ofNat g) codes vals = [] :=
          members_eq_nil_of_ne _ codes vals (fun c' hc' e => hg ((hmemcodes g).mpr (e ▸ hc')))
        rw [hnil, specSlot_nil]
    rw [hslots]
    cases hm : (List.range n).mapM fun (g : Nat) => specSlot R s.kernel (members (Int.ofNat g) codes vals) with
    | error e => rfl
    | ok v =>
      simp only
      apply finalReindex_range c n v hn
      have := mapM_except_length _ _ _ hm
      simpa using this
  · -- errors of the count mask on groups that are not requested
    intro κ hκ hκT hs'
    obtain ⟨_, huf, hmc, hcb⟩ := maskedSlot_error R _ _ _ hs'
    rw [countBelow_countVal] at hcb
    have hlt : Spec.validCount (keyMembers κ codes vals) < R.minCount := by simpa using hcb
    obtain ⟨hd1, hd2⟩ := H_dropped hmc huf
    rcases hex κ hκ with ⟨_, hcn⟩ | ⟨c', hc', e⟩
    · -- no element at all: label 0 is requested and absent
      have hn0 := hd1 hcn
      refine ⟨some ((0 : Nat) : Rat), (mem_rangeKeys _ n).mpr ⟨0, hn0, rfl⟩, ?_⟩
      have : (some ((0 : Nat) : Rat) : Key) ∉ G := by
        intro h
        have := (hmemcodes 0).mp h
        simp only at hcn
        rw [hcn] at this
        simp at this
      rw [if_neg this, huf]; rfl
    · exfalso
      subst e
      have hb := hcodes c' hc'
      by_cases h0 : 0 ≤ c'
      · apply hκT
        refine (mem_rangeKeys _ n).mpr ⟨c'.toNat, by omega, ?_⟩
        have : ((c'.toNat : Nat) : Int) = c' := Int.toNat_of_nonneg h0
        rw [← Rat.intCast_natCast, this]
      · have hc1 : c' = -1 := by omega
        subst hc1
        rw [keyMembers_code] at hlt
        have hne := members_ne_nil_of_mem (-1) codes vals (by omega) hc'
        rcases hd2 with h | h
        · exact hne h
        · omega

end Flox
