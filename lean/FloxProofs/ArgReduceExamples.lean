/-
  Non-vacuity examples and counterexamples for `FloxProofs/ArgReduce.lean` (all by `decide +kernel`).
-/
import FloxProofs.ArgReduce
import FloxProofs.EndToEndExamples

namespace Flox.Grp
namespace AEx
open E2E

/-! ### the pair laws on concrete data -/

/-- three blocks of (value, global index) pairs of one label; a NaN in the last block -/
def pssA : List (List VI) :=
  [[(.fin 1, .fin 0), (.fin 5, .fin 2)], [(.fin 5, .fin 4)], [(.fin 2, .fin 7), (.nan, .fin 8), (.fin 9, .fin 9)]]

/-- `pairLaw_arg` applies (no hypothesis on the data) … -/
example : combinePair .argmax (.fin 99) (pssA.map fun ps => blockPair .argmax (.fin 77) ps)
    = blockPair .argmax (.fin 55) pssA.flatten :=
  pairLaw_arg .argmax (Or.inl rfl) (fun _ => .fin 77) (.fin 99) (.fin 55) pssA (by decide) (by decide +kernel)

/-- … and the common value is (NaN, index of the first NaN): NumPy's `argmax` propagates NaN -/
example : blockPair .argmax (.fin 55) pssA.flatten = (.nan, .fin 8) := by decide +kernel
example : blockPair .argmin (.fin 55) (pssA.flatten.filter fun p => !p.1.isNaN) = (.fin 1, .fin 0) := by
  decide +kernel

/-- blocks for `nanargmax`: the first block is all-NaN for the label (junk pair), ties are broken to the left -/
def pssN : List (List VI) :=
  [[(.nan, .fin 0), (.nan, .fin 1)], [(.fin 3, .fin 2), (.nan, .fin 3)], [(.fin 3, .fin 5), (.ninf, .fin 6)]]

example : HArgFill .nanargmax (pssN.flatten.map (·.1)) := by decide +kernel

example : combinePair .nanargmax (.fin 99) (pssN.map fun ps => blockPair .nanargmax ((ps.headD (.nan, .nan)).2) ps)
    = blockPair .nanargmax (.fin 55) pssN.flatten :=
  pairLaw_nanarg .nanargmax (Or.inl rfl) (fun ps => (ps.headD (.nan, .nan)).2) (.fin 99) (.fin 55) pssN (by decide)
    (by decide +kernel)

example : blockPair .nanargmax (.fin 55) pssN.flatten = (.fin 3, .fin 2) := by decide +kernel

/-- **H_argfill is necessary for the pair law**: the label is all-NaN in the first block (junk pair `(-inf, 0)`) and
    its only valid member is a genuine `-inf` in the second block: (max, argmax) keeps the junk index 0. -/
theorem pairLaw_nanarg_counterexample :
    let pss : List (List VI) := [[(.nan, .fin 0), (.nan, .fin 1)], [(.nan, .fin 2), (.ninf, .fin 3)]]
    ¬ HArgFill .nanargmax (pss.flatten.map (·.1))
    ∧ combinePair .nanargmax (.fin 99) (pss.map fun ps => blockPair .nanargmax ((ps.headD (.nan, .nan)).2) ps)
        = (.ninf, .fin 0)
    ∧ blockPair .nanargmax (.fin 55) pss.flatten = (.ninf, .fin 3) := by decide +kernel

/-! ### the model (`runKnown`, grouped combine, arg-reductions) -/

/-- `argmax` as `_initialize_aggregation` resolves it (float data, `fill_value=-1`) -/
def Rargmax : Resolved :=
  { name := "argmax", numpy := [.argmax], chunk := [.max, .argmax], combine := [.max, .argmax],
    interFills := [Val.ninf, Val.zero], numpyFills := [Val.zero], finalFill := some (Val.fin (-1)),
    userFill := some (Val.fin (-1)), minCount := 0, finalize := "second", ddof := 0, isArg := true }

def Rnanargmax : Resolved :=
  { name := "nanargmax", numpy := [.nanargmax], chunk := [.nanmax, .nanargmax], combine := [.max, .argmax],
    interFills := [Val.ninf, Val.zero], numpyFills := [Val.zero], finalFill := some (Val.fin (-1)),
    userFill := some (Val.fin (-1)), minCount := 0, finalize := "second", ddof := 0, isArg := true }

/-- the same with `min_count=1` (count column appended) -/
def Rnanargmax1 : Resolved :=
  { name := "nanargmax", numpy := [.nanargmax, .nanlen], chunk := [.nanmax, .nanargmax, .nanlen],
    combine := [.max, .argmax, .sum], interFills := [Val.ninf, Val.zero, Val.zero],
    numpyFills := [Val.zero, Val.zero], finalFill := some (Val.fin (-1)), userFill := some (Val.fin (-1)),
    minCount := 1, finalize := "second", ddof := 0, isArg := true }

def Rnanargmin : Resolved :=
  { name := "nanargmin", numpy := [.nanargmin], chunk := [.nanmin, .nanargmin], combine := [.min, .argmin],
    interFills := [Val.pinf, Val.zero], numpyFills := [Val.zero], finalFill := some (Val.fin (-1)),
    userFill := some (Val.fin (-1)), minCount := 0, finalize := "second", ddof := 0, isArg := true }

example : useGroupedCombine (mkCall Rargmax .npg 4 2) true = true := by decide +kernel

def c9 : List Int := [0, 1, 0, 1, 0, -1, 1, 0, 2]
def v9 : List Val := [.fin 1, .fin 5, .fin 3, .fin 5, .fin 3, .fin 9, .fin 2, .fin 0, .fin 4]
def v9n : List Val := [.nan, .fin 5, .fin 3, .nan, .fin 3, .fin 9, .fin 7, .nan, .fin 4]

/-- C06 on concrete inputs (not a general proof): three chunkings / trees of `argmax` agree with the specification;
    the result is a real one (ties → first occurrence, absent label → fill) -/
example : runKnown (mkCall Rargmax .npg 4 2) (.mapreduce false) true [3, 3, 3] (codeKeys c9) v9
      = specResult .argmax Rargmax c9 v9 4
    ∧ runKnown (mkCall Rargmax .npg 4 2) (.mapreduce false) true [1, 1, 1, 1, 1, 1, 1, 1, 1] (codeKeys c9) v9
      = specResult .argmax Rargmax c9 v9 4
    ∧ runKnown (mkCall Rargmax .npg 4 3) (.mapreduce false) true [9] (codeKeys c9) v9
      = specResult .argmax Rargmax c9 v9 4
    ∧ specResult .argmax Rargmax c9 v9 4 = .ok [Val.fin 2, Val.fin 1, Val.fin 8, Val.fin (-1)] := by
  decide +kernel

/-- `nanargmax` with all-NaN blocks but every label's maximum above `-inf`: correct -/
example : runKnown (mkCall Rnanargmax .npg 3 2) (.mapreduce false) true [1, 3, 3, 2] (codeKeys c9) v9n
      = specResult .nanargmax Rnanargmax c9 v9n 3
    ∧ specResult .nanargmax Rnanargmax c9 v9n 3 = .ok [Val.fin 2, Val.fin 6, Val.fin 8] := by
  decide +kernel

/-- **FINDING (model and real library): `nanargmax` through `_grouped_combine` returns a wrong index** when a label is
    all-NaN in one block and its genuine maximum is `-inf`: the all-NaN block contributes the junk pair
    (`-inf`, global index of the block's first element), and the combine's `argmax` keeps the first `-inf`.
    Here the data are `[nan, nan | nan, -inf]`, all with label 0: flox answers 0 (a NaN element), NumPy's
    `nanargmax` answers 3.  Every hypothesis one could reasonably ask for holds (one label, present, has a valid
    member); only `HArgFill` fails. -/
theorem nanargmax_grouped_counterexample :
    CodesOK [0, 0, 0, 0] 1
    ∧ ¬ HArgFill .nanargmax (members 0 [0, 0, 0, 0] [.nan, .nan, .nan, .ninf])
    ∧ runKnown (mkCall Rnanargmax .npg 1 2) (.mapreduce false) true [2, 2] (codeKeys [0, 0, 0, 0])
        [.nan, .nan, .nan, .ninf] = .ok [Val.fin 0]
    ∧ specResult .nanargmax Rnanargmax [0, 0, 0, 0] [.nan, .nan, .nan, .ninf] 1 = .ok [Val.fin 3]
    ∧ runKnown (mkCall Rnanargmax .npg 1 2) (.mapreduce false) true [4] (codeKeys [0, 0, 0, 0])
        [.nan, .nan, .nan, .ninf] = .ok [Val.fin 3] := by decide +kernel

/-- the junk index is the block's first element *whatever its label*: label 0 gets index 0, which belongs to label 1 -/
theorem nanargmax_grouped_counterexample_other_label :
    runKnown (mkCall Rnanargmax .npg 2 2) (.mapreduce false) true [2, 2] (codeKeys [1, 0, 0, 0])
        [.fin 3, .nan, .nan, .ninf] = .ok [Val.fin 0, Val.fin 0]
    ∧ specResult .nanargmax Rnanargmax [1, 0, 0, 0] [.fin 3, .nan, .nan, .ninf] 2 = .ok [Val.fin 3, Val.fin 0] := by
  decide +kernel

/-- the count mask (`min_count=1`) does not help: the label has one valid member -/
theorem nanargmax_grouped_counterexample_mincount :
    runKnown (mkCall Rnanargmax1 .npg 1 2) (.mapreduce false) true [2, 2] (codeKeys [0, 0, 0, 0])
        [.nan, .nan, .nan, .ninf] = .ok [Val.fin 0]
    ∧ specResult .nanargmax Rnanargmax1 [0, 0, 0, 0] [.nan, .nan, .nan, .ninf] 1 = .ok [Val.fin 3] := by
  decide +kernel

/-- the mirror image for `nanargmin` and `+inf` -/
theorem nanargmin_grouped_counterexample :
    runKnown (mkCall Rnanargmin .npg 1 2) (.mapreduce false) true [2, 2] (codeKeys [0, 0, 0, 0])
        [.nan, .nan, .nan, .pinf] = .ok [Val.fin 0]
    ∧ specResult .nanargmin Rnanargmin [0, 0, 0, 0] [.nan, .nan, .nan, .pinf] 1 = .ok [Val.fin 3] := by
  decide +kernel

/-- an all-NaN label (excluded by `HArgFill`; NumPy raises "All-NaN slice"): the model returns the first index of the
    first block that contains the label, the specification (first member) happens to agree only if that element has
    the label -/
theorem nanargmax_allnan_counterexample :
    runKnown (mkCall Rnanargmax .npg 2 2) (.mapreduce false) true [2, 2] (codeKeys [1, 0, 0, 1])
        [.fin 3, .nan, .nan, .fin 4] = .ok [Val.fin 0, Val.fin 3]
    ∧ specResult .nanargmax Rnanargmax [1, 0, 0, 1] [.fin 3, .nan, .nan, .fin 4] 2 = .ok [Val.fin 1, Val.fin 3] := by
  decide +kernel

end AEx
end Flox.Grp
