/-
  Non-vacuity examples and necessity counterexamples for the `cohorts` theorems (`FloxProofs/Cohorts.lean`),
  all by `decide +kernel`.
-/
import FloxProofs.Cohorts
import FloxProofs.EndToEndSparseExamples

namespace Flox
namespace E2E

/-! ### non-vacuity

  `codes8 = [0, -1, 2, 0, 2, 2, 0, 3]` in blocks `[2, 1, 3, 2]`: label 0 lives in blocks 0, 2, 3; label 2 in blocks
  1, 2; label 3 (all NaN) in block 3; label 1 is requested but absent; one element is dropped. -/

/-- two cohorts sharing block 2 (dict order not sorted by label) -/
def cs8a : List (List Nat × List Rat) := [([0, 2, 3], [0, 3]), ([1, 2], [2])]
/-- another sound structure: labels in a different order, other block sets -/
def cs8b : List (List Nat × List Rat) := [([0, 1, 2, 3], [2, 0]), ([3], [3])]

theorem cs8a_sound : CohortsSound [2, 1, 3, 2] codes8 4 cs8a := cohortsSound_of_check _ _ _ _ (by decide +kernel)
theorem cs8b_sound : CohortsSound [2, 1, 3, 2] codes8 4 cs8b := cohortsSound_of_check _ _ _ _ (by decide +kernel)

/-- `cohorts_eq_spec` applies (`nanmean`, `min_count=1`, fill -1; `fill_value` argument = user fill) -/
example : runKnown (mkCall Rnanmean .npg 4 2) (.cohorts cs8a) true [2, 1, 3, 2] (codeKeys codes8) vals8
    = specResult .nanmean Rnanmean codes8 vals8 4 :=
  cohorts_eq_spec Rnanmean (.mean true) (mkCall Rnanmean .npg 4 2) 4 true [2, 1, 3, 2] codes8 vals8 cs8a
    rfl rfl rfl rfl (by decide +kernel) rfl cs8a_sound (fun _ _ _ _ => Or.inl (by decide))
    (by decide +kernel) ⟨fun _ _ _ => rfl, by decide +kernel⟩ rfl (by decide +kernel)

/-- the common value (the kernel cannot evaluate `List.mergeSort` – well-founded recursion – on several labels, so the
    sorted call is evaluated through the theorem; the unsorted one below directly) -/
example : runKnown (mkCall Rnanmean .npg 4 2) (.cohorts cs8a) true [2, 1, 3, 2] (codeKeys codes8) vals8
    = .ok [Val.fin (3/2), Val.fin (-1), Val.fin 4, Val.fin (-1)] :=
  (cohorts_eq_spec Rnanmean (.mean true) (mkCall Rnanmean .npg 4 2) 4 true [2, 1, 3, 2] codes8 vals8 cs8a
    rfl rfl rfl rfl (by decide +kernel) rfl cs8a_sound (fun _ _ _ _ => Or.inl (by decide))
    (by decide +kernel) ⟨fun _ _ _ => rfl, by decide +kernel⟩ rfl (by decide +kernel)).trans (by decide +kernel)

/-- the cohort structure is irrelevant (also `sort = false`, another `split_every`) -/
example : runKnown (mkCall Rnanmean .npg 4 2) (.cohorts cs8a) true [2, 1, 3, 2] (codeKeys codes8) vals8
    = runKnown { mkCall Rnanmean .npg 4 5 with sort := false } (.cohorts cs8b) true [2, 1, 3, 2] (codeKeys codes8)
        vals8 :=
  cohorts_structure_irrelevant Rnanmean (.mean true) (mkCall Rnanmean .npg 4 2)
    { mkCall Rnanmean .npg 4 5 with sort := false } 4 true [2, 1, 3, 2] [2, 1, 3, 2] codes8 vals8 cs8a cs8b
    rfl rfl rfl rfl rfl rfl rfl rfl (by decide +kernel) rfl cs8a_sound cs8b_sound
    (fun _ _ _ _ => Or.inl (by decide)) (fun _ _ _ _ => Or.inl (by decide)) (by decide +kernel)
    ⟨fun _ _ _ => rfl, by decide +kernel⟩ ⟨fun _ _ _ => rfl, by decide +kernel⟩ rfl rfl (by decide +kernel)
    (by decide +kernel)

example : runKnown { mkCall Rnanmean .npg 4 5 with sort := false } (.cohorts cs8b) true [2, 1, 3, 2] (codeKeys codes8)
    vals8 = .ok [Val.fin (3/2), Val.fin (-1), Val.fin 4, Val.fin (-1)] := by decide +kernel

/-- flox's own engine, `nanmax` -/
example : runKnown (mkCall Rnanmax .flox 4 2) (.cohorts cs8a) true [2, 1, 3, 2] (codeKeys codes8) vals8
    = specResult .nanmax Rnanmax codes8 vals8 4 :=
  cohorts_eq_spec_flox Rnanmax (.simple .nanmax .nanmax Val.ninf) (mkCall Rnanmax .flox 4 2) 4 true [2, 1, 3, 2]
    codes8 vals8 cs8a rfl rfl rfl rfl (by decide +kernel) rfl cs8a_sound
    (fun _ _ _ _ => Or.inl (by decide)) (by decide +kernel) ⟨fun _ _ _ => rfl, by decide +kernel⟩ rfl
    (by decide +kernel)

/-- the `ValueError` branch: `nanmean`, `min_count=1`, no fill – a cohort raises, and so does the specification -/
example : runKnown (mkCall RnanmeanNoFill .npg 4 2) (.cohorts cs8a) true [2, 1, 3, 2] (codeKeys codes8) vals8
      = .error "ValueError"
    ∧ specResult .nanmean RnanmeanNoFill codes8 vals8 4 = .error "ValueError" := by decide +kernel

/-! ### necessity of the hypotheses -/

/-- `nanmax` without `fill_value`: the aggregation's user fill is NaN, the `fill_value` argument is `None` -/
def cNanmaxNoArg : Call := { mkCall Rnanmax .npg 2 2 with fillArg := none }

/-- **`H_cohortfill` (first half) is necessary – a method-dependent behaviour of the modelled library** (reproduced with
    the real flox: `groupby_reduce(dask [1,2,3,4], by=[0,0,2,2], func="nanmax", expected_groups=[0,1,2],
    fill_value=None, method="cohorts")` raises `ValueError: Filling is required. fill_value cannot be None.`, while
    `method="map-reduce"` and the eager path return `[2, nan, 4]`).  A requested label that is in no cohort is filled
    by the final reindex of `groupby_reduce` with the `fill_value` ARGUMENT, not with the aggregation's user fill. -/
theorem H_cohortfill_counterexample :
    Rnanmax.shape? = some (.simple .nanmax .nanmax Val.ninf)
    ∧ cohortsSoundB [1] [0] 2 [([0], [0])] = true
    ∧ cNanmaxNoArg.fillArg ≠ Rnanmax.userFill
    ∧ runKnown cNanmaxNoArg (.cohorts [([0], [0])]) true [1] (codeKeys [0]) [Val.fin 1] = .error "ValueError"
    ∧ specResult .nanmax Rnanmax [0] [Val.fin 1] 2 = .ok [Val.fin 1, Val.nan]
    ∧ runKnown cNanmaxNoArg (.mapreduce false) true [1] (codeKeys [0]) [Val.fin 1] = .ok [Val.fin 1, Val.nan]
    ∧ runKnown cNanmaxNoArg (.mapreduce true) true [1] (codeKeys [0]) [Val.fin 1] = .ok [Val.fin 1, Val.nan]
    ∧ runKnown cNanmaxNoArg .eager true [1] (codeKeys [0]) [Val.fin 1] = .ok [Val.fin 1, Val.nan] := by
  decide +kernel

/-- **`H_cohortfill` (second half) is necessary**: no cohort has a label (no requested label occurs) and there is no
    fill: the reindex of an EMPTY result does not raise (it fills with NaN), the specification demands a fill -/
theorem H_cohortfill_counterexample_empty :
    cohortsSoundB [1] [-1] 1 [] = true
    ∧ runKnown (mkCall Rsum .npg 1 2) (.cohorts []) true [1] (codeKeys [-1]) [Val.fin 1] = .ok [Val.nan]
    ∧ specResult .sum Rsum [-1] [Val.fin 1] 1 = .error "ValueError" := by decide +kernel

/-- `sum` with a user fill 7 -/
def RsumF : Resolved := { Rsum with userFill := some (Val.fin 7) }

/-- **(iv) strictly ascending block lists are necessary**: a block listed twice is counted twice … -/
theorem blocks_asc_counterexample_dup :
    runKnown (mkCall RsumF .npg 1 2) (.cohorts [([0, 0], [0])]) true [1] (codeKeys [0]) [Val.fin 1] = .ok [Val.fin 2]
    ∧ specResult .sum RsumF [0] [Val.fin 1] 1 = .ok [Val.fin 1] := by decide +kernel

/-- `nanfirst` (NumPy fill NaN) -/
def RnanfirstNaN : Resolved := { Rnanfirst0 with numpyFills := [Val.nan] }

/-- … and for the order-sensitive `nanfirst` / `nanlast` the blocks must be taken in array order -/
theorem blocks_asc_counterexample_order :
    RnanfirstNaN.shape? = some (.simple .nanfirst .nanfirst Val.nan)
    ∧ runKnown (mkCall RnanfirstNaN .npg 1 2) (.cohorts [([1, 0], [0])]) true [1, 1] (codeKeys [0, 0])
        [Val.fin 1, Val.fin 2] = .ok [Val.fin 2]
    ∧ specResult .nanfirst RnanfirstNaN [0, 0] [Val.fin 1, Val.fin 2] 1 = .ok [Val.fin 1] := by decide +kernel

/-- **(iii) the block list must contain every block holding a member of the cohort's labels** -/
theorem blocks_cover_counterexample :
    runKnown (mkCall RsumF .npg 1 2) (.cohorts [([0], [0])]) true [1, 1] (codeKeys [0, 0]) [Val.fin 1, Val.fin 2]
      = .ok [Val.fin 1]
    ∧ specResult .sum RsumF [0, 0] [Val.fin 1, Val.fin 2] 1 = .ok [Val.fin 3] := by decide +kernel

/-- **(ii) every present requested label must be in a cohort** (else it is treated as absent) -/
theorem covered_counterexample :
    runKnown (mkCall RsumF .npg 2 2) (.cohorts [([0], [0])]) true [2] (codeKeys [0, 1]) [Val.fin 1, Val.fin 2]
      = .ok [Val.fin 1, Val.fin 7]
    ∧ specResult .sum RsumF [0, 1] [Val.fin 1, Val.fin 2] 2 = .ok [Val.fin 1, Val.fin 2] := by decide +kernel

/-- **(i) cohort labels must be requested labels**: a foreign label is an (empty) group of the cohort and is hit by the
    count mask -/
theorem labels_ok_counterexample :
    runKnown (mkCall RnanmeanNoFill .npg 1 2) (.cohorts [([0], [0, 5])]) true [1] (codeKeys [0]) [Val.fin 1]
      = .error "ValueError"
    ∧ specResult .nanmean RnanmeanNoFill [0] [Val.fin 1] 1 = .ok [Val.fin 1] := by decide +kernel

/-- **every cohort needs a block**: the labels of a cohort without blocks vanish from the result and are then filled
    with the `fill_value` argument although they are "in a cohort" -/
theorem blocks_ne_counterexample :
    runKnown cNanmaxNoArg (.cohorts [([0], [0]), ([], [1])]) true [1] (codeKeys [0]) [Val.fin 1] = .error "ValueError"
    ∧ specResult .nanmax Rnanmax [0] [Val.fin 1] 2 = .ok [Val.fin 1, Val.nan] := by decide +kernel

/-- **`H_absent` (for cohort labels) is necessary**: a cohort label without members and no count mask keeps the
    intermediate fill -/
theorem H_absent_counterexample_cohorts :
    ¬ HAbsent RsumF (members 1 [0] [Val.fin 1])
    ∧ runKnown { mkCall RsumF .npg 2 2 with sort := false } (.cohorts [([0], [0, 1])]) true [1] (codeKeys [0])
        [Val.fin 1] = .ok [Val.fin 1, Val.fin 0]
    ∧ specResult .sum RsumF [0] [Val.fin 1] 2 = .ok [Val.fin 1, Val.fin 7] := by decide +kernel

/-- … whereas with cohorts made of present labels only (what `find_group_cohorts` produces) `H_absent` is free and
    the absent label gets the fill -/
example : runKnown (mkCall RsumF .npg 2 2) (.cohorts [([0], [0])]) true [1] (codeKeys [0]) [Val.fin 1]
    = specResult .sum RsumF [0] [Val.fin 1] 2 :=
  cohorts_eq_spec RsumF (.simple .sum .sum Val.zero) (mkCall RsumF .npg 2 2) 2 true [1] [0] [Val.fin 1] [([0], [0])]
    rfl rfl rfl rfl (by decide +kernel) rfl (cohortsSound_of_check _ _ _ _ (by decide +kernel))
    (by
      intro co hco g hg
      simp only [List.mem_singleton] at hco
      subst hco
      have hg' : ((g : Nat) : Rat) = 0 := by simpa using hg
      have : g = 0 := by
        have h1 : ((g : Int) : Rat) = ((0 : Int) : Rat) := by rw [Rat.intCast_natCast]; simpa using hg'
        have := Rat.intCast_inj.mp h1
        omega
      subst this
      exact Or.inr (by decide +kernel))
    (by decide +kernel) ⟨fun _ _ _ => rfl, by decide +kernel⟩ rfl (by decide +kernel)

/-- **`chunks.sum = codes.length` is necessary**: blocks that do not cover the array drop elements -/
theorem chunks_sum_counterexample_cohorts :
    cohortsSoundB [1] [0, 0] 1 [([0], [0])] = true
    ∧ runKnown (mkCall RsumF .npg 1 2) (.cohorts [([0], [0])]) true [1] (codeKeys [0, 0]) [Val.fin 1, Val.fin 2]
        = .ok [Val.fin 1]
    ∧ specResult .sum RsumF [0, 0] [Val.fin 1, Val.fin 2] 1 = .ok [Val.fin 3] := by decide +kernel

/-- `CodesOK` is NOT needed for the cohorts plan: groups that belong to no cohort (dropped `-1`, codes out of range)
    are discarded when the blocks are reindexed to the cohort's labels -/
example : runKnown (mkCall RnanmeanNoFill .npg 1 2) (.cohorts [([0], [0])]) true [2] (codeKeys [0, 3])
      [Val.fin 1, Val.nan] = specResult .nanmean RnanmeanNoFill [0, 3] [Val.fin 1, Val.nan] 1 :=
  cohorts_eq_spec RnanmeanNoFill (.mean true) (mkCall RnanmeanNoFill .npg 1 2) 1 true [2] [0, 3]
    [Val.fin 1, Val.nan] [([0], [0])] rfl rfl rfl rfl (by decide +kernel) rfl
    (cohortsSound_of_check _ _ _ _ (by decide +kernel)) (fun _ _ _ _ => Or.inl (by decide)) (by decide +kernel)
    ⟨fun _ _ _ => rfl, by decide +kernel⟩ rfl (by decide +kernel)

/-- **`H_minmax` is necessary** -/
theorem H_minmax_counterexample_cohorts :
    runKnown (mkCall Rnanmax0 .npg 1 2) (.cohorts [([0], [0])]) true [1] (codeKeys [0]) [Val.nan] = .ok [Val.ninf]
    ∧ specResult .nanmax Rnanmax0 [0] [Val.nan] 1 = .ok [Val.nan] := by decide +kernel

end E2E
end Flox
