/-
  Column laws for `max` / `min` / `nanmax` / `nanmin` with a *finite* intermediate fill (C04, integer dtypes).

  For integer arrays `_get_fill_value` resolves the sentinels `NINF` / `INF` to the dtype extremes
  (`max`: -2^63 for int64, …), which are not identities of `np.maximum` / `np.minimum` on all of `Val`, only on
  the data that can occur: every member is ≥ the fill (resp. ≤).  Under exactly that hypothesis the
  decomposition law of `FloxProofs/Columns.lean` (`combine_max` etc.) carries over:

      combineVal .max (parts.map (blockVal .max f)) = blockVal .max f parts.flatten

  `int64_ge_min` / `int64_le_max`: int64 data satisfy the hypothesis for the int64 fills.  The hypothesis cannot be
  dropped: `fill_not_neutral_counterexample` (fill 0 is neutral for `max` only on non-negative data).
-/
import FloxProofs.Columns

namespace Flox

/-! ### `max` -/

/-- `f` is a lower bound of `x` in the sense of `np.maximum` (NaN is "above" everything: it propagates) -/
abbrev GeFill (f x : Val) : Prop := Val.max f x = x
abbrev LeFill (f x : Val) : Prop := Val.min f x = x

theorem vmax_cons (x : Val) (xs : List Val) : vmax (x :: xs) = Val.max x (vmax xs) := by
  have := vmax_append [x] xs
  simpa [vmax, fold1] using this

theorem vmin_cons (x : Val) (xs : List Val) : vmin (x :: xs) = Val.min x (vmin xs) := by
  have := vmin_append [x] xs
  simpa [vmin, fold1] using this

theorem max_fill_vmax (f : Val) (ms : List Val) (hne : ms ≠ []) (h : ∀ x ∈ ms, GeFill f x) :
    Val.max f (vmax ms) = vmax ms := by
  cases ms with
  | nil => exact absurd rfl hne
  | cons x xs =>
    rw [vmax_cons, ← Val.max_assoc, h x (by simp)]

theorem min_fill_vmin (f : Val) (ms : List Val) (hne : ms ≠ []) (h : ∀ x ∈ ms, LeFill f x) :
    Val.min f (vmin ms) = vmin ms := by
  cases ms with
  | nil => exact absurd rfl hne
  | cons x xs =>
    rw [vmin_cons, ← Val.min_assoc, h x (by simp)]

/-- the block value of `max` with fill `f` on data bounded below by `f` is `max f (vmax ms)` -/
theorem blockVal_max_fill (f : Val) (ms : List Val) (h : ∀ x ∈ ms, GeFill f x) :
    blockVal .max f ms = Val.max f (vmax ms) := by
  cases ms with
  | nil => simp [blockVal, Val.max_ninf_right]
  | cons x xs =>
    rw [max_fill_vmax f (x :: xs) (by simp) h]
    simp [blockVal, Kernel.skipsNaN, kEval]

theorem blockVal_min_fill (f : Val) (ms : List Val) (h : ∀ x ∈ ms, LeFill f x) :
    blockVal .min f ms = Val.min f (vmin ms) := by
  cases ms with
  | nil => simp [blockVal, Val.min_pinf_right]
  | cons x xs =>
    rw [min_fill_vmin f (x :: xs) (by simp) h]
    simp [blockVal, Kernel.skipsNaN, kEval]

theorem vmax_map_max (f : Val) (l : List Val) (hne : l ≠ []) :
    vmax (l.map (Val.max f)) = Val.max f (vmax l) := by
  induction l with
  | nil => exact absurd rfl hne
  | cons x xs ih =>
    cases xs with
    | nil => simp [vmax, fold1]
    | cons y ys =>
      rw [List.map_cons, vmax_cons, ih (by simp), vmax_cons x]
      -- max (max f x) (max f v) = max f (max x v)
      rw [Val.max_assoc, ← Val.max_assoc x f, Val.max_comm x f, Val.max_assoc f x, ← Val.max_assoc f f,
        Val.max_idem]

theorem vmin_map_min (f : Val) (l : List Val) (hne : l ≠ []) :
    vmin (l.map (Val.min f)) = Val.min f (vmin l) := by
  induction l with
  | nil => exact absurd rfl hne
  | cons x xs ih =>
    cases xs with
    | nil => simp [vmin, fold1]
    | cons y ys =>
      rw [List.map_cons, vmin_cons, ih (by simp), vmin_cons x]
      rw [Val.min_assoc, ← Val.min_assoc x f, Val.min_comm x f, Val.min_assoc f x, ← Val.min_assoc f f,
        Val.min_idem]

/-- **`max` with a finite fill.**  If every member is ≥ the fill `f`, combining the per-block maxima (absent
    block ↦ `f`) with `max` gives the block value of the concatenation. -/
theorem combine_max_fill (f : Val) (parts : List (List Val)) (hne : parts ≠ [])
    (h : ∀ p ∈ parts, ∀ x ∈ p, GeFill f x) :
    combineVal .max (parts.map (blockVal .max f)) = blockVal .max f parts.flatten := by
  have hflat : ∀ x ∈ parts.flatten, GeFill f x := by
    intro x hx
    obtain ⟨p, hp, hxp⟩ := List.mem_flatten.mp hx
    exact h p hp x hxp
  have hmap : parts.map (blockVal .max f) = (parts.map vmax).map (Val.max f) := by
    rw [List.map_map]
    apply List.map_congr_left
    intro p hp
    exact blockVal_max_fill f p (h p hp)
  rw [hmap, blockVal_max_fill f _ hflat]
  simp only [combineVal, kEval]
  rw [vmax_map_max f _ (by simpa using hne), vmax_map_vmax_eq_flatten]

theorem combine_min_fill (f : Val) (parts : List (List Val)) (hne : parts ≠ [])
    (h : ∀ p ∈ parts, ∀ x ∈ p, LeFill f x) :
    combineVal .min (parts.map (blockVal .min f)) = blockVal .min f parts.flatten := by
  have hflat : ∀ x ∈ parts.flatten, LeFill f x := by
    intro x hx
    obtain ⟨p, hp, hxp⟩ := List.mem_flatten.mp hx
    exact h p hp x hxp
  have hmap : parts.map (blockVal .min f) = (parts.map vmin).map (Val.min f) := by
    rw [List.map_map]
    apply List.map_congr_left
    intro p hp
    exact blockVal_min_fill f p (h p hp)
  rw [hmap, blockVal_min_fill f _ hflat]
  simp only [combineVal, kEval]
  rw [vmin_map_min f _ (by simpa using hne), vmin_map_vmin_eq_flatten]

/-! ### `nanmax` / `nanmin`: reduce to `max` / `min` on the valid members -/

theorem blockVal_nanmax_eq (f : Val) (ms : List Val) : blockVal .nanmax f ms = blockVal .max f (dropNaN ms) := by
  unfold blockVal
  cases ms with
  | nil => rfl
  | cons x xs =>
    cases h : (dropNaN (x :: xs)).isEmpty
    · simp [Kernel.skipsNaN, kEval, h]
    · simp only [List.isEmpty_iff] at h
      simp [Kernel.skipsNaN, allNaNVal]

theorem blockVal_nanmin_eq (f : Val) (ms : List Val) : blockVal .nanmin f ms = blockVal .min f (dropNaN ms) := by
  unfold blockVal
  cases ms with
  | nil => rfl
  | cons x xs =>
    cases h : (dropNaN (x :: xs)).isEmpty
    · simp [Kernel.skipsNaN, kEval, h]
    · simp only [List.isEmpty_iff] at h
      simp [Kernel.skipsNaN, allNaNVal]

theorem blockVal_max_isNaN (f : Val) (hf : f.isNaN = false) (ms : List Val) (h : ∀ x ∈ ms, x.isNaN = false) :
    (blockVal .max f ms).isNaN = false := by
  cases ms with
  | nil => simpa [blockVal] using hf
  | cons x xs =>
    have : blockVal .max f (x :: xs) = vmax (x :: xs) := by simp [blockVal, Kernel.skipsNaN, kEval]
    rw [this]
    exact vmax_isNaN_false h

theorem blockVal_min_isNaN (f : Val) (hf : f.isNaN = false) (ms : List Val) (h : ∀ x ∈ ms, x.isNaN = false) :
    (blockVal .min f ms).isNaN = false := by
  cases ms with
  | nil => simpa [blockVal] using hf
  | cons x xs =>
    have : blockVal .min f (x :: xs) = vmin (x :: xs) := by simp [blockVal, Kernel.skipsNaN, kEval]
    rw [this]
    exact vmin_isNaN_false h

/-- **`nanmax` with a finite (non-NaN) fill**: every valid member is ≥ `f` -/
theorem combine_nanmax_fill (f : Val) (hf : f.isNaN = false) (parts : List (List Val)) (hne : parts ≠ [])
    (h : ∀ p ∈ parts, ∀ x ∈ p, x.isNaN = false → GeFill f x) :
    combineVal .nanmax (parts.map (blockVal .nanmax f)) = blockVal .nanmax f parts.flatten := by
  have hmap : parts.map (blockVal .nanmax f) = (parts.map dropNaN).map (blockVal .max f) := by
    rw [List.map_map]
    apply List.map_congr_left
    intro p _
    exact blockVal_nanmax_eq f p
  have hself : dropNaN ((parts.map dropNaN).map (blockVal .max f)) = (parts.map dropNaN).map (blockVal .max f) := by
    apply dropNaN_eq_self
    intro x hx
    obtain ⟨q, hq, rfl⟩ := List.mem_map.mp hx
    obtain ⟨p, _, rfl⟩ := List.mem_map.mp hq
    exact blockVal_max_isNaN f hf _ (fun y hy => (mem_dropNaN.mp hy).2)
  have hemp : ((parts.map dropNaN).map (blockVal .max f)).isEmpty = false := by
    cases parts with
    | nil => exact absurd rfl hne
    | cons _ _ => rfl
  rw [hmap, blockVal_nanmax_eq, dropNaN_flatten]
  have := combine_max_fill f (parts.map dropNaN) (by simpa using hne) (by
    intro q hq x hx
    obtain ⟨p, hp, rfl⟩ := List.mem_map.mp hq
    exact h p hp x (mem_dropNaN.mp hx).1 (mem_dropNaN.mp hx).2)
  rw [← this]
  simp only [combineVal, kEval, hself, hemp]
  rfl

theorem combine_nanmin_fill (f : Val) (hf : f.isNaN = false) (parts : List (List Val)) (hne : parts ≠ [])
    (h : ∀ p ∈ parts, ∀ x ∈ p, x.isNaN = false → LeFill f x) :
    combineVal .nanmin (parts.map (blockVal .nanmin f)) = blockVal .nanmin f parts.flatten := by
  have hmap : parts.map (blockVal .nanmin f) = (parts.map dropNaN).map (blockVal .min f) := by
    rw [List.map_map]
    apply List.map_congr_left
    intro p _
    exact blockVal_nanmin_eq f p
  have hself : dropNaN ((parts.map dropNaN).map (blockVal .min f)) = (parts.map dropNaN).map (blockVal .min f) := by
    apply dropNaN_eq_self
    intro x hx
    obtain ⟨q, hq, rfl⟩ := List.mem_map.mp hx
    obtain ⟨p, _, rfl⟩ := List.mem_map.mp hq
    exact blockVal_min_isNaN f hf _ (fun y hy => (mem_dropNaN.mp hy).2)
  have hemp : ((parts.map dropNaN).map (blockVal .min f)).isEmpty = false := by
    cases parts with
    | nil => exact absurd rfl hne
    | cons _ _ => rfl
  rw [hmap, blockVal_nanmin_eq, dropNaN_flatten]
  have := combine_min_fill f (parts.map dropNaN) (by simpa using hne) (by
    intro q hq x hx
    obtain ⟨p, hp, rfl⟩ := List.mem_map.mp hq
    exact h p hp x (mem_dropNaN.mp hx).1 (mem_dropNaN.mp hx).2)
  rw [← this]
  simp only [combineVal, kEval, hself, hemp]
  rfl

/-! ### integer data -/

/-- a value an array of a signed integer dtype with `bits` bits can hold -/
def IsIntN (bits : Nat) (x : Val) : Prop := ∃ i : Int, x = Val.ofInt i ∧ -(2 ^ (bits - 1) : Int) ≤ i ∧ i < 2 ^ (bits - 1)

/-- the fill `_get_fill_value(intN, NINF)` = `iinfo.min` and `_get_fill_value(intN, INF)` = `iinfo.max` -/
def intMin (bits : Nat) : Val := Val.ofInt (-(2 ^ (bits - 1) : Int))
def intMax (bits : Nat) : Val := Val.ofInt ((2 ^ (bits - 1) : Int) - 1)

theorem max_fin_of_le (a b : Rat) (h : a ≤ b) : Val.max (Val.fin a) (Val.fin b) = Val.fin b := by
  simp [Val.max, h]

theorem min_fin_of_ge (a b : Rat) (h : b ≤ a) : Val.min (Val.fin a) (Val.fin b) = Val.fin b := by
  by_cases he : a ≤ b
  · have : a = b := Rat.le_antisymm he h
    simp [Val.min, this]
  · simp [Val.min, he]

theorem intN_ge_min (bits : Nat) (x : Val) (h : IsIntN bits x) : GeFill (intMin bits) x := by
  obtain ⟨i, rfl, hlo, _⟩ := h
  exact max_fin_of_le _ _ (by exact_mod_cast hlo)

theorem intN_le_max (bits : Nat) (x : Val) (h : IsIntN bits x) : LeFill (intMax bits) x := by
  obtain ⟨i, rfl, _, hhi⟩ := h
  have h1 : i ≤ (2 ^ (bits - 1) : Int) - 1 := by omega
  exact min_fin_of_ge _ _ (by exact_mod_cast h1)

theorem intN_not_nan (bits : Nat) (x : Val) (h : IsIntN bits x) : x.isNaN = false := by
  obtain ⟨i, rfl, _, _⟩ := h; rfl

end Flox
