/-
  Glue for `FloxProps/C16.lean`: after `factorizeLabels`, the member list of slot `j` is the list of values whose LABEL
  is the `j`-th returned label – independently of the order in which the labels are returned.
-/
import FloxProofs.LabelOrder
import FloxProofs.SparseKeys

namespace Flox
namespace C16

theorem codeOf_eq_iff_label (groups : List Rat) (hnd : groups.Nodup) (l : Key) (j : Nat) (hj : j < groups.length) :
    codeOf groups l = (j : Int) ↔ l = some groups[j] := by
  constructor
  · intro h
    have := ((codeOf_decode groups l).1 j h).1
    rw [List.getElem?_eq_getElem hj] at this
    exact this.symm
  · intro h
    subst h
    simp only [codeOf, Grp.indexOf?_getElem hnd j hj]

/-- slot `j` collects exactly the values carrying the `j`-th label -/
theorem members_by_label (groups : List Rat) (hnd : groups.Nodup) (j : Nat) (hj : j < groups.length)
    (labels : List Key) (vals : List Val) :
    members (Int.ofNat j) (labels.map (codeOf groups)) vals = Grp.membersK (some groups[j]) labels vals := by
  induction labels generalizing vals with
  | nil => simp
  | cons l ls ih =>
    cases vals with
    | nil => simp
    | cons v vs =>
      simp only [List.map_cons, members_cons, Grp.membersK_cons]
      by_cases hc : codeOf groups l = Int.ofNat j
      · have := (codeOf_eq_iff_label groups hnd l j hj).mp hc
        rw [if_pos hc, if_pos this, ih vs]
      · have : ¬ l = some groups[j] := fun e => hc ((codeOf_eq_iff_label groups hnd l j hj).mpr e)
        rw [if_neg hc, if_neg this, ih vs]

/-- the returned labels are duplicate-free (given a duplicate-free `expected`, if any) -/
theorem factorizeLabels_nodup (labels : List Key) (expected : Option (List Rat)) (sort : Bool)
    (hnd : ∀ ex, expected = some ex → ex.Nodup) : (factorizeLabels labels expected sort).1.Nodup := by
  cases expected with
  | none =>
    cases sort
    · exact (factorizeLabels_unsorted_found labels).2.1
    · exact (factorizeLabels_sorted_found labels).1.nodup
  | some ex =>
    cases sort
    · rw [factorizeLabels_unsorted_expected]; exact hnd ex rfl
    · exact (factorizeLabels_sorted_expected labels ex (hnd ex rfl)).1.nodup

theorem factorizeLabels_members (labels : List Key) (expected : Option (List Rat)) (sort : Bool)
    (hnd : ∀ ex, expected = some ex → ex.Nodup) (vals : List Val) (j : Nat)
    (hj : j < (factorizeLabels labels expected sort).1.length) :
    members (Int.ofNat j) (factorizeLabels labels expected sort).2 vals
      = Grp.membersK (some (factorizeLabels labels expected sort).1[j]) labels vals := by
  rw [factorizeLabels_codes]
  exact members_by_label _ (factorizeLabels_nodup labels expected sort hnd) j hj labels vals

end C16
end Flox
