/-
  Correctness of flox's own engine (`EngineFlox`, model of `flox/aggregate_flox.py`):
  in every slot it computes the per-group reduction of that group's members *in original order*.
-/
import FloxModel.Engines
import FloxModel.Blueprint
import FloxProofs.StableSort
import FloxProofs.ValAlgebra

namespace Flox
namespace EngineFlox

/-! ### value transformers used by the engine -/

def substV (e : Val) (v : Val) : Val := if v.isNaN then e else v
def notNullV (v : Val) : Val := if v.isNaN then Val.zero else Val.one
def sqV (v : Val) : Val := Val.mul v v

theorem substNaN_eq (e : Val) (s : List (Int × Val)) :
    substNaN e s = s.map fun p => (p.1, substV e p.2) := rfl
theorem notNullVals_eq (s : List (Int × Val)) :
    notNullVals s = s.map fun p => (p.1, notNullV p.2) := rfl
theorem sqVals_eq (s : List (Int × Val)) :
    sqVals s = s.map fun p => (p.1, sqV p.2) := rfl
theorem sqVals_substNaN_eq (e : Val) (s : List (Int × Val)) :
    sqVals (substNaN e s) = s.map fun p => (p.1, sqV (substV e p.2)) := by
  simp [sqVals, substNaN, sqV, substV]

theorem mapVals_sorted (f : Val → Val) (s : List (Int × Val)) (hs : KeySorted s) :
    KeySorted (s.map fun p => (p.1, f p.2)) := by
  unfold KeySorted
  rw [List.pairwise_map]
  exact hs

theorem mapVals_filter (f : Val → Val) (s : List (Int × Val)) (g : Int) :
    (s.map fun p => (p.1, f p.2)).filter (fun p => p.1 = g)
      = (s.filter (fun p => p.1 = g)).map fun p => (p.1, f p.2) := by
  rw [List.filter_map]
  rfl

/-! ### `npGroupedOp` on the prepared (sorted) array, slot by slot -/

theorem npGroupedOp_prepare_map (op : Val → Val → Val) (f : Val → Val)
    (codes : List Int) (vals : List Val) (size : Nat) (fill : Val) :
    npGroupedOp op ((prepare codes vals).map fun p => (p.1, f p.2)) size fill
      = (List.range size).map fun (g : Nat) =>
          if members (Int.ofNat g) codes vals = [] then fill
          else fold1 op Val.nan ((members (Int.ofNat g) codes vals).map f) := by
  unfold npGroupedOp
  simp only
  apply List.map_congr_left
  intro g _
  generalize Int.ofNat g = gi
  rw [segments_lookup _ (mapVals_sorted f _ (prepare_sorted codes vals)), mapVals_filter,
    List.map_map, ← prepare_members]
  by_cases h : (prepare codes vals).filter (fun p => p.1 = gi) = []
  · simp [h]
  · simp [h, reduceSeg, Function.comp_def]

theorem npGroupedOp_prepare (op : Val → Val → Val)
    (codes : List Int) (vals : List Val) (size : Nat) (fill : Val) :
    npGroupedOp op (prepare codes vals) size fill
      = (List.range size).map fun (g : Nat) =>
          if members (Int.ofNat g) codes vals = [] then fill
          else fold1 op Val.nan (members (Int.ofNat g) codes vals) := by
  have := npGroupedOp_prepare_map op id codes vals size fill
  simpa using this

theorem nanGroupedOp_prepare (op : Val → Val → Val) (e : Val)
    (codes : List Int) (vals : List Val) (size : Nat) (fill : Val) :
    nanGroupedOp op e (prepare codes vals) size fill
      = (List.range size).map fun (g : Nat) =>
          let ms := members (Int.ofNat g) codes vals
          let x := if ms = [] then fill else fold1 op Val.nan (ms.map (substV e))
          let n := if ms = [] then Val.zero else fold1 Val.add Val.nan (ms.map notNullV)
          if e = Val.pinf ∨ e = Val.ninf then (if x = e ∧ n = Val.zero then fill else x) else x := by
  unfold nanGroupedOp
  simp only
  rw [substNaN_eq, notNullVals_eq, npGroupedOp_prepare_map, npGroupedOp_prepare_map]
  by_cases he : e = Val.pinf ∨ e = Val.ninf
  · simp only [he, if_true]
    rw [List.zipWith_map, List.zipWith_self]
  · simp only [he, if_false]

/-! ### folds -/

theorem fold1_eq_foldl (op : Val → Val → Val) (e : Val) (hl : ∀ a, op e a = a) (d : Val)
    (ms : List Val) (hne : ms ≠ []) : fold1 op d ms = ms.foldl op e := by
  cases ms with
  | nil => exact absurd rfl hne
  | cons x xs => simp [fold1, hl]

theorem foldl_eq_fold1 (op : Val → Val → Val) (e : Val) (hl : ∀ a, op e a = a)
    (ys : List Val) : ys.foldl op e = fold1 op e ys := by
  cases ys with
  | nil => rfl
  | cons x xs => simp [fold1, hl]

theorem foldl_subst (op : Val → Val → Val) (e : Val) (hr : ∀ a, op a e = a) (a : Val) (ms : List Val) :
    (ms.map (substV e)).foldl op a = (dropNaN ms).foldl op a := by
  induction ms generalizing a with
  | nil => rfl
  | cons x xs ih =>
    by_cases hx : x.isNaN = true
    · simp [dropNaN, substV, hx, hr] at ih ⊢
      exact ih a
    · simp [dropNaN, substV, hx] at ih ⊢
      exact ih _

/-- substituting the identity for NaN and folding = folding the non-NaN members -/
theorem fold1_subst (op : Val → Val → Val) (e : Val) (hl : ∀ a, op e a = a) (hr : ∀ a, op a e = a)
    (d : Val) (ms : List Val) (hne : ms ≠ []) :
    fold1 op d (ms.map (substV e)) = (dropNaN ms).foldl op e := by
  rw [fold1_eq_foldl op e hl d _ (by simpa using hne), foldl_subst op e hr]

theorem fold1_add (d : Val) (ms : List Val) (hne : ms ≠ []) : fold1 Val.add d ms = vsum ms :=
  fold1_eq_foldl Val.add Val.zero Val.add_zero_left d ms hne

theorem fold1_mul (d : Val) (ms : List Val) (hne : ms ≠ []) : fold1 Val.mul d ms = vprod ms :=
  fold1_eq_foldl Val.mul Val.one Val.mul_one_left d ms hne

theorem fold1_dflt (op : Val → Val → Val) (d d' : Val) (ms : List Val) (hne : ms ≠ []) :
    fold1 op d ms = fold1 op d' ms := by
  cases ms with
  | nil => exact absurd rfl hne
  | cons x xs => rfl

theorem foldl_notNull (q : Rat) (ms : List Val) :
    (ms.map notNullV).foldl Val.add (Val.fin q)
      = Val.fin (q + ((dropNaN ms).length : Rat)) := by
  induction ms generalizing q with
  | nil => simp [dropNaN, Rat.add_zero]
  | cons x xs ih =>
    by_cases hx : x.isNaN = true
    · have : Val.add (Val.fin q) Val.zero = Val.fin q := Val.add_zero_right _
      simp [dropNaN, notNullV, hx, this] at ih ⊢
      exact ih q
    · have : Val.add (Val.fin q) Val.one = Val.fin (q + 1) := by
        simp [Val.add, Val.one]
      simp [dropNaN, notNullV, hx, this] at ih ⊢
      rw [ih (q + 1)]
      congr 1
      grind

/-- the engine's "count of valid values" really is the number of non-NaN members -/
theorem vsum_notNull (ms : List Val) : vsum (ms.map notNullV) = Val.ofNat (dropNaN ms).length := by
  have := foldl_notNull 0 ms
  simpa [vsum, Val.zero, Val.ofNat, Rat.zero_add] using this

theorem ofNat_eq_zero (n : Nat) : Val.ofNat n = Val.zero ↔ n = 0 := by
  simp [Val.ofNat, Val.zero]

theorem sqV_zero : sqV Val.zero = Val.zero := by
  simp [sqV, Val.mul, Val.zero]

theorem foldl_sq_subst (a : Val) (ms : List Val) :
    (ms.map (fun v => sqV (substV Val.zero v))).foldl Val.add a
      = ((dropNaN ms).map sqV).foldl Val.add a := by
  induction ms generalizing a with
  | nil => rfl
  | cons x xs ih =>
    by_cases hx : x.isNaN = true
    · simp [dropNaN, substV, hx, sqV_zero, Val.add_zero_right] at ih ⊢
      exact ih a
    · simp [dropNaN, substV, hx] at ih ⊢
      exact ih _

/-! ### `blockVal` case analysis -/

theorem blockVal_nil (k : Kernel) (f : Val) : blockVal k f [] = f := by simp [blockVal]

theorem blockVal_noskip (k : Kernel) (f : Val) (ms : List Val) (hk : k.skipsNaN = false)
    (hne : ms ≠ []) : blockVal k f ms = kEval k ms := by
  simp [blockVal, hk, hne]

theorem blockVal_allNaN (k : Kernel) (f : Val) (ms : List Val) (hk : k.skipsNaN = true)
    (hne : ms ≠ []) (h : dropNaN ms = []) : blockVal k f ms = allNaNVal k f := by
  simp [blockVal, hk, hne, h]

theorem blockVal_valid (k : Kernel) (f : Val) (ms : List Val)
    (h : dropNaN ms ≠ []) : blockVal k f ms = kEval k ms := by
  have hne : ms ≠ [] := by intro h'; subst h'; exact h rfl
  simp [blockVal, hne, h]

/-! ### one slot, kernel by kernel -/

theorem slot_sum (fill : Val) (ms : List Val) :
    (if ms = [] then fill else fold1 Val.add Val.nan ms) = blockVal .sum fill ms := by
  by_cases h : ms = []
  · subst h; simp [blockVal_nil]
  · rw [if_neg h, fold1_add _ _ h, blockVal_noskip _ _ _ rfl h]; rfl

theorem slot_prod (fill : Val) (ms : List Val) :
    (if ms = [] then fill else fold1 Val.mul Val.nan ms) = blockVal .prod fill ms := by
  by_cases h : ms = []
  · subst h; simp [blockVal_nil]
  · rw [if_neg h, fold1_mul _ _ h, blockVal_noskip _ _ _ rfl h]; rfl

theorem slot_max (fill : Val) (ms : List Val) :
    (if ms = [] then fill else fold1 Val.max Val.nan ms) = blockVal .max fill ms := by
  by_cases h : ms = []
  · subst h; simp [blockVal_nil]
  · rw [if_neg h, blockVal_noskip _ _ _ rfl h]; exact fold1_dflt _ _ _ _ h

theorem slot_min (fill : Val) (ms : List Val) :
    (if ms = [] then fill else fold1 Val.min Val.nan ms) = blockVal .min fill ms := by
  by_cases h : ms = []
  · subst h; simp [blockVal_nil]
  · rw [if_neg h, blockVal_noskip _ _ _ rfl h]; exact fold1_dflt _ _ _ _ h

theorem slot_sumsq (fill : Val) (ms : List Val) :
    (if ms = [] then fill else fold1 Val.add Val.nan (ms.map sqV)) = blockVal .sumsq fill ms := by
  by_cases h : ms = []
  · subst h; simp [blockVal_nil]
  · rw [if_neg h, fold1_add _ _ (by simpa using h), blockVal_noskip _ _ _ rfl h]; rfl

theorem slot_nansum (fill : Val) (ms : List Val) :
    (if ms = [] then fill else fold1 Val.add Val.nan (ms.map (substV Val.zero)))
      = blockVal .nansum fill ms := by
  by_cases h : ms = []
  · subst h; simp [blockVal_nil]
  · rw [if_neg h, fold1_subst _ _ Val.add_zero_left Val.add_zero_right _ _ h]
    by_cases hd : dropNaN ms = []
    · rw [blockVal_allNaN _ _ _ rfl h hd, hd]; rfl
    · rw [blockVal_valid _ _ _ hd]; rfl

theorem slot_nanprod (fill : Val) (ms : List Val) :
    (if ms = [] then fill else fold1 Val.mul Val.nan (ms.map (substV Val.one)))
      = blockVal .nanprod fill ms := by
  by_cases h : ms = []
  · subst h; simp [blockVal_nil]
  · rw [if_neg h, fold1_subst _ _ Val.mul_one_left Val.mul_one_right _ _ h]
    by_cases hd : dropNaN ms = []
    · rw [blockVal_allNaN _ _ _ rfl h hd, hd]; rfl
    · rw [blockVal_valid _ _ _ hd]; rfl

theorem slot_nansumsq (fill : Val) (ms : List Val) :
    (if ms = [] then fill else fold1 Val.add Val.nan (ms.map fun v => sqV (substV Val.zero v)))
      = blockVal .nansumsq fill ms := by
  by_cases h : ms = []
  · subst h; simp [blockVal_nil]
  · rw [if_neg h, fold1_add _ _ (by simpa using h)]
    unfold vsum
    rw [foldl_sq_subst]
    by_cases hd : dropNaN ms = []
    · rw [blockVal_allNaN _ _ _ rfl h hd, hd]; rfl
    · rw [blockVal_valid _ _ _ hd]; rfl

theorem slot_nanlen (fill : Val) (ms : List Val) :
    (if ms = [] then fill else fold1 Val.add Val.nan (ms.map notNullV))
      = blockVal .nanlen fill ms := by
  by_cases h : ms = []
  · subst h; simp [blockVal_nil]
  · rw [if_neg h, fold1_add _ _ (by simpa using h), vsum_notNull]
    by_cases hd : dropNaN ms = []
    · rw [blockVal_allNaN _ _ _ rfl h hd, hd]; rfl
    · rw [blockVal_valid _ _ _ hd]; rfl

/-- the slot computed by `_nan_grouped_op` with a ±inf substitute: the "number of valid values = 0" test singles out
    exactly the absent and the all-NaN groups, so a group whose true extreme is the substitute keeps it. -/
theorem slot_nanext (op : Val → Val → Val) (e : Val) (hl : ∀ a, op e a = a) (hr : ∀ a, op a e = a)
    (fill : Val) (ms : List Val) :
    (let x := if ms = [] then fill else fold1 op Val.nan (ms.map (substV e))
     let n := if ms = [] then Val.zero else fold1 Val.add Val.nan (ms.map notNullV)
     if x = e ∧ n = Val.zero then fill else x)
      = if dropNaN ms = [] then fill else fold1 op e (dropNaN ms) := by
  by_cases h : ms = []
  · subst h; simp [dropNaN]
  · simp only [if_neg h]
    rw [fold1_subst _ _ hl hr _ _ h, fold1_add _ _ (by simpa using h), vsum_notNull]
    simp only [ofNat_eq_zero, foldl_eq_fold1 op e hl]
    by_cases hd : dropNaN ms = []
    · simp [hd, fold1]
    · have : (dropNaN ms).length ≠ 0 := by simpa using hd
      simp [hd, this]

theorem slot_nanmax (fill : Val) (ms : List Val) :
    (if dropNaN ms = [] then fill else fold1 Val.max Val.ninf (dropNaN ms)) = blockVal .nanmax fill ms := by
  by_cases h : ms = []
  · subst h; simp [blockVal_nil, dropNaN]
  · by_cases hd : dropNaN ms = []
    · rw [blockVal_allNaN _ _ _ rfl h hd, if_pos hd]; rfl
    · rw [blockVal_valid _ _ _ hd, if_neg hd]; simp [kEval, hd, vmax]

theorem slot_nanmin (fill : Val) (ms : List Val) :
    (if dropNaN ms = [] then fill else fold1 Val.min Val.pinf (dropNaN ms)) = blockVal .nanmin fill ms := by
  by_cases h : ms = []
  · subst h; simp [blockVal_nil, dropNaN]
  · by_cases hd : dropNaN ms = []
    · rw [blockVal_allNaN _ _ _ rfl h hd, if_pos hd]; rfl
    · rw [blockVal_valid _ _ _ hd, if_neg hd]; simp [kEval, hd, vmin]

/-! ### main theorem -/

theorem run_sum (codes : List Int) (vals : List Val) (size : Nat) (fill : Val) :
    run? .sum codes vals size fill
      = some ((List.range size).map fun (g : Nat) => blockVal .sum fill (members (Int.ofNat g) codes vals)) := by
  simp only [run?, npGroupedOp_prepare, slot_sum]

theorem run_prod (codes : List Int) (vals : List Val) (size : Nat) (fill : Val) :
    run? .prod codes vals size fill
      = some ((List.range size).map fun (g : Nat) => blockVal .prod fill (members (Int.ofNat g) codes vals)) := by
  simp only [run?, npGroupedOp_prepare, slot_prod]

theorem run_max (codes : List Int) (vals : List Val) (size : Nat) (fill : Val) :
    run? .max codes vals size fill
      = some ((List.range size).map fun (g : Nat) => blockVal .max fill (members (Int.ofNat g) codes vals)) := by
  simp only [run?, npGroupedOp_prepare, slot_max]

theorem run_min (codes : List Int) (vals : List Val) (size : Nat) (fill : Val) :
    run? .min codes vals size fill
      = some ((List.range size).map fun (g : Nat) => blockVal .min fill (members (Int.ofNat g) codes vals)) := by
  simp only [run?, npGroupedOp_prepare, slot_min]

theorem run_sumsq (codes : List Int) (vals : List Val) (size : Nat) (fill : Val) :
    run? .sumsq codes vals size fill
      = some ((List.range size).map fun (g : Nat) => blockVal .sumsq fill (members (Int.ofNat g) codes vals)) := by
  simp only [run?, sqVals_eq, npGroupedOp_prepare_map, slot_sumsq]

theorem run_nansumsq (codes : List Int) (vals : List Val) (size : Nat) (fill : Val) :
    run? .nansumsq codes vals size fill
      = some ((List.range size).map fun (g : Nat) => blockVal .nansumsq fill (members (Int.ofNat g) codes vals)) := by
  simp only [run?, sqVals_substNaN_eq,
    npGroupedOp_prepare_map Val.add (fun v => sqV (substV Val.zero v)), slot_nansumsq]

theorem run_nanlen (codes : List Int) (vals : List Val) (size : Nat) (fill : Val) :
    run? .nanlen codes vals size fill
      = some ((List.range size).map fun (g : Nat) => blockVal .nanlen fill (members (Int.ofNat g) codes vals)) := by
  simp only [run?, notNullVals_eq, npGroupedOp_prepare_map, slot_nanlen]

theorem zero_ne_inf : ¬ (Val.zero = Val.pinf ∨ Val.zero = Val.ninf) := by simp [Val.zero]
theorem one_ne_inf : ¬ (Val.one = Val.pinf ∨ Val.one = Val.ninf) := by simp [Val.one]

theorem run_nansum (codes : List Int) (vals : List Val) (size : Nat) (fill : Val) :
    run? .nansum codes vals size fill
      = some ((List.range size).map fun (g : Nat) => blockVal .nansum fill (members (Int.ofNat g) codes vals)) := by
  simp only [run?, nanGroupedOp_prepare, if_neg zero_ne_inf, slot_nansum]

theorem run_nanprod (codes : List Int) (vals : List Val) (size : Nat) (fill : Val) :
    run? .nanprod codes vals size fill
      = some ((List.range size).map fun (g : Nat) => blockVal .nanprod fill (members (Int.ofNat g) codes vals)) := by
  simp only [run?, nanGroupedOp_prepare, if_neg one_ne_inf, slot_nanprod]

theorem run_nanmax (codes : List Int) (vals : List Val) (size : Nat) (fill : Val) :
    run? .nanmax codes vals size fill
      = some ((List.range size).map fun (g : Nat) => blockVal .nanmax fill (members (Int.ofNat g) codes vals)) := by
  simp only [run?, nanGroupedOp_prepare]
  congr 1
  apply List.map_congr_left
  intro g _
  rw [if_pos (Or.inr trivial), ← slot_nanmax]
  exact slot_nanext Val.max Val.ninf Val.max_ninf_left Val.max_ninf_right fill _

theorem run_nanmin (codes : List Int) (vals : List Val) (size : Nat) (fill : Val) :
    run? .nanmin codes vals size fill
      = some ((List.range size).map fun (g : Nat) => blockVal .nanmin fill (members (Int.ofNat g) codes vals)) := by
  simp only [run?, nanGroupedOp_prepare]
  congr 1
  apply List.map_congr_left
  intro g _
  rw [if_pos (Or.inl trivial), ← slot_nanmin]
  exact slot_nanext Val.min Val.pinf Val.min_pinf_left Val.min_pinf_right fill _

/-! ### mean / nanmean -/

theorem foldl_add_nan (ms : List Val) : ms.foldl Val.add Val.nan = Val.nan := by
  induction ms with
  | nil => rfl
  | cons x xs ih => simpa using ih

/-- a sum over a list that contains a NaN is NaN -/
theorem foldl_add_hasNaN (a : Val) (ms : List Val) (h : dropNaN ms ≠ ms) : ms.foldl Val.add a = Val.nan := by
  induction ms generalizing a with
  | nil => exact absurd rfl h
  | cons x xs ih =>
    by_cases hx : x.isNaN = true
    · cases x <;> simp [Val.isNaN] at hx
      simp [foldl_add_nan]
    · have : dropNaN xs ≠ xs := by
        intro h'; apply h; simp [dropNaN, hx] at h' ⊢; exact h'
      simp only [List.foldl_cons]
      exact ih _ this

theorem slot_mean (fill : Val) (ms : List Val) :
    Val.div (if ms = [] then fill else fold1 Val.add Val.nan ms)
        (if ms = [] then Val.zero else fold1 Val.add Val.nan (ms.map notNullV))
      = if ms = [] then Val.div fill Val.zero else kEval .mean ms := by
  by_cases h : ms = []
  · simp [h]
  · simp only [if_neg h]
    rw [fold1_add _ _ h, fold1_add _ _ (by simpa using h), vsum_notNull]
    by_cases hd : dropNaN ms = ms
    · rw [hd]; rfl
    · have : vsum ms = Val.nan := foldl_add_hasNaN _ _ hd
      simp [kEval, vmean, this, Val.div]

theorem slot_nanmean (fill : Val) (ms : List Val) :
    Val.div (if ms = [] then fill else fold1 Val.add Val.nan (ms.map (substV Val.zero)))
        (if ms = [] then Val.zero else fold1 Val.add Val.nan (ms.map notNullV))
      = if ms = [] then Val.div fill Val.zero else kEval .nanmean ms := by
  by_cases h : ms = []
  · simp [h]
  · simp only [if_neg h]
    rw [fold1_subst _ _ Val.add_zero_left Val.add_zero_right _ _ h, fold1_add _ _ (by simpa using h),
      vsum_notNull]
    rfl

/-- `mean` of the flox engine, all slots: a present group gets `np.mean` of its members (original order);
    an absent group gets `fill / 0`. -/
theorem run_mean (codes : List Int) (vals : List Val) (size : Nat) (fill : Val) :
    run? .mean codes vals size fill
      = some ((List.range size).map fun (g : Nat) =>
          if members (Int.ofNat g) codes vals = [] then Val.div fill Val.zero
          else kEval .mean (members (Int.ofNat g) codes vals)) := by
  simp only [run?, notNullVals_eq, npGroupedOp_prepare, npGroupedOp_prepare_map, List.zipWith_map,
    List.zipWith_self, slot_mean]

/-- `nanmean` of the flox engine, all slots: a present group gets `np.nanmean` of its members - including the
    all-NaN group, where both sides are `0/0 = nan`; an absent group gets `fill / 0`. -/
theorem run_nanmean (codes : List Int) (vals : List Val) (size : Nat) (fill : Val) :
    run? .nanmean codes vals size fill
      = some ((List.range size).map fun (g : Nat) =>
          if members (Int.ofNat g) codes vals = [] then Val.div fill Val.zero
          else kEval .nanmean (members (Int.ofNat g) codes vals)) := by
  simp only [run?, notNullVals_eq, nanGroupedOp_prepare, if_neg zero_ne_inf, npGroupedOp_prepare_map,
    List.zipWith_map, List.zipWith_self, slot_nanmean]

theorem kEval_nanmean_allNaN (ms : List Val) (h : dropNaN ms = []) : kEval .nanmean ms = Val.nan := by
  simp [kEval, h, vmean, vsum, vcount, Val.ofNat, Val.zero, Val.div]

end EngineFlox

open EngineFlox in
/-- **flox's engine computes, in every slot, the block value of the group's members in original order.**
    (`hlen` is not needed by the proof: `zip` and `members` both stop at the shorter list.) -/
theorem floxEngine_eq_blockVal (k : Kernel)
    (hk : k ∈ [.sum, .prod, .max, .min, .nansum, .nanprod, .nanmax, .nanmin, .sumsq, .nansumsq, .nanlen])
    (codes : List Int) (vals : List Val) (size : Nat) (fill : Val) (_hlen : codes.length = vals.length) :
    EngineFlox.run? k codes vals size fill
      = some ((List.range size).map fun (g : Nat) => blockVal k fill (members (Int.ofNat g) codes vals)) := by
  simp only [List.mem_cons, List.not_mem_nil, or_false] at hk
  rcases hk with rfl | rfl | rfl | rfl | rfl | rfl | rfl | rfl | rfl | rfl | rfl
  · exact run_sum ..
  · exact run_prod ..
  · exact run_max ..
  · exact run_min ..
  · exact run_nansum ..
  · exact run_nanprod ..
  · exact run_nanmax ..
  · exact run_nanmin ..
  · exact run_sumsq ..
  · exact run_nansumsq ..
  · exact run_nanlen ..

open EngineFlox in
/-- item 4, slot form (`mean`): every slot `g < size` whose group has at least one member holds `np.mean` of the
    members in original order. -/
theorem floxEngine_mean_slot (codes : List Int) (vals : List Val) (size : Nat) (fill : Val)
    (_hlen : codes.length = vals.length) :
    ∃ r, EngineFlox.run? .mean codes vals size fill = some r ∧ r.length = size ∧
      ∀ g : Nat, g < size → members (Int.ofNat g) codes vals ≠ [] →
        r[g]? = some (kEval .mean (members (Int.ofNat g) codes vals)) := by
  refine ⟨_, run_mean codes vals size fill, by simp, ?_⟩
  intro g hg hne
  simp only [List.getElem?_map, List.getElem?_range hg, Option.map_some, if_neg hne]

open EngineFlox in
/-- item 4, slot form (`nanmean`): every slot `g < size` whose group has at least one member (NaN or not) holds
    `np.nanmean` of the members; for an all-NaN group that value is `nan` (`kEval_nanmean_allNaN`). -/
theorem floxEngine_nanmean_slot (codes : List Int) (vals : List Val) (size : Nat) (fill : Val)
    (_hlen : codes.length = vals.length) :
    ∃ r, EngineFlox.run? .nanmean codes vals size fill = some r ∧ r.length = size ∧
      ∀ g : Nat, g < size → members (Int.ofNat g) codes vals ≠ [] →
        r[g]? = some (kEval .nanmean (members (Int.ofNat g) codes vals)) := by
  refine ⟨_, run_nanmean codes vals size fill, by simp, ?_⟩
  intro g hg hne
  simp only [List.getElem?_map, List.getElem?_range hg, Option.map_some, if_neg hne]

/-! ### engine independence at the kernel level: flox engine = numpy_groupies wrappers -/

theorem members_map (f : Val → Val) (g : Int) (codes : List Int) (vals : List Val) :
    members g codes (vals.map f) = (members g codes vals).map f := by
  induction codes generalizing vals with
  | nil => simp
  | cons c cs ih =>
    cases vals with
    | nil => simp
    | cons v vs =>
      simp only [List.map_cons, members_cons]
      split <;> simp [ih]

theorem dropNaN_idem_ef (ms : List Val) : dropNaN (dropNaN ms) = dropNaN ms := by
  simp [dropNaN, List.filter_filter]

theorem floxGrouped_eq_blockVal (k : Kernel)
    (hk : k ∈ [.sum, .prod, .max, .min, .nansum, .nanprod, .nanmax, .nanmin, .sumsq, .nansumsq, .nanlen])
    (codes : List Int) (vals : List Val) (size : Nat) (fill : Val) (hlen : codes.length = vals.length) :
    floxGrouped k codes vals size fill
      = (List.range size).map fun (g : Nat) => blockVal k fill (members (Int.ofNat g) codes vals) := by
  unfold floxGrouped
  rw [floxEngine_eq_blockVal k hk codes vals size fill hlen]

open EngineFlox in
theorem npgAggregate_noskip (k : Kernel) (hk : k.skipsNaN = false)
    (codes : List Int) (vals : List Val) (size : Nat) (fill : Val) :
    npgAggregate k codes vals size fill
      = (List.range size).map fun (g : Nat) => blockVal k fill (members (Int.ofNat g) codes vals) := by
  unfold npgAggregate
  apply List.map_congr_left
  intro g _
  simp [blockVal, hk]

open EngineFlox in
/-- the numpy_groupies side (`aggregate_npg.py` wrappers), slot by slot, in `blockVal` form.
    For `nanlen` and `nansum_of_squares` an all-NaN group gets `fill` from numpy_groupies (NaNs are dropped before
    grouping, so the group looks absent) whereas the flox engine yields `0`: the two agree iff `fill = 0`
    (which is the fill flox's blueprints use for these intermediates). -/
theorem npgGrouped_eq_blockVal (k : Kernel)
    (hk : k ∈ [.sum, .prod, .max, .min, .nansum, .nanprod, .nanmax, .nanmin, .sumsq, .nansumsq, .nanlen])
    (codes : List Int) (vals : List Val) (size : Nat) (fill : Val)
    (hfill : k = .nanlen ∨ k = .nansumsq → fill = Val.zero) :
    npgGrouped k codes vals size fill
      = (List.range size).map fun (g : Nat) => blockVal k fill (members (Int.ofNat g) codes vals) := by
  simp only [List.mem_cons, List.not_mem_nil, or_false] at hk
  rcases hk with rfl | rfl | rfl | rfl | rfl | rfl | rfl | rfl | rfl | rfl | rfl
  · exact npgAggregate_noskip _ rfl ..
  · exact npgAggregate_noskip _ rfl ..
  · exact npgAggregate_noskip _ rfl ..
  · exact npgAggregate_noskip _ rfl ..
  · -- nansum: `sum` of the NaN→0 substituted array
    show npgAggregate .sum codes (vals.map (substV Val.zero)) size fill = _
    unfold npgAggregate
    apply List.map_congr_left
    intro g _
    rw [members_map, ← slot_nansum]
    generalize members (Int.ofNat g) codes vals = ms
    by_cases h : ms = []
    · simp [h, Kernel.skipsNaN]
    · have h' : ms.map (substV Val.zero) ≠ [] := by simpa using h
      simp only [Kernel.skipsNaN, Bool.false_eq_true, if_false, List.isEmpty_iff, if_neg h, if_neg h']
      rw [fold1_add _ _ h']; rfl
  · -- nanprod: `prod` of the NaN→1 substituted array
    show npgAggregate .prod codes (vals.map (substV Val.one)) size fill = _
    unfold npgAggregate
    apply List.map_congr_left
    intro g _
    rw [members_map, ← slot_nanprod]
    generalize members (Int.ofNat g) codes vals = ms
    by_cases h : ms = []
    · simp [h, Kernel.skipsNaN]
    · have h' : ms.map (substV Val.one) ≠ [] := by simpa using h
      simp only [Kernel.skipsNaN, Bool.false_eq_true, if_false, List.isEmpty_iff, if_neg h, if_neg h']
      rw [fold1_mul _ _ h']; rfl
  · -- nanmax
    show npgAggregate .nanmax codes vals size fill = _
    unfold npgAggregate
    apply List.map_congr_left
    intro g _
    rw [← slot_nanmax]
    generalize members (Int.ofNat g) codes vals = ms
    by_cases hd : dropNaN ms = []
    · simp [Kernel.skipsNaN, hd]
    · simp [Kernel.skipsNaN, hd, kEval, dropNaN_idem_ef, vmax]
  · -- nanmin
    show npgAggregate .nanmin codes vals size fill = _
    unfold npgAggregate
    apply List.map_congr_left
    intro g _
    rw [← slot_nanmin]
    generalize members (Int.ofNat g) codes vals = ms
    by_cases hd : dropNaN ms = []
    · simp [Kernel.skipsNaN, hd]
    · simp [Kernel.skipsNaN, hd, kEval, dropNaN_idem_ef, vmin]
  · exact npgAggregate_noskip _ rfl ..
  · -- nansumsq (fill = 0)
    have hf : fill = Val.zero := hfill (Or.inr rfl)
    subst hf
    show npgAggregate .nansumsq codes vals size Val.zero = _
    unfold npgAggregate
    apply List.map_congr_left
    intro g _
    generalize members (Int.ofNat g) codes vals = ms
    by_cases h : ms = []
    · subst h; simp [blockVal_nil, dropNaN]
    · by_cases hd : dropNaN ms = []
      · rw [blockVal_allNaN _ _ _ rfl h hd]; simp [Kernel.skipsNaN, hd, allNaNVal]
      · rw [blockVal_valid _ _ _ hd]; simp [Kernel.skipsNaN, hd, kEval, dropNaN_idem_ef]
  · -- nanlen (fill = 0)
    have hf : fill = Val.zero := hfill (Or.inl rfl)
    subst hf
    show (npgAggregate .nanlen codes vals size Val.zero).map
        (fun r => if r = Val.zero then Val.zero else r) = _
    have hid : (fun r : Val => if r = Val.zero then Val.zero else r) = id := by
      funext r; by_cases hr : r = Val.zero <;> simp [hr]
    rw [hid, List.map_id]
    unfold npgAggregate
    apply List.map_congr_left
    intro g _
    generalize members (Int.ofNat g) codes vals = ms
    by_cases h : ms = []
    · subst h; simp [blockVal_nil, dropNaN]
    · by_cases hd : dropNaN ms = []
      · rw [blockVal_allNaN _ _ _ rfl h hd]; simp [Kernel.skipsNaN, hd, allNaNVal]
      · rw [blockVal_valid _ _ _ hd]; simp [Kernel.skipsNaN, hd, kEval, dropNaN_idem_ef]

/-- **engine independence at the kernel level**: flox's own engine and the numpy_groupies wrappers return the same
    array. -/
theorem floxGrouped_eq_npgGrouped (k : Kernel)
    (hk : k ∈ [.sum, .prod, .max, .min, .nansum, .nanprod, .nanmax, .nanmin, .sumsq, .nansumsq, .nanlen])
    (codes : List Int) (vals : List Val) (size : Nat) (fill : Val) (hlen : codes.length = vals.length)
    (hfill : k = .nanlen ∨ k = .nansumsq → fill = Val.zero) :
    floxGrouped k codes vals size fill = npgGrouped k codes vals size fill := by
  rw [floxGrouped_eq_blockVal k hk codes vals size fill hlen,
    npgGrouped_eq_blockVal k hk codes vals size fill hfill]

/-! ### non-vacuity: concrete instances (unsorted codes, NaNs, ±inf, codes outside `0..size-1`) -/

section Examples
open EngineFlox

private def exCodes : List Int := [2, 0, 2, 5, -1, 0, 1, 2]
private def exVals : List Val := [.fin 1, .nan, .pinf, .fin 3, .fin 4, .nan, .ninf, .fin (-2)]

/-- the stable sort really reorders, and keeps equal keys in original order -/
example : prepare exCodes exVals =
    [(-1, .fin 4), (0, .nan), (0, .nan), (1, .ninf), (2, .fin 1), (2, .pinf), (2, .fin (-2)), (5, .fin 3)] := by
  decide +kernel

example : segments (prepare exCodes exVals) =
    [(-1, [.fin 4]), (0, [.nan, .nan]), (1, [.ninf]), (2, [.fin 1, .pinf, .fin (-2)]), (5, [.fin 3])] := by
  decide +kernel

example : members 2 exCodes exVals = [.fin 1, .pinf, .fin (-2)] := by decide +kernel

/-- group 0 is all-NaN (→ fill), group 1's true maximum is `-inf` and is kept, group 3 is absent (→ fill);
    codes 5 and -1 are ignored -/
example : run? .nanmax exCodes exVals 4 (.fin 7) = some [.fin 7, .ninf, .pinf, .fin 7] := by
  decide +kernel
example : run? .nanmin exCodes exVals 4 (.fin 7) = some [.fin 7, .ninf, .fin (-2), .fin 7] := by
  decide +kernel
example : run? .sum exCodes exVals 4 (.fin 7) = some [.nan, .ninf, .pinf, .fin 7] := by
  decide +kernel
example : run? .nansum exCodes exVals 4 (.fin 7) = some [.fin 0, .ninf, .pinf, .fin 7] := by
  decide +kernel
example : run? .nanprod exCodes exVals 4 (.fin 7) = some [.fin 1, .ninf, .ninf, .fin 7] := by
  decide +kernel
example : run? .nanlen exCodes exVals 4 (.fin 7) = some [.fin 0, .fin 1, .fin 3, .fin 7] := by
  decide +kernel
example : run? .nanmean [1, 0, 1, 0] [.fin 3, .nan, .fin 4, .nan] 3 (.fin 7)
    = some [.nan, .fin (7/2), .pinf] := by
  decide +kernel

/-- the main theorem instantiated on this data (hypotheses are satisfiable) -/
example : run? .nanmax exCodes exVals 4 (.fin 7)
    = some ((List.range 4).map fun (g : Nat) => blockVal .nanmax (.fin 7) (members (Int.ofNat g) exCodes exVals)) :=
  floxEngine_eq_blockVal .nanmax (by decide) exCodes exVals 4 (.fin 7) rfl

example : floxGrouped .nanmin exCodes exVals 4 (.fin 7) = npgGrouped .nanmin exCodes exVals 4 (.fin 7) :=
  floxGrouped_eq_npgGrouped .nanmin (by decide) exCodes exVals 4 (.fin 7) rfl (by decide)

/-- the fill hypothesis of `floxGrouped_eq_npgGrouped` is necessary: on an all-NaN group the flox engine returns 0
    while numpy_groupies (which drops NaN before grouping) returns `fill` -/
example : floxGrouped .nanlen [0] [.nan] 1 (.fin 7) = [.fin 0]
    ∧ npgGrouped .nanlen [0] [.nan] 1 (.fin 7) = [.fin 7] := by decide +kernel
example : floxGrouped .nansumsq [0] [.nan] 1 (.fin 7) = [.fin 0]
    ∧ npgGrouped .nansumsq [0] [.nan] 1 (.fin 7) = [.fin 7] := by decide +kernel

end Examples

end Flox
