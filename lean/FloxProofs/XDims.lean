/-
  Proofs about the metadata model of `xarray_reduce` (FloxModel/XDims.lean):
  the stable sort of `_restore_dim_order`, and the dimension order it produces in the three situations that occur.
-/
import FloxModel.XDims

namespace Flox.XDims

/-! ### the stable sort -/

theorem insertByKey_perm (key : Dim → Nat) (x : Dim) (l : List Dim) : (insertByKey key x l).Perm (x :: l) := by
  induction l with
  | nil => simp [insertByKey]
  | cons y ys ih =>
    simp only [insertByKey]
    split
    · exact List.Perm.refl _
    · exact (List.Perm.cons y ih).trans (List.Perm.swap x y ys)

theorem sortByKey_perm (key : Dim → Nat) (l : List Dim) : (sortByKey key l).Perm l := by
  induction l with
  | nil => simp [sortByKey]
  | cons x xs ih => exact (insertByKey_perm key x _).trans (List.Perm.cons x ih)

theorem insertByKey_sorted (key : Dim → Nat) (x : Dim) (l : List Dim)
    (h : l.Pairwise (fun a b => key a ≤ key b)) : (insertByKey key x l).Pairwise (fun a b => key a ≤ key b) := by
  induction l with
  | nil => simp [insertByKey]
  | cons y ys ih =>
    simp only [insertByKey]
    have hy := List.pairwise_cons.mp h
    split
    · rename_i hxy
      refine List.pairwise_cons.mpr ⟨?_, h⟩
      intro a ha
      rcases List.mem_cons.mp ha with rfl | ha
      · exact hxy
      · exact Nat.le_trans hxy (hy.1 a ha)
    · rename_i hxy
      refine List.pairwise_cons.mpr ⟨?_, ih hy.2⟩
      intro a ha
      have := (insertByKey_perm key x ys).mem_iff.mp ha
      rcases List.mem_cons.mp this with rfl | ha
      · omega
      · exact hy.1 a ha

theorem sortByKey_sorted (key : Dim → Nat) (l : List Dim) : (sortByKey key l).Pairwise (fun a b => key a ≤ key b) := by
  induction l with
  | nil => simp [sortByKey]
  | cons x xs ih => exact insertByKey_sorted key x _ ih

theorem eq_of_key_eq {key : Dim → Nat} : ∀ {l : List Dim}, l.Pairwise (fun a b => key a < key b) →
    ∀ a ∈ l, ∀ b ∈ l, key a = key b → a = b
  | [], _, a, ha, _, _, _ => by simp at ha
  | x :: xs, h, a, ha, b, hb, hk => by
    have hx := List.pairwise_cons.mp h
    rcases List.mem_cons.mp ha with rfl | ha'
    · rcases List.mem_cons.mp hb with rfl | hb'
      · rfl
      · have := hx.1 b hb'; omega
    · rcases List.mem_cons.mp hb with rfl | hb'
      · have := hx.1 a ha'; omega
      · exact eq_of_key_eq hx.2 a ha' b hb' hk

/-- a strictly key-sorted permutation of the input IS the output of the stable sort -/
theorem sortByKey_eq_of_strict (key : Dim → Nat) (out target : List Dim)
    (hs : target.Pairwise (fun a b => key a < key b)) (hp : out.Perm target) : sortByKey key out = target := by
  have hperm := (sortByKey_perm key out).trans hp
  apply List.Perm.eq_of_pairwise (le := fun a b => key a ≤ key b)
  · intro a b ha hb hab hba
    exact eq_of_key_eq hs a (hperm.mem_iff.mp ha) b hb (Nat.le_antisymm hab hba)
  · exact sortByKey_sorted key out
  · exact hs.imp (fun h => Nat.le_of_lt h)
  · exact hperm

/-- a list of at most one element is returned unchanged (this is why the `ndim > 1` guard of flox is immaterial) -/
theorem sortByKey_short (key : Dim → Nat) (l : List Dim) (h : ¬ l.length > 1) : sortByKey key l = l := by
  match l, h with
  | [], _ => rfl
  | [x], _ => rfl
  | _ :: _ :: _, h => simp at h

theorem pairwise_idxOf {v : List Dim} (hv : v.Nodup) : v.Pairwise (fun a b => v.idxOf a < v.idxOf b) := by
  rw [List.pairwise_iff_getElem]
  intro i j hi hj hij
  rw [hv.idxOf_getElem, hv.idxOf_getElem]
  exact hij

/-- the general shape: an optional element of lowest key, the surviving (possibly renamed) dims of the template in template
    order, an optional element of highest key -/
theorem sort_filterMap (v : List Dim) (hv : v.Nodup) (f : Dim → Option Dim) (key : Dim → Nat)
    (hkey : ∀ x ∈ v, ∀ y, f x = some y → key y = v.idxOf x + 1)
    (pre post : List Dim) (hpre : pre.length ≤ 1) (hpost : post.length ≤ 1)
    (kpre : ∀ p ∈ pre, key p = 0) (kpost : ∀ q ∈ post, key q = v.length + 1)
    (out : List Dim) (hperm : out.Perm (pre ++ v.filterMap f ++ post)) :
    sortByKey key out = pre ++ v.filterMap f ++ post := by
  apply sortByKey_eq_of_strict key out _ _ hperm
  have hmid : (v.filterMap f).Pairwise (fun a b => key a < key b) := by
    rw [List.pairwise_filterMap]
    have h1 := pairwise_idxOf hv
    rw [List.Pairwise.and_mem] at h1
    refine h1.imp ?_
    intro a b ⟨ha, hb, hab⟩ y hy y' hy'
    rw [hkey a ha y hy, hkey b hb y' hy']
    omega
  have hmidkey : ∀ a ∈ v.filterMap f, 1 ≤ key a ∧ key a ≤ v.length := by
    intro a ha
    obtain ⟨x, hx, hfx⟩ := List.mem_filterMap.mp ha
    have := hkey x hx a hfx
    have hlt := List.idxOf_lt_length_of_mem hx
    omega
  have hpreP : pre.Pairwise (fun a b => key a < key b) := by
    match pre, hpre with
    | [], _ => exact List.Pairwise.nil
    | [p], _ => simp
    | _ :: _ :: _, h => simp at h
  have hpostP : post.Pairwise (fun a b => key a < key b) := by
    match post, hpost with
    | [], _ => exact List.Pairwise.nil
    | [p], _ => simp
    | _ :: _ :: _, h => simp at h
  rw [List.pairwise_append, List.pairwise_append]
  refine ⟨⟨hpreP, hmid, ?_⟩, hpostP, ?_⟩
  · intro a ha b hb
    have := kpre a ha
    have := (hmidkey b hb).1
    omega
  · intro a ha b hb
    have hb' := kpost b hb
    rcases List.mem_append.mp ha with ha | ha
    · have := kpre a ha; omega
    · have := (hmidkey a ha).2; omega

/-! ### `lookup_order` in the three situations -/

theorem lookupKey_group_da (v : List Dim) (g d : Dim) (hd : d ∈ v) :
    lookupKey v g [d] false g = v.idxOf d + 1 := by
  simp [lookupKey, hd]

theorem lookupKey_other (v : List Dim) (g : Dim) (ds : List Dim) (b : Bool) (x : Dim) (hx : x ∈ v) (hne : x ≠ g) :
    lookupKey v g ds b x = v.idxOf x + 1 := by
  simp [lookupKey, hx, hne]

theorem lookupKey_group_ds (v : List Dim) (g d : Dim) : lookupKey v g [d] true g = 0 := by
  simp [lookupKey]

theorem lookupKey_nd (v : List Dim) (g : Dim) (ds : List Dim) (b : Bool) (hds : ds.length ≠ 1) (hg : g ∉ v) :
    lookupKey v g ds b g = v.length + 1 := by
  simp [lookupKey, hds, hg]

/-! ### the three placements of the group dim -/

/-- DataArray, one 1-D grouper along `d` (not binned): the group dim takes the place of `d` -/
theorem restore_in_place (v t : List Dim) (g d : Dim) (bn : String) (hv : v.Nodup) (hd : d ∈ v) (hdt : d ∈ t) (hg : g ∈ v → g = d) :
    restore (v.filter (· ∉ t) ++ [g]) v ⟨g, [d], false, bn⟩ false =
      v.filterMap (fun x => if x = d then some g else if x ∈ t then none else some x) := by
  have h := sort_filterMap v hv (fun x => if x = d then some g else if x ∈ t then none else some x)
    (lookupKey v g [d] false) ?_ [] [] (by simp) (by simp) (by simp) (by simp) (v.filter (· ∉ t) ++ [g]) ?_
  · simpa [restore] using h
  · intro x hx y hy
    by_cases hxd : x = d
    · subst hxd
      simp at hy
      subst hy
      exact lookupKey_group_da v g x hd
    · simp only [hxd, if_false] at hy
      by_cases hxt : x ∈ t
      · simp [hxt] at hy
      · simp only [hxt, if_false, Option.some.injEq] at hy
        subst hy
        apply lookupKey_other v g [d] false x hx
        intro hxg
        exact hxd (hxg.trans (hg (hxg ▸ hx)))
  · simp only [List.nil_append, List.append_nil]
    obtain ⟨l1, l2, rfl⟩ := List.append_of_mem hd
    have hnd := List.nodup_append.mp hv
    have hd1 : d ∉ l1 := fun h => (hnd.2.2 d h d List.mem_cons_self) rfl
    have hd2 : d ∉ l2 := (List.nodup_cons.mp hnd.2.1).1
    have e1 : ∀ l : List Dim, d ∉ l →
        l.filterMap (fun x => if x = d then some g else if x ∈ t then none else some x) = l.filter (· ∉ t) := by
      intro l hl
      induction l with
      | nil => rfl
      | cons a as ih =>
        have ha : a ≠ d := fun h => hl (h ▸ List.mem_cons_self)
        have has : d ∉ as := fun h => hl (List.mem_cons_of_mem _ h)
        by_cases hat : a ∈ t <;> simp [List.filterMap_cons, List.filter_cons, ha, hat, ih has]
    simp only [List.filterMap_append, List.filterMap_cons, if_true, List.filter_append, List.filter_cons, hdt,
      e1 l1 hd1, e1 l2 hd2]
    simp only [decide_not, decide_true, Bool.not_true, Bool.false_eq_true, if_false, List.append_assoc]
    refine List.Perm.append_left _ ?_
    exact List.perm_append_comm (l₁ := List.filter (fun x => !decide (x ∈ t)) l2) (l₂ := [g])

theorem filterMap_guard (v t : List Dim) :
    v.filterMap (fun x => if x ∈ t then none else some x) = v.filter (· ∉ t) := by
  induction v with
  | nil => rfl
  | cons a as ih => by_cases h : a ∈ t <;> simp [List.filterMap_cons, List.filter_cons, h, ih]

/-- Dataset, one 1-D grouper (not binned): the group dim comes first -/
theorem restore_first (v t : List Dim) (g d : Dim) (bn : String) (hv : v.Nodup) (hg : g ∉ v.filter (· ∉ t)) :
    restore (v.filter (· ∉ t) ++ [g]) v ⟨g, [d], false, bn⟩ true = g :: v.filter (· ∉ t) := by
  have h := sort_filterMap v hv (fun x => if x ∈ t then none else some x)
    (lookupKey v g [d] true) ?_ [g] [] (by simp) (by simp) ?_ (by simp) (v.filter (· ∉ t) ++ [g]) ?_
  · simpa [restore, filterMap_guard] using h
  · intro x hx y hy
    by_cases hxt : x ∈ t
    · simp [hxt] at hy
    · simp only [hxt, if_false, Option.some.injEq] at hy
      subst hy
      apply lookupKey_other v g [d] true x hx
      intro hxg
      apply hg
      rw [← hxg]
      simp [hx, hxt]
  · intro p hp
    simp at hp
    subst hp
    exact lookupKey_group_ds v p d
  · rw [filterMap_guard]
    simpa using (List.perm_append_comm (l₁ := v.filter (· ∉ t)) (l₂ := [g]))

/-- a grouper that is not 1-D (any container flag): the group dim comes last -/
theorem restore_last (v t : List Dim) (name gn : Dim) (ds : List Dim) (b : Bool) (hv : v.Nodup)
    (hds : ds.length ≠ 1) (hg : gn ∉ v) :
    sortByKey (lookupKey v name ds b) (v.filter (· ∉ t) ++ [gn]) = v.filter (· ∉ t) ++ [gn] := by
  have h := sort_filterMap v hv (fun x => if x ∈ t then none else some x)
    (lookupKey v name ds b) ?_ [] [gn] (by simp) (by simp) (by simp) ?_ (v.filter (· ∉ t) ++ [gn]) ?_
  · simpa [filterMap_guard] using h
  · intro x hx y hy
    by_cases hxt : x ∈ t
    · simp [hxt] at hy
    · simp only [hxt, if_false, Option.some.injEq] at hy
      subst hy
      simp [lookupKey, hds, hx]
  · intro q hq
    simp at hq
    subst hq
    simp [lookupKey, hds, hg]
  · rw [filterMap_guard]
    simp

end Flox.XDims
