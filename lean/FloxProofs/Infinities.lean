/-
  Infinities are data (glue for `FloxProps/C20.lean`): `nanmax` / `nanmin` (and `max` / `min`) of a group whose true
  extreme is ±inf is ±inf, in the specification kernels, in the block values and in every engine.
-/
import FloxProofs.EngineFloxCorrect
import FloxProofs.Columns
import FloxProofs.ValAlgebra2

namespace Flox
namespace Inf

/-! ### folds -/

theorem foldl_max_pinf (xs : List Val) (a : Val) (hx : ∀ x ∈ xs, x.isNaN = false) (ha : a.isNaN = false)
    (h : a = Val.pinf ∨ Val.pinf ∈ xs) : xs.foldl Val.max a = Val.pinf := by
  induction xs generalizing a with
  | nil =>
    rcases h with h | h
    · simpa using h
    · simp at h
  | cons x xs ih =>
    have hxn : x.isNaN = false := hx x (by simp)
    simp only [List.foldl_cons]
    apply ih (Val.max a x) (fun y hy => hx y (by simp [hy]))
    · exact Val.max_isNaN_false ha hxn
    · rcases h with h | h
      · subst h
        left
        cases x <;> simp_all [Val.max, Val.isNaN]
      · rcases List.mem_cons.mp h with h | h
        · subst h
          left
          cases a <;> simp_all [Val.max, Val.isNaN]
        · right; exact h

theorem foldl_min_ninf (xs : List Val) (a : Val) (hx : ∀ x ∈ xs, x.isNaN = false) (ha : a.isNaN = false)
    (h : a = Val.ninf ∨ Val.ninf ∈ xs) : xs.foldl Val.min a = Val.ninf := by
  induction xs generalizing a with
  | nil =>
    rcases h with h | h
    · simpa using h
    · simp at h
  | cons x xs ih =>
    have hxn : x.isNaN = false := hx x (by simp)
    simp only [List.foldl_cons]
    apply ih (Val.min a x) (fun y hy => hx y (by simp [hy]))
    · exact Val.min_isNaN_false ha hxn
    · rcases h with h | h
      · subst h
        left
        cases x <;> simp_all [Val.min, Val.isNaN]
      · rcases List.mem_cons.mp h with h | h
        · subst h
          left
          cases a <;> simp_all [Val.min, Val.isNaN]
        · right; exact h

theorem foldl_max_all_ninf (xs : List Val) (h : ∀ x ∈ xs, x = Val.ninf) : xs.foldl Val.max Val.ninf = Val.ninf := by
  induction xs with
  | nil => rfl
  | cons x xs ih =>
    have := h x (by simp)
    subst this
    simp only [List.foldl_cons]
    exact ih (fun y hy => h y (by simp [hy]))

theorem foldl_min_all_pinf (xs : List Val) (h : ∀ x ∈ xs, x = Val.pinf) : xs.foldl Val.min Val.pinf = Val.pinf := by
  induction xs with
  | nil => rfl
  | cons x xs ih =>
    have := h x (by simp)
    subst this
    simp only [List.foldl_cons]
    exact ih (fun y hy => h y (by simp [hy]))

/-! ### `vmax` / `vmin` -/

theorem vmax_pinf (xs : List Val) (hx : ∀ x ∈ xs, x.isNaN = false) (h : Val.pinf ∈ xs) : vmax xs = Val.pinf := by
  cases xs with
  | nil => simp at h
  | cons x xs =>
    show xs.foldl Val.max x = Val.pinf
    apply foldl_max_pinf xs x (fun y hy => hx y (by simp [hy])) (hx x (by simp))
    rcases List.mem_cons.mp h with h | h
    · exact Or.inl h.symm
    · exact Or.inr h

theorem vmin_ninf (xs : List Val) (hx : ∀ x ∈ xs, x.isNaN = false) (h : Val.ninf ∈ xs) : vmin xs = Val.ninf := by
  cases xs with
  | nil => simp at h
  | cons x xs =>
    show xs.foldl Val.min x = Val.ninf
    apply foldl_min_ninf xs x (fun y hy => hx y (by simp [hy])) (hx x (by simp))
    rcases List.mem_cons.mp h with h | h
    · exact Or.inl h.symm
    · exact Or.inr h

theorem vmax_all_ninf (xs : List Val) (hne : xs ≠ []) (h : ∀ x ∈ xs, x = Val.ninf) : vmax xs = Val.ninf := by
  cases xs with
  | nil => exact absurd rfl hne
  | cons x xs =>
    have := h x (by simp)
    subst this
    exact foldl_max_all_ninf xs (fun y hy => h y (by simp [hy]))

theorem vmin_all_pinf (xs : List Val) (hne : xs ≠ []) (h : ∀ x ∈ xs, x = Val.pinf) : vmin xs = Val.pinf := by
  cases xs with
  | nil => exact absurd rfl hne
  | cons x xs =>
    have := h x (by simp)
    subst this
    exact foldl_min_all_pinf xs (fun y hy => h y (by simp [hy]))

/-! ### the NumPy kernels -/

theorem dropNaN_ne_nil {ms : List Val} {x : Val} (hx : x ∈ ms) (hn : x.isNaN = false) : dropNaN ms ≠ [] := by
  intro h
  have : x ∈ dropNaN ms := mem_dropNaN.mpr ⟨hx, hn⟩
  rw [h] at this
  simp at this

theorem kEval_nanmax_of_valid (ms : List Val) (h : dropNaN ms ≠ []) : kEval .nanmax ms = vmax (dropNaN ms) := by
  have : (dropNaN ms).isEmpty = false := by simpa using h
  simp [kEval, this]

theorem kEval_nanmin_of_valid (ms : List Val) (h : dropNaN ms ≠ []) : kEval .nanmin ms = vmin (dropNaN ms) := by
  have : (dropNaN ms).isEmpty = false := by simpa using h
  simp [kEval, this]

theorem kEval_nanmax_pinf (ms : List Val) (h : Val.pinf ∈ ms) : kEval .nanmax ms = Val.pinf := by
  rw [kEval_nanmax_of_valid ms (dropNaN_ne_nil h rfl)]
  exact vmax_pinf _ (fun x hx => (mem_dropNaN.mp hx).2) (mem_dropNaN.mpr ⟨h, rfl⟩)

theorem kEval_nanmin_ninf (ms : List Val) (h : Val.ninf ∈ ms) : kEval .nanmin ms = Val.ninf := by
  rw [kEval_nanmin_of_valid ms (dropNaN_ne_nil h rfl)]
  exact vmin_ninf _ (fun x hx => (mem_dropNaN.mp hx).2) (mem_dropNaN.mpr ⟨h, rfl⟩)

theorem kEval_nanmax_only_ninf (ms : List Val) (h : Val.ninf ∈ ms) (hall : ∀ x ∈ ms, x = Val.ninf ∨ x = Val.nan) :
    kEval .nanmax ms = Val.ninf := by
  rw [kEval_nanmax_of_valid ms (dropNaN_ne_nil h rfl)]
  apply vmax_all_ninf _ (dropNaN_ne_nil h rfl)
  intro x hx
  obtain ⟨hx1, hx2⟩ := mem_dropNaN.mp hx
  rcases hall x hx1 with e | e
  · exact e
  · subst e; cases hx2

theorem kEval_nanmin_only_pinf (ms : List Val) (h : Val.pinf ∈ ms) (hall : ∀ x ∈ ms, x = Val.pinf ∨ x = Val.nan) :
    kEval .nanmin ms = Val.pinf := by
  rw [kEval_nanmin_of_valid ms (dropNaN_ne_nil h rfl)]
  apply vmin_all_pinf _ (dropNaN_ne_nil h rfl)
  intro x hx
  obtain ⟨hx1, hx2⟩ := mem_dropNaN.mp hx
  rcases hall x hx1 with e | e
  · exact e
  · subst e; cases hx2

theorem kEval_max_pinf (ms : List Val) (hnn : ∀ x ∈ ms, x.isNaN = false) (h : Val.pinf ∈ ms) :
    kEval .max ms = Val.pinf := vmax_pinf ms hnn h

theorem kEval_min_ninf (ms : List Val) (hnn : ∀ x ∈ ms, x.isNaN = false) (h : Val.ninf ∈ ms) :
    kEval .min ms = Val.ninf := vmin_ninf ms hnn h

/-! ### every engine -/

theorem getElem?_map_range {β} (F : Nat → β) (size g : Nat) (hg : g < size) :
    ((List.range size).map F)[g]? = some (F g) := by
  simp [hg]

theorem numbaggGrouped_slot (k : Kernel) (hk : k = .nanmax ∨ k = .nanmin) (codes : List Int) (vals : List Val)
    (size : Nat) (fill : Val) (g : Nat) (hg : g < size)
    (hvalid : dropNaN (members (Int.ofNat g) codes vals) ≠ []) :
    (numbaggGrouped k codes vals size fill)[g]? = some (kEval k (members (Int.ofNat g) codes vals)) := by
  have hne : members (Int.ofNat g) codes vals ≠ [] := by
    intro h; rw [h] at hvalid; exact hvalid rfl
  have h1 : (members (Int.ofNat g) codes vals).isEmpty = false := by simpa using hne
  have h2 : (dropNaN (members (Int.ofNat g) codes vals)).isEmpty = false := by simpa using hvalid
  rcases hk with rfl | rfl
  · unfold numbaggGrouped
    simp only [numbaggHas, Bool.not_true, Bool.false_eq_true, if_false]
    rw [getElem?_map_range _ size g hg]
    simp only [Kernel.skipsNaN, if_true, h1, h2, Bool.false_eq_true, if_false]
    simp only [kEval, dropNaN_idem]
  · unfold numbaggGrouped
    simp only [numbaggHas, Bool.not_true, Bool.false_eq_true, if_false]
    rw [getElem?_map_range _ size g hg]
    simp only [Kernel.skipsNaN, if_true, h1, h2, Bool.false_eq_true, if_false]
    simp only [kEval, dropNaN_idem]

/-- **every engine** returns NumPy's `nanmax` / `nanmin` for a group that has at least one valid member -/
theorem engGrouped_nanminmax_slot (eng : Eng) (k : Kernel) (hk : k = .nanmax ∨ k = .nanmin) (codes : List Int)
    (vals : List Val) (size : Nat) (fill : Val) (hlen : codes.length = vals.length) (g : Nat) (hg : g < size)
    (hvalid : dropNaN (members (Int.ofNat g) codes vals) ≠ []) :
    (engGrouped eng k codes vals size fill)[g]? = some (kEval k (members (Int.ofNat g) codes vals)) := by
  have hmem : k ∈ [Kernel.sum, .prod, .max, .min, .nansum, .nanprod, .nanmax, .nanmin, .sumsq, .nansumsq, .nanlen] := by
    rcases hk with rfl | rfl <;> simp
  have hfill : k = .nanlen ∨ k = .nansumsq → fill = Val.zero := by
    rcases hk with rfl | rfl <;> intro h <;> rcases h with h | h <;> cases h
  cases eng with
  | npg =>
    show (npgGrouped k codes vals size fill)[g]? = _
    rw [npgGrouped_eq_blockVal k hmem codes vals size fill hfill, getElem?_map_range _ size g hg,
      EngineFlox.blockVal_valid _ _ _ hvalid]
  | flox =>
    show (floxGrouped k codes vals size fill)[g]? = _
    rw [floxGrouped_eq_blockVal k hmem codes vals size fill hlen, getElem?_map_range _ size g hg,
      EngineFlox.blockVal_valid _ _ _ hvalid]
  | numbagg => exact numbaggGrouped_slot k hk codes vals size fill g hg hvalid

end Inf
end Flox
