/-
  Map-reduce with reindex at the block stage + `_simple_combine`:
  for every chunking and every tree shape (`split_every`) the result is the dense intermediate of the whole array.
-/
import FloxProofs.Dense

namespace Flox

/-! ### item 2: simple combine of dense blocks is pointwise `combineVal` -/

theorem simpleCombine_dense (R : Resolved) (n : Nat) (xs : List Inter) (hne : xs ≠ [])
    (hg : ∀ x ∈ xs, x.groups = rangeKeys n) :
    simpleCombine R true xs =
      { groups := rangeKeys n,
        cols := R.combine.mapIdx fun j c =>
          (List.range n).map fun gi => combineVal c (xs.map fun x => (colAt x j).getD gi Val.nan) } := by
  cases xs with
  | nil => exact absurd rfl hne
  | cons x xs =>
    have hx : x.groups = rangeKeys n := hg x (by simp)
    simp [simpleCombine, hx, rangeKeys, combineVal]

/-! ### segments -/

/-- a list of (codes, values) segments, e.g. the blocks of a chunked array -/
abbrev Segs := List (List Int × List Val)

def catC (segs : Segs) : List Int := (segs.map (·.1)).flatten
def catV (segs : Segs) : List Val := (segs.map (·.2)).flatten

def Aligned (segs : Segs) : Prop := ∀ p ∈ segs, p.1.length = p.2.length

@[simp] theorem catC_nil : catC [] = [] := rfl
@[simp] theorem catV_nil : catV [] = [] := rfl
@[simp] theorem catC_cons (p : List Int × List Val) (segs : Segs) : catC (p :: segs) = p.1 ++ catC segs := by
  simp [catC]
@[simp] theorem catV_cons (p : List Int × List Val) (segs : Segs) : catV (p :: segs) = p.2 ++ catV segs := by
  simp [catV]

theorem catC_flatten (L : List Segs) : catC L.flatten = (L.map catC).flatten := by
  induction L with
  | nil => rfl
  | cons s L ih => simp [catC, List.map_append] at ih ⊢; rw [ih]

theorem catV_flatten (L : List Segs) : catV L.flatten = (L.map catV).flatten := by
  induction L with
  | nil => rfl
  | cons s L ih => simp [catV, List.map_append] at ih ⊢; rw [ih]

theorem Aligned.tail {p : List Int × List Val} {segs : Segs} (h : Aligned (p :: segs)) : Aligned segs :=
  fun q hq => h q (by simp [hq])

theorem Aligned.cat_length {segs : Segs} (h : Aligned segs) : (catC segs).length = (catV segs).length := by
  induction segs with
  | nil => rfl
  | cons p segs ih =>
    simp only [catC_cons, catV_cons, List.length_append, ih h.tail, h p (by simp)]

/-- (a) members of a concatenation of aligned blocks = concatenation of the blocks' members -/
theorem members_cat (g : Int) (segs : Segs) (h : Aligned segs) :
    members g (catC segs) (catV segs) = (segs.map fun p => members g p.1 p.2).flatten := by
  induction segs with
  | nil => simp
  | cons p segs ih =>
    simp only [catC_cons, catV_cons, List.map_cons, List.flatten_cons]
    rw [members_append g _ _ _ _ (h p (by simp)), ih h.tail]

/-! ### `splitBy` -/

theorem splitBy_length {α} (chunks : List Nat) (xs : List α) : (splitBy chunks xs).length = chunks.length := by
  induction chunks generalizing xs with
  | nil => rfl
  | cons n ns ih => simp [splitBy, ih]

theorem splitBy_map {α β} (f : α → β) (chunks : List Nat) (xs : List α) :
    splitBy chunks (xs.map f) = (splitBy chunks xs).map (List.map f) := by
  induction chunks generalizing xs with
  | nil => rfl
  | cons n ns ih => simp only [splitBy, List.map_cons, ← List.map_take, ← List.map_drop, ih]

theorem splitBy_flatten {α} (chunks : List Nat) (xs : List α) (h : xs.length ≤ chunks.sum) :
    (splitBy chunks xs).flatten = xs := by
  induction chunks generalizing xs with
  | nil =>
    have : xs = [] := List.length_eq_zero_iff.mp (by simpa using h)
    simp [splitBy, this]
  | cons n ns ih =>
    simp only [splitBy, List.flatten_cons]
    rw [ih (xs.drop n) (by simp only [List.length_drop, List.sum_cons] at h ⊢; omega)]
    exact List.take_append_drop n xs

/-- the (codes, values) blocks of a chunked array -/
def segsOf (chunks : List Nat) (codes : List Int) (vals : List Val) : Segs :=
  (splitBy chunks codes).zip (splitBy chunks vals)

theorem segsOf_aligned (chunks : List Nat) (codes : List Int) (vals : List Val)
    (hlen : codes.length = vals.length) : Aligned (segsOf chunks codes vals) := by
  induction chunks generalizing codes vals with
  | nil => intro p hp; simp [segsOf, splitBy] at hp
  | cons n ns ih =>
    intro p hp
    simp only [segsOf, splitBy, List.zip_cons_cons, List.mem_cons] at hp
    rcases hp with rfl | hp
    · simp [hlen]
    · exact ih (codes.drop n) (vals.drop n) (by simp [hlen]) p hp

theorem segsOf_catC (chunks : List Nat) (codes : List Int) (vals : List Val)
    (h : codes.length ≤ chunks.sum) : catC (segsOf chunks codes vals) = codes := by
  unfold catC segsOf
  rw [List.map_fst_zip (by simp [splitBy_length]), splitBy_flatten _ _ h]

theorem segsOf_catV (chunks : List Nat) (codes : List Int) (vals : List Val)
    (h : vals.length ≤ chunks.sum) : catV (segsOf chunks codes vals) = vals := by
  unfold catV segsOf
  rw [List.map_snd_zip (by simp [splitBy_length]), splitBy_flatten _ _ h]

theorem segsOf_ne_nil (chunks : List Nat) (codes : List Int) (vals : List Val) (h : chunks ≠ []) :
    segsOf chunks codes vals ≠ [] := by
  cases chunks with
  | nil => exact absurd rfl h
  | cons n ns => simp [segsOf, splitBy]

/-! ### `partitionAll` -/

theorem partitionAll_stop {α} (k : Nat) (xs : List α) (h : k = 0 ∨ xs = []) :
    partitionAll k xs = if xs = [] then [] else [xs] := by
  rw [partitionAll]; simp [h]

theorem partitionAll_step {α} (k : Nat) (xs : List α) (hk : k ≠ 0) (hx : xs ≠ []) :
    partitionAll k xs = xs.take k :: partitionAll k (xs.drop k) := by
  rw [partitionAll]; simp [hk, hx]

theorem partitionAll_induct {α} (k : Nat) (P : List α → Prop)
    (stop : ∀ xs, (k = 0 ∨ xs = []) → P xs)
    (step : ∀ xs, k ≠ 0 → xs ≠ [] → P (xs.drop k) → P xs) : ∀ xs, P xs := by
  intro xs
  generalize hn : xs.length = n
  induction n using Nat.strongRecOn generalizing xs with
  | ind n ih =>
    by_cases h : k = 0 ∨ xs = []
    · exact stop xs h
    · have hk : k ≠ 0 := fun e => h (Or.inl e)
      have hx : xs ≠ [] := fun e => h (Or.inr e)
      have : 0 < xs.length := List.length_pos_iff.mpr hx
      exact step xs hk hx (ih (xs.drop k).length (by simp only [List.length_drop]; omega) _ rfl)

theorem partitionAll_flatten {α} (k : Nat) (xs : List α) : (partitionAll k xs).flatten = xs := by
  induction xs using partitionAll_induct k with
  | stop xs h => rw [partitionAll_stop k xs h]; split <;> simp_all
  | step xs hk hx ih => rw [partitionAll_step k xs hk hx]; simp [ih]

theorem partitionAll_ne_nil {α} (k : Nat) (xs : List α) (h : xs ≠ []) : partitionAll k xs ≠ [] := by
  by_cases hs : k = 0 ∨ xs = []
  · rw [partitionAll_stop k xs hs]; simp [h]
  · rw [partitionAll_step k xs (fun e => hs (Or.inl e)) h]; simp

theorem partitionAll_mem_ne_nil {α} (k : Nat) (xs : List α) : ∀ g ∈ partitionAll k xs, g ≠ [] := by
  induction xs using partitionAll_induct k with
  | stop xs h => rw [partitionAll_stop k xs h]; split <;> simp_all
  | step xs hk hx ih =>
    rw [partitionAll_step k xs hk hx]
    intro g hg
    simp only [List.mem_cons] at hg
    rcases hg with rfl | hg
    · cases xs with
      | nil => exact absurd rfl hx
      | cons x xs =>
        cases k with
        | zero => exact absurd rfl hk
        | succ k => simp
    · exact ih g hg

theorem partitionAll_map {α β} (f : α → β) (k : Nat) (xs : List α) :
    partitionAll k (xs.map f) = (partitionAll k xs).map (List.map f) := by
  induction xs using partitionAll_induct k with
  | stop xs h =>
    have h' : k = 0 ∨ xs.map f = [] := h.imp id (by simp)
    rw [partitionAll_stop k xs h, partitionAll_stop k _ h']
    by_cases hx : xs = [] <;> simp [hx]
  | step xs hk hx ih =>
    have hx' : xs.map f ≠ [] := by simpa using hx
    rw [partitionAll_step k xs hk hx, partitionAll_step k _ hk hx', List.map_cons, ← List.map_take,
      ← List.map_drop, ih]

theorem partitionAll_mem_sub {α} (k : Nat) (xs : List α) (g : List α) (hg : g ∈ partitionAll k xs)
    (x : α) (hx : x ∈ g) : x ∈ xs := by
  rw [← partitionAll_flatten k xs]
  exact List.mem_flatten.mpr ⟨g, hg, hx⟩

/-! ### (b) simple combine of dense nodes -/

/-- the decomposition law of one intermediate column (chunk kernel `k`, combine kernel `c`, fill `f`):
    combining the per-block values equals the block value of the concatenated members -/
def Law (k c : Kernel) (f : Val) : Prop :=
  ∀ parts : List (List Val), parts ≠ [] → combineVal c (parts.map (blockVal k f)) = blockVal k f parts.flatten

theorem colAt_denseInter (ks : List Kernel) (fills : List Val) (n : Nat) (codes : List Int) (vals : List Val)
    (j gi : Nat) (hj : j < ks.length) (hk : ks.length = fills.length) (hgi : gi < n) :
    (colAt (denseInter ks fills n codes vals) j).getD gi Val.nan
      = blockVal ks[j] (fills[j]'(by omega)) (members (Int.ofNat gi) codes vals) := by
  have hz : j < (ks.zip fills).length := by simp only [List.length_zip]; omega
  simp only [colAt, denseInter, denseCols, List.getD_eq_getElem?_getD, List.getElem?_map]
  rw [List.getElem?_eq_getElem hz]
  simp [hgi]

/-- the dense node of a segment -/
abbrev denseNode (R : Resolved) (n : Nat) (p : List Int × List Val) : Inter :=
  denseInter R.chunk R.interFills n p.1 p.2

theorem simpleCombine_denseNodes (R : Resolved) (n : Nat) (segs : Segs) (hne : segs ≠ []) (hal : Aligned segs)
    (hc : R.chunk.length = R.combine.length) (hf : R.chunk.length = R.interFills.length)
    (hlaw : ∀ j (hj : j < R.chunk.length),
      Law R.chunk[j] (R.combine[j]'(by omega)) (R.interFills[j]'(by omega))) :
    simpleCombine R true (segs.map (denseNode R n))
      = denseInter R.chunk R.interFills n (catC segs) (catV segs) := by
  rw [simpleCombine_dense R n _ (by simpa using hne)
    (by intro x hx; obtain ⟨p, _, rfl⟩ := List.mem_map.mp hx; rfl)]
  simp only [denseInter, denseCols]
  congr 1
  apply List.ext_getElem
  · simp only [List.length_mapIdx, List.length_map, List.length_zip]; omega
  · intro j h1 h2
    have hj : j < R.chunk.length := by simp only [List.length_mapIdx] at h1; omega
    simp only [List.getElem_mapIdx, List.getElem_map, List.getElem_zip]
    apply List.map_congr_left
    intro gi hgi
    have hgi' : gi < n := List.mem_range.mp hgi
    rw [members_cat _ segs hal, ← hlaw j hj _ (by simpa using hne)]
    congr 1
    simp only [List.map_map]
    apply List.map_congr_left
    intro p _
    simp only [Function.comp]
    exact colAt_denseInter R.chunk R.interFills n p.1 p.2 j gi hj hf hgi'

/-! ### (c) the tree preserves the invariant -/

/-- one round of `partition_all` + combine maps dense nodes of segments to dense nodes of merged segments -/
theorem round_denseNodes (R : Resolved) (n k : Nat) (segs : Segs) (hal : Aligned segs)
    (hc : R.chunk.length = R.combine.length) (hf : R.chunk.length = R.interFills.length)
    (hlaw : ∀ j (hj : j < R.chunk.length),
      Law R.chunk[j] (R.combine[j]'(by omega)) (R.interFills[j]'(by omega))) :
    (partitionAll k (segs.map (denseNode R n))).map (simpleCombine R true)
      = ((partitionAll k segs).map fun grp => (catC grp, catV grp)).map (denseNode R n) := by
  rw [partitionAll_map, List.map_map, List.map_map]
  apply List.map_congr_left
  intro grp hgrp
  simp only [Function.comp]
  exact simpleCombine_denseNodes R n grp (partitionAll_mem_ne_nil k segs grp hgrp)
    (fun p hp => hal p (partitionAll_mem_sub k segs grp hgrp p hp)) hc hf hlaw

theorem merged_aligned (k : Nat) (segs : Segs) (hal : Aligned segs) :
    Aligned ((partitionAll k segs).map fun grp => (catC grp, catV grp)) := by
  intro p hp
  obtain ⟨grp, hgrp, rfl⟩ := List.mem_map.mp hp
  exact Aligned.cat_length (fun q hq => hal q (partitionAll_mem_sub k segs grp hgrp q hq))

theorem merged_catC (k : Nat) (segs : Segs) :
    catC ((partitionAll k segs).map fun grp => (catC grp, catV grp)) = catC segs := by
  have : (((partitionAll k segs).map fun grp => (catC grp, catV grp)).map (·.1))
      = (partitionAll k segs).map catC := by rw [List.map_map]; rfl
  conv => rhs; rw [← partitionAll_flatten k segs, catC_flatten]
  exact congrArg List.flatten this

theorem merged_catV (k : Nat) (segs : Segs) :
    catV ((partitionAll k segs).map fun grp => (catC grp, catV grp)) = catV segs := by
  have : (((partitionAll k segs).map fun grp => (catC grp, catV grp)).map (·.2))
      = (partitionAll k segs).map catV := by rw [List.map_map]; rfl
  conv => rhs; rw [← partitionAll_flatten k segs, catV_flatten]
  exact congrArg List.flatten this

theorem rounds_denseNodes (R : Resolved) (n k : Nat)
    (hc : R.chunk.length = R.combine.length) (hf : R.chunk.length = R.interFills.length)
    (hlaw : ∀ j (hj : j < R.chunk.length),
      Law R.chunk[j] (R.combine[j]'(by omega)) (R.interFills[j]'(by omega)))
    (l : List Nat) (segs : Segs) (hne : segs ≠ []) (hal : Aligned segs) :
    ∃ segs' : Segs, segs' ≠ [] ∧ Aligned segs' ∧ catC segs' = catC segs ∧ catV segs' = catV segs ∧
      l.foldl (fun cur _ => (partitionAll k cur).map (simpleCombine R true)) (segs.map (denseNode R n))
        = segs'.map (denseNode R n) := by
  induction l generalizing segs with
  | nil => exact ⟨segs, hne, hal, rfl, rfl, rfl⟩
  | cons _ l ih =>
    simp only [List.foldl_cons]
    rw [round_denseNodes R n k segs hal hc hf hlaw]
    obtain ⟨segs', h1, h2, h3, h4, h5⟩ :=
      ih ((partitionAll k segs).map fun grp => (catC grp, catV grp))
        (by simpa using partitionAll_ne_nil k segs hne) (merged_aligned k segs hal)
    exact ⟨segs', h1, h2, h3.trans (merged_catC k segs), h4.trans (merged_catV k segs), h5⟩

/-- (c)+(d): tree reduction followed by the final combine, on dense nodes of aligned segments -/
theorem tree_denseNodes (R : Resolved) (n se : Nat)
    (hc : R.chunk.length = R.combine.length) (hf : R.chunk.length = R.interFills.length)
    (hlaw : ∀ j (hj : j < R.chunk.length),
      Law R.chunk[j] (R.combine[j]'(by omega)) (R.interFills[j]'(by omega)))
    (segs : Segs) (hne : segs ≠ []) (hal : Aligned segs) :
    simpleCombine R true (treeReduce (simpleCombine R true) se (segs.map (denseNode R n)))
      = denseInter R.chunk R.interFills n (catC segs) (catV segs) := by
  unfold treeReduce
  obtain ⟨segs', h1, h2, h3, h4, h5⟩ := rounds_denseNodes R n (Nat.max se 2) hc hf hlaw
    (List.range (ceilLog (Nat.max se 2) (segs.map (denseNode R n)).length - 1)) segs hne hal
  simp only [h5]
  rw [simpleCombine_denseNodes R n segs' h1 h2 hc hf hlaw, h3, h4]

/-! ### the block stage of the map-reduce plan -/

theorem offsets_length (chunks : List Nat) : (offsets chunks).length = chunks.length := by
  have gen : ∀ (cs : List Nat) (acc : List Nat × Nat),
      (cs.foldl (fun (acc : List Nat × Nat) c => (acc.1 ++ [acc.2], acc.2 + c)) acc).1.length
        = acc.1.length + cs.length := by
    intro cs
    induction cs with
    | nil => intro acc; rfl
    | cons c cs ih => intro acc; simp only [List.foldl_cons, ih, List.length_append, List.length_cons,
        List.length_nil]; omega
  simpa [offsets] using gen chunks ([], 0)

theorem map_zip_zip_ignore {α β γ δ} (as : List α) (bs : List β) (cs : List γ) (f : α → β → δ)
    (g : α × β × γ → δ) (hg : ∀ a b c, g (a, b, c) = f a b)
    (h1 : as.length = cs.length) (h2 : bs.length = cs.length) :
    (as.zip (bs.zip cs)).map g = (as.zip bs).map fun p => f p.1 p.2 := by
  apply List.ext_getElem
  · simp only [List.length_map, List.length_zip]; omega
  · intro i _ _
    simp only [List.getElem_map, List.getElem_zip, hg]

theorem blockStage_eq (c : Call) (chunks : List Nat) (keys : List Key) (vals : List Val)
    (harg : c.R.isArg = false) :
    blockStage c true chunks keys vals
      = ((splitBy chunks keys).zip (splitBy chunks vals)).map fun p =>
          chunkReduce c.eng c.R.chunk c.R.interFills p.1 p.2 (some c.ngroups) c.sort := by
  unfold blockStage
  simp only [harg, Bool.false_eq_true, if_false, if_true]
  apply map_zip_zip_ignore _ _ _
    (fun ks vs => chunkReduce c.eng c.R.chunk c.R.interFills ks vs (some c.ngroups) c.sort)
  · intro a b c; rfl
  · simp [splitBy_length, offsets_length]
  · simp [splitBy_length, offsets_length]

/-- every block of the block stage is the dense node of its segment -/
theorem blockStage_dense (c : Call) (n : Nat) (chunks : List Nat) (codes : List Int) (vals : List Val)
    (heng : c.eng = .npg) (hn : c.ngroups = n) (harg : c.R.isArg = false)
    (hnoarg : ∀ k ∈ c.R.chunk, isArgKernel k = false)
    (hz : ∀ p ∈ c.R.chunk.zip c.R.interFills, (p.1 = .nanlen ∨ p.1 = .nansumsq) → p.2 = Val.zero)
    (hsum : codes.length ≤ chunks.sum)
    (hcodes : ∀ c ∈ codes, -1 ≤ c ∧ c < (n : Int)) :
    blockStage c true chunks (codes.map fun (c : Int) => (some (c : Rat) : Key)) vals
      = (segsOf chunks codes vals).map (denseNode c.R n) := by
  rw [blockStage_eq c chunks _ vals harg, splitBy_map, List.zip_map_left, List.map_map, heng, hn]
  apply List.map_congr_left
  intro p hp
  simp only [Function.comp, Prod.map_fst, Prod.map_snd, id]
  apply chunkReduce_dense' _ _ _ _ _ _ _ hnoarg hz
  intro x hx
  apply hcodes
  rw [← segsOf_catC chunks codes vals hsum]
  exact List.mem_flatten.mpr ⟨p.1, List.mem_map.mpr ⟨p, hp, rfl⟩, hx⟩

/-! ### item 3: the main theorem -/

/-- Map-reduce with reindex at the block stage and `_simple_combine` (numpy_groupies engine): for every chunking
    and every `split_every` the combined intermediates are the dense intermediates of the whole array.
    Minimal hypotheses (no positivity of the chunk sizes is needed, and `len` needs no fill condition). -/
theorem mapreduce_dense' (R : Resolved) (c : Call) (n : Nat) (chunks : List Nat) (codes : List Int)
    (vals : List Val) (se : Nat)
    (hR : c.R = R) (heng : c.eng = .npg) (hn : c.ngroups = n) (harg : R.isArg = false)
    (hc : R.chunk.length = R.combine.length) (hf : R.chunk.length = R.interFills.length)
    (hlaw : ∀ j (hj : j < R.chunk.length),
      Law R.chunk[j] (R.combine[j]'(by omega)) (R.interFills[j]'(by omega)))
    (hnoarg : ∀ k ∈ R.chunk, isArgKernel k = false)
    (hz : ∀ p ∈ R.chunk.zip R.interFills, (p.1 = .nanlen ∨ p.1 = .nansumsq) → p.2 = Val.zero)
    (hchunks : chunks ≠ []) (hsum : chunks.sum = codes.length) (hlen : codes.length = vals.length)
    (hcodes : ∀ c ∈ codes, -1 ≤ c ∧ c < (n : Int)) :
    simpleCombine R true (treeReduce (simpleCombine R true) se
        (blockStage c true chunks (codes.map fun (c : Int) => (some (c : Rat) : Key)) vals))
      = denseInter R.chunk R.interFills n codes vals := by
  subst hR
  rw [blockStage_dense c n chunks codes vals heng hn harg hnoarg hz (by omega) hcodes,
    tree_denseNodes c.R n se hc hf hlaw _ (segsOf_ne_nil chunks codes vals hchunks)
      (segsOf_aligned chunks codes vals hlen),
    segsOf_catC chunks codes vals (by omega), segsOf_catV chunks codes vals (by omega)]

/-- the main theorem with the hypotheses as requested (a superset of those of `mapreduce_dense'`) -/
theorem mapreduce_dense (R : Resolved) (c : Call) (n : Nat) (chunks : List Nat) (codes : List Int)
    (vals : List Val) (se : Nat)
    (hR : c.R = R) (heng : c.eng = .npg) (hn : c.ngroups = n) (harg : R.isArg = false)
    (hc : R.chunk.length = R.combine.length) (hf : R.chunk.length = R.interFills.length)
    (hlaw : ∀ j (hj : j < R.chunk.length),
      Law R.chunk[j] (R.combine[j]'(by omega)) (R.interFills[j]'(by omega)))
    (hnoarg : ∀ k ∈ R.chunk, isArgKernel k = false)
    (hz : ∀ p ∈ R.chunk.zip R.interFills, (p.1 = .nanlen ∨ p.1 = .nansumsq ∨ p.1 = .len) → p.2 = Val.zero)
    (hchunks : chunks ≠ []) (_hpos : ∀ m ∈ chunks, 0 < m)
    (hsum : chunks.sum = codes.length) (hlen : codes.length = vals.length)
    (hcodes : ∀ c ∈ codes, -1 ≤ c ∧ c < (n : Int)) :
    simpleCombine R true (treeReduce (simpleCombine R true) se
        (blockStage c true chunks (codes.map fun (c : Int) => (some (c : Rat) : Key)) vals))
      = denseInter R.chunk R.interFills n codes vals :=
  mapreduce_dense' R c n chunks codes vals se hR heng hn harg hc hf hlaw hnoarg
    (fun p hp h => hz p hp (h.elim Or.inl (fun h' => Or.inr (Or.inl h')))) hchunks hsum hlen hcodes

/-! ### item 4: corollaries -/

/-- two chunkings and two `split_every` values give the same combined intermediates -/
theorem mapreduce_dense_chunking_irrelevant (R : Resolved) (c : Call) (n : Nat) (chunks₁ chunks₂ : List Nat)
    (codes : List Int) (vals : List Val) (se₁ se₂ : Nat)
    (hR : c.R = R) (heng : c.eng = .npg) (hn : c.ngroups = n) (harg : R.isArg = false)
    (hc : R.chunk.length = R.combine.length) (hf : R.chunk.length = R.interFills.length)
    (hlaw : ∀ j (hj : j < R.chunk.length),
      Law R.chunk[j] (R.combine[j]'(by omega)) (R.interFills[j]'(by omega)))
    (hnoarg : ∀ k ∈ R.chunk, isArgKernel k = false)
    (hz : ∀ p ∈ R.chunk.zip R.interFills, (p.1 = .nanlen ∨ p.1 = .nansumsq) → p.2 = Val.zero)
    (hchunks₁ : chunks₁ ≠ []) (hsum₁ : chunks₁.sum = codes.length)
    (hchunks₂ : chunks₂ ≠ []) (hsum₂ : chunks₂.sum = codes.length)
    (hlen : codes.length = vals.length)
    (hcodes : ∀ c ∈ codes, -1 ≤ c ∧ c < (n : Int)) :
    simpleCombine R true (treeReduce (simpleCombine R true) se₁
        (blockStage c true chunks₁ (codes.map fun (c : Int) => (some (c : Rat) : Key)) vals))
      = simpleCombine R true (treeReduce (simpleCombine R true) se₂
        (blockStage c true chunks₂ (codes.map fun (c : Int) => (some (c : Rat) : Key)) vals)) := by
  rw [mapreduce_dense' R c n chunks₁ codes vals se₁ hR heng hn harg hc hf hlaw hnoarg hz hchunks₁ hsum₁ hlen hcodes,
    mapreduce_dense' R c n chunks₂ codes vals se₂ hR heng hn harg hc hf hlaw hnoarg hz hchunks₂ hsum₂ hlen hcodes]

/-- the map-reduce result equals `chunk_reduce` of the whole array as a single block -/
theorem mapreduce_dense_eq_single_block (R : Resolved) (c : Call) (n : Nat) (chunks : List Nat)
    (codes : List Int) (vals : List Val) (se : Nat) (sort : Bool)
    (hR : c.R = R) (heng : c.eng = .npg) (hn : c.ngroups = n) (harg : R.isArg = false)
    (hc : R.chunk.length = R.combine.length) (hf : R.chunk.length = R.interFills.length)
    (hlaw : ∀ j (hj : j < R.chunk.length),
      Law R.chunk[j] (R.combine[j]'(by omega)) (R.interFills[j]'(by omega)))
    (hnoarg : ∀ k ∈ R.chunk, isArgKernel k = false)
    (hz : ∀ p ∈ R.chunk.zip R.interFills, (p.1 = .nanlen ∨ p.1 = .nansumsq) → p.2 = Val.zero)
    (hchunks : chunks ≠ []) (hsum : chunks.sum = codes.length) (hlen : codes.length = vals.length)
    (hcodes : ∀ c ∈ codes, -1 ≤ c ∧ c < (n : Int)) :
    simpleCombine R true (treeReduce (simpleCombine R true) se
        (blockStage c true chunks (codes.map fun (c : Int) => (some (c : Rat) : Key)) vals))
      = chunkReduce .npg R.chunk R.interFills (codes.map fun (c : Int) => (some (c : Rat) : Key)) vals
          (some n) sort := by
  rw [mapreduce_dense' R c n chunks codes vals se hR heng hn harg hc hf hlaw hnoarg hz hchunks hsum hlen hcodes,
    chunkReduce_dense' R.chunk R.interFills codes vals n sort hcodes hnoarg hz]

/-! ### non-vacuity -/

section Examples

theorem foldl_add_eq (xs : List Val) (a : Val) : xs.foldl Val.add a = Val.add a (vsum xs) := by
  induction xs generalizing a with
  | nil => simp [vsum, Val.add_zero_right]
  | cons x xs ih =>
    simp only [List.foldl_cons, vsum]
    rw [ih (Val.add a x), ih (Val.add Val.zero x), Val.add_zero_left, Val.add_assoc]

theorem vsum_cons_dt (x : Val) (xs : List Val) : vsum (x :: xs) = Val.add x (vsum xs) := by
  simp only [vsum, List.foldl_cons]
  rw [foldl_add_eq, Val.add_zero_left]; rfl

theorem vsum_append_dt (xs ys : List Val) : vsum (xs ++ ys) = Val.add (vsum xs) (vsum ys) := by
  simp only [vsum, List.foldl_append]
  rw [foldl_add_eq]; rfl

theorem blockVal_sum_dt (ms : List Val) : blockVal .sum Val.zero ms = vsum ms := by
  cases ms <;> simp [blockVal, Kernel.skipsNaN, kEval, vsum]

/-- the `Law` hypothesis is satisfiable: the `sum` column -/
theorem Law_sum : Law .sum .sum Val.zero := by
  intro parts _
  have h : ∀ ps : List (List Val), vsum (ps.map (blockVal .sum Val.zero)) = vsum ps.flatten := by
    intro ps
    induction ps with
    | nil => rfl
    | cons p ps ih => simp only [List.map_cons, List.flatten_cons, vsum_cons_dt, vsum_append_dt, ih, blockVal_sum_dt]
  simpa only [combineVal, kEval, blockVal_sum_dt] using h parts

def exR : Resolved :=
  { name := "sum", numpy := [.sum], chunk := [.sum], combine := [.sum], interFills := [Val.zero],
    numpyFills := [Val.zero], finalFill := some Val.zero, userFill := none, minCount := 0,
    finalize := "none", ddof := 0, isArg := false }

def exCall (n se : Nat) : Call :=
  { R := exR, eng := .npg, sort := true, ngroups := n, knownLabels := true, fillArg := none, splitEvery := se }

/-- all hypotheses of the main theorem are jointly satisfiable (for arbitrary data) -/
example (n : Nat) (chunks : List Nat) (codes : List Int) (vals : List Val) (se : Nat)
    (hchunks : chunks ≠ []) (hsum : chunks.sum = codes.length) (hlen : codes.length = vals.length)
    (hcodes : ∀ c ∈ codes, -1 ≤ c ∧ c < (n : Int)) :
    simpleCombine exR true (treeReduce (simpleCombine exR true) se
        (blockStage (exCall n se) true chunks (codes.map fun (c : Int) => (some (c : Rat) : Key)) vals))
      = denseInter [.sum] [Val.zero] n codes vals :=
  mapreduce_dense' exR (exCall n se) n chunks codes vals se rfl rfl rfl rfl rfl rfl
    (by
      intro j hj
      have : j = 0 := by simp [exR] at hj; omega
      subst this
      exact Law_sum)
    (by simp [exR, isArgKernel]) (by simp [exR]) hchunks hsum hlen hcodes

def exR2 : Resolved :=
  { name := "nanmean", numpy := [.nanmean], chunk := [.nansum, .nanlen, .nanmax, .nanfirst],
    combine := [.sum, .sum, .nanmax, .nanfirst], interFills := [Val.zero, Val.zero, Val.ninf, Val.nan],
    numpyFills := [Val.nan], finalFill := some Val.nan, userFill := none, minCount := 0,
    finalize := "mean", ddof := 0, isArg := false }

def exCall2 (se : Nat) : Call :=
  { R := exR2, eng := .npg, sort := true, ngroups := 4, knownLabels := true, fillArg := none, splitEvery := se }

def exCodes_dt : List Int := [0, -1, 2, 0, 2, 2, 0, 3]
def exVals_dt : List Val := [.fin 1, .nan, .fin 3, .nan, .fin 5, .nan, .fin 2, .nan]
def exKeys : List Key := exCodes_dt.map fun (c : Int) => (some (c : Rat) : Key)

/- #eval denseInter exR2.chunk exR2.interFills 4 exCodes_dt exVals_dt
   -- groups 0..3; cols: nansum [3, 0, 8, 0], nanlen [2, 0, 2, 0], nanmax [2, -inf, 5, -inf], nanfirst [1, nan, 3, nan]
   (group 1 has no member, group 3 has only a NaN member) -/

/-- concrete evaluation: 4 blocks, binary tree -/
example :
    simpleCombine exR2 true (treeReduce (simpleCombine exR2 true) 2
        (blockStage (exCall2 2) true [2, 1, 3, 2] exKeys exVals_dt))
      = denseInter exR2.chunk exR2.interFills 4 exCodes_dt exVals_dt := by decide +kernel

/-- concrete evaluation: another chunking (with an empty-of-members block) and a flat tree -/
example :
    simpleCombine exR2 true (treeReduce (simpleCombine exR2 true) 8
        (blockStage (exCall2 8) true [1, 1, 1, 1, 1, 1, 1, 1] exKeys exVals_dt))
      = denseInter exR2.chunk exR2.interFills 4 exCodes_dt exVals_dt := by decide +kernel

/-- concrete evaluation of the block-stage theorem's two sides -/
example :
    chunkReduce .npg exR2.chunk exR2.interFills exKeys exVals_dt (some 4) true
      = denseInter exR2.chunk exR2.interFills 4 exCodes_dt exVals_dt := by decide +kernel

/-- the dense intermediate really contains data (not a degenerate equality) -/
example :
    (denseInter exR2.chunk exR2.interFills 4 exCodes_dt exVals_dt).cols
      = [[.fin 3, .fin 0, .fin 8, .fin 0], [.fin 2, .fin 0, .fin 2, .fin 0],
         [.fin 2, .ninf, .fin 5, .ninf], [.fin 1, .nan, .fin 3, .nan]] := by decide +kernel

/-- `chunks ≠ []` cannot be dropped: with no block at all the combine of nothing has no groups -/
example :
    simpleCombine exR true (treeReduce (simpleCombine exR true) 2 (blockStage (exCall 2 2) true [] [] []))
      ≠ denseInter [.sum] [Val.zero] 2 [] [] := by decide +kernel

/-- the fill condition on `nanlen` cannot be dropped: an all-NaN group gets the fill from the `_len` patch
    of the engine wrapper, while `blockVal` stores the count 0 -/
example :
    chunkReduce .npg [.nanlen] [Val.fin 7] [some 0] [Val.nan] (some 1) true
      ≠ denseInter [.nanlen] [Val.fin 7] 1 [0] [Val.nan] := by decide +kernel

/-- same for `nansum_of_squares` (numpy_groupies: all-NaN group looks absent ↦ fill; `blockVal`: 0) -/
example :
    chunkReduce .npg [.nansumsq] [Val.fin 7] [some 0] [Val.nan] (some 1) true
      ≠ denseInter [.nansumsq] [Val.fin 7] 1 [0] [Val.nan] := by decide +kernel

/-- arg kernels are excluded: the engine returns block positions, `kEval` the index among the members -/
example :
    chunkReduce .npg [.argmax] [Val.fin 0] [some 1, some 0] [Val.fin 5, Val.fin 7] (some 2) true
      ≠ denseInter [.argmax] [Val.fin 0] 2 [1, 0] [Val.fin 5, Val.fin 7] := by decide +kernel

end Examples

end Flox
