/-
  Independence of the reduction-tree shape (C03).

  A `PTree` is an arbitrary finitely-branching tree (every node has at least one child) whose leaves carry the
  member lists of one group inside the blocks, left to right.  Evaluating the tree applies the chunk stage
  (`blockVal k f`) at the leaves and `_simple_combine` (`combineVal c`) at every inner node.
  `PTree.eval_eq` shows that for every built-in column this equals `blockVal k f` of the concatenated
  members: the result does not depend on the bracketing / `split_every` / depth of the tree.
-/
import FloxProofs.Columns

namespace Flox

mutual
inductive PTree where
  | leaf (p : List Val)
  | node (ts : PForest)
inductive PForest where
  | one (t : PTree)
  | cons (t : PTree) (ts : PForest)
end

mutual
/-- concatenation of all leaf lists, left to right -/
def PTree.leaves : PTree → List Val
  | .leaf p => p
  | .node ts => ts.leaves
def PForest.leaves : PForest → List Val
  | .one t => t.leaves
  | .cons t ts => t.leaves ++ ts.leaves
end

/-- the member lists below each child of a node -/
def PForest.parts : PForest → List (List Val)
  | .one t => [t.leaves]
  | .cons t ts => t.leaves :: ts.parts

mutual
/-- chunk at the leaves, combine at every inner node -/
def PTree.eval (k c : Kernel) (f : Val) : PTree → Val
  | .leaf p => blockVal k f p
  | .node ts => combineVal c (ts.evals k c f)
/-- values of the children of a node, in order -/
def PForest.evals (k c : Kernel) (f : Val) : PForest → List Val
  | .one t => [t.eval k c f]
  | .cons t ts => t.eval k c f :: ts.evals k c f
end

theorem PForest.parts_ne_nil (ts : PForest) : ts.parts ≠ [] := by
  cases ts <;> simp [PForest.parts]

theorem PForest.flatten_parts (ts : PForest) : ts.parts.flatten = ts.leaves := by
  induction ts using PForest.rec (motive_1 := fun _ => True) with
  | leaf _ => trivial
  | node _ _ => trivial
  | one t _ => simp [PForest.parts, PForest.leaves]
  | cons t ts _ ih => simp [PForest.parts, PForest.leaves, ih]

mutual
/-- **Tree-shape independence.** -/
theorem PTree.eval_eq (k c : Kernel) (f : Val) (h : (k, c, f) ∈ floatColumns) :
    (t : PTree) → t.eval k c f = blockVal k f t.leaves
  | .leaf p => by simp [PTree.eval, PTree.leaves]
  | .node ts => by
    rw [PTree.eval, PForest.evals_eq k c f h ts, combine_parts k c f h _ ts.parts_ne_nil,
      PForest.flatten_parts, PTree.leaves]
theorem PForest.evals_eq (k c : Kernel) (f : Val) (h : (k, c, f) ∈ floatColumns) :
    (ts : PForest) → ts.evals k c f = ts.parts.map (blockVal k f)
  | .one t => by simp [PForest.evals, PForest.parts, PTree.eval_eq k c f h t]
  | .cons t ts => by
    simp [PForest.evals, PForest.parts, PTree.eval_eq k c f h t, PForest.evals_eq k c f h ts]
end

/-- two reduction trees over the same members (any bracketing, any `split_every`, any depth,
    any placement of absent blocks) give the same value -/
theorem PTree.eval_congr (k c : Kernel) (f : Val) (h : (k, c, f) ∈ floatColumns)
    (t₁ t₂ : PTree) (hl : t₁.leaves = t₂.leaves) : t₁.eval k c f = t₂.eval k c f := by
  rw [PTree.eval_eq k c f h, PTree.eval_eq k c f h, hl]

/-- in particular a tree evaluates to the flat one-level combine of its leaf blocks ... -/
theorem PTree.eval_eq_flat (k c : Kernel) (f : Val) (h : (k, c, f) ∈ floatColumns)
    (t : PTree) (parts : List (List Val)) (hne : parts ≠ []) (hl : t.leaves = parts.flatten) :
    t.eval k c f = combineVal c (parts.map (blockVal k f)) := by
  rw [PTree.eval_eq k c f h, combine_parts k c f h parts hne, hl]

/-- ... and to the single-block computation on all members -/
theorem PTree.eval_eq_single (k c : Kernel) (f : Val) (h : (k, c, f) ∈ floatColumns) (t : PTree) :
    t.eval k c f = (PTree.leaf t.leaves).eval k c f := by
  rw [PTree.eval_eq k c f h, PTree.eval]

/-! ### non-vacuity -/

section Examples
open Val

/-- ((a b) c) d  vs  a (b (c d)) vs flat, with an absent block, an all-NaN block and a NaN inside a block -/
def exA : List Val := [fin 1, nan, fin (-2)]
def exB : List Val := []
def exC : List Val := [nan]
def exD : List Val := [fin 5, pinf]

def exLeft : PTree :=
  .node (.cons (.node (.cons (.node (.cons (.leaf exA) (.one (.leaf exB)))) (.one (.leaf exC))))
    (.one (.leaf exD)))
def exRight : PTree :=
  .node (.cons (.leaf exA) (.one (.node (.cons (.leaf exB) (.one (.node (.cons (.leaf exC)
    (.one (.leaf exD)))))))))
def exFlat : PTree :=
  .node (.cons (.leaf exA) (.cons (.leaf exB) (.cons (.leaf exC) (.one (.leaf exD)))))

example : exLeft.leaves = exRight.leaves := by decide +kernel
example : exLeft.leaves = [fin 1, nan, fin (-2), nan, fin 5, pinf] := by decide +kernel

example : ∀ t ∈ floatColumns,
    exLeft.eval t.1 t.2.1 t.2.2 = exRight.eval t.1 t.2.1 t.2.2 ∧
    exLeft.eval t.1 t.2.1 t.2.2 = exFlat.eval t.1 t.2.1 t.2.2 ∧
    exLeft.eval t.1 t.2.1 t.2.2 = blockVal t.1 t.2.2 exLeft.leaves := by
  decide +kernel

example : exLeft.eval .nansum .sum zero = pinf := by decide +kernel
example : exLeft.eval .nanlen .sum zero = fin 4 := by decide +kernel
example : exLeft.eval .nanmin .nanmin pinf = fin (-2) := by decide +kernel
example : exRight.eval .nanlast .nanlast nan = pinf := by decide +kernel
example : exRight.eval .sum .sum zero = nan := by decide +kernel

example : exLeft.eval .nanmax .nanmax ninf = exRight.eval .nanmax .nanmax ninf :=
  PTree.eval_congr _ _ _ (by decide +kernel) _ _ (by decide +kernel)

end Examples

end Flox
