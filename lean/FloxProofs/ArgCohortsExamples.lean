/-
  Non-vacuity examples and a counterexample for `FloxProofs/ArgCohorts.lean` (all by `decide +kernel`).
-/
import FloxProofs.ArgCohorts
import FloxProofs.ArgEndToEnd

namespace Flox.Grp
namespace ACEx
open E2E AE2E

/-- two cohorts: labels 0 and 1 live in all three blocks, label 2 only in the last one; label 3 is in no cohort -/
def cs9 : List (List Nat × List Rat) := [([0, 1, 2], [0, 1]), ([2], [2])]

example : cohortsSoundB [3, 3, 3] c9 4 cs9 = true := by decide +kernel

/-- `cohorts_arg_eq_spec` applies (every hypothesis holds) … -/
example : runKnown (mkCall Rnanargmax .npg 4 2) (.cohorts cs9) true [3, 3, 3] (codeKeys c9) v9n
    = specResult .nanargmax Rnanargmax c9 v9n 4 :=
  cohorts_arg_eq_spec .nanargmax Rnanargmax (mkCall Rnanargmax .npg 4 2) 4 true [3, 3, 3] c9 v9n cs9 rfl rfl rfl
    (by decide +kernel) rfl (by decide) (cohortsSound_of_check _ _ _ _ (by decide +kernel)) (by decide +kernel)
    (by decide +kernel) ⟨fun _ _ _ => rfl, by decide +kernel⟩

/-- … and the indices are GLOBAL although every cohort only sees its own blocks; label 3 → the fill -/
example : specResult .nanargmax Rnanargmax c9 v9n 4 = .ok [Val.fin 2, Val.fin 6, Val.fin 8, Val.fin (-1)] := by
  decide +kernel

/-- cohorts = map-reduce on the same input, other chunking -/
example : runKnown (mkCall Rnanargmax .npg 4 2) (.cohorts cs9) true [3, 3, 3] (codeKeys c9) v9n
    = runKnown (mkCall Rnanargmax .npg 4 2) (.mapreduce false) true [2, 2, 2, 2, 1] (codeKeys c9) v9n :=
  cohorts_arg_eq_mapreduce .nanargmax Rnanargmax (mkCall Rnanargmax .npg 4 2) 4 true [3, 3, 3] [2, 2, 2, 2, 1] c9 v9n
    cs9 rfl rfl rfl (by decide +kernel) (by decide +kernel) rfl (by decide) (by decide) (by decide) (by decide)
    (cohortsSound_of_check _ _ _ _ (by decide +kernel)) (by decide +kernel) (by decide +kernel) (by decide +kernel)
    ⟨fun _ _ _ => rfl, by decide +kernel⟩

/-- the count mask with a fill value: `H_cohortmask` holds -/
def csA : List (List Nat × List Rat) := [([0], [2]), ([0, 1], [1]), ([1], [0])]

example : runKnown (mkCall Rnanargmax1 .npg 3 2) (.cohorts csA) true [2, 2] (codeKeys [2, 1, 0, 1])
      [.fin 3, .nan, .fin 5, .fin 4]
    = specResult .nanargmax Rnanargmax1 [2, 1, 0, 1] [.fin 3, .nan, .fin 5, .fin 4] 3 :=
  cohorts_arg_eq_spec .nanargmax Rnanargmax1 (mkCall Rnanargmax1 .npg 3 2) 3 true [2, 2] [2, 1, 0, 1]
    [.fin 3, .nan, .fin 5, .fin 4] csA rfl rfl rfl (by decide +kernel) rfl (by decide)
    (cohortsSound_of_check _ _ _ _ (by decide +kernel)) (by decide +kernel) (by decide +kernel)
    ⟨fun _ _ _ => rfl, by decide +kernel⟩

/-- **FINDING (model; `H_cohortmask` is necessary).**  `nanargmax`, `min_count=1`, NO fill value, cohorts.  Blocks
    `[3₂, nan₁ | 5₀, 4₁]`; the cohort of label 2 consists of block 0 only, which also holds a part of label 1 (one NaN).
    Arg-reductions do not reindex the blocks to the cohort's labels, so `_finalize_results` applies the count mask to
    that foreign, partial group (0 valid members < 1) and raises "Filling is required", although every requested label
    has a valid member and the specification (and the same call with a fill value, or through map-reduce) succeeds.
    The cohort structure is sound and all other hypotheses hold. -/
theorem cohorts_arg_mask_counterexample :
    ArgFits .nanargmax Rnanargmax1n
    ∧ cohortsSoundB [2, 2] [2, 1, 0, 1] 3 csA = true
    ∧ (∀ g : Nat, g < 3 → HNotAllNaN .nanargmax Rnanargmax1n (members (Int.ofNat g) [2, 1, 0, 1]
        [.fin 3, .nan, .fin 5, .fin 4]))
    ∧ HDropped Rnanargmax1n [2, 1, 0, 1] [.fin 3, .nan, .fin 5, .fin 4]
    ∧ ¬ HCohortMask Rnanargmax1n
    ∧ runKnown (mkCall Rnanargmax1n .npg 3 2) (.cohorts csA) true [2, 2] (codeKeys [2, 1, 0, 1])
        [.fin 3, .nan, .fin 5, .fin 4] = .error "ValueError"
    ∧ specResult .nanargmax Rnanargmax1n [2, 1, 0, 1] [.fin 3, .nan, .fin 5, .fin 4] 3
        = .ok [Val.fin 2, Val.fin 3, Val.fin 0]
    ∧ runKnown (mkCall Rnanargmax1n .npg 3 2) (.mapreduce false) true [2, 2] (codeKeys [2, 1, 0, 1])
        [.fin 3, .nan, .fin 5, .fin 4] = .ok [Val.fin 2, Val.fin 3, Val.fin 0] := by
  decide +kernel

/-- (`H_cohortfill` holds in the counterexample as well) -/
example : HCohortFill (mkCall Rnanargmax1n .npg 3 2) Rnanargmax1n 3 csA := ⟨fun _ _ _ => rfl, by decide +kernel⟩

end ACEx
end Flox.Grp
