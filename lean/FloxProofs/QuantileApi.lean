/-
  The eager API layer of the grouped quantiles (C18): `runEager` (validation of `q`, factorisation,
  `chunk_reduce` with the NaN-label sentinel, assembling the result array) equals the specification `specRun`;
  and every block of the blockwise plan holds the NumPy quantiles of the members *inside that block*.
-/
import FloxProofs.Quantile

namespace Flox
namespace Quantile

/-! ### codes produced by the factorisation are `-1` or in range -/

theorem indexOf?_lt (x : Rat) (l : List Rat) (i : Nat) (h : indexOf? x l = some i) : i < l.length := by
  induction l generalizing i with
  | nil => simp [indexOf?] at h
  | cons y ys ih =>
    simp only [indexOf?] at h
    split at h
    · simp only [Option.some.injEq] at h; subst h; simp
    · cases hr : indexOf? x ys with
      | none => simp [hr] at h
      | some j =>
        simp [hr] at h
        have := ih j hr
        simp only [List.length_cons]
        omega

theorem factorize_codes_range (labels : List Key) :
    ∀ c ∈ (factorizeKeys labels none true).2,
      c = -1 ∨ (0 ≤ c ∧ c < ((factorizeKeys labels none true).1.length : Int)) := by
  intro c hc
  simp only [factorizeKeys, List.mem_map] at hc
  obtain ⟨k, _, rfl⟩ := hc
  cases k with
  | none => left; rfl
  | some r =>
    simp only [if_true]
    cases hi : indexOf? r (uniqSorted (presentKeys labels)) with
    | none => left; rfl
    | some i =>
      right
      have := indexOf?_lt _ _ _ hi
      simp only [factorizeKeys, if_true]
      omega

/-- re-factorising codes that are already codes of `RangeIndex(n)` returns them unchanged -/
theorem refactorize_codes (codes : List Int) (n : Nat)
    (h : ∀ c ∈ codes, c = -1 ∨ (0 ≤ c ∧ c < (n : Int))) :
    (factorizeKeys (codes.map fun (c : Int) => if c = -1 then none else some (c : Rat)) (some n) true).2 = codes := by
  simp only [factorizeKeys, List.map_map]
  conv => rhs; rw [← List.map_id codes]
  apply List.map_congr_left
  intro c hc
  rcases h c hc with rfl | ⟨h0, h1⟩
  · simp
  · have hne : ¬ c = -1 := by omega
    simp only [Function.comp, if_neg hne, id]
    have h1' : (c : Rat) ≤ (n : Rat) - 1 := by
      have : c ≤ (n : Int) - 1 := by omega
      have h2 := (Rat.intCast_le_intCast).mpr this
      rw [Rat.intCast_sub] at h2
      exact h2
    have h0' : (0 : Rat) ≤ (c : Rat) := Rat.intCast_nonneg.mpr h0
    simp [h1', h0']

theorem refactorize_found (keys : List Key) (n : Nat) :
    (factorizeKeys keys (some n) true).1.length = n := by
  simp [factorizeKeys]

/-! ### `members` does not see a recoding of other groups -/

theorem members_map_codes (f : Int → Int) (g : Int) (codes : List Int) (vals : List Val)
    (hf : ∀ c ∈ codes, (f c = g ↔ c = g)) :
    members g (codes.map f) vals = members g codes vals := by
  induction codes generalizing vals with
  | nil => simp
  | cons c cs ih =>
    cases vals with
    | nil => simp
    | cons v vs =>
      have hc := hf c (by simp)
      have ih' := ih vs (fun c' hc' => hf c' (List.mem_cons_of_mem _ hc'))
      simp only [List.map_cons, members_cons, ih']
      by_cases h : c = g
      · rw [if_pos (hc.mpr h), if_pos h]
      · have : ¬ f c = g := fun h' => h (hc.mp h')
        simp [h, this]

theorem members_all_missing (g : Nat) (codes : List Int) (vals : List Val) (h : ∀ c ∈ codes, c = -1) :
    members (Int.ofNat g) codes vals = [] := by
  induction codes generalizing vals with
  | nil => simp
  | cons c cs ih =>
    cases vals with
    | nil => simp
    | cons v vs =>
      have hc := h c (by simp)
      have : ¬ c = Int.ofNat g := by
        simp only [Int.ofNat_eq_natCast]; omega
      simp only [members_cons, if_neg this]
      exact ih vs (fun c' hc' => h c' (List.mem_cons_of_mem _ hc'))

/-! ### the engines against the specification, as whole vectors -/

theorem engineFlox_eq_grouped (skipna : Bool) (q : Rat) (hq0 : 0 ≤ q) (hq1 : q ≤ 1) (codes : List Int)
    (vals : List Val) (hfin : NoInf vals) (size : Nat) (fill : Val) :
    engineFlox skipna q codes vals size fill = Spec.grouped skipna q codes vals size fill := by
  apply List.ext_getElem?
  intro g
  by_cases hg : g < size
  · rw [engineFlox_slot _ _ _ _ _ _ g hg]
    simp only [Spec.grouped, List.getElem?_map, List.getElem?_range hg, Option.map_some, List.isEmpty_iff]
    by_cases hm : members (Int.ofNat g) codes vals = []
    · rw [if_pos hm, if_pos hm]
    · rw [if_neg hm, if_neg hm, cellR_correct skipna q hq0 hq1 codes vals hfin _ hm]
  · have h1 : (engineFlox skipna q codes vals size fill).length ≤ g := by
      rw [engineFlox_length]; omega
    have h2 : (Spec.grouped skipna q codes vals size fill).length ≤ g := by
      simp [Spec.grouped]; omega
    rw [List.getElem?_eq_none h1, List.getElem?_eq_none h2]

theorem engine_eq_grouped (eng : Eng) (skipna : Bool) (q : Rat) (hq0 : 0 ≤ q) (hq1 : q ≤ 1) (codes : List Int)
    (vals : List Val) (hfin : NoInf vals) (size : Nat) (fill : Val) :
    engine eng skipna q codes vals size fill = Spec.grouped skipna q codes vals size fill := by
  cases eng with
  | flox => exact engineFlox_eq_grouped skipna q hq0 hq1 codes vals hfin size fill
  | npg => rfl
  | numbagg => rfl

/-! ### one `chunk_reduce` call of the eager path -/

/-- the slots `chunk_reduce` returns for one `q` (sentinel slot dropped) are the specification's slots -/
theorem chunk_slots_eq_spec (eng : Eng) (skipna : Bool) (q : Rat) (hq0 : 0 ≤ q) (hq1 : q ≤ 1) (codes : List Int)
    (row : List Val) (hfin : NoInf row) (n : Nat) (h : ∀ c ∈ codes, c = -1 ∨ (0 ≤ c ∧ c < (n : Int))) :
    (if codes.all (· == -1) then List.replicate n Val.nan
      else (engine eng skipna q (codes.map fun c => if c == -1 then (n : Int) else c) row
              (if codes.any (· == -1) then n + 1 else n) Val.nan).take n)
      = Spec.grouped skipna q codes row n Val.nan := by
  have hmem : ∀ g : Nat, g < n →
      members (Int.ofNat g) (codes.map fun c => if c == -1 then (n : Int) else c) row
        = members (Int.ofNat g) codes row := by
    intro g hg
    apply members_map_codes
    intro c hc
    simp only [Int.ofNat_eq_natCast]
    rcases h c hc with rfl | ⟨h0, h1⟩
    · simp; omega
    · have : ¬ c = -1 := by omega
      simp [this]
  split
  · rename_i hall
    have hall' : ∀ c ∈ codes, c = -1 := by simpa using hall
    unfold Spec.grouped
    apply List.ext_getElem?
    intro g
    by_cases hg : g < n
    · have hm := members_all_missing g codes row hall'
      simp only [Int.ofNat_eq_natCast] at hm
      simp [hg, hm]
    · simp [hg]
  · rw [engine_eq_grouped eng skipna q hq0 hq1 _ row hfin]
    unfold Spec.grouped
    rw [← List.map_take]
    have htake : (List.range (if codes.any (· == -1) then n + 1 else n)).take n = List.range n := by
      rw [List.take_range]
      congr 1
      split <;> omega
    rw [htake]
    apply List.map_congr_left
    intro g hg
    have hg' : g < n := by simpa using hg
    simp only [hmem g hg']

/-- `chunk_reduce` of the eager path (codes of `_factorize_multiple`, `RangeIndex` expected) against the spec -/
theorem chunkQuantile_eager (eng : Eng) (skipna : Bool) (qs : List Rat) (hq : ∀ q ∈ qs, 0 ≤ q ∧ q ≤ 1)
    (codes : List Int) (n : Nat) (h : ∀ c ∈ codes, c = -1 ∨ (0 ≤ c ∧ c < (n : Int)))
    (row : List Val) (hfin : NoInf row) :
    (chunkQuantile eng skipna qs (codes.map fun (c : Int) => if c = -1 then none else some (c : Rat)) row (some n)).2
      = qs.map fun q => Spec.grouped skipna q codes row n Val.nan := by
  have h2 := refactorize_codes codes n h
  have h1 := refactorize_found (codes.map fun (c : Int) => if c = -1 then none else some (c : Rat)) n
  rcases hX : factorizeKeys (codes.map fun (c : Int) => if c = -1 then none else some (c : Rat)) (some n) true
    with ⟨found2, codes2⟩
  rw [hX] at h1 h2
  simp only at h1 h2
  subst h2
  simp only [chunkQuantile, hX, List.length_map, h1]
  apply List.map_congr_left
  intro q hqm
  exact chunk_slots_eq_spec eng skipna q (hq q hqm).1 (hq q hqm).2 codes2 row hfin n h

/-- **one block of the blockwise plan**: `chunk_reduce` on a block (no expected groups; the block's own sorted
    unique labels; missing keys – if any – go to the sentinel slot, which is dropped) returns, for every label
    present in the block, the NumPy quantile of that label's members *inside the block*.  When every group lies
    within one block these are all the members of the group. -/
theorem chunkQuantile_block (eng : Eng) (skipna : Bool) (qs : List Rat) (hq : ∀ q ∈ qs, 0 ≤ q ∧ q ≤ 1)
    (ks : List Key) (vs : List Val) (hfin : NoInf vs)
    (hne : (factorizeKeys ks none true).2.all (· == -1) = false) :
    chunkQuantile eng skipna qs ks vs none
      = ((factorizeKeys ks none true).1.map some,
         qs.map fun q => Spec.grouped skipna q (factorizeKeys ks none true).2 vs
                            (factorizeKeys ks none true).1.length Val.nan) := by
  have hr := factorize_codes_range ks
  rcases hX : factorizeKeys ks none true with ⟨found, codes⟩
  rw [hX] at hr hne
  simp only at hr hne
  simp only [chunkQuantile, hX, hne, Bool.false_eq_true, if_false, List.length_map]
  congr 1
  apply List.map_congr_left
  intro q hqm
  have := chunk_slots_eq_spec eng skipna q (hq q hqm).1 (hq q hqm).2 codes vs hfin found.length hr
  rw [hne] at this
  simpa using this

/-- the quantile levels a request asks for -/
def reqQs (rq : QRequest) : List Rat :=
  if rq.func.isQuantile then (match rq.q with | none => [] | some a => a.toList) else [(1 : Rat) / 2]

/-- **the eager call equals the specification** (engine flox): for every request with `q ⊆ [0,1]`, any labels
    (unsorted, missing ones included) and any batch of rows of finite values and NaNs -/
theorem runEager_eq_specRun (rq : QRequest) (heng : rq.eng = .flox) (hq : ∀ q ∈ reqQs rq, 0 ≤ q ∧ q ≤ 1)
    (labels : List Key) (rows : List (List Val)) (batch1d : Bool) (hfin : ∀ row ∈ rows, NoInf row) :
    runEager rq labels rows batch1d = specRun rq labels rows batch1d := by
  obtain ⟨func, eng, qa⟩ := rq
  simp only at heng
  subst heng
  have hcodes := factorize_codes_range labels
  have key : ∀ (qs : List Rat) (sc : Bool), (∀ q ∈ qs, 0 ≤ q ∧ q ≤ 1) →
      validate ⟨func, .flox, qa⟩ = .ok (qs, sc) →
      runEager ⟨func, .flox, qa⟩ labels rows batch1d =
        (let (groups, codes) := factorizeKeys labels none true
         let per := rows.map fun row => qs.map fun q => Spec.grouped func.skipna q codes row groups.length Val.nan
         let (shape, vals) := assemble sc qs.length rows.length groups.length batch1d per
         QOutcome.ok { groups := groups.map some, shape := shape, vals := vals }) := by
    intro qs sc hqs hv
    unfold runEager
    rw [hv]
    rcases hF : factorizeKeys labels none true with ⟨groups, codes⟩
    rw [hF] at hcodes
    simp only at hcodes
    have hper : (rows.map fun row =>
        (chunkQuantile Eng.flox func.skipna qs (codes.map fun (c : Int) => if c = -1 then none else some (c : Rat))
          row (some groups.length)).2)
        = rows.map fun row => qs.map fun q => Spec.grouped func.skipna q codes row groups.length Val.nan := by
      apply List.map_congr_left
      intro row hrow
      exact chunkQuantile_eager .flox func.skipna qs hqs codes groups.length hcodes row (hfin row hrow)
    simp only [hper]
    simp
  unfold specRun
  cases hfq : func.isQuantile with
  | false =>
    have hv : validate ⟨func, .flox, qa⟩ = .ok ([(1 : Rat) / 2], true) := by simp [validate, hfq]
    have hq' : ∀ q ∈ [(1 : Rat) / 2], 0 ≤ q ∧ q ≤ 1 := by
      intro q hm; apply hq; simpa [reqQs, hfq] using hm
    rw [key _ _ hq' hv]
    simp
  | true =>
    cases qa with
    | none => simp [runEager, validate, hfq]
    | some a =>
      cases a with
      | scalar q0 =>
        have hv : validate ⟨func, .flox, some (.scalar q0)⟩ = .ok ([q0], true) := by simp [validate, hfq]
        have hq' : ∀ q ∈ [q0], 0 ≤ q ∧ q ≤ 1 := by
          intro q hm; apply hq; simpa [reqQs, hfq, QArg.toList] using hm
        rw [key _ _ hq' hv]
        simp
      | vector qs =>
        have hv : validate ⟨func, .flox, some (.vector qs)⟩ = .ok (qs, false) := by simp [validate, hfq]
        have hq' : ∀ q ∈ qs, 0 ≤ q ∧ q ≤ 1 := by
          intro q hm; apply hq; simpa [reqQs, hfq, QArg.toList] using hm
        rw [key _ _ hq' hv]
        simp

end Quantile
end Flox
