/-
  User-defined aggregations are executed by the same machinery (C04).

  For an ARBITRARY resolved blueprint `R` (any kernel names, any fills, no algebraic law assumed) the map-reduce plan
  with block-stage reindexing and `_simple_combine` computes, in column `j` and slot `g`,

      machineryVal combine[j] se [ blockVal chunk[j] fill[j] (members of g in block b) | b ← blocks ]

  where `machineryVal c se` folds the per-block values with the combine kernel `c` along the tree that
  `split_every = se` induces (`treeVals`: the scalar shadow of `treeReduce`).  Nothing but `chunk`, `combine`,
  `fill_value` of the blueprint enters: `userAggregation_machinery`.
  With the column laws (`Law`, e.g. for clones of built-in columns: `combine_parts`) the tree collapses and the
  result is the single-block result, whatever the chunking and `split_every`: `userAggregation_lawful`.
-/
import FloxProofs.DenseTree
import FloxModel.UserAgg

namespace Flox

/-! ### the scalar shadow of the tree reduction -/

/-- `treeReduce` on the per-block values of one slot: rounds of `partition_all(split_every)` + combine -/
def treeVals (c : Kernel) (se : Nat) (xs : List Val) : List Val :=
  (List.range (ceilLog (Nat.max se 2) xs.length - 1)).foldl
    (fun cur _ => (partitionAll (Nat.max se 2) cur).map (combineVal c)) xs

/-- … followed by the final combine of the aggregate step -/
def machineryVal (c : Kernel) (se : Nat) (xs : List Val) : Val := combineVal c (treeVals c se xs)

/-- value of column `j`, slot `gi` of an intermediate -/
def slotOf (x : Inter) (j gi : Nat) : Val := (colAt x j).getD gi Val.nan

/-! ### one combine, one round, all rounds -/

theorem simpleCombine_groups (R : Resolved) (n : Nat) (xs : List Inter) (hne : xs ≠ [])
    (hg : ∀ x ∈ xs, x.groups = rangeKeys n) : (simpleCombine R true xs).groups = rangeKeys n := by
  rw [simpleCombine_dense R n xs hne hg]

theorem simpleCombine_slot (R : Resolved) (n : Nat) (xs : List Inter) (hne : xs ≠ [])
    (hg : ∀ x ∈ xs, x.groups = rangeKeys n) (j gi : Nat) (hj : j < R.combine.length) (hgi : gi < n) :
    slotOf (simpleCombine R true xs) j gi = combineVal R.combine[j] (xs.map fun x => slotOf x j gi) := by
  rw [simpleCombine_dense R n xs hne hg]
  simp [slotOf, colAt, List.getElem?_eq_getElem hj, hgi]

theorem round_slots (R : Resolved) (n k : Nat) (xs : List Inter) (hg : ∀ x ∈ xs, x.groups = rangeKeys n)
    (j gi : Nat) (hj : j < R.combine.length) (hgi : gi < n) :
    ((partitionAll k xs).map (simpleCombine R true)).map (fun x => slotOf x j gi)
      = (partitionAll k (xs.map fun x => slotOf x j gi)).map (combineVal R.combine[j]) := by
  rw [partitionAll_map, List.map_map, List.map_map]
  apply List.map_congr_left
  intro grp hgrp
  simp only [Function.comp]
  exact simpleCombine_slot R n grp (partitionAll_mem_ne_nil k xs grp hgrp)
    (fun x hx => hg x (partitionAll_mem_sub k xs grp hgrp x hx)) j gi hj hgi

theorem round_groups (R : Resolved) (n k : Nat) (xs : List Inter) (hg : ∀ x ∈ xs, x.groups = rangeKeys n) :
    ∀ y ∈ (partitionAll k xs).map (simpleCombine R true), y.groups = rangeKeys n := by
  intro y hy
  obtain ⟨grp, hgrp, rfl⟩ := List.mem_map.mp hy
  exact simpleCombine_groups R n grp (partitionAll_mem_ne_nil k xs grp hgrp)
    (fun x hx => hg x (partitionAll_mem_sub k xs grp hgrp x hx))

theorem rounds_slots (R : Resolved) (n k : Nat) (l : List Nat) (xs : List Inter) (hne : xs ≠ [])
    (hg : ∀ x ∈ xs, x.groups = rangeKeys n) :
    let ys := l.foldl (fun cur _ => (partitionAll k cur).map (simpleCombine R true)) xs
    ys ≠ [] ∧ (∀ y ∈ ys, y.groups = rangeKeys n) ∧
      ∀ j gi (hj : j < R.combine.length), gi < n →
        ys.map (fun x => slotOf x j gi)
          = l.foldl (fun cur _ => (partitionAll k cur).map (combineVal R.combine[j])) (xs.map fun x => slotOf x j gi) := by
  induction l generalizing xs with
  | nil => exact ⟨hne, hg, fun _ _ _ _ => rfl⟩
  | cons _ l ih =>
    simp only [List.foldl_cons]
    obtain ⟨h1, h2, h3⟩ := ih ((partitionAll k xs).map (simpleCombine R true))
      (by simpa using partitionAll_ne_nil k xs hne) (round_groups R n k xs hg)
    refine ⟨h1, h2, ?_⟩
    intro j gi hj hgi
    rw [h3 j gi hj hgi, round_slots R n k xs hg j gi hj hgi]

/-- **The machinery on arbitrary equally-shaped blocks**: tree reduction with `_simple_combine` followed by the
    aggregate's combine is, slot by slot, the scalar tree fold of the per-block values with the combine kernel. -/
theorem machinery_inter (R : Resolved) (n se : Nat) (blocks : List Inter) (hne : blocks ≠ [])
    (hg : ∀ b ∈ blocks, b.groups = rangeKeys n) :
    simpleCombine R true (treeReduce (simpleCombine R true) se blocks)
      = { groups := rangeKeys n,
          cols := R.combine.mapIdx fun j c =>
            (List.range n).map fun gi => machineryVal c se (blocks.map fun b => slotOf b j gi) } := by
  unfold treeReduce
  obtain ⟨h1, h2, h3⟩ := rounds_slots R n (Nat.max se 2)
    (List.range (ceilLog (Nat.max se 2) blocks.length - 1)) blocks hne hg
  rw [simpleCombine_dense R n _ h1 h2]
  congr 1
  apply List.ext_getElem
  · simp
  · intro j hj1 _
    have hj : j < R.combine.length := by simpa using hj1
    simp only [List.getElem_mapIdx]
    apply List.map_congr_left
    intro gi hgi
    have hgi' : gi < n := List.mem_range.mp hgi
    have := h3 j gi hj hgi'
    simp only [slotOf] at this
    simp only [machineryVal, treeVals, slotOf, List.length_map]
    rw [← this]

/-! ### the blocks of the block stage -/

theorem slotOf_denseNode (R : Resolved) (n : Nat) (p : List Int × List Val) (j gi : Nat)
    (hj : j < R.chunk.length) (hf : R.chunk.length = R.interFills.length) (hgi : gi < n) :
    slotOf (denseNode R n p) j gi
      = blockVal R.chunk[j] (R.interFills[j]'(by omega)) (members (Int.ofNat gi) p.1 p.2) :=
  colAt_denseInter R.chunk R.interFills n p.1 p.2 j gi hj hf hgi

/-- the fills of the `nanlen` / `nansum_of_squares` chunk kernels are 0 (numpy_groupies returns the *fill* for an
    all-NaN group there, which coincides with the kernels' value 0 only then) -/
abbrev LenFillsZero (R : Resolved) : Prop :=
  ∀ p ∈ R.chunk.zip R.interFills, (p.1 = .nanlen ∨ p.1 = .nansumsq) → p.2 = Val.zero

/-- **User aggregations run on the same machinery.**  `R` arbitrary (no law assumed). -/
theorem userAggregation_machinery (c : Call) (n : Nat) (chunks : List Nat) (codes : List Int) (vals : List Val)
    (se : Nat) (heng : c.eng = .npg) (hn : c.ngroups = n) (harg : c.R.isArg = false)
    (hc : c.R.chunk.length = c.R.combine.length) (hf : c.R.chunk.length = c.R.interFills.length)
    (hnoarg : ∀ k ∈ c.R.chunk, isArgKernel k = false) (hz : LenFillsZero c.R)
    (hchunks : chunks ≠ []) (hsum : chunks.sum = codes.length)
    (hcodes : ∀ c ∈ codes, -1 ≤ c ∧ c < (n : Int)) :
    simpleCombine c.R true (treeReduce (simpleCombine c.R true) se
        (blockStage c true chunks (codes.map fun (i : Int) => (some (i : Rat) : Key)) vals))
      = { groups := rangeKeys n,
          cols := c.R.combine.mapIdx fun j cmb =>
            (List.range n).map fun gi =>
              machineryVal cmb se ((segsOf chunks codes vals).map fun p =>
                blockVal (c.R.chunk.getD j .sum) (c.R.interFills.getD j Val.nan) (members (Int.ofNat gi) p.1 p.2)) } := by
  rw [blockStage_dense c n chunks codes vals heng hn harg hnoarg hz (by omega) hcodes]
  rw [machinery_inter c.R n se _ (by simpa using segsOf_ne_nil chunks codes vals hchunks)
    (by intro b hb; obtain ⟨p, _, rfl⟩ := List.mem_map.mp hb; rfl)]
  congr 1
  apply List.ext_getElem
  · simp
  · intro j hj1 _
    have hj : j < c.R.combine.length := by simpa using hj1
    simp only [List.getElem_mapIdx]
    apply List.map_congr_left
    intro gi hgi
    have hgi' : gi < n := List.mem_range.mp hgi
    congr 1
    rw [List.map_map]
    apply List.map_congr_left
    intro p _
    simp only [Function.comp]
    rw [slotOf_denseNode c.R n p j gi (by omega) hf hgi']
    simp [List.getD_eq_getElem?_getD, hc ▸ hj, (hf ▸ hc ▸ hj : j < c.R.interFills.length)]

/-- the value returned by `groupby_reduce` is `_finalize_results` (finalizer, count mask, reindex) applied to that
    intermediate: user aggregations go through the very same `runKnown` branch as the built-in ones -/
theorem userAggregation_runKnown (c : Call) (floatData : Bool) (chunks : List Nat) (keys : List Key) (vals : List Val)
    (h : useGroupedCombine c floatData = false) :
    runKnown c (.mapreduce true) floatData chunks keys vals
      = (match finalizeResults c.R
            (simpleCombine c.R true (treeReduce (simpleCombine c.R true) c.splitEvery
              (blockStage c true chunks keys vals))) (some (rangeKeys c.ngroups)) true with
          | .error e => .error e
          | .ok (gs, vs) => finalReindex c false gs vs) := by
  simp only [runKnown, h, Bool.false_eq_true, if_false]
  rfl

/-- `Flox.run` (built-in aggregations) is the table lookup followed by `runResolved`, the entry point of user
    aggregations: one model, one machinery -/
theorem run_eq_runResolved (rows : List InitRow) (rq : Request) (plan : Plan) (chunks : List Nat)
    (labels : List Key) (vals : List Val) :
    run rows rq plan chunks labels vals
      = (match findInit rows rq.func rq.dkind (fillKindOf (effective rq).2) ((effective rq).1 > 0) with
          | none => .unsupported "no-init-row"
          | some row =>
            if !row.ok then .err row.err else
            match row.resolve (effective rq).2 (effective rq).1 rq.ddof with
            | none => .unsupported "unresolved-row"
            | some R => runResolved R rq (effective rq).2 plan chunks labels vals) := by
  unfold run runResolved
  rfl

/-! ### with the column laws the tree collapses -/

/-- **Lawful user aggregations.**  If every column of `R` satisfies the decomposition law (e.g. it is a clone of a
    built-in column: `combine_parts`), the chunked result is the single-block result for every chunking and every
    `split_every`. -/
theorem userAggregation_lawful (c : Call) (n : Nat) (chunks : List Nat) (codes : List Int) (vals : List Val)
    (se : Nat) (sort : Bool) (heng : c.eng = .npg) (hn : c.ngroups = n) (harg : c.R.isArg = false)
    (hc : c.R.chunk.length = c.R.combine.length) (hf : c.R.chunk.length = c.R.interFills.length)
    (hlaw : ∀ j (hj : j < c.R.chunk.length),
      Law c.R.chunk[j] (c.R.combine[j]'(by omega)) (c.R.interFills[j]'(by omega)))
    (hnoarg : ∀ k ∈ c.R.chunk, isArgKernel k = false) (hz : LenFillsZero c.R)
    (hchunks : chunks ≠ []) (hsum : chunks.sum = codes.length) (hlen : codes.length = vals.length)
    (hcodes : ∀ c ∈ codes, -1 ≤ c ∧ c < (n : Int)) :
    simpleCombine c.R true (treeReduce (simpleCombine c.R true) se
        (blockStage c true chunks (codes.map fun (i : Int) => (some (i : Rat) : Key)) vals))
      = chunkReduce .npg c.R.chunk c.R.interFills (codes.map fun (i : Int) => (some (i : Rat) : Key)) vals
          (some n) sort :=
  mapreduce_dense_eq_single_block c.R c n chunks codes vals se sort rfl heng hn harg hc hf hlaw hnoarg hz hchunks
    hsum hlen hcodes

/-- the scalar form: under the law of a column, the tree fold of the per-block values is the block value of the
    concatenation, for every `split_every` (so `machineryVal` is what `combine_parts` is about) -/
theorem machineryVal_law (k c : Kernel) (f : Val) (hlaw : Law k c f) (se : Nat) (parts : List (List Val))
    (hne : parts ≠ []) :
    machineryVal c se (parts.map (blockVal k f)) = blockVal k f parts.flatten := by
  -- every round maps block values of parts to block values of merged parts
  have round : ∀ (l : List Nat) (ps : List (List Val)), ps ≠ [] →
      ∃ ps' : List (List Val), ps' ≠ [] ∧ ps'.flatten = ps.flatten ∧
        l.foldl (fun cur _ => (partitionAll (Nat.max se 2) cur).map (combineVal c)) (ps.map (blockVal k f))
          = ps'.map (blockVal k f) := by
    intro l
    induction l with
    | nil => intro ps hps; exact ⟨ps, hps, rfl, rfl⟩
    | cons _ l ih =>
      intro ps hps
      simp only [List.foldl_cons]
      have hstep : (partitionAll (Nat.max se 2) (ps.map (blockVal k f))).map (combineVal c)
          = ((partitionAll (Nat.max se 2) ps).map List.flatten).map (blockVal k f) := by
        rw [partitionAll_map, List.map_map, List.map_map]
        apply List.map_congr_left
        intro grp hgrp
        simp only [Function.comp]
        exact hlaw grp (partitionAll_mem_ne_nil _ ps grp hgrp)
      rw [hstep]
      obtain ⟨ps', h1, h2, h3⟩ := ih ((partitionAll (Nat.max se 2) ps).map List.flatten)
        (by simpa using partitionAll_ne_nil _ ps hps)
      refine ⟨ps', h1, ?_, h3⟩
      rw [h2, ← List.flatten_flatten, partitionAll_flatten]
  obtain ⟨ps', h1, h2, h3⟩ := round (List.range (ceilLog (Nat.max se 2) (parts.map (blockVal k f)).length - 1)) parts hne
  simp only [machineryVal, treeVals]
  rw [h3, hlaw ps' h1, h2]

end Flox
