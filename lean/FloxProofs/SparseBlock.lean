/-
  Block stage WITHOUT expected groups (`reindex=False`): `chunk_reduce(…, expected_groups=None)` on one block stores,
  for every key present in the block (the dropped code `-1` included), `blockVal k f` of that key's members.
-/
import FloxProofs.EndToEnd

namespace Flox

/-! ### sorted-unique / first-appearance-unique / index lookups -/

theorem mem_insertSorted (x y : Rat) (l : List Rat) : y ∈ insertSorted x l ↔ y = x ∨ y ∈ l := by
  induction l with
  | nil => simp [insertSorted]
  | cons z zs ih =>
    unfold insertSorted
    split
    · simp
    · split
      · rename_i h; subst h; simp
      · simp only [List.mem_cons, ih]
        constructor
        · rintro (h | h | h) <;> simp [h]
        · rintro (h | h | h) <;> simp [h]

theorem mem_uniqSorted (y : Rat) (l : List Rat) : y ∈ uniqSorted l ↔ y ∈ l := by
  induction l with
  | nil => simp [uniqSorted]
  | cons x xs ih =>
    have : uniqSorted (x :: xs) = insertSorted x (uniqSorted xs) := rfl
    rw [this, mem_insertSorted, ih]; simp

theorem pairwise_insertSorted (x : Rat) (l : List Rat) (h : l.Pairwise (· < ·)) :
    (insertSorted x l).Pairwise (· < ·) := by
  induction l with
  | nil => simp [insertSorted]
  | cons z zs ih =>
    unfold insertSorted
    have hz := List.pairwise_cons.mp h
    split
    · rename_i hxz
      refine List.pairwise_cons.mpr ⟨?_, h⟩
      intro a ha
      simp only [List.mem_cons] at ha
      rcases ha with rfl | ha
      · exact hxz
      · have := hz.1 a ha; grind
    · split
      · exact h
      · rename_i h1 h2
        refine List.pairwise_cons.mpr ⟨?_, ih hz.2⟩
        intro a ha
        rcases (mem_insertSorted x a zs).mp ha with rfl | ha
        · grind
        · exact hz.1 a ha

theorem pairwise_uniqSorted (l : List Rat) : (uniqSorted l).Pairwise (· < ·) := by
  induction l with
  | nil => simp [uniqSorted]
  | cons x xs ih => exact pairwise_insertSorted x _ ih

theorem nodup_uniqSorted (l : List Rat) : (uniqSorted l).Nodup := by
  have := pairwise_uniqSorted l
  exact this.imp (fun h e => by subst e; exact Rat.lt_irrefl h)

theorem uniqFirst_aux (xs acc : List Rat) (hacc : acc.Nodup) :
    (xs.foldl (fun acc x => if acc.contains x then acc else acc ++ [x]) acc).Nodup ∧
    ∀ y, y ∈ xs.foldl (fun acc x => if acc.contains x then acc else acc ++ [x]) acc ↔ y ∈ acc ∨ y ∈ xs := by
  induction xs generalizing acc with
  | nil => simp [hacc]
  | cons x xs ih =>
    simp only [List.foldl_cons]
    by_cases hx : acc.contains x = true
    · simp only [hx, if_true]
      obtain ⟨h1, h2⟩ := ih acc hacc
      refine ⟨h1, fun y => ?_⟩
      rw [h2 y]
      have : x ∈ acc := by simpa using hx
      constructor
      · rintro (h | h) <;> simp [h]
      · rintro (h | h)
        · exact Or.inl h
        · rcases List.mem_cons.mp h with rfl | h
          · exact Or.inl this
          · exact Or.inr h
    · simp only [hx, Bool.false_eq_true, if_false]
      have hx' : x ∉ acc := by simpa using hx
      have hnd : (acc ++ [x]).Nodup := by
        rw [List.nodup_append]
        refine ⟨hacc, by simp, ?_⟩
        intro a ha b hb
        have hb : b = x := by simpa using hb
        subst hb
        intro e; subst e; exact hx' ha
      obtain ⟨h1, h2⟩ := ih (acc ++ [x]) hnd
      refine ⟨h1, fun y => ?_⟩
      rw [h2 y]
      simp only [List.mem_append, List.mem_cons, List.mem_nil_iff, or_false]
      constructor
      · rintro ((h | h) | h) <;> simp [h]
      · rintro (h | h | h) <;> simp [h]

theorem nodup_uniqFirst (l : List Rat) : (uniqFirst l).Nodup := (uniqFirst_aux l [] (by simp)).1

theorem mem_uniqFirst (y : Rat) (l : List Rat) : y ∈ uniqFirst l ↔ y ∈ l := by
  have := (uniqFirst_aux l [] (by simp)).2 y
  simpa [uniqFirst] using this

/-- the `found` list of `factorizeKeys … none sort` -/
def foundOf (sort : Bool) (rs : List Rat) : List Rat := if sort then uniqSorted rs else uniqFirst rs

theorem mem_foundOf (sort : Bool) (y : Rat) (rs : List Rat) : y ∈ foundOf sort rs ↔ y ∈ rs := by
  unfold foundOf; split
  · exact mem_uniqSorted y rs
  · exact mem_uniqFirst y rs

theorem nodup_foundOf (sort : Bool) (rs : List Rat) : (foundOf sort rs).Nodup := by
  unfold foundOf; split
  · exact nodup_uniqSorted rs
  · exact nodup_uniqFirst rs

theorem indexOf?_eq_none_iff (r : Rat) (l : List Rat) : indexOf? r l = none ↔ r ∉ l := by
  induction l with
  | nil => simp [indexOf?]
  | cons y ys ih =>
    unfold indexOf?
    by_cases h : r = y
    · simp [h]
    · simp [h, ih]

theorem indexOf?_eq_some_iff (l : List Rat) (hnd : l.Nodup) (r : Rat) (i : Nat) (hi : i < l.length) :
    indexOf? r l = some i ↔ l[i] = r := by
  induction l generalizing i with
  | nil => simp at hi
  | cons y ys ih =>
    have hnd' := List.nodup_cons.mp hnd
    unfold indexOf?
    by_cases h : r = y
    · subst h
      cases i with
      | zero => simp
      | succ j =>
        simp only [if_true, List.getElem_cons_succ]
        constructor
        · intro e; simp at e
        · intro e
          exact absurd (e ▸ List.getElem_mem _) hnd'.1
    · cases i with
      | zero =>
        simp only [h, if_false, List.getElem_cons_zero]
        constructor
        · intro e
          cases hh : indexOf? r ys <;> simp [hh] at e
        · intro e; exact absurd e.symm h
      | succ j =>
        simp only [h, if_false, List.getElem_cons_succ]
        have hj : j < ys.length := by simpa using hi
        rw [← ih hnd'.2 j hj]
        cases hh : indexOf? r ys <;> simp

/-! ### members of a key -/

/-- members of the group with key `κ` (keys inside the pipeline are the integer codes, as rationals) -/
def keyMembers (κ : Key) (codes : List Int) (vals : List Val) : List Val :=
  match κ with
  | some r => if r.den = 1 then members r.num codes vals else []
  | none => []

@[simp] theorem keyMembers_none (codes : List Int) (vals : List Val) : keyMembers none codes vals = [] := rfl

@[simp] theorem keyMembers_code (c : Int) (codes : List Int) (vals : List Val) :
    keyMembers (some (c : Rat)) codes vals = members c codes vals := by
  simp [keyMembers]

theorem keyMembers_nat (g : Nat) (codes : List Int) (vals : List Val) :
    keyMembers (some ((g : Nat) : Rat)) codes vals = members (Int.ofNat g) codes vals := by
  have : ((g : Nat) : Rat) = (((g : Int)) : Rat) := (Rat.intCast_natCast g).symm
  rw [this, keyMembers_code]; rfl

theorem keyMembers_cat (κ : Key) (segs : Segs) (h : Aligned segs) :
    keyMembers κ (catC segs) (catV segs) = (segs.map fun p => keyMembers κ p.1 p.2).flatten := by
  cases κ with
  | none => simp [keyMembers]
  | some r =>
    by_cases hd : r.den = 1
    · simp only [keyMembers, hd, if_true]
      exact members_cat _ segs h
    · simp [keyMembers, hd]

theorem members_ne_nil_of_mem (g : Int) (codes : List Int) (vals : List Val)
    (hlen : codes.length ≤ vals.length) (hg : g ∈ codes) : members g codes vals ≠ [] := by
  induction codes generalizing vals with
  | nil => simp at hg
  | cons c cs ih =>
    cases vals with
    | nil => simp at hlen
    | cons v vs =>
      simp only [members_cons]
      by_cases e : c = g
      · simp [e]
      · simp only [e, if_false]
        apply ih vs (by simpa using hlen)
        rcases List.mem_cons.mp hg with h | h
        · exact absurd h.symm e
        · exact h

/-- two-target version of `members_map_codes` -/
theorem members_map_codes2 (g g' : Int) (f : Int → Int) (codes : List Int) (vals : List Val)
    (h : ∀ c ∈ codes, (f c = g' ↔ c = g)) :
    members g' (codes.map f) vals = members g codes vals := by
  induction codes generalizing vals with
  | nil => simp
  | cons c cs ih =>
    cases vals with
    | nil => simp
    | cons v vs =>
      have hc := h c (by simp)
      have ih' := ih vs (fun c' hc' => h c' (by simp [hc']))
      simp only [List.map_cons, members_cons, ih']
      by_cases e : c = g
      · rw [if_pos (hc.mpr e), if_pos e]
      · have : ¬ f c = g' := fun e' => e (hc.mp e')
        rw [if_neg this, if_neg e]

/-! ### "functional" columns: every column is `blockVal` of a member list attached to the slot -/

/-- intermediate columns over an arbitrary slot list `L`; slot `a` of column `(k, f)` holds `blockVal k f (m a)` -/
def fcols {α} (ks : List Kernel) (fills : List Val) (L : List α) (m : α → List Val) : List (List Val) :=
  (ks.zip fills).map fun p => L.map fun a => blockVal p.1 p.2 (m a)

theorem denseCols_eq_fcols (ks : List Kernel) (fills : List Val) (n : Nat) (codes : List Int) (vals : List Val) :
    denseCols ks fills n codes vals = fcols ks fills (List.range n) (fun g => members (Int.ofNat g) codes vals) := rfl

/-- the sparse intermediate of one segment: groups `G`, values by key -/
def spInter (ks : List Kernel) (fills : List Val) (G : List Key) (codes : List Int) (vals : List Val) : Inter :=
  { groups := G, cols := fcols ks fills G (fun κ => keyMembers κ codes vals) }

/-- groups of a block reduced without expected groups -/
def blockGroups (sort : Bool) (codes : List Int) : List Key :=
  if codes = [] then [none] else (foundOf sort (codes.map fun (c : Int) => (c : Rat))).map some

theorem presentKeys_codeKeys (codes : List Int) :
    presentKeys (codes.map fun (c : Int) => (some (c : Rat) : Key)) = codes.map fun (c : Int) => (c : Rat) := by
  simp [presentKeys, List.filterMap_map, Function.comp_def]

/-- the code `factorizeKeys … none` assigns to the key `some c` -/
def sparseCode (found : List Rat) (c : Int) : Int :=
  match indexOf? (c : Rat) found with
  | some i => (i : Int)
  | none => -1

theorem factorizeKeys_none (codes : List Int) (sort : Bool) :
    factorizeKeys (codes.map fun (c : Int) => (some (c : Rat) : Key)) none sort
      = (foundOf sort (codes.map fun (c : Int) => (c : Rat)),
         codes.map (sparseCode (foundOf sort (codes.map fun (c : Int) => (c : Rat))))) := by
  simp only [factorizeKeys, presentKeys_codeKeys, List.map_map]
  rfl

/-- `chunk_reduce` without expected groups is the sparse intermediate of the block -/
theorem chunkReduce_sparse (ks : List Kernel) (fills : List Val) (codes : List Int) (vals : List Val) (sort : Bool)
    (hnoarg : ∀ k ∈ ks, isArgKernel k = false)
    (hz : ∀ p ∈ ks.zip fills, (p.1 = .nanlen ∨ p.1 = .nansumsq) → p.2 = Val.zero) :
    chunkReduce .npg ks fills (codes.map fun (c : Int) => (some (c : Rat) : Key)) vals none sort
      = spInter ks fills (blockGroups sort codes) codes vals := by
  have hfound : ∀ c ∈ codes, ((c : Int) : Rat) ∈ foundOf sort (List.map (fun (c : Int) => (c : Rat)) codes) := by
    intro c hc
    rw [mem_foundOf]
    exact List.mem_map.mpr ⟨c, hc, rfl⟩
  simp only [chunkReduce, factorizeKeys_none]
  generalize hfd : foundOf sort (codes.map fun (c : Int) => (c : Rat)) = found at hfound
  have hnd : found.Nodup := hfd ▸ nodup_foundOf sort _
  have hsub : ∀ r ∈ found, ∃ c ∈ codes, r = ((c : Int) : Rat) := by
    intro r hr
    rw [← hfd, mem_foundOf] at hr
    obtain ⟨c, hc, rfl⟩ := List.mem_map.mp hr
    exact ⟨c, hc, rfl⟩
  have hφnn : ∀ c ∈ codes, sparseCode found c ≠ -1 := by
    intro c hc
    unfold sparseCode
    cases hi : indexOf? (c : Rat) found with
    | none => exact absurd (hfound c hc) ((indexOf?_eq_none_iff _ _).mp hi)
    | some i => simp only; omega
  have hempty : ((codes.map (sparseCode found)).all (· == -1)) = decide (codes = []) := by
    cases codes with
    | nil => rfl
    | cons c cs =>
      have := hφnn c (by simp)
      simp [this]
  simp only [hempty]
  by_cases hc : codes = []
  · subst hc
    simp [spInter, fcols, blockGroups, keyMembers, blockVal]
  · simp only [hc, decide_false, Bool.false_eq_true, if_false, spInter, blockGroups, hfd]
    congr 1
    unfold fcols
    apply List.map_congr_left
    intro p hp
    obtain ⟨k, fv⟩ := p
    have hka : isArgKernel k = false := hnoarg k (List.of_mem_zip hp).1
    simp only [engineCall, hka, Bool.false_eq_true, if_false, engGrouped]
    rw [npgGrouped_eq_blockVal_dn k fv _ vals _ hka (hz (k, fv) hp), ← List.map_take]
    have htake : (List.range (if ((codes.map (sparseCode found)).any (· == -1)) = true then found.length + 1
        else found.length)).take found.length = List.range found.length := by
      split <;> simp [List.take_range]
    rw [htake]
    apply List.ext_getElem
    · simp
    · intro g h1 h2
      have hg : g < found.length := by simpa using h1
      simp only [List.getElem_map, List.getElem_range]
      congr 1
      rw [members_bump g found.length hg]
      obtain ⟨c0, hc0, hr0⟩ := hsub found[g] (List.getElem_mem hg)
      rw [hr0, keyMembers_code]
      apply members_map_codes2
      intro c hc
      unfold sparseCode
      constructor
      · intro e
        cases hi : indexOf? (c : Rat) found with
        | none => rw [hi] at e; simp only [Int.ofNat_eq_natCast] at e; omega
        | some i =>
          rw [hi] at e
          simp only [Int.ofNat_eq_natCast, Int.natCast_inj] at e
          subst e
          have := (indexOf?_eq_some_iff found hnd (c : Rat) i hg).mp hi
          rw [hr0] at this
          exact (Rat.intCast_inj.mp this).symm
      · intro e
        subst e
        have : indexOf? ((c : Int) : Rat) found = some g :=
          (indexOf?_eq_some_iff found hnd _ g hg).mpr hr0
        rw [this]; rfl

end Flox
