/-
  G2, steps (2) and (3): ONE `_grouped_combine` step on arg-sparse nodes, and the TREE (any `split_every`).

    groupedCombine_argNodes   `_grouped_combine` (isArg branch: concatenation in block order, `chunk_argreduce` with
                              the combine kernels on (values, indices), the `avoid` shortcut when the concatenated length
                              is 1, the count column summed separately) of the arg-sparse nodes of segments
                              = the arg-sparse node of the concatenated segment (`mergeA`)
    tree_argNodes             `treeReduce` + final combine, any `split_every`
    blockStage_argNodes       the block stage = arg-sparse nodes of the blocks, with GLOBAL indices
    mapreduce_argNode         all together: for every chunking and every `split_every` the combined intermediate is
                              the arg-sparse node of the whole array (indices `0 … N-1`)
-/
import FloxProofs.ArgEngine

namespace Flox.Grp

/-! ### concatenation of arg segments -/

def catAK (segs : List ASeg) : List Key := (segs.map (·.keys)).flatten
def catAV (segs : List ASeg) : List Val := (segs.map (·.vals)).flatten
def catAI (segs : List ASeg) : List Val := (segs.map (·.idxs)).flatten

abbrev AlignedA (segs : List ASeg) : Prop := ∀ p ∈ segs, p.Aligned

@[simp] theorem catAK_nil : catAK [] = [] := rfl
@[simp] theorem catAV_nil : catAV [] = [] := rfl
@[simp] theorem catAI_nil : catAI [] = [] := rfl
@[simp] theorem catAK_cons (p : ASeg) (segs : List ASeg) : catAK (p :: segs) = p.keys ++ catAK segs := by simp [catAK]
@[simp] theorem catAV_cons (p : ASeg) (segs : List ASeg) : catAV (p :: segs) = p.vals ++ catAV segs := by simp [catAV]
@[simp] theorem catAI_cons (p : ASeg) (segs : List ASeg) : catAI (p :: segs) = p.idxs ++ catAI segs := by simp [catAI]

theorem AlignedA.tail {p : ASeg} {segs : List ASeg} (h : AlignedA (p :: segs)) : AlignedA segs :=
  fun q hq => h q (by simp [hq])

theorem catA_aligned (segs : List ASeg) (h : AlignedA segs) (j : Val) :
    (⟨catAK segs, catAV segs, catAI segs, j⟩ : ASeg).Aligned := by
  induction segs with
  | nil => exact ⟨rfl, rfl⟩
  | cons p segs ih =>
    have := ih h.tail
    have hp := h p (by simp)
    constructor
    · simp only [catAK_cons, catAV_cons, List.length_append, hp.1, this.1]
    · simp only [catAK_cons, catAI_cons, List.length_append, hp.2, this.2]

theorem membersK_catA (κ : Key) (segs : List ASeg) (h : AlignedA segs) :
    membersK κ (catAK segs) (catAV segs) = (segs.map fun p => membersK κ p.keys p.vals).flatten := by
  induction segs with
  | nil => simp
  | cons p segs ih =>
    simp only [catAK_cons, catAV_cons, List.map_cons, List.flatten_cons]
    rw [membersK_append κ _ _ _ _ (h p (by simp)).1, ih h.tail]

theorem pairs_catA (κ : Key) (segs : List ASeg) (h : AlignedA segs) (j : Val) :
    (⟨catAK segs, catAV segs, catAI segs, j⟩ : ASeg).pairs κ = (segs.map fun p => p.pairs κ).flatten := by
  induction segs with
  | nil => simp [ASeg.pairs]
  | cons p segs ih =>
    have hp := h p (by simp)
    have ih' := ih h.tail
    simp only [ASeg.pairs] at ih' ⊢
    simp only [catAK_cons, catAV_cons, catAI_cons, List.map_cons, List.flatten_cons]
    rw [membersK_append κ _ _ _ _ hp.1, membersK_append κ _ _ _ _ hp.2, List.zip_append, ih']
    rw [membersK_length κ _ _ (by rw [hp.1]; exact Nat.le_refl _),
      membersK_length κ _ _ (by rw [hp.2]; exact Nat.le_refl _)]

theorem mem_catAK {κ : Key} {segs : List ASeg} : κ ∈ catAK segs ↔ ∃ p ∈ segs, κ ∈ p.keys := by
  simp only [catAK, List.mem_flatten, List.mem_map]
  constructor
  · rintro ⟨l, ⟨p, hp, rfl⟩, hk⟩; exact ⟨p, hp, hk⟩
  · rintro ⟨p, hp, hk⟩; exact ⟨p.keys, ⟨p, hp, rfl⟩, hk⟩

/-! ### columns of an arg-sparse node -/

theorem argNode_groups (k : Kernel) (cnt sort : Bool) (s : ASeg) :
    (argNode k cnt sort s).groups
      = if presentKeys s.keys = [] then [none] else (foundOf sort s.keys).map some := by
  unfold argNode; split <;> rfl

theorem colAt_argNode0 (k : Kernel) (cnt sort : Bool) (s : ASeg) :
    colAt (argNode k cnt sort s) 0
      = if presentKeys s.keys = [] then [argFillN k]
        else (foundOf sort s.keys).map fun r => (blockPairN k s.junk (s.pairs (some r))).1 := by
  unfold argNode; split <;> simp [colAt]

theorem colAt_argNode1 (k : Kernel) (cnt sort : Bool) (s : ASeg) :
    colAt (argNode k cnt sort s) 1
      = if presentKeys s.keys = [] then [Val.zero]
        else (foundOf sort s.keys).map fun r => (blockPairN k s.junk (s.pairs (some r))).2 := by
  unfold argNode; split <;> simp [colAt]

theorem colAt_argNode2 (k : Kernel) (sort : Bool) (s : ASeg) :
    colAt (argNode k true sort s) 2
      = if presentKeys s.keys = [] then [Val.zero]
        else (foundOf sort s.keys).map fun r => countVal (membersK (some r) s.keys s.vals) := by
  unfold argNode; split <;> simp [colAt]

theorem argNode_cols (k : Kernel) (cnt sort : Bool) (s : ASeg) :
    (argNode k cnt sort s).cols
      = [colAt (argNode k cnt sort s) 0, colAt (argNode k cnt sort s) 1]
          ++ (if cnt then [colAt (argNode k cnt sort s) 2] else []) := by
  unfold argNode
  split <;> cases cnt <;> simp [colAt]

/-- the entries a node contributes to label `r` in a concatenated column -/
theorem membersK_node_col (sort : Bool) (keys : List Key) (r : Rat) (d : Val) (slot : Rat → Val) :
    membersK (some r) (if presentKeys keys = [] then [none] else (foundOf sort keys).map some)
        (if presentKeys keys = [] then [d] else (foundOf sort keys).map slot)
      = if r ∈ foundOf sort keys then [slot r] else [] := by
  by_cases hp : presentKeys keys = []
  · have : foundOf sort keys = [] := (presentKeys_nil_iff_foundOf sort keys).mp hp
    simp [hp, this]
  · simp only [hp, if_false]
    exact membersK_map_some r _ _ (nodup_foundOf sort keys)

/-- a concatenated column of nodes, restricted to label `r`: one entry per segment in which the label occurs -/
theorem membersK_nodes (sort : Bool) (segs : List ASeg) (node : ASeg → Inter) (j : Nat) (d : Val)
    (slot : ASeg → Rat → Val) (r : Rat)
    (hg : ∀ p, (node p).groups = if presentKeys p.keys = [] then [none] else (foundOf sort p.keys).map some)
    (hc : ∀ p, colAt (node p) j = if presentKeys p.keys = [] then [d] else (foundOf sort p.keys).map (slot p)) :
    membersK (some r) ((segs.map node).flatMap (·.groups)) ((segs.map node).flatMap (colAt · j))
      = (segs.filter fun p => decide (r ∈ foundOf sort p.keys)).map fun p => slot p r := by
  rw [membersK_flatMap _ _ _ (by
    intro x hx
    obtain ⟨p, _, rfl⟩ := List.mem_map.mp hx
    rw [hg, hc]; split <;> simp)]
  rw [List.flatMap_map]
  have hnode : ∀ p : ASeg, membersK (some r) (node p).groups (colAt (node p) j)
      = if r ∈ foundOf sort p.keys then [slot p r] else [] := by
    intro p; rw [hg, hc]; exact membersK_node_col sort p.keys r d (slot p)
  simp only [hnode]
  exact flatMap_ite_singleton segs (fun p => r ∈ foundOf sort p.keys) (fun p => slot p r)

theorem nodes_col_length (sort : Bool) (segs : List ASeg) (node : ASeg → Inter) (j : Nat) (d : Val)
    (slot : ASeg → Rat → Val)
    (hg : ∀ p, (node p).groups = if presentKeys p.keys = [] then [none] else (foundOf sort p.keys).map some)
    (hc : ∀ p, colAt (node p) j = if presentKeys p.keys = [] then [d] else (foundOf sort p.keys).map (slot p)) :
    ((segs.map node).flatMap (·.groups)).length = ((segs.map node).flatMap (colAt · j)).length := by
  induction segs with
  | nil => rfl
  | cons p segs ih =>
    simp only [List.map_cons, List.flatMap_cons, List.length_append, ih]
    congr 1
    rw [hg, hc]; split <;> simp

/-! ### the blueprint of a (repaired) arg-reduction -/

/-- `R` is the resolved blueprint of the arg-reduction `k` on float data, as `_initialize_aggregation` produces it
    after the repair (rows `argmax` / `argmin` / `nanargmax` / `nanargmin` × `f8` / `f4` of the generated table);
    with `min_count > 0` the count column (`nanlen` / `sum` / fill 0) is appended -/
structure ArgFits (k : Kernel) (R : Resolved) : Prop where
  hk : isArgKernel k = true
  isArg : R.isArg = true
  chunk : R.chunk = [argChunkVal k, k] ++ cntSuffix R Kernel.nanlen
  combine : R.combine = [argChunkVal k, k] ++ cntSuffix R Kernel.sum
  interFills : R.interFills = [argFillN k, Val.zero] ++ cntSuffix R Val.zero
  fin : R.finalize = "second"

instance (k : Kernel) (R : Resolved) : Decidable (ArgFits k R) :=
  decidable_of_iff (isArgKernel k = true ∧ R.isArg = true ∧ R.chunk = [argChunkVal k, k] ++ cntSuffix R Kernel.nanlen
      ∧ R.combine = [argChunkVal k, k] ++ cntSuffix R Kernel.sum
      ∧ R.interFills = [argFillN k, Val.zero] ++ cntSuffix R Val.zero ∧ R.finalize = "second")
    ⟨fun ⟨a, b, c, d, e, f⟩ => ⟨a, b, c, d, e, f⟩, fun ⟨a, b, c, d, e, f⟩ => ⟨a, b, c, d, e, f⟩⟩

/-- the arg-sparse node of a segment under the blueprint `R` -/
abbrev aNode (k : Kernel) (R : Resolved) (sort : Bool) : ASeg → Inter :=
  argNode k (decide (R.minCount > 0)) sort

/-- the segment a group of segments is combined into; only its `junk` index is not a plain concatenation: it is
    whatever `_grouped_combine` stores for a label without valid member (never used for a label that has one) -/
def mergeA (k : Kernel) (R : Resolved) (sort : Bool) (segs : List ASeg) : ASeg :=
  { keys := catAK segs, vals := catAV segs, idxs := catAI segs,
    junk := if ((segs.map (aNode k R sort)).flatMap (colAt · 0)).length = 1 then (segs.headD default).junk
            else ((segs.map (aNode k R sort)).flatMap (colAt · 1)).getD 0 Val.nan }

theorem isArgKernel_ne_nanlen {k : Kernel} (hk : isArgKernel k = true) : k ≠ Kernel.nanlen := by
  intro e; subst e; simp [isArgKernel] at hk

/-- `_grouped_combine` for an arg blueprint without count column -/
theorem groupedCombine_arg_nocnt {k : Kernel} {R : Resolved} (hf : ArgFits k R) (hm : ¬ R.minCount > 0) (sort : Bool)
    (xs : List Inter) :
    groupedCombine R .npg sort xs
      = if (xs.flatMap (colAt · 0)).length = 1 then
          { groups := xs.flatMap (·.groups), cols := [xs.flatMap (colAt · 0), xs.flatMap (colAt · 1)] }
        else chunkArgreduce .npg [argChunkVal k, k] [argFillN k, Val.zero] (xs.flatMap (·.groups))
          (xs.flatMap (colAt · 0)) (xs.flatMap (colAt · 1)) sort := by
  have hkn := isArgKernel_ne_nanlen hf.hk
  unfold groupedCombine
  simp only [hf.isArg, hf.chunk, hf.combine, hf.interFills, cntSuffix, hm, if_true, if_false, List.append_nil]
  have : ¬ ([argChunkVal k, k].getLast? = some Kernel.nanlen) := by simp [hkn]
  simp only [this, if_false]

/-- `_grouped_combine` for an arg blueprint with count column -/
theorem groupedCombine_arg_cnt {k : Kernel} {R : Resolved} (hf : ArgFits k R) (hm : R.minCount > 0) (sort : Bool)
    (xs : List Inter) :
    groupedCombine R .npg sort xs
      = if (xs.flatMap (colAt · 0)).length = 1 then
          { groups := xs.flatMap (·.groups),
            cols := [xs.flatMap (colAt · 0), xs.flatMap (colAt · 1)] ++ [xs.flatMap (colAt · 2)] }
        else
          { groups := (chunkArgreduce .npg [argChunkVal k, k] [argFillN k, Val.zero] (xs.flatMap (·.groups))
                (xs.flatMap (colAt · 0)) (xs.flatMap (colAt · 1)) sort).groups,
            cols := (chunkArgreduce .npg [argChunkVal k, k] [argFillN k, Val.zero] (xs.flatMap (·.groups))
                (xs.flatMap (colAt · 0)) (xs.flatMap (colAt · 1)) sort).cols
              ++ [colAt (chunkReduce .npg [Kernel.sum] [Val.zero] (xs.flatMap (·.groups)) (xs.flatMap (colAt · 2))
                    none sort) 0] } := by
  unfold groupedCombine
  simp only [hf.isArg, hf.chunk, hf.combine, hf.interFills, cntSuffix, hm, if_true]
  have : ([argChunkVal k, k] ++ [Kernel.nanlen]).getLast? = some Kernel.nanlen := by simp
  simp only [this, if_true]
  have h1 : ([argChunkVal k, k] ++ [Kernel.sum]).dropLast = [argChunkVal k, k] := by simp
  have h2 : ([argFillN k, Val.zero] ++ [Val.zero]).dropLast = [argFillN k, Val.zero] := by simp
  simp only [h1, h2]
  split <;> rfl

/-! ### one combine step -/

section Combine

variable {k : Kernel} {R : Resolved}

theorem aNode_groups (k : Kernel) (R : Resolved) (sort : Bool) (p : ASeg) :
    (aNode k R sort p).groups = if presentKeys p.keys = [] then [none] else (foundOf sort p.keys).map some :=
  argNode_groups _ _ _ _

theorem presentKeys_aNodes (k : Kernel) (R : Resolved) (sort : Bool) (segs : List ASeg) :
    presentKeys ((segs.map (aNode k R sort)).flatMap (·.groups)) = segs.flatMap fun p => foundOf sort p.keys := by
  induction segs with
  | nil => rfl
  | cons p segs ih =>
    simp only [List.map_cons, List.flatMap_cons, presentKeys_append, ih]
    congr 1
    rw [aNode_groups]
    split
    · rename_i h; rw [foundOf, h, uniqOf_nil]; rfl
    · exact presentKeys_map_some _

theorem foundOf_aNodes (k : Kernel) (R : Resolved) (sort : Bool) (segs : List ASeg) :
    foundOf sort ((segs.map (aNode k R sort)).flatMap (·.groups)) = foundOf sort (catAK segs) := by
  have h := foundOf_nodes sort (segs.map fun p => (p.keys, p.vals))
    ((segs.map (aNode k R sort)).flatMap (·.groups))
    (by rw [presentKeys_aNodes, List.flatMap_map])
  rw [h]
  congr 1
  simp [catKK, catAK, List.map_map, Function.comp_def]

theorem mem_foundOf_catAK {sort : Bool} {r : Rat} {segs : List ASeg} :
    r ∈ foundOf sort (catAK segs) ↔ ∃ p ∈ segs, r ∈ foundOf sort p.keys := by
  rw [mem_foundOf, mem_catAK]
  constructor
  · rintro ⟨p, hp, h⟩; exact ⟨p, hp, (mem_foundOf sort r p.keys).mpr h⟩
  · rintro ⟨p, hp, h⟩; exact ⟨p, hp, (mem_foundOf sort r p.keys).mp h⟩

/-- the (value, index) pairs of label `r` in the concatenated columns of the nodes: one pair per segment in which the
    label occurs – that segment's `blockPairN` -/
theorem pairs_aNodes (k : Kernel) (R : Resolved) (sort : Bool) (segs : List ASeg) (r : Rat) (j : Val) :
    (⟨(segs.map (aNode k R sort)).flatMap (·.groups), (segs.map (aNode k R sort)).flatMap (colAt · 0),
        (segs.map (aNode k R sort)).flatMap (colAt · 1), j⟩ : ASeg).pairs (some r)
      = (segs.filter fun p => decide (r ∈ foundOf sort p.keys)).map
          fun p => blockPairN k p.junk (p.pairs (some r)) := by
  unfold ASeg.pairs
  simp only
  rw [membersK_nodes sort segs (aNode k R sort) 0 (argFillN k)
      (fun p r => (blockPairN k p.junk (p.pairs (some r))).1) r (aNode_groups k R sort)
      (fun p => colAt_argNode0 _ _ _ _),
    membersK_nodes sort segs (aNode k R sort) 1 Val.zero
      (fun p r => (blockPairN k p.junk (p.pairs (some r))).2) r (aNode_groups k R sort)
      (fun p => colAt_argNode1 _ _ _ _),
    List.zip_map']
  rfl

/-- **both columns of label `r` after one combine step** (the pair law seen through the nodes) -/
theorem slot_pair (hk : isArgKernel k = true) (R : Resolved) (sort : Bool) (segs : List ASeg) (hal : AlignedA segs)
    (r : Rat) (hr : r ∈ foundOf sort (catAK segs)) (j j' j'' : Val) :
    blockPairN k j ((⟨(segs.map (aNode k R sort)).flatMap (·.groups), (segs.map (aNode k R sort)).flatMap (colAt · 0),
        (segs.map (aNode k R sort)).flatMap (colAt · 1), j'⟩ : ASeg).pairs (some r))
      = blockPairN k j ((⟨catAK segs, catAV segs, catAI segs, j''⟩ : ASeg).pairs (some r)) := by
  rw [pairs_aNodes, pairs_catA _ _ hal]
  rw [pairLawN_indexed (β := ASeg) k hk _ (fun p => p.pairs (some r)) (fun p => p.junk) j]
  · congr 1
    apply flatten_map_filter segs _ (fun p => p.pairs (some r))
    intro p _ hq
    apply ASeg.pairs_eq_nil
    intro hmem
    have : r ∈ foundOf sort p.keys := (mem_foundOf sort r p.keys).mpr hmem
    simp [this] at hq
  · obtain ⟨p, hp, hrp⟩ := mem_foundOf_catAK.mp hr
    have : p ∈ segs.filter fun p => decide (r ∈ foundOf sort p.keys) := by
      simp only [List.mem_filter, decide_eq_true_eq]; exact ⟨hp, hrp⟩
    intro h; rw [h] at this; simp at this
  · intro p hp
    simp only [List.mem_filter, decide_eq_true_eq] at hp
    exact p.pairs_ne_nil (hal p hp.1) _ ((mem_foundOf sort r p.keys).mp hp.2)

/-- the count column of label `r` after one combine step -/
theorem slot_count (k : Kernel) (R : Resolved) (hm : R.minCount > 0) (sort : Bool) (segs : List ASeg)
    (hal : AlignedA segs) (r : Rat) (hr : r ∈ foundOf sort (catAK segs)) :
    blockVal .sum Val.zero (membersK (some r) ((segs.map (aNode k R sort)).flatMap (·.groups))
        ((segs.map (aNode k R sort)).flatMap (colAt · 2)))
      = countVal (membersK (some r) (catAK segs) (catAV segs)) := by
  have hc : ∀ p : ASeg, colAt (aNode k R sort p) 2 = if presentKeys p.keys = [] then [Val.zero]
      else (foundOf sort p.keys).map fun r => countVal (membersK (some r) p.keys p.vals) := by
    intro p
    have : aNode k R sort p = argNode k true sort p := by simp [aNode, hm]
    rw [this]; exact colAt_argNode2 _ _ _
  rw [membersK_nodes sort segs (aNode k R sort) 2 Val.zero
    (fun p r => countVal (membersK (some r) p.keys p.vals)) r (aNode_groups k R sort) hc]
  have hmap : ((segs.filter fun p => decide (r ∈ foundOf sort p.keys)).map
        fun p => countVal (membersK (some r) p.keys p.vals))
      = (((segs.filter fun p => decide (r ∈ foundOf sort p.keys)).map fun p => membersK (some r) p.keys p.vals).map
          (blockVal .nanlen Val.zero)) := by
    rw [List.map_map]; rfl
  rw [hmap, GLaw_floatColumns .nanlen .sum Val.zero (by simp [floatColumns])]
  · rw [flatten_map_filter, membersK_catA _ segs hal]
    · rfl
    · intro p _ hq
      apply membersK_eq_nil_of_not_mem
      intro hmem
      have : r ∈ foundOf sort p.keys := (mem_foundOf sort r p.keys).mpr hmem
      simp [this] at hq
  · obtain ⟨p, hp, hrp⟩ := mem_foundOf_catAK.mp hr
    have : p ∈ segs.filter fun p => decide (r ∈ foundOf sort p.keys) := by
      simp only [List.mem_filter, decide_eq_true_eq]; exact ⟨hp, hrp⟩
    intro h
    simp only [List.map_eq_nil_iff] at h
    rw [h] at this; simp at this
  · intro q hq
    obtain ⟨p, hp, rfl⟩ := List.mem_map.mp hq
    simp only [List.mem_filter, decide_eq_true_eq] at hp
    exact ⟨membersK_ne_nil_of_mem _ _ _ ((mem_foundOf sort r p.keys).mp hp.2)
      (by rw [(hal p hp.1).1]; exact Nat.le_refl _), fun _ _ => trivial⟩

theorem argNode_true_eq (k : Kernel) (sort : Bool) (s : ASeg) :
    argNode k true sort s
      = { groups := (argNode k false sort s).groups,
          cols := (argNode k false sort s).cols
            ++ [if presentKeys s.keys = [] then [Val.zero]
                else (foundOf sort s.keys).map fun r => countVal (membersK (some r) s.keys s.vals)] } := by
  unfold argNode; split <;> simp

theorem presentKeys_aNodes_nil_iff (k : Kernel) (R : Resolved) (sort : Bool) (segs : List ASeg) :
    presentKeys ((segs.map (aNode k R sort)).flatMap (·.groups)) = [] ↔ presentKeys (catAK segs) = [] := by
  rw [presentKeys_nil_iff_foundOf sort, presentKeys_nil_iff_foundOf sort, foundOf_aNodes]

/-- the value and index columns after re-running the chunk kernels over the concatenated nodes -/
theorem argNode_raw_eq (hk : isArgKernel k = true) (R : Resolved) (sort : Bool) (segs : List ASeg)
    (hal : AlignedA segs) (j : Val) :
    argNode k false sort ⟨(segs.map (aNode k R sort)).flatMap (·.groups),
        (segs.map (aNode k R sort)).flatMap (colAt · 0), (segs.map (aNode k R sort)).flatMap (colAt · 1), j⟩
      = argNode k false sort ⟨catAK segs, catAV segs, catAI segs, j⟩ := by
  have e1 : (foundOf sort (catAK segs)).map (fun r => (blockPairN k j
        ((⟨(segs.map (aNode k R sort)).flatMap (·.groups), (segs.map (aNode k R sort)).flatMap (colAt · 0),
          (segs.map (aNode k R sort)).flatMap (colAt · 1), j⟩ : ASeg).pairs (some r))).1)
      = (foundOf sort (catAK segs)).map (fun r => (blockPairN k j
        ((⟨catAK segs, catAV segs, catAI segs, j⟩ : ASeg).pairs (some r))).1) :=
    List.map_congr_left (fun r hr => congrArg Prod.fst (slot_pair hk R sort segs hal r hr j j j))
  have e2 : (foundOf sort (catAK segs)).map (fun r => (blockPairN k j
        ((⟨(segs.map (aNode k R sort)).flatMap (·.groups), (segs.map (aNode k R sort)).flatMap (colAt · 0),
          (segs.map (aNode k R sort)).flatMap (colAt · 1), j⟩ : ASeg).pairs (some r))).2)
      = (foundOf sort (catAK segs)).map (fun r => (blockPairN k j
        ((⟨catAK segs, catAV segs, catAI segs, j⟩ : ASeg).pairs (some r))).2) :=
    List.map_congr_left (fun r hr => congrArg Prod.snd (slot_pair hk R sort segs hal r hr j j j))
  unfold argNode
  simp only
  by_cases hK : presentKeys (catAK segs) = []
  · have hG := (presentKeys_aNodes_nil_iff k R sort segs).mpr hK
    simp only [hK, hG, if_true]
  · have hG : ¬ presentKeys ((segs.map (aNode k R sort)).flatMap (·.groups)) = [] :=
      fun h => hK ((presentKeys_aNodes_nil_iff k R sort segs).mp h)
    simp only [hK, hG, if_false, foundOf_aNodes, e1, e2, Bool.false_eq_true]

theorem colAt0_aNode_pos (k : Kernel) (R : Resolved) (sort : Bool) (p : ASeg) :
    0 < (colAt (aNode k R sort p) 0).length := by
  rw [colAt_argNode0]
  split
  · simp
  · rename_i h
    have hf : foundOf sort p.keys ≠ [] := fun e => h ((presentKeys_nil_iff_foundOf sort p.keys).mpr e)
    simpa using List.length_pos_iff.mpr hf

/-- **one `_grouped_combine` step**: the combine of the arg-sparse nodes of a non-empty list of aligned segments is
    the arg-sparse node of the concatenated segment -/
theorem groupedCombine_argNodes (hf : ArgFits k R) (sort : Bool) (segs : List ASeg) (hne : segs ≠ [])
    (hal : AlignedA segs) :
    groupedCombine R .npg sort (segs.map (aNode k R sort)) = aNode k R sort (mergeA k R sort segs) := by
  by_cases havoid : ((segs.map (aNode k R sort)).flatMap (colAt · 0)).length = 1
  · -- the `avoid` shortcut: a single node with a single group, returned as it is
    obtain ⟨p, rfl⟩ : ∃ p, segs = [p] := by
      cases segs with
      | nil => exact absurd rfl hne
      | cons p rest =>
        cases rest with
        | nil => exact ⟨p, rfl⟩
        | cons q rest =>
          exfalso
          simp only [List.map_cons, List.flatMap_cons, List.length_append] at havoid
          have h1 := colAt0_aNode_pos k R sort p
          have h2 := colAt0_aNode_pos k R sort q
          omega
    have hmerge : mergeA k R sort [p] = p := by
      unfold mergeA
      rw [if_pos havoid]
      cases p
      simp
    rw [hmerge]
    have hcols := argNode_cols k (decide (R.minCount > 0)) sort p
    by_cases hm : R.minCount > 0
    · rw [groupedCombine_arg_cnt hf hm, if_pos havoid]
      simp only [List.map_cons, List.map_nil, List.flatMap_cons, List.flatMap_nil, List.append_nil]
      simp only [hm, decide_true, if_true] at hcols
      have : aNode k R sort p = argNode k true sort p := by simp [aNode, hm]
      rw [this, ← hcols]
    · rw [groupedCombine_arg_nocnt hf hm, if_pos havoid]
      simp only [List.map_cons, List.map_nil, List.flatMap_cons, List.flatMap_nil, List.append_nil]
      simp only [hm, decide_false, Bool.false_eq_true, if_false, List.append_nil] at hcols
      have : aNode k R sort p = argNode k false sort p := by simp [aNode, hm]
      rw [this, ← hcols]
  · -- `chunk_argreduce` with the combine kernels over the concatenated (values, indices)
    have hlenv := nodes_col_length sort segs (aNode k R sort) 0 (argFillN k)
      (fun p r => (blockPairN k p.junk (p.pairs (some r))).1) (aNode_groups k R sort) (fun p => colAt_argNode0 _ _ _ _)
    have hleni := nodes_col_length sort segs (aNode k R sort) 1 Val.zero
      (fun p r => (blockPairN k p.junk (p.pairs (some r))).2) (aNode_groups k R sort) (fun p => colAt_argNode1 _ _ _ _)
    have hbase := chunkArgreduce_node k hf.hk false _ _ _ sort hlenv hleni
    have hbase' : chunkArgreduce .npg [argChunkVal k, k] [argFillN k, Val.zero]
        ((segs.map (aNode k R sort)).flatMap (·.groups)) ((segs.map (aNode k R sort)).flatMap (colAt · 0))
        ((segs.map (aNode k R sort)).flatMap (colAt · 1)) sort
        = argNode k false sort ⟨catAK segs, catAV segs, catAI segs,
            ((segs.map (aNode k R sort)).flatMap (colAt · 1)).getD 0 Val.nan⟩ := by
      rw [← argNode_raw_eq hf.hk R sort segs hal]
      exact hbase
    have hmerge : mergeA k R sort segs = ⟨catAK segs, catAV segs, catAI segs,
        ((segs.map (aNode k R sort)).flatMap (colAt · 1)).getD 0 Val.nan⟩ := by
      unfold mergeA; rw [if_neg havoid]
    rw [hmerge]
    by_cases hm : R.minCount > 0
    · rw [groupedCombine_arg_cnt hf hm, if_neg havoid, hbase']
      have : aNode k R sort = argNode k true sort := by funext p; simp [aNode, hm]
      rw [this, argNode_true_eq]
      congr 2
      rw [← this]
      -- the count column
      rw [chunkReduce_sparse [Kernel.sum] [Val.zero] _ _ sort (by simp [isArgKernel]) (by simp),
        colAt_sparseInter _ _ _ _ _ 0 (by simp) (by simp)]
      by_cases hK : presentKeys (catAK segs) = []
      · have hG := (presentKeys_aNodes_nil_iff k R sort segs).mpr hK
        simp [hK, hG]
      · have hG : ¬ presentKeys ((segs.map (aNode k R sort)).flatMap (·.groups)) = [] :=
          fun h => hK ((presentKeys_aNodes_nil_iff k R sort segs).mp h)
        simp only [hK, hG, if_false, foundOf_aNodes, List.getElem_cons_zero]
        congr 1
        apply List.map_congr_left
        intro r hr
        exact slot_count k R hm sort segs hal r hr
    · rw [groupedCombine_arg_nocnt hf hm, if_neg havoid, hbase']
      have : aNode k R sort = argNode k false sort := by funext p; simp [aNode, hm]
      rw [this]

end Combine

/-! ### the tree -/

section Tree

variable {k : Kernel} {R : Resolved}

theorem mergeA_aligned (k : Kernel) (R : Resolved) (sort : Bool) (segs : List ASeg) (hal : AlignedA segs) :
    (mergeA k R sort segs).Aligned := catA_aligned segs hal _

theorem catAK_append (a b : List ASeg) : catAK (a ++ b) = catAK a ++ catAK b := by simp [catAK]
theorem catAV_append (a b : List ASeg) : catAV (a ++ b) = catAV a ++ catAV b := by simp [catAV]
theorem catAI_append (a b : List ASeg) : catAI (a ++ b) = catAI a ++ catAI b := by simp [catAI]

theorem catAK_map_merge (k : Kernel) (R : Resolved) (sort : Bool) (L : List (List ASeg)) :
    catAK (L.map (mergeA k R sort)) = catAK L.flatten := by
  induction L with
  | nil => rfl
  | cons g L ih => simp only [List.map_cons, catAK_cons, List.flatten_cons, catAK_append, ih]; rfl

theorem catAV_map_merge (k : Kernel) (R : Resolved) (sort : Bool) (L : List (List ASeg)) :
    catAV (L.map (mergeA k R sort)) = catAV L.flatten := by
  induction L with
  | nil => rfl
  | cons g L ih => simp only [List.map_cons, catAV_cons, List.flatten_cons, catAV_append, ih]; rfl

theorem catAI_map_merge (k : Kernel) (R : Resolved) (sort : Bool) (L : List (List ASeg)) :
    catAI (L.map (mergeA k R sort)) = catAI L.flatten := by
  induction L with
  | nil => rfl
  | cons g L ih => simp only [List.map_cons, catAI_cons, List.flatten_cons, catAI_append, ih]; rfl

theorem round_argNodes (hf : ArgFits k R) (sort : Bool) (n : Nat) (segs : List ASeg) (hal : AlignedA segs) :
    (partitionAll n (segs.map (aNode k R sort))).map (groupedCombine R .npg sort)
      = ((partitionAll n segs).map (mergeA k R sort)).map (aNode k R sort) := by
  rw [partitionAll_map, List.map_map, List.map_map]
  apply List.map_congr_left
  intro grp hgrp
  simp only [Function.comp]
  exact groupedCombine_argNodes hf sort grp (partitionAll_mem_ne_nil n segs grp hgrp)
    (fun p hp => hal p (partitionAll_mem_sub n segs grp hgrp p hp))

theorem rounds_argNodes (hf : ArgFits k R) (sort : Bool) (n : Nat) (l : List Nat) (segs : List ASeg)
    (hne : segs ≠ []) (hal : AlignedA segs) :
    ∃ segs' : List ASeg, segs' ≠ [] ∧ AlignedA segs' ∧ catAK segs' = catAK segs ∧ catAV segs' = catAV segs ∧
      catAI segs' = catAI segs ∧
      l.foldl (fun cur _ => (partitionAll n cur).map (groupedCombine R .npg sort)) (segs.map (aNode k R sort))
        = segs'.map (aNode k R sort) := by
  induction l generalizing segs with
  | nil => exact ⟨segs, hne, hal, rfl, rfl, rfl, rfl⟩
  | cons _ l ih =>
    simp only [List.foldl_cons]
    rw [round_argNodes hf sort n segs hal]
    obtain ⟨segs', h1, h2, h3, h4, h5, h6⟩ :=
      ih ((partitionAll n segs).map (mergeA k R sort))
        (by simpa using partitionAll_ne_nil n segs hne)
        (by
          intro p hp
          obtain ⟨grp, hgrp, rfl⟩ := List.mem_map.mp hp
          exact mergeA_aligned k R sort grp (fun q hq => hal q (partitionAll_mem_sub n segs grp hgrp q hq)))
    refine ⟨segs', h1, h2, ?_, ?_, ?_, h6⟩
    · rw [h3, catAK_map_merge, partitionAll_flatten]
    · rw [h4, catAV_map_merge, partitionAll_flatten]
    · rw [h5, catAI_map_merge, partitionAll_flatten]

/-- **the tree** (`treeReduce` with `_grouped_combine`, then the final combine; any `split_every`): the result is the
    arg-sparse node of the concatenation of all segments (for some junk index) -/
theorem tree_argNodes (hf : ArgFits k R) (sort : Bool) (se : Nat) (segs : List ASeg) (hne : segs ≠ [])
    (hal : AlignedA segs) :
    ∃ j : Val, groupedCombine R .npg sort (treeReduce (groupedCombine R .npg sort) se (segs.map (aNode k R sort)))
      = aNode k R sort ⟨catAK segs, catAV segs, catAI segs, j⟩ := by
  unfold treeReduce
  obtain ⟨segs', h1, h2, h3, h4, h5, h6⟩ := rounds_argNodes hf sort (Nat.max se 2)
    (List.range (ceilLog (Nat.max se 2) (segs.map (aNode k R sort)).length - 1)) segs hne hal
  simp only [h6]
  rw [groupedCombine_argNodes hf sort segs' h1 h2]
  refine ⟨(mergeA k R sort segs').junk, ?_⟩
  congr 1
  unfold mergeA
  simp only [h3, h4, h5]

end Tree

/-! ### the block stage -/

/-- the running offsets of the blocks -/
def offsFrom : Nat → List Nat → List Nat
  | _, [] => []
  | s, c :: cs => s :: offsFrom (s + c) cs

theorem offsets_eq (chunks : List Nat) : offsets chunks = offsFrom 0 chunks := by
  have gen : ∀ (cs : List Nat) (acc : List Nat) (s : Nat),
      (cs.foldl (fun (acc : List Nat × Nat) c => (acc.1 ++ [acc.2], acc.2 + c)) (acc, s)).1
        = acc ++ offsFrom s cs := by
    intro cs
    induction cs with
    | nil => intro acc s; simp [offsFrom]
    | cons c cs ih => intro acc s; simp only [List.foldl_cons, ih, offsFrom, List.append_assoc]; rfl
  simpa [offsets] using gen chunks [] 0

/-- the blocks of a chunked array as arg segments: block `b` carries the global indices `off_b … off_b + n_b - 1` -/
def blockSegs : Nat → List Nat → List Key → List Val → List ASeg
  | _, [], _, _ => []
  | off, n :: ns, keys, vals =>
    ⟨keys.take n, vals.take n, (List.range n).map fun i => Val.ofNat (off + i),
      ((List.range n).map fun i => Val.ofNat (off + i)).getD 0 Val.nan⟩
      :: blockSegs (off + n) ns (keys.drop n) (vals.drop n)

theorem blockSegs_ne_nil (off : Nat) (chunks : List Nat) (keys : List Key) (vals : List Val) (h : chunks ≠ []) :
    blockSegs off chunks keys vals ≠ [] := by
  cases chunks with
  | nil => exact absurd rfl h
  | cons n ns => simp [blockSegs]

theorem blockSegs_aligned (off : Nat) (chunks : List Nat) (keys : List Key) (vals : List Val)
    (hsum : chunks.sum = keys.length) (hlen : keys.length = vals.length) :
    AlignedA (blockSegs off chunks keys vals) := by
  induction chunks generalizing off keys vals with
  | nil => intro p hp; simp [blockSegs] at hp
  | cons n ns ih =>
    intro p hp
    simp only [blockSegs, List.mem_cons] at hp
    simp only [List.sum_cons] at hsum
    rcases hp with rfl | hp
    · constructor
      · simp only [List.length_take]; omega
      · simp only [List.length_take, List.length_map, List.length_range]; omega
    · exact ih (off + n) (keys.drop n) (vals.drop n) (by simp only [List.length_drop]; omega)
        (by simp only [List.length_drop]; omega) p hp

theorem blockSegs_catAK (off : Nat) (chunks : List Nat) (keys : List Key) (vals : List Val)
    (h : keys.length ≤ chunks.sum) : catAK (blockSegs off chunks keys vals) = keys := by
  induction chunks generalizing off keys vals with
  | nil =>
    have : keys = [] := List.length_eq_zero_iff.mp (by simpa using h)
    simp [blockSegs, this]
  | cons n ns ih =>
    simp only [blockSegs, catAK_cons]
    rw [ih (off + n) (keys.drop n) (vals.drop n) (by simp only [List.length_drop, List.sum_cons] at h ⊢; omega)]
    exact List.take_append_drop n keys

theorem blockSegs_catAV (off : Nat) (chunks : List Nat) (keys : List Key) (vals : List Val)
    (h : vals.length ≤ chunks.sum) : catAV (blockSegs off chunks keys vals) = vals := by
  induction chunks generalizing off keys vals with
  | nil =>
    have : vals = [] := List.length_eq_zero_iff.mp (by simpa using h)
    simp [blockSegs, this]
  | cons n ns ih =>
    simp only [blockSegs, catAV_cons]
    rw [ih (off + n) (keys.drop n) (vals.drop n) (by simp only [List.length_drop, List.sum_cons] at h ⊢; omega)]
    exact List.take_append_drop n vals

theorem blockSegs_catAI (off : Nat) (chunks : List Nat) (keys : List Key) (vals : List Val) :
    catAI (blockSegs off chunks keys vals) = (List.range chunks.sum).map fun i => Val.ofNat (off + i) := by
  induction chunks generalizing off keys vals with
  | nil => simp [blockSegs]
  | cons n ns ih =>
    simp only [blockSegs, catAI_cons, List.sum_cons]
    rw [ih (off + n) (keys.drop n) (vals.drop n), List.range_add, List.map_append, List.map_map]
    congr 1
    apply List.map_congr_left
    intro i _
    simp only [Function.comp, Nat.add_assoc]

/-- **block stage**: every block of `blockStage` is the arg-sparse node of its segment, with global indices -/
theorem blockStage_argNodes {k : Kernel} (c : Call) (hf : ArgFits k c.R) (heng : c.eng = .npg) (rb : Bool)
    (chunks : List Nat) (keys : List Key) (vals : List Val)
    (hsum : chunks.sum = keys.length) (hlen : keys.length = vals.length) :
    blockStage c rb chunks keys vals = (blockSegs 0 chunks keys vals).map (aNode k c.R c.sort) := by
  unfold blockStage
  simp only [hf.isArg, if_true, offsets_eq, heng]
  have gen : ∀ (off : Nat) (chunks : List Nat) (keys : List Key) (vals : List Val),
      chunks.sum = keys.length → keys.length = vals.length →
      ((splitBy chunks keys).zip ((splitBy chunks vals).zip ((offsFrom off chunks).zip chunks))).map
          (fun (x : List Key × List Val × Nat × Nat) =>
            chunkArgreduce .npg c.R.chunk c.R.interFills x.1 x.2.1
              ((List.range x.2.2.2).map fun i => Val.ofNat (x.2.2.1 + i)) c.sort)
        = (blockSegs off chunks keys vals).map (aNode k c.R c.sort) := by
    intro off chunks
    induction chunks generalizing off with
    | nil => intro keys vals _ _; rfl
    | cons n ns ih =>
      intro keys vals hsum hlen
      simp only [List.sum_cons] at hsum
      simp only [splitBy, offsFrom, List.zip_cons_cons, List.map_cons, blockSegs]
      rw [ih (off + n) (keys.drop n) (vals.drop n) (by simp only [List.length_drop]; omega)
        (by simp only [List.length_drop]; omega)]
      congr 1
      have h1 : (keys.take n).length = (vals.take n).length := by simp only [List.length_take]; omega
      have h2 : (keys.take n).length = ((List.range n).map fun i => Val.ofNat (off + i)).length := by
        simp only [List.length_take, List.length_map, List.length_range]; omega
      have := chunkArgreduce_node k hf.hk (decide (c.R.minCount > 0)) (keys.take n) (vals.take n)
        ((List.range n).map fun i => Val.ofNat (off + i)) c.sort h1 h2
      rw [hf.chunk, hf.interFills]
      by_cases hm : c.R.minCount > 0
      · simp only [hm, decide_true, if_true] at this
        simp only [cntSuffix, hm, if_true, aNode, decide_true]
        exact this
      · simp only [hm, decide_false, Bool.false_eq_true, if_false] at this
        simp only [cntSuffix, hm, if_false, aNode, decide_false]
        exact this
  exact gen 0 chunks keys vals hsum hlen

/-- the global indices `0 … N-1` -/
abbrev globalIdx (N : Nat) : List Val := (List.range N).map fun i => Val.ofNat i

/-- **Map-reduce for arg-reductions, up to the combined intermediate**: for every chunking and every `split_every`
    the block stage followed by the tree of `_grouped_combine`s yields the arg-sparse node of the WHOLE array with the
    global indices `0 … N-1`. -/
theorem mapreduce_argNode {k : Kernel} (c : Call) (hf : ArgFits k c.R) (heng : c.eng = .npg) (rb : Bool)
    (chunks : List Nat) (keys : List Key) (vals : List Val) (se : Nat)
    (hchunks : chunks ≠ []) (hsum : chunks.sum = keys.length) (hlen : keys.length = vals.length) :
    ∃ j : Val, groupedCombine c.R .npg c.sort (treeReduce (groupedCombine c.R .npg c.sort) se
        (blockStage c rb chunks keys vals))
      = aNode k c.R c.sort ⟨keys, vals, globalIdx keys.length, j⟩ := by
  rw [blockStage_argNodes c hf heng rb chunks keys vals hsum hlen]
  obtain ⟨j, hj⟩ := tree_argNodes hf c.sort se (blockSegs 0 chunks keys vals)
    (blockSegs_ne_nil 0 chunks keys vals hchunks) (blockSegs_aligned 0 chunks keys vals hsum hlen)
  refine ⟨j, ?_⟩
  rw [hj, blockSegs_catAK 0 chunks keys vals (by omega), blockSegs_catAV 0 chunks keys vals (by omega),
    blockSegs_catAI, hsum]
  simp [globalIdx]

end Flox.Grp
