/-
  C20 (second sentence) — the width model meets the regenerated dtype table: for integer (or bool) input and no `dtype=`
  every dtype in which `_initialize_aggregation` lets a total be accumulated (eager: `dtype["numpy"]` of sum / prod /
  mean / var …; chunked: the `dtype["intermediate"]` of every sum, product, sum of squares and count kernel) is int64
  (uint64 for unsigned input) or float64 – never the narrow input dtype.  With `cast_first_exact_all_plans` the integer
  ones give the exact total whenever it fits into 64 bits.
  (The width part is `FloxProps/C11.intermediates_wide_enough` = `checkWide`; the signedness and the count kernels are
  one more kernel-checked pass over the table.)
-/
import FloxProofs.Dtype
import FloxProofs.IntWidth

namespace Flox.IntWidth
open Flox Flox.Generated Flox.DtypeProofs

/-- (signed, bits) of an integer dtype -/
def intBits? : DType → Option (Bool × Nat)
  | .i8 => some (true, 8) | .i16 => some (true, 16) | .i32 => some (true, 32) | .i64 => some (true, 64)
  | .u8 => some (false, 8) | .u16 => some (false, 16) | .u32 => some (false, 32) | .u64 => some (false, 64)
  | _ => none

/-- `intBits?` is NumPy's range (`DType.range?` is checked against `np.iinfo` by the translator tables of C11) -/
theorem intBits_range (t : DType) (s : Bool) (w : Nat) (h : intBits? t = some (s, w)) :
    t.range? = some (if s then (-((2 ^ (w - 1) : Nat) : Int), ((2 ^ (w - 1) : Nat) : Int) - 1) else (0, ((2 ^ w : Nat) : Int) - 1)) := by
  cases t <;> simp [intBits?] at h <;> obtain ⟨rfl, rfl⟩ := h <;> decide

def countKernel (s : String) : Bool := s == "nanlen" || s == "len"

/-- chunk kernels that accumulate a total over the members -/
def accumulating (s : String) : Bool := sumLike s || countKernel s

/-- what the table may say for input dtype `d`: counts in int64; totals in int64 (signed / bool input), uint64 (unsigned
    input) or float64 (a floating reduction, or a fill that forces a floating result) -/
def accOk (d : DType) (p : String × DType) : Bool :=
  if countKernel p.1 then p.2 == .i64
  else p.2 == .f64 || (if d.isUnsigned then p.2 == .u64 else p.2 == .i64)

/-- the dtypes in which a row accumulates: the accumulating intermediates, and the eager kernel's dtype -/
def rowAccDtypes (f : Func) (init : DInit) : List DType :=
  (init.inter.filter fun p => accumulating p.1).map (·.2) ++ (if accumulates f then init.numpy.take 1 else [])

def checkAcc (f : Func) (d : DType) (k : FillK) (mc : Bool) : Bool :=
  !(d == .bool || d.isInt) ||
    (match apiInit dtypeRowsOf f d .unset k mc false with
     | none => true
     | some init =>
        (init.inter.all fun p => !(accumulating p.1) || accOk d p) &&
        (!(accumulates f) || (init.numpy.take 1).all fun t => accOk d ("", t)))

set_option maxRecDepth 100000 in
/-- one kernel-checked pass over reduction × dtype × fill × min_count (no `dtype=`) -/
theorem checkAcc_all :
    (Func.all.all fun f => DType.all.all fun d => FillK.all.all fun k => [false, true].all fun mc =>
      checkAcc f d k mc) = true := by decide +kernel

theorem checkAcc_at (f : Func) (d : DType) (k : FillK) (mc : Bool) : checkAcc f d k mc = true := by
  have h := checkAcc_all
  simp only [List.all_eq_true] at h
  exact h f (func_mem f) d (dtype_mem d) k (fill_mem k) mc (bool_mem mc)

private theorem accOk_width (d : DType) (p : String × DType) (h : accOk d p = true) (s : Bool) (w : Nat)
    (hb : intBits? p.2 = some (s, w)) : w = 64 ∧ (countKernel p.1 = false → s = !d.isUnsigned) := by
  obtain ⟨n, t⟩ := p
  unfold accOk at h
  by_cases hc : countKernel n = true
  · simp only [hc, if_true, beq_iff_eq] at h
    subst h
    simp [intBits?] at hb
    exact ⟨hb.2.symm, fun h => by simp [hc] at h⟩
  · simp only [hc, Bool.false_eq_true, if_false, Bool.or_eq_true, beq_iff_eq] at h
    rcases h with h | h
    · subst h; simp [intBits?] at hb
    · by_cases hu : d.isUnsigned = true
      · simp only [hu, if_true, beq_iff_eq] at h
        subst h
        simp [intBits?] at hb
        exact ⟨hb.2.symm, fun _ => by simp [hu, hb.1]⟩
      · simp only [hu, Bool.false_eq_true, if_false, beq_iff_eq] at h
        subst h
        simp [intBits?] at hb
        simp at hu
        exact ⟨hb.2.symm, fun _ => by simp [hu, hb.1]⟩

/-- **the accumulation dtypes of the table are 64 bits wide** (and as signed as the input): for every reduction, every
    integer / bool input dtype, every fill, `min_count`, engine – whenever such a dtype is an integer dtype at all -/
theorem table_accumulators_64bit (f : Func) (d : DType) (k : FillK) (mc e : Bool) (init : DInit)
    (hd : d = .bool ∨ d.isInt = true) (h : apiInit dtypeRowsOf f d .unset k mc e = some init) :
    ∀ t ∈ rowAccDtypes f init, ∀ s w, intBits? t = some (s, w) → w = 64 := by
  have hc := checkAcc_at f d k mc
  have he := (engine_independent f d .unset k mc).2
  have h' : apiInit dtypeRowsOf f d .unset k mc false = some init := by
    cases e
    · exact h
    · rw [← he]; exact h
  have hcond : (d == .bool || d.isInt) = true := by
    rcases hd with hd | hd
    · subst hd; rfl
    · simp [hd]
  simp only [checkAcc, hcond, Bool.not_true, Bool.false_or, h', Bool.and_eq_true, List.all_eq_true,
    Bool.or_eq_true, Bool.not_eq_true'] at hc
  intro t ht s w hb
  simp only [rowAccDtypes, List.mem_append, List.mem_map, List.mem_filter] at ht
  rcases ht with ⟨p, ⟨hp, hacc⟩, rfl⟩ | ht
  · rcases hc.1 p hp with h1 | h1
    · rw [hacc] at h1; cases h1
    · exact (accOk_width d p h1 s w hb).1
  · by_cases ha : accumulates f = true
    · simp only [ha, if_true] at ht
      rcases hc.2 with h1 | h1
      · rw [ha] at h1; cases h1
      · exact (accOk_width d ("", t) (h1 t ht) s w hb).1
    · simp [ha] at ht

/-- **tie of the width model to the table**: in whichever integer dtype a row of the table accumulates, sums and
    products of integer data are exact on the eager engines and for every chunking / order / tree as soon as the total
    fits into 64 bits – the input width `wIn` is arbitrary. -/
theorem table_sum_prod_exact (f : Func) (d : DType) (k : FillK) (mc e : Bool) (init : DInit)
    (hd : d = .bool ∨ d.isInt = true) (h : apiInit dtypeRowsOf f d .unset k mc e = some init)
    (t : DType) (ht : t ∈ rowAccDtypes f init) (wIn : Nat) (xs : List Int) :
    (∀ w, intBits? t = some (true, w) →
      (absSum xs < 2 ^ 63 →
        engineSum true wIn w xs = xs.sum ∧ ∀ tr : WTree, tr.leaves.Perm xs → chunkedSum true wIn w tr = xs.sum) ∧
      (absProd xs < 2 ^ 63 →
        engineProd true wIn w xs = xs.prod ∧ ∀ tr : WTree, tr.leaves.Perm xs → chunkedProd true wIn w tr = xs.prod)) ∧
    (∀ w, intBits? t = some (false, w) →
      (inU 64 xs.sum →
        engineSumU true wIn w xs = xs.sum ∧ ∀ tr : WTree, tr.leaves.Perm xs → chunkedSumU true wIn w tr = xs.sum) ∧
      (inU 64 xs.prod →
        engineProdU true wIn w xs = xs.prod ∧
          ∀ tr : WTree, tr.leaves.Perm xs → chunkedProdU true wIn w tr = xs.prod)) := by
  refine ⟨fun w hb => ?_, fun w hb => ?_⟩
  · obtain rfl := table_accumulators_64bit f d k mc e init hd h t ht _ _ hb
    exact ⟨cast_first_exact_all_plans (wAcc := 64) (by decide) wIn xs,
      cast_first_prod_exact_all_plans (wAcc := 64) (by decide) wIn xs⟩
  · obtain rfl := table_accumulators_64bit f d k mc e init hd h t ht _ _ hb
    exact ⟨sumU_exact_of_total_bound wIn 64 xs, cast_first_prodU_exact_all_plans (wAcc := 64) (by decide) wIn xs⟩

end Flox.IntWidth
