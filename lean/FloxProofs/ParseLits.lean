/-
  The text literals "0" and "1" of the generated tables, parsed by the model's `Val.parse?` / `String.toNat!`.

  These core `String` functions are implemented with iterators / well-founded recursion and do not reduce by
  `decide`; the facts are proved here from the `Std.Data.String.ToNat` lemmas and by unfolding `String.splitOnAux`.
-/
import Std.Data.String.ToNat
import FloxModel.Val

namespace Flox

theorem isNat_lit0 : "0".isNat = true := String.isNat_of_isDigit (by decide) (by simp)
theorem isNat_lit1 : "1".isNat = true := String.isNat_of_isDigit (by decide) (by simp)

theorem toNat?_lit0 : "0".toNat? = some 0 := by
  rw [String.toNat?_eq_some_ofDigitChars isNat_lit0]; simp; decide
theorem toNat?_lit1 : "1".toNat? = some 1 := by
  rw [String.toNat?_eq_some_ofDigitChars isNat_lit1]; simp; decide

theorem toNat!_of_toNat? (s : String) (n : Nat) (h : s.toNat? = some n) : s.toNat! = n := by
  have hn : s.isNat = true := String.isNat_of_toNat?_eq_some h
  simp only [String.toNat!, String.Slice.toNat!, String.toNat?, String.Slice.toNat?, ← String.isNat_toSlice] at *
  rw [if_pos hn] at h ⊢
  exact Option.some.inj h

theorem toNat!_lit0 : "0".toNat! = 0 := toNat!_of_toNat? _ _ toNat?_lit0
theorem toNat!_lit1 : "1".toNat! = 1 := toNat!_of_toNat? _ _ toNat?_lit1

theorem splitOn_lit0 : "0".splitOn "/" = ["0"] := by
  have h0 : ("/" == "") = false := by decide +kernel
  simp only [String.splitOn, h0]
  rw [String.splitOnAux]
  rw [if_neg (show ¬ (String.Pos.Raw.atEnd "0" 0 = true) by decide +kernel)]
  rw [if_neg (show ¬ ((String.Pos.Raw.get "0" 0 == String.Pos.Raw.get "/" 0) = true) by decide +kernel)]
  rw [String.splitOnAux]
  rw [if_neg (show ¬ (false = true) by decide)]
  rw [if_pos (show String.Pos.Raw.atEnd "0" (String.Pos.Raw.next "0" (String.Pos.Raw.unoffsetBy 0 0)) = true by
    decide +kernel)]
  decide +kernel

theorem splitOn_lit1 : "1".splitOn "/" = ["1"] := by
  have h0 : ("/" == "") = false := by decide +kernel
  simp only [String.splitOn, h0]
  rw [String.splitOnAux]
  rw [if_neg (show ¬ (String.Pos.Raw.atEnd "1" 0 = true) by decide +kernel)]
  rw [if_neg (show ¬ ((String.Pos.Raw.get "1" 0 == String.Pos.Raw.get "/" 0) = true) by decide +kernel)]
  rw [String.splitOnAux]
  rw [if_neg (show ¬ (false = true) by decide)]
  rw [if_pos (show String.Pos.Raw.atEnd "1" (String.Pos.Raw.next "1" (String.Pos.Raw.unoffsetBy 0 0)) = true by
    decide +kernel)]
  decide +kernel

theorem toInt?_lit0 : "0".toInt? = some 0 := by
  have hd : ("0".toSlice.dropPrefix? '-').isNone = true := by decide +kernel
  have hn : "0".toSlice.toNat? = some 0 := by rw [String.toNat?_toSlice]; exact toNat?_lit0
  simp only [String.toInt?, String.Slice.toInt?]
  cases h : "0".toSlice.dropPrefix? '-' with
  | some r => rw [h] at hd; cases hd
  | none => simp [hn]

theorem toInt?_lit1 : "1".toInt? = some 1 := by
  have hd : ("1".toSlice.dropPrefix? '-').isNone = true := by decide +kernel
  have hn : "1".toSlice.toNat? = some 1 := by rw [String.toNat?_toSlice]; exact toNat?_lit1
  simp only [String.toInt?, String.Slice.toInt?]
  cases h : "1".toSlice.dropPrefix? '-' with
  | some r => rw [h] at hd; cases hd
  | none => simp [hn]

theorem parse?_lit0 : Val.parse? "0" = some (Val.fin 0) := by
  unfold Val.parse?
  rw [if_neg (by decide), if_neg (by decide), if_neg (by decide)]
  simp [Val.parseRat?, splitOn_lit0, toInt?_lit0]

theorem parse?_lit1 : Val.parse? "1" = some (Val.fin 1) := by
  unfold Val.parse?
  rw [if_neg (by decide), if_neg (by decide), if_neg (by decide)]
  simp [Val.parseRat?, splitOn_lit1, toInt?_lit1]

end Flox
