/-
  G1: the GROUPED combine (`_grouped_combine`) for reduce-type aggregations.

  Block stage without reindexing (`chunk_reduce(expected_groups=None)`): every block stores the labels it found and,
  per label, `blockVal k f` of the members (`sparseInter`).  `_grouped_combine` concatenates groups and columns in
  block order and runs `chunk_reduce` again with the combine kernels.  We show that this yields the sparse
  intermediate of the concatenated segments, for every tree, and finish with `_finalize_results` + final reindex:

    groupedCombine_sparseNodes   one combine
    tree_sparseNodes             any `split_every`
    mapreduce_grouped_eq_spec    `runKnown c (.mapreduce false) …` = specification
    runUnknown_eq_spec           labels discovered at compute time (C12)
-/
import FloxProofs.SparseKeys

namespace Flox.Grp

/-! ### the decomposition law seen through the engine -/

/-- The grouped-combine law of a column `(k, c, f)` on values satisfying `P`: running the *engine kernel* `c`
    (i.e. `blockVal c f`, not `combineVal c`) over the per-block values of the blocks where the label occurs gives
    the block value of the concatenated members. -/
def GLaw (P : Val → Prop) (k c : Kernel) (f : Val) : Prop :=
  ∀ parts : List (List Val), parts ≠ [] → (∀ p ∈ parts, p ≠ [] ∧ ∀ v ∈ p, P v) →
    blockVal c f (parts.map (blockVal k f)) = blockVal k f parts.flatten

/-- on the per-block values of a built-in column, the engine kernel `blockVal c f` and NumPy's `combineVal c`
    agree (the only way they could differ is a NaN-skipping `c` on all-NaN input: for `nanmax`/`nanmin` the
    per-block values are never NaN, for `nanfirst`/`nanlast` both give NaN) -/
theorem blockVal_eq_combineVal (k c : Kernel) (f : Val) (h : (k, c, f) ∈ floatColumns)
    (parts : List (List Val)) (hne : parts ≠ []) :
    blockVal c f (parts.map (blockVal k f)) = combineVal c (parts.map (blockVal k f)) := by
  have hne' : parts.map (blockVal k f) ≠ [] := by simpa using hne
  by_cases hd : dropNaN (parts.map (blockVal k f)) = []
  · by_cases hc : c.skipsNaN = true
    · rw [EngineFlox.blockVal_allNaN _ _ _ hc hne' hd]
      simp only [floatColumns, List.mem_cons, Prod.mk.injEq, List.mem_nil_iff, or_false] at h
      rcases h with ⟨rfl, rfl, rfl⟩ | ⟨rfl, rfl, rfl⟩ | ⟨rfl, rfl, rfl⟩ | ⟨rfl, rfl, rfl⟩ |
        ⟨rfl, rfl, rfl⟩ | ⟨rfl, rfl, rfl⟩ | ⟨rfl, rfl, rfl⟩ | ⟨rfl, rfl, rfl⟩ |
        ⟨rfl, rfl, rfl⟩ | ⟨rfl, rfl, rfl⟩ | ⟨rfl, rfl, rfl⟩ | ⟨rfl, rfl, rfl⟩ |
        ⟨rfl, rfl, rfl⟩ | ⟨rfl, rfl, rfl⟩ | ⟨rfl, rfl, rfl⟩ <;>
      first
        | (exact absurd hc (by decide))
        | (exfalso
           cases parts with
           | nil => exact hne rfl
           | cons p ps =>
             have hall := dropNaN_eq_nil_iff.mp hd
             have := hall _ (List.mem_map.mpr ⟨p, List.mem_cons_self, rfl⟩)
             first
               | (rw [blockVal_nanmax, vmax_dropNaN_isNaN] at this; exact absurd this (by decide))
               | (rw [blockVal_nanmin, vmin_dropNaN_isNaN] at this; exact absurd this (by decide)))
        | (simp only [allNaNVal, combineVal, kEval, firstNonNaN_eq_nan_of_allNaN hd,
            lastNonNaN_eq_nan_of_allNaN hd])
    · exact EngineFlox.blockVal_noskip _ _ _ (by simpa using hc) hne'
  · exact EngineFlox.blockVal_valid _ _ _ hd

/-- every built-in column satisfies the grouped-combine law, on all values -/
theorem GLaw_floatColumns (k c : Kernel) (f : Val) (h : (k, c, f) ∈ floatColumns) :
    GLaw (fun _ => True) k c f := by
  intro parts hne _
  rw [blockVal_eq_combineVal k c f h parts hne, combine_parts k c f h parts hne]

/-! ### columns of a sparse node -/

theorem colAt_sparseInter (ks : List Kernel) (fills : List Val) (sort : Bool) (keys : List Key) (vals : List Val)
    (j : Nat) (hj : j < ks.length) (hk : ks.length = fills.length) :
    colAt (sparseInter ks fills sort keys vals) j
      = if presentKeys keys = [] then [fills[j]'(by omega)]
        else (foundOf sort keys).map fun r => blockVal ks[j] (fills[j]'(by omega)) (membersK (some r) keys vals) := by
  have hz : j < (ks.zip fills).length := by simp only [List.length_zip]; omega
  unfold sparseInter
  split
  · simp only [colAt, List.getD_eq_getElem?_getD, List.getElem?_map]
    rw [List.getElem?_eq_getElem hz]
    simp
  · simp only [colAt, sparseCols, List.getD_eq_getElem?_getD, List.getElem?_map]
    rw [List.getElem?_eq_getElem hz]
    simp

theorem sparseInter_aligned (ks : List Kernel) (fills : List Val) (sort : Bool) (keys : List Key) (vals : List Val)
    (j : Nat) (hj : j < ks.length) (hk : ks.length = fills.length) :
    (sparseInter ks fills sort keys vals).groups.length = (colAt (sparseInter ks fills sort keys vals) j).length := by
  rw [colAt_sparseInter ks fills sort keys vals j hj hk, sparseInter_groups]
  split <;> simp

/-- the values a sparse node contributes to label `r` in the concatenated column `j`: its block value when the
    label occurs in the node's segment, nothing otherwise -/
theorem membersK_sparseNode (ks : List Kernel) (fills : List Val) (sort : Bool) (keys : List Key) (vals : List Val)
    (j : Nat) (hj : j < ks.length) (hk : ks.length = fills.length) (r : Rat) :
    membersK (some r) (sparseInter ks fills sort keys vals).groups (colAt (sparseInter ks fills sort keys vals) j)
      = if r ∈ foundOf sort keys then [blockVal ks[j] (fills[j]'(by omega)) (membersK (some r) keys vals)]
        else [] := by
  rw [colAt_sparseInter ks fills sort keys vals j hj hk, sparseInter_groups]
  by_cases hp : presentKeys keys = []
  · have : foundOf sort keys = [] := (presentKeys_nil_iff_foundOf sort keys).mp hp
    simp [hp, this]
  · simp only [hp, if_false]
    exact membersK_map_some r _ _ (nodup_foundOf sort keys)

/-- the sparse node of a segment -/
abbrev sparseNode (R : Resolved) (sort : Bool) (p : List Key × List Val) : Inter :=
  sparseInter R.chunk R.interFills sort p.1 p.2

/-- **one slot of one column of the grouped combine** -/
theorem groupedCombine_slot (R : Resolved) (sort : Bool) (P : Val → Prop) (segs : SegsK) (hal : AlignedK segs)
    (hP : ∀ p ∈ segs, ∀ v ∈ p.2, P v)
    (j : Nat) (hj : j < R.chunk.length) (hc : R.chunk.length = R.combine.length)
    (hf : R.chunk.length = R.interFills.length)
    (hlaw : GLaw P R.chunk[j] (R.combine[j]'(by omega)) (R.interFills[j]'(by omega)))
    (r : Rat) (hr : r ∈ foundOf sort (catKK segs)) :
    blockVal (R.combine[j]'(by omega)) (R.interFills[j]'(by omega))
        (membersK (some r) ((segs.map (sparseNode R sort)).flatMap (·.groups))
          ((segs.map (sparseNode R sort)).flatMap (colAt · j)))
      = blockVal R.chunk[j] (R.interFills[j]'(by omega)) (membersK (some r) (catKK segs) (catKV segs)) := by
  rw [membersK_flatMap _ _ _ (by
    intro x hx
    obtain ⟨p, _, rfl⟩ := List.mem_map.mp hx
    exact sparseInter_aligned _ _ _ _ _ j hj hf)]
  rw [List.flatMap_map]
  have hnode : ∀ p : List Key × List Val,
      membersK (some r) (sparseNode R sort p).groups (colAt (sparseNode R sort p) j)
        = if r ∈ foundOf sort p.1 then [blockVal R.chunk[j] (R.interFills[j]'(by omega)) (membersK (some r) p.1 p.2)]
          else [] := fun p => membersK_sparseNode _ _ _ _ _ j hj hf r
  simp only [hnode]
  rw [flatMap_ite_singleton segs (fun p => r ∈ foundOf sort p.1)
    (fun p => blockVal R.chunk[j] (R.interFills[j]'(by omega)) (membersK (some r) p.1 p.2))]
  have hmap : ((segs.filter fun p => decide (r ∈ foundOf sort p.1)).map
        fun p => blockVal R.chunk[j] (R.interFills[j]'(by omega)) (membersK (some r) p.1 p.2))
      = (((segs.filter fun p => decide (r ∈ foundOf sort p.1)).map fun p => membersK (some r) p.1 p.2).map
          (blockVal R.chunk[j] (R.interFills[j]'(by omega)))) := by
    rw [List.map_map]; rfl
  rw [hmap, hlaw]
  · rw [flatten_map_filter, membersK_cat _ segs hal]
    intro p _ hq
    apply membersK_eq_nil_of_not_mem
    intro hmem
    have : r ∈ foundOf sort p.1 := (mem_foundOf sort r p.1).mpr hmem
    simp [this] at hq
  · -- at least one block holds the label
    obtain ⟨p, hp, hk⟩ := mem_catKK.mp ((mem_foundOf sort r _).mp hr)
    have : p ∈ segs.filter fun p => decide (r ∈ foundOf sort p.1) := by
      simp only [List.mem_filter, decide_eq_true_eq]
      exact ⟨hp, (mem_foundOf sort r p.1).mpr hk⟩
    intro h
    simp only [List.map_eq_nil_iff] at h
    rw [h] at this
    simp at this
  · intro q hq
    obtain ⟨p, hp, rfl⟩ := List.mem_map.mp hq
    simp only [List.mem_filter, decide_eq_true_eq] at hp
    refine ⟨?_, ?_⟩
    · exact membersK_ne_nil_of_mem _ _ _ ((mem_foundOf sort r p.1).mp hp.2) (by rw [hal p hp.1]; exact Nat.le_refl _)
    · intro v hv
      exact hP p hp.1 v (mem_of_mem_membersK hv)

theorem getLastD_mem {α} (l : List α) (d : α) (h : l ≠ []) : l.getLastD d ∈ l := by
  induction l generalizing d with
  | nil => exact absurd rfl h
  | cons a l ih =>
    cases l with
    | nil => simp [List.getLastD]
    | cons b l =>
      have := ih a (by simp)
      simp only [List.getLastD_cons] at this ⊢
      exact List.mem_cons_of_mem _ this

/-- **`_grouped_combine` of sparse nodes is the sparse node of the concatenated segments** (reduce type,
    numpy_groupies engine) -/
theorem groupedCombine_sparseNodes (R : Resolved) (sort : Bool) (P : Val → Prop) (segs : SegsK)
    (hne : segs ≠ []) (hal : AlignedK segs) (hP : ∀ p ∈ segs, ∀ v ∈ p.2, P v)
    (harg : R.isArg = false)
    (hc : R.chunk.length = R.combine.length) (hf : R.chunk.length = R.interFills.length)
    (hpos : 0 < R.chunk.length)
    (hlaw : ∀ j (hj : j < R.chunk.length),
      GLaw P R.chunk[j] (R.combine[j]'(by omega)) (R.interFills[j]'(by omega)))
    (hnoargC : ∀ k ∈ R.combine, isArgKernel k = false)
    (hzC : ∀ p ∈ R.combine.zip R.interFills, (p.1 = .nanlen ∨ p.1 = .nansumsq) → p.2 = Val.zero) :
    groupedCombine R .npg sort (segs.map (sparseNode R sort))
      = sparseInter R.chunk R.interFills sort (catKK segs) (catKV segs) := by
  unfold groupedCombine
  simp only [harg, Bool.false_eq_true, if_false]
  generalize hG : (segs.map (sparseNode R sort)).flatMap (·.groups) = G
  have hpres : presentKeys G = segs.flatMap fun p => foundOf sort p.1 := by
    rw [← hG]
    exact presentKeys_nodes sort segs (sparseNode R sort) (fun p _ => presentKeys_sparseInter _ _ _ _ _)
  have hfound : foundOf sort G = foundOf sort (catKK segs) := foundOf_nodes sort segs G hpres
  have hnil : presentKeys G = [] ↔ presentKeys (catKK segs) = [] := by
    rw [presentKeys_nil_iff_foundOf sort, presentKeys_nil_iff_foundOf sort, hfound]
  -- every per-column re-reduction is a sparse intermediate over the concatenated groups
  have hrs : ((R.combine.zip R.interFills).mapIdx fun j (x : Kernel × Val) =>
        chunkReduce .npg [x.1] [x.2] G ((segs.map (sparseNode R sort)).flatMap (colAt · j)) none sort)
      = (R.combine.zip R.interFills).mapIdx fun j (x : Kernel × Val) =>
        sparseInter [x.1] [x.2] sort G ((segs.map (sparseNode R sort)).flatMap (colAt · j)) := by
    apply List.ext_getElem (by simp)
    intro j h1 h2
    simp only [List.getElem_mapIdx]
    have hmem : (R.combine.zip R.interFills)[j]'(by simpa using h1) ∈ R.combine.zip R.interFills :=
      List.getElem_mem _
    apply chunkReduce_sparse
    · intro k hk
      simp only [List.mem_singleton] at hk
      subst hk
      exact hnoargC _ (List.of_mem_zip hmem).1
    · intro p hp
      simp only [List.zip_cons_cons, List.zip_nil_right, List.mem_singleton] at hp
      subst hp
      exact hzC _ hmem
  have hrs' : ((R.combine.zip R.interFills).mapIdx fun j (x : Kernel × Val) =>
        match x with
        | (k, fv) => chunkReduce .npg [k] [fv] G ((segs.map (sparseNode R sort)).flatMap (colAt · j)) none sort)
      = (R.combine.zip R.interFills).mapIdx fun j (x : Kernel × Val) =>
        sparseInter [x.1] [x.2] sort G ((segs.map (sparseNode R sort)).flatMap (colAt · j)) := hrs
  rw [hrs']
  generalize hrsdef : ((R.combine.zip R.interFills).mapIdx fun j (x : Kernel × Val) =>
        sparseInter [x.1] [x.2] sort G ((segs.map (sparseNode R sort)).flatMap (colAt · j))) = rs
  have hrslen : rs.length = R.chunk.length := by
    rw [← hrsdef]; simp only [List.length_mapIdx, List.length_zip]; omega
  have hrsne : rs ≠ [] := by
    intro h; rw [h] at hrslen; simp at hrslen; omega
  have hgroups : ∀ x ∈ rs, x.groups = if presentKeys G = [] then [none] else (foundOf sort G).map some := by
    intro x hx
    rw [← hrsdef] at hx
    obtain ⟨j, hj, rfl⟩ := List.getElem_of_mem hx
    simp only [List.getElem_mapIdx]
    exact sparseInter_groups _ _ _ _ _
  have hlast := hgroups _ (getLastD_mem rs default hrsne)
  rw [hlast]
  have hcol : ∀ j (hj : j < R.chunk.length),
      colAt (rs[j]'(by omega)) 0
        = if presentKeys G = [] then [R.interFills[j]'(by omega)]
          else (foundOf sort G).map fun r =>
            blockVal (R.combine[j]'(by omega)) (R.interFills[j]'(by omega))
              (membersK (some r) G ((segs.map (sparseNode R sort)).flatMap (colAt · j))) := by
    intro j hj
    have : rs[j]'(by omega) = sparseInter [R.combine[j]'(by omega)] [R.interFills[j]'(by omega)] sort G
        ((segs.map (sparseNode R sort)).flatMap (colAt · j)) := by
      subst hrsdef
      simp only [List.getElem_mapIdx, List.getElem_zip]
    rw [this, colAt_sparseInter _ _ _ _ _ 0 (by simp) (by simp)]
    simp
  unfold sparseInter
  by_cases hK : presentKeys (catKK segs) = []
  · have hG' : presentKeys G = [] := hnil.mpr hK
    simp only [hK, hG', if_true]
    congr 1
    apply List.ext_getElem
    · simp only [List.length_map, List.length_zip]; omega
    · intro j h1 h2
      have hj : j < R.chunk.length := by simp only [List.length_map] at h1; omega
      simp only [List.getElem_map, List.getElem_zip]
      rw [hcol j hj]
      simp [hG']
  · have hG' : ¬ presentKeys G = [] := fun h => hK (hnil.mp h)
    simp only [hK, hG', if_false, hfound]
    congr 1
    apply List.ext_getElem
    · simp only [sparseCols, List.length_map, List.length_zip]; omega
    · intro j h1 h2
      have hj : j < R.chunk.length := by simp only [List.length_map] at h1; omega
      simp only [sparseCols, List.getElem_map, List.getElem_zip]
      rw [hcol j hj]
      simp only [hG', if_false, hfound]
      apply List.map_congr_left
      intro r hr
      rw [← hG]
      exact groupedCombine_slot R sort P segs hal hP j hj hc hf (hlaw j hj) r hr

/-! ### the tree -/

/-- everything the grouped-combine theorems need to know about a reduce-type blueprint -/
structure GroupedOK (R : Resolved) (P : Val → Prop) : Prop where
  harg : R.isArg = false
  hc : R.chunk.length = R.combine.length
  hf : R.chunk.length = R.interFills.length
  hpos : 0 < R.chunk.length
  hlaw : ∀ j (hj : j < R.chunk.length),
    GLaw P R.chunk[j] (R.combine[j]'(by omega)) (R.interFills[j]'(by omega))
  hnoarg : ∀ k ∈ R.chunk, isArgKernel k = false
  hz : ∀ p ∈ R.chunk.zip R.interFills, (p.1 = .nanlen ∨ p.1 = .nansumsq) → p.2 = Val.zero
  hnoargC : ∀ k ∈ R.combine, isArgKernel k = false
  hzC : ∀ p ∈ R.combine.zip R.interFills, (p.1 = .nanlen ∨ p.1 = .nansumsq) → p.2 = Val.zero

/-- all values of the segments satisfy `P` -/
abbrev ValsOK (P : Val → Prop) (segs : SegsK) : Prop := ∀ p ∈ segs, ∀ v ∈ p.2, P v

theorem GroupedOK.combine {R : Resolved} {P : Val → Prop} (h : GroupedOK R P) (sort : Bool) (segs : SegsK)
    (hne : segs ≠ []) (hal : AlignedK segs) (hP : ValsOK P segs) :
    groupedCombine R .npg sort (segs.map (sparseNode R sort))
      = sparseInter R.chunk R.interFills sort (catKK segs) (catKV segs) :=
  groupedCombine_sparseNodes R sort P segs hne hal hP h.harg h.hc h.hf h.hpos h.hlaw h.hnoargC h.hzC

theorem round_sparseNodes {R : Resolved} {P : Val → Prop} (h : GroupedOK R P) (sort : Bool) (k : Nat)
    (segs : SegsK) (hal : AlignedK segs) (hP : ValsOK P segs) :
    (partitionAll k (segs.map (sparseNode R sort))).map (groupedCombine R .npg sort)
      = ((partitionAll k segs).map fun grp => (catKK grp, catKV grp)).map (sparseNode R sort) := by
  rw [partitionAll_map, List.map_map, List.map_map]
  apply List.map_congr_left
  intro grp hgrp
  simp only [Function.comp]
  exact h.combine sort grp (partitionAll_mem_ne_nil k segs grp hgrp)
    (fun p hp => hal p (partitionAll_mem_sub k segs grp hgrp p hp))
    (fun p hp => hP p (partitionAll_mem_sub k segs grp hgrp p hp))

theorem mergedK_valsOK (P : Val → Prop) (k : Nat) (segs : SegsK) (hP : ValsOK P segs) :
    ValsOK P ((partitionAll k segs).map fun grp => (catKK grp, catKV grp)) := by
  intro p hp v hv
  obtain ⟨grp, hgrp, rfl⟩ := List.mem_map.mp hp
  obtain ⟨q, hq, hv'⟩ := mem_catKV.mp hv
  exact hP q (partitionAll_mem_sub k segs grp hgrp q hq) v hv'

theorem rounds_sparseNodes {R : Resolved} {P : Val → Prop} (h : GroupedOK R P) (sort : Bool) (k : Nat)
    (l : List Nat) (segs : SegsK) (hne : segs ≠ []) (hal : AlignedK segs) (hP : ValsOK P segs) :
    ∃ segs' : SegsK, segs' ≠ [] ∧ AlignedK segs' ∧ ValsOK P segs' ∧ catKK segs' = catKK segs ∧
      catKV segs' = catKV segs ∧
      l.foldl (fun cur _ => (partitionAll k cur).map (groupedCombine R .npg sort)) (segs.map (sparseNode R sort))
        = segs'.map (sparseNode R sort) := by
  induction l generalizing segs with
  | nil => exact ⟨segs, hne, hal, hP, rfl, rfl, rfl⟩
  | cons _ l ih =>
    simp only [List.foldl_cons]
    rw [round_sparseNodes h sort k segs hal hP]
    obtain ⟨segs', h1, h2, h3, h4, h5, h6⟩ :=
      ih ((partitionAll k segs).map fun grp => (catKK grp, catKV grp))
        (by simpa using partitionAll_ne_nil k segs hne) (mergedK_aligned k segs hal)
        (mergedK_valsOK P k segs hP)
    exact ⟨segs', h1, h2, h3, h4.trans (mergedK_catKK k segs), h5.trans (mergedK_catKV k segs), h6⟩

/-- tree reduction with `_grouped_combine` followed by the final combine, on sparse nodes of aligned segments -/
theorem tree_sparseNodes {R : Resolved} {P : Val → Prop} (h : GroupedOK R P) (sort : Bool) (se : Nat)
    (segs : SegsK) (hne : segs ≠ []) (hal : AlignedK segs) (hP : ValsOK P segs) :
    groupedCombine R .npg sort (treeReduce (groupedCombine R .npg sort) se (segs.map (sparseNode R sort)))
      = sparseInter R.chunk R.interFills sort (catKK segs) (catKV segs) := by
  unfold treeReduce
  obtain ⟨segs', h1, h2, h3, h4, h5, h6⟩ := rounds_sparseNodes h sort (Nat.max se 2)
    (List.range (ceilLog (Nat.max se 2) (segs.map (sparseNode R sort)).length - 1)) segs hne hal hP
  simp only [h6]
  rw [h.combine sort segs' h1 h2 h3, h4, h5]

/-! ### the block stage without reindexing -/

theorem blockStage_sparse_eq (c : Call) (chunks : List Nat) (keys : List Key) (vals : List Val)
    (harg : c.R.isArg = false) :
    blockStage c false chunks keys vals
      = (segsOfK chunks keys vals).map fun p =>
          chunkReduce c.eng c.R.chunk c.R.interFills p.1 p.2 none c.sort := by
  unfold blockStage segsOfK
  simp only [harg, Bool.false_eq_true, if_false]
  apply map_zip_zip_ignore _ _ _
    (fun ks vs => chunkReduce c.eng c.R.chunk c.R.interFills ks vs none c.sort)
  · intro a b c; rfl
  · simp [splitBy_length, offsets_length]
  · simp [splitBy_length, offsets_length]

theorem blockStage_sparse {P : Val → Prop} (c : Call) (chunks : List Nat) (keys : List Key) (vals : List Val)
    (h : GroupedOK c.R P) (heng : c.eng = .npg) :
    blockStage c false chunks keys vals = (segsOfK chunks keys vals).map (sparseNode c.R c.sort) := by
  rw [blockStage_sparse_eq c chunks keys vals h.harg, heng]
  apply List.map_congr_left
  intro p _
  exact chunkReduce_sparse _ _ _ _ _ h.hnoarg h.hz

/-- **Map-reduce without reindexing, `_grouped_combine`** (numpy_groupies engine): for every chunking and every
    `split_every` the combined intermediates are the sparse intermediates of the whole array. -/
theorem mapreduce_sparse {P : Val → Prop} (c : Call) (chunks : List Nat) (keys : List Key) (vals : List Val)
    (se : Nat) (h : GroupedOK c.R P) (heng : c.eng = .npg)
    (hchunks : chunks ≠ []) (hsum : chunks.sum = keys.length) (hlen : keys.length = vals.length)
    (hP : ∀ v ∈ vals, P v) :
    groupedCombine c.R .npg c.sort (treeReduce (groupedCombine c.R .npg c.sort) se
        (blockStage c false chunks keys vals))
      = sparseInter c.R.chunk c.R.interFills c.sort keys vals := by
  have hV : catKV (segsOfK chunks keys vals) = vals := segsOfK_catKV chunks keys vals (by omega)
  rw [blockStage_sparse c chunks keys vals h heng,
    tree_sparseNodes h c.sort se _ (segsOfK_ne_nil chunks keys vals hchunks)
      (segsOfK_aligned chunks keys vals hlen)
      (by
        intro p hp v hv
        apply hP
        rw [← hV]
        exact mem_catKV.mpr ⟨p, hp, hv⟩),
    segsOfK_catKK chunks keys vals (by omega), hV]

/-! ### `List.mapM` helpers -/

theorem mapM_option_consG {α β} (f : α → Option β) (a : α) (l : List α) :
    (a :: l).mapM f = (match f a with
      | none => none
      | some b => match l.mapM f with
        | none => none
        | some bs => some (b :: bs)) := by
  rw [List.mapM_cons]
  cases f a <;> simp
  cases l.mapM f <;> rfl

theorem mapM_option_some {α β} (f : α → Option β) (h : α → β) (l : List α) (hf : ∀ a ∈ l, f a = some (h a)) :
    l.mapM f = some (l.map h) := by
  induction l with
  | nil => rfl
  | cons a l ih =>
    rw [mapM_option_consG, hf a (by simp), ih (fun b hb => hf b (by simp [hb]))]
    rfl

theorem mapM_option_map {α β γ} (g : α → β) (f : β → Option γ) (l : List α) :
    (l.map g).mapM f = l.mapM (fun a => f (g a)) := by
  induction l with
  | nil => rfl
  | cons a l ih => rw [List.map_cons, mapM_option_consG, mapM_option_consG, ih]

theorem mapM_except_map {ε α β γ} (g : α → β) (f : β → Except ε γ) (l : List α) :
    (l.map g).mapM f = l.mapM (fun a => f (g a)) := by
  induction l with
  | nil => rfl
  | cons a l ih => rw [List.map_cons, mapM_except_cons, mapM_except_cons, ih]

theorem mapM_except_getElem {ε α β} (f : α → Except ε β) (l : List α) (bs : List β) (h : l.mapM f = .ok bs)
    (i : Nat) (hi : i < l.length) :
    f l[i] = .ok (bs[i]'(by rw [mapM_except_length f l bs h]; exact hi)) := by
  induction l generalizing bs i with
  | nil => simp at hi
  | cons a l ih =>
    rw [mapM_except_cons] at h
    cases hfa : f a with
    | error e => simp [hfa] at h
    | ok b =>
      cases hl : l.mapM f with
      | error e => simp [hfa, hl] at h
      | ok bs' =>
        simp only [hfa, hl, Except.ok.injEq] at h
        subst h
        cases i with
        | zero => simpa using hfa
        | succ j => simpa using ih bs' hl j (by simpa using hi)

theorem mapM_except_error_mem {ε α β} (f : α → Except ε β) (l : List α) (e : ε) (h : l.mapM f = .error e) :
    ∃ a ∈ l, f a = .error e := by
  induction l with
  | nil => simp [List.mapM_nil, pure, Except.pure] at h
  | cons a l ih =>
    rw [mapM_except_cons] at h
    cases hfa : f a with
    | error e' =>
      simp only [hfa, Except.error.injEq] at h
      subst h
      exact ⟨a, by simp, hfa⟩
    | ok b =>
      cases hl : l.mapM f with
      | error e' =>
        simp only [hfa, hl, Except.error.injEq] at h
        subst h
        obtain ⟨a', ha', he⟩ := ih hl
        exact ⟨a', by simp [ha'], he⟩
      | ok bs' => simp [hfa, hl] at h

/-- when every possible error is `E`, one failing element makes the whole `mapM` fail with `E` -/
theorem mapM_except_error_of_mem {ε α β} (f : α → Except ε β) (l : List α) (E : ε)
    (hall : ∀ a ∈ l, ∀ e, f a = .error e → e = E) (hex : ∃ a ∈ l, f a = .error E) :
    l.mapM f = .error E := by
  induction l with
  | nil => obtain ⟨a, ha, _⟩ := hex; simp at ha
  | cons a l ih =>
    rw [mapM_except_cons]
    cases hfa : f a with
    | error e' => rw [hall a (by simp) e' hfa]
    | ok b =>
      obtain ⟨a', ha', he⟩ := hex
      rcases List.mem_cons.mp ha' with rfl | ha''
      · rw [hfa] at he; cases he
      · rw [ih (fun x hx => hall x (by simp [hx])) ⟨a', ha'', he⟩]

/-! ### `reindex_` from found labels -/

theorem lookupKey_map_some (r : Rat) (found : List Rat) :
    lookupKey (some r) (found.map some) = indexOf? r found := by
  induction found with
  | nil => rfl
  | cons y ys ih =>
    simp only [List.map_cons, lookupKey, indexOf?, Option.some.injEq, ih]
    by_cases e : y = r
    · subst e; simp
    · have : ¬ r = y := fun e' => e e'.symm
      simp [e, this]

theorem reindexCol_some (col : List Val) (found tl : List Rat) (fill : Option Val) (hne : found ≠ [])
    (hnd : found.Nodup) (hlen : col.length = found.length) :
    reindexCol col (found.map some) (tl.map some) fill
      = tl.mapM fun r => match indexOf? r found with
          | some i => some (col.getD i Val.nan)
          | none => fill := by
  unfold reindexCol
  have h1 : (found.map some : List Key).isEmpty = false := by simpa using hne
  simp only [h1, Bool.false_eq_true, if_false]
  by_cases heq : (found.map some : List Key) = tl.map some
  · have : found = tl := (List.map_inj_right (fun a b h => Option.some.inj h)).mp heq
    subst this
    simp only [if_true]
    rw [mapM_option_some _ (fun r => col.getD ((indexOf? r found).getD 0) Val.nan)]
    · congr 1
      apply List.ext_getElem
      · simp [hlen]
      · intro i h1 h2
        simp only [List.getElem_map, indexOf?_getElem hnd i (by simpa using h2), Option.getD_some]
        simp [h1]
    · intro r hr
      obtain ⟨i, hi⟩ := indexOf?_isSome hr
      simp [hi]
  · simp only [heq, if_false]
    rw [mapM_option_map]
    simp only [lookupKey_map_some]
    rfl

/-! ### the tail of `runKnown` / `runUnknown` on a sparse intermediate -/

/-- `_finalize_results`: the count mask, slot by slot over any index list -/
theorem finalizeResults_masked {α} (R' : Resolved) (x : Inter) (L : List α) (a cntv : α → Val)
    (expected : Option (List Key)) (rb : Bool)
    (hv : finalizeVals R' (if R'.minCount > 0 then x.cols.dropLast else x.cols) = L.map a)
    (hc : R'.minCount > 0 → x.cols.getLastD [] = L.map cntv) :
    finalizeResults R' x expected rb =
      match L.mapM (fun r => maskedSlot R' (cntv r) (a r)) with
      | .error e => .error e
      | .ok vals =>
        match expected, rb with
        | some ex, false =>
          match reindexCol vals x.groups ex R'.userFill with
          | some v => .ok (ex, v)
          | none => .error "ValueError"
        | _, _ => .ok (x.groups, vals) := by
  unfold finalizeResults
  by_cases hmc : R'.minCount > 0
  · simp only [hmc, if_true] at hv ⊢
    rw [hv, hc hmc, List.map_map]
    have hm := mask_mapM L a (fun g => countBelow (cntv g) R'.minCount) R'.userFill
    simp only [maskedSlot, hmc, true_and, Function.comp_def]
    rw [← hm]
    by_cases hany : (L.map (fun g => countBelow (cntv g) R'.minCount)).any id = true
    · simp only [hany, if_true]
      cases R'.userFill with
      | none => rfl
      | some f => rfl
    · simp only [hany, Bool.false_eq_true, if_false]
      rfl
  · simp only [hmc, if_false] at hv ⊢
    rw [hv]
    simp only [maskedSlot, hmc, false_and, if_false, mapM_except_ok]
    rfl

/-- `_finalize_results` with the reindex to `RangeIndex(n)` followed by the final reindex, on an intermediate whose
    groups are the found labels -/
theorem finish_sparse (c : Call) (R' : Resolved) (n : Nat) (x : Inter) (found : List Rat) (a cntv : Rat → Val)
    (hn : c.ngroups = n) (hg : x.groups = found.map some) (hfne : found ≠ []) (hnd : found.Nodup)
    (hv : finalizeVals R' (if R'.minCount > 0 then x.cols.dropLast else x.cols) = found.map a)
    (hc : R'.minCount > 0 → x.cols.getLastD [] = found.map cntv) :
    (match finalizeResults R' x (some (rangeKeys n)) false with
      | .error e => .error e
      | .ok (gs, vs) => finalReindex c false gs vs)
      = (match found.mapM (fun r => maskedSlot R' (cntv r) (a r)) with
        | .error e => .error e
        | .ok vs => (List.range n).mapM fun (g : Nat) =>
            match indexOf? (g : Rat) found with
            | some i => .ok (vs.getD i Val.nan)
            | none => fillOrError R'.userFill : Except String (List Val)) := by
  rw [finalizeResults_masked R' x found a cntv (some (rangeKeys n)) false hv hc]
  cases hm : found.mapM (fun r => maskedSlot R' (cntv r) (a r)) with
  | error e => rfl
  | ok vs =>
    have hlen : vs.length = found.length := mapM_except_length _ _ _ hm
    have hrk : rangeKeys n = ((List.range n).map fun (i : Nat) => (i : Rat)).map some := by
      simp [rangeKeys, List.map_map, Function.comp_def]
    simp only [hg]
    rw [hrk, reindexCol_some vs found _ R'.userFill hfne hnd hlen, mapM_option_map]
    have hE := mapM_option_toExcept
      (fun (g : Nat) => match indexOf? (g : Rat) found with
        | some i => some (vs.getD i Val.nan)
        | none => R'.userFill) (List.range n)
    have hE' : (List.range n).mapM (fun (g : Nat) => optToExcept (match indexOf? (g : Rat) found with
        | some i => some (vs.getD i Val.nan)
        | none => R'.userFill))
        = (List.range n).mapM fun (g : Nat) =>
            match indexOf? (g : Rat) found with
            | some i => (Except.ok (vs.getD i Val.nan) : Except String Val)
            | none => fillOrError R'.userFill := by
      apply mapM_except_congr
      intro g _
      cases indexOf? (g : Rat) found <;> rfl
    rw [← hE', ← hE]
    cases hr : (List.range n).mapM (fun (g : Nat) => match indexOf? (g : Rat) found with
        | some i => some (vs.getD i Val.nan)
        | none => R'.userFill) with
    | none => rfl
    | some v =>
      simp only [optToExcept]
      rw [← hrk]
      apply finalReindex_range c n v hn
      have := mapM_except_length _ _ _ (show (List.range n).mapM (fun (g : Nat) => optToExcept
        (match indexOf? (g : Rat) found with
        | some i => some (vs.getD i Val.nan)
        | none => R'.userFill)) = .ok v by rw [← hE, hr]; rfl)
      simpa using this

/-- from "mask all found labels, then look the requested ones up" to one independent slot per requested label;
    needs that a found label which is *not* requested is never masked into an error -/
theorem sparse_slots (n : Nat) (found : List Rat) (slotM : Rat → Except String Val) (uf : Option Val)
    (hnd : found.Nodup)
    (herr : ∀ r e, slotM r = .error e → e = "ValueError")
    (hdrop : ∀ r ∈ found, (∃ g : Nat, g < n ∧ r = (g : Rat)) ∨ ∃ v, slotM r = .ok v) :
    (match found.mapM slotM with
      | .error e => .error e
      | .ok vs => (List.range n).mapM fun (g : Nat) =>
          match indexOf? (g : Rat) found with
          | some i => .ok (vs.getD i Val.nan)
          | none => fillOrError uf : Except String (List Val))
      = (List.range n).mapM fun (g : Nat) => if (g : Rat) ∈ found then slotM (g : Rat) else fillOrError uf := by
  cases hm : found.mapM slotM with
  | ok vs =>
    apply mapM_except_congr
    intro g _
    by_cases hg : (g : Rat) ∈ found
    · obtain ⟨i, hi⟩ := indexOf?_isSome hg
      obtain ⟨hi', e⟩ := indexOf?_some hi
      have := mapM_except_getElem slotM found vs hm i hi'
      have hlen : vs.length = found.length := mapM_except_length _ _ _ hm
      simp only [hi, hg, if_true]
      rw [← e, this]
      simp [hlen, hi']
    · simp [indexOf?_none hg, hg]
  | error e =>
    obtain ⟨r, hr, he⟩ := mapM_except_error_mem slotM found e hm
    have heq := herr r e he
    subst heq
    rcases hdrop r hr with ⟨g, hg, rfl⟩ | ⟨v, hv⟩
    · symm
      apply mapM_except_error_of_mem
      · intro g' _ e' he'
        by_cases hg' : (g' : Rat) ∈ found
        · simp only [hg', if_true] at he'
          exact herr _ _ he'
        · simp only [hg', if_false] at he'
          cases uf with
          | none => simp [fillOrError, optToExcept] at he'; exact he'.symm
          | some f => simp [fillOrError, optToExcept] at he'
      · exact ⟨g, List.mem_range.mpr hg, by simp [hr, he]⟩
    · rw [hv] at he; cases he

/-! ### blueprints with a shape satisfy `GroupedOK` -/

theorem floatColumns_combine {k c : Kernel} {f : Val} (h : (k, c, f) ∈ floatColumns) :
    isArgKernel c = false ∧ c ≠ .nanlen ∧ c ≠ .nansumsq := by
  simp only [floatColumns, List.mem_cons, Prod.mk.injEq, List.mem_nil_iff, or_false] at h
  rcases h with ⟨_, rfl, _⟩ | ⟨_, rfl, _⟩ | ⟨_, rfl, _⟩ | ⟨_, rfl, _⟩ | ⟨_, rfl, _⟩ | ⟨_, rfl, _⟩ |
    ⟨_, rfl, _⟩ | ⟨_, rfl, _⟩ | ⟨_, rfl, _⟩ | ⟨_, rfl, _⟩ | ⟨_, rfl, _⟩ | ⟨_, rfl, _⟩ | ⟨_, rfl, _⟩ |
    ⟨_, rfl, _⟩ | ⟨_, rfl, _⟩ <;> simp [isArgKernel]

theorem _root_.Flox.Shape.Fits.chunk_pos_g {s : Shape} {R : Resolved} (hs : s.Fits R) : 0 < R.chunk.length := by
  rw [hs.chunk]
  cases s with
  | simple k c f => simp [Shape.chunk]
  | mean b => cases b <;> simp [Shape.chunk]
  | var b d => cases b <;> simp [Shape.chunk]

theorem _root_.Flox.Shape.Fits.groupedOK {s : Shape} {R : Resolved} (hs : s.Fits R) : GroupedOK R (fun _ => True) where
  harg := hs.isArg
  hc := hs.len_combine
  hf := hs.len_interFills
  hpos := hs.chunk_pos_g
  hlaw := fun j hj => GLaw_floatColumns _ _ _ (hs.col_mem j hj)
  hnoarg := hs.chunk_noarg
  hz := hs.chunk_zero
  hnoargC := by
    intro k hk
    obtain ⟨j, hj, rfl⟩ := List.getElem_of_mem hk
    have h1 := hs.len_combine
    exact (floatColumns_combine (hs.col_mem j (by omega))).1
  hzC := by
    intro p hp hk
    obtain ⟨j, hj, rfl⟩ := List.getElem_of_mem hp
    have h1 := hs.len_combine
    have h2 := hs.len_interFills
    simp only [List.length_zip] at hj
    simp only [List.getElem_zip] at hk
    have := floatColumns_combine (hs.col_mem j (by omega))
    rcases hk with hk | hk
    · exact absurd hk this.2.1
    · exact absurd hk this.2.2

/-! ### the finalizer on columns indexed by an arbitrary list -/

/-- intermediate columns indexed by a list `L` of labels with member lists `M` -/
def genCols {α} (ks : List Kernel) (fills : List Val) (L : List α) (M : α → List Val) : List (List Val) :=
  (ks.zip fills).map fun p => L.map fun g => blockVal p.1 p.2 (M g)

theorem sparseCols_eq_genCols (ks : List Kernel) (fills : List Val) (found : List Rat) (keys : List Key)
    (vals : List Val) :
    sparseCols ks fills found keys vals = genCols ks fills found (fun r => membersK (some r) keys vals) := rfl

theorem finalize_shape_gen {α} {s : Shape} {R : Resolved} (hs : s.Fits R) (L : List α) (M : α → List Val) :
    finalizeVals R (if R.minCount > 0 then (genCols R.chunk R.interFills L M).dropLast
        else genCols R.chunk R.interFills L M)
      = L.map fun g => s.mrVal (M g) := by
  have hfin := hs.fin
  have hddof := hs.ddof
  rw [hs.chunk, hs.interFills]
  cases s with
  | simple k c f =>
    have hf : R.finalize = "none" := by simpa [Shape.finalizeOK] using hfin
    rw [finalizeVals_none R _ hf]
    by_cases hm : R.minCount > 0 <;>
      simp [cntSuffix, hm, genCols, Shape.chunk, Shape.interFills, Shape.mrVal]
  | mean b =>
    have hf : R.finalize = "mean" := by simpa [Shape.finalizeOK] using hfin
    rw [finalizeVals_mean R _ hf]
    by_cases hm : R.minCount > 0 <;> cases b <;>
      simp [cntSuffix, hm, genCols, Shape.chunk, Shape.interFills, Shape.mrVal]
  | var b d =>
    have hd : d = R.ddof := by simpa [Shape.ddofOK] using hddof
    subst hd
    have hf : R.finalize = "var" ∨ R.finalize = "std" := by simpa [Shape.finalizeOK] using hfin
    have hfv : ∀ cols, finalizeVals R cols = ((cols.getD 0 []).zip ((cols.getD 1 []).zip (cols.getD 2 []))).map
        fun (sq, s, c) => onepass R.ddof sq s c := by
      intro cols
      rcases hf with hf | hf
      · exact finalizeVals_var R cols hf
      · exact finalizeVals_std R cols hf
    rw [hfv]
    by_cases hm : R.minCount > 0 <;> cases b <;>
      simp [cntSuffix, hm, genCols, Shape.chunk, Shape.interFills, Shape.mrVal, zip3_map]

theorem count_shape_gen {α} {s : Shape} {R : Resolved} (hs : s.Fits R) (L : List α) (M : α → List Val)
    (hm : R.minCount > 0) :
    (genCols R.chunk R.interFills L M).getLastD [] = L.map fun g => countVal (M g) := by
  rw [hs.chunk, hs.interFills]
  cases s with
  | simple k c f => simp [cntSuffix, hm, genCols, Shape.chunk, Shape.interFills, countVal]
  | mean b => cases b <;> simp [cntSuffix, hm, genCols, Shape.chunk, Shape.interFills, countVal]
  | var b d => cases b <;> simp [cntSuffix, hm, genCols, Shape.chunk, Shape.interFills, countVal]

/-! ### `runKnown … (.mapreduce false)` with the grouped combine, slot by slot -/

/-- (H_dropped) `_finalize_results` applies the count mask to *all* groups of the combined sparse intermediate,
    including the group `-1` of dropped elements, *before* the reindex to the requested labels.  When no fill value
    was given, a dropped group with fewer than `min_count` valid members therefore raises, although no requested
    label needs filling.  The hypothesis excludes exactly that. -/
def HDropped (R : Resolved) (codes : List Int) (vals : List Val) : Prop :=
  R.userFill = none → R.minCount > 0 → (-1 : Int) ∈ codes →
    R.minCount ≤ Spec.validCount (members (-1) codes vals)

instance (R : Resolved) (codes : List Int) (vals : List Val) : Decidable (HDropped R codes vals) := by
  unfold HDropped; infer_instance

theorem mem_codeKeys {r : Rat} {codes : List Int} : some r ∈ codeKeys codes ↔ ∃ c ∈ codes, r = (c : Rat) := by
  simp only [codeKeys, List.mem_map, Option.some.injEq]
  constructor
  · rintro ⟨c, hc, e⟩; exact ⟨c, hc, e.symm⟩
  · rintro ⟨c, hc, e⟩; exact ⟨c, hc, e.symm⟩

theorem natCast_rat_eq (g : Nat) : (g : Rat) = ((Int.ofNat g : Int) : Rat) := by
  simp [Rat.intCast_natCast]

theorem presentKeys_codeKeys_ne_nil (codes : List Int) (hne : codes ≠ []) : presentKeys (codeKeys codes) ≠ [] := by
  cases codes with
  | nil => exact absurd rfl hne
  | cons c cs => simp [codeKeys, presentKeys]

theorem runKnown_grouped_slots (R : Resolved) (s : Shape) (c : Call) (n : Nat) (floatData : Bool)
    (chunks : List Nat) (codes : List Int) (vals : List Val)
    (hR : c.R = R) (heng : c.eng = .npg) (hn : c.ngroups = n) (hs : s.Fits R) (hcodes : CodesOK codes n)
    (hlen : codes.length = vals.length) (hne : codes ≠ [])
    (hchunks : chunks ≠ []) (hsum : chunks.sum = codes.length)
    (hcombine : useGroupedCombine c floatData = true)
    (H_dropped : HDropped R codes vals) :
    runKnown c (.mapreduce false) floatData chunks (codeKeys codes) vals
      = (List.range n).mapM fun (g : Nat) =>
          if members (Int.ofNat g) codes vals = [] then fillOrError R.userFill
          else mrSlot R s (members (Int.ofNat g) codes vals) := by
  subst hR
  have hklen : (codeKeys codes).length = codes.length := by simp [codeKeys]
  simp only [runKnown, hcombine, if_true]
  rw [heng, mapreduce_sparse c chunks (codeKeys codes) vals c.splitEvery hs.groupedOK heng hchunks
    (by omega) (by omega) (fun _ _ => trivial)]
  have hpk := presentKeys_codeKeys_ne_nil codes hne
  have hx : sparseInter c.R.chunk c.R.interFills c.sort (codeKeys codes) vals
      = { groups := (foundOf c.sort (codeKeys codes)).map some,
          cols := genCols c.R.chunk c.R.interFills (foundOf c.sort (codeKeys codes))
            (fun r => membersK (some r) (codeKeys codes) vals) } := by
    simp only [sparseInter, hpk, if_false]; rfl
  rw [hx, hn]
  have hfne : foundOf c.sort (codeKeys codes) ≠ [] :=
    fun h => hpk ((presentKeys_nil_iff_foundOf c.sort _).mpr h)
  refine (finish_sparse c c.R n _ (foundOf c.sort (codeKeys codes))
    (fun r => s.mrVal (membersK (some r) (codeKeys codes) vals))
    (fun r => countVal (membersK (some r) (codeKeys codes) vals)) hn rfl hfne (nodup_foundOf _ _)
    (finalize_shape_gen hs _ _) (count_shape_gen hs _ _)).trans ?_
  rw [sparse_slots n (foundOf c.sort (codeKeys codes)) _ c.R.userFill (nodup_foundOf _ _)]
  · apply mapM_except_congr
    intro g _
    have hmem : (g : Rat) ∈ foundOf c.sort (codeKeys codes) ↔ members (Int.ofNat g) codes vals ≠ [] := by
      rw [mem_foundOf, natCast_rat_eq g, ← membersK_codeKeys]
      constructor
      · intro h; exact membersK_ne_nil_of_mem _ _ _ h (by omega)
      · intro h
        apply Classical.byContradiction
        intro hnot
        exact h (membersK_eq_nil_of_not_mem _ _ _ hnot)
    by_cases hm : members (Int.ofNat g) codes vals = []
    · have : ¬ (g : Rat) ∈ foundOf c.sort (codeKeys codes) := fun h => hmem.mp h hm
      simp only [this, hm, if_false, if_true]
    · have : (g : Rat) ∈ foundOf c.sort (codeKeys codes) := hmem.mpr hm
      simp only [this, hm, if_false, if_true]
      rw [natCast_rat_eq g, membersK_codeKeys]
      rfl
  · intro r e he
    rw [maskedSlot_countVal] at he
    split at he
    · cases huf : c.R.userFill with
      | none => simp [huf, fillOrError, optToExcept] at he; exact he.symm
      | some f => simp [huf, fillOrError, optToExcept] at he
    · cases he
  · intro r hr
    obtain ⟨cd, hcd, rfl⟩ := mem_codeKeys.mp ((mem_foundOf _ _ _).mp hr)
    have hb := hcodes cd hcd
    by_cases h0 : 0 ≤ cd
    · left
      refine ⟨cd.toNat, by omega, ?_⟩
      rw [natCast_rat_eq]
      congr 1
      simp only [Int.ofNat_eq_natCast]
      omega
    · right
      have hcd1 : cd = -1 := by omega
      subst hcd1
      rw [maskedSlot_countVal, membersK_codeKeys]
      by_cases hmask : c.R.minCount > 0 ∧ Spec.validCount (members (-1) codes vals) < c.R.minCount
      · cases huf : c.R.userFill with
        | none =>
          have := H_dropped huf hmask.1 hcd
          omega
        | some f => exact ⟨f, by simp [hmask, fillOrError, optToExcept]⟩
      · exact ⟨s.mrVal (members (-1) codes vals), by simp only [hmask, if_false]⟩

/-- the specification slot of a label without members is the user's fill (or the error) -/
theorem specSlot_nil (R : Resolved) (k : Kernel) : specSlot R k [] = fillOrError R.userFill := by
  simp [specSlot, Spec.slot, fillOrError]

/-- **G1, end to end (C02 for the grouped combine).** Map-reduce *without* reindexing at the block stage, combined
    with `_grouped_combine` (the plan used for `nanfirst`/`nanlast` on non-float data), equals the specification for
    every chunking and every `split_every`.  No `H_absent` is needed: absent labels are filled by the reindex in
    `_finalize_results` with the user's fill. -/
theorem mapreduce_grouped_eq_spec (R : Resolved) (s : Shape) (c : Call) (n : Nat) (floatData : Bool)
    (chunks : List Nat) (codes : List Int) (vals : List Val)
    (hR : c.R = R) (heng : c.eng = .npg) (hn : c.ngroups = n)
    (hshape : R.shape? = some s) (hcodes : CodesOK codes n) (hlen : codes.length = vals.length)
    (hne : codes ≠ [])
    (H_minmax : HMinMax R s) (H_dropped : HDropped R codes vals)
    (hchunks : chunks ≠ []) (hsum : chunks.sum = codes.length)
    (hcombine : useGroupedCombine c floatData = true) :
    runKnown c (.mapreduce false) floatData chunks (codeKeys codes) vals = specResult s.kernel R codes vals n := by
  have hs := (R.shape?_eq_some_iff s).mp hshape
  rw [runKnown_grouped_slots R s c n floatData chunks codes vals hR heng hn hs hcodes hlen hne hchunks hsum hcombine
    H_dropped, specResult_slots hs]
  apply mapM_except_congr
  intro g _
  by_cases hm : members (Int.ofNat g) codes vals = []
  · simp only [hm, if_true, specSlot_nil]
  · simp only [hm, if_false]
    exact mrSlot_eq_specSlot hs _ (Or.inr hm) H_minmax

/-- grouped map-reduce = eager path -/
theorem mapreduce_grouped_eq_eager (R : Resolved) (s : Shape) (c : Call) (n : Nat) (floatData : Bool)
    (chunks chunks' : List Nat) (codes : List Int) (vals : List Val)
    (hR : c.R = R) (heng : c.eng = .npg) (hn : c.ngroups = n) (hknown : c.knownLabels = true)
    (hshape : R.shape? = some s) (hcodes : CodesOK codes n) (hlen : codes.length = vals.length)
    (hne : codes ≠ [])
    (H_absent : ∀ g : Nat, g < n → HAbsent R (members (Int.ofNat g) codes vals))
    (H_allnan : HAllNaN R s) (H_minmax : HMinMax R s) (H_dropped : HDropped R codes vals)
    (hchunks : chunks ≠ []) (hsum : chunks.sum = codes.length)
    (hcombine : useGroupedCombine c floatData = true) :
    runKnown c (.mapreduce false) floatData chunks (codeKeys codes) vals
      = runKnown c .eager floatData chunks' (codeKeys codes) vals := by
  rw [mapreduce_grouped_eq_spec R s c n floatData chunks codes vals hR heng hn hshape hcodes hlen hne H_minmax
      H_dropped hchunks hsum hcombine,
    eager_eq_spec R s c n floatData chunks' codes vals hR heng hn hknown hshape hcodes hlen H_absent H_allnan]

/-! ### labels discovered at compute time (C12) -/

/-- the right-hand side of C12: the found labels (sorted when `sort`, else in order of first appearance) and, per
    label, the specification slot of its members -/
def specUnknown (k : Kernel) (R : Resolved) (sort : Bool) (keys : List Key) (vals : List Val) :
    Except String (List Key × List Val) :=
  match (foundOf sort keys).mapM (fun r => specSlot R k (membersK (some r) keys vals)) with
  | .error e => .error e
  | .ok vs => .ok ((foundOf sort keys).map some, vs)

/-- (H_allmissing) when EVERY label is missing, `_finalize_results` still applies the count mask to the `NaN`
    placeholder group (count 0) *before* `_aggregate` drops that group: with `min_count > 0` and no fill value it
    raises `ValueError("Filling is required…")` although there is no group at all.  The hypothesis excludes exactly
    that combination (see `runUnknown_all_missing_error`). -/
def HAllMissing (R : Resolved) (keys : List Key) : Prop :=
  presentKeys keys = [] → R.minCount > 0 → R.userFill ≠ none

instance (R : Resolved) (keys : List Key) : Decidable (HAllMissing R keys) := by
  unfold HAllMissing; infer_instance

/-- dropping the pairs whose label is null keeps everything when all labels are present -/
theorem filter_isSome_zip_map_some (found : List Rat) (vs : List Val) :
    ((found.map some).zip vs).filter (fun p => p.1.isSome) = (found.map some).zip vs := by
  apply List.filter_eq_self.mpr
  intro p hp
  have := (List.of_mem_zip hp).1
  obtain ⟨r, _, e⟩ := List.mem_map.mp this
  rw [← e]; rfl

/-- the combined intermediate when every label is missing: the single placeholder group `NaN` holding the fills -/
theorem sparseInter_all_missing (ks : List Kernel) (fills : List Val) (sort : Bool) (keys : List Key)
    (vals : List Val) (h : presentKeys keys = []) :
    sparseInter ks fills sort keys vals
      = { groups := [none], cols := genCols ks fills [()] (fun _ => ([] : List Val)) } := by
  simp only [sparseInter, h, if_true, genCols, List.map_cons, List.map_nil]
  rfl

/-- the tail of `runUnknown` (`_finalize_results` without expected groups, then dropping null labels) in terms of
    `specUnknown`, for both the regular and the all-missing case -/
theorem runUnknown_tail {s : Shape} {R : Resolved} (hs : s.Fits R) (sort : Bool) (keys : List Key) (vals : List Val)
    (hlen : keys.length = vals.length) (H_minmax : HMinMax R s) (H_allmissing : HAllMissing R keys) :
    (match finalizeResults R (sparseInter R.chunk R.interFills sort keys vals) none false with
      | .error e => .error e
      | .ok (gs, vs) =>
        .ok ((((gs.zip vs).filter fun p => p.1.isSome)).map (·.1), (((gs.zip vs).filter fun p => p.1.isSome)).map (·.2)))
      = specUnknown s.kernel R sort keys vals := by
  by_cases hpres : presentKeys keys = []
  · -- every label missing: one placeholder group, dropped after the mask
    have hfound : foundOf sort keys = [] := (presentKeys_nil_iff_foundOf sort keys).mp hpres
    rw [sparseInter_all_missing _ _ _ _ _ hpres, finalizeResults_masked R _ [()]
      (fun _ => s.mrVal []) (fun _ => countVal []) none false
      (finalize_shape_gen hs _ _) (count_shape_gen hs _ _)]
    unfold specUnknown
    rw [hfound]
    have hm : [()].mapM (fun _ => maskedSlot R (countVal []) (s.mrVal []))
        = (match maskedSlot R (countVal []) (s.mrVal []) with
            | .error e => .error e
            | .ok v => .ok [v] : Except String (List Val)) := by
      rw [mapM_except_cons]
      cases maskedSlot R (countVal []) (s.mrVal []) <;> rfl
    rw [hm, maskedSlot_countVal]
    by_cases hmask : R.minCount > 0 ∧ Spec.validCount [] < R.minCount
    · have huf := H_allmissing hpres hmask.1
      cases hu : R.userFill with
      | none => exact absurd hu huf
      | some f => simp only [hmask, and_self, if_true, fillOrError, optToExcept, hu]; rfl
    · simp only [hmask, if_false]; rfl
  · have hx : sparseInter R.chunk R.interFills sort keys vals
        = { groups := (foundOf sort keys).map some,
            cols := genCols R.chunk R.interFills (foundOf sort keys)
              (fun r => membersK (some r) keys vals) } := by
      simp only [sparseInter, hpres, if_false]; rfl
    rw [hx, finalizeResults_masked R _ (foundOf sort keys)
      (fun r => s.mrVal (membersK (some r) keys vals))
      (fun r => countVal (membersK (some r) keys vals)) none false
      (finalize_shape_gen hs _ _) (count_shape_gen hs _ _)]
    unfold specUnknown
    have hslots : (foundOf sort keys).mapM (fun r => maskedSlot R (countVal (membersK (some r) keys vals))
          (s.mrVal (membersK (some r) keys vals)))
        = (foundOf sort keys).mapM (fun r => specSlot R s.kernel (membersK (some r) keys vals)) := by
      apply mapM_except_congr
      intro r hr
      have hne : membersK (some r) keys vals ≠ [] :=
        membersK_ne_nil_of_mem _ _ _ ((mem_foundOf _ _ _).mp hr) (by omega)
      exact mrSlot_eq_specSlot hs _ (Or.inr hne) H_minmax
    rw [hslots]
    cases hm : (foundOf sort keys).mapM (fun r => specSlot R s.kernel (membersK (some r) keys vals)) with
    | error e => rfl
    | ok vs =>
      have hl : vs.length = (foundOf sort keys).length := mapM_except_length _ _ _ hm
      simp only [filter_isSome_zip_map_some]
      rw [List.map_fst_zip (by simp [hl]), List.map_snd_zip (by simp [hl])]

/-- **G1 / C12, end to end.** With labels unknown until compute time (`runUnknown`: map-reduce without reindexing,
    `_grouped_combine`, `_finalize_results` without expected groups, null labels dropped) the returned
    `(groups, values)` are the distinct non-missing labels and, per label, the NumPy reduction of the elements carrying
    it (the user's fill / `ValueError` when it has fewer than `min_count` valid members), for every chunking and every
    `split_every`.  When every label is missing the result is `.ok ([], [])` (under `H_allmissing`). -/
theorem runUnknown_eq_spec (R : Resolved) (s : Shape) (c : Call) (chunks : List Nat) (keys : List Key)
    (vals : List Val)
    (hR : c.R = R) (heng : c.eng = .npg) (hshape : R.shape? = some s)
    (hlen : keys.length = vals.length)
    (H_minmax : HMinMax R s) (H_allmissing : HAllMissing R keys)
    (hchunks : chunks ≠ []) (hsum : chunks.sum = keys.length) :
    runUnknown c chunks keys vals = specUnknown s.kernel R c.sort keys vals := by
  subst hR
  have hs := (c.R.shape?_eq_some_iff s).mp hshape
  simp only [runUnknown]
  rw [heng, mapreduce_sparse c chunks keys vals c.splitEvery hs.groupedOK heng hchunks hsum hlen
    (fun _ _ => trivial)]
  exact runUnknown_tail hs c.sort keys vals hlen H_minmax H_allmissing

/-- every label missing: there is no group, the result is empty -/
theorem specUnknown_all_missing (k : Kernel) (R : Resolved) (sort : Bool) (keys : List Key) (vals : List Val)
    (h : presentKeys keys = []) : specUnknown k R sort keys vals = .ok ([], []) := by
  unfold specUnknown
  rw [(presentKeys_nil_iff_foundOf sort keys).mp h]
  rfl

/-- **every label missing** (`H_allmissing` holds): `runUnknown` returns no group at all -/
theorem runUnknown_all_missing (R : Resolved) (s : Shape) (c : Call) (chunks : List Nat) (keys : List Key)
    (vals : List Val)
    (hR : c.R = R) (heng : c.eng = .npg) (hshape : R.shape? = some s)
    (hlen : keys.length = vals.length) (hmiss : presentKeys keys = [])
    (H_minmax : HMinMax R s) (hfill : R.minCount > 0 → R.userFill ≠ none)
    (hchunks : chunks ≠ []) (hsum : chunks.sum = keys.length) :
    runUnknown c chunks keys vals = .ok ([], []) := by
  rw [runUnknown_eq_spec R s c chunks keys vals hR heng hshape hlen H_minmax (fun _ => hfill) hchunks hsum,
    specUnknown_all_missing _ _ _ _ _ hmiss]

/-- **every label missing, `min_count > 0`, no fill value** (the case `H_allmissing` excludes): the count mask hits
    the placeholder group before it is dropped and `runUnknown` raises, although the eager computation returns the
    empty result (`specUnknown … = .ok ([], [])`).  A remaining finding (reproduced on the library). -/
theorem runUnknown_all_missing_error (R : Resolved) (s : Shape) (c : Call) (chunks : List Nat) (keys : List Key)
    (vals : List Val)
    (hR : c.R = R) (heng : c.eng = .npg) (hshape : R.shape? = some s)
    (hlen : keys.length = vals.length) (hmiss : presentKeys keys = [])
    (hmc : R.minCount > 0) (hfill : R.userFill = none)
    (hchunks : chunks ≠ []) (hsum : chunks.sum = keys.length) :
    runUnknown c chunks keys vals = .error "ValueError" := by
  subst hR
  have hs := (c.R.shape?_eq_some_iff s).mp hshape
  simp only [runUnknown]
  rw [heng, mapreduce_sparse c chunks keys vals c.splitEvery hs.groupedOK heng hchunks hsum hlen
    (fun _ _ => trivial), sparseInter_all_missing _ _ _ _ _ hmiss, finalizeResults_masked c.R _ [()]
      (fun _ => s.mrVal []) (fun _ => countVal []) none false
      (finalize_shape_gen hs _ _) (count_shape_gen hs _ _)]
  have hm : [()].mapM (fun _ => maskedSlot c.R (countVal []) (s.mrVal []))
      = (.error "ValueError" : Except String (List Val)) := by
    rw [mapM_except_cons, maskedSlot_countVal]
    have : c.R.minCount > 0 ∧ Spec.validCount [] < c.R.minCount := ⟨hmc, by rw [validCount_nil]; exact hmc⟩
    simp only [this, and_self, if_true, fillOrError, optToExcept, hfill]
  rw [hm]

/-- with `sort = true` the discovered labels are strictly increasing … -/
theorem foundOf_sorted (keys : List Key) : (foundOf true keys).Pairwise (· < ·) := pairwise_uniqSorted _

/-- … and in both modes they are exactly the distinct non-missing labels -/
theorem foundOf_spec (sort : Bool) (keys : List Key) :
    (foundOf sort keys).Nodup ∧ ∀ r, r ∈ foundOf sort keys ↔ some r ∈ keys :=
  ⟨nodup_foundOf sort keys, fun r => mem_foundOf sort r keys⟩

/-- C12 "same mapping": labels discovered at compute time give, for every requested label that occurs, the same value
    as the run with labels known in advance (both equal the specification slot) -/
theorem runUnknown_chunking_tree_irrelevant (R : Resolved) (s : Shape) (c₁ c₂ : Call) (chunks₁ chunks₂ : List Nat)
    (keys : List Key) (vals : List Val)
    (hR₁ : c₁.R = R) (heng₁ : c₁.eng = .npg) (hR₂ : c₂.R = R) (heng₂ : c₂.eng = .npg) (hsort : c₁.sort = c₂.sort)
    (hshape : R.shape? = some s)
    (hlen : keys.length = vals.length)
    (H_minmax : HMinMax R s) (H_allmissing : HAllMissing R keys)
    (hchunks₁ : chunks₁ ≠ []) (hsum₁ : chunks₁.sum = keys.length)
    (hchunks₂ : chunks₂ ≠ []) (hsum₂ : chunks₂.sum = keys.length) :
    runUnknown c₁ chunks₁ keys vals = runUnknown c₂ chunks₂ keys vals := by
  rw [runUnknown_eq_spec R s c₁ chunks₁ keys vals hR₁ heng₁ hshape hlen H_minmax H_allmissing hchunks₁ hsum₁,
    runUnknown_eq_spec R s c₂ chunks₂ keys vals hR₂ heng₂ hshape hlen H_minmax H_allmissing hchunks₂ hsum₂, hsort]

/-! ### `nanfirst` / `nanlast` on non-float data: an arbitrary (non-NaN) intermediate fill, NaN-free values

  For integer data `_initialize_aggregation` resolves `nanfirst` / `nanlast` with the intermediate fill `INT_MIN`
  (not NaN), so these blueprints are *not* in `floatColumns` and have no `Shape`.  The grouped-combine law still
  holds on NaN-free values (integer data cannot hold NaN), which gives the tree theorem for these blueprints
  (`mapreduce_sparse_intdata_partial`: combined intermediates, not yet the finalized result). -/

theorem firstNonNaN_nonNaN (xs : List Val) (h : dropNaN xs ≠ []) : (firstNonNaN xs).isNaN = false := by
  induction xs with
  | nil => exact absurd rfl h
  | cons x xs ih =>
    rw [firstNonNaN_cons]
    by_cases hx : x.isNaN = true
    · simp only [hx, if_true]
      apply ih
      rw [dropNaN_cons] at h
      simpa [hx] using h
    · simp only [hx, Bool.false_eq_true, if_false]

theorem lastNonNaN_nonNaN (xs : List Val) (h : dropNaN xs ≠ []) : (lastNonNaN xs).isNaN = false := by
  unfold lastNonNaN
  apply firstNonNaN_nonNaN
  rw [dropNaN_reverse]
  simpa using h

theorem dropNaN_ne_nil_of_mem {xs : List Val} {x : Val} (hx : x ∈ xs) (hn : x.isNaN = false) : dropNaN xs ≠ [] := by
  intro h
  have := (dropNaN_eq_nil_iff.mp h) x hx
  rw [hn] at this; cases this

theorem GLaw_nanfirst_nanlast (k : Kernel) (hk : k = .nanfirst ∨ k = .nanlast) (f : Val) :
    GLaw (fun v => v.isNaN = false) k k f := by
  intro parts hne hparts
  have hvalid : ∀ p ∈ parts, dropNaN p ≠ [] := by
    intro p hp
    obtain ⟨hpne, hpn⟩ := hparts p hp
    cases p with
    | nil => exact absurd rfl hpne
    | cons x xs => exact dropNaN_ne_nil_of_mem (List.mem_cons_self) (hpn x (by simp))
  have hblock : ∀ p ∈ parts, blockVal k f p = kEval k p := fun p hp => EngineFlox.blockVal_valid _ _ _ (hvalid p hp)
  have hnn : ∀ p ∈ parts, (kEval k p).isNaN = false := by
    intro p hp
    rcases hk with rfl | rfl
    · exact firstNonNaN_nonNaN p (hvalid p hp)
    · exact lastNonNaN_nonNaN p (hvalid p hp)
  rw [List.map_congr_left hblock]
  obtain ⟨p0, hp0⟩ := List.exists_mem_of_ne_nil parts hne
  have h1 : dropNaN (parts.map (kEval k)) ≠ [] :=
    dropNaN_ne_nil_of_mem (List.mem_map.mpr ⟨p0, hp0, rfl⟩) (hnn p0 hp0)
  have h2 : dropNaN parts.flatten ≠ [] := by
    obtain ⟨hpne, hpn⟩ := hparts p0 hp0
    cases p0 with
    | nil => exact absurd rfl hpne
    | cons x xs =>
      exact dropNaN_ne_nil_of_mem (List.mem_flatten.mpr ⟨_, hp0, List.mem_cons_self⟩) (hpn x (by simp))
  rw [EngineFlox.blockVal_valid _ _ _ h1, EngineFlox.blockVal_valid _ _ _ h2]
  rcases hk with rfl | rfl
  · exact firstNonNaN_map_flatten parts
  · exact lastNonNaN_map_flatten parts

/-- a single-column `nanfirst` / `nanlast` blueprint with any intermediate fill -/
theorem groupedOK_intdata (R : Resolved) (k : Kernel) (hk : k = .nanfirst ∨ k = .nanlast) (f : Val)
    (harg : R.isArg = false) (hchunk : R.chunk = [k]) (hcombine : R.combine = [k]) (hfills : R.interFills = [f]) :
    GroupedOK R (fun v => v.isNaN = false) where
  harg := harg
  hc := by rw [hchunk, hcombine]
  hf := by rw [hchunk, hfills]; rfl
  hpos := by rw [hchunk]; simp
  hlaw := by
    intro j hj
    have : j = 0 := by rw [hchunk] at hj; simpa using hj
    subst this
    simp only [hchunk, hcombine, hfills, List.getElem_cons_zero]
    exact GLaw_nanfirst_nanlast k hk f
  hnoarg := by rw [hchunk]; rcases hk with rfl | rfl <;> simp [isArgKernel]
  hz := by rw [hchunk, hfills]; rcases hk with rfl | rfl <;> simp
  hnoargC := by rw [hcombine]; rcases hk with rfl | rfl <;> simp [isArgKernel]
  hzC := by rw [hcombine, hfills]; rcases hk with rfl | rfl <;> simp

/-- **G1 for integer-typed `nanfirst` / `nanlast` (partial: combined intermediates).** With an arbitrary intermediate
    fill (e.g. `INT_MIN`) and NaN-free values, map-reduce without reindexing + `_grouped_combine` yields, for every
    chunking and every `split_every`, the found labels and per label the first / last member. -/
theorem mapreduce_sparse_intdata_partial (c : Call) (k : Kernel) (hk : k = .nanfirst ∨ k = .nanlast) (f : Val)
    (chunks : List Nat) (keys : List Key) (vals : List Val) (se : Nat)
    (harg : c.R.isArg = false) (hchunk : c.R.chunk = [k]) (hcombine : c.R.combine = [k])
    (hfills : c.R.interFills = [f]) (heng : c.eng = .npg)
    (hchunks : chunks ≠ []) (hsum : chunks.sum = keys.length) (hlen : keys.length = vals.length)
    (hnonan : ∀ v ∈ vals, v.isNaN = false) (hpres : presentKeys keys ≠ []) :
    groupedCombine c.R .npg c.sort (treeReduce (groupedCombine c.R .npg c.sort) se
        (blockStage c false chunks keys vals))
      = { groups := (foundOf c.sort keys).map some,
          cols := [(foundOf c.sort keys).map fun r => kEval k (membersK (some r) keys vals)] } := by
  rw [mapreduce_sparse c chunks keys vals se (groupedOK_intdata c.R k hk f harg hchunk hcombine hfills) heng hchunks
    hsum hlen hnonan]
  simp only [sparseInter, hpres, if_false, sparseCols, hchunk, hfills, List.zip_cons_cons, List.zip_nil_right,
    List.map_cons, List.map_nil]
  congr 2
  apply List.map_congr_left
  intro r hr
  apply EngineFlox.blockVal_valid
  have hmem := (mem_foundOf _ _ _).mp hr
  have hne := membersK_ne_nil_of_mem _ _ vals hmem (by omega)
  cases hm : membersK (some r) keys vals with
  | nil => exact absurd hm hne
  | cons x xs =>
    have hx : x ∈ membersK (some r) keys vals := by rw [hm]; simp
    exact dropNaN_ne_nil_of_mem (List.mem_cons_self) (hnonan x (mem_of_mem_membersK hx))

end Flox.Grp
