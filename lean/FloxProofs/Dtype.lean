/-
  C11 — proofs about the dtype model (`FloxModel/Dtype.lean`) over the regenerated table
  (`FloxModel/Generated/Dtypes.lean`).  The grid reduction × dtype × dtype= × fill × min_count × engine is finite: it IS
  the property's quantifier, and every statement below is for ALL its cells (kernel-checked enumeration).
  The chunk statements are for all label lists / chunkings (structural proofs).
-/
import FloxModel

namespace Flox.DtypeProofs
open Flox Flox.Generated

/-! ### the enumerations are complete -/

theorem func_mem (f : Func) : f ∈ Func.all := by cases f <;> decide
theorem dtype_mem (d : DType) : d ∈ DType.all := by cases d <;> decide
theorem user_mem (u : UserD) : u ∈ UserD.all := by cases u <;> decide
theorem fill_mem (k : FillK) : k ∈ FillK.all := by cases k <;> decide
theorem bool_mem (b : Bool) : b ∈ [false, true] := by cases b <;> decide

/-- a Boolean check holds on the whole grid reduction × dtype × dtype= × fill × (min_count > 0) -/
def gridAll (p : Func → DType → UserD → FillK → Bool → Bool) : Bool :=
  Func.all.all fun f => DType.all.all fun d => UserD.all.all fun u => FillK.all.all fun k =>
    [false, true].all fun mc => p f d u k mc

theorem gridAll_spec {p : Func → DType → UserD → FillK → Bool → Bool} (h : gridAll p = true)
    (f : Func) (d : DType) (u : UserD) (k : FillK) (mc : Bool) : p f d u k mc = true := by
  simp only [gridAll, List.all_eq_true] at h
  exact h f (func_mem f) d (dtype_mem d) u (user_mem u) k (fill_mem k) mc (bool_mem mc)

/-- NumPy's dtype × dtype promotion, as tabulated from NumPy -/
def promote (a b : DType) : Option DType := lookup2 npPromote a b

/-- the model on the regenerated table -/
def model (f : Func) (d : DType) (u : UserD) (k : FillK) (mc e : Bool) : Except String DType :=
  apiDtype dtypeRowsOf f d u k mc e

def spec (f : Func) (d : DType) (u : UserD) (k : FillK) : Option DType := npConvention promote f d u k

def exceptOk? : Except String DType → Option DType
  | .ok d => some d
  | .error _ => none

def sameExcept : Except String DType → Except String DType → Bool
  | .ok a, .ok b => a == b
  | .error a, .error b => a == b
  | _, _ => false

theorem sameExcept_eq {a b : Except String DType} (h : sameExcept a b = true) : a = b := by
  cases a <;> cases b <;> simp_all [sameExcept]

/-! ### tie 2: the hand-written NumPy conventions of the spec agree with NumPy's own tables -/

theorem weakPromote_eq_numpy : ∀ r ∈ npWeak, weakPromote r.1 r.2.1 = r.2.2 := by decide +kernel

theorem minScalar_eq_numpy : ∀ r ∈ npMinScalar, r.1.int?.map minScalar = some r.2 := by decide +kernel

theorem range_eq_numpy :
    ∀ r ∈ npFits, (match r.1.range?, r.2.1.int? with
      | some (lo, hi), some v => some (decide (lo ≤ v ∧ v ≤ hi))
      | _, _ => none) = some r.2.2 := by decide +kernel

/-- wherever NumPy itself performs the reduction, the spec's default dtype is NumPy's -/
theorem npBase_eq_numpy : ∀ r ∈ npReduce, ∀ t, r.2.2 = some t → npBase r.1 r.2.1 = t := by decide +kernel

/-- the nan-skipping variants follow the same convention as their NumPy namesakes -/
theorem npBase_nan_variants (d : DType) :
    npBase .nansum d = npBase .sum d ∧ npBase .nanprod d = npBase .prod d ∧ npBase .nanmean d = npBase .mean d ∧
    npBase .nanvar d = npBase .var d ∧ npBase .nanstd d = npBase .std d ∧ npBase .nanmax d = npBase .max_ d ∧
    npBase .nanmin d = npBase .min_ d ∧ npBase .nanargmax d = npBase .argmax d ∧ npBase .nanargmin d = npBase .argmin d ∧
    npBase .nanmedian d = npBase .median d ∧ npBase .nanquantile d = npBase .quantile d := by
  cases d <;> decide

/-- flox's `_maybe_promote_int` is NumPy's default-integer promotion of sums / products (bool is handled at entry) -/
theorem promoteInt_eq_convention : ∀ r ∈ floxPromoteInt, r.1 ≠ .bool → r.2 = npBase .sum r.1 := by decide +kernel

/-! ### the property, cell by cell -/

/-- the result dtype (`none` = the call is refused) -/
def modelDtype (f : Func) (d : DType) (u : UserD) (k : FillK) (mc e : Bool) : Option DType :=
  exceptOk? (model f d u k mc e)

def wide (t : DType) : Bool := t == .i64 || t == .u64 || t == .f64

def sumLike (s : String) : Bool :=
  s == "sum" || s == "nansum" || s == "prod" || s == "nanprod" || s == "sum_of_squares" || s == "nansum_of_squares"

def accumulates (f : Func) : Bool := f.family == .additive || f.family == .floating || f.family == .quantile

/-- inside NumPy's domain and outside the recorded deviation the model's dtype is the convention's,
    and the call is refused by the dtype logic only for arg-reductions with a floating `dtype=` -/
def checkConvention (f : Func) (d : DType) (u : UserD) (k : FillK) (mc : Bool) : Bool :=
  !(inDomain f d u k) ||
    (match model f d u k mc false with
     | .ok r => knownDeviation f d u k || spec f d u (effFill f k mc) == some r
     | .error _ => argFloatRefused f u)

/-- `engine="flox"` changes one branch of the entry logic (count on datetimes): never the result -/
def checkEngineCount (_f : Func) (d : DType) (u : UserD) (k : FillK) (mc : Bool) : Bool :=
  sameExcept (model .count d u k mc true) (model .count d u k mc false) &&
    apiInit dtypeRowsOf .count d u k mc true == apiInit dtypeRowsOf .count d u k mc false

/-- `min_count` matters in exactly one documented cell: nansum / nanprod without a fill (then it acts as a NaN fill) -/
def checkMinCount (f : Func) (d : DType) (u : UserD) (k : FillK) (mc : Bool) : Bool :=
  !mc ||
    (if (f == .nansum || f == .nanprod) && k == .unset then
      modelDtype f d u .unset true false == modelDtype f d u .nan true false
    else modelDtype f d u k true false == modelDtype f d u k false false)

/-- integer (or bool) input, no `dtype=`: everything that accumulates does so in a 64-bit dtype: the dtype handed to the
    eager kernel of sum / prod / mean / var / std / median / quantile and every sum-like intermediate -/
def checkWide (f : Func) (d : DType) (u : UserD) (k : FillK) (mc : Bool) : Bool :=
  !((d == .bool || d.isInt) && u == .unset) ||
    (match apiInit dtypeRowsOf f d u k mc false with
     | none => false
     | some init =>
        (init.inter.all fun p => !(sumLike p.1) || wide p.2) &&
        (!(accumulates f) || (wide init.final && init.numpy.head? == some init.final)))

/-- with a requested dtype the accumulators are that (final) dtype or wider: never the narrow integer input dtype -/
def checkWideUser (f : Func) (d : DType) (u : UserD) (k : FillK) (mc : Bool) : Bool :=
  !((d == .bool || d.isInt) && u != .unset && (f.family == .additive || f.family == .floating)) ||
    (match apiInit dtypeRowsOf f d u k mc false with
     | none => false
     | some init => init.inter.all fun p => !(sumLike p.1) || (p.2 == init.final || wide p.2))

/-- the final reindex in `groupby_reduce` (`reindex_` → `maybe_promote` when the fill is NaN) cannot change a dtype
    that was already widened for a NaN fill -/
def checkReindexStable (f : Func) (d : DType) (u : UserD) (k : FillK) (mc : Bool) : Bool :=
  !(k == .nan) || d == .obj || d.isDatetimeLike ||
    (match apiInit dtypeRowsOf f d u .nan mc false with
     | none => false
     | some init => (floxMaybePromote.find? fun r => r.1 == init.final).map (·.2) == some init.final)

def checkCell (f : Func) (d : DType) (u : UserD) (k : FillK) (mc : Bool) : Bool :=
  checkConvention f d u k mc && checkMinCount f d u k mc && checkWide f d u k mc && checkWideUser f d u k mc &&
    checkReindexStable f d u k mc

set_option maxRecDepth 100000 in
/-- one kernel-checked pass over the whole grid (17 360 cells) -/
theorem checkCell_all : gridAll checkCell = true := by decide +kernel

set_option maxRecDepth 100000 in
theorem checkEngineCount_all : gridAll (fun f d u k mc => f != .count || checkEngineCount f d u k mc) = true := by
  decide +kernel

theorem checkCell_at (f : Func) (d : DType) (u : UserD) (k : FillK) (mc : Bool) :
    checkConvention f d u k mc = true ∧ checkMinCount f d u k mc = true ∧ checkWide f d u k mc = true ∧
    checkWideUser f d u k mc = true ∧ checkReindexStable f d u k mc = true := by
  have h := gridAll_spec checkCell_all f d u k mc
  simp only [checkCell, Bool.and_eq_true] at h
  exact ⟨h.1.1.1.1, h.1.1.1.2, h.1.1.2, h.1.2, h.2⟩

theorem requiresNumeric_engine (f : Func) (h : f ≠ .count) : requiresNumeric f true = requiresNumeric f false := by
  cases f <;> first | rfl | exact absurd rfl h

/-- the engine never changes the dtype logic: neither the result dtype nor the dtypes handed to the kernels -/
theorem engine_independent (f : Func) (d : DType) (u : UserD) (k : FillK) (mc : Bool) :
    model f d u k mc true = model f d u k mc false ∧
    apiInit dtypeRowsOf f d u k mc true = apiInit dtypeRowsOf f d u k mc false := by
  by_cases hf : f = .count
  · subst hf
    have h := gridAll_spec checkEngineCount_all .count d u k mc
    simp only [checkEngineCount, bne_self_eq_false, Bool.false_or, Bool.and_eq_true, beq_iff_eq] at h
    exact ⟨sameExcept_eq h.1, h.2⟩
  · unfold model apiDtype apiInit
    rw [requiresNumeric_engine f hf]
    exact ⟨rfl, rfl⟩

end Flox.DtypeProofs
