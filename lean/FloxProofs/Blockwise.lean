/-
  END-TO-END theorem for the plan `.blockwise false` of `runKnown` (`method="blockwise"`, no reindexing at the block
  stage) and for `.blockwise true` on a single block.

    blockwise_eq_spec          `.blockwise false` = specification, any chunking into non-empty blocks such that
                               every label ≥ 0 lies within one block, `sort = true` and `sort = false`
    blockwise_eq_eager         … = eager path
    blockwise_single_eq_eager  `.blockwise true` on one block = eager path
-/
import FloxProofs.BlockwiseLemmas

namespace Flox
namespace BW

/-! ### one block without reindexing: `chunk_reduce(…, expected_groups=None)` on integer codes -/

/-- the labels a block announces: distinct codes, ascending (`sort`) or in order of first appearance -/
def labelsOf (sort : Bool) (cs : List Int) : List Rat :=
  if sort then uniqSorted (cs.map fun (c : Int) => (c : Rat)) else uniqFirst (cs.map fun (c : Int) => (c : Rat))

theorem labelsOf_nodup (sort : Bool) (cs : List Int) : (labelsOf sort cs).Nodup := by
  unfold labelsOf
  split
  · exact uniqSorted_nodup _
  · exact uniqFirst_nodup _

theorem mem_labelsOf (sort : Bool) (cs : List Int) (r : Rat) :
    r ∈ labelsOf sort cs ↔ ∃ c ∈ cs, (c : Rat) = r := by
  unfold labelsOf
  split
  · rw [mem_uniqSorted]; simp
  · rw [mem_uniqFirst]; simp

theorem intCast_mem_labelsOf (sort : Bool) (cs : List Int) (c : Int) :
    (c : Rat) ∈ labelsOf sort cs ↔ c ∈ cs := by
  rw [mem_labelsOf]
  constructor
  · rintro ⟨c', hc', e⟩
    rw [Rat.intCast_inj.mp e] at hc'
    exact hc'
  · intro h; exact ⟨c, h, rfl⟩

theorem presentKeys_codeKeys (cs : List Int) : presentKeys (codeKeys cs) = cs.map fun (c : Int) => (c : Rat) := by
  simp [presentKeys, codeKeys, List.filterMap_map]

/-- the code `pd.factorize` gives to the element with label `c` -/
def codeIdx (L : List Rat) (c : Int) : Int :=
  match indexOf? (c : Rat) L with
  | some i => (i : Int)
  | none => -1

theorem factorizeKeys_sparse (cs : List Int) (sort : Bool) :
    factorizeKeys (codeKeys cs) none sort = (labelsOf sort cs, cs.map (codeIdx (labelsOf sort cs))) := by
  unfold factorizeKeys
  simp only [presentKeys_codeKeys, List.map_map, labelsOf]
  rfl

theorem codeIdx_spec (L : List Rat) (hnd : L.Nodup) (c : Int) (hc : (c : Rat) ∈ L) :
    ∃ i, ∃ hi : i < L.length, codeIdx L c = (i : Int) ∧ L[i] = (c : Rat) := by
  obtain ⟨i, hi, he⟩ := indexOf?_isSome_of_mem _ L hc
  refine ⟨i, hi, by simp [codeIdx, he], ?_⟩
  exact ((indexOf?_eq_some_iff _ L hnd i hi).mp he).symm

/-- relabelling the codes: the members of the new code `g'` are the members of the old code `g` -/
theorem members_relabel (g g' : Int) (f : Int → Int) (codes : List Int) (vals : List Val)
    (h : ∀ c ∈ codes, (f c = g' ↔ c = g)) :
    members g' (codes.map f) vals = members g codes vals := by
  induction codes generalizing vals with
  | nil => simp
  | cons c cs ih =>
    cases vals with
    | nil => simp
    | cons v vs =>
      have hc := h c (by simp)
      have ih' := ih vs (fun c' hc' => h c' (by simp [hc']))
      simp only [List.map_cons, members_cons, ih']
      by_cases e : c = g
      · have e' : f c = g' := hc.mpr e
        rw [if_pos e', if_pos e]
      · have : ¬ f c = g' := fun e' => e (hc.mp e')
        rw [if_neg this, if_neg e]

/-- the intermediate of a block that is not reindexed: one slot per announced label -/
def sparseInter (ks : List Kernel) (fills : List Val) (sort : Bool) (cs : List Int) (vs : List Val) : Inter :=
  { groups := (labelsOf sort cs).map some,
    cols := (ks.zip fills).map fun p =>
      (labelsOf sort cs).map fun r => blockVal p.1 p.2 (members r.num cs vs) }

theorem chunkReduce_sparse (ks : List Kernel) (fills : List Val) (cs : List Int) (vs : List Val) (sort : Bool)
    (hne : cs ≠ [])
    (hnoarg : ∀ k ∈ ks, isArgKernel k = false)
    (hz : ∀ p ∈ ks.zip fills, (p.1 = .nanlen ∨ p.1 = .nansumsq) → p.2 = Val.zero) :
    chunkReduce .npg ks fills (codeKeys cs) vs none sort = sparseInter ks fills sort cs vs := by
  have hnd := labelsOf_nodup sort cs
  have hidx : ∀ c ∈ cs, ∃ i, ∃ hi : i < (labelsOf sort cs).length,
      codeIdx (labelsOf sort cs) c = (i : Int) ∧ (labelsOf sort cs)[i] = (c : Rat) :=
    fun c hc => codeIdx_spec _ hnd c ((intCast_mem_labelsOf sort cs c).mpr hc)
  have hnm1 : ∀ c ∈ cs, codeIdx (labelsOf sort cs) c ≠ -1 := by
    intro c hc
    obtain ⟨i, _, he, _⟩ := hidx c hc
    rw [he]; omega
  have hany : ((cs.map (codeIdx (labelsOf sort cs))).any (· == -1)) = false := by
    rw [List.any_eq_false]
    intro x hx
    obtain ⟨c, hc, rfl⟩ := List.mem_map.mp hx
    simpa using hnm1 c hc
  have hall : ((cs.map (codeIdx (labelsOf sort cs))).all (· == -1)) = false := by
    cases cs with
    | nil => exact absurd rfl hne
    | cons c cs' =>
      have := hnm1 c (by simp)
      simp [this]
  simp only [chunkReduce, factorizeKeys_sparse, hany, hall, Bool.false_eq_true, if_false, sparseInter]
  congr 1
  apply List.map_congr_left
  intro p hp
  obtain ⟨k, fv⟩ := p
  have hka : isArgKernel k = false := hnoarg k (List.of_mem_zip hp).1
  simp only [engineCall, hka, Bool.false_eq_true, if_false, engGrouped]
  rw [npgGrouped_eq_blockVal_dn k fv _ vs _ hka (hz (k, fv) hp)]
  rw [List.take_of_length_le (by simp)]
  apply List.ext_getElem
  · simp
  · intro i h1 h2
    have hi : i < (labelsOf sort cs).length := by simpa using h2
    simp only [List.getElem_map, List.getElem_range]
    congr 1
    -- the element of the block whose label is `L[i]`
    have hmem : (labelsOf sort cs)[i] ∈ labelsOf sort cs := List.getElem_mem hi
    obtain ⟨a, ha, hae⟩ := (mem_labelsOf sort cs _).mp hmem
    have hnum : ((labelsOf sort cs)[i]).num = a := by rw [← hae, Rat.num_intCast]
    rw [hnum, List.map_map]
    apply members_relabel
    intro c hc
    obtain ⟨j, hj, hje, hjl⟩ := hidx c hc
    simp only [Function.comp, hje]
    have hne1 : ¬ ((j : Int) == -1) = true := by simp
    rw [if_neg hne1]
    simp only [Int.ofNat_eq_natCast]
    constructor
    · intro e
      have : j = i := by omega
      subst this
      have : (c : Rat) = (a : Rat) := by rw [← hjl, hae]
      exact Rat.intCast_inj.mp this
    · intro e
      subst e
      have : (labelsOf sort cs)[j] = (labelsOf sort cs)[i] := by rw [hjl, hae]
      have := (List.getElem_inj hnd).mp this
      omega

/-! ### `_finalize_results` on a block that is not reindexed -/

theorem finish_sparse (R' : Resolved) (x : Inter) (L : List Rat) (a cntv : Rat → Val)
    (hv : finalizeVals R' (if R'.minCount > 0 then x.cols.dropLast else x.cols) = L.map a)
    (hc : R'.minCount > 0 → x.cols.getLastD [] = L.map cntv) :
    finalizeResults R' x none false
      = (match L.mapM fun r => maskedSlot R' (cntv r) (a r) with
          | .ok v => .ok (x.groups, v)
          | .error e => .error e) := by
  unfold finalizeResults
  by_cases hmc : R'.minCount > 0
  · simp only [hmc, if_true] at hv ⊢
    rw [hv, hc hmc, List.map_map]
    have hm := mask_mapM L a (fun g => countBelow (cntv g) R'.minCount) R'.userFill
    simp only [maskedSlot, hmc, true_and, Function.comp_def]
    rw [← hm]
    by_cases hany : (L.map (fun g => countBelow (cntv g) R'.minCount)).any id = true
    · simp only [hany, if_true]
      cases R'.userFill with
      | none => rfl
      | some f => rfl
    · simp only [hany, Bool.false_eq_true, if_false]
  · simp only [hmc, if_false] at hv ⊢
    rw [hv]
    simp only [maskedSlot, hmc, false_and, if_false, mapM_except_ok]

/-- what a block returns: for every announced label the eager slot of the label's members inside the block -/
def blockOut (R : Resolved) (sort : Bool) (p : List Int × List Val) : Except String (List Key × List Val) :=
  match (labelsOf sort p.1).mapM fun r => eagerSlot R (members r.num p.1 p.2) with
  | .ok v => .ok ((labelsOf sort p.1).map some, v)
  | .error e => .error e

theorem block_result (R : Resolved) (s : Shape) (hs : s.Fits R) (sort : Bool) (cs : List Int) (vs : List Val)
    (hne : cs ≠ []) :
    finalizeResults { R with finalize := "none" }
        (chunkReduce .npg R.numpy R.numpyFills (codeKeys cs) vs none sort) none false
      = blockOut R sort (cs, vs) := by
  rw [chunkReduce_sparse R.numpy R.numpyFills cs vs sort hne hs.numpy_noarg hs.numpy_zero]
  have key := finish_sparse { R with finalize := "none" } (sparseInter R.numpy R.numpyFills sort cs vs)
    (labelsOf sort cs)
    (fun r => blockVal s.kernel R.npFill (members r.num cs vs))
    (fun r => countVal (members r.num cs vs))
    (by
      rw [finalizeVals_none _ _ rfl]
      show (if R.minCount > 0 then (sparseInter R.numpy R.numpyFills sort cs vs).cols.dropLast
        else (sparseInter R.numpy R.numpyFills sort cs vs).cols).getD 0 [] = _
      simp only [sparseInter]
      rw [hs.numpy, hs.numpyFills]
      by_cases hm : R.minCount > 0 <;> simp [cntSuffix, hm])
    (by
      intro hm
      have hm : R.minCount > 0 := hm
      show (sparseInter R.numpy R.numpyFills sort cs vs).cols.getLastD [] = _
      simp only [sparseInter]
      rw [hs.numpy, hs.numpyFills]
      simp [cntSuffix, hm, countVal])
  rw [key]
  simp only [blockOut, eagerSlot, hs.numpy_head]
  rfl

/-! ### the plan `.blockwise false` in terms of the (codes, values) blocks -/

def bwTail (c : Call) (segs : Segs) (per : List (Except String (List Key × List Val))) :
    Except String (List Val) :=
  match per.mapM id with
  | .error e => .error e
  | .ok rs =>
    let gs := segs.flatMap fun p => (labelsOf c.sort p.1).map some
    let vs := rs.flatMap (·.2)
    let (gs, vs) := if c.sort then sortPairs gs vs else (gs, vs)
    finalReindex c true gs vs

theorem segsOf_map_fst (chunks : List Nat) (codes : List Int) (vals : List Val) :
    (segsOf chunks codes vals).map (·.1) = splitBy chunks codes := by
  unfold segsOf
  exact List.map_fst_zip (by simp [splitBy_length])

theorem per_eq {β} (chunks : List Nat) (codes : List Int) (vals : List Val) (F : List Key × List Val → β) :
    ((splitBy chunks (codeKeys codes)).zip (splitBy chunks vals)).map F
      = (segsOf chunks codes vals).map fun p => F (codeKeys p.1, p.2) := by
  have h1 : splitBy chunks (codeKeys codes) = (splitBy chunks codes).map codeKeys := splitBy_map _ _ _
  rw [h1, List.zip_map_left, List.map_map]
  rfl

theorem gs_eq {β} (chunks : List Nat) (codes : List Int) (vals : List Val) (G : List Key → List β) :
    (splitBy chunks (codeKeys codes)).flatMap G
      = (segsOf chunks codes vals).flatMap fun p => G (codeKeys p.1) := by
  have h1 : splitBy chunks (codeKeys codes) = (splitBy chunks codes).map codeKeys := splitBy_map _ _ _
  rw [h1, ← segsOf_map_fst chunks codes vals, List.map_map, List.flatMap_map]
  rfl

theorem runKnown_blockwise_eq (c : Call) (floatData : Bool) (chunks : List Nat) (codes : List Int)
    (vals : List Val) :
    runKnown c (.blockwise false) floatData chunks (codeKeys codes) vals
      = bwTail c (segsOf chunks codes vals) ((segsOf chunks codes vals).map fun p =>
          finalizeResults { c.R with finalize := "none" }
            (chunkReduce c.eng c.R.numpy c.R.numpyFills (codeKeys p.1) p.2 none c.sort) none false) := by
  simp only [runKnown, Bool.false_eq_true, if_false, bwTail]
  rw [per_eq, gs_eq chunks codes vals]
  simp only [presentKeys_codeKeys]
  rfl


/-! ### the pairs (label, value) the blocks deliver -/

def slotVal (x : Except String Val) : Val :=
  match x with
  | .ok v => v
  | .error _ => Val.nan

/-- the value block `p` stores for its label `r` -/
def blockValOf (R : Resolved) (p : List Int × List Val) (r : Rat) : Val :=
  slotVal (eagerSlot R (members r.num p.1 p.2))

def pairsOf (R : Resolved) (sort : Bool) (segs : Segs) : List (Key × Val) :=
  segs.flatMap fun p => (labelsOf sort p.1).map fun r => ((some r : Key), blockValOf R p r)

/-- every block succeeds (no `ValueError` from the count mask) -/
def AllOk (R : Resolved) (sort : Bool) (segs : Segs) : Prop :=
  ∀ p ∈ segs, ∀ r ∈ labelsOf sort p.1, ∃ v, eagerSlot R (members r.num p.1 p.2) = .ok v

theorem optToExcept_VE {α} (o : Option α) : VE (optToExcept o) := by
  intro e h
  cases o with
  | none => simp only [optToExcept] at h; cases h; rfl
  | some v => simp [optToExcept] at h

theorem eagerSlot_VE (R : Resolved) (ms : List Val) : VE (eagerSlot R ms) := by
  intro e h
  unfold eagerSlot maskedSlot at h
  split at h
  · exact optToExcept_VE _ e h
  · cases h

theorem specSlot_VE (R : Resolved) (k : Kernel) (ms : List Val) : VE (specSlot R k ms) := optToExcept_VE _

theorem mapM_VE {α β} (f : α → Except String β) (l : List α) (h : ∀ a ∈ l, VE (f a)) : VE (l.mapM f) := by
  induction l with
  | nil => intro e he; simp [List.mapM_nil, pure, Except.pure] at he
  | cons a l ih =>
    intro e he
    rw [mapM_except_cons] at he
    cases hfa : f a with
    | error e' =>
      simp only [hfa, Except.error.injEq] at he
      subst he
      exact h a (by simp) _ hfa
    | ok b =>
      cases hl : l.mapM f with
      | error e' =>
        simp only [hfa, hl, Except.error.injEq] at he
        subst he
        exact ih (fun b hb => h b (by simp [hb])) _ hl
      | ok bs => simp [hfa, hl] at he

theorem blockOut_ok (R : Resolved) (sort : Bool) (p : List Int × List Val)
    (h : ∀ r ∈ labelsOf sort p.1, ∃ v, eagerSlot R (members r.num p.1 p.2) = .ok v) :
    blockOut R sort p = .ok ((labelsOf sort p.1).map some, (labelsOf sort p.1).map (blockValOf R p)) := by
  unfold blockOut
  rw [mapM_except_all_ok _ (blockValOf R p) _ (fun r hr => by
    obtain ⟨v, hv⟩ := h r hr
    simp [blockValOf, slotVal, hv])]

theorem blockOut_VE (R : Resolved) (sort : Bool) (p : List Int × List Val) : VE (blockOut R sort p) := by
  intro e he
  unfold blockOut at he
  have hve := mapM_VE (fun r => eagerSlot R (members r.num p.1 p.2)) (labelsOf sort p.1)
    (fun r _ => eagerSlot_VE R _)
  cases hm : (labelsOf sort p.1).mapM fun r => eagerSlot R (members r.num p.1 p.2) with
  | error e' =>
    simp only [hm, Except.error.injEq] at he
    subst he
    exact hve _ hm
  | ok v => simp [hm] at he

theorem blockOut_error (R : Resolved) (sort : Bool) (p : List Int × List Val)
    (h : ∃ r ∈ labelsOf sort p.1, ∃ e, eagerSlot R (members r.num p.1 p.2) = .error e) :
    blockOut R sort p = .error "ValueError" := by
  unfold blockOut
  rw [mapM_except_error _ _ (fun r _ => eagerSlot_VE R _) h]

theorem per_all_ok (R : Resolved) (sort : Bool) (segs : Segs) (hok : AllOk R sort segs) :
    (segs.map (blockOut R sort)).mapM id
      = .ok (segs.map fun p => ((labelsOf sort p.1).map some, (labelsOf sort p.1).map (blockValOf R p))) := by
  rw [List.mapM_map]
  apply mapM_except_all_ok
  intro p hp
  simp only [Function.comp, id]
  exact blockOut_ok R sort p (hok p hp)

theorem per_error (R : Resolved) (sort : Bool) (segs : Segs)
    (h : ∃ p ∈ segs, ∃ r ∈ labelsOf sort p.1, ∃ e, eagerSlot R (members r.num p.1 p.2) = .error e) :
    (segs.map (blockOut R sort)).mapM id = .error "ValueError" := by
  rw [List.mapM_map]
  apply mapM_except_error
  · intro p _
    exact blockOut_VE R sort p
  · obtain ⟨p, hp, hr⟩ := h
    exact ⟨p, hp, "ValueError", blockOut_error R sort p hr⟩

theorem allOk_or_error (R : Resolved) (sort : Bool) (segs : Segs) :
    AllOk R sort segs
      ∨ ∃ p ∈ segs, ∃ r ∈ labelsOf sort p.1, ∃ e, eagerSlot R (members r.num p.1 p.2) = .error e := by
  by_cases h : ∃ p ∈ segs, ∃ r ∈ labelsOf sort p.1, ∃ e, eagerSlot R (members r.num p.1 p.2) = .error e
  · exact Or.inr h
  · left
    intro p hp r hr
    cases he : eagerSlot R (members r.num p.1 p.2) with
    | error e => exact absurd ⟨p, hp, r, hr, e, he⟩ h
    | ok v => exact ⟨v, rfl⟩

/-! ### sorting, dropping the duplicated `-1`, reindexing: all in terms of the list of pairs -/

theorem zip_map_fst_snd {α β} (l : List (α × β)) : (l.map (·.1)).zip (l.map (·.2)) = l := by
  induction l with
  | nil => rfl
  | cons p l ih => simp [ih]

theorem sortPairs_perm (l : List (Key × Val)) :
    ∃ l' : List (Key × Val), l'.Perm l ∧ sortPairs (l.map (·.1)) (l.map (·.2)) = (l'.map (·.1), l'.map (·.2)) := by
  unfold sortPairs
  simp only [zip_map_fst_snd]
  exact ⟨_, List.mergeSort_perm _ _, rfl⟩

/-- `groups_ == -1` occurring more than once is removed -/
def dropDup (l : List (Key × Val)) : List (Key × Val) :=
  if ((l.map (·.1)).filter (· = some (-1))).length > 1 then l.filter (fun p => p.1 ≠ some (-1)) else l

theorem mem_of_mem_dropDup (l : List (Key × Val)) (p : Key × Val) (h : p ∈ dropDup l) : p ∈ l := by
  unfold dropDup at h
  split at h
  · exact (List.mem_filter.mp h).1
  · exact h

theorem mem_dropDup (l : List (Key × Val)) (p : Key × Val) (h : p ∈ l) (hk : p.1 ≠ some (-1)) : p ∈ dropDup l := by
  unfold dropDup
  split
  · exact List.mem_filter.mpr ⟨h, by simpa using hk⟩
  · exact h

theorem finalReindex_pairs (c : Call) (l : List (Key × Val)) :
    finalReindex c true (l.map (·.1)) (l.map (·.2))
      = (match reindexCol ((dropDup l).map (·.2)) ((dropDup l).map (·.1)) (rangeKeys c.ngroups) c.fillArg with
          | some v => .ok v
          | none => .error "ValueError") := by
  unfold finalReindex dropDup
  by_cases h : ((l.map (·.1)).filter (· = some (-1))).length > 1
  · simp only [Bool.true_and, zip_map_fst_snd, List.unzip_eq_map, h, decide_true, if_true]
    rfl
  · simp only [Bool.true_and, h, decide_false, Bool.false_eq_true, if_false]
    rfl

theorem pairsOf_fst (R : Resolved) (sort : Bool) (segs : Segs) :
    (pairsOf R sort segs).map (·.1) = segs.flatMap fun p => (labelsOf sort p.1).map some := by
  simp [pairsOf, List.map_flatMap, List.map_map, Function.comp_def]

theorem pairsOf_snd (R : Resolved) (sort : Bool) (segs : Segs) :
    (pairsOf R sort segs).map (·.2) = segs.flatMap fun p => (labelsOf sort p.1).map (blockValOf R p) := by
  simp [pairsOf, List.map_flatMap, List.map_map, Function.comp_def]

/-- when every block succeeds, the tail is a reindex of (a rearrangement of) the delivered pairs -/
theorem bwTail_ok (c : Call) (segs : Segs) (hok : AllOk c.R c.sort segs) :
    ∃ l'' : List (Key × Val),
      (∀ p ∈ l'', p ∈ pairsOf c.R c.sort segs)
      ∧ (∀ p ∈ pairsOf c.R c.sort segs, p.1 ≠ some (-1) → p ∈ l'')
      ∧ bwTail c segs (segs.map (blockOut c.R c.sort))
          = (match reindexCol (l''.map (·.2)) (l''.map (·.1)) (rangeKeys c.ngroups) c.fillArg with
              | some v => .ok v
              | none => .error "ValueError") := by
  unfold bwTail
  rw [per_all_ok c.R c.sort segs hok]
  simp only [List.flatMap_map]
  rw [← pairsOf_fst c.R c.sort segs, ← pairsOf_snd c.R c.sort segs]
  cases hsort : c.sort with
  | true =>
    obtain ⟨l', hperm, hsp⟩ := sortPairs_perm (pairsOf c.R true segs)
    simp only [if_true, hsp]
    refine ⟨dropDup l', ?_, ?_, finalReindex_pairs c l'⟩
    · intro p hp
      exact hperm.mem_iff.mp (mem_of_mem_dropDup l' p hp)
    · intro p hp hk
      exact mem_dropDup l' p (hperm.mem_iff.mpr hp) hk
  | false =>
    simp only [Bool.false_eq_true, if_false]
    refine ⟨dropDup (pairsOf c.R false segs), ?_, ?_, finalReindex_pairs c _⟩
    · intro p hp
      exact mem_of_mem_dropDup _ p hp
    · intro p hp hk
      exact mem_dropDup _ p hp hk

theorem bwTail_error (c : Call) (segs : Segs)
    (h : ∃ p ∈ segs, ∃ r ∈ labelsOf c.sort p.1, ∃ e, eagerSlot c.R (members r.num p.1 p.2) = .error e) :
    bwTail c segs (segs.map (blockOut c.R c.sort)) = .error "ValueError" := by
  unfold bwTail
  rw [per_error c.R c.sort segs h]

/-! ### every label lies within one block -/

/-- no label `≥ 0` of an earlier block occurs in a later block -/
abbrev DisjointBlocks (blocks : List (List Int)) : Prop :=
  blocks.Pairwise fun a b => ∀ g ∈ a, 0 ≤ g → g ∉ b

/-- **the precondition of `method="blockwise"`**: every group (label `≥ 0`) lies within one block of the chunking -/
def EachLabelInOneBlock (chunks : List Nat) (codes : List Int) : Prop := DisjointBlocks (splitBy chunks codes)

instance (chunks : List Nat) (codes : List Int) : Decidable (EachLabelInOneBlock chunks codes) := by
  unfold EachLabelInOneBlock DisjointBlocks; infer_instance

/-- the precondition, index form: a label `≥ 0` that occurs in block `i` and in block `j` forces `i = j` -/
theorem eachLabelInOneBlock_iff (chunks : List Nat) (codes : List Int) :
    EachLabelInOneBlock chunks codes ↔
      ∀ (g : Int), 0 ≤ g → ∀ (i j : Nat) (hi : i < (splitBy chunks codes).length)
        (hj : j < (splitBy chunks codes).length),
        g ∈ (splitBy chunks codes)[i] → g ∈ (splitBy chunks codes)[j] → i = j := by
  unfold EachLabelInOneBlock DisjointBlocks
  rw [List.pairwise_iff_getElem]
  constructor
  · intro h g hg i j hi hj hgi hgj
    rcases Nat.lt_trichotomy i j with hlt | heq | hgt
    · exact absurd hgj (h i j hi hj hlt g hgi hg)
    · exact heq
    · exact absurd hgi (h j i hj hi hgt g hgj hg)
  · intro h i j hi hj hlt g hgi hg hgj
    have := h g hg i j hi hj hgi hgj
    omega

theorem mem_catC (g : Int) (segs : Segs) : g ∈ catC segs ↔ ∃ q ∈ segs, g ∈ q.1 := by
  simp only [catC, List.mem_flatten, List.mem_map]
  constructor
  · rintro ⟨l, ⟨q, hq, rfl⟩, hg⟩; exact ⟨q, hq, hg⟩
  · rintro ⟨q, hq, hg⟩; exact ⟨q.1, ⟨q, hq, rfl⟩, hg⟩

theorem members_eq_nil_of_not_mem (g : Int) (cs : List Int) (vs : List Val) (h : g ∉ cs) : members g cs vs = [] :=
  members_eq_nil_of_ne g cs vs (fun _ hc e => h (e ▸ hc))

theorem members_ne_nil_of_mem (g : Int) (cs : List Int) (vs : List Val) (hlen : cs.length = vs.length)
    (h : g ∈ cs) : members g cs vs ≠ [] := by
  induction cs generalizing vs with
  | nil => simp at h
  | cons c cs ih =>
    cases vs with
    | nil => simp at hlen
    | cons v vs =>
      simp only [members_cons]
      by_cases e : c = g
      · simp [e]
      · simp only [e, if_false]
        rcases List.mem_cons.mp h with h | h
        · exact absurd h.symm e
        · exact ih vs (by simpa using hlen) h

/-- the members of a label that lies within one block are its members inside that block -/
theorem members_unique_block (g : Int) (hg : 0 ≤ g) (segs : Segs) (hal : Aligned segs)
    (hdisj : segs.Pairwise fun p q => ∀ g ∈ p.1, 0 ≤ g → g ∉ q.1) (q : List Int × List Val) (hq : q ∈ segs)
    (hgq : g ∈ q.1) : members g (catC segs) (catV segs) = members g q.1 q.2 := by
  induction segs with
  | nil => simp at hq
  | cons p segs ih =>
    have hp := List.pairwise_cons.mp hdisj
    simp only [catC_cons, catV_cons]
    rw [members_append g _ _ _ _ (hal p (by simp))]
    rcases List.mem_cons.mp hq with rfl | hq'
    · have : members g (catC segs) (catV segs) = [] := by
        apply members_eq_nil_of_not_mem
        intro hmem
        obtain ⟨q', hq', hgq'⟩ := (mem_catC g segs).mp hmem
        exact hp.1 q' hq' g hgq hg hgq'
      rw [this, List.append_nil]
    · have : members g p.1 p.2 = [] := by
        apply members_eq_nil_of_not_mem
        intro hmem
        exact hp.1 q hq' g hmem hg hgq
      rw [this, List.nil_append]
      exact ih hal.tail hp.2 hq'

theorem mem_pairsOf (R : Resolved) (sort : Bool) (segs : Segs) (p : Key × Val) :
    p ∈ pairsOf R sort segs
      ↔ ∃ q ∈ segs, ∃ g ∈ q.1, p = ((some (g : Rat) : Key), blockValOf R q (g : Rat)) := by
  simp only [pairsOf, List.mem_flatMap, List.mem_map, mem_labelsOf]
  constructor
  · rintro ⟨q, hq, r, ⟨g, hg, rfl⟩, rfl⟩
    exact ⟨q, hq, g, hg, rfl⟩
  · rintro ⟨q, hq, g, hg, rfl⟩
    exact ⟨q, hq, (g : Rat), ⟨g, hg, rfl⟩, rfl⟩

theorem natRat (g : Nat) : ((Int.ofNat g : Int) : Rat) = ((g : Nat) : Rat) := by
  simp [Rat.intCast_natCast]

theorem intRat_m1 (g : Int) (e : (g : Rat) = -1) : g = -1 := by
  have : (g : Rat) = ((-1 : Int) : Rat) := by rw [e]; simp [Rat.intCast_neg]
  exact Rat.intCast_inj.mp this

/-! ### the final reindex, slot by slot -/

theorem reindex_pairs_slots (fill : Option Val) (l : List (Key × Val)) (n : Nat) (slot : Nat → Except String Val)
    (hne : l ≠ [])
    (hsome : ∀ g, g < n → (∃ p ∈ l, p.1 = some ((g : Nat) : Rat)) →
      ∃ v, (∀ p ∈ l, p.1 = some ((g : Nat) : Rat) → p.2 = v) ∧ slot g = .ok v)
    (hnone : ∀ g, g < n → (∀ p ∈ l, p.1 ≠ some ((g : Nat) : Rat)) → slot g = optToExcept fill) :
    (match reindexCol (l.map (·.2)) (l.map (·.1)) (rangeKeys n) fill with
      | some v => .ok v
      | none => .error "ValueError") = (List.range n).mapM slot := by
  rw [reindexCol_eq_mapM _ _ _ _ (by simpa using hne) (rangeKeys_nodup n) (by simp)]
  have : ∀ o : Option (List Val), (match o with
      | some v => (Except.ok v : Except String (List Val))
      | none => .error "ValueError") = optToExcept o := by
    intro o; cases o <;> rfl
  rw [this, mapM_option_toExcept, rangeKeys, List.mapM_map]
  apply mapM_except_congr
  intro g hg
  have hg := List.mem_range.mp hg
  simp only [Function.comp, reindexSlot]
  by_cases hex : ∃ p ∈ l, p.1 = some ((g : Nat) : Rat)
  · obtain ⟨v, hv, hs⟩ := hsome g hg hex
    obtain ⟨i, hi, hiv⟩ := lookupKey_some _ v l hex hv
    rw [hi, hs]
    simp only [optToExcept, hiv]
  · have hall : ∀ p ∈ l, p.1 ≠ some ((g : Nat) : Rat) := fun p hp e => hex ⟨p, hp, e⟩
    rw [lookupKey_none _ l hall, hnone g hg hall]

theorem specSlot_nil (R : Resolved) (k : Kernel) : specSlot R k [] = optToExcept R.userFill := rfl

theorem eagerSlot_error_masked (R : Resolved) (ms : List Val) (e : String) (h : eagerSlot R ms = .error e) :
    R.userFill = none ∧ ¬ Unmasked R ms := by
  unfold eagerSlot at h
  rw [maskedSlot_countVal] at h
  by_cases hc : R.minCount > 0 ∧ Spec.validCount ms < R.minCount
  · simp only [hc, and_self, if_true] at h
    refine ⟨?_, fun hun => hun hc⟩
    cases huf : R.userFill with
    | none => rfl
    | some f => simp [fillOrError, optToExcept, huf] at h
  · simp [hc] at h

/-! ### the end-to-end theorem on blocks -/

/-- (H_dropped) with no fill value, the dropped elements (code `-1`) of a block must not trip the count mask:
    they form an ordinary group of the block until the final reindex -/
def HDropped (R : Resolved) (segs : Segs) : Prop :=
  R.userFill = none → ∀ p ∈ segs, (-1 : Int) ∈ p.1 → Unmasked R (members (-1) p.1 p.2)

/-- (H_somelabel) with no fill value and at least one requested label, some element must carry a label:
    when every block only holds dropped elements, the final reindex sees an empty array and fills with NaN instead
    of raising -/
def HSomeLabel (R : Resolved) (codes : List Int) (n : Nat) : Prop :=
  R.userFill = none → 0 < n → ∃ g ∈ codes, 0 ≤ g

theorem blockwise_segs (R : Resolved) (s : Shape) (c : Call) (n : Nat) (segs : Segs)
    (hR : c.R = R) (hn : c.ngroups = n) (hs : s.Fits R)
    (hal : Aligned segs) (hdisj : segs.Pairwise fun p q => ∀ g ∈ p.1, 0 ≤ g → g ∉ q.1)
    (hcodes : CodesOK (catC segs) n)
    (hfill : c.fillArg = R.userFill) (H_allnan : HAllNaN R s)
    (H_dropped : HDropped R segs) (H_somelabel : HSomeLabel R (catC segs) n) :
    bwTail c segs (segs.map (blockOut R c.sort))
      = (List.range n).mapM fun (g : Nat) => specSlot R s.kernel (members (Int.ofNat g) (catC segs) (catV segs)) := by
  subst hR
  -- the slot of a label that occurs in block `q`
  have hslot : ∀ (g : Int) (q : List Int × List Val), 0 ≤ g → q ∈ segs → g ∈ q.1 →
      specSlot c.R s.kernel (members g (catC segs) (catV segs)) = eagerSlot c.R (members ((g : Rat)).num q.1 q.2) := by
    intro g q hg hq hgq
    rw [Rat.num_intCast, ← members_unique_block g hg segs hal hdisj q hq hgq]
    have hne : members g (catC segs) (catV segs) ≠ [] :=
      members_ne_nil_of_mem g _ _ hal.cat_length ((mem_catC g segs).mpr ⟨q, hq, hgq⟩)
    exact (eagerSlot_eq_specSlot hs _ (Or.inr hne) H_allnan).symm
  rcases allOk_or_error c.R c.sort segs with hok | herr
  · obtain ⟨l, hsub, hsup, heq⟩ := bwTail_ok c segs hok
    rw [heq, hn]
    by_cases hl : l = []
    · -- every element is dropped, in at least two blocks
      subst hl
      have hnolabel : ∀ g ∈ catC segs, ¬ 0 ≤ g := by
        intro g hg h0
        obtain ⟨q, hq, hgq⟩ := (mem_catC g segs).mp hg
        have := hsup _ ((mem_pairsOf c.R c.sort segs _).mpr ⟨q, hq, g, hgq, rfl⟩)
          (by
            simp only [ne_eq, Option.some.injEq]
            intro e
            have : g = -1 := intRat_m1 g e
            omega)
        simp at this
      have hall : ∀ g ∈ List.range n,
          specSlot c.R s.kernel (members (Int.ofNat g) (catC segs) (catV segs)) = optToExcept c.fillArg := by
        intro g _
        rw [members_eq_nil_of_not_mem _ _ _ (fun hm => hnolabel _ hm (by simp)), specSlot_nil, hfill]
      rw [mapM_except_congr _ _ _ hall]
      simp only [reindexCol, List.map_nil, List.isEmpty_nil, if_true]
      cases hf : c.fillArg with
      | some f =>
        simp only [optToExcept, Option.getD_some, mapM_except_ok, rangeKeys, List.map_map]
        rfl
      | none =>
        have hn0 : n = 0 := by
          by_cases h0 : 0 < n
          · obtain ⟨g, hg, hg0⟩ := H_somelabel (by rw [← hfill, hf]) h0
            exact absurd hg0 (hnolabel g hg)
          · omega
        subst hn0
        rfl
    · apply reindex_pairs_slots c.fillArg l n _ hl
      · intro g hg ⟨p, hp, hpk⟩
        obtain ⟨q, hq, g', hg', rfl⟩ := (mem_pairsOf c.R c.sort segs p).mp (hsub p hp)
        simp only [Option.some.injEq] at hpk
        have hgg : g' = Int.ofNat g := by
          have : ((g' : Int) : Rat) = ((Int.ofNat g : Int) : Rat) := by
            rw [hpk, natRat]
          exact Rat.intCast_inj.mp this
        subst hgg
        have h0 : (0 : Int) ≤ Int.ofNat g := by simp
        obtain ⟨v, hv⟩ := hok q hq _ ((intCast_mem_labelsOf c.sort q.1 _).mpr hg')
        refine ⟨v, ?_, ?_⟩
        · intro p' hp' hpk'
          obtain ⟨q', hq', g'', hg'', rfl⟩ := (mem_pairsOf c.R c.sort segs p').mp (hsub p' hp')
          simp only [Option.some.injEq] at hpk'
          have hgg' : g'' = Int.ofNat g := by
            have : ((g'' : Int) : Rat) = ((Int.ofNat g : Int) : Rat) := by
              rw [hpk', natRat]
            exact Rat.intCast_inj.mp this
          subst hgg'
          simp only [blockValOf]
          rw [← hslot _ q' h0 hq' hg'', hslot _ q h0 hq hg', hv]
          rfl
        · rw [hslot _ q h0 hq hg', hv]
      · intro g hg hall
        have hnot : Int.ofNat g ∉ catC segs := by
          intro hm
          obtain ⟨q, hq, hgq⟩ := (mem_catC _ segs).mp hm
          have hp := (mem_pairsOf c.R c.sort segs _).mpr ⟨q, hq, _, hgq, rfl⟩
          have := hsup _ hp (by
            simp only [ne_eq, Option.some.injEq]
            intro e
            have : (Int.ofNat g : Int) = -1 := intRat_m1 _ e
            simp at this)
          exact hall _ this (by simp only [natRat])
        rw [members_eq_nil_of_not_mem _ _ _ hnot, specSlot_nil, hfill]
  · rw [bwTail_error c segs herr]
    obtain ⟨q, hq, r, hr, e, he⟩ := herr
    obtain ⟨g, hg, rfl⟩ := (mem_labelsOf c.sort q.1 r).mp hr
    have hgc : g ∈ catC segs := (mem_catC g segs).mpr ⟨q, hq, hg⟩
    have hrange := hcodes g hgc
    have hmask := eagerSlot_error_masked c.R _ e he
    rw [Rat.num_intCast] at hmask
    have hg0 : 0 ≤ g := by
      by_cases hm1 : g = -1
      · subst hm1
        exact absurd (H_dropped hmask.1 q hq hg) hmask.2
      · omega
    symm
    apply mapM_except_error
    · intro a _
      exact specSlot_VE _ _ _
    · refine ⟨g.toNat, List.mem_range.mpr (by omega), e, ?_⟩
      have : Int.ofNat g.toNat = g := by simp; omega
      rw [this, hslot g q hg0 hq hg, he]


/-! ### the end-to-end theorems -/

theorem segsOf_fst_ne_nil (chunks : List Nat) (codes : List Int) (vals : List Val)
    (hsum : chunks.sum ≤ codes.length) (hpos : ∀ k ∈ chunks, 0 < k) :
    ∀ p ∈ segsOf chunks codes vals, p.1 ≠ [] := by
  intro p hp
  apply splitBy_piece_ne_nil chunks codes hsum hpos
  rw [← segsOf_map_fst chunks codes vals]
  exact List.mem_map.mpr ⟨p, hp, rfl⟩

/-- `.blockwise false`, slot by slot (numpy_groupies engine) -/
theorem runKnown_blockwise_slots (R : Resolved) (s : Shape) (c : Call) (n : Nat) (floatData : Bool)
    (chunks : List Nat) (codes : List Int) (vals : List Val)
    (hR : c.R = R) (heng : c.eng = .npg) (hn : c.ngroups = n) (hs : s.Fits R)
    (hcodes : CodesOK codes n) (hlen : codes.length = vals.length)
    (hsum : chunks.sum = codes.length) (hpos : ∀ k ∈ chunks, 0 < k)
    (hone : EachLabelInOneBlock chunks codes)
    (hfill : c.fillArg = R.userFill) (H_allnan : HAllNaN R s)
    (H_dropped : HDropped R (segsOf chunks codes vals)) (H_somelabel : HSomeLabel R codes n) :
    runKnown c (.blockwise false) floatData chunks (codeKeys codes) vals
      = (List.range n).mapM fun (g : Nat) => specSlot R s.kernel (members (Int.ofNat g) codes vals) := by
  have hC : catC (segsOf chunks codes vals) = codes := segsOf_catC chunks codes vals (by omega)
  have hV : catV (segsOf chunks codes vals) = vals := segsOf_catV chunks codes vals (by omega)
  have hne := segsOf_fst_ne_nil chunks codes vals (by omega) hpos
  rw [runKnown_blockwise_eq, heng]
  have hper : ((segsOf chunks codes vals).map fun p =>
      finalizeResults { c.R with finalize := "none" }
        (chunkReduce .npg c.R.numpy c.R.numpyFills (codeKeys p.1) p.2 none c.sort) none false)
      = (segsOf chunks codes vals).map (blockOut R c.sort) := by
    apply List.map_congr_left
    intro p hp
    subst hR
    exact block_result c.R s hs c.sort p.1 p.2 (hne p hp)
  rw [hper]
  have hdisj : (segsOf chunks codes vals).Pairwise fun p q => ∀ g ∈ p.1, 0 ≤ g → g ∉ q.1 := by
    have := hone
    unfold EachLabelInOneBlock DisjointBlocks at this
    rw [← segsOf_map_fst chunks codes vals, List.pairwise_map] at this
    exact this
  have key := blockwise_segs R s c n (segsOf chunks codes vals) hR hn hs (segsOf_aligned chunks codes vals hlen)
    hdisj (by rw [hC]; exact hcodes) hfill H_allnan H_dropped (by rw [hC]; exact H_somelabel)
  rw [hC, hV] at key
  exact key

/-- **`method="blockwise"` (no reindexing at the block stage), end to end.**  When every group lies within one block
    (and no block is empty), reducing every block on its own, concatenating the per-block results (sorted by label
    when `sort=True`), dropping the repeated `-1` group and reindexing to the expected groups gives, for every
    requested label, the NumPy reduction of that label's members; `fill_value` for labels that do not occur or have
    fewer than `min_count` valid members; `ValueError` exactly when the specification demands a fill and none is given.
    Holds for `c.sort = true` and `c.sort = false`, every such chunking. -/
theorem blockwise_eq_spec (R : Resolved) (s : Shape) (c : Call) (n : Nat) (floatData : Bool)
    (chunks : List Nat) (codes : List Int) (vals : List Val)
    (hR : c.R = R) (heng : c.eng = .npg) (hn : c.ngroups = n) (_hknown : c.knownLabels = true)
    (hshape : R.shape? = some s) (hcodes : CodesOK codes n) (hlen : codes.length = vals.length)
    (hsum : chunks.sum = codes.length) (hpos : ∀ k ∈ chunks, 0 < k)
    (hone : EachLabelInOneBlock chunks codes)
    (hfill : c.fillArg = R.userFill) (H_allnan : HAllNaN R s)
    (H_dropped : HDropped R (segsOf chunks codes vals)) (H_somelabel : HSomeLabel R codes n) :
    runKnown c (.blockwise false) floatData chunks (codeKeys codes) vals = specResult s.kernel R codes vals n := by
  have hs := (R.shape?_eq_some_iff s).mp hshape
  rw [runKnown_blockwise_slots R s c n floatData chunks codes vals hR heng hn hs hcodes hlen hsum hpos hone hfill
    H_allnan H_dropped H_somelabel, specResult_slots hs]

/-- `method="blockwise"` = eager path (the eager path additionally needs H_absent: it fills absent labels through the
    count mask only) -/
theorem blockwise_eq_eager (R : Resolved) (s : Shape) (c : Call) (n : Nat) (floatData : Bool)
    (chunks chunks' : List Nat) (codes : List Int) (vals : List Val)
    (hR : c.R = R) (heng : c.eng = .npg) (hn : c.ngroups = n) (hknown : c.knownLabels = true)
    (hshape : R.shape? = some s) (hcodes : CodesOK codes n) (hlen : codes.length = vals.length)
    (hsum : chunks.sum = codes.length) (hpos : ∀ k ∈ chunks, 0 < k)
    (hone : EachLabelInOneBlock chunks codes)
    (hfill : c.fillArg = R.userFill) (H_allnan : HAllNaN R s)
    (H_dropped : HDropped R (segsOf chunks codes vals)) (H_somelabel : HSomeLabel R codes n)
    (H_absent : ∀ g : Nat, g < n → HAbsent R (members (Int.ofNat g) codes vals)) :
    runKnown c (.blockwise false) floatData chunks (codeKeys codes) vals
      = runKnown c .eager floatData chunks' (codeKeys codes) vals := by
  rw [blockwise_eq_spec R s c n floatData chunks codes vals hR heng hn hknown hshape hcodes hlen hsum hpos hone hfill
      H_allnan H_dropped H_somelabel,
    eager_eq_spec R s c n floatData chunks' codes vals hR heng hn hknown hshape hcodes hlen H_absent H_allnan]

/-- the result does not depend on the chunking (among the chunkings that keep every group within one block) nor
    on `sort` -/
theorem blockwise_chunking_sort_irrelevant (R : Resolved) (s : Shape) (c₁ c₂ : Call) (n : Nat) (floatData : Bool)
    (chunks₁ chunks₂ : List Nat) (codes : List Int) (vals : List Val)
    (hR₁ : c₁.R = R) (heng₁ : c₁.eng = .npg) (hn₁ : c₁.ngroups = n) (hknown₁ : c₁.knownLabels = true)
    (hR₂ : c₂.R = R) (heng₂ : c₂.eng = .npg) (hn₂ : c₂.ngroups = n) (hknown₂ : c₂.knownLabels = true)
    (hshape : R.shape? = some s) (hcodes : CodesOK codes n) (hlen : codes.length = vals.length)
    (hsum₁ : chunks₁.sum = codes.length) (hpos₁ : ∀ k ∈ chunks₁, 0 < k) (hone₁ : EachLabelInOneBlock chunks₁ codes)
    (hsum₂ : chunks₂.sum = codes.length) (hpos₂ : ∀ k ∈ chunks₂, 0 < k) (hone₂ : EachLabelInOneBlock chunks₂ codes)
    (hfill₁ : c₁.fillArg = R.userFill) (hfill₂ : c₂.fillArg = R.userFill) (H_allnan : HAllNaN R s)
    (H_dropped₁ : HDropped R (segsOf chunks₁ codes vals)) (H_dropped₂ : HDropped R (segsOf chunks₂ codes vals))
    (H_somelabel : HSomeLabel R codes n) :
    runKnown c₁ (.blockwise false) floatData chunks₁ (codeKeys codes) vals
      = runKnown c₂ (.blockwise false) floatData chunks₂ (codeKeys codes) vals := by
  rw [blockwise_eq_spec R s c₁ n floatData chunks₁ codes vals hR₁ heng₁ hn₁ hknown₁ hshape hcodes hlen hsum₁ hpos₁
      hone₁ hfill₁ H_allnan H_dropped₁ H_somelabel,
    blockwise_eq_spec R s c₂ n floatData chunks₂ codes vals hR₂ heng₂ hn₂ hknown₂ hshape hcodes hlen hsum₂ hpos₂
      hone₂ hfill₂ H_allnan H_dropped₂ H_somelabel]

/-! ### `.blockwise true` (reindexing at the block stage) on a single block -/

theorem finalizeResults_groups (R : Resolved) (x : Inter) (ex : Option (List Key)) (gs : List Key) (vs : List Val)
    (h : finalizeResults R x ex true = .ok (gs, vs)) : gs = x.groups := by
  unfold finalizeResults at h
  simp only at h
  split at h
  · cases h
  · simp only [Except.ok.injEq, Prod.mk.injEq] at h
    exact h.1.symm

theorem chunkReduce_groups_expected (eng : Eng) (ks : List Kernel) (fills : List Val) (keys : List Key)
    (vals : List Val) (n : Nat) (sort : Bool) :
    (chunkReduce eng ks fills keys vals (some n) sort).groups = rangeKeys n := by
  simp [chunkReduce, factorizeKeys, rangeKeys]

theorem finalReindex_flag (c : Call) (gs : List Key) (vs : List Val) (h : ∀ g ∈ gs, g ≠ some (-1)) :
    finalReindex c true gs vs = finalReindex c false gs vs := by
  have : gs.filter (· = some (-1)) = [] := by
    rw [List.filter_eq_nil_iff]
    intro g hg
    simpa using h g hg
  unfold finalReindex
  simp [this]

theorem rangeKeys_ne_m1 (n : Nat) : ∀ g ∈ rangeKeys n, g ≠ some (-1) := by
  intro g hg
  simp only [rangeKeys, List.mem_map, List.mem_range] at hg
  obtain ⟨i, _, rfl⟩ := hg
  simp only [ne_eq, Option.some.injEq]
  intro e
  have : (Int.ofNat i : Int) = -1 := intRat_m1 _ (by rw [natRat]; exact e)
  simp at this

/-- **`.blockwise true` on a single block = eager path**, for every blueprint, engine and input (with more than one
    block the model returns `ValueError`: see `BWEx.blockwise_true_two_blocks`). -/
theorem blockwise_single_eq_eager (c : Call) (floatData : Bool) (m : Nat) (chunks' : List Nat) (keys : List Key)
    (vals : List Val) (hk : keys.length ≤ m) (hv : vals.length ≤ m) :
    runKnown c (.blockwise true) floatData [m] keys vals = runKnown c .eager floatData chunks' keys vals := by
  simp only [runKnown, splitBy, List.take_of_length_le hk, List.take_of_length_le hv, List.zip_cons_cons,
    List.zip_nil_right, List.map_cons, List.map_nil, if_true, mapM_except_cons, List.mapM_nil]
  cases hfr : finalizeResults { c.R with finalize := "none" }
      (chunkReduce c.eng c.R.numpy c.R.numpyFills keys vals (some c.ngroups) c.sort)
      (some (rangeKeys c.ngroups)) true with
  | error e => rfl
  | ok r =>
    obtain ⟨gs, vs⟩ := r
    have hg := finalizeResults_groups _ _ _ gs vs hfr
    rw [chunkReduce_groups_expected] at hg
    subst hg
    simp only [pure, Except.pure]
    exact finalReindex_flag c _ vs (rangeKeys_ne_m1 c.ngroups)


/-! ### `sort` and the eager path -/

/-- after factorisation to codes with a `RangeIndex` (`expected = some n`), `chunk_reduce` ignores `sort` -/
theorem chunkReduce_expected_sort (eng : Eng) (ks : List Kernel) (fills : List Val) (keys : List Key)
    (vals : List Val) (n : Nat) (b b' : Bool) :
    chunkReduce eng ks fills keys vals (some n) b = chunkReduce eng ks fills keys vals (some n) b' := rfl

/-- **the eager path does not depend on `sort`** (for every blueprint, engine and input); in particular
    `eager_eq_spec`, which has no hypothesis on `c.sort`, covers `sort=False` -/
theorem eager_sort_irrelevant (c : Call) (b : Bool) (floatData : Bool) (chunks : List Nat) (keys : List Key)
    (vals : List Val) :
    runKnown { c with sort := b } .eager floatData chunks keys vals = runKnown c .eager floatData chunks keys vals := rfl

end BW
end Flox
