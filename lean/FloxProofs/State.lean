/-
  Lemmas for C14: registry invariance, memo tables, history independence, merged graphs, names.
-/
import FloxModel.State

namespace Flox.State

/-! ## registry -/

theorem initializeWith_true_registry (reg : Registry) (a : InitArgs) : (initializeWith true reg a).1 = reg := by
  unfold initializeWith
  cases a.func with
  | named f => simp only []; split <;> simp
  | user bp => simp

theorem scanInitWith_true_registry (reg : Registry) (f d : String) : (scanInitWith true reg f d).1 = reg := by
  unfold scanInitWith
  split <;> simp

theorem stepWith_true_registry (s : State) (c : ApiCall) : (stepWith true s c).1.registry = s.registry := by
  cases c <;> simp [stepWith, initializeWith_true_registry, scanInitWith_true_registry]

theorem runWith_true_registry (cs : List ApiCall) : ∀ s : State, (runWith true s cs).registry = s.registry := by
  induction cs with
  | nil => intro s; rfl
  | cons c cs ih =>
    intro s
    show (runWith true (stepWith true s c).1 cs).registry = s.registry
    rw [ih, stepWith_true_registry]

theorem initializeWith_true_user (reg : Registry) (a : InitArgs) (bp : Blueprint) (h : a.func = .user bp) :
    (initializeWith true reg a).2.userAfter = some bp := by
  unfold initializeWith
  rw [h]
  simp

/-! ## memo tables -/

section Memo
variable {α κ β : Type} [BEq κ]

/-- every live binding of the table holds the value of the pure function -/
def MemoSound (key : α → κ) (f : α → β) (tbl : List (κ × β)) : Prop :=
  ∀ a b, tbl.lookup (key a) = some b → b = f a

/-- the key determines the value (true when the key is an injective token of the full argument) -/
def KeyCovers (key : α → κ) (f : α → β) : Prop := ∀ a a', key a = key a' → f a = f a'

theorem memoSound_nil (key : α → κ) (f : α → β) : MemoSound key f [] := by
  intro a b h; simp at h

theorem memoCall_result (key : α → κ) (f : α → β) (tbl : List (κ × β)) (a : α) (h : MemoSound key f tbl) :
    (memoCall key f tbl a).2 = f a := by
  unfold memoCall
  cases hl : tbl.lookup (key a) with
  | none => rfl
  | some b => exact h a b hl

theorem memoCall_sound [LawfulBEq κ] (key : α → κ) (f : α → β) (tbl : List (κ × β)) (a : α) (hk : KeyCovers key f)
    (h : MemoSound key f tbl) : MemoSound key f (memoCall key f tbl a).1 := by
  unfold memoCall
  cases hl : tbl.lookup (key a) with
  | some b => exact h
  | none =>
    intro a' b' hb
    simp only [List.lookup_cons] at hb
    by_cases he : key a' == key a
    · simp [he] at hb
      rw [← hb]
      exact hk a a' (eq_of_beq he).symm
    · simp [he] at hb
      exact h a' b' hb

theorem lookup_evict [LawfulBEq κ] (keep : κ → Bool) (tbl : List (κ × β)) (k : κ) :
    (evict keep tbl).lookup k = if keep k then tbl.lookup k else none := by
  induction tbl with
  | nil => simp [evict]
  | cons e rest ih =>
    obtain ⟨k', v⟩ := e
    unfold evict at ih ⊢
    by_cases hk' : keep k'
    · simp only [List.filter_cons, hk', if_true, List.lookup_cons]
      by_cases he : k == k'
      · have : k = k' := eq_of_beq he
        subst this
        simp [hk']
      · simp [he, ih]
    · simp only [List.filter_cons, hk', List.lookup_cons]
      by_cases he : k == k'
      · have : k = k' := eq_of_beq he
        subst this
        simp [hk', ih]
      · simp [he, ih]

theorem evict_sound [LawfulBEq κ] (key : α → κ) (f : α → β) (keep : κ → Bool) (tbl : List (κ × β)) (h : MemoSound key f tbl) :
    MemoSound key f (evict keep tbl) := by
  intro a b hb
  rw [lookup_evict] at hb
  by_cases hk : keep (key a)
  · simp [hk] at hb; exact h a b hb
  · simp [hk] at hb

end Memo

/-! ## histories -/

/-- the invariant of the two caches -/
def Inv (s : State) : Prop := MemoSound id optimalFn s.chunkCache ∧ MemoSound id partsFn s.partsCache

theorem keyCovers_id {α β : Type} (f : α → β) : KeyCovers id f := by
  intro a a' h; simp at h; rw [h]

theorem inv_fresh (reg : Registry) : Inv (fresh reg) := ⟨memoSound_nil _ _, memoSound_nil _ _⟩

theorem stepWith_inv (copy : Bool) (s : State) (c : ApiCall) (h : Inv s) : Inv (stepWith copy s c).1 := by
  obtain ⟨h1, h2⟩ := h
  cases c with
  | init a => exact ⟨h1, h2⟩
  | scanInit f d => exact ⟨h1, h2⟩
  | optimalChunks ch l => exact ⟨memoCall_sound id optimalFn _ _ (keyCovers_id _) h1, h2⟩
  | getParts se ch => exact ⟨h1, memoCall_sound id partsFn _ _ (keyCovers_id _) h2⟩
  | evictChunks n =>
    refine ⟨?_, h2⟩
    simp only [stepWith]
    exact evict_sound _ _ _ _ h1
  | evictParts n =>
    refine ⟨h1, ?_⟩
    simp only [stepWith]
    exact evict_sound _ _ _ _ h2

theorem runWith_inv (copy : Bool) (cs : List ApiCall) : ∀ s : State, Inv s → Inv (runWith copy s cs) := by
  induction cs with
  | nil => intro s h; exact h
  | cons c cs ih => intro s h; exact ih _ (stepWith_inv copy s c h)

theorem stepWith_true_result (s : State) (c : ApiCall) (h : Inv s) : (stepWith true s c).2 = pureResult s.registry c := by
  obtain ⟨h1, h2⟩ := h
  cases c with
  | init a =>
    simp only [stepWith, pureResult, initializeWith]
    cases hf : a.func with
    | named f => simp only []; split <;> simp [*]
    | user bp => simp
  | scanInit f d =>
    simp only [stepWith, pureResult, scanInitWith]
    split <;> simp [*]
  | optimalChunks ch l =>
    simp only [stepWith, pureResult]
    rw [memoCall_result id optimalFn s.chunkCache (ch, l) h1]
    rfl
  | getParts se ch =>
    simp only [stepWith, pureResult]
    rw [memoCall_result id partsFn s.partsCache (se, ch) h2]
    rfl
  | evictChunks n => rfl
  | evictParts n => rfl

theorem history_independent_aux (s : State) (cs : List ApiCall) (c : ApiCall) (h : Inv s) :
    (stepWith true (runWith true s cs) c).2 = pureResult s.registry c := by
  rw [stepWith_true_result _ _ (runWith_inv true cs s h), runWith_true_registry]

theorem traceWith_true (cs : List ApiCall) : ∀ s : State, Inv s → traceWith true s cs = cs.map (pureResult s.registry) := by
  induction cs with
  | nil => intro s _; rfl
  | cons c cs ih =>
    intro s h
    simp only [traceWith, List.map_cons]
    rw [ih _ (stepWith_inv true s c h), stepWith_true_result s c h, stepWith_true_registry]

/-! ## merged graphs -/

section Merge
variable {κ ω V : Type} [BEq κ] [LawfulBEq κ]

omit [LawfulBEq κ] in
theorem lookup_merge (g₁ g₂ : Graph κ ω) (k : κ) :
    (merge g₁ g₂).lookup k = (g₂.lookup k).or (g₁.lookup k) := by
  unfold merge
  induction g₂ with
  | nil => simp
  | cons e rest ih =>
    obtain ⟨k', t⟩ := e
    simp only [List.cons_append, List.lookup_cons]
    cases k == k' <;> simp [ih]

omit [BEq κ] [LawfulBEq κ] in
theorem mapM_mono (f g : κ → Option V) (l : List κ) (vs : List V)
    (h : ∀ x ∈ l, ∀ v, f x = some v → g x = some v) (hf : l.mapM f = some vs) : l.mapM g = some vs := by
  induction l generalizing vs with
  | nil => simpa using hf
  | cons x xs ih =>
    simp only [List.mapM_cons] at hf ⊢
    cases hx : f x with
    | none => simp [hx] at hf
    | some v =>
      simp only [hx] at hf
      cases hxs : xs.mapM f with
      | none => simp [hxs] at hf
      | some vs' =>
        simp only [hxs] at hf
        rw [h x (List.mem_cons_self) v hx, ih vs' (fun y hy => h y (List.mem_cons_of_mem _ hy)) hxs]
        exact hf

omit [LawfulBEq κ] in
/-- if the graphs agree on shared keys, everything that evaluates in `g₁` evaluates to the same value in the union -/
theorem merge_safe_left (sem : ω → List V → V) (g₁ g₂ : Graph κ ω) (hc : Compatible g₁ g₂) :
    ∀ n k v, eval sem g₁ n k = some v → eval sem (merge g₁ g₂) n k = some v := by
  intro n
  induction n with
  | zero => intro k v h; simp [eval] at h
  | succ n ih =>
    intro k v h
    unfold eval at h ⊢
    cases h1 : g₁.lookup k with
    | none => simp [h1] at h
    | some t₁ =>
      have hm : (merge g₁ g₂).lookup k = some t₁ := by
        rw [lookup_merge]
        cases h2 : g₂.lookup k with
        | none => simp [h1]
        | some t₂ => simp [hc k t₁ t₂ h1 h2]
      simp only [h1] at h
      simp only [hm]
      cases hd : t₁.deps.mapM (eval sem g₁ n) with
      | none => simp [hd] at h
      | some vs =>
        rw [mapM_mono _ _ _ vs (fun x _ v hx => ih x v hx) hd]
        simpa [hd] using h

omit [LawfulBEq κ] in
/-- the later graph wins every shared key, so its results are untouched by the union (no hypothesis needed) -/
theorem merge_safe_right (sem : ω → List V → V) (g₁ g₂ : Graph κ ω) :
    ∀ n k v, eval sem g₂ n k = some v → eval sem (merge g₁ g₂) n k = some v := by
  intro n
  induction n with
  | zero => intro k v h; simp [eval] at h
  | succ n ih =>
    intro k v h
    unfold eval at h ⊢
    cases h2 : g₂.lookup k with
    | none => simp [h2] at h
    | some t₂ =>
      have hm : (merge g₁ g₂).lookup k = some t₂ := by rw [lookup_merge, h2]; rfl
      simp only [h2] at h
      simp only [hm]
      cases hd : t₂.deps.mapM (eval sem g₂ n) with
      | none => simp [hd] at h
      | some vs =>
        rw [mapM_mono _ _ _ vs (fun x _ v hx => ih x v hx) hd]
        simpa [hd] using h

omit [LawfulBEq κ] in
theorem compatible_symm (g₁ g₂ : Graph κ ω) (h : Compatible g₁ g₂) : Compatible g₂ g₁ :=
  fun k t₂ t₁ h2 h1 => (h k t₁ t₂ h1 h2).symm

theorem lookup_some_mem {β : Type} (l : List (κ × β)) (k : κ) (v : β) (h : l.lookup k = some v) : (k, v) ∈ l := by
  induction l with
  | nil => simp at h
  | cons e rest ih =>
    obtain ⟨k', v'⟩ := e
    simp only [List.lookup_cons] at h
    by_cases he : k == k'
    · simp [he] at h
      have : k = k' := eq_of_beq he
      subst this; subst h
      exact List.mem_cons_self
    · simp [he] at h
      exact List.mem_cons_of_mem _ (ih h)

end Merge

/-! ## names -/

theorem mem_kind_all (k : Kind) : k ∈ Kind.all := by cases k <;> simp [Kind.all]

theorem tokenCovers_meaning (h : tokenCovers = true) (k : Kind) (i : Ingredient) (hi : i ∈ meaningOfKind k) :
    i ∈ fieldsOfKind k := by
  unfold tokenCovers at h
  rw [List.all_eq_true] at h
  have hk := h k (mem_kind_all k)
  rw [Bool.and_eq_true] at hk
  have := hk.1
  rw [List.all_eq_true] at this
  have := this i hi
  simpa using this

theorem tokenCovers_deps (h : tokenCovers = true) (k d : Kind) (hd : d ∈ depsOfKind k) (i : Ingredient)
    (hi : i ∈ fieldsOfKind d) : i ∈ fieldsOfKind k := by
  unfold tokenCovers at h
  rw [List.all_eq_true] at h
  have hk := h k (mem_kind_all k)
  rw [Bool.and_eq_true] at hk
  have := hk.2
  rw [List.all_eq_true] at this
  have := this d hd
  rw [List.all_eq_true] at this
  have := this i hi
  simpa using this

/-- equal names ⇒ equal tasks, when the token covers -/
theorem layerTask_eq_of_name_eq (h : tokenCovers = true) (c₁ c₂ : Config) (k₁ k₂ : Kind)
    (hn : layerName c₁ k₁ = layerName c₂ k₂) : layerTask c₁ k₁ = layerTask c₂ k₂ := by
  unfold layerName at hn
  have hk : k₁ = k₂ := (Prod.mk.inj hn).1
  subst hk
  have hf : (fieldsOfKind k₁).map c₁ = (fieldsOfKind k₁).map c₂ := (Prod.mk.inj hn).2
  have hagree : ∀ i ∈ fieldsOfKind k₁, c₁ i = c₂ i := List.map_inj_left.mp hf
  unfold layerTask
  have hm : (meaningOfKind k₁).map c₁ = (meaningOfKind k₁).map c₂ :=
    List.map_inj_left.mpr fun i hi => hagree i (tokenCovers_meaning h k₁ i hi)
  have hd : (depsOfKind k₁).map (layerName c₁) = (depsOfKind k₁).map (layerName c₂) :=
    List.map_inj_left.mpr fun d hd => by
      unfold layerName
      have : (fieldsOfKind d).map c₁ = (fieldsOfKind d).map c₂ :=
        List.map_inj_left.mpr fun i hi => hagree i (tokenCovers_deps h k₁ d hd i hi)
      rw [this]
  rw [hm, hd]

theorem configGraph_lookup (c : Config) (key : LayerKey) (t : Task LayerKey LayerOp)
    (h : (configGraph c).lookup key = some t) : ∃ k, key = layerName c k ∧ t = layerTask c k := by
  have hm := lookup_some_mem _ _ _ h
  unfold configGraph at hm
  rw [List.mem_map] at hm
  obtain ⟨k, _, hk⟩ := hm
  exact ⟨k, (Prod.mk.inj hk).1.symm, (Prod.mk.inj hk).2.symm⟩

theorem configGraph_compatible (h : tokenCovers = true) (c₁ c₂ : Config) :
    Compatible (configGraph c₁) (configGraph c₂) := by
  intro key t₁ t₂ h1 h2
  obtain ⟨k₁, hk1, ht1⟩ := configGraph_lookup c₁ key t₁ h1
  obtain ⟨k₂, hk2, ht2⟩ := configGraph_lookup c₂ key t₂ h2
  rw [ht1, ht2]
  exact layerTask_eq_of_name_eq h c₁ c₂ k₁ k₂ (hk1.symm.trans hk2)

end Flox.State
