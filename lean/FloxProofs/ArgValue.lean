/-
  The value column of the NaN-skipping arg-reductions after flox commit 41daa06: chunk `nanmax`, combine `nanmax`,
  intermediate fill NaN (`nanargmax`; `nanmin` for `nanargmin`).  This triple is not one of `floatColumns` (the plain
  `nanmax` aggregation uses the fill -inf), but it satisfies the same decomposition law: a block where the group is
  absent or all-NaN contributes NaN, which the NaN-skipping combine ignores.
-/
import FloxProofs.IntFill

namespace Flox

/-- NaN for "no valid member", else the extreme of the valid members -/
def optExt (ext : List Val → Val) (l : List Val) : Val := if l = [] then Val.nan else ext l

theorem blockVal_nanmax_nan (ms : List Val) : blockVal .nanmax Val.nan ms = optExt vmax (dropNaN ms) := by
  rw [blockVal_nanmax_eq]
  unfold optExt blockVal
  cases h : dropNaN ms with
  | nil => rfl
  | cons x xs => simp [Kernel.skipsNaN, kEval]

theorem blockVal_nanmin_nan (ms : List Val) : blockVal .nanmin Val.nan ms = optExt vmin (dropNaN ms) := by
  rw [blockVal_nanmin_eq]
  unfold optExt blockVal
  cases h : dropNaN ms with
  | nil => rfl
  | cons x xs => simp [Kernel.skipsNaN, kEval]

theorem combineVal_nanmax (xs : List Val) : combineVal .nanmax xs = optExt vmax (dropNaN xs) := by
  unfold combineVal optExt
  cases h : dropNaN xs <;> simp [kEval, h]

theorem combineVal_nanmin (xs : List Val) : combineVal .nanmin xs = optExt vmin (dropNaN xs) := by
  unfold combineVal optExt
  cases h : dropNaN xs <;> simp [kEval, h]

/-- the generic induction: `ext` is `vmax` / `vmin`, `op` is `Val.max` / `Val.min` -/
theorem optExt_parts (ext : List Val → Val) (op : Val → Val → Val)
    (hcons : ∀ x xs, xs ≠ [] → ext (x :: xs) = op x (ext xs)) (hone : ∀ x, ext [x] = x)
    (happ : ∀ xs ys, xs ≠ [] → ys ≠ [] → ext (xs ++ ys) = op (ext xs) (ext ys))
    (hnn : ∀ l, l ≠ [] → (∀ x ∈ l, x.isNaN = false) → (ext l).isNaN = false)
    (parts : List (List Val)) :
    optExt ext (dropNaN (parts.map fun p => optExt ext (dropNaN p))) = optExt ext (dropNaN parts.flatten) := by
  induction parts with
  | nil => rfl
  | cons p ps ih =>
    simp only [List.map_cons, List.flatten_cons, dropNaN_append]
    by_cases hp : dropNaN p = []
    · have : optExt ext (dropNaN p) = Val.nan := by simp [optExt, hp]
      rw [this, hp, List.nil_append]
      simpa [dropNaN] using ih
    · have hv : optExt ext (dropNaN p) = ext (dropNaN p) := by simp [optExt, hp]
      have hvn : (ext (dropNaN p)).isNaN = false := hnn _ hp (fun x hx => (mem_dropNaN.mp hx).2)
      rw [hv, dropNaN_cons]
      simp only [hvn, Bool.false_eq_true, if_false]
      -- R: valid block values of the rest; D: valid members of the rest
      generalize hR : dropNaN (ps.map fun p => optExt ext (dropNaN p)) = R at ih ⊢
      generalize hD : dropNaN ps.flatten = D at ih ⊢
      have hRn : ∀ x ∈ R, x.isNaN = false := by
        intro x hx; rw [← hR] at hx; exact (mem_dropNaN.mp hx).2
      have hDn : ∀ x ∈ D, x.isNaN = false := by
        intro x hx; rw [← hD] at hx; exact (mem_dropNaN.mp hx).2
      have hl : optExt ext (ext (dropNaN p) :: R) = ext (ext (dropNaN p) :: R) := by simp [optExt]
      have hr : optExt ext (dropNaN p ++ D) = ext (dropNaN p ++ D) := by
        simp [optExt, hp]
      rw [hl, hr]
      by_cases hRe : R = []
      · subst hRe
        have hDe : D = [] := by
          by_cases hne : D = []
          · exact hne
          · have : optExt ext D = ext D := by simp [optExt, hne]
            rw [this] at ih
            have h1 := hnn D hne hDn
            simp [optExt] at ih
            rw [← ih] at h1
            exact absurd h1 (by decide)
        subst hDe
        simp [hone]
      · have hRv : optExt ext R = ext R := by simp [optExt, hRe]
        have hDe : D ≠ [] := by
          intro he
          subst he
          rw [hRv] at ih
          have h1 := hnn R hRe hRn
          simp [optExt] at ih
          rw [ih] at h1
          exact absurd h1 (by decide)
        have hDv : optExt ext D = ext D := by simp [optExt, hDe]
        rw [hRv, hDv] at ih
        rw [hcons _ _ hRe, happ _ _ hp hDe, ih]

/-- **value column of `nanargmax`**: (nanmax, nanmax, NaN) satisfies the decomposition law, for every split -/
theorem combine_nanmax_nanfill (parts : List (List Val)) :
    combineVal .nanmax (parts.map (blockVal .nanmax Val.nan)) = blockVal .nanmax Val.nan parts.flatten := by
  rw [combineVal_nanmax, blockVal_nanmax_nan,
    show blockVal .nanmax Val.nan = fun p => optExt vmax (dropNaN p) from funext blockVal_nanmax_nan]
  exact optExt_parts vmax Val.max (fun x xs _ => vmax_cons x xs) (fun x => rfl)
    (fun xs ys _ _ => vmax_append xs ys) (fun l _ h => vmax_isNaN_false h) parts

theorem combine_nanmin_nanfill (parts : List (List Val)) :
    combineVal .nanmin (parts.map (blockVal .nanmin Val.nan)) = blockVal .nanmin Val.nan parts.flatten := by
  rw [combineVal_nanmin, blockVal_nanmin_nan,
    show blockVal .nanmin Val.nan = fun p => optExt vmin (dropNaN p) from funext blockVal_nanmin_nan]
  exact optExt_parts vmin Val.min (fun x xs _ => vmin_cons x xs) (fun x => rfl)
    (fun xs ys _ _ => vmin_append xs ys) (fun l _ h => vmin_isNaN_false h) parts

end Flox
