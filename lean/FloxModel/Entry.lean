/-
  Entry-point logic of `groupby_reduce` for one 1-D grouper: `_convert_expected_groups_to_index`,
  `_factorize_multiple` / `_factorize_single` (categorical labels), the implicit `min_count` rule, the NaN fill
  for `nansum`/`nanprod`, then the pipeline of `Pipeline.lean`, and the returned group labels.
-/
import FloxModel.Tables
import FloxModel.Spec

namespace Flox

/-- `_factorize_single` for a categorical grouper (not bins).  With `expected`: `np.searchsorted` on the
    (optionally sorted) labels, `-1` for labels not among them or NaN; without: `pd.factorize(sort=sort)`. -/
def factorizeLabels (labels : List Key) (expected : Option (List Rat)) (sort : Bool) : List Rat × List Int :=
  match expected with
  | some ex =>
    let groups := if sort then ex.mergeSort (fun a b => decide (a ≤ b)) else ex
    let codes := labels.map fun l =>
      match l with
      | none => (-1 : Int)
      | some r => match indexOf? r groups with
        | some i => (i : Int)
        | none => -1
    (groups, codes)
  | none => factorizeKeys labels none sort

structure Request where
  func : String
  dkind : String
  fill : Option Val
  minCount : Option Nat
  ddof : Nat
  eng : Eng
  sort : Bool
  expected : Option (List Rat)
  known : Bool               -- labels known when the graph is built (numpy labels, or dask labels with expected)
  splitEvery : Nat
  floatData : Bool
deriving Repr

def fillKindOf : Option Val → String
  | none => "none"
  | some .nan => "nan"
  | some (.fin q) => if q = 0 then "zero" else if q ≥ 32768 ∨ q < -32768 then "big" else "neg"
  | some _ => "neg"

/-- effective `min_count` and `fill_value` (`groupby_reduce`, all label axes reduced) -/
def effective (rq : Request) : Nat × Option Val :=
  let mc := match rq.minCount with
    | none => if rq.fill.isSome && rq.expected.isSome then 1 else 0
    | some m => m
  let fill := if mc > 0 && (rq.func = "nansum" || rq.func = "nanprod") && rq.fill.isNone then some Val.nan else rq.fill
  (mc, fill)

inductive Outcome where
  | ok (groups : List Key) (vals : List Val)
  | err (kind : String)
  | unsupported (why : String)
deriving Repr

def run (rows : List InitRow) (rq : Request) (plan : Plan) (chunks : List Nat) (labels : List Key)
    (vals : List Val) : Outcome :=
  let (mc, fill) := effective rq
  match findInit rows rq.func rq.dkind (fillKindOf fill) (mc > 0) with
  | none => .unsupported "no-init-row"
  | some row =>
    if !row.ok then .err row.err else
    match row.resolve fill mc rq.ddof with
    | none => .unsupported "unresolved-row"
    | some R =>
      if rq.known then
        let (groups, codes) := factorizeLabels labels rq.expected rq.sort
        let c : Call := { R := R, eng := rq.eng, sort := rq.sort, ngroups := groups.length, knownLabels := true,
                          fillArg := fill, splitEvery := rq.splitEvery }
        let keys : List Key := codes.map fun (i : Int) => some (i : Rat)
        match runKnown c plan rq.floatData chunks keys vals with
        | .ok vs => .ok (groups.map some) vs
        | .error e => .err e
      else
        let c : Call := { R := R, eng := rq.eng, sort := rq.sort, ngroups := 0, knownLabels := false,
                          fillArg := fill, splitEvery := rq.splitEvery }
        match runUnknown c chunks labels vals with
        | .ok (gs, vs) => .ok gs vs
        | .error e => .err e

/-- the specification for the same request: per requested (or present) label, NumPy on the members -/
def specRun (rq : Request) (labels : List Key) (vals : List Val) : Outcome :=
  let (mc, fill) := effective rq
  let k? := kernelWithDdof rq.ddof rq.func
  match k? with
  | none => .unsupported "no-kernel"
  | some k =>
    let (groups, codes) := factorizeLabels labels rq.expected true
    -- nanmin / nanmax have no identity: when no positive min_count is in force flox documents an effective
    -- min_count of 1 for them, with NaN as the default fill
    let hack := (rq.func = "nanmin" || rq.func = "nanmax") && mc = 0
    let fill := if hack && fill.isNone then some Val.nan else fill
    let mc := if hack then 1 else mc
    match Spec.reduce k mc fill codes vals groups.length with
    | some vs => .ok (groups.map some) vs
    | none => .err "ValueError"

end Flox
